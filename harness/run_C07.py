"""C07 — multi-time correlations aligned with their time axes.  See DESIGN.md §4 C07.

Ties
  translator     fragment CorrTimes: arithmetic of `_parse_times`, the axis labels, the
                 dt plumbing, the shape of the index write-back and of the order test.
  correspondence (a) `_parse_times` vs `parseTimes`, exhaustive over small grids;
                 (b) compute_correlations(_nt) with the per-tuple contraction replaced by
                     *tagged* values (each value encodes the step tuple it stands for) vs
                     `corrNt`/`corr2`: parsed steps, axes (bit-exact), NaN mask and the step
                     tuple of every entry;
                 (c) the unmodified code on an environment-free process tensor with a
                     time-dependent system: every entry decoded through single-time calls;
                 (d) which dt reaches the axes / the propagators.
search()         per-entry recomputation with single-time (int, .., int) calls, judged
                 against the property text; independent of the Lean model.
"""
import itertools
import json
import os
import random
import time
import warnings
from decimal import Decimal

import numpy as np

from . import framework as fw
from .framework import rat

PID = "C07"
P = "OQuPyVerif.Props.C07."
THEOREMS = [P + t for t in (
    "aligned", "aligned_index", "indexTuples_valid", "axes_grid", "corr2_ordered", "anti_index",
    "parse_in_range", "parse_int", "parse_float", "parse_list", "parse_interval",
    "parse_slice_forward", "parse_slice_reversed",
    "dt_governs", "dt_tables", "anti_conj", "order_test_exact", "entry_value",
    "coup_op_rebuilt", "sys_corr_feeds", "parse_slice_upto", "sys_corr_steps", "kernel_assembly",
    "kernel_cell_exact", "kernel_cell_algebraic", "kernel_diag_exact",
    "kernel_diag_degenerate_partial",
    "bath_steps_round", "bath_last_time_step", "bath_int_conversions_listed", "bath_steps_literals",
    "occupation_axis", "initial_contribution", "band_widths",
)]

GRIDS = [("0.0", "0.1"), ("0.5", "0.2"), ("-0.3", "0.05"), ("1.7", "0.3")]
TAGB = 1 << 21


# ---------------------------------------------------------------------------
# specs
# ---------------------------------------------------------------------------

def to_py(sp):
    k = sp[0]
    if k == "i":
        return int(sp[1])
    if k == "s":
        return slice(sp[1], sp[2], sp[3])
    if k == "l":
        return [int(x) for x in sp[1]]
    if k == "f":
        return float(sp[1])
    if k == "v":
        return (float(sp[1]), float(sp[2]))
    raise ValueError(sp)


def to_tok(sp):
    k = sp[0]
    if k == "i":
        return "i:%d" % sp[1]
    if k == "s":
        return "s:" + ":".join("N" if x is None else str(x) for x in sp[1:4])
    if k == "l":
        return "l:" + ",".join(str(x) for x in sp[1])
    if k == "f":
        return "f:" + rat(sp[1])
    if k == "v":
        return "v:%s:%s" % (rat(sp[1]), rat(sp[2]))
    raise ValueError(sp)


def spec_json(sp):
    return [sp[0]] + [list(x) if isinstance(x, tuple) else x for x in sp[1:]]


def index_specs(n):
    """every int, every slice with start/stop/step in -n-1..n+1 or None, every list of
    length <= 3 over the valid indices -n-1..n (plus out-of-range ones)"""
    out = [("i", k) for k in range(-n - 2, n + 3)]
    vals = [None] + list(range(-n - 1, n + 2))
    out += [("s", a, b, c) for a in vals for b in vals for c in vals]
    ok = list(range(-n - 1, n + 1))
    for ln in range(0, 4):
        out += [("l", t) for t in itertools.product(ok, repeat=ln)]
    out += [("l", t) for t in [(n + 1,), (-n - 2,), (0, n + 1), (n + 1, 0), (0, -n - 2)]]
    return out


def float_points(n, s_l, d_l, full=True):
    s, d = float(s_l), float(d_l)
    pts = []
    for k in range(-1, n + 2):
        pts.append(s + k * d)                                   # computed grid point
        pts.append(float(Decimal(s_l) + k * Decimal(d_l)))      # decimal literal
        pts.append(s + (k + 0.5) * d)                           # half way (ties)
        if full:
            pts += [s + (k + 0.3) * d, s + (k + 0.7) * d, s + (k + 0.499999) * d]
    return sorted(set(pts))


def float_specs(n, s_l, d_l):
    out = [("f", t) for t in float_points(n, s_l, d_l)]
    pts = float_points(n, s_l, d_l, full=False)
    out += [("v", a, b) for a in pts for b in pts]
    return out


# ---------------------------------------------------------------------------
# running the real code
# ---------------------------------------------------------------------------

def err_kind(e):
    if isinstance(e, IndexError):
        return "err:index"
    if isinstance(e, ValueError) and "zero-size array" in str(e):
        return "err:value"
    if isinstance(e, ValueError) and "No timestep length" in str(e):
        return "err:dtMissing"
    if isinstance(e, AssertionError) and "necessary to specify time step" in str(e):
        return "err:dtMissing"
    if isinstance(e, ValueError) and "same timestep length" in str(e):
        return "err:dtMismatch"
    return "err:other:%s:%s" % (type(e).__name__, str(e)[:80])


def encode(steps):
    """tagged value of a step tuple; the imaginary part carries an offset of 1/4 so that a
    complex conjugation (or a dropped imaginary part) of the returned array is visible"""
    s = list(steps) + [0] * (4 - len(steps))
    return complex(s[0] + TAGB * s[1], s[2] + TAGB * s[3] + 0.25)


def decode(z, n):
    im = z.imag - 0.25
    if abs(z.real - round(z.real)) > 1e-9 or abs(im - round(im)) > 1e-9 or round(im) < 0 \
            or round(z.real) < 0:
        return ("unmatched",)
    re_, im_ = int(round(z.real)), int(round(im))
    s = [re_ % TAGB, re_ // TAGB, im_ % TAGB, im_ // TAGB]
    if any(s[n:]):
        return ("unmatched",)
    return tuple(s[:n])


class Tagged:
    """Replace the per-tuple contraction `_compute_ordered_nt_correlations` by tagged values
    and record what `_parse_times` returns.  Everything else is the real code."""

    def __init__(self):
        import oqupy.system_dynamics as sd
        self.sd = sd

    def __enter__(self):
        sd = self.sd
        self.orig = (sd._compute_ordered_nt_correlations, sd._parse_times)
        self.parsed = []
        self.calls = 0
        self.opcalls = []      # (operators, ops_order) of every contraction call

        def fake(system=None, process_tensor=None, operators=None, first_times=None,
                 last_times=None, ops_order=None, initial_state=None, start_time=0.0, dt=None):
            self.calls += 1
            self.opcalls.append((list(operators), list(ops_order)))
            last_times.max()    # the real function does this first: ValueError when empty
            f = tuple(int(x) for x in first_times)
            return np.array([encode(f + (int(l),)) for l in last_times], dtype=complex)

        def parse(*a, **k):
            r = self.orig[1](*a, **k)
            self.parsed.append([int(x) for x in r])
            return r
        sd._compute_ordered_nt_correlations = fake
        sd._parse_times = parse
        return self

    def __exit__(self, *a):
        self.sd._compute_ordered_nt_correlations, self.sd._parse_times = self.orig


def show_outcome(parsed, times, arr, dec):
    steps = ";".join(",".join(str(k) for k in p) for p in parsed)
    axes = ";".join(",".join(rat(float(t)) for t in ax) for ax in times)
    cells = []
    for z in np.asarray(arr).reshape(-1):
        if np.isnan(z.real) or np.isnan(z.imag):
            cells.append("nan")
        else:
            cells.append(",".join(str(k) for k in dec(z)))
    return "steps=%s|axes=%s|tab=%s" % (steps, axes, " ".join(cells))


class Rig:
    """a 2-level system + environment-free process tensors, cached per length"""

    def __init__(self):
        import oqupy
        from oqupy import operators as op
        from . import oq
        self.oqupy, self.op, self.oq = oqupy, op, oq
        self.sys_td = oqupy.TimeDependentSystem(
            lambda t: (0.3 + t) * op.sigma("x") + 0.7 * t * t * op.sigma("z") + 0.2 * op.sigma("y"))
        self.sys_const = oqupy.System(0.5 * op.sigma("x"))
        self.rho = np.array([[0.7, 0.2 - 0.1j], [0.2 + 0.1j, 0.3]], dtype=complex)
        self.ops = [op.sigma("x") + 0.3 * op.sigma("z"), op.sigma("y") + 0.2 * op.sigma("x"),
                    op.sigma("z") + 0.4 * op.sigma("y"), op.sigma("x") - 0.5 * op.sigma("y")]
        self.pts = {}

    def pt(self, n, dt):
        if (n, dt) not in self.pts:
            self.pts[(n, dt)] = self.oq.identity_pt(n, dt=dt) if n > 0 else \
                self.oq.long_trivial_pt(0, dt=dt)
        return self.pts[(n, dt)]

    def nt(self, n, s, d, pyspecs, system=None, order=None, dt_arg=None, pt=None):
        k = len(pyspecs)
        return self.oqupy.compute_correlations_nt(
            system=system or self.sys_const, process_tensor=pt or self.pt(n, d),
            operators=self.ops[:k], ops_times=list(pyspecs),
            ops_order=order or ["left"] * k, initial_state=self.rho, start_time=s,
            dt=dt_arg, progress_type="silent")

    def two(self, n, s, d, pa, pb, anti, system=None, dt_arg=None, pt=None):
        return self.oqupy.compute_correlations(
            system=system or self.sys_const, process_tensor=pt or self.pt(n, d),
            operator_a=self.ops[0], operator_b=self.ops[1], times_a=pa, times_b=pb,
            time_order="anti" if anti else "ordered", initial_state=self.rho, start_time=s,
            dt=dt_arg, progress_type="silent")


# ---------------------------------------------------------------------------
# correspondence
# ---------------------------------------------------------------------------

def correspondence(res, tier, rng, corpus_cases=()):
    import oqupy.system_dynamics as sd
    rig = Rig()
    lines, expect, meta = [], [], []

    def add(line, exp, m):
        lines.append(line)
        expect.append(exp)
        meta.append(m)

    quick = tier == "quick"
    # ---- (a) _parse_times, exhaustive ---------------------------------------
    by_result = {}      # (n, grid) -> {parsed tuple: [specs]}
    ns = [0, 1, 2, 3, 4] if quick else [0, 1, 2, 3, 4, 5, 6]
    for n in ns:
        idx = index_specs(n)
        for gi, (s_l, d_l) in enumerate(GRIDS):
            s, d = float(s_l), float(d_l)
            specs = (idx if gi == 0 else []) + float_specs(n, s_l, d_l)
            table = by_result.setdefault((n, gi), {})
            for sp in specs:
                try:
                    got = [int(x) for x in sd._parse_times(to_py(sp), n, d, s)]
                    exp = "ok " + " ".join(str(k) for k in got)
                    table.setdefault(tuple(got), []).append(sp)
                except Exception as e:    # noqa: BLE001 - mapped to a small enum
                    exp = err_kind(e)
                add("parse %d %s %s %s" % (n, rat(s), rat(d), to_tok(sp)), exp,
                    ("parse", n, s_l, d_l, spec_json(sp)))
                res.count("parse:" + sp[0] + (":err" if exp.startswith("err") else ""))
            if gi > 0:      # index-kind specs do not depend on the grid
                for k, v in by_result[(n, 0)].items():
                    table.setdefault(k, [])
                    table[k] = [x for x in v if x[0] in "isl"] + table[k]

    # ---- (b) tagged values through the real bookkeeping ----------------------
    def run_tagged(n, gi, specs, mode):
        """mode: 'nt' | 'ordered' | 'anti'"""
        s_l, d_l = GRIDS[gi]
        s, d = float(s_l), float(d_l)
        py = [to_py(sp) for sp in specs]
        k = len(specs)
        with Tagged() as tg:
            try:
                if mode == "nt":
                    times, arr = rig.nt(n, s, d, py)
                else:
                    times, arr = rig.two(n, s, d, py[0], py[1], mode == "anti")
                parsed = tg.parsed
                if mode == "anti":
                    parsed = parsed[::-1]
                exp = show_outcome(parsed, times, arr, lambda z: decode(z, k))
                if mode != "nt":
                    # which operator went where, applied from which side (every call alike)
                    names = {id(rig.ops[0]): "operator_a", id(rig.ops[1]): "operator_b"}
                    sigs = sorted(set(",".join("%s:%s" % (names.get(id(o), "?"), od)
                                               for o, od in zip(ops, ords))
                                      for ops, ords in tg.opcalls))
                    exp += "|call=" + ";".join(sigs)
            except Exception as e:    # noqa: BLE001
                exp = err_kind(e)
        toks = " ".join(to_tok(sp) for sp in specs)
        if mode == "nt":
            line = "corr %d %s %s %s" % (n, rat(s), rat(d), toks)
        else:
            line = "corr2 %d %d %s %s %s" % (1 if mode == "anti" else 0, n, rat(s), rat(d), toks)
        add(line.rstrip(), exp, ("corr", mode, n, s_l, d_l, [spec_json(sp) for sp in specs]))
        res.count("corr:%s:k=%d%s" % (mode, k, ":err" if exp.startswith("err") else ""))

    for c in corpus_cases:
        run_tagged(c["n"], c["grid"], [tuple(tuple(x) if isinstance(x, list) else x for x in sp)
                                       for sp in c["specs"]], c["mode"])
    # two operators: every pair of distinct parsed step lists (representative specs at random)
    nmax_pairs = 3 if quick else 5
    for n in range(0, nmax_pairs + 1):
        keys = sorted(by_result[(n, 0)])
        for a in keys:
            for b in keys:
                gi = rng.randrange(len(GRIDS))
                tab = by_result[(n, gi)]
                mode = rng.choice(["nt", "ordered", "anti", "ordered"])
                sa, sb = rng.choice(tab[a]), rng.choice(tab[b])
                run_tagged(n, gi, [sa, sb], mode)
    # sampled: larger grids for two operators, 3-4 operators, 0/1 operators
    nsamp = 1500 if quick else 20000
    for i in range(nsamp):
        n = rng.choice([4, 5] if quick else [5, 5, 6])
        if n not in ns:
            n = ns[-1]
        gi = rng.randrange(len(GRIDS))
        tab = by_result[(n, gi)]
        keys = sorted(tab)
        k = rng.choice([2, 2, 3, 3, 4])
        small = [x for x in keys if len(x) <= (6 if k == 2 else 4 if k == 3 else 3)]
        specs = [rng.choice(tab[rng.choice(small)]) for _ in range(k)]
        run_tagged(n, gi, specs, "nt" if k != 2 else rng.choice(["nt", "ordered", "anti"]))
    for n in (2,):
        tab = by_result[(n, 0)]
        run_tagged(n, 0, [], "nt")
        for a in sorted(tab)[:12]:
            run_tagged(n, 0, [rng.choice(tab[a])], "nt")
    # out-of-bound / invalid specs inside a full call
    for bad in [("i", 9), ("i", -1), ("s", 0, 2, 0), ("l", (7,)), ("f", 5.0), ("v", 0.0, 5.0),
                ("v", -1.0, 0.1)]:
        run_tagged(3, 0, [("i", 1), bad], "nt")
        run_tagged(3, 0, [bad, ("i", 1)], "ordered")

    # ---- (d) which dt goes where ---------------------------------------------
    for u in (None, 0.1, 0.2):
        for p in (None, 0.1, 0.2):
            seen = []
            sysm = rig.oqupy.System(0.5 * rig.op.sigma("x"))
            orig = sysm.get_propagators

            def spy(dt, *a, _orig=orig, _seen=seen, **k):
                _seen.append(dt)
                return _orig(dt, *a, **k)
            sysm.get_propagators = spy
            try:
                with warnings.catch_warnings():
                    warnings.simplefilter("ignore")
                    times, _ = rig.two(3, 0.0, None, 1, 2, False, system=sysm, dt_arg=u,
                                       pt=rig.oq.identity_pt(3, dt=p))
                exp = "ok %s %s" % (rat(float(times[0][0])), rat(float(seen[-1])))
            except Exception as e:    # noqa: BLE001
                exp = err_kind(e)
            add("dt %s %s" % ("N" if u is None else rat(u), "N" if p is None else rat(p)), exp,
                ("dt", u, p))
            res.count("dt-flow")

    # ---- run the model ---------------------------------------------------------
    t0 = time.time()
    out = fw.run_driver(PID, lines)
    res.notes.append("driver: %d lines in %.1fs" % (len(lines), time.time() - t0))
    if len(out) != len(lines):
        raise fw.Infra("driver returned %d lines for %d inputs" % (len(out), len(lines)))
    sampled = set()
    for line, exp, got, m in zip(lines, expect, out, meta):
        nontrivial = not exp.startswith("err") and exp not in ("ok ",)
        kind = (m[0], m[1]) if m[0] == "corr" else (m[0], m[-1][0] if m[0] == "parse" else "")
        sample = None
        if nontrivial and kind not in sampled and (m[0] != "parse" or m[-1][0] in "sv") \
                and len(exp) > 12:
            sampled.add(kind)
            sample = {"op": line[:200], "impl": exp[:300], "model": got[:300]}
        res.case(line, nontrivial, sample)
        if exp != got:
            res.disagree("model and implementation differ on: " + line[:200],
                         {"line": line, "impl": exp, "model": got, "meta": m})

    # ---- (c) the unmodified code: every entry decoded through single-time calls -
    real_values(res, rig, rng, 24 if quick else 160)
    # ---- (e) real TwoTimeBathCorrelations objects -----------------------------------
    bath_correspondence(res, tier, rng)
    bath_steps_correspondence(res, tier, rng)
    bath_axes_correspondence(res, tier)
    values_correspondence(res, tier)


def value_table(rig, n, s, d, k, mode):
    """single-time calls for every time-ordered step tuple: value -> steps"""
    tab = []
    for steps in itertools.combinations_with_replacement(range(n + 1), k):
        if mode == "nt":
            _, a = rig.nt(n, s, d, list(steps), system=rig.sys_td)
        else:
            # 'anti': entry for (a_n, b_m) with b_m <= a_n; nt steps are (b_m, a_n)
            pa, pb = (steps[0], steps[1]) if mode == "ordered" else (steps[1], steps[0])
            _, a = rig.two(n, s, d, pa, pb, mode == "anti", system=rig.sys_td)
        z = complex(np.asarray(a).reshape(-1)[0])
        tab.append((z, steps))
    zs = np.array([z for z, _ in tab])
    sep = min(abs(zs[i] - zs[j]) for i in range(len(zs)) for j in range(i))
    return tab, sep


def real_values(res, rig, rng, ncases):
    """(c) no wrapping at all: identity process tensor, time-dependent system, so distinct
    step tuples have distinct values; each returned entry is decoded by looking its value up
    among single-time results and compared with the Lean table."""
    tables = {}
    lines, expect, meta = [], [], []
    curated = [
        (3, 0, [("i", 0), ("i", 0)], "nt"),
        (3, 0, [("s", None, None, None), ("s", None, None, -1)], "ordered"),
        (3, 0, [("s", None, None, -1), ("l", (2, 0, 3))], "anti"),
        (3, 0, [("l", (1, 0)), ("s", 0, 3, 2), ("s", None, None, None)], "nt"),
        (3, 0, [("i", 1), ("s", 3, 1, None)], "nt"),
        (3, 1, [("v", 0.5, 1.1), ("v", 1.1, 0.7)], "ordered"),
    ]
    cases = list(curated)
    while len(cases) < ncases:
        n = 3
        gi = rng.randrange(len(GRIDS))
        k = rng.choice([2, 2, 3])
        mode = "nt" if k == 3 else rng.choice(["nt", "ordered", "anti"])
        specs = []
        for _ in range(k):
            kind = rng.choice("islfv")
            s_l, d_l = GRIDS[gi]
            s, d = float(s_l), float(d_l)
            if kind == "i":
                specs.append(("i", rng.randrange(0, n + 1)))
            elif kind == "s":
                specs.append(("s", rng.choice([None, 0, 1, -1, n]), rng.choice([None, 0, 2, -2, n + 1]),
                              rng.choice([None, 1, -1, 2])))
            elif kind == "l":
                specs.append(("l", tuple(rng.sample(range(n + 1), rng.randrange(1, 4)))))
            elif kind == "f":
                specs.append(("f", s + rng.randrange(0, n + 1) * d))
            else:
                specs.append(("v", s + rng.randrange(0, n + 1) * d, s + rng.randrange(0, n + 1) * d))
        cases.append((n, gi, specs, mode))
    for (n, gi, specs, mode) in cases:
        s_l, d_l = GRIDS[gi]
        s, d = float(s_l), float(d_l)
        k = len(specs)
        tkey = (n, gi, k, "anti" if mode == "anti" else "nt" if mode == "nt" else "ordered")
        if tkey not in tables:
            tables[tkey] = value_table(rig, n, s, d, k, tkey[3])
            if tables[tkey][1] < 1e-6:
                raise fw.Infra("tagging system does not separate step tuples (%g)" % tables[tkey][1])
        tab, _sep = tables[tkey]

        def dec(z, tab=tab):
            best = min(tab, key=lambda e: abs(e[0] - z))
            if abs(best[0] - z) > 1e-9:
                return ("unmatched",)
            return best[1]
        py = [to_py(sp) for sp in specs]
        parsed = []
        try:
            import oqupy.system_dynamics as sd
            parsed = [[int(x) for x in sd._parse_times(p, n, d, s)] for p in py]
            if mode == "nt":
                times, arr = rig.nt(n, s, d, py, system=rig.sys_td)
            else:
                times, arr = rig.two(n, s, d, py[0], py[1], mode == "anti", system=rig.sys_td)
            exp = show_outcome(parsed, times, arr, dec)
        except Exception as e:    # noqa: BLE001
            exp = err_kind(e)
        toks = " ".join(to_tok(sp) for sp in specs)
        if mode == "nt":
            line = "corr %d %s %s %s" % (n, rat(s), rat(d), toks)
        else:
            line = "corr2 %d %d %s %s %s" % (1 if mode == "anti" else 0, n, rat(s), rat(d), toks)
        lines.append(line)
        expect.append(exp)
        meta.append(("real", mode, n, s_l, d_l, [spec_json(sp) for sp in specs]))
        res.count("real:%s:k=%d%s" % (mode, k, ":err" if exp.startswith("err") else ""))
    out = fw.run_driver(PID, lines)
    if len(out) != len(lines):
        raise fw.Infra("driver returned %d lines for %d inputs" % (len(out), len(lines)))
    for line, exp, got, m in zip(lines, expect, out, meta):
        got = got.split("|call=")[0]
        res.case("real " + line, not exp.startswith("err"),
                 {"op": "real " + line[:150], "impl": exp[:160], "model": got[:160]})
        if exp != got:
            res.disagree("model and unmodified implementation differ on: " + line[:200],
                         {"line": line, "impl": exp, "model": got, "meta": m})


# ---------------------------------------------------------------------------
# bath correlations derived from system correlations (oqupy/bath_dynamics.py)
# ---------------------------------------------------------------------------

def bath_couplings(rng, nrand):
    """(name, Hermitian coupling operator) -- diagonal, real non-diagonal, complex with a
    non-symmetric eigenvector matrix, 3-level"""
    out = [
        ("diag sigma_z/2", np.diag([0.5, -0.5]).astype(complex)),
        ("real non-diagonal", np.array([[0.8, 0.3], [0.3, -0.1]], dtype=complex)),
        ("complex [[1,-0.5j],[0.5j,0]]", np.array([[1.0, -0.5j], [0.5j, 0.0]])),
        ("complex 3-level", np.array([[0.9, 0.2 - 0.4j, 0.1j], [0.2 + 0.4j, -0.3, 0.5],
                                      [-0.1j, 0.5, 0.2]])),
    ]
    for i in range(nrand):
        d = rng.choice([2, 3])
        m = np.array([[complex(rng.uniform(-1, 1), rng.uniform(-1, 1)) for _ in range(d)]
                      for _ in range(d)])
        out.append(("random complex d=%d #%d" % (d, i), (m + m.conj().T) / 2))
    return out


def generic_state(d):
    v = np.array([1.0 + 0.3j * k + 0.2 * k * k for k in range(d)])
    r = np.outer(v, v.conj()) + np.diag(np.arange(1, d + 1) * 0.35)
    return r / np.trace(r)


class BathRig:
    """a real TwoTimeBathCorrelations object on a real PT-TEMPO process tensor; the
    compute_correlations call it makes is recorded"""

    def __init__(self, o, n=4, dt=0.1, epsrel=1e-6, commuting=False, temperature=2.0):
        import oqupy
        import oqupy.bath_dynamics as bd
        self.bd, self.o, self.n, self.dt = bd, np.array(o, dtype=complex), n, dt
        d = self.o.shape[0]
        self.corr = oqupy.PowerLawSD(alpha=0.1, zeta=1.0, cutoff=10.0, cutoff_type="exponential",
                                     temperature=temperature)
        self.bath = oqupy.Bath(self.o, self.corr)
        if commuting:
            h = 0.7 * self.o
        else:
            g = np.array([[0.3 * (i + 1) * (j + 1) + 0.2j * (i - j) for j in range(d)]
                          for i in range(d)])
            h = (g + g.conj().T) / 2
        self.system = oqupy.System(h)
        self.rho = generic_state(d)
        self.pt = oqupy.pt_tempo_compute(
            bath=self.bath, start_time=0.0, end_time=n * dt,
            parameters=oqupy.TempoParameters(dt=dt, epsrel=epsrel, tcut=None),
            progress_type="silent")
        self.obj = bd.TwoTimeBathCorrelations(self.system, self.bath, self.pt,
                                              initial_state=self.rho)
        self.calls = []

    def __enter__(self):
        orig = self.bd.compute_correlations
        self.orig = orig

        def spy(*a, **k):
            self.calls.append((a, k))
            return orig(*a, **k)
        self.bd.compute_correlations = spy
        return self

    def __exit__(self, *a):
        self.bd.compute_correlations = self.orig

    def direct(self, m):
        """the system correlations the object should hold: <O(t_j) O(t_i)>, i <= j < m, for the
        operator the Bath was given"""
        import oqupy
        _, c = oqupy.compute_correlations(self.system, self.pt, self.o, self.o, slice(m), slice(m),
                                          initial_state=self.rho, progress_type="silent")
        return c


def sys_corr_mismatch(rig, m):
    got = np.array(rig.obj._system_correlations)[:m, :m]
    want = rig.direct(m)
    if got.shape != want.shape:
        return {"shape": list(got.shape), "expected_shape": list(want.shape)}
    if (np.isnan(got) != np.isnan(want)).any():
        return {"nan_mask": "differs"}
    dev = float(np.nanmax(np.abs(got - want)))
    if dev > 1e-10:
        i, j = np.unravel_index(int(np.nanargmax(np.abs(got - want))), got.shape)
        return {"max_deviation": dev, "index": [int(i), int(j)], "got": repr(complex(got[i, j])),
                "direct_compute_correlations_with_the_given_operator": repr(complex(want[i, j]))}
    return None


def bath_correspondence(res, tier, rng):
    from . import tensors
    lines, meta = [], []
    for name, o in bath_couplings(rng, 2 if tier == "quick" else 12):
        d = o.shape[0]
        with BathRig(o) as rig:
            rig.obj.generate_system_correlations(3 * rig.dt, progress_type="silent")
            rig.obj.generate_system_correlations(4 * rig.dt, progress_type="silent")   # extension
            bad = sys_corr_mismatch(rig, 4)
        u, w = rig.bath.unitary_transform, np.diag(rig.bath.coupling_operator)
        lines.append("rebuild %d | %s | %s | %s" % (d, tensors.flat(u), tensors.flat(w), tensors.flat(o)))
        meta.append((name, o, rig.calls, bad))
        res.count("bath:%s" % ("diagonal" if np.allclose(u, np.eye(d)) else
                               "non-diagonal d=%d" % d))
    out = fw.run_driver("C07Bath", lines)
    if len(out) != len(lines):
        raise fw.Infra("driver C07Bath returned %d lines for %d inputs" % (len(out), len(lines)))
    for (name, o, calls, bad), g in zip(meta, out):
        d = o.shape[0]
        payload = {"coupling": name, "operator_re": o.real.tolist(), "operator_im": o.imag.tolist()}
        head, _, body = g.partition(" | ")
        toks = head.split()
        try:
            r = {toks[i]: float(fw.parse_rat(toks[i + 1])) for i in range(0, 6, 2)}
            model_op = np.array([fw.parse_crat(x) for x in body.split()]).reshape(d, d)
        except Exception:    # noqa: BLE001
            res.disagree("bath driver answer unreadable: " + g[:120], payload)
            continue
        res.case("bath " + name, True, {"op": "rebuild (%s)" % name, "residuals_sq": r,
                                         "model": "max|rebuilt-O| = %.1e" % np.abs(model_op - o).max()})
        if any(v > 1e-20 for v in r.values()):
            res.disagree("Bath's (U, w) is not a diagonalisation of the given operator (%s)" % name,
                         dict(payload, residuals_sq=r))
        # the two calls: first [0,3)x[0,3), then the extension [0,4)x[3,4)
        want_times = [(slice(3), slice(3)), (slice(4), slice(3, 4))]
        if len(calls) != 2:
            res.disagree("generate_system_correlations made %d compute_correlations calls" % len(calls),
                         payload)
            continue
        for (a, k), (ta, tb) in zip(calls, want_times):
            if len(a) != 6 or a[2] is not a[3] or "time_order" in k or a[4] != ta or a[5] != tb \
                    or sorted(k) != ["initial_state", "progress_type"]:
                res.disagree("compute_correlations is not called as the model says (%s)" % name,
                             dict(payload, args=repr(a[4:]), kwargs=sorted(k)))
            dev = float(np.abs(np.asarray(a[2]) - model_op).max())
            if dev > 1e-12:
                res.disagree("operator handed to compute_correlations differs from the model's "
                             "(regenerated operand order) by %.3g (%s)" % (dev, name), payload)
        if bad:
            res.disagree("system correlations held by TwoTimeBathCorrelations differ from "
                         "compute_correlations with the operator given to Bath (%s)" % name,
                         dict(payload, **bad))


class _Recorder:
    """stands in for `_system_correlations`: records the index expressions applied to it"""

    def __init__(self, arr):
        self.arr, self.keys = arr, []
        self.shape, self.size = arr.shape, arr.size

    def __getitem__(self, key):
        self.keys.append(key)
        return self.arr[key]


def literal_times(dt_lit, mmax):
    """grid times as a user writes them: decimal literals m*dt, products m*dt, and off-grid points"""
    d = Decimal(dt_lit)
    dt = float(dt_lit)
    out = []
    for m in range(0, mmax + 1):
        out.append(float(d * m))        # the decimal literal, e.g. 0.3
        out.append(m * dt)              # computed
        out.append((m + 0.3) * dt)      # off grid
    return sorted(set(out))


def bath_steps_correspondence(res, tier, rng):
    """every float time -> step conversion of the bath-correlation code vs the regenerated Lean
    functions, exactly: the slice stop handed to compute_correlations, the slice of the system
    correlations, the kernel size and the region boundary `switch` (read off the real kernel)."""
    import oqupy
    import oqupy.bath_dynamics as bd
    from . import oq
    lines, expect, meta = [], [], []
    o = np.diag([0.5, -0.5]).astype(complex)
    corr = oqupy.PowerLawSD(alpha=0.1, zeta=1.0, cutoff=10.0, cutoff_type="exponential",
                            temperature=2.0)
    bath = oqupy.Bath(o, corr)
    system = oqupy.System(0.3 * o)
    rho = generic_state(2)
    big = np.triu(np.arange(1, 61 * 61 + 1).reshape(61, 61) * (0.01 + 0.003j))
    orig_cc = bd.compute_correlations
    for dt_lit, mmax in (("0.1", 20 if tier == "quick" else 50), ("0.05", 12 if tier == "quick" else 40),
                         ("0.2", 10 if tier == "quick" else 30)):
        dt = float(dt_lit)
        obj = bd.TwoTimeBathCorrelations(system, bath, oq.long_trivial_pt(60, dt=dt), initial_state=rho)
        times = literal_times(dt_lit, mmax)
        kernels = []
        orig_kernel = obj._calc_kernel

        def spy_kernel(*a, _k=kernels, _o=orig_kernel, **kw):
            r = _o(*a, **kw)
            _k.append(r)
            return r
        obj._calc_kernel = spy_kernel
        pairs = [(t1, t2) for t2 in times for t1 in times if t1 <= t2 and t2 >= dt]
        if tier == "quick":
            lit = {float(Decimal(dt_lit) * m) for m in range(mmax + 1)}
            pairs = [p for p in pairs if p[0] in lit and p[1] in lit] + rng.sample(pairs, 150)
        for (t1, t2) in pairs:
            seen = {}

            def fake_cc(system_, pt_, a_, b_, ta, tb, **k):
                seen["cmd"] = ta.stop
                c0 = tb.start or 0
                return None, np.zeros((ta.stop, tb.stop - c0), dtype=complex)
            bd.compute_correlations = fake_cc
            try:
                # a genuinely empty 0x0 matrix (the constructor's `[[]]` has shape (1, 0), which makes
                # a first request for a single step a no-op -- reported separately)
                obj._system_correlations = np.zeros((0, 0), dtype=complex)
                obj.generate_system_correlations(t2, progress_type="silent")
            finally:
                bd.compute_correlations = orig_cc
            rec = _Recorder(big)
            obj._system_correlations = rec
            obj.generate_system_correlations = lambda *a, **k: None
            del kernels[:]
            try:
                obj.correlation(1.0, t1, 3.0, t2, dagg=(1, 0), progress_type="silent")
                re_k = kernels[-1][0]
                sw = int(np.count_nonzero(np.abs(re_k).sum(axis=1) > 0))
                exp = "cmd=%d corr=%d ker=%d switch=%d" % (seen["cmd"], rec.keys[-1][0].stop,
                                                           re_k.shape[0], sw)
            except Exception as e:    # noqa: BLE001
                exp = "cmd=%s err:%s" % (seen.get("cmd"), type(e).__name__)
            finally:
                del obj.generate_system_correlations
            lines.append("steps %s %s %s" % (rat(t1), rat(t2), rat(dt)))
            expect.append(exp)
            meta.append(("bath-steps", dt_lit, t1, t2))
            res.count("bath-steps:dt=" + dt_lit)
        # occupation: last_time = len(process_tensor) * dt
        for n in ([3, 7, 43, 59] if tier == "quick" else list(range(1, 60))):
            obj2 = bd.TwoTimeBathCorrelations(system, bath, oq.long_trivial_pt(n, dt=dt),
                                              initial_state=rho)
            got = {}
            obj2._system_correlations = np.zeros((n + 2, n + 2), dtype=complex)
            og, ok = obj2.generate_system_correlations, obj2._calc_kernel

            def spy_gen(final_time, *a, _g=got, **k):
                _g["last"] = final_time
                _g["cmd"] = int(np.round(final_time / dt))      # only used if the real one is skipped

            def spy_k(*a, _g=got, _o=ok, **k):
                r = _o(*a, **k)
                _g["ker"] = r[0].shape[0]
                _g["switch"] = int(np.count_nonzero(np.abs(r[0]).sum(axis=1) > 0))
                return r
            seen2 = {}

            def fake_cc2(system_, pt_, a_, b_, ta, tb, **k):
                seen2["cmd"] = ta.stop
                return None, np.zeros((ta.stop, tb.stop - (tb.start or 0)), dtype=complex)
            obj2._calc_kernel = spy_k
            bd.compute_correlations = fake_cc2
            try:
                # the real generate_system_correlations on an empty matrix reveals its step count
                obj2._system_correlations = np.zeros((0, 0), dtype=complex)
                obj2.occupation(1.0, progress_type="silent")
                last = n * dt
                exp = "last=%s cmd=%d ker=%d switch=%d" % (rat(last), seen2["cmd"], got["ker"],
                                                            got["switch"])
            except Exception as e:    # noqa: BLE001
                exp = "err:%s:%s" % (type(e).__name__, str(e)[:60])
            finally:
                bd.compute_correlations = orig_cc
            lines.append("last %d %s" % (n, rat(dt)))
            expect.append(exp)
            meta.append(("bath-last", dt_lit, n))
            res.count("bath-last:dt=" + dt_lit)
    out = fw.run_driver("C07Bath", lines)
    if len(out) != len(lines):
        raise fw.Infra("driver C07Bath returned %d lines for %d inputs" % (len(out), len(lines)))
    first = True
    for line, exp, got, m in zip(lines, expect, out, meta):
        res.case(line, True, {"op": line, "impl": exp, "model": got} if first else None)
        first = False
        if exp != got:
            res.disagree("bath time->step conversion: model and implementation differ on " + line,
                         {"line": line, "impl": exp, "model": got, "meta": repr(m)})


def displaced_oscillator(rig, c_exact):
    """closed forms for pure dephasing ([H_S, O] = 0): mode a_w(t) = a_w e^{-iwt} - O g (1 - e^{-iwt})/w"""
    temp = rig.corr.temperature

    def n_th(w):
        return 1.0 / (np.exp(w / temp) - 1.0) if temp > 0 else 0.0

    def occupation(t, w, dw=1.0):
        return dw * c_exact * rig.corr.spectral_density(w) / w ** 2 * (2 - 2 * np.cos(w * t)) + n_th(w)

    def correlation(t1, t2, w1, w2, dagg, change_only=True, dw=(1.0, 1.0)):
        """<a^{dagg[0]}_{w2}(t2) a^{dagg[1]}_{w1}(t1)>: displacement part, plus -- for one and the same
        mode and unless only the change is asked for -- the free part n_th e^{iw(t2-t1)} of <a'a>
        resp. (n_th + 1) e^{-iw(t2-t1)} of <a a'>"""
        g1, g2 = rig.corr.spectral_density(w1) ** 0.5, rig.corr.spectral_density(w2) ** 0.5
        p1 = np.exp(1j * (2 * dagg[1] - 1) * w1 * t1)
        p2 = np.exp(1j * (2 * dagg[0] - 1) * w2 * t2)
        # band of width dw[0] around w1 (earlier operator), width dw[1] around w2
        r = dw[0] * dw[1] * c_exact * (p1 * p2 - p1 - p2 + 1) * g1 * g2 / (w1 * w2)
        if not change_only and w1 == w2 and tuple(dagg) in ((1, 0), (0, 1)):
            r += (n_th(w1) + (1.0 if tuple(dagg) == (0, 1) else 0.0)) * p1 * p2
        return r
    return occupation, correlation


def search_bath(report, rng):
    # (4) system correlations of the object vs the operator the Bath was given
    for name, o in bath_couplings(rng, 2):
        with BathRig(o) as rig:
            rig.obj.generate_system_correlations(3 * rig.dt, progress_type="silent")
            rig.obj.generate_system_correlations(4 * rig.dt, progress_type="silent")
            bad = sys_corr_mismatch(rig, 4)
        if bad:
            report("bath-system-correlations", "bath-system-correlations:coupling=%s" % name,
                   dict(bad, api="TwoTimeBathCorrelations.generate_system_correlations",
                        coupling_operator_re=o.real.tolist(), coupling_operator_im=o.imag.tolist(),
                        how="Bath stores O = U D U^dagger; the operator rebuilt for the system "
                            "correlations is not O"))
    # (5) pure dephasing: occupation / two-time bath correlation vs the displaced oscillator
    cases5 = [(name, o, 11, 0.1, [(0.4, 0.9), (0.3, 1.1), (0.6, 1.1), (0.7, 1.1), (1.1, 1.1)])
              for name, o in bath_couplings(rng, 0)[:3]]
    cases5.append(("diag sigma_z/2", bath_couplings(rng, 0)[0][1], 8, 0.05, [(0.15, 0.4), (0.35, 0.4)]))
    for name, o, nsteps, dt5, time_pairs in cases5:
        rig = BathRig(o, n=nsteps, dt=dt5, epsrel=1e-7, commuting=True)
        c_exact = float(np.trace(rig.o @ rig.o @ rig.rho).real)
        occ_ref, corr_ref = displaced_oscillator(rig, c_exact)
        for w in (1.0, 3.0):
            tl, occ = rig.obj.occupation(w, progress_type="silent")
            tl = np.asarray(tl)[:len(occ)]      # the length of the axis is judged in search_bath_axes
            dev = np.abs(occ - occ_ref(tl, w))
            if not dev.max() < 1e-6:
                k = int(np.argmax(dev))
                report("bath-occupation", "bath-occupation:coupling=%s freq=%s" % (name, w),
                       {"api": "TwoTimeBathCorrelations.occupation", "freq": w, "time": float(tl[k]),
                        "got": float(occ[k]), "displaced_oscillator_closed_form": float(occ_ref(tl[k], w)),
                        "coupling_operator_re": o.real.tolist(), "coupling_operator_im": o.imag.tolist(),
                        "system_hamiltonian": "0.7 * coupling operator (pure dephasing)"})
        for (t1, t2), dagg in itertools.product(time_pairs, [(0, 0), (0, 1), (1, 0), (1, 1)]):
            # times written as decimal literals (0.3/0.1 is a few ulp below 3)
            w1, w2 = 1.0, 3.0
            num = rig.obj.correlation(w1, t1, w2, t2, dagg=dagg, progress_type="silent")
            ref = corr_ref(t1, t2, w1, w2, dagg)
            if not abs(num - ref) < 1e-6:
                report("bath-correlation", "bath-correlation:coupling=%s dagg=%s time_1=%r time_2=%r dt=%r"
                       % (name, dagg, t1, t2, dt5),
                       {"api": "TwoTimeBathCorrelations.correlation", "freq_1": w1, "time_1": t1,
                        "freq_2": w2, "time_2": t2, "dagg": list(dagg), "got": repr(complex(num)),
                        "displaced_oscillator_closed_form": repr(complex(ref)),
                        "coupling_operator_re": o.real.tolist(), "coupling_operator_im": o.imag.tolist()})


def occupation_axis_case(n, dt):
    """real occupation() on a process tensor of n steps: (times, values)"""
    import oqupy
    import oqupy.bath_dynamics as bd
    from . import oq
    o = np.diag([0.5, -0.5]).astype(complex)
    corr = oqupy.PowerLawSD(alpha=0.1, zeta=1.0, cutoff=10.0, cutoff_type="exponential",
                            temperature=2.0)
    obj = bd.TwoTimeBathCorrelations(oqupy.System(0.3 * o), oqupy.Bath(o, corr),
                                     oq.long_trivial_pt(n, dt=dt), initial_state=generic_state(2),
                                     system_correlations=np.triu(np.full((n, n), 0.25 + 0j)))
    return obj.occupation(1.0, progress_type="silent")


def oracle_occupation_axis(report, cases):
    """(7) occupation() returns one time per value, the k-th time being k*dt"""
    for n, dt in cases:
        tl, occ = occupation_axis_case(n, dt)
        if len(tl) != len(occ) or [float(x) for x in tl] != [k * dt for k in range(n + 1)]:
            report("bath-occupation-axis", "bath-occupation-axis:len(process_tensor)=%d dt=%r" % (n, dt),
                   {"api": "TwoTimeBathCorrelations.occupation", "len_process_tensor": n, "dt": dt,
                    "len_times": len(tl), "len_occupation": len(occ),
                    "last_times": [float(x) for x in tl[-3:]],
                    "how": "the time axis does not pair every occupation value with its time k*dt"})


def oracle_single_step(report):
    """(8) a fresh object asked for a single step: the one-cell result vs the closed form, and the
    stored system correlation vs a direct compute_correlations call"""
    op = np.diag([0.5, -0.5]).astype(complex)
    rig = BathRig(op, n=3, dt=0.1, epsrel=1e-7, commuting=True)
    c_exact = float(np.trace(rig.o @ rig.o @ rig.rho).real)
    _, corr_ref = displaced_oscillator(rig, c_exact)
    num = rig.obj.correlation(1.0, 0.1, 3.0, 0.1, dagg=(1, 0), progress_type="silent")
    ref = corr_ref(0.1, 0.1, 1.0, 3.0, (1, 0))
    held = np.array(rig.obj._system_correlations)
    want = rig.direct(1)
    stored_ok = held.shape == (1, 1) and abs(held[0, 0] - want[0, 0]) < 1e-10
    if not abs(num - ref) < 1e-6 or not stored_ok:
        report("bath-single-step", "bath-correlation-single-step:fresh object time_2=dt",
               {"api": "TwoTimeBathCorrelations.correlation", "freq_1": 1.0, "time_1": 0.1, "freq_2": 3.0,
                "time_2": 0.1, "dt": 0.1, "dagg": [1, 0], "got": repr(complex(num)),
                "displaced_oscillator_closed_form": repr(complex(ref)),
                "stored_system_correlations_shape": list(held.shape),
                "how": "a first request for one step must generate the 1x1 system correlation"})


def oracle_initial_terms(report, temps, nsteps=4):
    """(9) the initial state of the bath modes: thermal occupation n_th and the vacuum +1 of <a a'>,
    for zero and finite temperature, equal and different frequencies, all dagg, change_only
    False/True, vs the displaced-oscillator closed form; the commutator <a a'> - <a' a> = 1"""
    # diagonal coupling and times that are exact multiples of dt: this oracle is about the initial
    # contribution only (operator rebuilding / float time conversion have their own ties)
    op = np.diag([0.5, -0.5]).astype(complex)
    for temp in temps:
        rig = BathRig(op, n=nsteps, dt=0.1, epsrel=1e-7, commuting=True, temperature=temp)
        c_exact = float(np.trace(rig.o @ rig.o @ rig.rho).real)
        occ_ref, corr_ref = displaced_oscillator(rig, c_exact)
        for (t1, t2), (w1, w2), dagg, co in itertools.product(
                [(0.2, 0.4), (0.4, 0.4)], [(1.0, 1.0), (1.0, 3.0)],
                [(0, 0), (0, 1), (1, 0), (1, 1)], [False, True]):
            num = rig.obj.correlation(w1, t1, w2, t2, dagg=dagg, change_only=co, progress_type="silent")
            ref = corr_ref(t1, t2, w1, w2, dagg, change_only=co)
            if not abs(num - ref) < 1e-6:
                report("bath-initial", "bath-correlation-initial:T=%r dagg=%s freq_1=%r freq_2=%r "
                       "change_only=%s" % (temp, dagg, w1, w2, co),
                       {"api": "TwoTimeBathCorrelations.correlation", "temperature": temp, "freq_1": w1,
                        "time_1": t1, "freq_2": w2, "time_2": t2, "dagg": list(dagg), "change_only": co,
                        "got": repr(complex(num)), "displaced_oscillator_closed_form": repr(complex(ref))})
            # unequal band widths: the displacement part scales with dw[0]*dw[1], the free part not
            dw = (0.5, 0.125)
            num = rig.obj.correlation(w1, t1, w2, t2, dw=dw, dagg=dagg, change_only=co,
                                      progress_type="silent")
            ref = corr_ref(t1, t2, w1, w2, dagg, change_only=co, dw=dw)
            if not abs(num - ref) < 1e-6 * dw[0] * dw[1]:
                report("bath-band-widths", "bath-correlation-band-widths:dw=%r T=%r dagg=%s freq_1=%r "
                       "freq_2=%r change_only=%s" % (dw, temp, dagg, w1, w2, co),
                       {"api": "TwoTimeBathCorrelations.correlation", "temperature": temp, "dw": list(dw),
                        "freq_1": w1, "time_1": t1, "freq_2": w2, "time_2": t2, "dagg": list(dagg),
                        "change_only": co, "got": repr(complex(num)),
                        "displaced_oscillator_closed_form": repr(complex(ref))})
        a = rig.obj.correlation(1.0, 0.4, 1.0, 0.4, dagg=(0, 1), progress_type="silent")
        b = rig.obj.correlation(1.0, 0.4, 1.0, 0.4, dagg=(1, 0), progress_type="silent")
        if not abs((a - b) - 1.0) < 1e-9:
            report("bath-commutator", "bath-commutator:T=%r <a a'> - <a' a> at equal frequency and time"
                   % temp,
                   {"api": "TwoTimeBathCorrelations.correlation", "temperature": temp, "freq": 1.0,
                    "time": 0.4, "a_adag": repr(complex(a)), "adag_a": repr(complex(b)),
                    "commutator": repr(complex(a - b)), "expected": 1.0})
        for co, dwo in itertools.product((False, True), (1.0, 0.25)):
            tl, occ = rig.obj.occupation(1.0, dw=dwo, change_only=co, progress_type="silent")
            want = occ_ref(np.asarray(tl)[:len(occ)], 1.0, dwo) - (occ_ref(0.0, 1.0, dwo) if co else 0.0)
            if not np.abs(occ - want).max() < 1e-6:
                cls = "bath-occupation-initial" if dwo == 1.0 else "bath-occupation-band-width"
                report(cls, "%s:T=%r change_only=%s dw=%r" % (cls, temp, co, dwo),
                       {"api": "TwoTimeBathCorrelations.occupation", "temperature": temp, "freq": 1.0,
                        "dw": dwo, "change_only": co, "got": [float(x) for x in occ],
                        "displaced_oscillator_closed_form": [float(x) for x in np.atleast_1d(want)]})


AXIS_CASES = [(n, dt) for dt in (0.1, 0.05, 0.2) for n in (2, 11, 12, 14, 23)]


def search_bath_axes(report):
    oracle_occupation_axis(report, [(n, dt) for dt in (0.1, 0.05) for n in range(2, 31)])
    oracle_single_step(report)
    oracle_initial_terms(report, (0.0, 0.5, 2.0), nsteps=6)


def bath_axes_correspondence(res, tier):
    """always run: (i) the time axis of occupation() vs the regenerated Lean functions, exactly;
    (ii) the two spec-level oracles for defects that were repaired (fixed findings must be
    reported again if they return)"""
    cases = AXIS_CASES if tier == "quick" else \
        [(n, dt) for dt in (0.1, 0.05, 0.2, 0.01) for n in range(1, 41)]
    lines, expect = [], []
    for n, dt in cases:
        tl, _occ = occupation_axis_case(n, dt)
        lines.append("tlist %d %s" % (n, rat(dt)))
        expect.append("count=%d times=%s" % (len(tl), ",".join(rat(float(x)) for x in tl)))
        res.count("bath-axis:dt=%r" % dt)
    out = fw.run_driver("C07Bath", lines)
    if len(out) != len(lines):
        raise fw.Infra("driver C07Bath returned %d lines for %d inputs" % (len(out), len(lines)))
    for k, (line, exp, got) in enumerate(zip(lines, expect, out)):
        res.case(line, True, {"op": line, "impl": exp[:200], "model": got[:200]} if k == 0 else None)
        if exp != got:
            res.disagree("time axis of occupation(): model and implementation differ on " + line,
                         {"line": line, "impl": exp, "model": got})
    seen = set()

    def report(cls, key, payload):
        if cls not in seen:
            seen.add(cls)
            res.fail(key, payload)
    oracle_occupation_axis(report, cases)
    oracle_single_step(report)
    oracle_initial_terms(report, (0.0, 2.0))


# ---------------------------------------------------------------------------
# exact two-time correlations of a system + ancilla (joint unitary evolution)
# ---------------------------------------------------------------------------

class AncillaRig:
    """system qubit + environment qubit, exact joint evolution; the environment as a
    SimpleProcessTensor without stored dt"""

    def __init__(self, n=4, dt=0.2):
        import oqupy
        from scipy.linalg import expm
        from oqupy.process_tensor import SimpleProcessTensor
        sx = np.array([[0, 1], [1, 0]], dtype=complex)
        sy = np.array([[0, -1j], [1j, 0]], dtype=complex)
        sz = np.array([[1, 0], [0, -1]], dtype=complex)
        i2 = np.eye(2, dtype=complex)
        self.n, self.dt, self.i2 = n, dt, i2
        h_sys = 0.8 * sx + 0.3 * sz + 0.2 * sy
        h_env = np.kron(0.5 * sz + 0.4 * sx, i2) + 0.9 * np.kron(sx, sz) \
            + 0.6 * np.kron(sy, sx) + 0.4 * np.kron(sz, sy)           # ancilla (x) system
        w_env = expm(-1j * h_env * dt)
        u_half = np.kron(i2, expm(-1j * h_sys * dt / 2))
        self.v = u_half @ w_env @ u_half
        self.rho_anc = np.array([[0.7, 0.2 - 0.1j], [0.2 + 0.1j, 0.3]])
        w4 = w_env.reshape(2, 2, 2, 2)
        mpo = np.einsum('asbt,ASBT->bBaAtTsS', w4, w4.conj()).reshape(4, 4, 4, 4)
        pt = SimpleProcessTensor(hilbert_space_dimension=2, dt=None)
        for k in range(n):
            ten = np.einsum('b,baio->aio', self.rho_anc.reshape(4), mpo).reshape(1, 4, 4, 4) \
                if k == 0 else mpo
            pt.set_mpo_tensor(k, ten)
        pt.set_cap_tensor(0, np.array([1.0]))
        for k in range(1, n + 1):
            pt.set_cap_tensor(k, i2.reshape(4))
        self.pt, self.system, self.oqupy = pt, oqupy.System(h_sys), oqupy

    def evolve(self, rho, steps):
        for _ in range(steps):
            rho = self.v @ rho @ self.v.conj().T
        return rho

    def exact(self, op_a, op_b, rho_sys, n_a, n_b, anti):
        """<B(t_b) A(t_a)>: ordered (t_a <= t_b): tr(B E(A rho));  anti (t_b <= t_a): tr(A E(rho B))"""
        big = lambda x: np.kron(self.i2, x)     # noqa: E731
        rho0 = np.kron(self.rho_anc, rho_sys)
        if anti:
            r = self.evolve(self.evolve(rho0, n_b) @ big(op_b), n_a - n_b)
            return np.trace(big(op_a) @ r)
        r = self.evolve(big(op_a) @ self.evolve(rho0, n_a), n_b - n_a)
        return np.trace(big(op_b) @ r)

    def compare(self, op_a, op_b, rho_sys, anti):
        times, corr = self.oqupy.compute_correlations(
            system=self.system, process_tensor=self.pt, operator_a=op_a, operator_b=op_b,
            times_a=slice(None), times_b=slice(None), time_order="anti" if anti else "ordered",
            initial_state=rho_sys, start_time=0.0, dt=self.dt, progress_type="silent")
        for i in range(self.n + 1):
            for j in range(self.n + 1):
                wanted = (j <= i) if anti else (i <= j)
                z = complex(corr[i, j])
                if not wanted:
                    if not np.isnan(z.real):
                        return {"t_a_step": i, "t_b_step": j, "got": repr(z), "expected": "NaN"}
                    continue
                ref = complex(self.exact(op_a, op_b, rho_sys, i, j, anti))
                if not abs(z - ref) < 1e-9:
                    return {"t_a_step": i, "t_b_step": j, "returned_times": [float(times[0][i]),
                                                                              float(times[1][j])],
                            "got": repr(z), "exact_joint_evolution": repr(ref)}
        return None


def _exact_nt(rig, ops, orders, rho_sys, steps):
    """tr(O_last E(.. S_1(E(S_0(rho(t_0)))))) with S_k = O_k . (left) or . O_k (right)"""
    big = lambda x: np.kron(rig.i2, x)     # noqa: E731
    r = np.kron(rig.rho_anc, rho_sys)
    at = 0
    for o, od, st in zip(ops[:-1], orders[:-1], steps[:-1]):
        r = rig.evolve(r, st - at)
        at = st
        r = big(o) @ r if od == "left" else r @ big(o)
    r = rig.evolve(r, steps[-1] - at)
    return np.trace(big(ops[-1]) @ r)


def _compare_nt(rig, ops, orders, rho_sys, nmax):
    k = len(ops)
    times, corr = rig.oqupy.compute_correlations_nt(
        system=rig.system, process_tensor=rig.pt, operators=list(ops),
        ops_times=[slice(0, nmax + 1)] * k, ops_order=list(orders), initial_state=rho_sys,
        start_time=0.0, dt=rig.dt, progress_type="silent")
    for iota in itertools.product(range(nmax + 1), repeat=k):
        z = complex(corr[iota])
        if any(iota[j] > iota[j + 1] for j in range(k - 1)):
            if not np.isnan(z.real):
                return {"steps": list(iota), "got": repr(z), "expected": "NaN"}
            continue
        ref = complex(_exact_nt(rig, ops, orders, rho_sys, iota))
        if not abs(z - ref) < 1e-9:
            return {"steps": list(iota), "got": repr(z), "exact_joint_evolution": repr(ref)}
    return None


def value_cases():
    sm = np.array([[0, 0], [1, 0]], dtype=complex)
    sy = np.array([[0, -1j], [1j, 0]], dtype=complex)
    gen = np.array([[0.3 + 0.1j, -0.7j], [0.5, 0.2 - 0.4j]])
    rho_h = np.array([[0.6, 0.1 + 0.25j], [0.1 - 0.25j, 0.4]])
    rho_nh = np.array([[0.6, 0.3 + 0.2j], [-0.1j, 0.4]])
    named = {"sigma_y": sy, "sigma_minus": sm, "generic complex": gen}
    return named, {"hermitian": rho_h, "non-hermitian": rho_nh}


def values_correspondence(res, tier):
    """always run: entries vs the brute-force joint evolution of system + ancilla (1e-9), with
    non-symmetric operators in every position, two and three operators, ordered and anti"""
    rig = AncillaRig()
    named, rhos = value_cases()
    seen = set()

    def report(cls, key, payload):
        if cls not in seen:
            seen.add(cls)
            res.fail(key, payload)
    pairs2 = [("sigma_y", "sigma_minus"), ("sigma_minus", "generic complex"),
              ("generic complex", "sigma_y")]
    for rname in (["hermitian"] if tier == "quick" else ["hermitian", "non-hermitian"]):
        for na, nb in pairs2:
            for anti in (False, True):
                bad = rig.compare(named[na], named[nb], rhos[rname], anti)
                res.case("value %s %s %s %s" % (na, nb, rname, anti), True)
                res.count("value:2-operator")
                if bad:
                    mode = "anti" if anti else "ordered"
                    report("value-" + mode, "%s-value:A=%s B=%s initial_state=%s" % (mode, na, nb, rname),
                           dict(bad, api="compute_correlations", time_order=mode, operator_a=na,
                                operator_b=nb, initial_state=rname, dt=rig.dt,
                                process_tensor="exact ancilla qubit (SimpleProcessTensor, no stored dt)"))
    # explicitly time-dependent system, start_time != 0, closed form (always run)
    oracle_tdep_start(report)
    res.count("value:time-dependent system, start_time != 0")
    triples = [(("sigma_y", "sigma_minus", "generic complex"), ("left", "left", "left")),
               (("generic complex", "sigma_y", "sigma_minus"), ("right", "left", "left")),
               (("sigma_minus", "generic complex", "sigma_y"), ("left", "right", "left"))]
    for names, orders in triples:
        bad = _compare_nt(rig, [named[x] for x in names], orders, rhos["non-hermitian"], 3)
        res.case("value nt %s %s" % (names, orders), True)
        res.count("value:3-operator")
        if bad:
            report("value-nt", "nt-value:operators=%s ops_order=%s" % (",".join(names), ",".join(orders)),
                   dict(bad, api="compute_correlations_nt", operators=list(names), ops_order=list(orders),
                        initial_state="non-hermitian", dt=rig.dt,
                        process_tensor="exact ancilla qubit (SimpleProcessTensor, no stored dt)"))


def search_values(report):
    """two-time correlations, both orderings, Hermitian and non-Hermitian operators and initial
    'states', against the exact joint evolution of system + ancilla"""
    rig = AncillaRig()
    sm = np.array([[0, 0], [1, 0]], dtype=complex)
    sp = sm.conj().T
    sx = np.array([[0, 1], [1, 0]], dtype=complex)
    sz = np.array([[1, 0], [0, -1]], dtype=complex)
    gen = np.array([[0.3 + 0.1j, -0.7j], [0.5, 0.2 - 0.4j]])
    rho_h = np.array([[0.6, 0.1 + 0.25j], [0.1 - 0.25j, 0.4]])
    rho_nh = np.array([[0.6, 0.3 + 0.2j], [-0.1j, 0.4]])
    ops = [("sigma_x", sx, "sigma_z", sz), ("sigma_minus", sm, "sigma_plus", sp),
           ("sigma_minus", sm, "sigma_z", sz), ("generic complex", gen, "sigma_plus", sp)]
    for rname, rho in (("hermitian", rho_h), ("non-hermitian", rho_nh)):
        for (na, a, nb, b) in ops:
            for anti in (False, True):
                bad = rig.compare(a, b, rho, anti)
                if bad:
                    mode = "anti" if anti else "ordered"
                    report("value-" + mode,
                           "%s-value:A=%s B=%s initial_state=%s" % (mode, na, nb, rname),
                           dict(bad, api="compute_correlations", time_order=mode, operator_a=na,
                                operator_b=nb, initial_state=rname, dt=rig.dt,
                                process_tensor="exact ancilla qubit (SimpleProcessTensor, no stored dt)",
                                definition="anti: tr(A . E_{t_b->t_a}(rho(t_b) B)); "
                                           "ordered: tr(B . E_{t_a->t_b}(A rho(t_a)))"))


# ---------------------------------------------------------------------------
# failing-input search on the real code (independent of the Lean model)
# ---------------------------------------------------------------------------

def _steps_of(t, s, d):
    return int(round((float(t) - s) / d))


def check_entries(rig, n, s, d, pyspecs, mode, cache):
    """Judge one real call against the property text.  Returns None or (what, details)."""
    k = len(pyspecs)
    try:
        if mode == "nt":
            times, arr = rig.nt(n, s, d, pyspecs, system=rig.sys_td)
        else:
            times, arr = rig.two(n, s, d, pyspecs[0], pyspecs[1], mode == "anti", system=rig.sys_td)
    except Exception as e:    # noqa: BLE001
        return ("raises", {"exception": "%s: %s" % (type(e).__name__, str(e)[:120])})
    arr = np.asarray(arr)
    for iota in itertools.product(*[range(len(t)) for t in times]):
        steps = tuple(_steps_of(times[j][iota[j]], s, d) for j in range(k))
        nt_steps = steps[::-1] if mode == "anti" else steps
        ordered = all(nt_steps[j] <= nt_steps[j + 1] for j in range(k - 1))
        z = complex(arr[iota])
        isnan = np.isnan(z.real) or np.isnan(z.imag)
        if not ordered:
            if not isnan:
                return ("unordered-entry-not-nan", {"index": list(iota), "steps": list(steps),
                                                    "got": repr(z)})
            continue
        key = (n, s, d, mode, steps)
        if key not in cache:
            if mode == "nt":
                _, a = rig.nt(n, s, d, list(steps), system=rig.sys_td)
            else:
                _, a = rig.two(n, s, d, steps[0], steps[1], mode == "anti", system=rig.sys_td)
            cache[key] = complex(np.asarray(a).reshape(-1)[0])
        want = cache[key]
        if isnan or abs(z - want) > 1e-9:
            return ("misaligned", {"index": list(iota), "returned_times": [float(times[j][iota[j]])
                                                                          for j in range(k)],
                                   "steps": list(steps), "got": repr(z),
                                   "single_time_call_gives": repr(want)})
    return None


def py_repr(p):
    return repr(p).replace(" ", "")


def oracle_dt(rig, report):
    # (2) a time step passed by the caller governs the axes and the dynamics
    ref_t, ref = rig.two(3, 0.0, None, 1, 3, False, system=rig.sys_td, pt=rig.oq.identity_pt(3, dt=0.2))
    for ptdt in (None, 0.1):
        try:
            with warnings.catch_warnings():
                warnings.simplefilter("ignore")
                t, c = rig.two(3, 0.0, None, 1, 3, False, system=rig.sys_td, dt_arg=0.2,
                               pt=rig.oq.identity_pt(3, dt=ptdt))
        except Exception as e:    # noqa: BLE001
            if ptdt is None:
                report("dt-rejected", "dt-argument-rejected: process_tensor.dt=None dt=0.2",
                       {"api": "compute_correlations", "process_tensor_dt": None, "dt": 0.2,
                        "exception": "%s: %s" % (type(e).__name__, str(e)[:120]),
                        "how": "a process tensor without stored dt needs the dt argument, "
                               "but the argument never reaches compute_dynamics"})
            continue        # a refused mismatch makes no claim about axes or values
        axes_dt = float(t[1][0] - t[0][0]) / 2.0
        if abs(axes_dt - 0.2) < 1e-12 and abs(complex(c[0, 0]) - complex(ref[0, 0])) > 1e-9:
            report("dt-not-governing", "dt-argument-labels-axes-only: process_tensor.dt=%s dt=0.2" % ptdt,
                   {"api": "compute_correlations", "process_tensor_dt": ptdt, "dt": 0.2,
                    "returned_times": [float(t[0][0]), float(t[1][0])], "got": repr(complex(c[0, 0])),
                    "dynamics_with_dt_0.2_gives": repr(complex(ref[0, 0])),
                    "how": "axes are labelled with dt=0.2 but the propagators use the stored dt"})


def oracle_offgrid(report):
    """float times / float intervals that are NOT on the grid: whatever axis is returned, the entry
    must be the exact correlation AT the returned times (closed qubit, identity environment)"""
    import oqupy
    from scipy.linalg import expm
    from . import oq
    n, dt = 6, 0.1
    h = np.array([[0.9, 0.4 - 0.7j], [0.4 + 0.7j, -0.5]])
    a = np.array([[0.3 + 0.1j, -0.7j], [0.5, 0.2 - 0.4j]])
    b = np.array([[0, 0], [1, 0]], dtype=complex)
    rho0 = np.array([[0.6, 0.1 + 0.25j], [0.1 - 0.25j, 0.4]])
    system, pt = oqupy.System(h), oq.identity_pt(n, 2, dt)

    def ev(x, t):
        u = expm(-1j * h * t)
        return u @ x @ u.conj().T
    for start in (0.0, 0.37):
        specs = [(start + 0.12, (start + 0.26, start + 0.53)), ((start + 0.04, start + 0.33), start + 0.48),
                 (start + 0.2, start + 0.31)]
        for ta, tb in specs:
            times, corr = oqupy.compute_correlations(
                system=system, process_tensor=pt, operator_a=a, operator_b=b, times_a=ta, times_b=tb,
                time_order="ordered", initial_state=rho0, start_time=start, dt=dt, progress_type="silent")
            corr = np.asarray(corr)
            for i, t1 in enumerate(np.atleast_1d(times[0])):
                for j, t2 in enumerate(np.atleast_1d(times[1])):
                    z = complex(corr[i, j])
                    if np.isnan(z.real):
                        continue
                    ref = complex(np.trace(b @ ev(a @ ev(rho0, t1 - start), t2 - t1)))
                    if not abs(z - ref) < 1e-7:
                        report("value-offgrid",
                               "misaligned-value:off-grid float times_a=%r times_b=%r start=%s" % (ta, tb, start),
                               {"api": "compute_correlations", "start_time": start, "dt": dt,
                                "times_a": repr(ta), "times_b": repr(tb),
                                "returned_times": [float(t1), float(t2)], "got": repr(z),
                                "exact_at_the_returned_times": repr(ref)})
                        return


def oracle_tdep_start(report):
    """explicitly time-dependent system with start_time != 0: H(t) = f(t) H0 commutes with itself,
    so the exact n-time correlation is known in closed form; identity environment"""
    import oqupy
    from scipy.linalg import expm
    from . import oq
    n, dt, w = 5, 0.1, 2.0
    h0 = np.array([[0.9, 0.4 - 0.7j], [0.4 + 0.7j, -0.5]])
    f = lambda t: 1.0 + 0.8 * np.sin(w * t)                                          # noqa: E731
    fint = lambda a, b: (b - a) - 0.8 / w * (np.cos(w * b) - np.cos(w * a))          # noqa: E731
    ops = [np.array([[0.3 + 0.1j, -0.7j], [0.5, 0.2 - 0.4j]]), np.array([[0, 0], [1, 0]], dtype=complex),
           np.array([[0, -1j], [1j, 0]], dtype=complex)]
    rho0 = np.array([[0.6, 0.1 + 0.25j], [0.1 - 0.25j, 0.4]])
    system = oqupy.TimeDependentSystem(lambda t: f(t) * h0)
    pt = oq.identity_pt(n, 2, dt)

    def exact(steps, orders, start):
        x, at = rho0, start
        for k, st in enumerate(steps):
            t = start + st * dt
            u = expm(-1j * h0 * fint(at, t))
            x, at = u @ x @ u.conj().T, t
            if k == len(steps) - 1:
                return np.trace(ops[k] @ x)
            x = ops[k] @ x if orders[k] == "left" else x @ ops[k]
    for start in (0.7, -1.3, 0.0):
        for orders in (["left", "left"], ["right", "left"], ["left", "right", "left"]):
            k = len(orders)
            times, corr = oqupy.compute_correlations_nt(
                system=system, process_tensor=pt, operators=ops[:k], ops_times=[slice(0, n + 1)] * k,
                ops_order=orders, initial_state=rho0, start_time=start, dt=dt, progress_type="silent")
            for iota in itertools.product(range(n + 1), repeat=k):
                if any(iota[j] > iota[j + 1] for j in range(k - 1)):
                    continue
                z, ref = complex(corr[iota]), complex(exact(iota, orders, start))
                if not abs(z - ref) < 1e-7:
                    report("value-tdep-start",
                           "nt-value:time-dependent system start_time=%s ops_order=%s" % (start, ",".join(orders)),
                           {"api": "compute_correlations_nt", "system": "TimeDependentSystem H(t) = "
                            "(1 + 0.8 sin 2t) H0", "start_time": start, "dt": dt, "steps": list(iota),
                            "returned_times": [float(times[j][iota[j]]) for j in range(k)],
                            "ops_order": orders, "got": repr(z), "exact": repr(ref),
                            "process_tensor": "identity (SimpleProcessTensor)"})
                    return


def search(res, rng=None, only=None):
    rng = rng or random.Random(res.seed)
    rig = Rig()
    cache = {}
    seen_classes = set()

    def report(cls, key, payload):
        if cls in seen_classes or (only is not None and key != only):
            return
        seen_classes.add(cls)
        res.fail(key, payload)

    n = 6
    # (1) alignment / NaN mask / no exception for valid specs: curated + random valid specs
    for (s, d) in [(0.0, 0.1), (0.5, 0.2)]:
        valid = [2, 0, n, slice(None), slice(None, None, -1), slice(1, 5, 2), slice(-2, None),
                 [1, 3, 4], [4, 1, 3], [5, 3, 1, 4], [3, 3, 0], s + 3 * d,
                 (s + 1 * d, s + 4 * d), (s + 4 * d, s + 1 * d), (s + 3 * d, s), (s, s + 3 * d),
                 (s + 2 * d, s + 2 * d)]
        combos = [(a, b) for a in valid for b in valid]
        rng.shuffle(combos)
        combos = [(2, [5, 3, 1, 4]), (0, (s + 3 * d, s)), ((s + 3 * d, s), n)] + combos[:120]
        for (a, b) in combos:
            for mode in ("ordered", "anti"):
                bad = check_entries(rig, n, s, d, [a, b], mode, cache)
                if bad:
                    what, det = bad
                    cls = what + ("/interval" if isinstance(a, tuple) or isinstance(b, tuple) else "")
                    report(cls if what == "raises" else what,
                           "%s:%s times_a=%s times_b=%s start=%s dt=%s" % (
                               what, mode, py_repr(a), py_repr(b), s, d),
                           dict(det, api="compute_correlations", time_order=mode, max_step=n,
                                start_time=s, dt=d, times_a=py_repr(a), times_b=py_repr(b)))
        trip = [(a, b, c) for a in valid[:11] for b in valid[:11] for c in valid[:11]]
        rng.shuffle(trip)
        for (a, b, c) in [([1, 2], [2, 1], [3, 0, 2])] + trip[:25]:
            bad = check_entries(rig, n, s, d, [a, b, c], "nt", cache)
            if bad:
                what, det = bad
                report(what + "/nt3", "%s:nt ops_times=%s start=%s dt=%s" % (
                    what, py_repr([a, b, c]), s, d),
                    dict(det, api="compute_correlations_nt", max_step=n, start_time=s, dt=d,
                         ops_times=py_repr([a, b, c])))
    oracle_dt(rig, report)
    # (4)-(5) bath correlations, (6) values against an exact joint evolution
    search_bath(report, rng)
    search_values(report)
    oracle_tdep_start(report)
    oracle_offgrid(report)
    # (3) the time-ordering test on the earlier operators must be exact for long process tensors
    big = 100001
    pt = rig.oq.long_trivial_pt(big, dt=0.1)
    t, c = rig.nt(big, 0.0, 0.1, [[big], [big - 1], [big]], pt=pt)
    z = complex(np.asarray(c).reshape(-1)[0])
    if not (np.isnan(z.real) or np.isnan(z.imag)):
        report("unordered-long", "unordered-entry-not-nan:nt ops_times=[[100001],[100000],[100001]]",
               {"api": "compute_correlations_nt", "max_step": big, "dt": 0.1,
                "ops_times": "[[100001],[100000],[100001]]", "got": repr(z),
                "how": "steps (100001, 100000, 100001) are not time ordered, yet the entry is not NaN "
                       "(np.allclose with rtol=1e-5 accepts the unsorted tuple)"})

    # (7)-(8) axis of occupation(), single-step request on a fresh object
    search_bath_axes(report)

# ---------------------------------------------------------------------------

def replay_one(res, payload):
    """Re-judge one recorded failing input (corpus/C07/defect-*.json, replays/C07-*.json) on the
    real code, with the same oracles as search()."""
    fi, key = payload["failing_input"], payload["key"]
    rig = Rig()
    env = {"slice": slice, "__builtins__": {}}
    if key.startswith(("misaligned", "raises", "unordered-entry-not-nan")) and "max_step" in fi \
            and fi["max_step"] < 1000:
        s, d, n = fi["start_time"], fi["dt"], fi["max_step"]
        if fi["api"] == "compute_correlations":
            specs = [eval(fi["times_a"], env), eval(fi["times_b"], env)]    # noqa: S307 - our own repr
            mode = fi["time_order"]
        else:
            specs, mode = eval(fi["ops_times"], env), "nt"                  # noqa: S307
        bad = check_entries(rig, n, s, d, specs, mode, {})
        if bad:
            res.fail(key, dict(fi, still=bad[0], now=bad[1]))
    else:
        before = len(res.failing)
        search(res, only=key)
        if len(res.failing) == before:
            res.notes.append("replay: %s no longer fails" % key)


def corpus_replays(res, tier):
    """corpus convention: the recorded failing inputs of repaired defects run first, each through
    the spec-level oracle that reported it"""
    d = os.path.join(fw.CORPUS, PID)
    if not os.path.isdir(d):
        return
    seen = set()

    def report(cls, key, payload):
        if key not in seen:
            seen.add(key)
            res.fail(key, payload)
    rig = None
    for f in sorted(os.listdir(d)):
        if not (f.startswith("defect-") and f.endswith(".json")):
            continue
        payload = json.load(open(os.path.join(d, f)))
        key, fi = payload["key"], payload["failing_input"]
        res.count("corpus-replay")
        if key.startswith("bath-occupation-axis"):
            oracle_occupation_axis(report, [(fi["len_process_tensor"], fi["dt"])])
        elif key.startswith("bath-correlation-single-step"):
            oracle_single_step(report)
        elif key.startswith("dt-argument"):
            rig = rig or Rig()
            oracle_dt(rig, report)
        elif key.startswith("unordered-entry-not-nan:nt ops_times=[[100001]"):
            if tier == "thorough":
                oracle_long_order(report)
        else:
            replay_one(res, payload)


def oracle_long_order(report):
    rig = Rig()
    big = 100001
    pt = rig.oq.long_trivial_pt(big, dt=0.1)
    t, c = rig.nt(big, 0.0, 0.1, [[big], [big - 1], [big]], pt=pt)
    z = complex(np.asarray(c).reshape(-1)[0])
    if not (np.isnan(z.real) or np.isnan(z.imag)):
        report("unordered-long", "unordered-entry-not-nan:nt ops_times=[[100001],[100000],[100001]]",
               {"api": "compute_correlations_nt", "max_step": big, "dt": 0.1,
                "ops_times": "[[100001],[100000],[100001]]", "got": repr(z),
                "how": "steps (100001, 100000, 100001) are not time ordered, yet the entry is not NaN"})


def load_corpus():
    d = os.path.join(fw.CORPUS, PID)
    out = []
    if os.path.isdir(d):
        for f in sorted(os.listdir(d)):
            if f.startswith("case-") and f.endswith(".json"):
                out.append(json.load(open(os.path.join(d, f))))
    return out


def run(tier, seed, replay):
    res = fw.Result(PID, tier, seed, level="proof")
    rng = random.Random(seed)
    res.rule = (
        "(a) real _parse_times vs Lean parseTimes on EVERY int in -N-2..N+2, every slice with "
        "start/stop/step in {None,-N-1..N+1}, every list of length <=3 over the valid indices "
        "(-N-1..N) plus out-of-range lists, floats on/off grid and at ties, every interval between "
        "such points in both directions, for N<=4 (quick) / N<=6 (thorough) on 4 (start,dt) grids; "
        "(b) real compute_correlations_nt / compute_correlations (ordered and anti) with only the "
        "per-tuple contraction replaced by tagged values vs Lean corrNt/corr2: parsed steps, axes "
        "bit-exact, NaN mask, step tuple of every entry - every pair of distinct parsed step lists "
        "for N<=3 (quick) / N<=5 (thorough), sampled 2-4 operators on N<=5(6), 0/1 operators, "
        "invalid specs; (c) unmodified code with a time-dependent system on an identity process "
        "tensor, entries decoded through single-time calls; (d) dt plumbing for all 9 "
        "(dt argument, stored dt) combinations; in (b) the tags are conjugation-sensitive and the "
        "operators / sides of every contraction call of the two-time wrapper are compared with the "
        "regenerated tables; (e) real TwoTimeBathCorrelations objects on PT-TEMPO process tensors "
        "for diagonal, real non-diagonal, complex (non-symmetric eigenvector matrix), 3-level and "
        "random couplings: Bath's (U, w) satisfies IsDiagonalisation exactly evaluated, the operator "
        "handed to compute_correlations equals the model's rebuilt operator (1e-12), the call "
        "arguments/slices are those of the model, and the stored system correlations equal a direct "
        "compute_correlations with the operator given to Bath (1e-10), first call and extension.  "
        "Non-trivial = not an error/empty outcome; distinct = distinct protocol line.")
    res.assumptions = [
        "binary64 model: round-to-nearest-even on rationals, no overflow/subnormal/NaN; dt != 0",
        "numpy basic/fancy indexing and CPython slice.indices semantics as modelled "
        "(checked exhaustively on the small grids, not proved)",
        "a time `list` holds Python ints (no bools, no nested lists, no slices inside lists)",
        "the value of an entry depends only on its step tuple (the contraction is C03/C18's concern)",
    ]
    res.not_shown = [
        "equality of each entry with the exact multi-time correlation of the joint evolution is "
        "proved only up to the index pairing of the final value (entry_value); the contraction "
        "itself is C03/C18's concern and is tied here by always-run comparisons with a brute-force "
        "system+ancilla evolution (2 and 3 operators, non-symmetric operators, 1e-9), not proved",
        "that the assembly of the frequency-window kernels from their cells (kernel_table: signs, "
        "Bose factors, regions a/b/c) yields the bath correlation of the displaced-oscillator model "
        "is physics and not proved; it is pinned as a table and compared with the closed form on "
        "the real code only in search() (occupation and two-time correlation, pure dephasing, 1e-6)",
        "degenerate diagonal kernel cell (equal frequencies, one daggered operator): the source's "
        "formula differs from the exact triangle integral by (b-a)dt/(ab) (a and b exchanged in the "
        "linear term); proved harmless for the real kernel (kernel_diag_degenerate_partial), and in "
        "the imaginary kernel it multiplies Im<O(t)O(t)> = 0 for Hermitian coupling operator and "
        "state - not observable through the API within its domain, reported as an observation",
        "anti_conj is proved for an abstract Hermiticity-preserving comb; that the process-tensor "
        "dynamics is such a comb is C04's concern",
        "that Python slice/fancy-index semantics are what the model says is checked by "
        "enumeration up to N=5, not proved",
    ]
    res.trusted.append("harness/run_C07.py Tagged: the replaced _compute_ordered_nt_correlations "
                       "returns one value per later time, in order, and fails on an empty selection "
                       "like the real one (cross-checked by the unwrapped runs (c))")
    if replay:
        replay_one(res, json.load(open(replay)))
        if res.failing:
            return fw.finish(res, None)
        fw.log("replay %s: the recorded input no longer fails" % replay)
    # operators acting at one and the same time are stacked through Control.add_single: the order
    # of that composition (C18: regenerated operand order + stack_order theorems) is part of
    # "each entry is the correlation for exactly these operators at these times"
    c18 = ["OQuPyVerif.Props.C18.stack_order_partial", "OQuPyVerif.Props.C18.acts_once_at_step",
           "OQuPyVerif.Props.C18.recorded_word"]
    corpus_replays(res, tier)
    fw.standard_pipeline(res, ["CorrTimes", "CorrBath", "ControlCompose"], THEOREMS + c18,
                         extra_modules=["OQuPyVerif.Props.C18"])
    built = all(o[1] for o in res.obligations if o[0].startswith("translator"))
    try:
        if built:
            correspondence(res, tier, rng, load_corpus())
        else:
            res.notes.append("correspondence skipped: generated model unavailable")
    except fw.Infra as e:
        res.oblige("correspondence run", False, str(e))
    def search_all(r):
        search(r)
        from . import run_C18
        sub = fw.Result(PID, r.tier, r.seed)
        run_C18.search(sub)
        for key, payload in sub.failing:
            if key != run_C18.KEY_MIXED:        # C18's known finding is not a C07 matter
                r.fail("control-stack:" + key, payload)
    return fw.finish(res, search_all)
