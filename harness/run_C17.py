"""C17 — an interrupted process-tensor file is never mistaken for a complete one.
See DESIGN.md §4 C17.  Also holds the machinery shared with run_C16 (wire format of the
PTFile model, dump of a real HDF5 file, h5py-level tracer, crash-point runner).

Run as  `python -m harness.run_C17 --runner spec.json out.json`  this module is the
crash-point runner: a fresh interpreter that forks one child per crash point; the child
executes the writer on the real code and `os._exit(0)`s after its k-th h5py operation."""
import json
import math
import os
import random
import shutil
import subprocess
import sys
import tempfile
import warnings

import numpy as np

from . import framework as fw
from .framework import rat

PID = "C17"
THEOREMS = [
    "OQuPyVerif.Props.C17.interrupted_never_clean",
    "OQuPyVerif.Props.C17.interrupted_export_never_clean",
    "OQuPyVerif.Props.C17.clean_implies_complete",
    "OQuPyVerif.Props.C17.closed_is_clean",
    "OQuPyVerif.Props.C17.closed_export_is_clean_and_complete",
    "OQuPyVerif.Props.C17.no_clobber",
    "OQuPyVerif.Props.C17.overwrite_only_on_request",
    "OQuPyVerif.Props.C17.remove_guard",
    "OQuPyVerif.Props.C17.reader_never_alters",
    "OQuPyVerif.Props.C17.flag_tests_sound",
    "OQuPyVerif.Props.C17.unwind_never_closes",
    "OQuPyVerif.Props.C17.exception_interrupted_never_clean",
    "OQuPyVerif.Props.C17.flag_cleared_only_by_close",
    "OQuPyVerif.Props.C17.compute_caps_keeps_flag",
    "OQuPyVerif.Props.C17.entry_points_no_clobber",
    "OQuPyVerif.Props.C17.flag_tests_unconditional",
    "OQuPyVerif.Props.C17.pttempo_remove_entitlement",
]

VLEN = ["initial_tensor_data", "initial_tensor_shape", "mpo_tensors_data", "mpo_tensors_shape",
        "cap_tensors_data", "cap_tensors_shape"]

# ---------------------------------------------------------------------------
# wire format (mirror of lean/OQuPyVerif/Lemmas/PTFileWire.lean)
# ---------------------------------------------------------------------------


def hexs(s):
    return "h" + str(s).encode().hex()


def enc_entry(z):
    z = complex(z)
    if math.isnan(z.real) or math.isnan(z.imag):
        return "nan"
    return rat(z.real) + "," + rat(z.imag)


def enc_tensor(a):
    if a is None:
        return "None"
    arr = np.asarray(a)
    return "T:" + "x".join(str(int(d)) for d in arr.shape) + ":" + \
        ";".join(enc_entry(z) for z in arr.reshape(-1))


def enc_list(lst):
    lst = list(lst)
    return "-" if not lst else "|".join(enc_tensor(t) for t in lst)


def enc_cmds(calls):
    """calls: [(kind in I/M/C, step, tensor or None)]"""
    if not calls:
        return "-"
    out = []
    for k, step, t in calls:
        if k in ("N", "D"):              # assignment to .name / .description (t: text or None)
            out.append(k + "@" + ("None" if t is None else hexs(t)))
        elif k == "K":                   # a compute_caps() call of the file-backed object returned
            out.append("K@None")
        else:
            out.append(("I" if k == "I" else "%s%d" % (k, step)) + "@" + enc_tensor(t))
    return "|".join(out)


def enc_meta(hs, dt, tin, tout, name, descr):
    return "hs=%d dt=%s tin=%s tout=%s name=%s descr=%s" % (
        hs, "None" if dt is None else rat(float(dt)), enc_tensor(tin), enc_tensor(tout),
        hexs(name), hexs(descr))


def enc_simple(pt):
    """kv tokens describing a SimpleProcessTensor exactly (private fields, no arithmetic)"""
    return enc_meta(pt._hs_dim, pt._dt, pt._transform_in, pt._transform_out, pt.name,
                    pt.description) + " init=%s mpos=%s caps=%s" % (
        enc_tensor(pt._initial_tensor), enc_list(pt._mpo_tensors), enc_list(pt._cap_tensors))


def version_token():
    from oqupy.version import __version__
    return "version=" + hexs(__version__)


def dump_file(path):
    """canonical dump of a readable HDF5 file; mirrors Wire.showDisk"""
    import h5py
    if not os.path.exists(path):
        return "missing"
    try:
        f = h5py.File(path, "r")
    except OSError:
        return "unreadable"
    try:
        def attr(k):
            return hexs(f.attrs[k]) if k in f.attrs else "absent"

        def arr(k):
            return enc_tensor(np.array(f[k])) if k in f else "absent"

        def rows_e(k):
            if k not in f:
                return "absent"
            rows = [np.asarray(r) for r in f[k][:]]
            return "%d[" % len(rows) + "|".join(";".join(enc_entry(z) for z in r) for r in rows) + "]"

        def rows_n(k):
            if k not in f:
                return "absent"
            rows = [np.asarray(r) for r in f[k][:]]
            return "%d[" % len(rows) + "|".join("x".join(str(int(z)) for z in r) for r in rows) + "]"
        wr = "absent" if "writing" not in f.attrs else ("1" if bool(f.attrs["writing"]) else "0")
        hs = str(int(f["hs_dim"][0])) if "hs_dim" in f else "absent"
        return "file " + " ".join([
            "version=" + attr("oqupy_version"), "name=" + attr("name"), "descr=" + attr("description"),
            "writing=" + wr, "hs=" + hs, "dt=" + arr("dt"), "tin=" + arr("transform_in"),
            "tout=" + arr("transform_out"),
            "init_data=" + rows_e("initial_tensor_data"), "init_shape=" + rows_n("initial_tensor_shape"),
            "mpo_data=" + rows_e("mpo_tensors_data"), "mpo_shape=" + rows_n("mpo_tensors_shape"),
            "cap_data=" + rows_e("cap_tensors_data"), "cap_shape=" + rows_n("cap_tensors_shape")])
    finally:
        f.close()


# ---------------------------------------------------------------------------
# h5py-level tracer
# ---------------------------------------------------------------------------

class H5Tracer:
    """Wraps the h5py entry points FileProcessTensor uses; `tick(label)` is called after
    each operation has returned.  Restores everything on exit."""

    def __init__(self, tick):
        self.tick = tick
        self.cur = None
        self.saved = []

    def _patch(self, cls, name, new):
        self.saved.append((cls, name, cls.__dict__[name]))
        setattr(cls, name, new)

    def __enter__(self):
        import h5py
        from h5py._hl import attrs as hattrs, dataset as hds, group as hgrp, files as hfiles
        tr = self
        o_init, o_close = hfiles.File.__init__, hfiles.File.close
        o_attr = hattrs.AttributeManager.__setitem__
        o_create = hgrp.Group.create_dataset
        o_resize = hds.Dataset.resize
        o_set = hds.Dataset.__setitem__

        def f_init(self, name, mode="r", *a, **kw):
            o_init(self, name, mode, *a, **kw)
            if isinstance(name, (str, bytes, os.PathLike)):
                tr.cur = self
                tr.tick("open:%s" % mode)

        def f_close(self):
            valid = bool(self.id)
            o_close(self)
            if valid:
                tr.tick("fclose")

        def a_set(self, key, value):
            o_attr(self, key, value)
            tr.tick("attr:writing=%s" % bool(value) if key == "writing" else "attr:%s" % key)

        def g_create(self, name, shape=None, dtype=None, data=None, **kw):
            r = o_create(self, name, shape, dtype, data, **kw)
            tr.tick("create:%s:%d" % (name, shape[0]) if name in VLEN else "create:%s" % name)
            return r

        def d_resize(self, size, axis=None):
            o_resize(self, size, axis)
            tr.tick("resize:%s:%d" % (self.name.lstrip("/"), size[0]))

        def d_set(self, args, val):
            o_set(self, args, val)
            tr.tick("write:%s:%s" % (self.name.lstrip("/"), args))

        self._patch(hfiles.File, "__init__", f_init)
        self._patch(hfiles.File, "close", f_close)
        self._patch(hattrs.AttributeManager, "__setitem__", a_set)
        self._patch(hgrp.Group, "create_dataset", g_create)
        self._patch(hds.Dataset, "resize", d_resize)
        self._patch(hds.Dataset, "__setitem__", d_set)
        return self

    def __exit__(self, *a):
        for cls, name, old in reversed(self.saved):
            setattr(cls, name, old)
        self.saved = []


class ApiRecorder:
    """records the set_*_tensor calls made on FileProcessTensor objects, and the attributes
    of the object whose file is created"""

    def __init__(self):
        self.calls = []
        self.meta = None
        self.saved = []

    def __enter__(self):
        import oqupy.process_tensor as P
        rec = self
        cls = P.FileProcessTensor
        o_create = cls._create_file

        def create(self, filename):
            rec.meta = (self._hs_dim, self._dt, self._transform_in, self._transform_out,
                        self.name, self.description, self._write, self._overwrite)
            r = o_create(self, filename)
            rec.calls = []          # (the constructor's own set_initial_tensor(None) is part of _create_file)
            return r

        def wrap(name, kind):
            orig = getattr(cls, name)

            def f(self, *a, **kw):
                if kind == "I":
                    t = a[0] if a else kw.get("initial_tensor")
                    step = 0
                else:
                    step = a[0] if a else kw["step"]
                    t = a[1] if len(a) > 1 else kw.get("tensor")
                rec.calls.append((kind, int(step), None if t is None else np.array(t)))
                return orig(self, *a, **kw)
            rec.saved.append((cls, name, orig))
            setattr(cls, name, f)
        self.saved.append((cls, "_create_file", o_create))
        cls._create_file = create
        wrap("set_initial_tensor", "I")
        wrap("set_mpo_tensor", "M")
        wrap("set_cap_tensor", "C")
        o_caps = cls.compute_caps

        def caps(self):
            r = o_caps(self)
            rec.calls.append(("K", 0, None))
            return r
        self.saved.append((cls, "compute_caps", o_caps))
        cls.compute_caps = caps
        return self

    def __exit__(self, *a):
        for cls, name, old in reversed(self.saved):
            setattr(cls, name, old)
        self.saved = []


# ---------------------------------------------------------------------------
# scenarios (JSON specs, so that a replay file can be re-executed)
# ---------------------------------------------------------------------------

def tensor_spec(a):
    a = np.asarray(a, dtype=complex)
    return {"shape": list(a.shape), "re": [float(x) for x in a.real.reshape(-1)],
            "im": [float(x) for x in a.imag.reshape(-1)]}


def tensor_of(spec):
    if spec is None:
        return None
    return (np.array(spec["re"], dtype=float) + 1j * np.array(spec["im"], dtype=float)
            ).reshape(spec["shape"])


# time steps: round ones, ones no short decimal represents, very small (SI units) and large ones
DT_VALUES = [0.1, 0.25, 0.04, 1.0 / 3.0, math.pi / 40, 0.1 / 3, 2.5e-15, 1e-9 * math.sqrt(2.0), 7.3]


def gen_pt_spec(rng, length=None, rank=None, max_bond=4, dim=2, with_dt=None, with_tr=None,
                named=None, caps="computed", square=False):
    """hand-built PT: random small dyadic entries (exact in binary64).
    with_tr: False / True ('both') / 'in' / 'out' (exactly one transform);
    caps: 'computed' (compute_caps()), 'custom' (user-defined cap vectors), 'none' (no caps)"""
    n = length if length is not None else rng.randrange(1, 7)
    rank = rank if rank is not None else rng.choice([3, 4])
    bonds = [1] + [rng.randrange(1, max_bond + 1) for _ in range(n - 1)] + [1]
    rho = dim * dim
    with_tr = rng.random() < 0.3 if with_tr is None else with_tr
    if with_tr is True:
        with_tr = "both"
    tin = tout = None
    legs_in, legs_out = rho, rho
    if with_tr and rank == 4:
        if with_tr in ("both", "in"):
            legs_in = rho if square else rng.choice([rho, 3])
            tin = tensor_spec(_rand_arr(rng, (rho, legs_in)))
        if with_tr in ("both", "out"):
            legs_out = rho if square else rng.choice([rho, 3])
            tout = tensor_spec(_rand_arr(rng, (legs_out, rho)))
    mpos = []
    for k in range(n):
        shape = (bonds[k], bonds[k + 1], rho) if rank == 3 else (bonds[k], bonds[k + 1], legs_in, legs_out)
        mpos.append(tensor_spec(_rand_arr(rng, shape)))
    with_dt = rng.random() < 0.6 if with_dt is None else with_dt
    named = rng.random() < 0.5 if named is None else named
    spec = {"hs": dim, "dt": rng.choice(DT_VALUES) if with_dt else None,
            "tin": tin, "tout": tout,
            "name": rng.choice(["pt A", "spin-boson", "x"]) if named else None,
            "descr": rng.choice(["made by the harness", "δ test", "line one"]) if named else None,
            "mpos": mpos, "rank": rank}
    if caps == "custom":
        spec["caps"] = [tensor_spec(_rand_arr(rng, (b,))) for b in bonds]
    elif caps == "none":
        spec["caps"] = []
    return spec


def _rand_arr(rng, shape):
    size = int(np.prod(shape))
    re = np.array([rng.randrange(-48, 49) / 64.0 for _ in range(size)])
    im = np.array([rng.randrange(-48, 49) / 64.0 for _ in range(size)])
    return (re + 1j * im).reshape(shape)


def build_simple(spec):
    import oqupy
    pt = oqupy.SimpleProcessTensor(
        hilbert_space_dimension=spec["hs"], dt=spec["dt"], transform_in=tensor_of(spec["tin"]),
        transform_out=tensor_of(spec["tout"]), name=spec["name"], description=spec["descr"])
    for k, m in enumerate(spec["mpos"]):
        pt.set_mpo_tensor(k, tensor_of(m))
    if spec.get("caps") is None:
        pt.compute_caps()
    else:
        for k, c in enumerate(spec["caps"]):
            pt.set_cap_tensor(k, tensor_of(c))
    return pt


def make_prior(prior, path):
    """state of the path before the writer starts"""
    if os.path.exists(path):
        os.remove(path)
    if prior == "missing":
        return
    if prior == "pt":
        build_simple(PRIOR_PT).export(path, overwrite=True)
        return
    if prior == "unreadable":
        with open(path, "wb") as f:
            f.write(b"this is not an HDF5 file\n" * 8)
        return
    if prior == "empty":
        import h5py
        h5py.File(path, "w").close()
        return
    if prior in ("ptopen", "fresh", "midmpo"):
        # left-overs of interrupted writers, everything issued so far on disk:
        # ptopen = all tensors written, died just before close(); fresh = died right after
        # creation; midmpo = died while the MPO tensors were written (PT-TEMPO order)
        import oqupy
        spec = PRIOR_PT2
        fpt = oqupy.FileProcessTensor(mode="overwrite", filename=path, hilbert_space_dimension=spec["hs"],
                                      dt=spec["dt"], name=spec["name"])
        if prior != "fresh":
            ks = list(reversed(range(len(spec["mpos"]))))
            for k in (ks if prior == "ptopen" else ks[:1]):
                fpt.set_mpo_tensor(k, tensor_of(spec["mpos"][k]))
            if prior == "ptopen":
                fpt.compute_caps()
        fpt._f.close()            # the HDF5 handle only: close() of the object never ran
        return
    raise ValueError(prior)


PRIOR_PT = {"hs": 2, "dt": 0.5, "tin": None, "tout": None, "name": "older file", "descr": None,
            "mpos": [tensor_spec(np.arange(4).reshape(1, 1, 4) / 8.0 + 0.5j)], "rank": 3}


PRIOR_PT2 = {"hs": 2, "dt": 0.5, "tin": None, "tout": None, "name": "interrupted run", "descr": None,
             "mpos": [tensor_spec(np.arange(8).reshape(1, 2, 4) / 8.0 + 0.5j),
                      tensor_spec(np.arange(8).reshape(2, 1, 4) / 16.0 - 0.25j)], "rank": 3}

ENTRY_POINTS = ["fpt", "export", "PtTempo", "pt_tempo_compute"]
ENTRY_PRIORS = ["missing", "pt", "ptopen", "fresh", "midmpo", "unreadable", "empty"]


def observe_entry(entry, ovw, prior):
    """a creating entry point against a path in state `prior`:
    (raised exception name or None, were the bytes of the existing file changed?)"""
    import hashlib
    import oqupy
    from . import oq
    d = tempfile.mkdtemp(prefix="c17entry_")
    path = os.path.join(d, "p.hdf5")
    try:
        make_prior(prior, path)
        before = hashlib.sha1(open(path, "rb").read()).hexdigest() if os.path.exists(path) else None
        raised = None
        handle = None
        with warnings.catch_warnings():
            warnings.simplefilter("ignore")
            try:
                if entry == "fpt":
                    handle = oqupy.FileProcessTensor(mode="overwrite" if ovw else "write",
                                                     filename=path, hilbert_space_dimension=2)
                elif entry == "export":
                    build_simple(PRIOR_PT2).export(path, overwrite=ovw)
                elif entry == "PtTempo":
                    handle = oqupy.PtTempo(bath=oq.cheap_bath(), start_time=0.0, end_time=0.25,
                                           parameters=oq.cheap_params(0.1), process_tensor_file=path,
                                           overwrite=ovw)._process_tensor
                else:
                    handle = oqupy.pt_tempo_compute(bath=oq.cheap_bath(), start_time=0.0, end_time=0.25,
                                                    parameters=oq.cheap_params(0.1),
                                                    process_tensor_file=path, overwrite=ovw,
                                                    progress_type="silent")
            except Exception as e:      # noqa
                raised = type(e).__name__
        if handle is not None:
            try:
                handle._f.close()
            except Exception:
                pass
        after = hashlib.sha1(open(path, "rb").read()).hexdigest() if os.path.exists(path) else None
        return raised, before != after
    finally:
        shutil.rmtree(d, ignore_errors=True)


REMOVE_CASES = [("named-new", False, True, "missing"), ("named-new", True, True, "missing"),
                ("named-existing", True, True, "pt"), ("temporary", False, False, "missing")]


def observe_entry_remove(entry, ovw, named, prior):
    """create through `entry`, then call remove() on the object obtained:
    'deleted' / 'refused' (FileExistsError, file still there) / other"""
    import oqupy
    from . import oq
    d = tempfile.mkdtemp(prefix="c17rm_")
    path = os.path.join(d, "p.hdf5")
    try:
        make_prior(prior, path)
        with warnings.catch_warnings():
            warnings.simplefilter("ignore")
            try:
                if entry == "fpt":
                    obj = oqupy.FileProcessTensor(mode="overwrite" if ovw else "write",
                                                  filename=path if named else None,
                                                  hilbert_space_dimension=2)
                elif entry == "PtTempo":
                    obj = oqupy.PtTempo(bath=oq.cheap_bath(), start_time=0.0, end_time=0.25,
                                        parameters=oq.cheap_params(0.1),
                                        process_tensor_file=path if named else True,
                                        overwrite=ovw)._process_tensor
                else:
                    obj = oqupy.pt_tempo_compute(bath=oq.cheap_bath(), start_time=0.0, end_time=0.25,
                                                 parameters=oq.cheap_params(0.1),
                                                 process_tensor_file=path if named else True,
                                                 overwrite=ovw, progress_type="silent")
            except Exception as e:      # noqa
                return "ctor-raises-" + type(e).__name__
            real = obj.filename
            try:
                obj.remove()
                out = "deleted" if not os.path.exists(real) else "kept"
            except FileExistsError:
                out = "refused" if os.path.exists(real) else "refused-but-deleted"
            except Exception as e:      # noqa
                out = "error-" + type(e).__name__
            try:
                obj._f.close()
            except Exception:
                pass
            if os.path.exists(real) and real != path:
                os.remove(real)
        return out
    finally:
        shutil.rmtree(d, ignore_errors=True)


def remove_cases():
    for entry in ("fpt", "PtTempo", "pt_tempo_compute"):
        for case, ovw, named, prior in REMOVE_CASES:
            yield entry, case, ovw, named, prior


def judge_entry_remove(entry, case, ovw, named, got):
    """a named file is deleted by remove() only if overwriting it was asked for; a temporary
    file the object created itself may be deleted"""
    want = "deleted" if (not named or ovw) else "refused"
    if got != want:
        return [("remove-entitlement:%s:%s:overwrite=%s" % (entry, case, ovw),
                 {"entry_point": entry, "file": case, "overwrite": ovw, "remove": got,
                  "expected": want,
                  "how": "create through %s (%s file, overwrite=%s), then .remove() on the process "
                         "tensor obtained" % (entry, case.replace("-", " "), ovw)})]
    return []


REMOVE_SEQ_MODES = [("read", "read", True), ("write-named", "write", True),
                    ("overwrite-named", "overwrite", True), ("temporary", "write", False)]


def observe_remove_seq(case, mode, named, twice):
    """`close(); remove()` (twice=False) or `remove(); remove()` (twice=True) on a
    FileProcessTensor of the given mode: (file still there?, bytes unchanged?, what was raised)"""
    import hashlib
    import oqupy
    d = tempfile.mkdtemp(prefix="c17rs_")
    path = os.path.join(d, "p.hdf5")
    try:
        if mode == "read":
            make_prior("pt", path)
        with warnings.catch_warnings():
            warnings.simplefilter("ignore")
            kw = dict(mode=mode, filename=path if named else None)
            if mode != "read":
                kw.update(hilbert_space_dimension=2, dt=0.5)
            obj = oqupy.FileProcessTensor(**kw)
            real = obj.filename
            obj._f.flush()
            before = hashlib.sha1(open(real, "rb").read()).hexdigest()
            raised = []
            for call in ((obj.remove, obj.remove) if twice else (obj.close, obj.remove)):
                try:
                    call()
                    raised.append(None)
                except Exception as e:      # noqa
                    raised.append(type(e).__name__)
            try:
                obj._f.close()
            except Exception:
                pass
        exists = os.path.exists(real)
        same = exists and hashlib.sha1(open(real, "rb").read()).hexdigest() == before
        if exists and real != path:
            os.remove(real)
        return exists, same, raised
    finally:
        shutil.rmtree(d, ignore_errors=True)


def remove_seq_cases():
    for case, mode, named in REMOVE_SEQ_MODES:
        for twice in (False, True):
            yield case, mode, named, twice


def judge_remove_seq(case, mode, named, twice, exists, same, raised):
    """an object that is not entitled never deletes its file, whatever was called before"""
    entitled = (mode == "overwrite") or (mode == "write" and not named)
    if not entitled and not exists:
        seq = "remove();remove()" if twice else "close();remove()"
        return [("remove-entitlement:%s:%s" % (case, seq.replace(";", "-").replace("()", "")),
                 {"mode": mode, "filename_given": named, "sequence": seq, "raised": raised,
                  "file_exists_afterwards": exists,
                  "how": "FileProcessTensor(mode=%r, filename %s); %s — the object may not delete "
                         "this file, yet it is gone" % (mode, "given" if named else "None", seq)})]
    return []


def entry_cases():
    for entry in ENTRY_POINTS:
        for ovw in (False, True):
            for prior in ENTRY_PRIORS:
                yield entry, ovw, prior


def judge_entry(entry, ovw, prior, raised, changed):
    """property text: creating never overwrites an existing file unless asked to"""
    if prior != "missing" and not ovw and (raised is None or changed):
        return [("clobber:%s:prior=%s" % (entry, prior),
                 {"entry_point": entry, "overwrite": ovw, "prior": prior, "raised": raised,
                  "existing_file_changed": changed,
                  "how": "%s onto an existing %s file without overwrite: %s, the existing file's "
                         "bytes %s" % ({"fpt": "FileProcessTensor(mode='write')", "export": "export(f)",
                                        "PtTempo": "PtTempo(..., process_tensor_file=f)",
                                        "pt_tempo_compute": "pt_tempo_compute(..., process_tensor_file=f)"
                                        }[entry], prior,
                                       "raised " + raised if raised else "did not raise",
                                       "changed" if changed else "are unchanged")})]
    return []


OTHER_VERSION = "0.0.1.other"


class writer_version:
    """while active, the writer stamps its file with another oqupy version ('other') or with
    none at all ('absent'); the reader afterwards runs with the installed version"""

    def __init__(self, sc):
        self.how = sc.get("version")

    def __enter__(self):
        import oqupy.process_tensor as P
        self.P = P
        self.saved_version = P.__version__
        self.saved_create = P.FileProcessTensor._create_file
        if self.how == "other":
            P.__version__ = OTHER_VERSION
        elif self.how == "absent":
            orig = self.saved_create

            def create(obj, filename):
                r = orig(obj, filename)
                del obj._f.attrs["oqupy_version"]
                return r
            P.FileProcessTensor._create_file = create
        return self

    def __exit__(self, *a):
        self.P.__version__ = self.saved_version
        self.P.FileProcessTensor._create_file = self.saved_create


def run_scenario(sc, path):
    """the writer of scenario `sc` on the real code, to completion (including close())"""
    import oqupy
    kind = sc["kind"]
    if kind == "filept-nocaps":
        # a file-backed process tensor filled by hand with MPO tensors only, then closed
        spec = sc["pt"]
        fpt = oqupy.FileProcessTensor(
            mode="overwrite" if sc["ovw"] else "write", filename=path,
            hilbert_space_dimension=spec["hs"], dt=spec["dt"], name=spec["name"],
            description=spec["descr"])
        for k in range(len(spec["mpos"])):
            fpt.set_mpo_tensor(k, tensor_of(spec["mpos"][k]))
        fpt.close()
        return
    if kind == "export":
        build_simple(sc["pt"]).export(path, overwrite=sc["ovw"])
    elif kind == "filept":
        # a file-backed process tensor filled the way PtTempoBackend.update_process_tensor and
        # FileProcessTensor.compute_caps do it, then closed by the user
        spec = sc["pt"]
        fpt = oqupy.FileProcessTensor(
            mode="overwrite" if sc["ovw"] else "write", filename=path,
            hilbert_space_dimension=spec["hs"], dt=spec["dt"], transform_in=tensor_of(spec["tin"]),
            transform_out=tensor_of(spec["tout"]), name=spec["name"], description=spec["descr"])
        for k in reversed(range(len(spec["mpos"]))):
            fpt.set_mpo_tensor(k, tensor_of(spec["mpos"][k]))
        fpt.compute_caps()
        fpt.close()
    elif kind == "filept2":
        # as above, but the object stays open after compute_caps() and is written to again:
        # the tensors of a second process tensor are stored in it and the caps recomputed
        spec, spec2 = sc["pt"], sc["pt2"]
        fpt = oqupy.FileProcessTensor(
            mode="overwrite" if sc["ovw"] else "write", filename=path,
            hilbert_space_dimension=spec["hs"], dt=spec["dt"], transform_in=tensor_of(spec["tin"]),
            transform_out=tensor_of(spec["tout"]), name=spec["name"], description=spec["descr"])
        for k in reversed(range(len(spec["mpos"]))):
            fpt.set_mpo_tensor(k, tensor_of(spec["mpos"][k]))
        fpt.compute_caps()
        for k in reversed(range(len(spec2["mpos"]))):
            fpt.set_mpo_tensor(k, tensor_of(spec2["mpos"][k]))
        fpt.compute_caps()
        fpt.close()
    elif kind == "pttempo":
        from . import oq
        from oqupy import operators as op
        coupling = {"z": 0.5 * op.sigma("z"), "x": 0.5 * op.sigma("x")}[sc["coupling"]]
        pt = oqupy.pt_tempo_compute(
            bath=oq.cheap_bath(coupling), start_time=0.0, end_time=sc["steps"] * 0.1 + 0.01,
            parameters=oq.cheap_params(0.1), process_tensor_file=path, overwrite=sc["ovw"],
            progress_type="silent", name=sc.get("name"))
        pt.close()
    else:
        raise ValueError(kind)


OPEN_SEQUENCE = ["file", "file", "simple", "simple", "file", "simple"]


def _open_once(path, kind):
    """one import in this process: fail / warn / clean"""
    from oqupy.process_tensor import import_process_tensor
    with warnings.catch_warnings(record=True) as w:
        warnings.simplefilter("always")
        try:
            pt = import_process_tensor(path, kind)
        except Exception as e:          # noqa: any failure to open counts as "fails"
            return "fail:" + type(e).__name__
        corrupt = any("corrupt" in str(x.message) for x in w)
        if kind == "file":
            try:
                pt._f.close()           # not pt.close(): that is part of what is being checked
            except Exception:
                pass
        del pt
    return "warn" if corrupt else "clean"


def classify(path):
    """what a reader observes: (outcome, detail).  The file is opened several times in this
    one process (file, file, simple, simple, file, simple: every ordered pair of import types
    occurs); the reader's outcome must be a function of the file only, so the overall outcome
    is the most permissive one seen: clean if ANY open was silent, else warn if any warned.
    detail lists the individual opens when they are not all alike."""
    opens = [_open_once(path, kind) for kind in OPEN_SEQUENCE]
    first = opens[0]
    kinds = [o.split(":")[0] for o in opens]
    if "clean" in kinds:
        outcome = "clean"
    elif "warn" in kinds:
        outcome = "warn"
    else:
        outcome = "fail"
    detail = first.split(":", 1)[1] if first.startswith("fail:") else ""
    # a 'simple' import may additionally fail on unreadable tensors; a silent open after a
    # warning/failing one is what must not happen
    if outcome == "clean" and kinds[0] != "clean":
        detail = "opens in one process: " + ",".join(
            "%s=%s" % (k, o) for k, o in zip(OPEN_SEQUENCE, kinds))
    return outcome, detail


def content_of(path):
    """(mpo tensors, cap tensors) a reader gets from the file through the public getters;
    unreadable entries become the exception name"""
    from oqupy.process_tensor import import_process_tensor
    with warnings.catch_warnings():
        warnings.simplefilter("ignore")
        pt = import_process_tensor(path, "file")
        out = {"mpos": [], "caps": []}
        try:
            n = len(pt)
            for k in range(n):
                try:
                    out["mpos"].append(pt.get_mpo_tensor(k, transformed=False))
                except Exception as e:
                    out["mpos"].append(type(e).__name__)
            k = 0
            while k <= n + 1:
                try:
                    c = pt.get_cap_tensor(k)
                except Exception as e:
                    c = type(e).__name__
                if c is None:
                    break
                out["caps"].append(c)
                k += 1
        finally:
            pt._f.close()
    return out


def complete_content(sc, path):
    """does a reader of the completed file get every tensor of the scenario back?
    returns None (yes) or a description of what is missing/different"""
    if "pt" not in sc:
        want_n = sc["steps"]
        want = None
    else:
        want = [tensor_of(m) for m in sc.get("pt2", sc["pt"])["mpos"]]
        want_n = len(want)
    try:
        got = content_of(path)
    except Exception as e:
        return "cannot be read: " + type(e).__name__
    if len(got["mpos"]) != want_n:
        return "%d MPO tensors, expected %d" % (len(got["mpos"]), want_n)
    for k, t in enumerate(got["mpos"]):
        if isinstance(t, str) or t is None:
            return "MPO tensor %d unreadable (%s)" % (k, t)
        if want is not None and (t.shape != want[k].shape or not np.array_equal(t, want[k])):
            return "MPO tensor %d differs" % k
    want_caps = want_n + 1
    if sc["kind"] == "filept-nocaps":
        want_caps = 0
    elif sc["kind"] == "export" and sc["pt"].get("caps") is not None:
        want_caps = len(sc["pt"]["caps"])
    if len(got["caps"]) != want_caps or any(isinstance(c, str) for c in got["caps"]):
        return "%d cap tensors, expected %d" % (len(got["caps"]), want_caps)
    return None


# ---------------------------------------------------------------------------
# crash-point runner (separate interpreter; one forked child per crash point)
# ---------------------------------------------------------------------------

class InjectedFault(RuntimeError):
    """an error raised inside the writer (stands for disk full, MemoryError, ...)"""


def _child(sc, path, k_kill, variant, logfd):
    """never returns.  variant: exit (os._exit after op k), flush (flush, then os._exit),
    raise / interrupt (InjectedFault / KeyboardInterrupt raised after op k returns; it unwinds
    through the library like any exception; whatever is still open is then flushed, as h5py
    does when an interpreter exits, and the process ends)"""
    try:
        count = [0]

        def tick(label):
            count[0] += 1
            os.write(logfd, (label + "\n").encode())
            if count[0] == k_kill:
                if variant == "raise":
                    raise InjectedFault("injected after operation %d" % k_kill)
                if variant == "interrupt":
                    raise KeyboardInterrupt()
                if variant == "flush" and tr.cur is not None:
                    try:
                        tr.cur.flush()
                    except Exception:
                        pass
                os._exit(0)
        tr = H5Tracer(tick)
        propagated = None
        import oqupy.process_tensor as P
        o_close = P.FileProcessTensor.close

        def marked_close(self):
            os.write(logfd, b"MARK:close\n")
            return o_close(self)
        P.FileProcessTensor.close = marked_close
        with tr:
            with warnings.catch_warnings():
                warnings.simplefilter("ignore")
                try:
                    with writer_version(sc):
                        run_scenario(sc, path)
                except (InjectedFault, KeyboardInterrupt) as e:
                    propagated = type(e).__name__
        if variant in ("raise", "interrupt"):
            os.write(logfd, ("END:%s\n" % (propagated or "swallowed")).encode())
            try:
                if tr.cur is not None and tr.cur.id.valid:
                    tr.cur.flush()
            except Exception:
                pass
        os._exit(0)
    except BaseException as e:      # noqa
        os.write(logfd, ("EXC:%s:%s\n" % (type(e).__name__, str(e)[:200])).encode())
        os._exit(3)


def _fork_run(sc, path, k_kill, variant, logpath):
    fd = os.open(logpath, os.O_WRONLY | os.O_CREAT | os.O_TRUNC)
    pid = os.fork()
    if pid == 0:
        _child(sc, path, k_kill, variant, fd)
    os.close(fd)
    _, status = os.waitpid(pid, 0)
    raw = open(logpath).read().splitlines()
    log = [l for l in raw if not l.startswith("MARK:")]
    # number of operations issued before the (last) close() call started
    close_at = None
    n = 0
    for l in raw:
        if l == "MARK:close":
            close_at = n
        elif not l.startswith(("END:", "EXC:")):
            n += 1
    _fork_run.close_at = close_at
    return status, log


def runner_main(spec_path, out_path):
    sc = json.load(open(spec_path))
    work = tempfile.mkdtemp(prefix="c17run_")
    path = os.path.join(work, "pt.hdf5")
    logp = os.path.join(work, "log.txt")
    out = {"scenario": sc, "points": []}
    try:
        # complete run (in-process for the API record, forked for the op log)
        make_prior(sc["prior"], path)
        with ApiRecorder() as rec:
            with warnings.catch_warnings():
                warnings.simplefilter("ignore")
                try:
                    with writer_version(sc):
                        run_scenario(sc, path)
                    out["full_error"] = None
                except Exception as e:
                    out["full_error"] = type(e).__name__
        if out["full_error"] is None:
            m = rec.meta
            out["meta"] = enc_meta(*m[:6])
            out["mode"] = "overwrite" if m[7] else "write"
            out["cmds"] = enc_cmds(rec.calls)
            out["full_dump"] = dump_file(path)
            out["full_outcome"] = classify(path)[0]
            out["full_complete"] = complete_content(sc, path)
        make_prior(sc["prior"], path)
        out["prior_dump"] = dump_file(path)
        status, log = _fork_run(sc, path, 0, "exit", logp)
        out["full_log"] = log
        out["close_at"] = _fork_run.close_at
        out["full_dump_forked"] = dump_file(path)
        nops = len([l for l in log if not l.startswith(("EXC:", "END:"))])
        ks = sc.get("ks") or list(range(1, nops + 1))
        if sc.get("complete_only"):
            ks = []
        for k in ks:
            for variant in sc.get("variants", ["exit", "flush"]):
                make_prior(sc["prior"], path)
                status, log = _fork_run(sc, path, k, variant, logp)
                outcome, detail = classify(path)
                end = [l for l in log if l.startswith(("END:", "EXC:"))]
                out["points"].append({
                    "k": k, "variant": variant, "op": log[k - 1] if len(log) >= k else None,
                    "ops_logged": len(log), "outcome": outcome, "detail": detail,
                    "end": end[0] if end else None,
                    "dump": dump_file(path)})
    finally:
        shutil.rmtree(work, ignore_errors=True)
    json.dump(out, open(out_path, "w"))


def crash_enumerate(sc):
    """run the crash-point runner for scenario `sc` in a fresh interpreter"""
    d = tempfile.mkdtemp(prefix="c17spec_")
    try:
        sp, op_ = os.path.join(d, "spec.json"), os.path.join(d, "out.json")
        json.dump(sc, open(sp, "w"))
        env = dict(os.environ, OPENBLAS_NUM_THREADS="1", OMP_NUM_THREADS="1",
                   PYTHONDONTWRITEBYTECODE="1")
        p = subprocess.run([sys.executable, "-m", "harness.run_C17", "--runner", sp, op_],
                           cwd=fw.VERIF, env=env, capture_output=True, text=True, timeout=1500)
        if p.returncode != 0 or not os.path.exists(op_):
            raise fw.Infra("crash-point runner failed: " + (p.stdout + p.stderr)[-2000:])
        return json.load(open(op_))
    finally:
        shutil.rmtree(d, ignore_errors=True)


# ---------------------------------------------------------------------------
# pieces of the source evaluated with real Python values (flag tests)
# ---------------------------------------------------------------------------

def source_flag_tests():
    """(read_test_src, close_test_src) as Python expressions, found the same way the
    translator finds them"""
    import ast
    src = open(os.path.join(fw.REPO, "oqupy", "process_tensor.py")).read()
    tree = ast.parse(src)
    cls = [n for n in tree.body if isinstance(n, ast.ClassDef) and n.name == "FileProcessTensor"][0]
    out = {}
    for fn in cls.body:
        if isinstance(fn, ast.FunctionDef) and fn.name in ("_read_file", "close"):
            for n in ast.walk(fn):
                if isinstance(n, ast.If) and "attrs['writing']" in ast.unparse(n.test):
                    out[fn.name] = ast.unparse(n.test)
    return out.get("_read_file"), out.get("close")


PYVALS = [("True", True), ("False", False), ("np.True_", np.True_), ("np.False_", np.False_)]


def eval_flag(expr, value, write):
    class A:
        def __getattr__(self, name):        # helpers the test may call: taken as True
            return lambda *a, **k: True
    s = A()
    s._f = A()
    s._f.attrs = {"writing": value}
    s._write = write
    try:
        return bool(eval(expr, {"np": np}, {"self": s, "attrs": s._f.attrs}))
    except Exception:
        return None


# ---------------------------------------------------------------------------
# correspondence
# ---------------------------------------------------------------------------

def corpus_scenarios():
    import glob
    out = []
    for f in sorted(glob.glob(os.path.join(fw.CORPUS, PID, "*.json"))):
        try:
            sc = json.load(open(f)).get("failing_input", {}).get("scenario")
        except (OSError, ValueError):
            sc = None
        if sc is not None and sc not in out:
            out.append(sc)
    return out


def scenarios(tier, rng):
    """writer scenarios; `variants` = how the writer is interrupted after each operation"""
    gen = []
    gen.append({"kind": "export", "pt": gen_pt_spec(rng, length=2, rank=3, max_bond=2, with_dt=True,
                                                    with_tr=False, named=True),
                "ovw": False, "prior": "missing",
                "variants": ["exit", "flush", "raise", "interrupt"]})
    gen.append({"kind": "export", "pt": gen_pt_spec(rng, length=1, rank=4, max_bond=2, with_dt=False,
                                                    with_tr=True, named=False),
                "ovw": True, "prior": "pt", "variants": ["flush", "interrupt"]})
    gen.append({"kind": "filept", "pt": gen_pt_spec(rng, length=3, rank=4, max_bond=2, with_tr=False),
                "ovw": True, "prior": "missing", "variants": ["flush", "raise"]})
    two = gen_pt_spec(rng, length=2, rank=3, max_bond=2, with_tr=False)
    gen.append({"kind": "filept2", "pt": two,
                "pt2": gen_pt_spec(rng, length=2, rank=3, max_bond=2, with_tr=False),
                "ovw": False, "prior": "missing", "variants": ["flush"]})
    # a named file that must not be overwritten: the object is not entitled to remove it
    gen.append({"kind": "pttempo", "coupling": "z", "steps": 2, "ovw": False, "prior": "missing",
                "variants": ["flush", "interrupt"]})
    # files written by another / an unversioned oqupy: the reader's version warning must not
    # replace the corruption warning
    gen.append({"kind": "export", "pt": gen_pt_spec(rng, length=1, rank=3, max_bond=2, with_tr=False),
                "ovw": False, "prior": "missing", "version": "other", "variants": ["flush"]})
    gen.append({"kind": "filept", "pt": gen_pt_spec(rng, length=1, rank=3, max_bond=2, with_tr=False),
                "ovw": True, "prior": "missing", "version": "absent", "variants": ["flush"]})
    # closed normally although there is no (complete) set of caps: complete run only
    gen.append({"kind": "export", "pt": gen_pt_spec(rng, length=2, rank=3, max_bond=2, with_tr=False,
                                                    caps="none"),
                "ovw": False, "prior": "missing", "complete_only": True})
    partial = gen_pt_spec(rng, length=3, rank=3, max_bond=2, with_tr=False, caps="custom")
    partial["caps"] = partial["caps"][:2]
    gen.append({"kind": "export", "pt": partial, "ovw": True, "prior": "missing",
                "complete_only": True})
    gen.append({"kind": "filept-nocaps", "pt": gen_pt_spec(rng, length=2, rank=4, max_bond=2,
                                                           with_tr=False),
                "ovw": False, "prior": "missing", "complete_only": True})
    if tier == "thorough":
        for i in range(6):
            gen.append({"kind": rng.choice(["export", "filept"]),
                        "pt": gen_pt_spec(rng, max_bond=3),
                        "ovw": rng.random() < 0.5, "prior": "missing",
                        "variants": ["exit", "flush", "raise", "interrupt"]})
            if gen[-1]["ovw"]:
                gen[-1]["prior"] = rng.choice(["missing", "pt", "unreadable"])
        gen.append({"kind": "pttempo", "coupling": "x", "steps": 3, "ovw": True, "prior": "pt",
                    "variants": ["exit", "flush", "raise", "interrupt"]})
        gen.append({"kind": "pttempo", "coupling": "z", "steps": 4, "ovw": False, "prior": "missing",
                    "variants": ["exit", "flush", "raise", "interrupt"]})
    # past failures first (unless the same writer is generated anyway)
    def core(sc):
        return {k: v for k, v in sc.items() if k not in ("variants", "ks")}
    scs = []
    for sc in corpus_scenarios():
        if not any(core(sc) == core(g) for g in gen):
            sc = dict(sc)
            sc.setdefault("variants", ["exit", "flush", "raise", "interrupt"])
            scs.append(sc)
    return scs + gen


def version_token_for(sc):
    if sc.get("version") == "other":
        return "version=" + hexs(OTHER_VERSION)
    return version_token()


def model_line_for(sc, result, crash):
    """protocol line asking the model for the same scenario.  An older complete file at the
    path (prior 'pt') is given to the model as `empty` (some readable file): writers that
    overwrite truncate it with their first operation, so every state from the first
    operation on is the same."""
    disk = {"missing": "missing", "pt": "empty", "unreadable": "unreadable", "empty": "empty"}[sc["prior"]]
    if sc["kind"] == "export":
        pt = build_simple(sc["pt"])
        return "%s ovw=%d disk=%s %s %s" % ("crash-export" if crash else "export", int(sc["ovw"]),
                                            disk, version_token_for(sc), enc_simple(pt))
    return "%s mode=%s disk=%s %s close=1 unwind=%s %s cmds=%s" % (
        "crash-writer" if crash else "writer", result["mode"], disk, version_token_for(sc),
        "pttempo" if sc["kind"] == "pttempo" else "none", result["meta"], result["cmds"])


def interrupted_before_close(result):
    """number of operations issued before close() starts (from the complete op log)"""
    if result.get("close_at") is not None:
        return result["close_at"]
    log = result["full_log"]
    n = len(log)
    # close() issues [attr:writing=False,] fclose as its last operations
    k = n - 1
    if k >= 1 and log[k - 1].startswith("attr:writing="):
        k -= 1
    return k


def judge_points(sc, result):
    """the property text applied to the real observations; returns list of (key, payload)"""
    bad = []
    if result.get("full_error"):
        return bad
    kclose = interrupted_before_close(result)
    seen = set()
    for p in result["points"]:
        if p["k"] <= kclose and p["outcome"] == "clean":
            if p.get("end") == "END:swallowed":
                continue        # the library absorbed the fault and the writer ran on
            exc = p["variant"] in ("raise", "interrupt")
            key = ("interrupted-by-exception:file-opens-without-warning:" + sc["kind"]) if exc \
                else "writing-flag:interrupted-file-opens-without-warning"
            if sc.get("version"):
                key += ":file-version-" + sc["version"]
            if (p.get("detail") or "").startswith("opens in one process"):
                key += ":on-a-repeated-import"
            if key in seen:
                continue
            seen.add(key)
            how = {"exit": "killed (os._exit)", "flush": "killed (os._exit after flush)",
                   "raise": "hit by an exception (RuntimeError)",
                   "interrupt": "hit by KeyboardInterrupt"}[p["variant"]]
            bad.append((key,
                        {"scenario": dict(sc, ks=[p["k"]], variants=[p["variant"]]),
                         "killed_after_op": p["k"], "op": p["op"],
                         "variant": p["variant"], "reader": p["outcome"],
                         "file": (p.get("dump") or "")[:400], "opens": p.get("detail"),
                         "how": "writer %s after h5py operation %d (%s), before close() was "
                                "reached on the normal path; import_process_tensor opened the "
                                "surviving file without error and without the corruption warning"
                                % (how, p["k"], p["op"])}))
    if result["full_outcome"] != "clean":
        bad.append(("writing-flag:closed-file-%s" % result["full_outcome"],
                    {"scenario": sc, "reader": result["full_outcome"],
                     "how": "writer ran to completion including close(); import_process_tensor "
                            "then %s" % ("warned that the file may be corrupt"
                                         if result["full_outcome"] == "warn" else "failed")}))
    if result.get("full_complete"):
        bad.append(("closed-file-incomplete",
                    {"scenario": sc, "problem": result["full_complete"],
                     "how": "writer ran to completion including close(); the re-imported file "
                            "does not give back every tensor"}))
    if " writing=1 " in (result.get("full_dump") or ""):
        bad.append(("writing-flag:still-set-after-close",
                    {"scenario": sc,
                     "how": "after a normal close() the file still carries writing=True, so it "
                            "cannot be told apart from an interrupted one"}))
    return bad


def correspondence(res, tier, rng):
    lines, checks = [], []

    def add(line, fn, key, nontrivial=True):
        lines.append(line)
        checks.append((fn, key, nontrivial))

    # (a) the flag tests on real Python values
    read_src, close_src = source_flag_tests()
    if read_src is None or close_src is None:
        res.disagree("flag tests not found in the source", {})
    else:
        for name, val in PYVALS:
            ev = eval_flag(read_src, val, False)
            if ev is None:
                res.disagree("the reader's flag test cannot be evaluated on its own", {"test": read_src})
                continue
            exp = "1" if ev else "0"
            add("flag read %s" % name, (lambda got, exp=exp: got == exp, exp), "flag-read-" + name)
            for wr in (False, True):
                ev = eval_flag(close_src, val, wr)
                if ev is None:
                    res.disagree("the flag test of close() cannot be evaluated on its own",
                                 {"test": close_src})
                    continue
                exp = "1" if ev else "0"
                add("flag close %d %s" % (int(wr), name), (lambda got, exp=exp: got == exp, exp),
                    "flag-close-%s-%s" % (wr, name))
            res.count("flag-values")

    # (b)+(c) writers, complete and interrupted at every operation
    results = []
    for sc in scenarios(tier, rng):
        r = crash_enumerate(sc)
        results.append((sc, r))
        res.count("scenario:" + sc["kind"] + (":ovw" if sc.get("ovw") else "") + ":" + sc["prior"])
        res.count("crash-points", len(r["points"]))
        if r.get("full_error"):
            res.disagree("writer scenario raised " + r["full_error"], {"scenario": sc})
            continue
        ml = model_line_for(sc, r, crash=True)
        add(ml, ("crash", sc, r), "crash:%d:%s" % (len(results), sc["kind"]))
    # (d) modes x path states, remove entitlement
    mode_cases = []
    for mode in ("read", "write", "overwrite", "append", "r"):
        for prior in ("missing", "pt", "ptopen", "unreadable", "empty"):
            for hasfn in (True, False):
                if not hasfn and mode == "read":
                    continue
                if not hasfn and prior != "missing":
                    continue
                mode_cases.append((mode, prior, hasfn))
    for (mode, prior, hasfn) in mode_cases:
        obs = observe_mode(mode, prior, hasfn)
        pt_old = build_simple(PRIOR_PT)
        line = "open mode=%s disk=%s hasfn=%d %s %s" % (
            mode, prior, int(hasfn), version_token(), enc_simple(pt_old))
        add(line, ("mode", obs), "mode:%s:%s:%s" % (mode, prior, hasfn))
        res.count("mode-case")
    # (d') every creating entry point x every state of the path x overwrite
    entry_obs = []
    for entry, ovw, prior in entry_cases():
        raised, changed = observe_entry(entry, ovw, prior)
        entry_obs.append((entry, ovw, prior, raised, changed))
        if prior == "missing":
            exp = "ok-created" if raised is None else "raises-unchanged"
        else:
            exp = ("raises-" if raised else "ok-") + ("created" if changed else "unchanged")
        kind = {"fpt": "fpt", "export": "export"}.get(entry, "pttempo")
        disk = {"missing": "missing", "unreadable": "unreadable"}.get(prior, "empty")
        add("entry kind=%s ovw=%d disk=%s hasfn=1" % (kind, int(ovw), disk),
            (lambda got, exp=exp: got.split(" remove=")[0] == exp, exp),
            "entry:%s:%s:%s" % (entry, ovw, prior))
        res.count("entry-case")
    correspondence.entry_obs = entry_obs
    remove_obs = []
    for entry, case, ovw, named, prior in remove_cases():
        got = observe_entry_remove(entry, ovw, named, prior)
        remove_obs.append((entry, case, ovw, named, got))
        kind = "fpt" if entry == "fpt" else "pttempo"
        disk = "missing" if prior == "missing" else "empty"
        add("entry kind=%s ovw=%d disk=%s hasfn=%d" % (kind, int(ovw), disk, int(named)),
            (lambda got_m, g=got: got_m.endswith(" remove=" + g), got),
            "entry-remove:%s:%s:%s" % (entry, case, ovw))
        res.count("entry-remove-case")
    correspondence.remove_obs = remove_obs
    seq_obs = []
    for case, mode, named, twice in remove_seq_cases():
        exists, same, raised = observe_remove_seq(case, mode, named, twice)
        seq_obs.append((case, mode, named, twice, exists, same, raised))
        exp = "kept" if exists else "deleted"
        add("removeseq mode=%s hasfn=%d twice=%d" % (mode, int(named), int(twice)),
            (lambda got_m, e=exp: got_m == e, exp), "removeseq:%s:%s" % (case, twice))
        if exists and not same and mode == "read":
            res.disagree("a refused remove() changed the bytes of a file opened for reading",
                         {"case": case, "twice": twice, "raised": raised})
        res.count("remove-sequence-case")
    correspondence.seq_obs = seq_obs
    # (e) PtTempo's choice
    for arg, truthy, is_text in ((None, 0, 0), (False, 0, 0), (True, 1, 0), ("<path>", 1, 1)):
        obs = observe_choice(arg)
        add("choice %d %d" % (truthy, is_text), (lambda got, obs=obs: got == obs, obs),
            "choice:%r" % (arg,))
    for ovw in (False, True):
        add("ptmode %d" % int(ovw), (lambda got, e=("overwrite" if ovw else "write"): got == e,
                                    "overwrite" if ovw else "write"), "ptmode:%s" % ovw)

    out = fw.run_driver(PID, lines)
    if len(out) != len(lines):
        raise fw.Infra("driver returned %d lines for %d inputs" % (len(out), len(lines)))
    for line, got, (chk, key, nontrivial) in zip(lines, out, checks):
        if chk[0] == "crash":
            compare_crash(res, line, got, chk[1], chk[2], key)
        elif chk[0] == "mode":
            compare_mode(res, line, got, chk[1], key)
        else:
            fn, exp = chk
            res.case(key, nontrivial, {"op": line[:120], "impl": str(exp)[:80], "model": got[:80]})
            if not fn(got):
                res.disagree("model and implementation differ on: " + line[:160],
                             {"line": line[:400], "impl": exp, "model": got[:400]})
    return results


def mask_data(dump):
    """keep the structure of a dump (attributes, shapes, row counts and row lengths) but not
    the tensor entries.  Used for real PT-TEMPO runs: every run is a fresh floating-point
    computation whose SVDs fix the bond gauge only up to run-dependent signs, so entries of
    two runs (the recorded one the model is fed with, and each crashed child) differ."""
    out = []
    for tok in dump.split(" "):
        for key in ("init_data=", "mpo_data=", "cap_data="):
            if tok.startswith(key) and "[" in tok:
                n, rows = tok[len(key):].split("[", 1)
                rows = rows[:-1]
                lens = [] if (rows == "" and n == "0") else [
                    str(len(r.split(";")) if r else 0) for r in rows.split("|")]
                tok = key + n + "[" + "|".join(lens) + "]"
        out.append(tok)
    return " ".join(out)


def compare_crash(res, line, got, sc, r, key):
    if not got.startswith("ok trace="):
        res.disagree("model cannot run the writer scenario: " + got[:100], {"scenario": sc})
        return
    head, dumps = got[len("ok trace="):].split(" dumps=", 1)
    head, excdumps = head.split(" excdumps=", 1)
    trace, rest = head.split(" excoutcomes=", 1)
    excoutcomes, outcomes = rest.split(" outcomes=", 1)
    outcomes = outcomes.split(",")
    excoutcomes = excoutcomes.split(",")
    dumps = dumps.split("#")
    excdumps = dumps if excdumps == "same" else excdumps.split("#")
    log = r["full_log"]
    if trace.split(",") != log:
        res.disagree("sequence of h5py operations differs", {
            "scenario": sc, "impl_ops": log, "model_ops": trace.split(",")})
        return
    # the model's trace has one entry per prefix 0..L
    L = len(outcomes) - 1
    if L != len(log):
        res.disagree("number of h5py operations differs", {
            "scenario": sc, "impl_ops": log, "model_ops": L})
        return
    # complete run: exact equality of content and reader outcome
    res.case(key + ":complete", True, {"op": line[:100], "impl": r["full_outcome"], "model": outcomes[L]})
    norm0 = mask_data if sc["kind"] == "pttempo" else (lambda x: x)
    if sc.get("version") == "absent":
        # the writer removed the version attribute right after creation; the model keeps it
        def norm(x):
            return " ".join(t for t in norm0(x).split(" ") if not t.startswith("version="))
    else:
        norm = norm0
    if norm(dumps[L]) != norm(r["full_dump"]):
        res.disagree("content of the completed file differs", {
            "scenario": sc, "impl": r["full_dump"][:600], "model": dumps[L][:600]})
    if outcomes[L] != r["full_outcome"]:
        res.disagree("reader outcome on the completed file differs", {
            "scenario": sc, "impl": r["full_outcome"], "model": outcomes[L]})
    kclose = interrupted_before_close(r)
    for p in r["points"]:
        k = p["k"]
        res.case(key + ":k%d:%s" % (k, p["variant"]), True)
        if p["variant"] in ("raise", "interrupt"):
            # everything issued is persisted, then the handlers on the way out ran
            if k > kclose or p.get("end") in (None, "END:swallowed"):
                continue
            if p["outcome"] != excoutcomes[k]:
                res.disagree("reader outcome after an exception in the writer differs", {
                    "scenario": sc, "k": k, "op": p["op"], "variant": p["variant"],
                    "impl": p["outcome"], "model": excoutcomes[k]})
            elif norm(p["dump"]) != norm(excdumps[k]):
                res.disagree("file content after an exception in the writer differs", {
                    "scenario": sc, "k": k, "op": p["op"], "variant": p["variant"],
                    "impl": p["dump"][:600], "model": excdumps[k][:600]})
        elif p["variant"] == "flush":
            # everything issued so far is persisted: the model must agree exactly
            if p["outcome"] != outcomes[k]:
                res.disagree("reader outcome after a flushed crash differs", {
                    "scenario": sc, "k": k, "op": p["op"], "impl": p["outcome"],
                    "model": outcomes[k]})
            if norm(p["dump"]) != norm(dumps[k]):
                res.disagree("file content after a flushed crash differs", {
                    "scenario": sc, "k": k, "op": p["op"], "impl": p["dump"][:600],
                    "model": dumps[k][:600]})
        else:
            allowed = {"fail"} | {outcomes[j] for j in range(1, k + 1)}
            if p["outcome"] not in allowed:
                res.disagree("reader outcome after a crash is not one the model allows", {
                    "scenario": sc, "k": k, "op": p["op"], "impl": p["outcome"],
                    "model_allows": sorted(allowed)})


def observe_mode(mode, prior, hasfn):
    """real FileProcessTensor(mode, filename) against a path in state `prior`"""
    import oqupy
    d = tempfile.mkdtemp(prefix="c17mode_")
    path = os.path.join(d, "p.hdf5")
    obs = {}
    try:
        if prior == "ptopen":
            make_prior("missing", path)
            import h5py
            build_simple(PRIOR_PT).export(path, overwrite=True)
            with h5py.File(path, "r+") as f:
                f.attrs["writing"] = True
        else:
            make_prior(prior, path)
        before = dump_file(path)
        kw = dict(mode=mode, filename=path if hasfn else None)
        if mode != "read":
            kw.update(hilbert_space_dimension=2, dt=0.5, name="older file")
        with warnings.catch_warnings(record=True) as w:
            warnings.simplefilter("always")
            try:
                fpt = oqupy.FileProcessTensor(**kw)
                obs["ctor"] = "ok"
                obs["warned"] = any("corrupt" in str(x.message) for x in w)
            except ValueError:
                obs["ctor"] = "ValueError"
            except OSError:
                obs["ctor"] = "OSError"
            except KeyError:
                obs["ctor"] = "KeyError"
            except AssertionError:
                obs["ctor"] = "AssertionError"
        if obs["ctor"] == "ok":
            real_path = fpt.filename
            obs["removeable"] = bool(fpt._removeable)
            if mode == "read":
                try:
                    fpt.close()
                    obs["close_ok"] = True
                except Exception as e:
                    obs["close_ok"] = False
                    obs["close_exc"] = type(e).__name__
                    try:
                        fpt._f.close()
                    except Exception:
                        pass
                obs["after_close"] = "unchanged" if dump_file(path) == before else "changed"
                with warnings.catch_warnings():
                    warnings.simplefilter("ignore")
                    fpt = oqupy.FileProcessTensor(**kw) if obs["close_ok"] else None
            if fpt is not None:
                try:
                    fpt.remove()
                    obs["remove"] = "deleted" if not os.path.exists(real_path) else "kept"
                except FileExistsError:
                    obs["remove"] = "refused" if os.path.exists(real_path) else "refused-but-deleted"
                except Exception as e:
                    obs["remove"] = "error:" + type(e).__name__
                try:
                    fpt._f.close()
                except Exception:
                    pass
            if os.path.exists(real_path) and real_path != path:
                os.remove(real_path)
        else:
            obs["after"] = "unchanged" if dump_file(path) == before else "changed"
        if obs["ctor"] == "ok" and hasfn and mode != "read":
            obs["after"] = "created"
    finally:
        shutil.rmtree(d, ignore_errors=True)
    return obs


def compare_mode(res, line, got, obs, key):
    kv = dict(t.split("=", 1) for t in got.split() if "=" in t)
    res.case(key, True, {"op": line[:80], "impl": json.dumps(obs)[:100], "model": got[:100]})

    def dis(what):
        res.disagree("modes/remove: " + what, {"line": line[:300], "impl": obs, "model": got})
    ctor_m = kv.get("ctor")
    if obs["ctor"] != "ok":
        # any failing constructor: the model must fail too and both must leave the path alone
        if ctor_m in ("ok", "clean", "warn"):
            dis("implementation raised %s, model constructs" % obs["ctor"])
        elif (ctor_m == "ValueError") != (obs["ctor"] == "ValueError"):
            dis("exception kind")
        if obs.get("after") != "unchanged" or kv.get("after") != "unchanged":
            dis("a failing constructor changed the path")
        return
    if ctor_m not in ("ok", "clean", "warn"):
        dis("implementation constructs, model raises %s" % ctor_m)
        return
    if ctor_m in ("clean", "warn") and (ctor_m == "warn") != obs["warned"]:
        dis("corruption warning")
    if kv.get("removeable") != ("true" if obs["removeable"] else "false"):
        dis("_removeable")
    if "remove" in obs:
        want = "deleted" if kv.get("remove-deleted") == "true" else \
            ("refused" if kv.get("remove-raised") == "true" else "kept")
        if obs["remove"] != want:
            dis("remove(): implementation %s, model %s" % (obs["remove"], want))
    if "close_ok" in obs:
        if kv.get("close-ok") != ("true" if obs["close_ok"] else "false"):
            dis("reader close(): implementation ok=%s, model %s" % (obs["close_ok"], kv.get("close-ok")))


def observe_choice(arg):
    import oqupy
    from . import oq
    d = tempfile.mkdtemp(prefix="c17choice_")
    try:
        a = os.path.join(d, "f.hdf5") if arg == "<path>" else arg
        ptt = oqupy.PtTempo(bath=oq.cheap_bath(), start_time=0.0, end_time=0.25,
                            parameters=oq.cheap_params(0.1), process_tensor_file=a)
        pt = ptt._process_tensor
        if isinstance(pt, oqupy.SimpleProcessTensor):
            return "simple"
        named = arg == "<path>" and pt.filename == a
        try:
            pt._f.close()
            if os.path.exists(pt.filename):
                os.remove(pt.filename)
        except Exception:
            pass
        return "fileNamed" if named else "fileTemp"
    finally:
        shutil.rmtree(d, ignore_errors=True)


# ---------------------------------------------------------------------------
# search: the same enumeration judged against the property text
# ---------------------------------------------------------------------------

def search(res, results=None, rng=None):
    rng = rng or random.Random(res.seed)
    if not results:
        results = [(sc, crash_enumerate(sc)) for sc in scenarios("quick", rng)]
    for sc, r in results:
        for key, payload in judge_points(sc, r):
            res.fail(key, payload)
    obs = getattr(correspondence, "entry_obs", None) or [
        (e, o, p) + observe_entry(e, o, p) for e, o, p in entry_cases()]
    for entry, ovw, prior, raised, changed in obs:
        for key, payload in judge_entry(entry, ovw, prior, raised, changed):
            res.fail(key, payload)
    robs = getattr(correspondence, "remove_obs", None) or [
        (e, c, o, n, observe_entry_remove(e, o, n, p)) for e, c, o, n, p in remove_cases()]
    for entry, case, ovw, named, got in robs:
        for key, payload in judge_entry_remove(entry, case, ovw, named, got):
            res.fail(key, payload)
    sobs = getattr(correspondence, "seq_obs", None) or [
        (c, m, n, t) + observe_remove_seq(c, m, n, t) for c, m, n, t in remove_seq_cases()]
    for case, mode, named, twice, exists, same, raised in sobs:
        for key, payload in judge_remove_seq(case, mode, named, twice, exists, same, raised):
            res.fail(key, payload)
    # modes: creating never overwrites unless asked; remove() refused when not entitled
    for (mode, prior) in (("write", "pt"), ("write", "ptopen"), ("write", "unreadable"),
                          ("write", "empty")):
        obs = observe_mode(mode, prior, True)
        if obs["ctor"] == "ok" or obs.get("after") != "unchanged":
            res.fail("clobber:mode=%s prior=%s" % (mode, prior),
                     {"mode": mode, "prior": prior, "observed": obs,
                      "how": "FileProcessTensor(mode='write') on an existing path did not fail "
                             "or changed the file"})
    for (mode, prior, hasfn, entitled) in (("read", "pt", True, False), ("write", "missing", True, False),
                                           ("overwrite", "missing", True, True),
                                           ("overwrite", "pt", True, True),
                                           ("write", "missing", False, True)):
        obs = observe_mode(mode, prior, hasfn)
        if obs["ctor"] != "ok":
            continue
        want = "deleted" if entitled else "refused"
        if obs.get("remove") != want:
            res.fail("remove:mode=%s filename=%s" % (mode, hasfn),
                     {"mode": mode, "prior": prior, "filename_given": hasfn, "observed": obs,
                      "expected": want})
    # a reader must be able to close any file it could open, and must leave it unchanged
    for prior in ("pt", "ptopen"):
        obs = observe_mode("read", prior, True)
        if obs["ctor"] == "ok" and (not obs.get("close_ok") or obs.get("after_close") != "unchanged"):
            res.fail("reader-close:prior=%s" % prior,
                     {"prior": prior, "observed": obs,
                      "how": "import of a %s file, then close()" %
                             ("complete" if prior == "pt" else "interrupted")})


def replay_outcome(res):
    """--replay: re-run one recorded failing input against the tree under test (no evidence
    is written)"""
    if res.failing:
        key, payload = res.failing[0]
        path = fw.write_replay(PID, {"property": PID, "key": key, "failing_input": payload,
                                     "broken": ["replay"], "seed": res.seed})
        fw.log("VIOLATION property=%s replay=%s" % (PID, path))
        return 1
    fw.log("OK property=%s replay no longer fails" % PID)
    return 0


def run(tier, seed, replay):
    res = fw.Result(PID, tier, seed, level="proof")
    rng = random.Random(seed)
    if replay:
        payload = json.load(open(replay))
        sc = payload.get("failing_input", {}).get("scenario")
        if sc is not None:
            for key, p in judge_points(sc, crash_enumerate(sc)):
                res.fail(key, p)
        return replay_outcome(res)
    res.rule = ("complete enumeration: for each writer scenario (export() of hand-built PTs, a "
                "file-backed PT filled in PT-TEMPO order, a real file-backed pt_tempo_compute; "
                "fresh path / overwriting an older complete file) a child process is killed "
                "(os._exit, with and without a preceding flush) or hit by an exception "
                "(RuntimeError / KeyboardInterrupt raised after the operation, unwinding through "
                "the library's handlers) after its k-th h5py operation for every k; the surviving file is re-opened with import_process_tensor and "
                "classified fail/warn/clean.  Flushed crashes and the completed run must equal "
                "the model exactly (reader outcome and every dataset/attribute); unflushed ones "
                "must be among the outcomes the model allows.  Also: the extracted flag tests "
                "evaluated on real True/False/np.True_/np.False_, all modes x path states x "
                "filename given, remove(), reader close(), PtTempo's choice of class; every creating "
                "entry point (FileProcessTensor, export, PtTempo, pt_tempo_compute) x overwrite x "
                "state of the path (missing, complete, interrupted after creation / while writing "
                "MPO tensors / just before close, unreadable, foreign HDF5 file): raises and leaves "
                "the bytes alone unless overwrite was asked for.  "
                "Distinct = distinct (scenario, k, variant) / protocol line.")
    res.assumptions = [
        "h5py returns a stored boolean attribute as numpy.bool_ (checked on every run)",
        "HDF5: after a crash the file is unreadable or reflects a prefix of the operations "
        "issued (flush-then-kill realises every prefix; kill without flush realises "
        "'unreadable'); creation/truncation by h5py.File(...,'w'/'x') is synchronous",
        "h5py open modes r / x / w behave as documented",
    ]
    res.not_shown = [
        "HDF5-internal partial writes (a torn metadata block that still parses) are not "
        "modelled beyond 'unreadable or a prefix'",
        "the warning is only observable through import_process_tensor/FileProcessTensor("
        "mode='read'); opening the file with h5py directly bypasses it",
    ]
    fw.standard_pipeline(res, ["FileFlags"], THEOREMS)
    built = all(o[1] for o in res.obligations if o[0].startswith("translator"))
    results = None
    try:
        if built:
            results = correspondence(res, tier, rng)
        else:
            res.notes.append("correspondence skipped: generated model unavailable")
    except fw.Infra as e:
        res.oblige("correspondence run", False, str(e))
    except Exception:        # the real code (or the harness on it) raised where it should not
        import traceback
        res.oblige("correspondence run", False, traceback.format_exc()[-1500:])
    return fw.finish(res, lambda r: search(r, results))


if __name__ == "__main__":
    if len(sys.argv) == 4 and sys.argv[1] == "--runner":
        warnings.filterwarnings("ignore")
        runner_main(sys.argv[2], sys.argv[3])
    else:
        print("usage: python -m harness.run_C17 --runner spec.json out.json")
        sys.exit(2)
