"""C18 — control operations act at the stated time, side of measurement and order.
See DESIGN.md §4 C18."""
import contextlib
import io
import json
import os
import random
from fractions import Fraction
from functools import reduce

import numpy as np

from . import framework as fw
from .framework import rat, parse_rat

PID = "C18"
P = "OQuPyVerif.Props.C18."
THEOREMS = [P + t for t in (
    "superop_wiring", "key_dispatch",
    "acts_once_at_step", "zero_steps", "seen_unfold", "side_of_measurement", "recorded_word",
    "mixed_keys", "each_call_once", "landing_times_ascending", "mixed_keys_not_insertion_order",
    "stack_order_partial", "chain_stack_order", "chain_add_side",
    "float_time_step", "float_time_nearest_step", "float_time_selects_nearest",
    "float_time_tie_even", "float_time_outside_run",
    "identity_neutral", "identity_changes_nothing",
    "chain_same_rules", "chain_controls_per_site", "chain_identity_neutral", "controls_added_after_construction_act",
)]

KEY_MIXED = "Control mixed int+float stack at one step"
KEY_CHAIN_ORDER = "ChainControl stacked controls for one site and step"
KEY_MIXED_DROPPED = "Control mixed int+float stack: a control does not act"


@contextlib.contextmanager
def quiet():
    """Control.get_controls prints the selected time stamps; keep stdout clean."""
    with contextlib.redirect_stdout(io.StringIO()):
        yield


# ---------------------------------------------------------------------------
# data: superoperators with exactly representable (dyadic) entries
# ---------------------------------------------------------------------------

def pauli(name):
    return {"x": np.array([[0, 1], [1, 0]], dtype=complex),
            "y": np.array([[0, -1j], [1j, 0]], dtype=complex),
            "z": np.array([[1, 0], [0, -1]], dtype=complex)}[name]


def lr_super(a, b):
    """vec(a rho b) = kron(a, b^T) vec(rho)   (row-major vec)"""
    return np.kron(a, b.T)


def rand_superop(rng, d, kind=None, cplx=False, gentle=False):
    n = d * d
    kind = kind or rng.choice(["kick", "channel", "nontp", "nontp", "identity"])
    if kind == "identity":
        return np.eye(n, dtype=complex), kind
    if kind in ("kick", "channel"):
        if d == 2:
            u = pauli(rng.choice("xyz"))
        else:                                   # a permutation with signs
            perm = list(range(d))
            rng.shuffle(perm)
            u = np.zeros((d, d), dtype=complex)
            for i, j in enumerate(perm):
                u[i, j] = rng.choice([1, -1])
        k = lr_super(u, u.conj().T)
        if kind == "kick":
            return k, kind
        p = rng.choice([0.25, 0.5, 0.125])
        return p * k + (1 - p) * np.eye(n), kind
    scale = 8.0 if gentle else 4.0
    a = np.array([[rng.randrange(-4, 5) for _ in range(n)] for _ in range(n)], dtype=complex) / scale
    if cplx:
        a = a + 1j * np.array([[rng.randrange(-2, 3) for _ in range(n)] for _ in range(n)]) / scale
    if gentle:
        a = np.eye(n) + a / 2
    return a, kind


def rand_state(rng, d, cplx=False):
    a = np.array([[rng.randrange(-3, 4) for _ in range(d)] for _ in range(d)], dtype=complex)
    if cplx:
        a = a + 1j * np.array([[rng.randrange(-2, 3) for _ in range(d)] for _ in range(d)])
    rho = a @ a.conj().T + np.eye(d)
    return rho / 16.0            # not normalised on purpose (dyadic entries)


def rand_herm(rng, d):
    a = np.array([[rng.randrange(-2, 3) for _ in range(d)] for _ in range(d)], dtype=complex)
    a = a + 1j * np.array([[rng.randrange(-2, 3) for _ in range(d)] for _ in range(d)])
    return (a + a.conj().T) / 4.0


def emb_mat(a, cplx):
    a = np.asarray(a, dtype=complex)
    if not cplx:
        assert np.all(a.imag == 0)
        return a.real
    return np.block([[a.real, -a.imag], [a.imag, a.real]])


def emb_vec(v, cplx):
    v = np.asarray(v, dtype=complex).reshape(-1)
    if not cplx:
        assert np.all(v.imag == 0)
        return v.real
    return np.concatenate([v.real, v.imag])


def unemb_vec(w, cplx):
    w = np.asarray(w, dtype=float)
    if not cplx:
        return w.astype(complex)
    n = len(w) // 2
    return w[:n] + 1j * w[n:]


def toks_mat(a, cplx):
    m = emb_mat(a, cplx)
    return " ".join(rat(float(x)) for x in m.reshape(-1))


def toks_vec(v, cplx):
    return " ".join(rat(float(x)) for x in emb_vec(v, cplx))


def parse_vec(s):
    return np.array([float(parse_rat(x)) for x in s.split()], dtype=float)


def jmat(a):
    a = np.asarray(a, dtype=complex)
    return {"re": a.real.tolist(), "im": a.imag.tolist()}


def unjmat(j):
    return np.array(j["re"], dtype=float) + 1j * np.array(j["im"], dtype=float)


def close(a, b, tol=1e-9):
    a, b = np.asarray(a, dtype=complex), np.asarray(b, dtype=complex)
    if a.shape != b.shape:
        return False
    return bool(np.max(np.abs(a - b), initial=0.0) <= tol * (1.0 + np.max(np.abs(b), initial=0.0)))


# ---------------------------------------------------------------------------
# schedules of add_single calls
# ---------------------------------------------------------------------------

DTS = [0.1, 0.25, 0.2, 0.05, 0.3]
STARTS = [0.0, 0.0, 0.5, -0.3, 1.7]


def gen_calls(rng, d, n_steps, dt, start, cplx=False, allow_float=True, allow_mixed=True,
              gentle=False, ncalls=None):
    """list of (post, kind, key, matrix, opkind); keys hit every step 0..N over the cases"""
    calls = []
    ncalls = ncalls if ncalls is not None else rng.randrange(1, 6)
    for _ in range(ncalls):
        step = rng.choice([0, n_steps, rng.randrange(0, n_steps + 1), rng.randrange(0, n_steps + 1)])
        post = rng.random() < 0.4
        use_float = allow_float and rng.random() < 0.4
        if use_float:
            off = rng.choice([0.0, 0.0, 0.2, -0.2, 0.4, -0.4, 0.5])
            if rng.random() < 0.25:          # dated before the start / after the end of the run
                step, off = rng.choice([(-1, 0.0), (-1, 0.45), (-1, -0.49), (0, -0.3), (-2, 0.3),
                                        (n_steps + 1, 0.0), (n_steps + 1, -0.4), (n_steps, 0.4)])
            key = float(start + (step + off) * dt)
            kind = "f"
        else:
            key, kind = int(step), "i"
        stack = rng.choice([1, 1, 2, 3])
        for _s in range(stack):
            a, ok = rand_superop(rng, d, cplx=cplx, gentle=gentle)
            calls.append((post, kind, key, a, ok))
        if allow_mixed and allow_float and rng.random() < 0.25:
            # the other key kind on the very same step
            a, ok = rand_superop(rng, d, cplx=cplx, gentle=gentle)
            if kind == "i":
                calls.append((post, "f", float(start + step * dt), a, ok))
            else:
                calls.append((post, "i", int(step), a, ok))
    return calls


def make_control(d, calls):
    import oqupy
    c = oqupy.Control(d)
    for (post, kind, key, a, _ok) in calls:
        c.add_single(int(key) if kind == "i" else float(key), np.array(a), post=post)
    return c


def toks_calls(calls, cplx):
    out = [str(len(calls))]
    for (post, kind, key, a, _ok) in calls:
        out.append("1" if post else "0")
        out.append(kind)
        out.append(str(int(key)) if kind == "i" else rat(float(key)))
        out.append(toks_mat(a, cplx))
    return " ".join(out)


# ---------------------------------------------------------------------------
# correspondence: real code  vs  executable Lean model
# ---------------------------------------------------------------------------

def correspondence(res, tier, rng):
    import oqupy
    from . import oq
    lines, checks = [], []

    def add(line, check, key, sample=None):
        lines.append(line)
        checks.append((check, key, sample))

    q = tier == "quick"

    # (a) float time -> step, through the real Control object ------------------------------
    n_t2s = 200 if q else 3000
    mark = np.eye(4)
    for i in range(n_t2s):
        dt = rng.choice(DTS + [rng.uniform(0.01, 1.0)])
        start = rng.choice(STARTS + [rng.uniform(-2, 2)])
        k = rng.randrange(-3, 12)
        off = rng.choice([0.0, 0.5, 0.5, 0.49999999, 0.50000001, rng.uniform(-0.5, 0.5), 0.25, -0.5])
        t = float(start + (k + off) * dt) if rng.random() < 0.7 else float(
            Fraction(start) + (k + Fraction(off).limit_denominator(8)) * Fraction(dt))
        hits = {"pre": [], "post": []}
        for post in (False, True):
            c = oqupy.Control(2)
            c.add_single(t, mark, post=post)
            for s in range(k - 2, k + 3):
                with quiet():
                    pre_c, post_c = c.get_controls(s, dt=dt, start_time=start)
                if (post_c if post else pre_c) is not None:
                    hits["post" if post else "pre"].append(s)
        exp = "%s %s" % (hits["pre"], hits["post"])
        kindkey = "tie" if off in (0.5, -0.5) else "generic"
        res.count("t2s:" + kindkey)

        def chk(out, exp=exp, k=k):
            a, b = out.split()
            sa, sb = parse_rat(a), parse_rat(b)
            got = "%s %s" % ([int(sa)] if k - 2 <= sa <= k + 2 else [],
                             [int(sb)] if k - 2 <= sb <= k + 2 else [])
            return got == exp, got
        add("t2s %s %s %s" % (rat(t), rat(start), rat(dt)), chk, "t2s", None)

    # (b) Control.get_controls on random call sequences --------------------------------------
    n_gc = 200 if q else 3000
    for i in range(n_gc):
        d = 2 if rng.random() < 0.85 else 3
        cplx = rng.random() < 0.2
        dt, start = rng.choice(DTS), rng.choice(STARTS)
        nst = rng.randrange(1, 5)
        calls = gen_calls(rng, d, nst, dt, start, cplx=cplx)
        if i % 8 == 5:
            # use-then-add: the object is queried on the grid, extended (also at existing stamps), queried again
            c = make_control(d, calls)
            with quiet():
                for k in range(nst + 1):
                    c.get_controls(k, dt=dt, start_time=start)
            extra = [(cl[0], cl[1], cl[2], rand_superop(rng, d, "nontp", cplx)[0], "nontp")
                     for cl in calls[:2]] + gen_calls(rng, d, nst, dt, start, cplx=cplx, ncalls=1)
            for (post_, kind_, key_, a_, _o) in extra:
                c.add_single(int(key_) if kind_ == "i" else float(key_), np.array(a_), post=post_)
            calls = calls + extra
            res.count("gc:use-then-add")
        else:
            c = make_control(d, calls)
        step = rng.choice([0, nst, rng.randrange(0, nst + 1), calls[0][2] if calls[0][1] == "i" else 1])
        with quiet():
            pre_c, post_c = c.get_controls(int(step), dt=dt, start_time=start)
        kinds = {cl[1] for cl in calls}
        res.count("gc:keys=" + "+".join(sorted(kinds)))
        res.count("gc:pre=%s,post=%s" % (pre_c is not None, post_c is not None))

        def chk(out, pre_c=pre_c, post_c=post_c, cplx=cplx, d=d):
            parts = out.split(";")
            if len(parts) != 2:
                return False, out[:80]
            for got, want in zip(parts, (pre_c, post_c)):
                if (got == "none") != (want is None):
                    return False, "None-ness: model %s, code %s" % (got[:20], want is None)
                if want is not None:
                    g = parse_vec(got)
                    if not close(g, emb_mat(want, cplx).reshape(-1), 1e-12):
                        return False, "matrix differs"
            return True, "ok"
        D = d * d * (2 if cplx else 1)
        add("gc %d %d %s %s %s" % (D, step, rat(dt), rat(start), toks_calls(calls, cplx)), chk, "gc")

    # (c) compute_dynamics, trivial environment, identity propagators -----------------------
    n_cd = 80 if q else 1000
    for i in range(n_cd):
        d = 2 if rng.random() < 0.85 else 3
        cplx = rng.random() < 0.25
        dt, start = rng.choice(DTS), rng.choice(STARTS)
        nst = rng.randrange(0, 5) if i % 5 else 0      # num_steps = 0: first step = last step
        rec = rng.random() < 0.7
        calls = gen_calls(rng, d, nst, dt, start, cplx=cplx)
        if i % 7 == 3:       # exact binary64 midpoints: (0.25 - 0.0) / 0.1 == 2.5
            dt, start, nst = 0.1, 0.0, max(nst, 3)
            calls = gen_calls(rng, d, nst, dt, start, cplx=cplx)
            for t_mid in (0.25, 0.05):
                calls.append((rng.random() < 0.5, "f", t_mid, rand_superop(rng, d, "nontp", cplx)[0], "nontp"))
            res.count("cd:exact-midpoint")
        if i % 7 == 0:       # make sure first and last step carry both sides
            for stp in (0, nst):
                for post in (False, True):
                    a, ok = rand_superop(rng, d, "nontp", cplx)
                    calls.append((post, "i", stp, a, ok))
        rho = rand_state(rng, d, cplx)
        sysm = oqupy.System(np.zeros((d, d)))
        use_pt = i % 3 == 0 and nst > 0
        with quiet():
            dyn = oqupy.compute_dynamics(
                system=sysm, initial_state=rho.copy(), dt=dt, num_steps=nst, start_time=start,
                process_tensor=oq.identity_pt(nst, d) if use_pt else None,
                control=make_control(d, calls), record_all=rec, progress_type="silent")
        states = [np.array(s).reshape(-1) for s in dyn.states]
        res.count("cd:N=%d" % nst)
        res.count("cd:record_all=%s" % rec)
        for cl in calls:
            res.count("cd:op=" + cl[4])
            res.count("cd:%s-%s@%s" % ("post" if cl[0] else "pre", "int" if cl[1] == "i" else "float",
                                       "first" if (cl[1] == "i" and cl[2] == 0) else
                                       "last" if (cl[1] == "i" and cl[2] == nst) else "mid"))
        D = d * d * (2 if cplx else 1)
        add("cd %d %d %d %s %s %s %s 0" % (D, nst, 1 if rec else 0, rat(dt), rat(start),
                                           toks_vec(rho.reshape(-1), cplx), toks_calls(calls, cplx)),
            _chk_states(states, cplx, 1e-12), "cd")

    # (d) compute_dynamics with a Hamiltonian and a bond-dimension-1 process tensor whose MPOs
    #     are arbitrary maps: checks pre/post against non-commuting propagators and MPOs ------
    n_env = 16 if q else 150
    from oqupy.config import SUBDIV_LIMIT, INTEGRATE_EPSREL
    for i in range(n_env):
        d = 2
        dt, start = rng.choice(DTS), rng.choice(STARTS)
        nst = rng.randrange(0, 4)
        calls = gen_calls(rng, d, nst, dt, start, cplx=True)
        if nst > 0:      # a post control that does not commute with propagators / MPOs, felt by all later steps
            calls.append((True, "i", rng.randrange(0, nst), rand_superop(rng, d, "nontp", True)[0], "nontp"))
        rho = rand_state(rng, d, True)
        sysm = oqupy.System(rand_herm(rng, d))
        props = sysm.get_propagators(dt, start, SUBDIV_LIMIT, INTEGRATE_EPSREL)
        es = [rand_superop(rng, d, "nontp", False, gentle=True)[0].real for _ in range(nst)]
        if nst > 0:
            pt = oq.simple_pt([e.T.reshape(1, 1, d * d, d * d) for e in es], d, dt)
            caps = [pt.get_cap_tensor(k) for k in range(nst + 1)]
        else:
            pt, caps = None, [np.array([1.0 + 0j])]
        assert all(c.shape == (1,) and c.imag[0] == 0 for c in caps)
        with quiet():
            dyn = oqupy.compute_dynamics(
                system=sysm, initial_state=rho.copy(), dt=dt, num_steps=nst, start_time=start,
                process_tensor=pt, control=make_control(d, calls), record_all=True,
                progress_type="silent")
        states = [np.array(s).reshape(-1) for s in dyn.states]
        env = []
        for k in range(nst):
            p1, p2 = props(k)
            env += [toks_mat(p1, True), toks_mat(p2, True), toks_mat(es[k], True)]
        env += [rat(float(c.real[0])) for c in caps]
        res.count("cdenv:N=%d" % nst)
        add("cd %d %d 1 %s %s %s %s 1 %s" % (2 * d * d, nst, rat(dt), rat(start),
                                             toks_vec(rho.reshape(-1), True),
                                             toks_calls(calls, True), " ".join(env)),
            _chk_states(states, True, 1e-9), "cdenv")

    # (e) ChainControl.get_single_site_controls -----------------------------------------------
    n_cg = 120 if q else 2000
    for i in range(n_cg):
        nsites = rng.choice([1, 2, 3])
        dims = [rng.choice([2, 2, 3]) for _ in range(nsites)]
        cc = oqupy.ChainControl(dims)
        regs = []
        for _ in range(rng.randrange(0, 7)):
            site = rng.randrange(nsites)
            stp = rng.randrange(-1, 3)
            post = rng.random() < 0.4
            for _s in range(rng.choice([1, 1, 2, 3])):
                a, _ok = rand_superop(rng, dims[site])
                a = a.real if np.all(a.imag == 0) else a
                if np.iscomplexobj(a) and np.any(a.imag != 0):
                    a = a.real
                cc.add_single_site_control(np.array(a), site, stp, post=post)
                regs.append((post, site, stp, dims[site] ** 2, np.array(a, dtype=complex)))
        if i % 4 == 0 and nsites >= 2:
            # a stack on one site interleaved with another site's control (same step and side)
            stp, post = rng.randrange(-1, 3), rng.random() < 0.5
            sa, sb = rng.sample(range(nsites), 2)
            for site in rng.choice([(sa, sb, sa), (sa, sb, sb, sa), (sb, sa, sb, sa)]):
                a = rand_superop(rng, dims[site], "nontp")[0].real
                cc.add_single_site_control(np.array(a), site, stp, post=post)
                regs.append((post, site, stp, dims[site] ** 2, np.array(a, dtype=complex)))
        step = rng.randrange(-1, 3)
        qpost = rng.random() < 0.4
        if regs and rng.random() < 0.7:
            step, qpost = rng.choice([(r[2], r[0]) for r in regs])
        got = cc.get_single_site_controls(step, qpost)
        res.count("chainget:sites=%d" % nsites)
        res.count("chainget:None=%s" % (got is None))

        def chk(out, got=got):
            if got is None:
                return out == "None", out[:40]
            parts = out.split(";")
            if out == "None" or len(parts) != len(got):
                return False, out[:40]
            for g, w in zip(parts, got):
                if (g == "none") != (w is None):
                    return False, "slot None-ness"
                if w is not None and not close(parse_vec(g), np.array(w).reshape(-1), 1e-12):
                    return False, "slot matrix differs"
            return True, "ok"
        toks = [str(len(regs))]
        for (post, site, stp, D, a) in regs:
            toks += ["1" if post else "0", str(site), str(stp), str(D), toks_mat(a, False)]
        add("chainget %d %d %d %s" % (nsites, step, 1 if qpost else 0, " ".join(toks)), chk, "chainget")

    # (f) PtTebd on short chains without environments -----------------------------------------
    n_tb = 16 if q else 150
    for i in range(n_tb):
        case = gen_chain_case(rng, with_h=(i % 2 == 1))
        if i % 3 == 0:
            nsi = len(case["dims"])
            sa, sb = rng.sample(range(nsi), 2)
            post = rng.random() < 0.5
            stp = case["start_step"] + rng.randrange(0, case["nsteps"] + (0 if post else 1))
            for site in (sa, sb, sa):
                a = rand_superop(rng, case["dims"][site], "nontp", False, gentle=True)[0]
                case["regs"].append({"post": post, "site": site, "step": stp, "op": jmat(a)})
            res.count("tebd:interleaved-stack")
        if i in (1, 2):
            # execution modes of the backend: controls on several sites at one step and side
            case["parallel"] = "multithread" if i == 1 else "multiprocess"
            side = rng.random() < 0.5
            stp = case["start_step"] + rng.randrange(0, case["nsteps"] + (0 if side else 1))
            for site in range(len(case["dims"])):
                a = rand_superop(rng, case["dims"][site], "nontp", False, gentle=True)[0]
                case["regs"].append({"post": side, "site": site, "step": stp, "op": jmat(a)})
            res.count("tebd:parallel=%s" % case["parallel"])
        obs = run_pttebd(case)
        res.count("tebd:sites=%d" % len(case["dims"]))
        res.count("tebd:hamiltonian=%s" % case["with_h"])
        add(tebd_line(case), _chk_tebd(case, obs), "tebd")

    # (g) object lifetime: construct; add; compute; add; compute ... --------------------------------
    n_th = 12 if q else 100
    for i in range(n_th):
        case = gen_history_case(rng, with_h=(i % 3 == 2))
        obs = run_pttebd_history(case)
        res.count("tebdh:mode=%s" % case["mode"])
        res.count("tebdh:late_adds=%d" % sum(1 for o in case["ops"] if o["kind"] == "add"))
        add(tebdh_line(case), _chk_tebd(case, obs), "tebdh")

    out = fw.run_driver(PID, lines)
    if len(out) != len(lines):
        raise fw.Infra("driver returned %d lines for %d inputs" % (len(out), len(lines)))
    sampled = set()
    for line, got, (check, key, _s) in zip(lines, out, checks):
        ok, detail = (False, "bad-op") if got == "bad-op" else check(got)
        sample = None
        if key not in sampled:            # one sample per kind of case
            sampled.add(key)
            sample = {"op": line[:160], "model": got[:120], "agree": ok}
        res.case(line[:400], True, sample)
        if not ok:
            res.disagree("model and implementation differ (%s): %s" % (key, detail),
                         {"line": line[:3000], "model": got[:1500], "detail": detail})


def _chk_states(states, cplx, tol):
    def chk(out):
        parts = out.split(";")
        if len(parts) != len(states):
            return False, "model records %d states, code %d" % (len(parts), len(states))
        for k, (g, w) in enumerate(zip(parts, states)):
            if not close(unemb_vec(parse_vec(g), cplx), w, tol):
                return False, "recorded state %d differs" % k
        return True, "ok"
    return chk


# ---------------------------------------------------------------------------
# chains
# ---------------------------------------------------------------------------

def gen_chain_case(rng, with_h, stacks=None):
    nsites = rng.choice([2, 2, 3])
    dims = [2] * nsites
    if rng.random() < 0.3:
        dims[rng.randrange(nsites)] = 3
    s0 = rng.choice([0, 0, 2, -1])
    nsteps = rng.randrange(1, 4)
    dt = rng.choice([0.1, 0.25])
    regs = []
    for _ in range(rng.randrange(1, 6)):
        site = rng.randrange(nsites)
        stp = s0 + rng.choice([0, nsteps, rng.randrange(0, nsteps + 1)])
        post = rng.random() < 0.4
        for _s in range(stacks or rng.choice([1, 1, 2, 3])):
            kind = rng.choice(["kick", "channel", "nontp", "nontp", "identity"])
            a, _ok = rand_superop(rng, dims[site], kind, False, gentle=True)
            regs.append({"post": post, "site": site, "step": stp, "op": jmat(a)})
    return {"api": "PtTebd", "dims": dims, "start_step": s0, "nsteps": nsteps, "dt": dt,
            "with_h": bool(with_h),
            "states": [jmat(rand_state(rng, d, with_h)) for d in dims],
            "hams": [jmat(rand_herm(rng, d) if with_h else np.zeros((d, d))) for d in dims],
            "regs": regs}


def fresh_interpreter(what, cases, timeout=900):
    """evaluate run_pttebd ("obs") or oracle_chain ("oracle") for a list of cases in ONE fresh
    interpreter (same tree under test); returns the list of results"""
    import subprocess
    import sys
    code = ("import json, sys\n"
            "from harness import run_C18 as m\n"
            "what, cases = json.load(sys.stdin)\n"
            "out = []\n"
            "for c in cases:\n"
            "    if what == 'obs':\n"
            "        out.append([{'single': [m.jmat(x) for x in o['single']], 'joint': m.jmat(o['joint'])}\n"
            "                    for o in m.run_pttebd(c)])\n"
            "    else:\n"
            "        try:\n"
            "            out.append(list(m.oracle_chain(c)))\n"
            "        except Exception as e:\n"
            "            out.append([False, 'raised %s: %s' % (type(e).__name__, e)])\n"
            "print('C18RESULT' + json.dumps(out))\n")
    env = dict(os.environ, C18_CHILD="1")
    p = subprocess.run([sys.executable, "-c", code], cwd=fw.VERIF, env=env,
                       input=json.dumps([what, cases]), capture_output=True, text=True, timeout=timeout)
    for line in p.stdout.splitlines():
        if line.startswith("C18RESULT"):
            return json.loads(line[len("C18RESULT"):])
    raise fw.Infra("fresh interpreter failed: " + (p.stdout + p.stderr)[-1500:])


def run_pttebd(case):
    """the real PtTebd: recorded single-site states and the joint state, per recorded step.
    case["mode"]: "before" (controls registered before construction, default), or a late mode in
    which the PtTebd object is built first: "object" (empty ChainControl handed over, filled
    afterwards), "property" (chain_control=None, filled through tebd.chain_control), "setter"."""
    if case.get("parallel") and os.environ.get("C18_CHILD") != "1":
        # pool-based execution modes run in a fresh interpreter (as a user script would)
        return [{"single": [unjmat(x) for x in o["single"]], "joint": unjmat(o["joint"])}
                for o in fresh_interpreter("obs", [case])[0]]
    mode = case.get("mode", "before")
    end = case["start_step"] + case["nsteps"]
    if mode == "before":
        h = dict(case, regs0=case["regs"], ops=[{"kind": "compute", "end": end}], mode="object")
    else:
        h = dict(case, regs0=[], mode=mode,
                 ops=[dict(r, kind="add") for r in case["regs"]] + [{"kind": "compute", "end": end}])
    return run_pttebd_history(h)


def run_pttebd_history(case):
    """construct the PtTebd (chain control holding regs0), then the history case["ops"] of
    {"kind": "add", post, site, step, op} / {"kind": "compute", end}"""
    import oqupy
    dims = case["dims"]
    n = len(dims)
    chain = oqupy.SystemChain(dims)
    for i, h in enumerate(case["hams"]):
        hm = unjmat(h)
        if np.any(hm != 0):
            chain.add_site_hamiltonian(i, hm)

    def reg(cc, r):
        cc.add_single_site_control(unjmat(r["op"]), int(r["site"]), int(r["step"]), post=bool(r["post"]))
    mode = case["mode"]
    cc = oqupy.ChainControl(dims)
    for r in case["regs0"]:
        reg(cc, r)
    mps = oqupy.AugmentedMPS([unjmat(s) for s in case["states"]])
    par = oqupy.PtTebdParameters(dt=case["dt"], order=2, epsrel=1e-13)
    sites = list(range(n)) + [tuple(range(n))]
    t = oqupy.PtTebd(mps, chain, [None] * n, par,
                     chain_control=cc if mode == "object" else None, start_time=0.0,
                     start_step=int(case["start_step"]), dynamics_sites=sites,
                     backend_config={"parallel": case["parallel"]} if case.get("parallel") else None)
    if mode == "setter":
        t.chain_control = cc
    elif mode == "property":
        assert not case["regs0"]
    r = None
    for o in case["ops"]:
        if o["kind"] == "add":
            reg(t.chain_control if mode == "property" else cc, o)
        else:
            r = t.compute(int(o["end"]), progress_type="silent")
    out = []
    if r is None:
        return out
    for k in range(len(r["dynamics"][0].states)):
        out.append({"single": [np.array(r["dynamics"][i].states[k]) for i in range(n)],
                    "joint": np.array(r["dynamics"][tuple(range(n))].states[k])})
    return out


def gen_history_case(rng, with_h):
    base = gen_chain_case(rng, with_h)
    dims, s0 = base["dims"], base["start_step"]
    mode = rng.choice(["object", "object", "property", "setter"])
    regs = base["regs"]
    k0 = 0 if mode == "property" or rng.random() < 0.5 else rng.randrange(0, len(regs) + 1)
    regs0, late = regs[:k0], regs[k0:]
    total = base["nsteps"] + rng.randrange(0, 2)
    ops = [dict(r, kind="add") for r in late]
    ops.append({"kind": "compute", "end": s0 + rng.randrange(0, total + 1)})
    # further controls between two compute calls (for past, current and future steps)
    for _ in range(rng.randrange(0, 4)):
        site = rng.randrange(len(dims))
        a, _ok = rand_superop(rng, dims[site], rng.choice(["kick", "nontp", "channel"]), False, gentle=True)
        ops.append({"kind": "add", "post": rng.random() < 0.5, "site": site,
                    "step": s0 + rng.randrange(0, total + 1), "op": jmat(a)})
    ops.append({"kind": "compute", "end": s0 + total})
    return dict(base, mode=mode, regs0=regs0, ops=ops, nsteps=total)


def tebdh_line(case):
    cplx = case["with_h"]
    dims = case["dims"]
    mult = 2 if cplx else 1

    def regtoks(r):
        return ["1" if r["post"] else "0", str(r["site"]), str(r["step"]), toks_mat(unjmat(r["op"]), cplx)]
    toks = ["tebdh", str(len(dims)), str(case["start_step"])]
    toks += [str(d * d * mult) for d in dims]
    toks += [toks_vec(unjmat(s).reshape(-1), cplx) for s in case["states"]]
    toks.append(str(len(case["regs0"])))
    for r in case["regs0"]:
        toks += regtoks(r)
    if cplx:
        toks.append("1")
        toks += [toks_mat(p, True) for p in site_half_props(case)]
    else:
        toks.append("0")
    toks.append(str(len(case["ops"])))
    for o in case["ops"]:
        toks += (["a"] + regtoks(o)) if o["kind"] == "add" else ["c", str(o["end"])]
    return " ".join(toks)


def site_half_props(case):
    """exp(L_i dt/2), L_i = -i[H_i, .] in row-major vectorisation"""
    from scipy.linalg import expm
    out = []
    for h, d in zip(case["hams"], case["dims"]):
        hm = unjmat(h)
        lv = -1j * (np.kron(hm, np.eye(d)) - np.kron(np.eye(d), hm.T))
        out.append(expm(lv * case["dt"] / 2.0))
    return out


def tebd_line(case):
    cplx = case["with_h"]
    dims = case["dims"]
    mult = 2 if cplx else 1
    toks = ["tebd", str(len(dims)), str(case["start_step"]), str(case["nsteps"])]
    toks += [str(d * d * mult) for d in dims]
    toks += [toks_vec(unjmat(s).reshape(-1), cplx) for s in case["states"]]
    toks.append(str(len(case["regs"])))
    for r in case["regs"]:
        toks += ["1" if r["post"] else "0", str(r["site"]), str(r["step"]), toks_mat(unjmat(r["op"]), cplx)]
    if cplx:
        toks.append("1")
        toks += [toks_mat(p, True) for p in site_half_props(case)]
    else:
        toks.append("0")
    return " ".join(toks)


def product_observables(site_vecs, dims):
    mats = [v.reshape(d, d) for v, d in zip(site_vecs, dims)]
    trs = [np.trace(m) for m in mats]
    single = []
    for i, m in enumerate(mats):
        f = 1.0
        for j, t in enumerate(trs):
            if j != i:
                f = f * t
        single.append(m * f)
    return single, reduce(np.kron, mats)


def _chk_tebd(case, obs):
    cplx, dims = case["with_h"], case["dims"]

    def chk(out):
        recs = out.split("|")
        if len(recs) != len(obs):
            return False, "model records %d steps, code %d" % (len(recs), len(obs))
        for k, (rec, o) in enumerate(zip(recs, obs)):
            vecs = [unemb_vec(parse_vec(s), cplx) for s in rec.split(";")]
            single, joint = product_observables(vecs, dims)
            for i, (g, w) in enumerate(zip(single, o["single"])):
                if not close(g, w, 1e-9):
                    return False, "site %d at recorded step %d differs" % (i, k)
            if not close(joint, o["joint"], 1e-9):
                return False, "joint state at recorded step %d differs" % k
        return True, "ok"
    return chk


# ---------------------------------------------------------------------------
# spec-level oracles on the real code (independent of the Lean model)
# ---------------------------------------------------------------------------

def nearest_step(t, start, dt):
    """exact nearest step of a float time; None when (numerically) a tie"""
    qf = (Fraction(t) - Fraction(start)) / Fraction(dt)
    k = int(np.floor(float(qf) + 0.5))
    if abs(abs(qf - k) - Fraction(1, 2)) < Fraction(1, 10 ** 6):
        return None
    return k


def oracle_single(case):
    """compute_dynamics vs a dense evolution with the controls inserted by hand as the property
    says: pre before the recorded state, post after it, insertion order within a step and side,
    float time -> nearest step, identity = nothing.  Returns (ok, detail)."""
    import oqupy
    from scipy.linalg import expm
    d = case["d"]
    dt, start, n = case["dt"], case["start"], case["num_steps"]
    h = unjmat(case["ham"])
    rho = unjmat(case["state"])
    calls = [(c["post"], c["kind"], c["key"], unjmat(c["op"]), "") for c in case["calls"]]
    rec = bool(case.get("record_all", True))
    pts = None
    if case.get("pt") and n > 0:
        # environments that do nothing: the dense reference is unchanged, the code takes its
        # process-tensor path (bond legs, MPOs, caps)
        from . import oq
        pts = [oq.identity_pt(n, d) for _ in range(int(case["pt"]))]
    with quiet():
        dyn = oqupy.compute_dynamics(system=oqupy.System(h), initial_state=rho.copy(), dt=dt,
                                     num_steps=n, start_time=start, process_tensor=pts,
                                     control=make_control(d, calls),
                                     record_all=rec, progress_type="silent")
    lv = -1j * (np.kron(h, np.eye(d)) - np.kron(np.eye(d), h.T))
    u = expm(lv * dt)
    # a float stamp (numerically) half-way between two grid points may act at either neighbour -
    # but, like every control, exactly once: every assignment of the ties is a candidate
    import itertools
    options = []
    for idx, (post, kind, key, a, _x) in enumerate(calls):
        k = int(key) if kind == "i" else nearest_step(float(key), start, dt)
        if k is None:
            lo = int(np.floor(float((Fraction(float(key)) - Fraction(start)) / Fraction(dt))))
            ks = [lo, lo + 1]
        else:
            ks = [k]
        options.append([(post, kk, a, kind, float(key), idx) for kk in ks])
    has_tie = any(len(o) > 1 for o in options)
    land_variants = [list(v) for v in itertools.islice(itertools.product(*options), 16)]
    land = land_variants[0]

    either = case.get("mixed") == "either"

    def groups(post, k, land):
        """candidate orders of the controls of one step and side.  Normally exactly one: insertion
        order, controls given by (different) float times chronologically.  With case["mixed"] ==
        "either" a group holding int- AND float-keyed controls may act float-part-first or
        int-part-first (the known order finding is not judged) - but every control must act."""
        l = [x for x in land if x[0] == post and x[1] == k]
        fl = sorted([x for x in l if x[3] == "f"], key=lambda x: (x[4], x[5]))
        it = [x for x in l if x[3] == "i"]
        if not it:
            return [[x[2] for x in fl]]
        if not fl or not either:
            return [[x[2] for x in l]]
        fi = [x for x in l if x[3] == "f"]           # float part in insertion order (not judged here)
        return [[x[2] for x in o] for o in (fl + it, it + fl, fi + it, it + fi)]

    slots = [(post, k) for k in range(n + 1) for post in (False, True)]
    if not rec:
        got = [np.array(s).reshape(-1) for s in dyn.states]
    else:
        got = [np.array(s).reshape(-1) for s in dyn.states]
    nwant = (n + 1) if rec else 1
    if len(got) != nwant:
        return False, "number of recorded states %d, expected %d" % (len(got), nwant)
    first_bad = None
    all_choices = itertools.chain.from_iterable(
        itertools.islice(itertools.product(*[groups(post, k, lv) for (post, k) in slots]), 64)
        for lv in land_variants)
    for choice in all_choices:
        order = dict(zip(slots, choice))
        v = rho.reshape(-1).astype(complex)
        want = []
        for k in range(n + 1):
            for a in order[(False, k)]:
                v = a @ v
            want.append(v.copy())
            if k == n:
                break
            for a in order[(True, k)]:
                v = a @ v
            v = u @ v
        if not rec:
            bad = None if close(got[0], want[n], 1e-8) else n
        else:
            bad = next((k for k in range(n + 1) if not close(got[k], want[k], 1e-8)), None)
        if bad is None:
            return True, "ok"
        if first_bad is None:
            first_bad = bad
    if has_tie and not either:
        return False, ("recorded state %d (t=%g): a control dated half-way between two steps does not act "
                       "exactly once at one of the two neighbouring steps" % (first_bad, start + first_bad * dt))
    if either:
        return False, ("recorded state %d (t=%g) equals the evolution for NEITHER order of the int- and "
                       "float-keyed controls of one step: a control does not act (or acts twice)"
                       % (first_bad, start + first_bad * dt))
    if not rec:
        return False, ("final state (record_all=False, t=%g) differs from the evolution with all pre "
                       "and post controls applied" % (start + n * dt))
    return False, ("recorded state %d (t=%g) differs from the evolution with the controls "
                   "applied at their step, side and in order" % (first_bad, start + first_bad * dt))


def oracle_control_reuse(case):
    """A Control that was already used (get_controls / compute_dynamics on a grid) and is then
    extended by further add_single calls behaves, on the same grid, like a fresh Control holding
    all controls: later additions take effect (no stale state from the first use)."""
    import oqupy
    d, n, dt, start = case["d"], case["num_steps"], case["dt"], case["start"]
    h, rho = unjmat(case["ham"]), unjmat(case["state"])

    def tup(cs):
        return [(c["post"], c["kind"], c["key"], unjmat(c["op"]), "") for c in cs]
    first, later = tup(case["calls"]), tup(case["calls_later"])

    def use(c):
        with quiet():
            gc = [c.get_controls(k, dt=dt, start_time=start) for k in range(n + 1)]
            dyn = oqupy.compute_dynamics(system=oqupy.System(h), initial_state=rho.copy(), dt=dt,
                                         num_steps=n, start_time=start, control=c,
                                         progress_type="silent")
        return gc, [np.array(x) for x in dyn.states]
    used = make_control(d, first)
    use(used)
    for (post, kind, key, a, _o) in later:
        used.add_single(int(key) if kind == "i" else float(key), np.array(a), post=post)
    gc1, st1 = use(used)
    gc2, st2 = use(make_control(d, first + later))
    for k in range(n + 1):
        for side in (0, 1):
            a, b = gc1[k][side], gc2[k][side]
            if (a is None) != (b is None) or (a is not None and not close(a, b, 1e-12)):
                return False, ("get_controls(%d)[%s] of the re-used Control differs from a fresh Control "
                               "holding all controls" % (k, "post" if side else "pre"))
        if not close(st1[k], st2[k], 1e-10):
            return False, "state %d of the run with the re-used Control differs from a fresh Control" % k
    return True, "ok"


def oracle_get_controls_mixed(case):
    """Control.get_controls for int- and float-keyed controls of one side landing on one step: the
    returned operator is the product of ALL of them - int part then float part or the other way
    round (the order is the known finding, not judged) - never a product that misses one."""
    d, dt, start, step = case["d"], case["dt"], case["start"], case["step"]
    calls = [(c["post"], c["kind"], c["key"], unjmat(c["op"]), "") for c in case["calls"]]
    c = make_control(d, calls)
    with quiet():
        got = c.get_controls(int(step), dt=dt, start_time=start)
    for side, post in ((0, False), (1, True)):
        land = []
        for idx, (p_, kind, key, a, _x) in enumerate(calls):
            if bool(p_) != post:
                continue
            k = int(key) if kind == "i" else nearest_step(float(key), start, dt)
            if k is None:
                return True, "tie: not judged"
            if k == step:
                land.append((kind, float(key), idx, a))
        fl = [x[3] for x in sorted([x for x in land if x[0] == "f"], key=lambda x: (x[1], x[2]))]
        fi = [x[3] for x in land if x[0] == "f"]
        it = [x[3] for x in land if x[0] == "i"]
        if not land:
            if got[side] is not None:
                return False, "%s control returned although nothing lands on the step" % ("post" if post else "pre")
            continue
        if got[side] is None:
            return False, "%s control is None although %d controls land on the step" % (
                "post" if post else "pre", len(land))
        prod = lambda ops: reduce(lambda acc, a: a @ acc, ops, np.eye(d * d, dtype=complex))
        if not any(close(got[side], prod(o), 1e-10) for o in (fl + it, it + fl, fi + it, it + fi)):
            return False, ("%s control is not the product of all %d controls landing on the step in either "
                           "order of the int- and float-keyed part: a control does not act"
                           % ("post" if post else "pre", len(land)))
    return True, "ok"


def oracle_chain(case):
    """PtTebd (site Hamiltonians only, no environments) vs dense per-site evolution with the
    chain controls inserted by hand: pre before the recorded state, post after, insertion order
    per site and step."""
    from scipy.linalg import expm
    obs = run_pttebd(case)
    dims = case["dims"]
    us = [p @ p for p in site_half_props(case)]
    vecs = [unjmat(s).reshape(-1).astype(complex) for s in case["states"]]
    for k in range(case["nsteps"] + 1):
        stp = case["start_step"] + k
        for r in case["regs"]:
            if not r["post"] and r["step"] == stp:
                vecs[r["site"]] = unjmat(r["op"]) @ vecs[r["site"]]
        single, joint = product_observables(vecs, dims)
        for i, (g, w) in enumerate(zip(single, obs[k]["single"])):
            if not close(w, g, 1e-8):
                return False, ("site %d at step %d differs from the evolution with the controls "
                               "applied in insertion order" % (i, stp))
        if not close(obs[k]["joint"], joint, 1e-8):
            return False, "joint state at step %d differs" % stp
        for r in case["regs"]:
            if r["post"] and r["step"] == stp:
                vecs[r["site"]] = unjmat(r["op"]) @ vecs[r["site"]]
        vecs = [u @ v for u, v in zip(us, vecs)]
    return True, "ok"


def oracle_chain_get(case):
    """ChainControl.get_single_site_controls: slot = product in insertion order"""
    import oqupy
    cc = oqupy.ChainControl(case["dims"])
    for r in case["regs"]:
        cc.add_single_site_control(unjmat(r["op"]), int(r["site"]), int(r["step"]), post=bool(r["post"]))
    got = cc.get_single_site_controls(case["step"], case["post"])
    want = [None] * len(case["dims"])
    for r in case["regs"]:
        if r["step"] == case["step"] and bool(r["post"]) == bool(case["post"]):
            a = unjmat(r["op"])
            want[r["site"]] = a if want[r["site"]] is None else a @ want[r["site"]]
    if all(w is None for w in want):
        return got is None, "expected None"
    if got is None:
        return False, "None returned although controls are registered"
    for i, (g, w) in enumerate(zip(got, want)):
        if (g is None) != (w is None) or (w is not None and not close(g, w, 1e-10)):
            return False, "site %d: not the product in insertion order" % i
    return True, "ok"


def run_coupled_chain(case, scale):
    """real PtTebd on a COUPLED spin chain (nearest-neighbour Hamiltonians, non-trivial bond
    dimension) with one control `scale * op`; recorded single-site states [step][site]"""
    import oqupy
    n = case["nsites"]
    sig = [0.5 * pauli(a) for a in "xyz"]
    chain = oqupy.SystemChain([2] * n)
    for i in range(n):
        chain.add_site_hamiltonian(i, unjmat(case["site_hams"][i]))
    for i in range(n - 1):
        for j, sg in zip(case["couplings"][i], sig):
            chain.add_nn_hamiltonian(i, j * sg, sg)
    cc = oqupy.ChainControl([2] * n)
    cc.add_single_site_control(scale * unjmat(case["op"]), int(case["site"]), int(case["step"]),
                               post=bool(case["post"]))
    for r in case.get("others", []):
        cc.add_single_site_control(unjmat(r["op"]), int(r["site"]), int(r["step"]), post=bool(r["post"]))
    mps = oqupy.AugmentedMPS([unjmat(x) for x in case["states"]])
    par = oqupy.PtTebdParameters(dt=case["dt"], order=2, epsrel=case["epsrel"])
    t = oqupy.PtTebd(mps, chain, [None] * n, par, chain_control=cc, dynamics_sites=list(range(n)))
    r = t.compute(case["nsteps"], progress_type="silent")
    return [[np.array(r["dynamics"][i].states[k]) for i in range(n)] for k in range(case["nsteps"] + 1)]


def oracle_chain_homogeneity(case):
    """A control acts once AS THE GIVEN MAP, also a strongly attenuating one: everything after it
    is linear, so the run with c*C records exactly c times what the run with C records from the
    control on (and the same before it)."""
    full = run_coupled_chain(case, 1.0)
    # the two runs may truncate a Schmidt value sitting at the requested threshold differently:
    # agreement is demanded up to the requested truncation tolerance, not beyond
    tol = max(1e-8, 5.0 * case["epsrel"])
    for c in case["scales"]:
        try:
            weak = run_coupled_chain(case, c)
        except Exception as e:                                    # noqa: BLE001
            return False, "run with the control scaled by %g raised %s: %s" % (c, type(e).__name__, e)
        for k in range(case["nsteps"] + 1):
            after = k > case["step"] or (k == case["step"] and not case["post"])
            f = c if after else 1.0
            for i in range(case["nsites"]):
                ref = f * full[k][i]
                err = np.max(np.abs(weak[k][i] - ref))
                if not err <= tol * max(np.max(np.abs(ref)), 1e-300):
                    return False, ("control scaled by %g: site %d at step %d is not %g times the run with "
                                   "the unscaled control (relative deviation %.2e)"
                                   % (c, i, k, f, err / max(np.max(np.abs(ref)), 1e-300)))
    return True, "ok"


def gen_homogeneity_case(rng, nsites=None, scales=(1e-6, 1e-9, 1e-12)):
    n = nsites or rng.choice([3, 4])
    nsteps = 3
    theta = rng.choice([0.9, 0.5, 1.3])
    u = np.cos(theta / 2) * np.eye(2) - 1j * np.sin(theta / 2) * pauli(rng.choice("xy"))
    kind = rng.choice(["kick", "filter"])
    if kind == "kick":
        opm = lr_super(u, u.conj().T)
    else:                        # a weak-measurement (Kraus) operator: non-trace-preserving
        k = np.diag([1.0, 0.5]) @ u
        opm = lr_super(k, k.conj().T)
    dms = {"z+": [[1, 0], [0, 0]], "z-": [[0, 0], [0, 1]], "x+": [[.5, .5], [.5, .5]],
           "y+": [[.5, -.5j], [.5j, .5]]}
    return {"api": "PtTebd-homogeneity", "nsites": n, "nsteps": nsteps, "dt": 0.1,
            "epsrel": rng.choice([1e-7, 1e-9]),
            "site_hams": [jmat(0.7 * 0.5 * pauli("z") + 0.2 * 0.5 * pauli("x")) for _ in range(n)],
            "couplings": [[rng.choice([1.3, 0.9]), rng.choice([0.7, 1.1]), 1.2] for _ in range(n - 1)],
            "states": [jmat(np.array(dms[rng.choice(sorted(dms))], dtype=complex)) for _ in range(n)],
            "op": jmat(opm), "site": rng.randrange(n), "step": rng.choice([0, 1, 1, 2]),
            "post": rng.random() < 0.5, "scales": list(scales)}


def oracle_single_linearity(case):
    """compute_dynamics is linear in a control map: scaling a control by c scales every state
    recorded from it on by c; a control C1 + C2 gives the sum of the runs with C1 and with C2."""
    import oqupy
    from . import oq
    d, n, dt, start = case["d"], case["num_steps"], case["dt"], case["start"]
    h, rho = unjmat(case["ham"]), unjmat(case["state"])
    stp, post = int(case["step"]), bool(case["post"])
    others = [(c["post"], c["kind"], c["key"], unjmat(c["op"]), "") for c in case["calls"]]

    def runc(a):
        calls = others + [(post, "i", stp, a, "")]
        pts = [oq.identity_pt(n, d)] if case.get("pt") and n > 0 else None
        with quiet():
            dyn = oqupy.compute_dynamics(system=oqupy.System(h), initial_state=rho.copy(), dt=dt,
                                         num_steps=n, start_time=start, process_tensor=pts,
                                         control=make_control(d, calls), progress_type="silent")
        return [np.array(x) for x in dyn.states]
    c1, c2 = unjmat(case["op"]), unjmat(case["op2"])
    r1, r2, r12 = runc(c1), runc(c2), runc(c1 + c2)
    first = stp if not post else stp + 1
    for k in range(n + 1):
        want = r1[k] + r2[k] if k >= first else r1[k]
        if not close(r12[k], want, 1e-9):
            return False, "state %d with control C1+C2 is not the sum of the runs with C1 and with C2" % k
    for c in case["scales"]:
        rc = runc(c * c1)
        for k in range(n + 1):
            ref = (c if k >= first else 1.0) * r1[k]
            err = np.max(np.abs(rc[k] - ref))
            if not err <= 1e-9 * max(np.max(np.abs(ref)), 1e-300):
                return False, ("control scaled by %g: state %d is not %g times the run with the unscaled "
                               "control" % (c, k, c if k >= first else 1.0))
    return True, "ok"


KEY_HOMOG_CHAIN = "PtTebd: run with a control scaled by c is c times the run with the control"
KEY_LINEAR_SINGLE = "compute_dynamics: recorded states are linear in a control map"


def metamorphic(res, rng, tier):
    """Linearity / homogeneity in the control map on the real code (coupled chains with
    non-trivial bond dimension are outside the product-state model, so this is checked as a
    relation between runs).  A failing input is reported directly."""
    nch = 4 if tier == "quick" else 24
    for i in range(nch):
        case = gen_homogeneity_case(rng, nsites=3 if i % 2 == 0 else 4)
        ok, detail = oracle_chain_homogeneity(case)
        res.case("homogeneity:chain:%d" % i, True,
                 {"op": "PtTebd %d coupled sites, control x %s" % (case["nsites"], case["scales"]),
                  "agree": ok} if i == 0 else None)
        res.count("homogeneity:chain:sites=%d" % case["nsites"])
        if not ok:
            res.fail(KEY_HOMOG_CHAIN, dict(case, how=detail))
    # sentinels (dense reference): a post control on the FIRST step of a chain run acts after the
    # first recorded state and before the first propagation
    for s0 in (0, 2):
        base = gen_chain_case(rng, with_h=True, stacks=1)
        a = rand_superop(rng, 2, "nontp", False, gentle=True)[0]
        case = dict(base, dims=[2, 2], start_step=s0, nsteps=2,
                    states=[jmat(rand_state(rng, 2, True)) for _ in range(2)],
                    hams=[jmat(rand_herm(rng, 2)) for _ in range(2)],
                    regs=[{"post": True, "site": 1, "step": s0, "op": jmat(a)}])
        ok, detail = oracle_chain(case)
        res.case("sentinel:tebd-post-first:%d" % s0, True)
        if not ok:
            res.fail("PtTebd post-measurement control at the first step", dict(case, how=detail))
    nsg = 6 if tier == "quick" else 40
    for i in range(nsg):
        n = rng.randrange(1, 4)
        dt, start = rng.choice(DTS), rng.choice(STARTS)
        base = single_case(rng, 2, n, dt, start,
                           gen_calls(rng, 2, n, dt, start, allow_float=False, gentle=True, ncalls=2))
        case = dict(base, api="compute_dynamics-linearity", step=rng.randrange(0, n + 1),
                    post=rng.random() < 0.5, op=jmat(rand_superop(rng, 2, "nontp", True)[0]),
                    op2=jmat(rand_superop(rng, 2, "nontp", True)[0]), scales=[1e-6, 1e-12],
                    pt=bool(i % 2))
        ok, detail = oracle_single_linearity(case)
        res.case("linearity:single:%d" % i, True)
        res.count("linearity:single:pt=%s" % case["pt"])
        if not ok:
            res.fail(KEY_LINEAR_SINGLE, dict(case, how=detail))


ORACLES = {"compute_dynamics": oracle_single, "PtTebd": oracle_chain,
           "PtTebd-homogeneity": oracle_chain_homogeneity,
           "compute_dynamics-linearity": oracle_single_linearity,
           "Control.get_controls": oracle_get_controls_mixed,
           "Control-reuse": oracle_control_reuse,
           "ChainControl.get_single_site_controls": oracle_chain_get}


def single_case(rng, d, n, dt, start, calls, with_h=True):
    return {"api": "compute_dynamics", "d": d, "num_steps": n, "dt": dt, "start": start,
            "ham": jmat(rand_herm(rng, d) if with_h else np.zeros((d, d))),
            "state": jmat(rand_state(rng, d, True)),
            "calls": [{"post": bool(p), "kind": k, "key": (int(key) if k == "i" else float(key)),
                       "op": jmat(a)} for (p, k, key, a, _o) in calls]}


def search(res, rng=None):
    """Spec-level oracles on the real code (used only when a proof/tie broke)."""
    rng = rng or random.Random(res.seed)

    def run(key, case):
        ok, detail = ORACLES[case["api"]](case)
        if not ok:
            res.fail(key, dict(case, how=detail))
        return ok

    def op(kind="nontp", d=2):
        return rand_superop(rng, d, kind, False, gentle=True)[0]

    # -- single system: step / side, first and last step -------------------------------------
    for n in (1, 3):
        for stp in (0, 1, n):
            for post in (False, True):
                if not run("Control int key: step and side of measurement",
                           single_case(rng, 2, n, 0.1, 0.0, [(post, "i", stp, op(), "")])):
                    break
    # -- first step = last step: num_steps = 0 ---------------------------------------------------
    for (kind, key) in (("i", 0), ("f", 0.0), ("f", 0.02)):
        for m in (1, 3):
            for rec in (True, False):
                c0 = single_case(rng, 2, 0, 0.1, 0.0, [(False, kind, key, op(), "") for _ in range(m)])
                run("Control pre-measurement control at num_steps=0", dict(c0, record_all=rec))
    # -- only the final state is asked for: post controls still act --------------------------------
    for n in (1, 3):
        for (kind, key) in (("i", 0), ("i", n - 1), ("f", 0.1 * (n - 1) + 0.02)):
            calls = [(True, kind, key, op(), ""), (False, "i", n, op(), "")]
            run("Control post-measurement control with record_all=False",
                dict(single_case(rng, 2, n, 0.1, 0.0, calls), record_all=False))
    # -- different float times landing on one step act chronologically, whatever the insertion order
    for post in (False, True):
        for (t1, t2) in ((0.32, 0.29), (0.29, 0.32), (0.34, 0.27)):
            for rec in (True,):
                calls = [(post, "f", t1, op(), ""), (post, "f", t2, op(), "")]
                run("Control float times landing on one step act in ascending time",
                    dict(single_case(rng, 2, 4, 0.1, 0.0, calls), record_all=rec))
        calls = [(post, "f", 0.72, op(), ""), (post, "f", 0.68, op(), ""), (post, "f", 0.7, op(), "")]
        run("Control float times landing on one step act in ascending time",
            single_case(rng, 2, 3, 0.25, 0.0, calls))
    # -- stacks with one and the same key -----------------------------------------------------
    for m in (2, 3):
        for post in (False, True):
            for stp in (0, 1, 2):
                run("Control stacked controls with the same int key",
                    single_case(rng, 2, 2, 0.25, 0.5, [(post, "i", stp, op(), "") for _ in range(m)]))
                run("Control stacked controls with the same float key",
                    single_case(rng, 2, 2, 0.25, 0.5,
                                [(post, "f", 0.5 + stp * 0.25, op(), "") for _ in range(m)]))
    # -- float time -> nearest step ------------------------------------------------------------
    for (dt, start) in ((0.1, 0.0), (0.25, 0.5), (0.3, -0.3)):
        for stp in (0, 1, 3):
            for off in (0.0, 0.3, -0.3, 0.45, -0.45):
                t = start + (stp + off) * dt
                for post in (False, True):
                    run("Control float time acts at the nearest step",
                        single_case(rng, 2, 3, dt, start, [(post, "f", t, op(), "")]))
    # -- float times dated before the start / after the end of the run: a control whose nearest grid
    #    index is not a step of the run does not act; one within half a step of step 0 / N does ----
    for (dt, start) in ((0.1, 1.0), (0.1, 0.0), (0.25, -0.5)):
        for n in (2,):
            for by in (0.3, 0.55, 1.0, 1.49, 2.2):
                for post in (False, True):
                    run("Control float time outside the run must not act",
                        single_case(rng, 2, n, dt, start, [(post, "f", start - by * dt, op(), ""),
                                                           (False, "i", 1, op(), "")]))
            for by in (0.3, 0.55, 1.0, 1.6):
                run("Control float time outside the run must not act",
                    single_case(rng, 2, n, dt, start, [(False, "f", start + (n + by) * dt, op(), ""),
                                                       (True, "i", 0, op(), "")]))
    # -- float stamps that are exact binary64 midpoints between two grid points: the control acts
    #    exactly once (at one of the two neighbouring steps), with non-idempotent non-TP maps ------
    for (dt, start, ts) in ((0.1, 0.0, (0.25, 0.45, 0.05)), (0.25, 0.5, (0.875, 1.125)),
                            (0.5, -1.0, (-0.25, 0.25)), (0.2, 0.0, (0.1, 0.5))):
        for t in ts:
            assert nearest_step(t, start, dt) is None
            for post in (False, True):
                run("Control float time half-way between two steps acts exactly once",
                    single_case(rng, 2, 4, dt, start, [(post, "f", t, op(), "")]))
            run("Control float time half-way between two steps acts exactly once",
                single_case(rng, 2, 4, dt, start, [(False, "f", t, op(), ""), (True, "f", t, op(), ""),
                                                   (False, "f", t, op(), "")]))
    # -- use-then-add histories: a Control already used on a grid is extended and used again -------
    for post in (False, True):
        t1 = 0.5 + 1 * 0.25 + 0.02
        first = [(post, "f", t1, op(), ""), (False, "i", 2, op(), "")]
        for label, later in (("existing float stamp", [(post, "f", t1, op(), "")]),
                             ("new float stamp", [(post, "f", 0.5 + 2 * 0.25 - 0.03, op(), "")]),
                             ("new float stamp on the same step", [(post, "f", t1 + 0.01, op(), "")]),
                             ("existing int key", [(False, "i", 2, op(), "")]),
                             ("new int key", [(post, "i", 0, op(), "")]),
                             ("several", [(post, "f", t1, op(), ""), (post, "i", 1, op(), ""),
                                          (not post, "f", t1, op(), "")])):
            base = single_case(rng, 2, 3, 0.25, 0.5, first)
            case = dict(base, api="Control-reuse",
                        calls_later=single_case(rng, 2, 3, 0.25, 0.5, later)["calls"])
            run("Control used, then add_single (%s): the addition must act" % label, case)
    # -- far from the origin: two float stamps one step apart both act, each at its own step -------
    for start in (1.0e5, -3.0e4):
        for post in (False, True):
            calls = [(post, "f", start + 1 * 0.1, op(), ""), (post, "f", start + 2 * 0.1, op(), "")]
            run("Control two float stamps one step apart far from the origin",
                single_case(rng, 2, 3, 0.1, start, calls))
    # -- identity ------------------------------------------------------------------------------
    for post in (False, True):
        base = [(False, "i", 1, op(), ""), (True, "i", 1, op(), "")]
        c0 = single_case(rng, 2, 2, 0.1, 0.0, base)
        c1 = dict(c0, calls=list(c0["calls"]))
        c1["calls"].insert(1, {"post": post, "kind": "i", "key": 1, "op": jmat(np.eye(4))})
        run("Control identity control", c1)
    # -- int and float key on one step (insertion order demanded by the property) --------------
    for post in (False, True):
        for first in ("i", "f"):
            a, b = op(), op()
            calls = [(post, "i", 1, a, ""), (post, "f", 0.1, b, "")]
            if first == "f":
                calls = [calls[1], calls[0]]
            run(KEY_MIXED, single_case(rng, 2, 2, 0.1, 0.0, calls))
    # -- with (do-nothing) process tensors: controls that do not commute with the propagator, all
    #    later states compared ---------------------------------------------------------------------
    for npt in (1, 2):
        for (n, stp) in ((2, 0), (3, 1), (3, 2)):
            for (kind, key) in (("i", stp), ("f", 0.2 * stp + 0.03)):
                run("Control post-measurement control with a process tensor",
                    dict(single_case(rng, 2, n, 0.2, 0.0, [(True, kind, key, op(), "")]), pt=npt))
                run("Control pre-measurement control with a process tensor",
                    dict(single_case(rng, 2, n, 0.2, 0.0, [(False, kind, key, op(), "")]), pt=npt))
        calls = [(True, "i", 0, op(), ""), (False, "i", 1, op(), ""), (True, "i", 1, op(), ""),
                 (True, "i", 1, op(), ""), (False, "i", 3, op(), "")]
        run("Control post-measurement control with a process tensor",
            dict(single_case(rng, 2, 3, 0.25, 0.5, calls), pt=npt))
        run("Control post-measurement control with a process tensor",
            dict(single_case(rng, 2, 3, 0.25, 0.5, calls), pt=npt, record_all=False))
    # -- the same stacks, insensitive to the order finding but sensitive to a control that does not
    #    act: non-commuting, non-unitary maps; the result must be one of the two orders --------------
    search_mixed_all_act(res, rng)
    # -- chains --------------------------------------------------------------------------------
    for post in (False, True):
        for m in (2, 3):
            regs = [{"post": post, "site": 0, "step": 1, "op": jmat(op())} for _ in range(m)]
            run(KEY_CHAIN_ORDER, {"api": "ChainControl.get_single_site_controls", "dims": [2, 2],
                                  "regs": regs, "step": 1, "post": post})
    # -- a stack on one site interleaved with controls of other sites (same step and side) ---------
    key_il = "ChainControl stack on one site interleaved with another site's control"
    for post in (False, True):
        for (s0, nsteps, stp) in ((0, 2, 0), (0, 2, 1), (0, 2, 2), (2, 1, 3)):
            for pattern in ((0, 1, 0), (2, 0, 2, 1, 2), (1, 0, 0, 1)):
                regs = [{"post": post, "site": st, "step": stp, "op": jmat(op())} for st in pattern]
                run(key_il, {"api": "ChainControl.get_single_site_controls", "dims": [2, 2, 2],
                             "regs": regs, "step": stp, "post": post})
                if post and stp == s0 + nsteps:
                    continue                   # never observable in a run
                base = gen_chain_case(rng, with_h=False, stacks=1)
                run(key_il + " (PtTebd run)",
                    dict(base, dims=[2, 2, 2], start_step=s0, nsteps=nsteps, regs=regs,
                         states=[jmat(rand_state(rng, 2, False)) for _ in range(3)],
                         hams=[jmat(np.zeros((2, 2))) for _ in range(3)], with_h=False))
    # -- execution modes of the backend: controls on 2-3 sites at one step and side ----------------
    mode_cases = []
    for post in (False, True):
        for (s0, nsteps, stp) in ((0, 2, 0), (0, 2, 1), (0, 2, 2), (2, 2, 2)):
            if post and stp == s0 + nsteps:
                continue
            for sites in ((0, 1), (0, 1, 2), (2, 0)):
                base = gen_chain_case(rng, with_h=True, stacks=1)
                mode_cases.append(dict(
                    base, dims=[2, 2, 2], start_step=s0, nsteps=nsteps,
                    states=[jmat(rand_state(rng, 2, True)) for _ in range(3)],
                    hams=[jmat(rand_herm(rng, 2)) for _ in range(3)],
                    regs=[{"post": post, "site": st, "step": stp, "op": jmat(op())} for st in sites]))
    for c in mode_cases[::3]:
        run("PtTebd controls on several sites at one step (sequential)", c)
    for par in ("multithread", "multiprocess"):
        sel = [dict(c, parallel=par) for c in mode_cases[(1 if par == "multithread" else 2)::3]]
        try:
            results = fresh_interpreter("oracle", sel)
        except fw.Infra as e:
            results = [[False, str(e)[-300:]]] * len(sel)
        for c, (ok, detail) in zip(sel, results):
            if not ok:
                res.fail("PtTebd controls on several sites at one step (%s)" % par, dict(c, how=detail))
    # -- object lifetime: controls registered after the PtTebd object was built -------------------
    for mode in ("object", "property", "setter", "object", "property"):
        for _ in range(2):
            case = gen_chain_case(rng, with_h=False, stacks=1)
            # one control per (site, step, side): the order question cannot interfere
            seen_tags, regs = set(), []
            for r in case["regs"]:
                tag = (r["post"], r["site"], r["step"])
                if tag not in seen_tags:
                    seen_tags.add(tag)
                    regs.append(r)
            # make sure something observable is registered: a pre control on the first step
            regs.append({"post": False, "site": 0, "step": case["start_step"] + 1,
                         "op": jmat(op(d=case["dims"][0]))}
                        if (False, 0, case["start_step"] + 1) not in seen_tags else regs[0])
            run("PtTebd controls added after construction (%s)" % mode, dict(case, regs=regs, mode=mode))
    for i in range(14):
        case = gen_chain_case(rng, with_h=bool(i % 2), stacks=1 if i < 8 else None)
        multi = {}
        for r in case["regs"]:
            tag = (r["post"], r["site"], r["step"])
            multi[tag] = multi.get(tag, 0) + 1
        run(KEY_CHAIN_ORDER + " (PtTebd run)" if max(multi.values()) > 1 else
            "PtTebd controls: step, side of measurement, site", case)
    # -- linearity in the control map (strongly attenuating controls on coupled chains) -------------
    for i in range(3):
        run(KEY_HOMOG_CHAIN, gen_homogeneity_case(rng, nsites=3 + i % 2))
    # -- random single-system schedules without mixed keys ---------------------------------------
    for i in range(25):
        dt, start = rng.choice(DTS), rng.choice(STARTS)
        n = rng.randrange(1, 5)
        calls = gen_calls(rng, 2, n, dt, start, cplx=False, allow_mixed=False, gentle=True)
        # one key kind per (step, side) only: the property's insertion order is then unambiguous
        seen, keep = {}, []
        for cl in calls:
            k = cl[2] if cl[1] == "i" else nearest_step(cl[2], start, dt)
            if k is None:
                continue
            tag = (cl[0], k)
            if seen.setdefault(tag, (cl[1], cl[2])) == (cl[1], cl[2]):
                keep.append(cl)
        run("Control random schedule (one key per step and side)", single_case(rng, 2, n, dt, start, keep))


def search_mixed_all_act(res, rng=None):
    """Oracle usable on its own (C03/C07 hook): int- and float-keyed controls of one side on one
    step - whatever their order (known finding), each of them acts exactly once."""
    rng = rng or random.Random(res.seed)

    def op():
        # non-unitary, non-trace-preserving, far from the identity and from each other
        return rand_superop(rng, 2, "nontp", False, gentle=True)[0]

    def run(case):
        ok, detail = ORACLES[case["api"]](case)
        if not ok:
            res.fail(KEY_MIXED_DROPPED, dict(case, how=detail))

    for post in (False, True):
        for (n, stp, dt, start) in ((2, 1, 0.1, 0.0), (1, 0, 0.25, 0.5), (3, 3, 0.2, -0.3), (0, 0, 0.1, 0.0)):
            if post and stp == n:
                continue                       # a post control of the last step is never observable
            t = float(start + stp * dt)
            for first in ("i", "f"):
                for stack in (1, 2):
                    calls = [(post, "i", stp, op(), "") for _ in range(stack)] + [(post, "f", t, op(), "")]
                    if first == "f":
                        calls = calls[::-1]
                    for rec in ((True, False) if not post or stp < n else (True,)):
                        base = single_case(rng, 2, n, dt, start, calls)
                        run(dict(base, mixed="either", record_all=rec))
                    run({"api": "Control.get_controls", "d": 2, "dt": dt, "start": start, "step": stp,
                         "calls": single_case(rng, 2, n, dt, start, calls)["calls"]})
    # a float time that is not the grid time itself
    for post in (False, True):
        calls = [(post, "f", 0.12, op(), ""), (post, "i", 1, op(), ""), (post, "f", 0.08, op(), "")]
        run(dict(single_case(rng, 2, 2, 0.1, 0.0, calls), mixed="either"))
        run({"api": "Control.get_controls", "d": 2, "dt": 0.1, "start": 0.0, "step": 1,
             "calls": single_case(rng, 2, 2, 0.1, 0.0, calls)["calls"]})


def replay_case(res, path):
    payload = json.load(open(path))
    case = payload.get("failing_input", payload)
    key = payload.get("key", "replay")
    api = case.get("api")
    if api not in ORACLES:
        res.notes.append("replay file names no known oracle: %r" % api)
        res.oblige("replay " + path, False, "unknown api")
        return
    ok, detail = ORACLES[api](case)
    fw.log("replay %s: %s (%s)" % (path, "holds now" if ok else "STILL FAILS", detail))
    if not ok:
        res.fail(key, dict(case, how=detail))


def run(tier, seed, replay):
    res = fw.Result(PID, tier, seed, level="proof")
    rng = random.Random(seed)
    res.rule = (
        "t2s: float times (generic, exact ties k+1/2, near ties) registered on a real Control; the "
        "step at which get_controls returns it vs the generated binary64 expression, exact.  gc: "
        "random add_single sequences (int/float keys, stacks 1-3, mixed keys, pre/post, d=2,3, "
        "real/complex dyadic operators incl. unitary kicks, channels, non-trace-preserving maps, "
        "identity) -> get_controls(step) vs model, None-ness exact, matrices 1e-12.  cd: real "
        "compute_dynamics (zero Hamiltonian, no / identity process tensor; and Hamiltonian + "
        "bond-1 process tensor with arbitrary MPO maps) with controls on every step 0..N, both "
        "record_all settings, vs the loop model interpreting the generated statement order; all "
        "recorded states (1e-12 exact-dyadic cases, 1e-9 with expm propagators).  chainget: real "
        "ChainControl histories vs model, exact.  tebd: real PtTebd, 2-3 sites (d=2,3), no "
        "environments, zero or site-only Hamiltonians, start_step in {0,2,-1}: every recorded "
        "single-site and joint state vs the step model (1e-9).  Every case is non-trivial "
        "(at least one control); distinct = distinct protocol line.")
    res.assumptions = [
        "binary64 model: round-to-nearest-even on rationals, no overflow/subnormal/NaN; dt > 0",
        "the executable matrix instance (Array-based product) is matrix multiplication; it is "
        "compared with numpy on every correspondence case",
        "linearity / homogeneity in the control map (also strongly attenuating maps on coupled chains "
        "with non-trivial bond dimension) is checked as a relation between real runs, not proved",
        "PtTebd is modelled without truncation error (product states, epsrel=1e-13 in the runs) and "
        "its nearest-neighbour gate layers / process tensors enter as arbitrary maps `layers`, `pts`",
        "keys of add_single are Python int or float (numpy integers raise TypeError in the code)",
    ]
    res.not_shown = [
        "a MIX of several float times and an int key on one step and side has no order fixed by the "
        "property text beyond the known finding; only (one int + one float) is judged",
        "int-keyed and float-keyed controls landing on one step/side are not applied in insertion "
        "order (pre: float first, post: int first) - excluded from stack_order_partial; "
        "search() reports it under key '%s'" % KEY_MIXED,
        "compute_dynamics_with_field and compute_gradient_and_dynamics use the same Control object but "
        "their loops are not modelled here",
        "Control.get_controls prints the selected pre time stamps to stdout (debug print) - harmless "
        "for the property, not judged",
        "a PtTebd restarted from an exported MPS at a step that carries a pre-control (C14) is outside "
        "this model: tebdHistory describes one object from construction on (controls added before / "
        "after construction and between compute calls)",
    ]
    res.trusted.append("scipy.linalg.expm / System.get_propagators values are shipped to the model as "
                       "data (the model does not recompute propagators)")
    if replay:
        replay_case(res, replay)
    fw.standard_pipeline(res, ["ControlCompose"], THEOREMS)
    translated = all(o[1] for o in res.obligations if o[0].startswith("translator"))
    try:
        if translated:
            # corpus first: past failing inputs must keep passing their oracle
            import glob
            import os
            known_keys = {e["key"] for e in fw.known_findings(PID)[0]}
            for f in sorted(glob.glob(os.path.join(fw.CORPUS, PID, "*.json"))):
                payload = json.load(open(f))
                case = payload.get("failing_input", payload)
                # an input that is (not yet) listed as known finding is only replayed on request
                if case.get("api") in ORACLES and (payload.get("key") != KEY_MIXED
                                                   or KEY_MIXED in known_keys):
                    ok, detail = ORACLES[case["api"]](case)
                    res.case("corpus:" + os.path.basename(f), True)
                    if not ok:
                        res.fail(payload.get("key", os.path.basename(f)), dict(case, how=detail))
            correspondence(res, tier, rng)
        else:
            res.notes.append("correspondence skipped: generated model unavailable")
        metamorphic(res, random.Random(seed + 1), tier)
    except fw.Infra as e:
        res.oblige("correspondence run", False, str(e))
    return fw.finish(res, search)
