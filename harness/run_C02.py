"""C02 — TEMPO ≡ PT-TEMPO + compute_dynamics; prefixes.  DESIGN.md §4 C02."""
import random
import numpy as np
from . import framework as fw

PID = "C02"
THEOREMS = ["OQuPyVerif.Props.C02.contraction_exact", "OQuPyVerif.Props.C02.pt_dynamics_eq_tempo",
            "OQuPyVerif.Props.C02.mpo_dynamics_eq_tempo", "OQuPyVerif.Props.C02.pt_prefix",
            "OQuPyVerif.Props.C02.prefix_of_longer_pt"]
TOL = 1e-8


def sample_paths(rng, L, n, k):
    paths = [[rng.randrange(L) for _ in range(2 * n)] for _ in range(k)]
    for _ in range(k):                      # "diagonal" paths i_k = o_k (support of a rank-3 PT)
        a = [rng.randrange(L) for _ in range(n)]
        paths.append([x for v in a for x in (v, v)])
    return paths


def correspondence(res, tier, rng):
    import oqupy
    from oqupy.config import SUBDIV_LIMIT, INTEGRATE_EPSREL
    from . import cases, tensors
    ncase = 6 if tier == "quick" else 40
    tl, pl, meta = [], [], []
    for i in range(ncase):
        # forced shapes (the rest is drawn): 0 = beyond the cut-off with a fractional additional
        # correlation time; 1 = repeated coupling eigenvalue with unique=True; 3 = pulsed system;
        # 5 = non-diagonal coupling with unique=True
        forced = {0: {"d": 2, "n": 3}, 1: {"d": 3, "n": 2, "coupling_kind": "diag-degenerate"},
                  5: {"d": 2, "n": 3, "coupling_kind": "nondiag"}}.get(i, {})
        case = cases.physical_case(rng, tier, **forced)
        if i == 0:
            # beyond the cut-off with an additional correlation time that is neither zero nor a
            # multiple of dt: the back-integrated table keeps changing until step dkmax + 2
            case["dkmax"], case["tau"] = 1, 0.25 * case["dt"]
            case["desc"]["dkmax"], case["desc"]["add_correlation_time"] = 1, case["tau"]
        if i == 3:
            # a system that is NOT smooth within a half step (square pulses whose edges fall off
            # the half-step grid): the propagators depend on how the time integral is done, so
            # TEMPO and compute_dynamics must ask for them with the same arguments
            case["system"], case["desc"]["system"] = pulsed_system(case["d"], case["start"], case["dt"]), "pulsed"
        n, L = case["n"], case["d"] ** 2
        unique = bool(i % 2)
        t = cases.make_tempo(case, unique=unique)
        tline = tensors.tempo_line(t, n, res)
        dyn = t.compute(cases.end_time(case), progress_type="silent")
        real_t = [np.array(s).reshape(-1) for s in dyn.states]
        pt = cases.make_pt(case, unique=unique)
        props = case["system"].get_propagators(case["dt"], case["start"], SUBDIV_LIMIT,
                                               INTEGRATE_EPSREL)
        pdyn = oqupy.compute_dynamics(case["system"], initial_state=case["rho0"], process_tensor=pt,
                                      start_time=case["start"], num_steps=n, progress_type="silent")
        real_p = [np.array(s).reshape(-1) for s in pdyn.states]
        # the same contraction recording only the final state
        fdyn = oqupy.compute_dynamics(case["system"], initial_state=case["rho0"], process_tensor=pt,
                                      start_time=case["start"], num_steps=n, record_all=False,
                                      progress_type="silent")
        case["desc"]["_final_only"] = np.array(fdyn.states[-1]).reshape(-1)
        paths = sample_paths(rng, L, n, 12)
        psec = " | ".join("paths " + " ".join(map(str, p)) for p in paths)
        tl += [tline, tline.replace("tempo", "ptinfl", 1) + " | " + psec,
               tline.replace("tempo", "hyp", 1)]
        pl += [tensors.mpo_line(pt, n, case["rho0"], props),
               tensors.mpo_line(pt, n, case["rho0"], props, mode="densept") + " | " + psec,
               tensors.mpo_line(pt, n, case["rho0"], props, mode="caprec")]
        case["desc"]["_caps"] = [np.asarray(pt.get_cap_tensor(k)).reshape(-1) for k in range(n)]
        case["desc"]["unique"] = unique
        meta.append((case["desc"], real_t, real_p))
        for k in ("coupling", "system", "unique"):
            res.count("%s=%s" % (k, case["desc"][k]))
        res.count("memory=%s" % ("full" if case["dkmax"] is None else
                                 ("cut<n" if case["dkmax"] < n else "cut>=n")))
    # file-backed process tensors (HDF5) for a coupling whose diagonalising transform is neither
    # real nor symmetric: the same contraction as with the in-memory tensor
    for (label, coup) in file_couplings():
        err = file_vs_tempo(coup)
        res.case("file-backed PT-TEMPO, coupling " + label, True,
                 {"coupling": label, "Tempo_vs_file_backed_PT+compute_dynamics": err})
        res.count("file-backed")
        if err > 1e-7:
            res.disagree("file-backed PT-TEMPO + compute_dynamics differs from TEMPO by %g "
                         "(coupling %s)" % (err, label), {"coupling": label})
    # long runs far beyond the memory cut-off with an infinite additional correlation time: the
    # theorems hold for every n; the model is too costly to evaluate there, so the two real code
    # paths the theorem equates are compared with each other (TEMPO vs PT-TEMPO + compute_dynamics)
    from oqupy import operators as op
    for (alpha, nlong) in ([(0.01, 120)] if tier == "quick" else [(0.01, 160), (0.05, 120)]):
        corr = oqupy.PowerLawSD(alpha=alpha, zeta=1.0, cutoff=5.0, cutoff_type="exponential",
                                temperature=0.0)
        bath = oqupy.Bath(0.5 * op.sigma("z"), corr)
        sysm = oqupy.System(0.5 * op.sigma("x"))
        par = oqupy.TempoParameters(dt=0.2, epsrel=1e-9, dkmax=3, add_correlation_time=np.inf)
        tt = oqupy.Tempo(sysm, bath, par, op.spin_dm("z+"), start_time=0.0)
        dl = tt.compute(nlong * 0.2 + 0.05, progress_type="silent")
        ptl = oqupy.pt_tempo_compute(bath=bath, start_time=0.0, end_time=nlong * 0.2 + 0.05,
                                     parameters=par, progress_type="silent")
        pdl = oqupy.compute_dynamics(sysm, initial_state=op.spin_dm("z+"), process_tensor=ptl,
                                     start_time=0.0, progress_type="silent")
        el = max(np.abs(np.array(a) - np.array(b)).max() for a, b in zip(dl.states, pdl.states))
        res.case("long-run alpha=%g n=%d" % (alpha, nlong), True,
                 {"long_run": {"alpha": alpha, "steps": nlong, "dkmax": 3, "add_correlation_time": "inf"},
                  "Tempo_vs_PT+compute_dynamics": el})
        res.count("long-run")
        if len(dl.states) != len(pdl.states) or el > 2e-6:
            res.disagree("long run (%d steps, dkmax=3, add_correlation_time=inf): TEMPO and "
                         "PT-TEMPO+compute_dynamics differ by %g" % (nlong, el),
                         {"alpha": alpha, "steps": nlong})
    tout = fw.run_driver("PathSum", tl)
    pout = fw.run_driver("PT", pl)
    for i, (desc, real_t, real_p) in enumerate(meta):
        L = desc["d"] ** 2
        mt = tensors.parse_states(tout[3 * i], L)
        mp = tensors.parse_states(pout[3 * i], L)
        caps_real = desc.pop("_caps")
        e6 = np.abs(desc.pop("_final_only") - mp[-1]).max()
        if e6 > TOL:
            res.disagree("compute_dynamics(record_all=False) differs from the last state of "
                         "mpoRecord by %g" % e6, desc)
        caps_model = tensors.parse_states(pout[3 * i + 2], L)
        e5 = max(np.abs(a - b).max() for a, b in zip(caps_real, caps_model))
        toks = tout[3 * i + 2].split()
        hyp = {toks[j]: float(fw.parse_rat(toks[j + 1])) for j in range(0, len(toks), 2)}
        e1 = max(np.abs(a - b).max() for a, b in zip(real_t, mt))
        e2 = max(np.abs(a - b).max() for a, b in zip(real_p, mp))
        f_inf = np.array([fw.parse_crat(x) for x in tout[3 * i + 1].split()])
        f_mpo = np.array([fw.parse_crat(x) for x in pout[3 * i + 1].split()])
        e3 = np.abs(f_inf - f_mpo).max()
        e4 = max(np.abs(a - b).max() for a, b in zip(real_t, real_p))
        res.case(repr(desc), True, {"case": desc, "Tempo_vs_tempoState": e1,
                                    "compute_dynamics_vs_mpoRecord": e2,
                                    "densePT_vs_ptOfInfluence": e3, "Tempo_vs_compute_dynamics": e4,
                                    "caps_vs_capRec": e5,
                                    "prefix_hypotheses_sq": {k: hyp[k] for k in ("closesum", "closeunit")}})
        if e5 > TOL:
            res.disagree("cap tensors differ from the compute_caps recursion model by %g "
                         "(hypothesis hcap of prefix_of_longer_pt)" % e5, desc)
        for k in ("closesum", "closeunit"):
            if hyp[k] > 1e-20:
                res.disagree("hypothesis `%s` of pt_prefix is not met by the code's tensors "
                             "(residual² %g)" % (k, hyp[k]), desc)
        if e1 > TOL:
            res.disagree("Tempo differs from tempoState by %g" % e1, desc)
        if e2 > TOL:
            res.disagree("compute_dynamics differs from mpoRecord by %g" % e2, desc)
        if e3 > TOL:
            res.disagree("dense form of the PT-TEMPO MPO differs from ptOfInfluence by %g "
                         "(hypothesis hPT of mpo_dynamics_eq_tempo)" % e3, desc)


def search(res):
    import oqupy
    from . import cases
    rng = random.Random(res.seed + 202)
    for i in range(14):
        case = cases.physical_case(rng, "quick", **({"d": 2, "n": 3 + 2 * i} if i < 2 else {}))
        if i == 2:
            case["system"], case["desc"]["system"] = pulsed_system(case["d"], case["start"], case["dt"]), "pulsed"
        if i < 2:
            # runs beyond the cut-off with an additional correlation time that is not a multiple
            # of dt (0.25 dt with dkmax 1; 1.5 dt with dkmax 2)
            case["dkmax"], case["tau"] = 1 + i, (0.25 + 1.25 * i) * case["dt"]
            case["desc"]["dkmax"], case["desc"]["add_correlation_time"] = case["dkmax"], case["tau"]
        for unique in (False, True):
            worst = 0.0
            for eps in (1e-7, 1e-11):
                t = cases.make_tempo(case, unique=unique, epsrel=eps)
                dyn = t.compute(cases.end_time(case), progress_type="silent")
                pt = cases.make_pt(case, unique=unique, epsrel=eps)
                pdyn = oqupy.compute_dynamics(case["system"], initial_state=case["rho0"],
                                              process_tensor=pt, start_time=case["start"],
                                              progress_type="silent")
                err = max(np.abs(np.array(a) - np.array(b)).max()
                          for a, b in zip(dyn.states, pdyn.states))
                if len(dyn.states) != len(pdyn.states) or err > 2e3 * eps + 1e-9:
                    res.fail("Tempo-vs-PT:%s" % case["desc"]["system"],
                             {"case": case["desc"], "unique": unique, "epsrel": eps,
                              "max_state_difference": err})
            # the final state alone (record_all=False) is the last of all recorded states
            pt11 = cases.make_pt(case, unique=unique, epsrel=1e-11)
            da = oqupy.compute_dynamics(case["system"], initial_state=case["rho0"], process_tensor=pt11,
                                        start_time=case["start"], progress_type="silent")
            df = oqupy.compute_dynamics(case["system"], initial_state=case["rho0"], process_tensor=pt11,
                                        start_time=case["start"], record_all=False,
                                        progress_type="silent")
            err = np.abs(np.array(da.states[-1]) - np.array(df.states[-1])).max()
            if err > 1e-9:
                res.fail("final-only:compute_dynamics:%s" % case["desc"]["system"],
                         {"case": case["desc"], "unique": unique,
                          "difference_between_record_all_False_and_last_of_record_all_True": err})
            # prefix: first m steps of a longer PT = PT built for exactly m steps
            pt_long = cases.make_pt(case, unique=unique, epsrel=1e-11)
            m = max(2, case["n"] - 1)
            short = dict(case, n=m)
            pt_short = cases.make_pt(short, unique=unique, epsrel=1e-11)
            d1 = oqupy.compute_dynamics(case["system"], initial_state=case["rho0"],
                                        process_tensor=pt_long, start_time=case["start"],
                                        num_steps=m, progress_type="silent")
            d2 = oqupy.compute_dynamics(case["system"], initial_state=case["rho0"],
                                        process_tensor=pt_short, start_time=case["start"],
                                        progress_type="silent")
            err = max(np.abs(np.array(a) - np.array(b)).max() for a, b in zip(d1.states, d2.states))
            if err > 1e-7:
                res.fail("prefix", {"case": case["desc"], "unique": unique, "m": m,
                                    "max_state_difference": err})


def pulsed_system(d, start, dt):
    """H(t) = H0 + square pulses H1 switched on on [start + (k+0.13) dt, start + (k+0.31) dt)"""
    import oqupy
    rs = np.random.RandomState(1234 + d)
    a = rs.normal(size=(d, d)) + 1j * rs.normal(size=(d, d))
    b = rs.normal(size=(d, d)) + 1j * rs.normal(size=(d, d))
    h0, h1 = (a + a.conj().T) / 4, (b + b.conj().T) * 1.5

    def ham(t):
        x = ((t - start) / dt) % 1.0
        return h0 + (h1 if 0.13 <= x < 0.31 else 0.0 * h1)
    return oqupy.TimeDependentSystem(ham)


def homogeneity(res):
    """both code paths are linear in the initial state: a run with c*rho0 is c times the run with
    rho0 (always run; the truncation must be relative)"""
    import oqupy
    from oqupy import operators as op
    corr = oqupy.PowerLawSD(alpha=0.3, zeta=1.0, cutoff=3.0, cutoff_type="exponential", temperature=0.3)
    bath = oqupy.Bath(0.5 * op.sigma("z"), corr)
    sysm = oqupy.System(0.5 * op.sigma("x"))
    par = oqupy.TempoParameters(dt=0.1, epsrel=1e-8, dkmax=None)
    rho = op.spin_dm("z+")

    def tempo(c):
        return np.array(oqupy.Tempo(sysm, bath, par, c * rho, start_time=0.0).compute(
            0.83, progress_type="silent").states)
    pt = oqupy.pt_tempo_compute(bath=bath, start_time=0.0, end_time=0.83, parameters=par,
                                progress_type="silent")

    def ptrun(c):
        return np.array(oqupy.compute_dynamics(sysm, initial_state=c * rho, process_tensor=pt,
                                               start_time=0.0, progress_type="silent").states)
    for api, f in (("Tempo", tempo), ("PT-TEMPO+compute_dynamics", ptrun)):
        base = f(1.0)
        for c in (1e-4, 1e-7):
            try:
                err = float(np.abs(f(c) / c - base).max())
            except Exception as e:                          # noqa: BLE001 - the code failing IS the finding
                err = float("inf")
            res.case("homogeneity:%s:c=%g" % (api, c), True, {"api": api, "c": c, "difference": err})
            if err > 2e-6:
                res.fail("homogeneity:%s with the initial state scaled by %g" % (api, c),
                         {"api": api, "scale": c, "epsrel": 1e-8,
                          "difference_of_run(c*rho0)/c_to_run(rho0)": err})


def continued(res):
    """a TEMPO run continued across the memory cut-off (first call stops before dkmax) equals
    PT-TEMPO + compute_dynamics (always run)"""
    import oqupy
    from oqupy import operators as op
    corr = oqupy.PowerLawSD(alpha=0.3, zeta=1.0, cutoff=3.0, cutoff_type="exponential", temperature=0.3)
    bath = oqupy.Bath(0.5 * op.sigma("y"), corr)
    sysm = oqupy.System(0.5 * op.sigma("x") + 0.2 * op.sigma("z"), gammas=[0.1],
                        lindblad_operators=[op.sigma("-")])
    par = oqupy.TempoParameters(dt=0.1, epsrel=1e-9, dkmax=4)
    t = oqupy.Tempo(sysm, bath, par, op.spin_dm("z+"), start_time=0.0)
    t.compute(0.25, progress_type="silent")                       # 2 steps < dkmax
    a = np.array(t.compute(1.05, progress_type="silent").states)  # ... continued to 10 steps
    pt = oqupy.pt_tempo_compute(bath=bath, start_time=0.0, end_time=1.05, parameters=par,
                                progress_type="silent")
    b = np.array(oqupy.compute_dynamics(sysm, initial_state=op.spin_dm("z+"), process_tensor=pt,
                                        start_time=0.0, progress_type="silent").states)
    err = float(np.abs(a - b).max()) if a.shape == b.shape else float("inf")
    res.case("continued:across-the-cut-off", True, {"difference": err})
    if err > 2e-6:
        res.fail("Tempo-vs-PT:TEMPO continued across the memory cut-off (first call of 2 steps, dkmax=4)",
                 {"dkmax": 4, "first_call_steps": 2, "total_steps": 10, "epsrel": 1e-9,
                  "max_state_difference": err})


def file_couplings():
    from oqupy import operators as op
    mix = 0.5 * op.sigma("x") + 0.3 * op.sigma("y") + 0.4 * op.sigma("z")
    return [("sigma_y/2", 0.5 * op.sigma("y")), ("0.5sx+0.3sy+0.4sz", mix)]


def file_vs_tempo(coup, steps=4):
    """max state difference between TEMPO and compute_dynamics on a file-backed PT-TEMPO tensor"""
    import oqupy
    from oqupy import operators as op
    corr = oqupy.PowerLawSD(alpha=0.2, zeta=1.0, cutoff=3.0, cutoff_type="exponential",
                            temperature=0.5)
    bath = oqupy.Bath(coup, corr)
    sysm = oqupy.System(0.4 * op.sigma("x") + 0.2 * op.sigma("z"))
    par = oqupy.TempoParameters(dt=0.1, epsrel=1e-11, dkmax=None)
    end = steps * 0.1 + 0.03
    dt_ = oqupy.Tempo(sysm, bath, par, op.spin_dm("y+"), start_time=0.0).compute(
        end, progress_type="silent")
    ptf = oqupy.pt_tempo_compute(bath=bath, start_time=0.0, end_time=end, parameters=par,
                                 process_tensor_file=True, progress_type="silent")
    try:
        df = oqupy.compute_dynamics(sysm, initial_state=op.spin_dm("y+"), process_tensor=ptf,
                                    start_time=0.0, progress_type="silent")
    finally:
        ptf.close()
        try:
            ptf.remove()
        except Exception:                       # noqa: BLE001 - temp file clean-up only
            pass
    if len(dt_.states) != len(df.states):
        return float("inf")
    return max(np.abs(np.array(a) - np.array(b)).max() for a, b in zip(dt_.states, df.states))


def search_file(res):
    for (label, coup) in file_couplings():
        err = file_vs_tempo(coup, steps=5)
        if err > 1e-6:
            res.fail("Tempo-vs-PT:file-backed process tensor, coupling " + label,
                     {"coupling": label, "process_tensor_file": True, "steps": 5, "dt": 0.1,
                      "max_state_difference": err})


def search_long(res):
    """runs far beyond the memory cut-off with an infinite additional correlation time and an
    algebraically decaying bath memory: TEMPO against PT-TEMPO + compute_dynamics"""
    import oqupy
    from oqupy import operators as op
    for (alpha, nlong) in [(0.01, 120), (0.05, 120), (0.002, 50)]:
        corr = oqupy.PowerLawSD(alpha=alpha, zeta=1.0, cutoff=5.0, cutoff_type="exponential",
                                temperature=0.0)
        bath = oqupy.Bath(0.5 * op.sigma("z"), corr)
        sysm = oqupy.System(0.5 * op.sigma("x"))
        par = oqupy.TempoParameters(dt=0.2, epsrel=1e-9, dkmax=3, add_correlation_time=np.inf)
        if alpha == 0.002:
            # very weak coupling with FULL memory: every far influence functional is within 1e-5
            # of the identity, together they matter
            par = oqupy.TempoParameters(dt=0.2, epsrel=1e-10, dkmax=None)
        dl = oqupy.Tempo(sysm, bath, par, op.spin_dm("z+"), start_time=0.0).compute(
            nlong * 0.2 + 0.05, progress_type="silent")
        ptl = oqupy.pt_tempo_compute(bath=bath, start_time=0.0, end_time=nlong * 0.2 + 0.05,
                                     parameters=par, progress_type="silent")
        pdl = oqupy.compute_dynamics(sysm, initial_state=op.spin_dm("z+"), process_tensor=ptl,
                                     start_time=0.0, progress_type="silent")
        errs = [np.abs(np.array(a) - np.array(b)).max() for a, b in zip(dl.states, pdl.states)]
        if len(dl.states) != len(pdl.states) or max(errs) > 2e-6:
            first = next(k for k, e in enumerate(errs) if e > 2e-6)
            res.fail("Tempo-vs-PT:long-run beyond the cut-off, add_correlation_time=inf"
                     if alpha != 0.002 else "Tempo-vs-PT:weak coupling, full memory, 50 steps",
                     {"alpha": alpha, "zeta": 1.0, "cutoff": 5.0, "temperature": 0.0, "dt": 0.2,
                      "dkmax": par.dkmax, "add_correlation_time": "inf" if alpha != 0.002 else None,
                      "epsrel": par.epsrel, "steps": nlong,
                      "max_state_difference": max(errs), "first_step_beyond_2e-6": first})


def run(tier, seed, replay):
    res = fw.Result(PID, tier, seed, level="proof")
    rng = random.Random(seed)
    res.rule = ("random physical cases as in C04 (both `unique` settings): real Tempo vs tempoState, "
                "real compute_dynamics on the real PT-TEMPO MPO vs mpoRecord, and the hypothesis of "
                "mpo_dynamics_eq_tempo — dense form of the real MPO (closed with its cap) equals the "
                "influence functional built from the real influence_matrix tables — on 24 sampled "
                "index paths per case; all to 1e-8 with epsrel=1e-13.  Forced shapes: fractional additional "
                "correlation time beyond the cut-off, repeated eigenvalue / non-diagonal coupling with "
                "unique=True, pulsed system.  Each table the Tempo object hands to its backend is compared "
                "bit for bit with influence_matrix.  Always-run relations: file-backed process tensors "
                "with complex transforms vs TEMPO, long runs beyond the cut-off, homogeneity in the "
                "initial state.")
    res.assumptions = ["SVD truncation at epsrel=1e-13 is negligible against 1e-8",
                       "the hypothesis hPT is checked on sampled paths, not proved for the MPO "
                       "construction algorithm (PT-TEMPO's compression is not modelled)"]
    res.not_shown = ["'agreement tightens as the tolerance is tightened' (property of truncated SVD)",
                     ]
    fw.standard_pipeline(res, ["UniqueSums"], THEOREMS)
    try:
        correspondence(res, tier, rng)
        homogeneity(res)
        continued(res)
    except fw.Infra as e:
        res.oblige("correspondence run", False, str(e))
    return fw.finish(res, lambda r: (search_file(r), search_long(r), search(r)))
