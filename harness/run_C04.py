"""C04 — every reported state is a physical density matrix.  DESIGN.md §4 C04."""
import random
import numpy as np
from . import framework as fw

PID = "C04"
THEOREMS = ["OQuPyVerif.Props.C04.trace_preserved", "OQuPyVerif.Props.C04.hermitian_preserved",
            "OQuPyVerif.Props.C04.influence_unit_of_tables", "OQuPyVerif.Props.C04.influence_unit",
            "OQuPyVerif.Props.C04.influence_conj",
            "OQuPyVerif.Props.C04.pt_trace_preserved", "OQuPyVerif.Props.C04.pt_hermitian_preserved",
            # positivity in the Kraus sector (Props/C04Pos.lean)
            "OQuPyVerif.Props.C04.kraus_step_physical", "OQuPyVerif.Props.C04.kraus_steps_physical",
            "OQuPyVerif.Props.C04.kraus_prefix_physical", "OQuPyVerif.Props.C04.gram_is_physical",
            "OQuPyVerif.Props.C04.ancilla_states_physical", "OQuPyVerif.Props.C04.runVec_append",
            "OQuPyVerif.Props.C04.unitary_is_kraus_step",
            "OQuPyVerif.Props.C04.kraus_steps_posSemidef", "OQuPyVerif.Props.C04.ancilla_states_posSemidef",
            # PT-TEBD norm and reduced-state traces (C10) and the Gibbs state (C11)
            "OQuPyVerif.Props.C10.norm_step", "OQuPyVerif.Props.C10.norm_one",
            "OQuPyVerif.Props.C10.site_dissipator_trace_annihilating",
            "OQuPyVerif.Props.C10.nn_dissipator_trace_annihilating",
            "OQuPyVerif.Props.C10.dissipators_hermiticity_preserving",
            "OQuPyVerif.Props.C10.site_dissipation_is_gksl",
            "OQuPyVerif.Props.C10.site_liouvillian_first_order_kraus",
            "OQuPyVerif.Props.C11.gibbs_trace_one", "OQuPyVerif.Props.C11.gibbs_hermitian",
            "OQuPyVerif.Props.C11.gibbs_normalised_hermitian"]
EXTRA_MODULES = ["OQuPyVerif.Props.C10", "OQuPyVerif.Props.C11", "OQuPyVerif.Props.C04Pos", "OQuPyVerif.Props.C04PosComplex",
                 "OQuPyVerif.Props.C10Gksl"]
TOL = 1e-8
HYP_TOL = 1e-20      # residuals are squared moduli


def physical(state, full_memory, tol=1e-6):
    """oracle from the property text; returns list of complaints"""
    out = []
    if abs(np.trace(state) - 1.0) > tol:
        out.append("trace %r" % complex(np.trace(state)))
    if np.abs(state - state.conj().T).max() > tol:
        out.append("not Hermitian by %g" % np.abs(state - state.conj().T).max())
    if full_memory:
        ev = np.linalg.eigvalsh((state + state.conj().T) / 2).min()
        if ev < -tol:
            out.append("negative eigenvalue %g" % ev)
    return out


def correspondence(res, tier, rng):
    import oqupy
    from . import cases, tensors
    ncase = 10 if tier == "quick" else 60
    lines, meta = [], []
    for i in range(ncase):
        case = cases.physical_case(rng, tier)
        t = cases.make_tempo(case, unique=False)
        n = case["n"]
        line = tensors.tempo_line(t, n)
        dyn = t.compute(cases.end_time(case), progress_type="silent")
        real = [np.array(s).reshape(-1) for s in dyn.states]
        pt = cases.make_pt(case)
        from oqupy.config import SUBDIV_LIMIT, INTEGRATE_EPSREL
        props = case["system"].get_propagators(case["dt"], case["start"], SUBDIV_LIMIT,
                                               INTEGRATE_EPSREL)
        pline = tensors.mpo_line(pt, n, case["rho0"], props)
        pdyn = oqupy.compute_dynamics(case["system"], initial_state=case["rho0"], process_tensor=pt,
                                      start_time=case["start"], num_steps=n, progress_type="silent")
        preal = [np.array(s).reshape(-1) for s in pdyn.states]
        lines += [line, line.replace("tempo", "hyp", 1)]
        meta.append((case["desc"], real, pline, preal))
        for k in ("coupling", "system"):
            res.count("%s=%s" % (k, case["desc"][k]))
        res.count("memory=%s" % ("full" if case["dkmax"] is None else
                                 ("cut<n" if case["dkmax"] < n else "cut>=n")))
        res.count("tau=%s" % ("none" if case["tau"] is None else
                              ("inf" if case["tau"] == np.inf else "finite")))
        res.count("d=%d" % case["d"])
    out = fw.run_driver("PathSum", lines)
    pout = fw.run_driver("PT", [m[2] for m in meta])
    for i, (desc, real, _, preal) in enumerate(meta):
        L = desc["d"] ** 2
        model = tensors.parse_states(out[2 * i], L)
        err = max(np.abs(a - b).max() for a, b in zip(real, model))
        toks = out[2 * i + 1].split()
        hyp = {toks[j]: float(fw.parse_rat(toks[j + 1])) for j in range(0, 8, 2)}
        pmodel = tensors.parse_states(pout[i], L)
        perr = max(np.abs(a - b).max() for a, b in zip(preal, pmodel))
        res.case(repr(desc), True, {"case": desc, "tempo_vs_model": err,
                                    "compute_dynamics_vs_model": perr,
                                    "hypothesis_residuals_sq": hyp})
        if err > TOL:
            res.disagree("Tempo states differ from the path-sum model by %g" % err, desc)
        if perr > TOL:
            res.disagree("compute_dynamics differs from the MPO-contraction model by %g" % perr, desc)
        for k, v in hyp.items():
            if v > HYP_TOL:
                res.disagree("hypothesis `%s` of the C04 theorems is not met by the code's own "
                             "tensors (residual² %g)" % (k, v), desc)
        # the theorem's conclusion on the model output (sanity of the tie)
        d = desc["d"]
        for k, st in enumerate(model):
            m = st.reshape(d, d)
            if abs(np.trace(m) - 1) > 1e-9 or np.abs(m - m.conj().T).max() > 1e-9:
                res.disagree("model state %d not trace-one/Hermitian although the hypotheses hold" % k, desc)


def physical_paths(res):
    """code paths that do not go through the tensors shipped to the model (always run): every
    state they report has unit trace and is Hermitian (property text)"""
    import oqupy
    from oqupy import operators as op
    # (0) hand-built process tensors of an explicit quantum environment (ancilla; rank-4 and rank-3
    #     storage, both classes): the reported states are partial traces of a joint state, so they
    #     are physical INCLUDING positivity at every step (the caps close the intermediate steps)
    from . import run_C03
    for variant, cls, seed_ in (("rank4", "simple", 7), ("rank4", "file", 8), ("rank3", "simple", 9),
                                ("rank4-basis", "simple", 10)):
        case = run_C03.ancilla_case(random.Random(seed_), variant, cls, n=3, e=2)
        pt = run_C03.build_pt(case["spec"], case["d"], 3, cls)
        try:
            sts = run_C03.run_real(oqupy.System(case["ham"]), case["rho0"], [pt], 3, None)
        finally:
            run_C03.drop_pt(pt)
        for k, st in enumerate(sts):
            bad = physical(st.reshape(case["d"], case["d"]), True, tol=1e-9)
            res.case("ancilla:%s:%s:%d" % (variant, cls, k), True, None)
            if bad:
                res.fail("ancilla process tensor (%s, %sProcessTensor): state of step %d" % (variant, cls, k),
                         {"api": "compute_dynamics", "process_tensor": "%s tensors of a 2-level ancilla "
                          "(exact joint evolution), compute_caps()" % variant, "class": cls,
                          "gen_seed": seed_, "step": k, "complaints": bad})
                break
        res.count("ancilla-built process tensor:%s:%s" % (variant, cls))
    # (a) a process tensor computed straight into an HDF5 file: ALL recorded states, not only the last
    corr = oqupy.PowerLawSD(alpha=0.3, zeta=1.0, cutoff=3.0, cutoff_type="exponential", temperature=0.4)
    bath = oqupy.Bath(0.5 * op.sigma("y") + 0.3 * op.sigma("z"), corr)
    sysm = oqupy.System(0.4 * op.sigma("x"), gammas=[0.2], lindblad_operators=[op.sigma("-")])
    par = oqupy.TempoParameters(dt=0.1, epsrel=1e-9, dkmax=None)
    ptf = oqupy.pt_tempo_compute(bath=bath, start_time=0.0, end_time=0.63, parameters=par,
                                 process_tensor_file=True, progress_type="silent")
    try:
        states = oqupy.compute_dynamics(sysm, initial_state=op.spin_dm("y+"), process_tensor=ptf,
                                        start_time=0.0, progress_type="silent").states
    finally:
        ptf.close()
        try:
            ptf.remove()
        except Exception:                                   # noqa: BLE001 - temp file clean-up only
            pass
    for k, st in enumerate(states):
        bad = physical(np.array(st), True, tol=1e-6)
        res.case("file-backed:%d" % k, True, None)
        if bad:
            res.fail("file-backed PT-TEMPO + compute_dynamics: state of step %d" % k,
                     {"api": "pt_tempo_compute(process_tensor_file=True) + compute_dynamics",
                      "step": k, "complaints": bad})
            break
    # (a') PT-TEBD started from a correlated chain state given with explicit bond values
    #      (rho = (|00><00| + |11><11|)/2) and a run restarted from its exported chain state
    up, dn = op.spin_dm("z+"), op.spin_dm("z-")
    g0 = np.zeros((1, 4, 2), dtype=complex)
    g1 = np.zeros((2, 4, 1), dtype=complex)
    for a, dm in enumerate((up, dn)):
        g0[0, :, a] = dm.reshape(4)
        g1[a, :, 0] = dm.reshape(4)
    chain = oqupy.SystemChain(hilbert_space_dimensions=[2, 2])
    chain.add_site_hamiltonian(site=0, hamiltonian=0.5 * op.sigma("x"))
    chain.add_nn_hamiltonian(site=0, hamiltonian_l=op.sigma("z"), hamiltonian_r=op.sigma("z"))
    tpar = oqupy.PtTebdParameters(dt=0.1, order=2, epsrel=1e-9)
    first = oqupy.PtTebd(oqupy.AugmentedMPS([g0, g1], lambdas=[np.array([0.5, 0.5])]), chain,
                         [None, None], tpar, dynamics_sites=[0, 1], start_time=0.0)
    r1 = first.compute(end_step=2, progress_type="silent")
    second = oqupy.PtTebd(first.get_augmented_mps(), chain, [None, None], tpar,
                          dynamics_sites=[0, 1], start_time=0.2, start_step=2)
    r2 = second.compute(end_step=4, progress_type="silent")
    for tag, r in (("correlated initial state (explicit bond values)", r1),
                   ("restarted from the exported chain state", r2)):
        worst = max(abs(complex(x) - 1.0) for x in r["norm"])
        traces = max(abs(np.trace(st) - 1.0) for site in (0, 1) for st in r["dynamics"][site].states)
        res.case("pt-tebd:" + tag, True, None)
        if worst > 1e-6 or traces > 1e-6:
            res.fail("PT-TEBD %s: norm / site traces" % tag,
                     {"api": "PtTebd", "what": tag, "max|norm-1|": float(worst),
                      "max|site trace-1|": float(traces)})
    # (b) mean-field evolution with sampled propagators (subdiv_limit=None)
    tsys = oqupy.TimeDependentSystemWithField(
        lambda t, a: 0.5 * op.sigma("x") + 0.2 * np.real(a) * op.sigma("z"),
        gammas=[lambda t: 0.1 + 0.05 * t], lindblad_operators=[lambda t: op.sigma("-")])
    mfs = oqupy.MeanFieldSystem([tsys], lambda t, st, a: -0.2j * a + 0.1 * np.trace(op.sigma("x") @ st[0]))
    mpar = oqupy.TempoParameters(dt=0.1, epsrel=1e-8, dkmax=3, subdiv_limit=None)
    mft = oqupy.MeanFieldTempo(mean_field_system=mfs, bath_list=[oqupy.Bath(0.5 * op.sigma("z"), corr)],
                               initial_state_list=[op.spin_dm("x+")], initial_field=1.0,
                               start_time=0.0, parameters=mpar)
    runs = {"MeanFieldTempo(subdiv_limit=None)":
            mft.compute(0.43, progress_type="silent").system_dynamics[0].states,
            "compute_dynamics_with_field(subdiv_limit=None)":
            oqupy.compute_dynamics_with_field(mfs, initial_field=1.0,
                                              initial_state_list=[op.spin_dm("x+")], dt=0.1, num_steps=4,
                                              start_time=0.0, subdiv_limit=None,
                                              progress_type="silent").system_dynamics[0].states}
    for api, sts in runs.items():
        for k, st in enumerate(sts):
            bad = physical(np.array(st), False, tol=1e-6)
            res.case("%s:%d" % (api, k), True, None)
            if bad:
                res.fail("%s: state of step %d" % (api, k), {"api": api, "step": k, "complaints": bad})
                break


def _rand_herm(rng, d, scale=1.0):
    a = np.array([[complex(rng.uniform(-1, 1), rng.uniform(-1, 1)) for _ in range(d)] for _ in range(d)])
    return scale * (a + a.conj().T) / 2


def kraus_systems(rng, tier):
    """systems whose steps are products of Kraus-form superoperators (no bath); FORCED first, then random"""
    import oqupy
    from oqupy import operators as op
    out = []
    out.append(("closed qubit", 2, oqupy.System(0.7 * op.sigma("x") + 0.3 * op.sigma("z")), 0.1, 0.0))
    out.append(("damped qubit", 2, oqupy.System(0.4 * op.sigma("x"), gammas=[0.3, 0.15],
                                                lindblad_operators=[op.sigma("-"), op.sigma("z")]), 0.1, 0.5))
    out.append(("driven qubit, time-dependent rates", 2, oqupy.TimeDependentSystem(
        lambda t: 0.5 * np.cos(t) * op.sigma("x") + 0.2 * op.sigma("z"),
        gammas=[lambda t: 0.2 + 0.1 * np.sin(t) ** 2], lindblad_operators=[lambda t: op.sigma("-")]), 0.2, -0.3))
    for i in range(2 if tier == "quick" else 10):
        d = rng.choice([2, 3, 3])
        nl = rng.choice([0, 1, 2])
        ls = [np.array([[complex(rng.uniform(-1, 1), rng.uniform(-1, 1)) for _ in range(d)]
                        for _ in range(d)]) for _ in range(nl)]
        out.append(("random d=%d, %d Lindblad operators" % (d, nl), d,
                    oqupy.System(_rand_herm(rng, d), gammas=[rng.uniform(0.0, 0.6) for _ in range(nl)],
                                 lindblad_operators=ls), rng.choice([0.05, 0.1, 0.3]), rng.choice([0.0, 1.7])))
    return out


def choi_kraus(P, d):
    """Kraus operators read off the Choi matrix of a vectorised (row-major) superoperator"""
    C = np.asarray(P).reshape(d, d, d, d).transpose(0, 2, 1, 3).reshape(d * d, d * d)
    w, v = np.linalg.eigh((C + C.conj().T) / 2)
    return [np.sqrt(x) * v[:, k].reshape(d, d) for k, x in enumerate(w) if x > 0.0]


def kraus_tie(res, tier, rng):
    """positivity sector (Props/C04Pos.lean): the propagators the code really uses meet `IsKrausStep`
    (both residuals evaluated by Lean on exact rationals), the model `runVec` on these propagators
    reproduces `compute_dynamics` without a process tensor, and every reported state is Gram"""
    import oqupy
    from oqupy.config import SUBDIV_LIMIT, INTEGRATE_EPSREL
    nsteps = 3
    lines, meta = [], []
    for (name, d, system, dt, start) in kraus_systems(rng, tier):
        props = system.get_propagators(dt, start, SUBDIV_LIMIT, INTEGRATE_EPSREL)
        b = np.array([[complex(rng.uniform(-1, 1), rng.uniform(-1, 1)) for _ in range(d)] for _ in range(d)])
        rho0 = b @ b.conj().T
        rho0 = rho0 / np.trace(rho0).real
        dyn = oqupy.compute_dynamics(system, initial_state=rho0, dt=dt, num_steps=nsteps,
                                     start_time=start, progress_type="silent")
        plist = []
        for k in range(nsteps):
            first, second = props(k)
            plist += [np.array(first), np.array(second)]
        for P in plist:
            ks = choi_kraus(P, d)
            lines.append("kraus %d %d | %s | %s" % (d, len(ks), " ".join(fw.crat(z) for z in P.reshape(-1)),
                                                     " ".join(fw.crat(z) for K in ks for z in K.reshape(-1))))
        lines.append("run %d %d | %s | %s" % (d, len(plist), " ".join(fw.crat(z) for z in rho0.reshape(-1)),
                                              " | ".join(" ".join(fw.crat(z) for z in P.reshape(-1)) for P in plist)))
        real = [np.array(s) for s in dyn.states]
        for st in real:
            h = (st + st.conj().T) / 2
            w, v = np.linalg.eigh(h)
            B = v * np.sqrt(np.clip(w, 0.0, None))
            lines.append("gram %d %d | %s | %s" % (d, d, " ".join(fw.crat(z) for z in st.reshape(-1)),
                                                   " ".join(fw.crat(z) for z in B.reshape(-1))))
        meta.append((name, d, len(plist), real))
        res.count("kraus-sector:%s" % name.split(",")[0].split(" d=")[0])
    out = fw.run_driver("C04Pos", lines)
    pos = 0
    for (name, d, npl, real) in meta:
        desc = {"sector": "kraus", "system": name, "d": d}
        worst = {"kraus": 0.0, "unit": 0.0, "gram": 0.0}
        for _ in range(npl):
            toks = out[pos].split(); pos += 1
            if len(toks) != 4:
                res.disagree("driver C04Pos rejected a kraus line (%s)" % out[pos - 1][:80], desc)
                continue
            worst["kraus"] = max(worst["kraus"], float(fw.parse_rat(toks[1])))
            worst["unit"] = max(worst["unit"], float(fw.parse_rat(toks[3])))
        states = [np.array([complex(*[float(fw.parse_rat(x)) for x in tok.split(",")]) for tok in part.split()])
                  for part in out[pos].split(" ; ")]
        pos += 1
        model = [states[2 * k + 1] for k in range(len(real) - 1)]
        err = max(np.abs(m - r.reshape(-1)).max() for m, r in zip(model, real[1:]))
        for _ in real:
            toks = out[pos].split(); pos += 1
            worst["gram"] = max(worst["gram"], float(fw.parse_rat(toks[1])) if len(toks) == 2 else 1.0)
        res.case("kraus:" + name, True, {"case": desc, "compute_dynamics_vs_runVec": err,
                                         "hypothesis_residuals_sq": worst})
        if err > TOL:
            res.disagree("compute_dynamics without a process tensor differs from the model `runVec` on "
                         "the code's own propagators by %g" % err, desc)
        if worst["kraus"] > HYP_TOL or worst["unit"] > HYP_TOL:
            res.disagree("hypothesis `IsKrausStep` of kraus_steps_physical is not met by a propagator of "
                         "get_propagators (residuals² %r)" % worst, desc)
        if worst["gram"] > 1e-16:
            res.disagree("a state reported by compute_dynamics (no bath) is not of Gram form "
                         "(residual² %g) although every step is a Kraus step" % worst["gram"], desc)


def ancilla_tie(res):
    """tie of `ancilla_states_physical`: for hand-built process tensors of an explicit ancilla the joint
    steps (system half-propagator x 1, joint channel, half-propagator) are shipped as vectorised
    superoperators with their Kraus operators; Lean evaluates `IsKrausStep` on each (dimension E*d),
    runs the model `runVec` on the joint state, and the partial trace of the model states is compared
    with what compute_dynamics reports for the process tensor (every step)"""
    import oqupy
    from scipy.linalg import expm
    from . import run_C03
    lines, meta = [], []
    for variant, seed_ in (("rank4", 7), ("rank3", 9)):
        n = 2
        case = run_C03.ancilla_case(random.Random(seed_), variant, "simple", n=n, e=2)
        if isinstance(case["ham"], dict):
            continue
        e, d = case["e"], case["d"]
        D = e * d
        pt = run_C03.build_pt(case["spec"], d, n, "simple")
        real = run_C03.run_real(oqupy.System(case["ham"]), case["rho0"], [pt], n, None)
        iu = np.kron(np.eye(e), expm(-0.5j * run_C03.DT * np.asarray(case["ham"])))
        plist, klist = [], []
        for k in range(n):
            for ks in ([iu], list(case["kraus"][k]), [iu]):
                ks = [np.asarray(w, dtype=complex) for w in ks]
                plist.append(sum(np.kron(w, w.conj()) for w in ks))
                klist.append(ks)
        for P, ks in zip(plist, klist):
            lines.append("kraus %d %d | %s | %s" % (D, len(ks), " ".join(fw.crat(z) for z in P.reshape(-1)),
                                                     " ".join(fw.crat(z) for w in ks for z in w.reshape(-1))))
        joint0 = np.kron(case["rhoE"], case["rho0"])
        lines.append("run %d %d | %s | %s" % (D, len(plist), " ".join(fw.crat(z) for z in joint0.reshape(-1)),
                                              " | ".join(" ".join(fw.crat(z) for z in P.reshape(-1)) for P in plist)))
        meta.append((variant, e, d, len(plist), real))
        res.count("ancilla-tie:%s" % variant)
    if not lines:
        return
    out = fw.run_driver("C04Pos", lines)
    pos = 0
    for variant, e, d, npl, real in meta:
        desc = {"sector": "ancilla", "variant": variant, "e": e, "d": d}
        worst = {"kraus": 0.0, "unit": 0.0}
        for _ in range(npl):
            toks = out[pos].split(); pos += 1
            if len(toks) != 4:
                res.disagree("driver C04Pos rejected an ancilla kraus line (%s)" % out[pos - 1][:80], desc)
                continue
            worst["kraus"] = max(worst["kraus"], float(fw.parse_rat(toks[1])))
            worst["unit"] = max(worst["unit"], float(fw.parse_rat(toks[3])))
        states = [np.array([complex(*[float(fw.parse_rat(x)) for x in tok.split(",")]) for tok in part.split()])
                  for part in out[pos].split(" ; ")]
        pos += 1
        err = 0.0
        for k in range(1, len(real)):
            joint = states[3 * k - 1].reshape(e, d, e, d)
            red = np.einsum("axay->xy", joint).reshape(-1)
            err = max(err, float(np.abs(red - real[k]).max()))
        res.case("ancilla-tie:" + variant, True, {"case": desc, "compute_dynamics_vs_ptrace_of_runVec": err,
                                                  "hypothesis_residuals_sq": worst})
        if err > TOL:
            res.disagree("compute_dynamics with an ancilla-built process tensor differs from the partial "
                         "trace of the joint model evolution by %g" % err, desc)
        if worst["kraus"] > HYP_TOL or worst["unit"] > HYP_TOL:
            res.disagree("a joint step of the ancilla evolution does not meet `IsKrausStep` "
                         "(residuals² %r)" % worst, desc)


def kraus_search(res):
    """oracle from the property text in the no-bath sector: every reported state is PSD, trace one"""
    import oqupy
    rng = random.Random(res.seed + 404)
    for (name, d, system, dt, start) in kraus_systems(rng, "quick"):
        for pure in (True, False):
            b = np.array([[complex(rng.uniform(-1, 1), rng.uniform(-1, 1)) for _ in range(1 if pure else d)]
                          for _ in range(d)])
            rho0 = b @ b.conj().T
            rho0 = rho0 / np.trace(rho0).real
            dyn = oqupy.compute_dynamics(system, initial_state=rho0, dt=dt, num_steps=6,
                                         start_time=start, progress_type="silent")
            for k, st in enumerate(dyn.states):
                for c in physical(np.array(st), True, tol=1e-9):
                    res.fail("no-bath compute_dynamics:%s" % c.split()[0],
                             {"api": "compute_dynamics(no process tensor)", "system": name, "dt": dt,
                              "start": start, "pure": pure, "step": k, "complaint": c,
                              "rho0": [[repr(complex(z)) for z in row] for row in rho0]})


def search(res):
    kraus_search(res)
    import oqupy
    from oqupy import operators as op
    from . import cases, oq
    rng = random.Random(res.seed + 77)
    for i in range(12):
        case = cases.physical_case(rng, "quick")
        full = case["dkmax"] is None
        for unique in (False, True):
            t = cases.make_tempo(case, unique=unique, epsrel=1e-9)
            dyn = t.compute(cases.end_time(case), progress_type="silent")
            for k, s in enumerate(dyn.states):
                for c in physical(np.array(s), full):
                    res.fail("Tempo:%s" % c.split()[0],
                             {"api": "Tempo", "unique": unique, "case": case["desc"], "step": k,
                              "complaint": c, "state": np.array(s).tolist()})
            pt = cases.make_pt(case, unique=unique, epsrel=1e-9)
            pdyn = oqupy.compute_dynamics(case["system"], initial_state=case["rho0"],
                                          process_tensor=pt, start_time=case["start"],
                                          progress_type="silent")
            for k, s in enumerate(pdyn.states):
                for c in physical(np.array(s), full):
                    res.fail("PtTempo+compute_dynamics:%s" % c.split()[0],
                             {"api": "compute_dynamics", "unique": unique, "case": case["desc"],
                              "step": k, "complaint": c})
    # PT-TEBD norm / traces and the Gibbs state: the oracles of C10 and C11
    from . import run_C10, run_C11
    for mod in (run_C10, run_C11):
        sub = fw.Result(PID, res.tier, res.seed)
        try:
            mod.search(sub)
        except Exception as e:      # an oracle crashing must not hide the others
            res.notes.append("%s.search raised %r" % (mod.__name__, e))
        for key, payload in sub.failing:
            res.fail("%s:%s" % (mod.PID, key), payload)
    # mean-field TEMPO
    for (s, d) in [(0.0, 0.1), (0.5, 0.05)]:
        m = oq.cheap_mft(s, d)
        dyn = m.compute(s + 4.5 * d, progress_type="silent")
        for k, st in enumerate(dyn.system_dynamics[0].states):
            for c in physical(np.array(st), False):
                res.fail("MeanFieldTempo:%s" % c.split()[0], {"api": "MeanFieldTempo", "step": k,
                                                             "complaint": c})


def run(tier, seed, replay):
    res = fw.Result(PID, tier, seed, level="proof")
    rng = random.Random(seed)
    res.rule = ("random physical cases (d in {2,3}; diagonal / degenerate / non-diagonal coupling; "
                "power-law and custom spectral densities, T=0 and T>0, alpha up to 1.2; constant and "
                "time-dependent H with Lindblad terms; dkmax on either side of n; add_correlation_time "
                "in {None,0,finite,inf}; pure/mixed/rank-deficient initial states): the real tensors "
                "(propagators, influence_matrix outputs, basis changes) are shipped as exact rationals; "
                "Lean evaluates tempoState and mpoRecord on them (compared with real Tempo / "
                "compute_dynamics to 1e-8) and evaluates the HYPOTHESES of the theorems on them "
                "(trace/Hermiticity preservation of every propagator, unit and conjugation property of "
                "every influence table).  Every case is non-trivial (>=2 steps, non-commuting).  Always-run "
                "physicality of paths that bypass the shipped tensors: a process tensor computed straight "
                "into a file (all recorded states), mean-field runs with sampled propagators; plus the "
                "PT-TEBD and Gibbs correspondences of C10 / C11.")
    res.assumptions = ["exact arithmetic; float round-off and SVD truncation (epsrel=1e-13 in the "
                       "correspondence) enter only through the 1e-8 comparison",
                       "expm / quad accuracy (scipy) is not verified: their outputs are checked to "
                       "satisfy the hypotheses on every run"]
    res.not_shown = ["positive semidefiniteness WITH a non-trivial bath (needs complete positivity of the "
                     "Trotterised Gaussian-bath map, DESIGN.md §6); without a bath it is proved "
                     "(kraus_steps_physical) and tied to the code's own propagators",
                     "Gibbs-state positivity",
                     "mean-field TEMPO: covered through the same step kernel (C09); no separate theorem here"]
    fw.standard_pipeline(res, ["TebdLayers", "ChainLindblad", "ControlCompose", "GibbsLoop"],
                         THEOREMS, extra_modules=EXTRA_MODULES)
    try:
        correspondence(res, tier, rng)
        kraus_tie(res, tier, random.Random(seed + 4))
        ancilla_tie(res)
        physical_paths(res)
        # the PT-TEBD and Gibbs parts of the property: their models, the hypotheses of the norm /
        # Hermiticity theorems on the real tensors, and the real results (harnesses of C10 / C11)
        from . import run_C10, run_C11
        run_C10.correspondence(res, tier, random.Random(seed + 10))
        run_C11.correspondence(res, tier, random.Random(seed + 11))
    except fw.Infra as e:
        res.oblige("correspondence run", False, str(e))
    return fw.finish(res, search)
