"""Cheap OQuPy model builders shared by the correspondence harnesses."""
import warnings
import numpy as np
import oqupy
from oqupy import operators as op

warnings.filterwarnings("ignore")


def corr_fn(t):
    return (np.cos(6.0 * t) + 1j * np.sin(6.0 * t)) * np.exp(-12.0 * t)


_CORR = None


def cheap_bath(coupling=None):
    global _CORR
    if _CORR is None:
        _CORR = oqupy.CustomCorrelations(corr_fn)
    if coupling is None:
        coupling = 0.5 * op.sigma("z")
    return oqupy.Bath(coupling, _CORR)


def cheap_system():
    return oqupy.System(0.5 * op.sigma("x"))


def cheap_params(dt, dkmax=2, epsrel=1e-4):
    return oqupy.TempoParameters(dt=dt, epsrel=epsrel, dkmax=dkmax)


def cheap_tempo(start, dt, dkmax=2, system=None):
    return oqupy.Tempo(system=system or cheap_system(), bath=cheap_bath(),
                       parameters=cheap_params(dt, dkmax),
                       initial_state=op.spin_dm("z+"), start_time=start)


def cheap_mft(start, dt, dkmax=2, eom=None):
    sys_ = oqupy.TimeDependentSystemWithField(lambda t, a: 0.5 * op.sigma("x") + 0.1 * np.real(a) * op.sigma("z"))
    if eom is None:
        eom = lambda t, states, a: -0.1j * a + 0.05 * np.trace(op.sigma("x") @ states[0])
    mfs = oqupy.MeanFieldSystem([sys_], eom)
    return oqupy.MeanFieldTempo(mean_field_system=mfs, bath_list=[cheap_bath()],
                                initial_state_list=[op.spin_dm("z+")], initial_field=1.0 + 0.5j,
                                start_time=start, parameters=cheap_params(dt, dkmax))


def simple_pt(mpos, dim, dt=None, transform_in=None, transform_out=None, name=None,
              description=None):
    """Hand-built SimpleProcessTensor from a list of rank-3/4 MPO tensors; caps computed."""
    pt = oqupy.SimpleProcessTensor(hilbert_space_dimension=dim, dt=dt,
                                   transform_in=transform_in, transform_out=transform_out,
                                   name=name, description=description)
    for k, m in enumerate(mpos):
        pt.set_mpo_tensor(k, np.array(m, dtype=complex))
    pt.compute_caps()
    return pt


def identity_pt(n, dim=2, dt=None):
    """Bond-dimension-1 process tensor of a non-existent environment (rank-4 identities)."""
    eye = np.eye(dim * dim, dtype=complex).reshape(1, 1, dim * dim, dim * dim)
    return simple_pt([eye] * n, dim, dt)


def long_trivial_pt(n, dim=2, dt=None):
    """(C07) environment-free process tensor of `n` steps without per-step tensors
    (a TrivialProcessTensor with a finite length) -- cheap for very long runs."""
    from oqupy.process_tensor import TrivialProcessTensor

    class _LongTrivialPT(TrivialProcessTensor):
        def __len__(self):
            return n

        @property
        def max_step(self):
            return n

    pt = _LongTrivialPT(hilbert_space_dimension=dim)
    pt._dt = dt
    return pt
