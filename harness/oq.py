"""Cheap OQuPy model builders shared by the correspondence harnesses."""
import warnings
import numpy as np
import oqupy
from oqupy import operators as op

warnings.filterwarnings("ignore")


def corr_fn(t):
    return (np.cos(6.0 * t) + 1j * np.sin(6.0 * t)) * np.exp(-12.0 * t)


_CORR = None


def cheap_bath(coupling=None):
    global _CORR
    if _CORR is None:
        _CORR = oqupy.CustomCorrelations(corr_fn)
    if coupling is None:
        coupling = 0.5 * op.sigma("z")
    return oqupy.Bath(coupling, _CORR)


def cheap_system():
    return oqupy.System(0.5 * op.sigma("x"))


def cheap_params(dt, dkmax=2, epsrel=1e-4):
    return oqupy.TempoParameters(dt=dt, epsrel=epsrel, dkmax=dkmax)


def cheap_tempo(start, dt, dkmax=2, system=None):
    return oqupy.Tempo(system=system or cheap_system(), bath=cheap_bath(),
                       parameters=cheap_params(dt, dkmax),
                       initial_state=op.spin_dm("z+"), start_time=start)


def cheap_mft(start, dt, dkmax=2, eom=None):
    sys_ = oqupy.TimeDependentSystemWithField(lambda t, a: 0.5 * op.sigma("x") + 0.1 * np.real(a) * op.sigma("z"))
    if eom is None:
        eom = lambda t, states, a: -0.1j * a + 0.05 * np.trace(op.sigma("x") @ states[0])
    mfs = oqupy.MeanFieldSystem([sys_], eom)
    return oqupy.MeanFieldTempo(mean_field_system=mfs, bath_list=[cheap_bath()],
                                initial_state_list=[op.spin_dm("z+")], initial_field=1.0 + 0.5j,
                                start_time=start, parameters=cheap_params(dt, dkmax))


def simple_pt(mpos, dim, dt=None, transform_in=None, transform_out=None, name=None,
              description=None):
    """Hand-built SimpleProcessTensor from a list of rank-3/4 MPO tensors; caps computed."""
    pt = oqupy.SimpleProcessTensor(hilbert_space_dimension=dim, dt=dt,
                                   transform_in=transform_in, transform_out=transform_out,
                                   name=name, description=description)
    for k, m in enumerate(mpos):
        pt.set_mpo_tensor(k, np.array(m, dtype=complex))
    pt.compute_caps()
    return pt


def identity_pt(n, dim=2, dt=None):
    """Bond-dimension-1 process tensor of a non-existent environment (rank-4 identities)."""
    eye = np.eye(dim * dim, dtype=complex).reshape(1, 1, dim * dim, dim * dim)
    return simple_pt([eye] * n, dim, dt)


def long_trivial_pt(n, dim=2, dt=None):
    """(C07) environment-free process tensor of `n` steps without per-step tensors
    (a TrivialProcessTensor with a finite length) -- cheap for very long runs."""
    from oqupy.process_tensor import TrivialProcessTensor

    class _LongTrivialPT(TrivialProcessTensor):
        def __len__(self):
            return n

        @property
        def max_step(self):
            return n

    pt = _LongTrivialPT(hilbert_space_dimension=dim)
    pt._dt = dt
    return pt


# ---------------------------------------------------------------------------
# C19: fault injection into user callables, one tiny run per API that calls get_progress
# ---------------------------------------------------------------------------

class InjectedFault(Exception):
    """raised by a user-supplied callable at a chosen invocation"""


class Fault:
    """Counts the invocations of a user callable once armed; raises at invocation `at`."""

    def __init__(self):
        self.armed, self.at, self.calls = False, None, 0

    def arm(self, at=None):
        self.armed, self.at, self.calls = True, at, 0

    def disarm(self):
        self.armed = False

    def tick(self):
        if self.armed:
            self.calls += 1
            if self.at is not None and self.calls == self.at:
                raise InjectedFault("injected failure at invocation %d" % self.at)


def _c19_faulty_gate(input_data):
    """stands in for oqupy.backends.pt_tebd_backend.apply_nn_gate in one layer: the gate at
    site 0 fails at once, every later gate of the layer is still busy for a while"""
    import time
    import oqupy.backends.pt_tebd_backend as B
    if input_data[0] == 0:
        raise InjectedFault("injected failure in the gate at site 0")
    time.sleep(0.3)
    return B._apply_nn_gate(*input_data)


def c19_runners():
    """name -> (table functions exercised, build) ; build() -> (faults, call(progress_type)).
    Every run is tiny (2-level system, <= 4 steps)."""
    sx, sz = 0.5 * op.sigma("x"), 0.5 * op.sigma("z")
    up = op.spin_dm("z+")
    runners = {}

    def cd_build():
        f = {"hamiltonian": Fault(), "rate": Fault(), "lindblad": Fault()}

        def ham(t):
            f["hamiltonian"].tick()
            return sx + 0.1 * t * sz

        def rate(t):
            f["rate"].tick()
            return 0.1

        def lop(t):
            f["lindblad"].tick()
            return op.sigma("-")
        sysm = oqupy.TimeDependentSystem(ham, gammas=[rate], lindblad_operators=[lop])
        pt = identity_pt(3)

        def call(progress_type):
            return oqupy.compute_dynamics(system=sysm, initial_state=up, dt=0.1, num_steps=3,
                                          process_tensor=pt, progress_type=progress_type)
        return f, call
    runners["compute_dynamics"] = (["compute_dynamics"], cd_build)

    def cdshape_build():
        # a process tensor whose tensor at step 1 has the wrong system dimension, and one
        # whose cap tensor at step 2 is missing
        f = {"tensor-shape": Fault(), "missing-cap": Fault()}
        eye = np.eye(4, dtype=complex).reshape(1, 1, 4, 4)
        bad = np.eye(9, dtype=complex).reshape(1, 1, 9, 9)
        sysm = cheap_system()

        def make(which):
            pt = oqupy.SimpleProcessTensor(hilbert_space_dimension=2)
            for k, m in enumerate([eye, bad if which == "tensor-shape" else eye, eye]):
                pt.set_mpo_tensor(k, m)
            for k in range(4):
                if not (which == "missing-cap" and k == 2):
                    pt.set_cap_tensor(k, np.array([1.0 + 0.0j]))
            return pt

        def call(progress_type):
            which = [k for k, v in f.items() if v.armed and v.at is not None]
            for v in f.values():          # "one invocation" per call, for the fault-point count
                if v.armed and v.at is None:
                    v.calls += 1
            pt = make(which[0] if which else None)
            return oqupy.compute_dynamics(system=sysm, initial_state=up, dt=0.1, num_steps=3,
                                          process_tensor=pt, progress_type=progress_type)
        return f, call
    runners["compute_dynamics/shape"] = (["compute_dynamics"], cdshape_build)

    def cdwf_build():
        f = {"hamiltonian": Fault(), "field_eom": Fault()}

        def ham(t, a):
            f["hamiltonian"].tick()
            return sx + 0.1 * np.real(a) * sz

        def eom(t, states, a):
            f["field_eom"].tick()
            return -0.1j * a + 0.05 * np.trace(op.sigma("x") @ states[0])
        tsys = oqupy.TimeDependentSystemWithField(ham)
        mfs = oqupy.MeanFieldSystem([tsys], eom)

        def call(progress_type):
            return oqupy.compute_dynamics_with_field(
                mfs, initial_field=1.0, initial_state_list=[up], dt=0.1, num_steps=3,
                progress_type=progress_type)
        return f, call
    runners["compute_dynamics_with_field"] = (["compute_dynamics_with_field"], cdwf_build)

    def corr_build():
        f = {"hamiltonian": Fault()}

        def ham(t):
            f["hamiltonian"].tick()
            return sx + 0.1 * t * sz
        sysm = oqupy.TimeDependentSystem(ham)
        pt = identity_pt(3, dt=0.1)

        def call(progress_type):
            return oqupy.compute_correlations(
                system=sysm, process_tensor=pt, operator_a=op.sigma("x"),
                operator_b=op.sigma("z"), times_a=(0.0, 0.2), times_b=(0.0, 0.2),
                initial_state=up, start_time=0.0, dt=0.1, progress_type=progress_type)
        return f, call
    runners["compute_correlations"] = (["compute_correlations_nt"], corr_build)

    def grad_build():
        from oqupy.gradient import state_gradient
        f = {"hamiltonian": Fault(), "target": Fault()}

        def ham(x):
            f["hamiltonian"].tick()
            return x * sx + 0.3 * sz

        def target(rho):
            f["target"].tick()
            return op.spin_dm("x+").T
        psys = oqupy.ParameterizedSystem(ham)
        pt = identity_pt(3, dt=0.1)
        params = np.array([[0.3 + 0.01 * i] for i in range(6)])

        def call(progress_type):
            return state_gradient(system=psys, initial_state=up, target_derivative=target,
                                  process_tensors=[pt], parameters=params,
                                  progress_type=progress_type)
        return f, call
    runners["state_gradient"] = (["compute_gradient_and_dynamics", "_chain_rule"], grad_build)

    def grad_many_build():
        """eight control parameters per half step (work per step that a library might parallelise)"""
        from oqupy.gradient import state_gradient
        f = {"hamiltonian": Fault(), "target": Fault()}
        mats = [sx, sz, op.sigma("y"), sx + sz, sx - sz, op.sigma("y") + sz, op.sigma("y") - sx,
                0.5 * sx + 0.25 * sz]

        def ham(x0, x1, x2, x3, x4, x5, x6, x7):       # explicit arity: the library counts parameters
            f["hamiltonian"].tick()
            xs = (x0, x1, x2, x3, x4, x5, x6, x7)
            return sum(x * m for x, m in zip(xs, mats)) + 0.3 * sz

        def target(rho):
            f["target"].tick()
            return op.spin_dm("x+").T
        psys = oqupy.ParameterizedSystem(ham)
        pt = identity_pt(2, dt=0.1)
        params = np.array([[0.1 + 0.01 * i + 0.02 * j for j in range(8)] for i in range(4)])

        def call(progress_type):
            return state_gradient(system=psys, initial_state=up, target_derivative=target,
                                  process_tensors=[pt], parameters=params,
                                  progress_type=progress_type)
        return f, call
    runners["state_gradient_8_parameters"] = (["compute_gradient_and_dynamics", "_chain_rule"],
                                              grad_many_build)

    def tempo_build():
        f = {"hamiltonian": Fault()}

        def ham(t):
            f["hamiltonian"].tick()
            return sx + 0.1 * t * sz
        sysm = oqupy.TimeDependentSystem(ham)
        tempo = cheap_tempo(0.0, 0.1, system=sysm)

        def call(progress_type):
            return tempo.compute(0.3, progress_type=progress_type)
        return f, call
    runners["Tempo.compute"] = (["Tempo.compute"], tempo_build)

    def mft_build():
        f = {"hamiltonian": Fault(), "field_eom": Fault()}

        def ham(t, a):
            f["hamiltonian"].tick()
            return sx + 0.1 * np.real(a) * sz

        def eom(t, states, a):
            f["field_eom"].tick()
            return -0.1j * a + 0.05 * np.trace(op.sigma("x") @ states[0])
        sys_ = oqupy.TimeDependentSystemWithField(ham)
        mfs = oqupy.MeanFieldSystem([sys_], eom)
        mft = oqupy.MeanFieldTempo(mean_field_system=mfs, bath_list=[cheap_bath()],
                                   initial_state_list=[up], initial_field=1.0 + 0.5j,
                                   start_time=0.0, parameters=cheap_params(0.1))

        def call(progress_type):
            return mft.compute(0.3, progress_type=progress_type)
        return f, call
    runners["MeanFieldTempo.compute"] = (["MeanFieldTempo.compute"], mft_build)

    def pt_build():
        f = {"correlation": Fault()}

        def corr(t):
            f["correlation"].tick()
            return corr_fn(t)
        bath = oqupy.Bath(sz, oqupy.CustomCorrelations(corr))
        # add_correlation_time makes the step loop evaluate the correlation function too
        params = oqupy.TempoParameters(dt=0.1, epsrel=1e-4, dkmax=2, add_correlation_time=0.4)
        ptt = oqupy.PtTempo(bath=bath, start_time=0.0, end_time=0.6, parameters=params)

        def call(progress_type):
            return ptt.compute(progress_type=progress_type)
        return f, call
    runners["PtTempo.compute"] = (["PtTempo.compute"], pt_build)

    def gibbs_build():
        f = {"spectral_density": Fault()}

        def jw(w):
            f["spectral_density"].tick()
            return 0.4 * w
        corr = oqupy.CustomSD(jw, 5.0, cutoff_type="exponential", temperature=0.5)
        bath = oqupy.Bath(sz, corr)
        gt = oqupy.tempo.GibbsTempo(system=cheap_system(), bath=bath,
                                    parameters=oqupy.tempo.GibbsParameters(4, 1.0e-4))

        def call(progress_type):
            return gt.compute(progress_type=progress_type)
        return f, call
    runners["GibbsTempo.compute"] = (["GibbsTempo.compute"], gibbs_build)

    def tebd_build():
        f = {"process_tensor": Fault()}

        class FaultyPT(oqupy.SimpleProcessTensor):
            def get_mpo_tensor(self, step, transformed=True):
                f["process_tensor"].tick()
                return super().get_mpo_tensor(step, transformed)
        pt = FaultyPT(hilbert_space_dimension=2, dt=0.1)
        eye = np.eye(4, dtype=complex).reshape(1, 1, 4, 4)
        for k in range(4):
            pt.set_mpo_tensor(k, eye)
        pt.compute_caps()
        chain = oqupy.SystemChain(hilbert_space_dimensions=[2, 2])
        chain.add_site_hamiltonian(site=0, hamiltonian=sz)
        chain.add_nn_hamiltonian(site=0, hamiltonian_l=sx, hamiltonian_r=sx)
        tebd = oqupy.PtTebd(initial_augmented_mps=oqupy.AugmentedMPS([up, up]),
                            system_chain=chain, process_tensors=[pt, None],
                            parameters=oqupy.PtTebdParameters(dt=0.1, order=1, epsrel=1.0e-4),
                            dynamics_sites=[0])

        def call(progress_type):
            return tebd.compute(end_step=3, progress_type=progress_type)
        return f, call
    runners["PtTebd.compute"] = (["PtTebd.compute"], tebd_build)

    def tebd_float_build():
        # end_step as it comes out of float arithmetic (3.0 passes PtTebd's int() check and
        # becomes the bar's max_value): the redraw of the bar rejects it midway
        f = {"float-end-step": Fault()}
        chain = oqupy.SystemChain(hilbert_space_dimensions=[2, 2])
        chain.add_site_hamiltonian(site=0, hamiltonian=sz)
        chain.add_nn_hamiltonian(site=0, hamiltonian_l=sx, hamiltonian_r=sx)
        tebd = oqupy.PtTebd(initial_augmented_mps=oqupy.AugmentedMPS([up, up]),
                            system_chain=chain, process_tensors=[None, None],
                            parameters=oqupy.PtTebdParameters(dt=0.1, order=1, epsrel=1.0e-4),
                            dynamics_sites=[0])

        def call(progress_type):
            v = f["float-end-step"]
            if v.armed and v.at is None:
                v.calls += 1
            end = 3.0 if (v.armed and v.at is not None) else 3
            return tebd.compute(end_step=end, progress_type=progress_type)
        return f, call
    runners["PtTebd.compute/float-end-step"] = (["PtTebd.compute"], tebd_float_build)

    def tebd_par_build(mode, nsites):
        # the documented backend option {'parallel': ...}: one executor pool per gate layer;
        # fault "pool-submit" is ticked by the harness' logging executor at every submit()
        def build():
            f = {"process_tensor": Fault(), "pool-submit": Fault(), "gate-task": Fault()}

            class FaultyPT(oqupy.SimpleProcessTensor):
                def get_mpo_tensor(self, step, transformed=True):
                    f["process_tensor"].tick()
                    return super().get_mpo_tensor(step, transformed)
            pt = FaultyPT(hilbert_space_dimension=2, dt=0.1)
            eye = np.eye(4, dtype=complex).reshape(1, 1, 4, 4)
            for k in range(4):
                pt.set_mpo_tensor(k, eye)
            pt.compute_caps()
            chain = oqupy.SystemChain(hilbert_space_dimensions=[2] * nsites)
            chain.add_site_hamiltonian(site=0, hamiltonian=sz)
            for n in range(nsites - 1):
                chain.add_nn_hamiltonian(site=n, hamiltonian_l=sx, hamiltonian_r=sx)
            tebd = oqupy.PtTebd(initial_augmented_mps=oqupy.AugmentedMPS([up] * nsites),
                                system_chain=chain,
                                process_tensors=[pt] + [None] * (nsites - 1),
                                parameters=oqupy.PtTebdParameters(dt=0.1, order=1,
                                                                  epsrel=1.0e-4),
                                dynamics_sites=[0], backend_config={"parallel": mode})

            def call(progress_type):
                import oqupy.backends.pt_tebd_backend as B
                v = f["gate-task"]
                if v.armed and v.at is None:
                    v.calls += 1          # one fault point: the first parallel layer
                if v.armed and v.at is not None:
                    # an earlier gate of a layer fails while a later one is still running
                    saved = B.apply_nn_gate
                    B.apply_nn_gate = _c19_faulty_gate
                    try:
                        return tebd.compute(end_step=2, progress_type=progress_type)
                    finally:
                        B.apply_nn_gate = saved
                return tebd.compute(end_step=2, progress_type=progress_type)
            call.keep = tebd      # the caller keeps the object, as a user would
            return f, call
        return build
    runners["PtTebd.compute/multithread"] = (["PtTebd.compute"], tebd_par_build("multithread", 4))
    mp = tebd_par_build("multiprocess", 4)
    mp.light = True             # process pools are slow to start: few runs in the quick tier
    runners["PtTebd.compute/multiprocess"] = (["PtTebd.compute"], mp)
    return runners
