-- Root of the `OQuPyVerif` library: every module that `lake build` (setup) must check.
import OQuPyVerif.Props.C13
import OQuPyVerif.Model.Proto
