-- Root of the `OQuPyVerif` library: every module that `lake build` must check.
import OQuPyVerif.Num.FloatModel
