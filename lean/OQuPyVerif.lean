-- Root of the `OQuPyVerif` library: every module that `lake build` (setup) must check.
import OQuPyVerif.Props.C13
import OQuPyVerif.Props.C02
import OQuPyVerif.Props.C04
import OQuPyVerif.Model.Proto
import OQuPyVerif.Model.ProtoQI
import OQuPyVerif.Props.C06
import OQuPyVerif.Props.C01
import OQuPyVerif.Props.C18
import OQuPyVerif.Props.C14
import OQuPyVerif.Props.C05
import OQuPyVerif.Props.C07
import OQuPyVerif.Props.C20
import OQuPyVerif.Props.C19
import OQuPyVerif.Props.C15
import OQuPyVerif.Props.C16
import OQuPyVerif.Props.C17
