/- Driver for C03 (several process tensors, get_mpo_tensor, compute_caps, ancilla environments).
   One op per line, sections separated by " | ", numbers "re,im" with re, im = "p/q".

   multi L n m mode | rho0 | <env_0> | … | <env_{m-1}> | A_0 | B_0 | … | A_{n-1} | B_{n-1} | pre_0 | … | pre_n
        <env> = D_0 … D_n | T_0 | … | T_{n-1} | cap_0 | … | cap_n      (T_k flat, shape (D_k, D_{k+1}, L, L))
        mode "list": the list model (`multiStep`, `applyCaps`);  mode "one": `combineAll` + `mpoStep`
        answer: recorded states of steps 0..n, " ; "-separated
   tensor cls rank Dl Dr Lin Lout L hasIn hasOut | raw | tin | tout
        `mpoTensorOf` with the regenerated wiring of class cls ∈ {simple, file}; answer: flat tensor
   caps cls N L Lin Lout hasIn hasOut | tr | tin | tout | D_0 … D_N | rank_0 raw_0… | … | rank_{N-1} raw_{N-1}…
        `capStepOf` iterated from the last cap `[1]`; answer: caps of steps 0..N, " ; "-separated
   joint L E n | rho0 | rhoE | trE | U_0 | … | U_{n-1} | A_0 | B_0 | … | pre_0 | … | pre_n
        answer: records of `mpoRecord (ptOfJoint …)` " # " records of `jointRecord` " # " records of
        `mpoRecord` of the n-step process tensor with its last bond closed (`foldLastT`)
   commute L D1 D1' D2 D2' | T1 | T2
        the hypothesis of `order_indep_of_commute` for one step, exactly: "true" / "false"
   hist cls kind | s k id | g k | …
        `objTrace` with the regenerated memoisation wiring of cls ∈ {simple, file}, kind ∈ {mpo, cap,
        capsflag (s 0 id = a tensor write giving tensor-list version id, g 0 = compute_caps + read)}:
        which stored version each call answers with ("-": None) -/
import OQuPyVerif.Model.ProtoQI
import OQuPyVerif.Model.MultiEnv
open OQuPyVerif OQuPyVerif.Proto OQuPyVerif.PathSum OQuPyVerif.PT OQuPyVerif.MultiEnv Finset
open OQuPyVerif.Generated.MpoWiring

def tab4 (d1 d2 d3 : Nat) (arr : Array QI) : Nat → Nat → Nat → Nat → QI :=
  fun a b c d => arr.getD (((a * d1 + b) * d2 + c) * d3 + d) 0

def tab3 (d1 d2 : Nat) (arr : Array QI) : Nat → Nat → Nat → QI :=
  fun a b c => arr.getD ((a * d1 + b) * d2 + c) 0

def flatIdx : List Nat → List Nat → Nat
  | _ :: Ds, b :: bs => b * Ds.prod + flatIdx Ds bs
  | _, _ => 0

def showStates (states : List (List QI)) : String :=
  " ; ".intercalate (states.map (fun st => " ".intercalate (st.map showQI)))

/-- parse one environment from `2n+2` sections -/
def parseEnv (L n : Nat) (secs : List (List String)) : Option (EnvMpo QI) := do
  let Ds ← (← secs[0]?).mapM String.toNat?
  let Ts ← ((secs.drop 1).take n).mapM parseQIs?
  let caps ← ((secs.drop (1+n)).take (n+1)).mapM parseQIs?
  if Ts.length != n || caps.length != n+1 then none
  let D : Nat → Nat := fun k => Ds.getD k 0
  pure { D := D
         T := fun k => tab4 (D (k+1)) L L (Ts.getD k #[])
         cap := fun k => tab1 (caps.getD k #[]) }

def runMulti (ws : List String) : Option String := do
  let secs := sections ws
  let hd ← secs[0]?
  let L ← (← hd[0]?).toNat?
  let n ← (← hd[1]?).toNat?
  let m ← (← hd[2]?).toNat?
  let mode ← hd[3]?
  let rho0 ← parseQIs? (← secs[1]?)
  let per := 2*n + 2
  let es ← (List.range m).mapM (fun j => parseEnv L n ((secs.drop (2 + j*per)).take per))
  let rest := secs.drop (2 + m*per)
  let ABs ← (rest.take (2*n)).mapM parseQIs?
  let pres ← ((rest.drop (2*n)).take (n+1)).mapM parseQIs?
  if ABs.length != 2*n || pres.length != n+1 then none
  let A : Nat → Nat → Nat → QI := fun k => tab2 L (ABs.getD (2*k) #[])
  let B : Nat → Nat → Nat → QI := fun k => tab2 L (ABs.getD (2*k+1) #[])
  let pre : Nat → Nat → Nat → QI := fun k => tab2 L (pres.getD k #[])
  if mode == "one" then
    let E := combineAll L es
    let X0 : Array QI := tabulate2 (E.D 0) L (fun b s => if b = 0 then tab1 rho0 s else 0)
    let rec goOne (k fuel : Nat) (X : Array QI) (acc : List (List QI)) : List (List QI) :=
      let Xf := tab2 L X
      let recd := (List.range L).map (fun s' =>
        ∑ b ∈ range (E.D k), E.cap k b * ∑ s ∈ range L, pre k s' s * Xf b s)
      match fuel with
      | 0 => (recd :: acc).reverse
      | fuel+1 => goOne (k+1) fuel (tabulate2 (E.D (k+1)) L (mpoStep L E.D E.T A B k Xf)) (recd :: acc)
    pure (showStates (goOne 0 n X0 []))
  else if mode == "list" then
    let dims : Nat → List Nat := fun k => es.map (fun e => e.D k)
    let look (k : Nat) (X : Array QI) : List Nat → Nat → QI :=
      fun bs s => X.getD (flatIdx (dims k) bs * L + s) 0
    let X0 : Array QI := tabulate2 (dims 0).prod L
      (fun b s => if (unflat (dims 0) b).sum = 0 then tab1 rho0 s else 0)
    let rec goList (k fuel : Nat) (X : Array QI) (acc : List (List QI)) : List (List QI) :=
      let Xf := look k X
      let recd := (List.range L).map (fun s' =>
        applyCaps (es.map (fun e => (e.D k, e.cap k)))
          (fun bs s'' => ∑ s ∈ range L, pre k s'' s * Xf bs s) s')
      match fuel with
      | 0 => (recd :: acc).reverse
      | fuel+1 =>
        let X' := tabulate2 (dims (k+1)).prod L
          (fun b s => multiStep L es A B k Xf (unflat (dims (k+1)) b) s)
        goList (k+1) fuel X' (recd :: acc)
    pure (showStates (goList 0 n X0 []))
  else none

def wiringOf (cls : String) : Option (GetMpoWiring × CapWiring) :=
  if cls == "simple" then some (simpleGetMpo, simpleCaps)
  else if cls == "file" then some (fileGetMpo, fileCaps) else none

def rawOf (rank Dr Lin Lout : Nat) (arr : Array QI) : Option (RawMpo QI) :=
  if rank == 3 then some (.rank3 (tab3 Dr Lin arr))
  else if rank == 4 then some (.rank4 (tab4 Dr Lin Lout arr)) else none

def runTensor (ws : List String) : Option String := do
  let secs := sections ws
  let hd ← secs[0]?
  let cls ← hd[0]?
  let nums ← (hd.drop 1).mapM String.toNat?
  let [rank, Dl, Dr, Lin, Lout, L, hasIn, hasOut] := nums | none
  let (g, _) ← wiringOf cls
  let raw ← rawOf rank Dr Lin Lout (← parseQIs? (← secs[1]?))
  let tin ← parseQIs? (← secs[2]?)
  let tout ← parseQIs? (← secs[3]?)
  let tinF : Option (Nat → Nat → QI) := if hasIn == 1 then some (tab2 Lin tin) else none
  let toutF : Option (Nat → Nat → QI) := if hasOut == 1 then some (tab2 L tout) else none
  let d2 := if hasIn == 1 then L else Lin
  let d3 := if hasOut == 1 then L else Lout
  match mpoTensorOf g Lin Lout raw tinF toutF with
  | none => pure "unknown-wiring"
  | some T =>
    let flat := (List.range (Dl * Dr * d2 * d3)).map (fun idx =>
      T (idx / (Dr * d2 * d3)) (idx / (d2 * d3) % Dr) (idx / d3 % d2) (idx % d3))
    pure (" ".intercalate (flat.map showQI))

def runCaps (ws : List String) : Option String := do
  let secs := sections ws
  let hd ← secs[0]?
  let cls ← hd[0]?
  let nums ← (hd.drop 1).mapM String.toNat?
  let [N, L, Lin, Lout, hasIn, hasOut] := nums | none
  let (g, w) ← wiringOf cls
  let tr ← parseQIs? (← secs[1]?)
  let tin ← parseQIs? (← secs[2]?)
  let tout ← parseQIs? (← secs[3]?)
  let Ds ← (← secs[4]?).mapM String.toNat?
  let tinF : Option (Nat → Nat → QI) := if hasIn == 1 then some (tab2 Lin tin) else none
  let toutF : Option (Nat → Nat → QI) := if hasOut == 1 then some (tab2 L tout) else none
  let raws ← ((secs.drop 5).take N).mapM (fun s => do
    let rank ← (← s[0]?).toNat?
    let arr ← parseQIs? (s.drop 1)
    pure (rank, arr))
  if raws.length != N then none
  let rec go (k : Nat) (capNext : Array QI) (acc : List (List QI)) : Option (List (List QI)) :=
    match k with
    | 0 => some acc
    | k+1 => do
      let (rank, arr) ← raws[k]?
      let raw ← rawOf rank (Ds.getD (k+1) 0) Lin Lout arr
      let c ← capStepOf w g L Lin Lout (Ds.getD (k+1) 0) (tab1 tr) raw tinF toutF (tab1 capNext)
      let cap := (List.range (Ds.getD k 0)).map c
      go k cap.toArray (cap :: acc)
  if w.lastIsOne && w.backwards then
    let caps ← go N #[1] [[1]]
    pure (showStates caps)
  else pure "unknown-wiring"

def runJoint (ws : List String) : Option String := do
  let secs := sections ws
  let hd ← secs[0]?
  let L ← (← hd[0]?).toNat?
  let E ← (← hd[1]?).toNat?
  let n ← (← hd[2]?).toNat?
  let rho0 ← parseQIs? (← secs[1]?)
  let rhoE ← parseQIs? (← secs[2]?)
  let trE ← parseQIs? (← secs[3]?)
  let Us ← ((secs.drop 4).take n).mapM parseQIs?
  let ABs ← ((secs.drop (4+n)).take (2*n)).mapM parseQIs?
  let pres ← ((secs.drop (4+3*n)).take (n+1)).mapM parseQIs?
  if Us.length != n || ABs.length != 2*n || pres.length != n+1 then none
  let N := E * L
  let U : Nat → Nat → Nat → QI := fun k => tab2 N (Us.getD k #[])
  let A : Nat → Nat → Nat → QI := fun k => tab2 L (ABs.getD (2*k) #[])
  let B : Nat → Nat → Nat → QI := fun k => tab2 L (ABs.getD (2*k+1) #[])
  let pre : Nat → Nat → Nat → QI := fun k => tab2 L (pres.getD k #[])
  let pt := ptOfJoint L E U (tab1 rhoE) (tab1 trE)
  -- process-tensor side
  let X0 : Array QI := tabulate2 (pt.D 0) L (fun b s => if b = 0 then tab1 rho0 s else 0)
  let rec goP (pt : EnvMpo QI) (k fuel : Nat) (X : Array QI) (acc : List (List QI)) :
      List (List QI) :=
    let Xf := tab2 L X
    let recd := (List.range L).map (fun s' =>
      ∑ b ∈ range (pt.D k), pt.cap k b * ∑ s ∈ range L, pre k s' s * Xf b s)
    match fuel with
    | 0 => (recd :: acc).reverse
    | fuel+1 =>
      goP pt (k+1) fuel (tabulate2 (pt.D (k+1)) L (mpoStep L pt.D pt.T A B k Xf)) (recd :: acc)
  -- the finite process tensor of n steps: last bond closed inside the last tensor
  let ptF : EnvMpo QI := { D := foldLastD n pt.D, T := foldLastT n pt.D pt.T pt.cap,
                           cap := foldLastCap n pt.cap }
  -- joint side: Y_{k+1} = (1⊗B_k)·U_k·(1⊗A_k)·Y_k, tabulated after every product
  let tabv (f : Nat → QI) : Array QI := Array.ofFn (n := N) (fun i => f i.val)
  let Y0 : Array QI := tabv (fun y => tab1 rhoE (y / L) * tab1 rho0 (y % L))
  let rec goJ (k fuel : Nat) (Y : Array QI) (acc : List (List QI)) : List (List QI) :=
    let Yf := tab1 Y
    let recd := (List.range L).map (fun s' =>
      ∑ y ∈ range N, tab1 trE (y / L) * pre k s' (y % L) * Yf y)
    match fuel with
    | 0 => (recd :: acc).reverse
    | fuel+1 =>
      let Y1 := tabv (matVec N (kronI L (A k)) Yf)
      let Y2 := tabv (matVec N (U k) (tab1 Y1))
      let Y3 := tabv (matVec N (kronI L (B k)) (tab1 Y2))
      goJ (k+1) fuel Y3 (recd :: acc)
  pure (showStates (goP pt 0 n X0 []) ++ " # " ++ showStates (goJ 0 n Y0 []) ++ " # " ++
    showStates (goP ptF 0 n X0 []))

def runCommute (ws : List String) : Option String := do
  let secs := sections ws
  let nums ← (← secs[0]?).mapM String.toNat?
  let [L, D1, D1', D2, D2'] := nums | none
  let T1 := tab4 D1' L L (← parseQIs? (← secs[1]?))
  let T2 := tab4 D2' L L (← parseQIs? (← secs[2]?))
  let ok := (List.range D1).all fun b1 => (List.range D1').all fun b1' =>
    (List.range D2).all fun b2 => (List.range D2').all fun b2' =>
    (List.range L).all fun i => (List.range L).all fun o =>
      decide ((∑ m ∈ range L, T1 b1 b1' i m * T2 b2 b2' m o)
        = ∑ m ∈ range L, T2 b2 b2' i m * T1 b1 b1' m o)
  pure (toString ok)

/-- hist cls kind | s k id | g k | …   (stored values are abstract version numbers, the getter's
    computation is the identity on them): answers of the calls, "-" for None -/
def runHist (ws : List String) : Option String := do
  let secs := sections ws
  let hd ← secs[0]?
  let cls ← hd[0]?
  let kind ← hd[1]?
  let cw : CacheWiring ←
    if cls == "simple" && kind == "mpo" then some simpleMpoCache
    else if cls == "simple" && kind == "cap" then some simpleCapCache
    else if cls == "file" && kind == "mpo" then some fileMpoCache
    else if cls == "file" && kind == "cap" then some fileCapCache
    else if cls == "simple" && kind == "capsflag" then some simpleCapsFlag
    else if cls == "file" && kind == "capsflag" then some fileCapsFlag else none
  let ops ← (secs.drop 1).mapM (fun s => match s with
    | ["s", k, v] => do pure (PtOp.set (← k.toNat?) (← v.toNat?))
    | ["g", k] => do pure (PtOp.get (← k.toNat?))
    | _ => none)
  let tr := objTrace cw (fun v : Nat => v) PtObj.empty ops
  pure (" ".intercalate (tr.map (fun a => match a with | none => "-" | some v => toString v)))

def step (line : String) : String :=
  match words line with
  | "multi" :: rest => (runMulti rest).getD "bad-op"
  | "tensor" :: rest => (runTensor rest).getD "bad-op"
  | "caps" :: rest => (runCaps rest).getD "bad-op"
  | "joint" :: rest => (runJoint rest).getD "bad-op"
  | "commute" :: rest => (runCommute rest).getD "bad-op"
  | "hist" :: rest => (runHist rest).getD "bad-op"
  | _ => "bad-op"

def main : IO Unit := mainLoop step
