/- Driver for C10 (PT-TEBD).  One op per stdin line:

   layers n order dt            -> layers of one propagator:  "b,b,..@t ; b,..@t ; ..."  ("-" = no bond)
   weights n order dt           -> "w_0 .. w_{n-1} | v_0 .. v_{n-2} | count"   site / bond weights of one
                                   propagator and the number of propagators per step
   rw i                         -> "reads | writes" of the gate on bond i   (cells g<k> / l<k>)
   exec                         -> "absent=<kind> ; key=<kind>:<class>:<resolvable> ; ..."
   execkind key                 -> kind selected by config['parallel'] == key  ("none" = NotImplementedError)
   sched n | mode b b .. [; p p ..] | mode ...
                                -> symbolic run of the layers on the cells g0..g(n-1), l0..ln:
                                   mode seq | map | perm (perm: results written back in the order p)
                                   answer "g0=term g1=term ... l0=term ..."
   nnfull n i Ll Lr | siteL | siteR | nn
                                -> get_nn_full_liouvillians()[i] as a flat (Ll·Lr)² array
   run n order dt m | d_0 .. | psi0 | gates | pts | ctrls | keeps
                                -> dense evolution, see `runDense` below; the answer ends with
                                   " # hyp gate=<r> ctrl=<r> pt=<r>": the largest squared residuals of
                                   the hypotheses of `norm_step` on the shipped tensors
   lind kind d1 d2 gamma | A [| B]
                                -> kind siteH | siteD | nnH | nnD: the generated contribution of
                                   add_site_hamiltonian / add_site_dissipation / add_nn_hamiltonian /
                                   add_nn_dissipation evaluated on the operators A (B):
                                   "tr=<#nonzero entries of tr∘L> herm=<#entries violating L[p̃,q̃] = conj L[p,q]> | L flat"
-/
import OQuPyVerif.Model.ProtoQI
import OQuPyVerif.Model.Tebd
open OQuPyVerif OQuPyVerif.Proto OQuPyVerif.Tebd OQuPyVerif.Generated Finset


def showCell (c : Cell) : String :=
  (match c.1 with | .gam => "g" | .lam => "l") ++ toString c.2

def showKind : Option TebdLayers.ExecKind → String
  | none => "none"
  | some .sequentialLoop => "sequential"
  | some .readAllMapWriteAll => "map"

/-! ### symbolic schedule -/

/-- the free gate function: output `k` of the gate on bond `i` applied to the copied terms -/
def symGate (i : Nat) (vals : List String) : List String :=
  (List.range TebdLayers.gate_writes.length).map (fun k =>
    "(G" ++ toString i ++ "." ++ toString k ++ " " ++ " ".intercalate vals ++ ")")

def permute {α} (l : List α) (p : List Nat) : List α := p.filterMap (fun k => l[k]?)

def runSched (n : Nat) (layers : List (List String)) : Option String := do
  let cells : List Cell :=
    (List.range n).map (fun k => (TebdLayers.CellKind.gam, k))
      ++ (List.range (n+1)).map (fun k => (TebdLayers.CellKind.lam, k))
  -- the state is kept as data (assoc list); `look` turns it into the function the model runs on
  let look (tab : List (Cell × String)) : Cell → String := fun c => (tab.lookup c).getD "?"
  let mut tab : List (Cell × String) := cells.map (fun c => (c, showCell c))
  for ly in layers do
    let (spec, perm) := (ly.takeWhile (· != ";"), (ly.dropWhile (· != ";")).drop 1)
    let mode ← spec.head?
    let bonds ← (spec.drop 1).mapM String.toNat?
    let st := look tab
    let st' ←
      if mode == "seq" then some (seqRun symGate bonds st)
      else if mode == "map" then some (mapRun symGate bonds st)
      else if mode == "perm" then do
        let p ← perm.mapM String.toNat?
        some (completionRun st (permute (mapOutputs symGate bonds st) p))
      else none
    tab := cells.map (fun c => (c, st' c))
  pure (" ".intercalate (tab.map (fun (c, v) => showCell c ++ "=" ++ v)))

/-! ### dense run -/

def qiOfRat (r : Rat) : QI := ⟨r, 0⟩

def prodDims (dims : Array Nat) : Nat := dims.foldl (· * ·) 1

/-- digits of `idx` in the mixed radix `dims` (slot 0 most significant) -/
def decodeIdx (dims : Array Nat) (idx : Nat) : Array Nat := Id.run do
  let mut out := Array.replicate dims.size 0
  let mut r := idx
  for k in [0:dims.size] do
    let s := dims.size - 1 - k
    let d := dims[s]!
    out := out.set! s (r % d)
    r := r / d
  pure out

def encodeCfg (dims : Array Nat) (c : Nat → Nat) : Nat := Id.run do
  let mut r := 0
  for s in [0:dims.size] do
    r := r * dims[s]! + c s
  pure r

/-- the dense state as a function of the configuration -/
def lookupState (dims : Array Nat) (arr : Array QI) : Config → QI :=
  fun c => arr.getD (encodeCfg dims c) 0

/-- tabulate `f` on all configurations within `dims` -/
def tabulateState (dims : Array Nat) (f : Config → QI) : Array QI :=
  Array.ofFn (n := prodDims dims) (fun idx =>
    let digits := decodeIdx dims idx.val
    f (fun s => digits.getD s 0))

/-- apply one operation of the model to the tabulated state -/
def stepOp (st : Array Nat × Array QI) (o : Op QI) : Array Nat × Array QI :=
  let (dims, arr) := st
  let dims' := match o with
    | .site s _ o' _ => dims.set! s o'
    | .pair s t _ _ o1 o2 _ => (dims.set! s o1).set! t o2
  (dims', tabulateState dims' (o.run (lookupState dims arr)))

def getKV (tab : List (String × Array QI)) (key : String) : Array QI :=
  (tab.lookup key).getD #[]

def normSq (z : QI) : Rat := z.re * z.re + z.im * z.im

def maxRat (l : List Rat) : Rat := l.foldl max 0

/-- largest squared residual of `TracePres2` -/
def gateResidual (d1 L1 d2 L2 : Nat) (G : Nat → Nat → Nat → Nat → QI) : Rat :=
  maxRat ((List.range L1).flatMap (fun a => (List.range L2).map (fun b =>
    normSq ((∑ x ∈ range L1, ∑ y ∈ range L2, trVec d1 x * trVec d2 y * G x y a b)
      - trVec d1 a * trVec d2 b))))

/-- largest squared residual of `TracePres` -/
def siteResidual (d L : Nat) (M : Nat → Nat → QI) : Rat :=
  maxRat ((List.range L).map (fun a =>
    normSq ((∑ x ∈ range L, trVec d x * M x a) - trVec d a)))

/-- largest squared residual of the cap hypothesis `hT` of `norm_step` for MPO `k` of site `j` -/
def ptResidual (ch : Chain QI) (j k : Nat) : Rat :=
  maxRat ((List.range (ch.D j k)).flatMap (fun b => (List.range (ch.L j)).map (fun i =>
    normSq ((∑ b' ∈ range (ch.D j (k + 1)), ∑ o ∈ range (ch.L j),
        ch.cap j (k + 1) b' * trVec (ch.d j) o * ch.T j k b b' i o)
      - ch.cap j k b * trVec (ch.d j) i))))

/-- `run n order dt m | d_0 .. d_{n-1} | psi0 (flat over the physical indices, site 0 most significant)
        | G i t arr.. | G i t arr.. ...            gate kernels, flat (L_i, L_{i+1}, L_i, L_{i+1}) = (out_l, out_r, in_l, in_r)
        | P j k D D' arr..  ...                     MPO k of site j, flat (D, D', L, L);   sites/steps without entry: no MPO
        | C j k D arr.. ...                         cap k of site j (length D)             (default: D = 1, cap = [1])
        | X pre|post j k arr.. ...                  control of site j at step k, flat (L, L)
        | K j j .. | K j ..                          site lists to record
    answer: per step 0..m:  "norm ; v.. ; v.." joined by " # " -/
def runDense (ws : List String) : Option String := do
  let secs := sections ws
  let hd ← secs[0]?
  let n ← (← hd[0]?).toNat?
  let order ← (← hd[1]?).toInt?
  let dt ← parseRat? (← hd[2]?)
  let m ← (← hd[3]?).toNat?
  let ds ← (← secs[1]?).mapM String.toNat?
  let psi0 ← parseQIs? (← secs[2]?)
  let rest := secs.drop 3
  let mut gates : List (String × Array QI) := []
  let mut pts : List (String × (Nat × Nat × Array QI)) := []
  let mut caps : List (String × Array QI) := []
  let mut ctrls : List (String × Array QI) := []
  let mut keeps : List (List Nat) := []
  for sec in rest do
    match sec with
    | "G" :: i :: t :: arr => gates := (i ++ "@" ++ t, ← parseQIs? arr) :: gates
    | "P" :: j :: k :: D :: D' :: arr =>
        pts := (j ++ "," ++ k, (← D.toNat?, ← D'.toNat?, ← parseQIs? arr)) :: pts
    | "C" :: j :: k :: _ :: arr => caps := (j ++ "," ++ k, ← parseQIs? arr) :: caps
    | "X" :: pp :: j :: k :: arr => ctrls := (pp ++ j ++ "," ++ k, ← parseQIs? arr) :: ctrls
    | "K" :: js => keeps := keeps ++ [← js.mapM String.toNat?]
    | [] => pure ()
    | _ => none
  let d : Nat → Nat := fun j => ds.getD j 1
  let L : Nat → Nat := fun j => d j * d j
  let key2 (j k : Nat) : String := toString j ++ "," ++ toString k
  -- bond dimension of the process tensor of site j before MPO k
  let Dfun : Nat → Nat → Nat := fun j k =>
    match pts.lookup (key2 j k) with
    | some (D, _, _) => D
    | none => match (if k = 0 then none else pts.lookup (key2 j (k-1))) with
      | some (_, D', _) => D'
      | none => 1
  let ch : Chain QI := {
    n := n, d := d, L := L,
    gate := fun i t =>
      let arr := getKV gates (toString i ++ "@" ++ showRat t)
      fun x y a b => arr.getD (((x * L (i+1) + y) * L i + a) * L (i+1) + b) 0,
    D := Dfun,
    hasPT := fun j k => (pts.lookup (key2 j k)).isSome,
    T := fun j k =>
      match pts.lookup (key2 j k) with
      | some (_, D', arr) => fun b b' i o => arr.getD (((b * D' + b') * L j + i) * L j + o) 0
      | none => fun _ _ _ _ => 0,
    cap := fun j k =>
      match caps.lookup (key2 j k) with
      | some arr => tab1 arr
      | none => fun b => if b = 0 then 1 else 0,
    pre := fun j k => (ctrls.lookup ("pre" ++ key2 j k)).map (fun arr => tab2 (L j) arr),
    post := fun j k => (ctrls.lookup ("post" ++ key2 j k)).map (fun arr => tab2 (L j) arr) }
  -- slot dimensions: physical slot of site j = 2j, process-tensor slot = 2j+1 (dimension 1 at the start)
  let dims0 : Array Nat := Array.ofFn (n := 2 * n) (fun s =>
    if s.val % 2 = 0 then L (s.val / 2) else Dfun (s.val / 2) 0)
  -- psi0 is given over the physical indices only; all process-tensor slots have dimension 1 at step 0
  let st0 : Array Nat × Array QI := (dims0, psi0)
  let record (k : Nat) (st : Array Nat × Array QI) : String :=
    let ψ := lookupState st.1 st.2
    let nrm := ch.norm k ψ
    let reds := keeps.map (fun keep =>
      let red := ch.reduced k keep ψ
      -- the reduced state as a function of the physical slots of the kept sites
      let kdims : Array Nat := (keep.map L).toArray
      let vals := (List.range (prodDims kdims)).map (fun idx =>
        let digits := decodeIdx kdims idx
        let c : Config := fun s =>
          if s % 2 = 0 then
            match keep.idxOf? (s / 2) with
            | some p => digits.getD p 0
            | none => 0
          else 0
        red c)
      " ".intercalate (vals.map showQI))
    " ; ".intercalate (showQI nrm :: reds)
  let mut st := (ch.initOps 0).foldl stepOp st0
  let mut out := [record 0 st]
  for k in [0:m] do
    st := (ch.stepOps order dt k).foldl stepOp st
    out := out ++ [record (k+1) st]
  -- hypotheses of `norm_step` / `norm_one` evaluated on the shipped tensors
  let gateRes := maxRat (gates.map (fun (key, _) =>
    match key.splitOn "@" with
    | [i, t] => match i.toNat?, parseRat? t with
      | some i, some t => gateResidual (d i) (L i) (d (i+1)) (L (i+1)) (ch.gate i t)
      | _, _ => 1
    | _ => 1))
  let ctrlRes := maxRat ((List.range n).flatMap (fun j => (List.range (m+1)).flatMap (fun k =>
    ((ch.pre j k).toList ++ (ch.post j k).toList).map (fun M => siteResidual (d j) (L j) M))))
  let ptRes := maxRat ((List.range n).flatMap (fun j => (List.range m).map (fun k =>
    if ch.hasPT j k then ptResidual ch j k else 0)))
  pure (" # ".intercalate out ++ " # hyp gate=" ++ showRat gateRes ++ " ctrl=" ++ showRat ctrlRes
    ++ " pt=" ++ showRat ptRes)

/-! ### hypotheses of `norm_step` on shipped tensors, generated Liouvillians -/

def qiI : QI := ⟨0, 1⟩

def runLind (ws : List String) : Option String := do
  let secs := sections ws
  let hd ← secs[0]?
  let kind ← hd[0]?
  let d1 ← (← hd[1]?).toNat?
  let d2 ← (← hd[2]?).toNat?
  let γ ← parseQI? (← hd[3]?)
  let A ← parseQIs? (← secs[1]?)
  let B ← parseQIs? ((secs[2]?).getD [])
  let e1 : Nat → Nat → Nat → QI := fun k => if k = 0 then tab2 d1 A else tab2 d1 B
  let e2 : Nat → Nat → Nat → QI := fun k => if k = 0 then tab2 d2 A else tab2 d2 B
  let two := kind == "nnH" || kind == "nnD"
  let n := if two then d1 * d1 * d2 * d2 else d1 * d1
  let f ←
    if kind == "siteH" then some (super1Tab qiOfRat qiI γ d1 e1 ChainLindblad.site_hamiltonian)
    else if kind == "siteD" then some (super1Tab qiOfRat qiI γ d1 e1 ChainLindblad.site_dissipation)
    else if kind == "nnH" then some (super2Tab qiOfRat qiI γ d1 d2 e1 e2 ChainLindblad.nn_hamiltonian)
    else if kind == "nnD" then some (super2Tab qiOfRat qiI γ d1 d2 e1 e2 ChainLindblad.nn_dissipation)
    else none
  let tab := tabulate2 n n f
  let L : Nat → Nat → QI := tab2 n tab
  -- trace covector of the (one- or two-site) Liouville space and the index of the transposed pair
  let tr : Nat → QI := fun p =>
    if two then trVec d1 (p / (d2 * d2)) * trVec d2 (p % (d2 * d2)) else trVec d1 p
  let sw1 (d p : Nat) : Nat := (p % d) * d + p / d
  let sw : Nat → Nat := fun p =>
    if two then sw1 d1 (p / (d2 * d2)) * (d2 * d2) + sw1 d2 (p % (d2 * d2)) else sw1 d1 p
  let trBad := ((List.range n).filter (fun q => (∑ p ∈ range n, tr p * L p q) != 0)).length
  let hermBad := ((List.range n).flatMap (fun p => (List.range n).filter (fun q =>
    L (sw p) (sw q) != star (L p q)))).length
  pure (s!"tr={trBad} herm={hermBad} | " ++ " ".intercalate (tab.toList.map showQI))

/-! ### ops -/

def showLayers (n : Nat) (order : Int) (dt : Rat) : String :=
  " ; ".intercalate ((halfStepLayers n order dt).map (fun ly =>
    (if ly.1.isEmpty then "-" else ",".intercalate (ly.1.map toString)) ++ "@" ++ showRat ly.2))

def step (line : String) : String :=
  match words line with
  | ["layers", n, order, dt] =>
    match n.toNat?, order.toInt?, parseRat? dt with
    | some n, some order, some dt =>
      if (orderRow order).isNone then "notimplemented" else showLayers n order dt
    | _, _, _ => "bad-op"
  | ["weights", n, order, dt] =>
    match n.toNat?, order.toInt?, parseRat? dt with
    | some n, some order, some dt =>
      showRats ((List.range n).map (halfStepSiteWeight n order dt)) ++ " | "
        ++ showRats ((List.range (numBonds n)).map (halfStepBondWeight n order dt)) ++ " | "
        ++ toString propagatorsPerStep
    | _, _, _ => "bad-op"
  | ["rw", i] =>
    match i.toNat? with
    | some i => " ".intercalate ((gateReads i).map showCell) ++ " | "
        ++ " ".intercalate ((gateWrites i).map showCell)
    | none => "bad-op"
  | ["exec"] =>
    "absent=" ++ showKind (execKindOf none) ++ " ; " ++
      " ; ".intercalate (TebdLayers.exec_table.map (fun r =>
        r.1 ++ "=" ++ showKind (execKindOf (some r.1)) ++ ":" ++ r.2.1 ++ "." ++ r.2.2.1 ++ ":"
          ++ toString (resolvable r.2.1)))
  | ["execkind", key] => showKind (execKindOf (some key))
  | "sched" :: n :: rest =>
    match n.toNat? with
    | some n => (runSched n ((sections rest).filter (fun s => !s.isEmpty))).getD "bad-op"
    | none => "bad-op"
  | "nnfull" :: rest =>
    (do
      let secs := sections rest
      let hd ← secs[0]?
      let n ← (← hd[0]?).toNat?
      let i ← (← hd[1]?).toNat?
      let Ll ← (← hd[2]?).toNat?
      let Lr ← (← hd[3]?).toNat?
      let sl ← parseQIs? (← secs[1]?)
      let sr ← parseQIs? (← secs[2]?)
      let nn ← parseQIs? (← secs[3]?)
      let f := fullLiouv qiOfRat n i Lr (tab2 Ll sl) (tab2 Lr sr) (tab2 (Ll * Lr) nn)
      pure (" ".intercalate ((tabulate2 (Ll * Lr) (Ll * Lr) f).toList.map showQI))).getD "bad-op"
  | "run" :: rest => (runDense rest).getD "bad-op"
  | "lind" :: rest => (runLind rest).getD "bad-op"
  | _ => "bad-op"

def main : IO Unit := mainLoop step
