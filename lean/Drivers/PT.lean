/- Driver for the process-tensor contraction model (C02, C03, C04, C16 consumers).
   line:  mpo L n mode | rho0 | D_0 … D_n | T_0 | … | T_{n-1} | cap_0 | … | cap_n | A_0 | B_0 | … | A_{n-1} | B_{n-1} | pre_0 | … | pre_n
          mode = "mpo"   : records of steps 0..n by the step recursion (`mpoRecord`)
          mode = "dense" : record of step n only, through `denseRecord (densePT …)`
          mode = "densept": followed by "| paths p… | paths p…": `densePT` (closed at n) on each path
   T_k is the flat array of shape (D_k, D_{k+1}, L, L) (axes of get_mpo_tensor). -/
import OQuPyVerif.Model.ProtoQI
import OQuPyVerif.Model.ProcessTensor
open OQuPyVerif OQuPyVerif.Proto OQuPyVerif.PathSum OQuPyVerif.PT Finset

def run (ws : List String) : Option String := do
  let secs := sections ws
  let hd ← secs[0]?
  let L ← (← hd[0]?).toNat?
  let n ← (← hd[1]?).toNat?
  let mode ← hd[2]?
  let rho0 ← parseQIs? (← secs[1]?)
  let Ds ← (← secs[2]?).mapM String.toNat?
  let D : Nat → Nat := fun k => Ds.getD k 0
  let Ts ← ((secs.drop 3).take n).mapM parseQIs?
  let caps ← ((secs.drop (3+n)).take (n+1)).mapM parseQIs?
  let ABs ← ((secs.drop (4+2*n)).take (2*n)).mapM parseQIs?
  let pres ← ((secs.drop (4+4*n)).take (n+1)).mapM parseQIs?
  let T : Nat → Nat → Nat → Nat → Nat → QI := fun k b b' i o =>
    (Ts.getD k #[]).getD (((b * D (k+1) + b') * L + i) * L + o) 0
  let cap : Nat → Nat → QI := fun k => tab1 (caps.getD k #[])
  let A : Nat → Nat → Nat → QI := fun k => tab2 L (ABs.getD (2*k) #[])
  let B : Nat → Nat → Nat → QI := fun k => tab2 L (ABs.getD (2*k+1) #[])
  let pre : Nat → Nat → Nat → QI := fun k => tab2 L (pres.getD k #[])
  if mode == "caprec" then
    -- `compute_caps` recursion: cap_k recomputed from cap_{k+1} with trIn = vec(1)/d, trOut = vec(1)
    let d := (List.range (L+1)).find? (fun x => x * x == L) |>.getD 0
    let trv : Nat → QI := fun a => if a / d == a % d then 1 else 0
    let trIn : Nat → QI := fun a => trv a * QI.ofRat (1 / (d : Rat))
    let rows := (List.range n).map (fun k =>
      (List.range (D k)).map (fun b => capRec L D T trIn trv (cap (k+1)) k b))
    pure (" ; ".intercalate (rows.map (fun st => " ".intercalate (st.map showQI))))
  else if mode == "densept" then
    -- values of the dense process tensor (closed at step n) on the listed paths
    let pathSecs := ((secs.drop (5+5*n)).dropWhile (fun s => s.head? != some "paths")).map (fun s => s.drop 1)
    let vals := pathSecs.map (fun pw => match pw.mapM String.toNat? with
      | some p => showQI (densePT D T cap n p)
      | none => "bad-path")
    pure (" ".intercalate vals)
  else if mode == "dense" then
    let st := (List.range L).map (fun s' =>
      denseRecord L (densePT D T cap) A B (pre n) (tab1 rho0) n s')
    pure (" ".intercalate (st.map showQI))
  else
    -- X_{k+1} = mpoStep k X_k, tabulated after every step (`mpoState (k+1) = mpoStep k (mpoState k)` by definition)
    let X0 : Array QI := tabulate2 (D 0) L (fun b s => if b = 0 then tab1 rho0 s else 0)
    let rec go (k : Nat) (fuel : Nat) (X : Array QI) (acc : List (List QI)) : List (List QI) :=
      let Xf := tab2 L X
      let recd := (List.range L).map (fun s' =>
        ∑ b ∈ range (D k), cap k b * ∑ s ∈ range L, pre k s' s * Xf b s)
      match fuel with
      | 0 => (recd :: acc).reverse
      | fuel+1 =>
        let X' := tabulate2 (D (k+1)) L (mpoStep L D T A B k Xf)
        go (k+1) fuel X' (recd :: acc)
    let states := go 0 n X0 []
    pure (" ; ".intercalate (states.map (fun st => " ".intercalate (st.map showQI))))

def step (line : String) : String :=
  match words line with
  | "mpo" :: rest => (run rest).getD "bad-op"
  | _ => "bad-op"

def main : IO Unit := mainLoop step
