/- Driver for C01:
   inflargs <dt> <dkmax> <dk> <tau>     -> "<shape> <time_1> <time_2|none>"   (generated functions; binary64 model)
   exponent <re> <im> <d> | o_0 … o_{d-1} -> exponents of every entry [e,l] of the dk≠0 table and of the
                                             dk=0 diagonal (generated formulas with E := id), L·L + L numbers
   ssum <K|none> <hasAdd> <n> | id re,im | id re,im …  -> S_1 … S_n  (sums of the admitted η-cells) -/
import OQuPyVerif.Model.ProtoQI
import OQuPyVerif.Model.Tempo
import OQuPyVerif.Generated.InfluenceArgs
open OQuPyVerif OQuPyVerif.Proto OQuPyVerif.Tempo OQuPyVerif.Generated.InfluenceArgs Finset

def inflArgs (ws : List String) : Option String := do
  let dt ← parseRat? (← ws[0]?)
  let kc ← (← ws[1]?).toInt?
  let dk ← (← ws[2]?).toInt?
  let tauS ← ws[3]?
  if dk == 0 then
    pure s!"{infl_zero_shape} {showRat (infl_zero_time1 dt dk)} none"
  else if dk < 0 then
    if tauS == "none" then
      (if infl_neg_none_without_add then pure "None" else none)
    else do
      let tau ← parseRat? tauS
      pure s!"{infl_neg_shape} {showRat (infl_neg_time1 dt kc dk)} {showRat (infl_neg_time2 dt kc dk tau)}"
  else
    pure s!"{infl_pos_shape} {showRat (infl_pos_time1 dt dk)} none"

def exponents (ws : List String) : Option String := do
  let secs := sections ws
  let hd ← secs[0]?
  let re ← parseRat? (← hd[0]?)
  let im ← parseRat? (← hd[1]?)
  let d ← (← hd[2]?).toNat?
  let os ← (← secs[1]?).mapM parseRat?
  let o : Nat → QI := fun i => QI.ofRat (os.getD i 0)
  let L := d * d
  -- commutator / anticommutator diagonals as `Bath` builds them: Om(i,j) = o_i − o_j, Op = o_i + o_j
  let Om : Nat → QI := fun a => o (a / d) - o (a % d)
  let Op : Nat → QI := fun a => o (a / d) + o (a % d)
  let idf : QI → QI := fun z => z
  let offd := (List.range L).flatMap (fun e => (List.range L).map (fun l =>
    infl_entry idf (QI.ofRat re) (QI.ofRat im) QI.I Om Op e l))
  let diag := (List.range L).map (fun a => infl_entry_diag idf (QI.ofRat re) (QI.ofRat im) QI.I Om Op a)
  pure (" ".intercalate ((offd ++ diag).map showQI))

def ssum (ws : List String) : Option String := do
  let secs := sections ws
  let hd ← secs[0]?
  let kS ← hd[0]?
  let dkmax : Option Nat := if kS == "none" then none else kS.toNat?
  let hasAdd := (← hd[1]?) == "1"
  let n ← (← hd[2]?).toNat?
  let etas ← (secs.drop 1).mapM (fun s => do
    let id ← (← s[0]?).toInt?
    let z ← parseQI? (← s[1]?)
    pure (id, z))
  let eta : Int → QI := fun id => match etas.find? (fun t => t.1 == id) with
    | some t => t.2 | none => 0
  let S := (List.range n).map (fun m =>
    ∑ k ∈ range (m+1), ∑ j ∈ range (k+1), selEta dkmax hasAdd eta (k+1) j)
  pure (" ".intercalate (S.map showQI))

def step (line : String) : String :=
  match words line with
  | ["tcut", t, d] => (match parseRat? t, parseRat? d with
      | some t, some d => toString (tcut_to_dkmax t d)
      | _, _ => "bad-op")
  | "inflargs" :: rest => (inflArgs rest).getD "bad-op"
  | "exponent" :: rest => (exponents rest).getD "bad-op"
  | "ssum" :: rest => (ssum rest).getD "bad-op"
  | _ => "bad-op"

def main : IO Unit := mainLoop step
