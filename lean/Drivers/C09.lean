/- Driver for C09: runs the mean-field models (`mftIter`, `cdwfRun`, `hamArgs`) of
   Model/MeanField.lean — the definitions the theorems of Props/C09.lean are about — on
   concrete inputs: exact Gaussian rationals for the field, the binary64 model for times.

   The system part is supplied as data: the reduced states at every grid point (logged from the
   real run) form a table, the joint state is the grid index, `obs` the identity, and the equation
   of motion is the family
     f(t, ρ, a) = c0 + c1·t + c2·t² + c3·a + c4·a·t + Σ_j w_j ρ_j      (ρ = all states, flattened).

   ops (one per line):
     run <mft|cdwf> <all|final> <nsys> <start> <dt> <N> <a0> | c0 c1 c2 c3 c4 | w_0 … w_{L-1} | table…
         -> "ok|<fields>|<calls>"  with  fields = QI …,  calls = t:idx:QI …   or  "raises"
     ham <start> <dt> <step> <a> <d>   -> "t1 f1 t2 f2 g1 l1 g2 l2"  (Hamiltonian time/field, then the
                                          rate / Lindblad-operator times of the two half steps)
-/
import OQuPyVerif.Model.ProtoQI
import OQuPyVerif.Model.MeanField
open OQuPyVerif OQuPyVerif.Proto OQuPyVerif.MeanField

/-- division of Gaussian rationals (only `/ 2` occurs) -/
instance : Div QI := ⟨fun a b =>
  let n := b.re * b.re + b.im * b.im
  ⟨(a.re * b.re + a.im * b.im) / n, (a.im * b.re - a.re * b.im) / n⟩⟩

def mkSys (nsys : Nat) (start dt : Rat) (c : Array QI) (w : Array QI) (tab : Array QI) : Sys Nat QI Nat Unit where
  eom := fun t idx a =>
    let tq := QI.ofRat t
    let L := w.size
    let lin := (List.range L).foldl (fun acc j => acc + w.getD j 0 * tab.getD (idx * L + j) 0) (0 : QI)
    c.getD 0 0 + c.getD 1 0 * tq + c.getD 2 0 * tq * tq + c.getD 3 0 * a + c.getD 4 0 * a * tq + lin
  props := fun _ _ _ => ()
  net := fun _ _ x => x + 1
  netPT := fun _ _ x => x + 1
  obs := fun x => x
  cast := QI.ofRat
  start := start
  dt := dt
  nsys := nsys

def showCall (c : Call Nat QI) : String := s!"{showRat c.t}:{c.states}:{showQI c.field}"

def showRun (recs : List (Nat × QI)) (calls : List (Call Nat QI)) : String :=
  "ok|" ++ " ".intercalate (recs.map (fun r => showQI r.2)) ++ "|" ++
    " ".intercalate (calls.map showCall)

def step (line : String) : String :=
  match sections (words line) with
  | [["run", meth, mode, nsys, s, dt, n, a0], cs, ws, tab] =>
    match nsys.toNat?, parseRat? s, parseRat? dt, n.toNat?, parseQI? a0, parseQIs? cs, parseQIs? ws,
        parseQIs? tab with
    | some nsys, some s, some dt, some n, some a0, some cs, some ws, some tab =>
      if cs.size != 5 || tab.size != (n + 1) * ws.size then "bad-op" else
      let M := mkSys nsys s dt cs ws tab
      if meth == "mft" then
        let r := mftIter M 0 a0 n
        let recs := if mode == "all" then r.2.1 else [((r.1.1 : Nat), r.1.2)]
        showRun recs r.2.2
      else if meth == "cdwf" then
        match cdwfRun M 0 a0 (mode == "all") n with
        | some (recs, calls) => showRun recs calls
        | none => "raises"
      else "bad-op"
    | _, _, _, _, _, _, _, _ => "bad-op"
  | [["ham", s, dt, k, a, d]] =>
    match parseRat? s, parseRat? dt, parseInt? k, parseQI? a, parseQI? d with
    | some s, some dt, some k, some a, some d =>
      " ".intercalate ((hamArgs QI.ofRat s dt k a d).map (fun p => s!"{showRat p.1} {showQI p.2}")
        ++ (dissArgs s dt k).map (fun p => s!"{showRat p.1} {showRat p.2}"))
    | _, _, _, _, _ => "bad-op"
  | _ => "bad-op"

def main : IO Unit := mainLoop step
