/- Driver for C19: evaluates the generated API table / progress protocols and the
   interleaving model of Model/Progress on lines from stdin.

   table                                  -> file|func|index|line|style ; ...
   proto <kind>                           -> enter=op:line,... ;update=... ;exit=... ;ps=...
   api <func> <index> <kind> <N> <fail|none>
                                          -> calls=e,u,x exit=<0|1> alive=<n> blocks=<0|1> tm=<..> fin=<0|1> prop=<0|1>
   replay <kind> <guarded 0|1> <nupd> <A> <A> ...   (A = M | F<i> | T<i>)
                                          -> snap0 | A:snap1 | ...     (or ... | A:disabled)
   explore <kind> <guarded> <nupd> <maxfire> <cap>
                                          -> n=<schedules> leaks=<leaking> first=<schedule|->
   counter                                -> the legacy race schedule and its final snapshot
   spawns                                 -> file|func|line|kind|scope ; ...
   pool <func> <line> <maxWorkers> <n> <fail|none>
                                          -> shutdown=<0|1> leak=<0|1>
   kinds: the keys of PROGRESS_DICT (generated), plus `legacy` and `locked` (model literals) -/
import OQuPyVerif.Model.Proto
import OQuPyVerif.Model.Progress
import OQuPyVerif.Generated.ProgressGuard
open OQuPyVerif OQuPyVerif.Proto OQuPyVerif.Progress OQuPyVerif.Generated.ProgressGuard

def opName : MicroOp → String
  | .print => "print"
  | .cancelTimer => "cancelTimer"
  | .newTimer .update => "newTimer.update"
  | .newTimer .printStatus => "newTimer.printStatus"
  | .setDaemon => "setDaemon"
  | .startTimer => "startTimer"
  | .setStep => "setStep"
  | .setActive true => "setActive.true"
  | .setActive false => "setActive.false"
  | .acquire => "acquire"
  | .release => "release"
  | .returnUnlessActive => "returnUnlessActive"

def styleName : GuardStyle → String
  | .withStmt => "with"
  | .tryFinally => "tryfinally"
  | .bare => "bare"

def methodChar : Method → String
  | .enter => "e"
  | .update => "u"
  | .exit => "x"

def noLines : ProtocolLines := { enter := [], update := [], exit := [], printStatus := [] }

def protoOf (kind : String) : Option (Protocol × ProtocolLines) :=
  if kind == "legacy" then some (legacyProtocol, noLines)
  else if kind == "locked" then some (lockedProtocol, noLines)
  else (progressKinds.find? (fun k => k.1 == kind)).map (fun k => k.2)

def showOps (ops : List MicroOp) (lines : List Nat) : String :=
  ",".intercalate ((ops.zip (lines ++ List.replicate ops.length 0)).map
    (fun p => s!"{opName p.1}:{p.2}"))

def stChar (r : TimerRec) : String :=
  let c := match r.st with
    | .created => "c"
    | .createdCancelled => "x"
    | .pending => "p"
    | .running => "r"
    | .done => "d"
    | .cancelled => "k"
  if r.daemon then c.toUpper else c

def actName : Action → String
  | .main => "M"
  | .fire i => s!"F{i}"
  | .timer i => s!"T{i}"

def parseAct (w : String) : Option Action :=
  if w == "M" then some .main
  else if w.startsWith "F" then (w.drop 1).toNat?.map Action.fire
  else if w.startsWith "T" then (w.drop 1).toNat?.map Action.timer
  else none

def headName : List MicroOp → String
  | [] => "-"
  | op :: _ => opName op

def snapshot (P : Protocol) (s : State) : String :=
  let tm := String.join (s.timers.map stChar)
  let cur := match s.cur with | some j => toString j | none => "-"
  let run := (List.range s.timers.length).filterMap (fun i =>
    match s.timers[i]? with
    | some r => if r.st == .running then some s!"r{i}={headName r.code}" else none
    | none => none)
  let en := " ".intercalate ((enabledActions P s).map actName)
  s!"tm={tm};cur={cur};act={if s.active then 1 else 0};lk={if s.lock.isSome then 1 else 0};" ++
    s!"mn={headName s.mainCode}/{s.mainTodo.length};{",".intercalate run};en={en}"

def scriptOf (nupd : Nat) : List Method :=
  Method.enter :: (List.replicate nupd Method.update ++ [Method.exit])

def replayGo (P : Protocol) : State → List String → List String → List String
  | _, [], acc => acc.reverse
  | s, w :: ws, acc =>
    match parseAct w with
    | none => ("bad-op" :: acc).reverse
    | some a =>
      match step P s a with
      | none => (s!"{w}:disabled" :: acc).reverse
      | some s' => replayGo P s' ws (s!"{w}:{snapshot P s'}" :: acc)

def leaking (r : List Action × State) : Bool :=
  r.2.mainFinished && !r.2.anyRunning && !r.2.aliveTimers.isEmpty

def showSched (as : List Action) : String := ",".intercalate (as.map actName)

def kindName : SpawnKind → String
  | .threadPool => "threadPool"
  | .processPool => "processPool"
  | .thread => "thread"
  | .timer => "timer"
  | .process => "process"
  | .other => "other"

def scopeName : SpawnScope → String
  | .withStmt => "with"
  | .progressProtocol => "progress"
  | .stored => "stored"
  | .localVar => "local"
  | .other => "other"

def stepLine (line : String) : String :=
  match words line with
  | ["spawns"] =>
    ";".intercalate (spawnTable.map (fun s =>
      s!"{s.file}|{s.func}|{s.line}|{kindName s.kind}|{scopeName s.scope}"))
  | ["pool", func, ln, mw, n, fail] =>
    match ln.toNat?, mw.toNat?, n.toNat? with
    | some ln, some mw, some n =>
      let failO : Option (Option Nat) :=
        if fail == "none" then some none else fail.toNat?.map some
      match spawnTable.find? (fun s => s.func == func && s.line == ln), failO with
      | some s, some fl =>
        let p := runPool s.scope mw n fl
        s!"shutdown={if p.shut then 1 else 0} leak={if p.workers > 0 then 1 else 0}"
      | _, _ => "bad-op"
    | _, _, _ => "bad-op"
  | ["table"] =>
    ";".intercalate (apiTable.map (fun u =>
      s!"{u.file}|{u.func}|{u.index}|{u.line}|{styleName u.style}"))
  | ["proto", kind] =>
    match protoOf kind with
    | some (P, L) =>
      s!"enter={showOps P.enter L.enter};update={showOps P.update L.update};" ++
      s!"exit={showOps P.exit L.exit};ps={showOps P.printStatus L.printStatus}"
    | none => "bad-op"
  | ["api", func, idx, kind, n, fail] =>
    match idx.toNat?, protoOf kind, n.toNat? with
    | some idx, some (P, _), some n =>
      let failO : Option (Option Nat) :=
        if fail == "none" then some none else fail.toNat?.map some
      match apiTable.find? (fun u => u.func == func && u.index == idx), failO with
      | some u, some fl =>
        let calls := apiRun u.style n fl
        let s := apiFinal P u.style n fl
        s!"calls={",".intercalate (calls.map methodChar)} " ++
        s!"exit={if calls.contains Method.exit then 1 else 0} " ++
        s!"alive={s.aliveTimers.length} blocks={if s.blocksExit then 1 else 0} " ++
        let truthy := match exitReturn.find? (fun k => k.1 == kind) with
          | some k => (dunderExit.value k.2).mayBeTruthy
          | none => false
        s!"tm={String.join (s.timers.map stChar)} fin={if s.mainFinished then 1 else 0} " ++
        s!"prop={if apiPropagates u.style n fl truthy then 1 else 0}"
      | _, _ => "bad-op"
    | _, _, _ => "bad-op"
  | "replay" :: kind :: g :: nupd :: acts =>
    match protoOf kind, nupd.toNat? with
    | some (P, _), some nupd =>
      if g != "0" && g != "1" then "bad-op" else
      let s0 := init (scriptOf nupd) (g == "1")
      " | ".intercalate (replayGo P s0 acts [snapshot P s0])
    | _, _ => "bad-op"
  | ["explore", kind, g, nupd, maxfire, cap] =>
    match protoOf kind, nupd.toNat?, maxfire.toNat?, cap.toNat? with
    | some (P, _), some nupd, some mf, some cap =>
      if g != "0" && g != "1" then "bad-op" else
      let rs := explore P mf 400 (init (scriptOf nupd) (g == "1")) [] cap []
      let ls := rs.filter leaking
      let first := match ls.getLast? with
        | some r => showSched r.1
        | none => "-"
      s!"n={rs.length} leaks={ls.length} first={first}"
    | _, _, _, _ => "bad-op"
  | ["counter"] =>
    s!"{showSched legacyRaceSchedule} => {snapshot legacyProtocol legacyRaceFinal}"
  | _ => "bad-op"

def main : IO Unit := mainLoop stepLine
