/- Driver for C07: evaluates the executable correlation-bookkeeping model on lines from stdin.

   spec tokens:  i:<int> | s:<a>:<b>:<c> (N = None) | l:<k,k,..> | f:<rat> | v:<rat>:<rat>
   ops:
     parse <maxStep> <start> <dt> <spec>          -> ok <k ..> | err:<kind>
     corr  <maxStep> <start> <dt> <spec> ..       -> steps=..|axes=..|tab=.. | err:<kind>
     corr2 <0|1 anti> <maxStep> <start> <dt> <specA> <specB>   -> same
     dt <rat|N user dt> <rat|N pt dt>             -> ok <axes dt> <dynamics dt> | err:<kind>
     sel <0|1 byMask> <m> <k,k,..>                -> none | <idx>:<step> ..
     order <0|1 exact> <k,k,..>                   -> 0 | 1
-/
import OQuPyVerif.Model.Proto
import OQuPyVerif.Model.Correlations
open OQuPyVerif OQuPyVerif.Proto OQuPyVerif.Correlations

def optInt? (s : String) : Option (Option Int) :=
  if s == "N" then some none else (parseInt? s).map some

def optRat? (s : String) : Option (Option Rat) :=
  if s == "N" then some none else (parseRat? s).map some

def intList? (s : String) : Option (List Int) :=
  if s == "" then some [] else (s.splitOn ",").mapM parseInt?

def spec? (tok : String) : Option TimeSpec :=
  match tok.splitOn ":" with
  | ["i", k] => (parseInt? k).map TimeSpec.int
  | ["s", a, b, c] =>
    match optInt? a, optInt? b, optInt? c with
    | some a, some b, some c => some (TimeSpec.slice a b c)
    | _, _, _ => none
  | ["l", ks] => (intList? ks).map TimeSpec.list
  | ["f", t] => (parseRat? t).map TimeSpec.float
  | ["v", t0, t1] =>
    match parseRat? t0, parseRat? t1 with
    | some t0, some t1 => some (TimeSpec.interval t0 t1)
    | _, _ => none
  | _ => none

def showErr : Err → String
  | .index => "err:index"
  | .value => "err:value"
  | .dtMissing => "err:dtMissing"
  | .dtMismatch => "err:dtMismatch"

def showInts (l : List Int) : String := ",".intercalate (l.map toString)

def showOutcome (o : Outcome) : String :=
  let steps := ";".intercalate (o.steps.map showInts)
  let axes := ";".intercalate (o.axes.map (fun t => ",".intercalate (t.map showRat)))
  let tab := " ".intercalate (o.indexTuples.map (fun ι =>
    match o.entry ι with
    | none => "nan"
    | some s => showInts s))
  s!"steps={steps}|axes={axes}|tab={tab}"

def showRes : Except Err Outcome → String
  | .error e => showErr e
  | .ok o => showOutcome o

def step (line : String) : String :=
  match words line with
  | ["parse", n, s, dt, sp] =>
    match parseInt? n, parseRat? s, parseRat? dt, spec? sp with
    | some n, some s, some dt, some sp =>
      match parseTimes n dt s sp with
      | .error e => showErr e
      | .ok l => "ok " ++ " ".intercalate (l.map toString)
    | _, _, _, _ => "bad-op"
  | "corr" :: n :: s :: dt :: sps =>
    match parseInt? n, parseRat? s, parseRat? dt, sps.mapM spec? with
    | some n, some s, some dt, some sps => showRes (corrNt n dt s sps)
    | _, _, _, _ => "bad-op"
  | ["corr2", anti, n, s, dt, spa, spb] =>
    match parseInt? n, parseRat? s, parseRat? dt, spec? spa, spec? spb with
    | some n, some s, some dt, some spa, some spb =>
      if anti == "0" || anti == "1" then
        match corr2 (anti == "1") n dt s spa spb with
        | .error e => showErr e
        | .ok o =>
          -- operators / sides of the contraction calls (made iff something is written)
          let ops := if anti == "1" then Generated.CorrTimes.anti_operators
                     else Generated.CorrTimes.ordered_operators
          let ords := if anti == "1" then Generated.CorrTimes.anti_ops_order
                      else Generated.CorrTimes.ordered_ops_order
          let sig := ",".intercalate ((ops.zip ords).map (fun p => p.1 ++ ":" ++ p.2))
          showOutcome o ++ "|call=" ++ (if o.writes.isEmpty then "" else sig)
      else "bad-op"
    | _, _, _, _, _ => "bad-op"
  | ["dt", u, p] =>
    match optRat? u, optRat? p with
    | some u, some p =>
      match dtFlow u p with
      | .error e => showErr e
      | .ok (a, d) => s!"ok {showRat a} {showRat d}"
    | _, _ => "bad-op"
  | ["sel", bm, m, ks] =>
    match parseInt? m, intList? ks with
    | some m, some ks =>
      if bm == "0" || bm == "1" then
        match lastSelWith (bm == "1") m ks with
        | none => "none"
        | some sel => " ".intercalate (sel.map (fun p => s!"{p.1}:{p.2}"))
      else "bad-op"
    | _, _ => "bad-op"
  | ["order", ex, ks] =>
    match intList? ks with
    | some ks => if ex == "0" || ex == "1" then (if orderOkWith (ex == "1") ks then "1" else "0")
                 else "bad-op"
    | none => "bad-op"
  | _ => "bad-op"

def main : IO Unit := mainLoop step
