/- Driver for C11 (Gibbs TEMPO): evaluates the model of Model/Gibbs.lean with the orientation
   and loop data regenerated from the source.

   data d n | q | init | G_0 | … | G_{n-1}     (tables row-major d×d, "re,im" exact rationals;
                                                G_j[x,y] = factor between an earlier site in state
                                                x and a later one in state y at distance j)
        -> backendData for k = 0..n, each d·d numbers [r,l] row-major, separated by " ; "
   stored d n | q | init(ignored) | G_0 | …   -> what GibbsTempo stores (k = 0..n)
   hyp d n | q | init | G_0 | …               -> squared residuals of the theorems' hypotheses on these
        tensors: "herm <q Hermitian> real <G real> sym <G symmetric> diag <q off-diagonal>
                  outherm <stored k Hermitian, max over k>"
   cells e_0 … e_n                            -> coeffs(0..n-1) from η grid values (exact)
   dt T n                                     -> time_step_length
   unique t_0 t_1 …                           -> model of TIBaseBackend._unique: indices ; projection ; column sums
   hist n calls dt                            -> step ; len(data) ; label times ; data indices ; state index -/
import OQuPyVerif.Model.ProtoQI
import OQuPyVerif.Lemmas.GibbsSpec
open OQuPyVerif OQuPyVerif.Proto OQuPyVerif.PathSum OQuPyVerif.Gibbs
open OQuPyVerif.Generated.GibbsLoop

structure Case where
  d : Nat
  n : Nat
  q : Array QI
  init : Array QI
  gs : List (Array QI)

def parseCase (ws : List String) : Option Case := do
  let secs := sections ws
  let hd ← secs[0]?
  let d ← (← hd[0]?).toNat?
  let n ← (← hd[1]?).toNat?
  let q ← parseQIs? (← secs[1]?)
  let init ← parseQIs? (← secs[2]?)
  let gs ← (secs.drop 3).mapM parseQIs?
  if q.size != d * d || init.size != d * d || gs.length != n || gs.any (fun g => g.size != d * d)
  then none else pure { d, n, q, init, gs }

def Case.G (c : Case) : Nat → Nat → Nat → QI := fun j => tab2 c.d (c.gs.getD j #[])

def showStates (d : Nat) (fs : List (Nat → Nat → QI)) : String :=
  " ; ".intercalate (fs.map (fun f =>
    " ".intercalate ((List.range (d * d)).map (fun idx => showQI (f (idx / d) (idx % d))))))

def runData (c : Case) : String :=
  showStates c.d ((List.range (c.n + 1)).map (fun k =>
    backendData c.d genOrient (tab2 c.d c.q) c.G (tab2 c.d c.init) k))

def runStored (c : Case) : String :=
  showStates c.d ((List.range (c.n + 1)).map (fun k => stored c.d genOrient (tab2 c.d c.q) c.G k))

def normSq (z : QI) : Rat := z.re * z.re + z.im * z.im
def maxR (l : List Rat) : Rat := l.foldl (fun a b => if a < b then b else a) 0

def runHyp (c : Case) : String :=
  let d := c.d
  let q := tab2 d c.q
  let idx := List.range d
  let pairs := idx.flatMap (fun a => idx.map (fun b => (a, b)))
  let herm := maxR (pairs.map (fun p => normSq (star (q p.2 p.1) - q p.1 p.2)))
  let real := maxR ((List.range c.n).flatMap (fun j => pairs.map (fun p =>
    normSq (star (c.G j p.1 p.2) - c.G j p.1 p.2))))
  let sym := maxR ((List.range c.n).flatMap (fun j => pairs.map (fun p =>
    normSq (c.G j p.2 p.1 - c.G j p.1 p.2))))
  let diag := maxR (pairs.map (fun p => if p.1 = p.2 then 0 else normSq (q p.1 p.2)))
  let outs := (List.range (c.n + 1)).map (fun k =>
    tabulate2 d d (stored d genOrient q c.G k))
  let outherm := maxR (outs.flatMap (fun t => pairs.map (fun p =>
    normSq (star (tab2 d t p.2 p.1) - tab2 d t p.1 p.2))))
  s!"herm {showRat herm} real {showRat real} sym {showRat sym} diag {showRat diag} outherm {showRat outherm}"

def runCells (es : List Rat) : String :=
  let e : Int → Rat := fun j => es.getD j.toNat 0
  showRats ((List.range (es.length - 1)).map (fun k => genCoeff e k))

def runHist (n : Int) (calls : Nat) (dt : Rat) : String :=
  let rec go : Nat → GObj → GObj
    | 0, o => o
    | k+1, o => go k (gCompute genSpec n o)
  let o := go calls (GObj.fresh genSpec)
  let st := match o.step with | some k => toString k | none => "none"
  let last := match gState o with | some p => toString p.2 | none => "none"
  s!"{st};{o.dataLen};{showRats (o.dyn.map (fun p => gibbs_time dt p.1))};{" ".intercalate (o.dyn.map (fun p => toString p.2))};{last}"

/-- "unique t_0 t_1 …" (tokens compared as strings; equal numbers have equal tokens):
    indices ; projection rows separated by " | " ; column sums -/
def runUnique (toks : List String) : String :=
  let idx := uniqIndices toks
  let rows := uniqProj toks
  let cols := (List.range toks.length).map (fun a => classCount toks a)
  let sh (l : List Nat) : String := " ".intercalate (l.map toString)
  s!"{sh idx} ; {" | ".intercalate (rows.map sh)} ; {sh cols}"

def step (line : String) : String :=
  match words line with
  | "unique" :: rest => if rest.isEmpty then "bad-op" else runUnique rest
  | "cells" :: rest =>
    match rest.mapM parseRat? with
    | some es => if es.length < 2 then "bad-op" else runCells es
    | none => "bad-op"
  | ["dt", t, n] =>
    match parseRat? t, parseInt? n with
    | some t, some n => showRat (time_step_length t n)
    | _, _ => "bad-op"
  | ["hist", n, calls, dt] =>
    match parseInt? n, calls.toNat?, parseRat? dt with
    | some n, some calls, some dt => runHist n calls dt
    | _, _, _ => "bad-op"
  | op :: rest =>
    match parseCase rest with
    | some c =>
      if op == "data" then runData c
      else if op == "stored" then runStored c
      else if op == "hyp" then runHyp c
      else "bad-op"
    | none => "bad-op"
  | _ => "bad-op"

def main : IO Unit := mainLoop step
