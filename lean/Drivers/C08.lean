/- Driver for C08 (adjoint gradient).  One line per case:

   grad E L N M | rho0 | tgt | dims_e (N+1 ints), e < E | T_{e,k} (k < N), env-major |
        cap_{e,k} (k ≤ N), env-major | A_0 | B_0 | … | A_{N-1} | B_{N-1} |
        for k < N:  dA_{k,0} … dA_{k,M-1}  dB_{k,0} … dB_{k,M-1}

   E ∈ {1,2} environments, L = d², N steps, M parameters; T_{e,k} is the flat array of shape
   (D_k, D_{k+1}, L, L) (axes of get_mpo_tensor); A_k / B_k first / second half-step propagator.

   Answer:  states | forward tensors f_0 … f_{N-1} | backward tensors (after 0 … N-1 iterations
            of the backward loop) | adjoint tensors of steps 0 … N-1 (axes a,b,c,d) |
            gradient rows 0 … 2N-1 (M entries each)        (items inside a group separated by ";")

   Every tensor is produced by the model's own definitions (`codeSys`, `applyPtMpos`, `backEnvs`,
   `codeDeriv1/2`, `chainEven/Odd`, environment order and axis numbers as regenerated); the
   tensor after each operation is tabulated once (`codeFwd (k+1) = codeStep k (codeFwd k)` and
   `codeBwd (m+1) = codeBackStep (N-m-1) (codeBwd m)` hold by definition, `codeStep`/`codeBackStep`
   are by definition the compositions evaluated here). -/
import OQuPyVerif.Model.ProtoQI
import OQuPyVerif.Model.Gradient
open OQuPyVerif OQuPyVerif.Proto OQuPyVerif.Grad OQuPyVerif.Generated.GradWiring Finset

/-- how joint bond configurations are laid out in a flat array (numpy order) -/
structure Layout (ι : Type) where
  cfgs : Nat → List ι
  idx : Nat → ι → Nat        -- position of a configuration at time k; ≥ count if out of range

def tabJ {ι : Type} (lay : Layout ι) (L k : Nat) (f : ι → Nat → QI) : Array QI :=
  ((lay.cfgs k).flatMap (fun β => (List.range L).map (fun s => f β s))).toArray

def lookJ {ι : Type} (lay : Layout ι) (L k : Nat) (arr : Array QI) : ι → Nat → QI :=
  fun β s => if s < L then arr.getD (lay.idx k β * L + s) 0 else 0

def showArr (a : Array QI) : String := " ".intercalate (a.toList.map showQI)
def showGroup (xs : List (Array QI)) : String := " ; ".intercalate (xs.map showArr)

def tens4 (L : Nat) (f : Nat → Nat → Nat → Nat → QI) : Array QI :=
  Array.ofFn (n := L*L*L*L) (fun idx =>
    let v := idx.val
    f (v / (L*L*L)) (v / (L*L) % L) (v / L % L) (v % L))

structure Case where
  L : Nat
  N : Nat
  M : Nat
  rho0 : Nat → QI
  tgt : Nat → QI
  A : Nat → Nat → Nat → QI
  B : Nat → Nat → Nat → QI
  dA : Nat → Nat → Nat → Nat → QI      -- step, parameter
  dB : Nat → Nat → Nat → Nat → QI

def runWith {ι : Type} (c : Case) (lay : Layout ι) (envs : Nat → List (EnvMpo ι QI))
    (capJ : Nat → ι → QI) (X0 tgt : ι → Nat → QI)
    (deriv : Nat → (ι → Nat → QI) → (ι → Nat → QI) → Tensor4 QI) : String :=
  let L := c.L
  let N := c.N
  -- forward pass
  let rec fwd (k fuel : Nat) (X : Array QI) (acc : List (Array QI)) : List (Array QI) :=
    match fuel with
    | 0 => (X :: acc).reverse
    | fuel+1 =>
      let Xf := lookJ lay L k X
      let X1 := tabJ lay L k (codeSys L (c.A k) Xf)
      let X2 := tabJ lay L (k+1) (applyPtMpos L false (envs k) (lookJ lay L k X1))
      let X3 := tabJ lay L (k+1) (codeSys L (c.B k) (lookJ lay L (k+1) X2))
      fwd (k+1) fuel X3 (X :: acc)
  let Xs := fwd 0 N (tabJ lay L 0 X0) []          -- X_0 … X_N
  let states := (List.range (N+1)).map (fun n =>
    let Xf := lookJ lay L n (Xs.getD n #[])
    ((List.range L).map (fun s => ((lay.cfgs n).map (fun β => capJ n β * Xf β s)).foldl (· + ·) 0)).toArray)
  -- backward pass: Ys[m] = node after m iterations (lives at time N-m)
  let rec bwd (m fuel : Nat) (Y : Array QI) (acc : List (Array QI)) : List (Array QI) :=
    match fuel with
    | 0 => (Y :: acc).reverse
    | fuel+1 =>
      let k := N - m - 1
      let Yf := lookJ lay L (k+1) Y
      let Y1 := tabJ lay L (k+1) (codeSys L (transposeM (c.B k)) Yf)
      let Y2 := tabJ lay L k (applyPtMpos L bwdEnvReversed (backEnvs (envs k)) (lookJ lay L (k+1) Y1))
      let Y3 := tabJ lay L k (codeSys L (transposeM (c.A k)) (lookJ lay L k Y2))
      bwd (m+1) fuel Y3 (Y :: acc)
  let Ys := bwd 0 (N-1) (tabJ lay L N tgt) []     -- m = 0 … N-1
  -- adjoint tensors and chain rule
  let derivs := (List.range N).map (fun k =>
    tens4 L (deriv k (lookJ lay L k (Xs.getD k #[])) (lookJ lay L (k+1) (Ys.getD (N-k-1) #[]))))
  let grads := (List.range N).flatMap (fun k =>
    let Dv : Tensor4 QI := fun a b c d => (derivs.getD k #[]).getD (((a*L+b)*L+c)*L+d) 0
    [ ((List.range c.M).map (fun j => chainEven L Dv (c.A k) (c.B k) (c.dA k j) (c.dB k j))).toArray,
      ((List.range c.M).map (fun j => chainOdd L Dv (c.A k) (c.B k) (c.dA k j) (c.dB k j))).toArray ])
  " | ".intercalate [showGroup states, showGroup (Xs.take N), showGroup Ys, showGroup derivs,
                     showGroup grads]

def run (ws : List String) : Option String := do
  let secs := sections ws
  let hd ← secs[0]?
  let E ← (← hd[0]?).toNat?
  let L ← (← hd[1]?).toNat?
  let N ← (← hd[2]?).toNat?
  let M ← (← hd[3]?).toNat?
  if E = 0 ∨ E > 2 ∨ N = 0 then none
  let rho0 ← parseQIs? (← secs[1]?)
  let tgt ← parseQIs? (← secs[2]?)
  let dims ← ((secs.drop 3).take E).mapM (fun s => s.mapM String.toNat?)
  let Ts ← ((secs.drop (3+E)).take (E*N)).mapM parseQIs?
  let caps ← ((secs.drop (3+E+E*N)).take (E*(N+1))).mapM parseQIs?
  let ABs ← ((secs.drop (3+E+E*N+E*(N+1))).take (2*N)).mapM parseQIs?
  let dABs ← ((secs.drop (3+E+E*N+E*(N+1)+2*N)).take (2*N*M)).mapM parseQIs?
  if dims.length ≠ E ∨ Ts.length ≠ E*N ∨ caps.length ≠ E*(N+1) ∨ ABs.length ≠ 2*N
      ∨ dABs.length ≠ 2*N*M then none
  let D : Nat → Nat → Nat := fun e k => (dims.getD e []).getD k 0
  let T : Nat → Nat → Tensor4 QI := fun e k b b' i o =>
    if b < D e k ∧ b' < D e (k+1) ∧ i < L ∧ o < L then
      (Ts.getD (e*N+k) #[]).getD (((b * D e (k+1) + b') * L + i) * L + o) 0 else 0
  let cap : Nat → Nat → Nat → QI := fun e k b => if b < D e k then (caps.getD (e*(N+1)+k) #[]).getD b 0 else 0
  let mat : Array QI → Nat → Nat → QI := fun a i j => if i < L ∧ j < L then a.getD (i*L+j) 0 else 0
  let c : Case := {
    L := L, N := N, M := M, rho0 := tab1 rho0, tgt := tab1 tgt,
    A := fun k => mat (ABs.getD (2*k) #[]), B := fun k => mat (ABs.getD (2*k+1) #[]),
    dA := fun k j => mat (dABs.getD (2*M*k + j) #[]),
    dB := fun k j => mat (dABs.getD (2*M*k + M + j) #[]) }
  if E = 1 then
    let lay : Layout Nat := {
      cfgs := fun k => List.range (D 0 k),
      idx := fun k β => if β < D 0 k then β else D 0 k }
    pure (runWith c lay (envs1 (D 0) (T 0)) (fun n β => cap 0 n β) (init1 c.rho0) (tgt1 c.tgt)
      (fun k X Y => codeDeriv1 (D 0 k) (D 0 (k+1)) (T 0 k) X Y))
  else
    let lay : Layout (Nat × Nat) := {
      cfgs := fun k => (List.range (D 0 k)).flatMap (fun b0 => (List.range (D 1 k)).map (fun b1 => (b0, b1))),
      idx := fun k β => if β.1 < D 0 k ∧ β.2 < D 1 k then β.1 * D 1 k + β.2 else D 0 k * D 1 k }
    pure (runWith c lay (envs2 (D 0) (D 1) (T 0) (T 1)) (fun n β => cap 0 n β.1 * cap 1 n β.2)
      (init2 c.rho0) (tgt2 c.tgt)
      (fun k X Y => codeDeriv2 L (D 0 k) (D 1 k) (D 0 (k+1)) (D 1 (k+1)) (T 0 k) (T 1 k) X Y))

/-- `wiring`: the regenerated facts the harness reports in the evidence -/
def wiringLine : String :=
  s!"bwdEnvReversed={bwdEnvReversed} bwdJoinAligned={bwdJoinAligned} applyHasReverse={applyHasReverse} " ++
  s!"backSwaps={backSwaps} sysOpActsAsMatrix={sysOpActsAsMatrix}"

def step (line : String) : String :=
  match words line with
  | "grad" :: rest => (run rest).getD "bad-op"
  | ["wiring"] => wiringLine
  | _ => "bad-op"

def main : IO Unit := mainLoop step
