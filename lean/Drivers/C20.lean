/- Driver for C20: evaluates the Aliasing model (numpy layout rules, generated array sites,
   memoised-object histories over the generated tables) on lines from stdin. -/
import OQuPyVerif.Model.Proto
import OQuPyVerif.Model.Aliasing
import OQuPyVerif.Generated.CacheKeys
open OQuPyVerif OQuPyVerif.Proto OQuPyVerif.Aliasing OQuPyVerif.Generated.CacheKeys

def csvNat (s : String) : Option (List Nat) :=
  if s == "-" then some [] else (s.splitOn ",").mapM String.toNat?

def csvInt (s : String) : Option (List Int) :=
  if s == "-" then some [] else (s.splitOn ",").mapM String.toInt?

def showCsv {α} [ToString α] (l : List α) : String :=
  if l.isEmpty then "-" else ",".intercalate (l.map toString)

def showErr : Err → String
  | .sizeMismatch => "size" | .notInPlace => "notinplace" | .readOnly => "readonly" | .badRef => "badref"

def parsePars (s : String) : String → Int :=
  let kv := (if s == "-" then [] else s.splitOn ",").filterMap (fun e =>
    match e.splitOn ":" with
    | [k, v] => v.toInt?.map (fun n => (k, n))
    | _ => none)
  fun name => (kv.lookup name).getD 0

def showArr (a : Arr) : String :=
  s!"{a.buf}/{showCsv a.shape}/{showCsv a.strides}/{if a.writeable then 1 else 0}/{showCsv a.vals}"

def showL (a : LObj) : String := s!"{showCsv a.shape}/{showCsv a.vals}"

def npOp (op : String) (w : Bool) (sh : List Nat) (st : List Int) (ns : List Nat) : String :=
  let a : Arr := { buf := 0, shape := sh, strides := st, writeable := w, vals := [] }
  let flags := s!"{if isCContig sh st then 1 else 0}{if isFContig sh st then 1 else 0}"
  if op == "flags" then flags
  else if op == "reshape" || op == "setshape" then
    if prodN ns ≠ prodN sh then "err size"
    else match reshapeView? a ns with
      | some s => s!"view {showCsv s}"
      | none => if op == "reshape" then s!"copy {showCsv (cStrides ns)}" else "err notinplace"
  else if op == "array" || op == "copyK" then s!"copy {showCsv (kOrderStrides sh st)}"
  else if op == "arrayC" then s!"copy {showCsv (cStrides sh)}"
  else "bad-op"

def siteOp (idx : Nat) (w : Bool) (sh : List Nat) (st : List Int) (vals : List Int)
    (par : String → Int) : String :=
  match arraySites[idx]? with
  | none => "bad-op"
  | some s =>
    let a : Arr := { buf := 0, shape := sh, strides := st, writeable := w, vals := vals }
    let c : Ctx := { inShape := sh, par := par }
    let safe := if siteSafe s then 1 else 0
    let lres := match runL c (initL sh vals) s.ops with
      | .ok ls => "ok " ++ " ".intercalate (ls.map showL)
      | .error (.err e) => "err " ++ showErr e
      | .error .layoutDependent => "layout-dependent"
    match runA c (initA a) s.ops with
    | .error e => s!"safe={safe} | err {showErr e} | {lres}"
    | .ok st' =>
      let same := if st'.objs[0]? == some a then 1 else 0
      let wr := if st'.written.contains 0 then 1 else 0
      s!"safe={safe} | ok same={same} written0={wr} {" ".intercalate (st'.objs.map showArr)} | {lres}"

/-! memo histories -/

def findSite (cls method : String) : Option Nat :=
  memoSites.findIdx? (fun s => s.cls == cls && s.method == method)

def parseParams (s : String) : Params :=
  (if s == "-" then [] else s.splitOn ",").filterMap (fun e =>
    match e.splitOn "=" with
    | [k, v] => v.toInt?.map (fun n => (k, n))
    | _ => none)

def showOut (o : List Val × Args) : String := showCsv o.1

def memoStep (st : MState (List Val × Args)) (tok : String) : MState (List Val × Args) × String :=
  match words tok with
  | ["new", cls, ps] =>
    let id := st.heap.length
    ((stepM memoSites (freeBody memoSites) st (.new cls (parseParams ps))).1, s!"id={id}")
  | ["copy", src, site] =>
    match src.toNat?, site.toNat? with
    | some src, some site =>
      match copySites[site]? with
      | some cs =>
        let id := copyTargetS st src cs.kind
        ((stepM memoSites (freeBody memoSites) st (.copy src cs.kind)).1, s!"id={id}")
      | none => (st, "bad-op")
    | _, _ => (st, "bad-op")
  | ["set", i, a, v] =>
    match i.toNat?, v.toInt? with
    | some i, some v => ((stepM memoSites (freeBody memoSites) st (.setParam i a v)).1, "ok")
    | _, _ => (st, "bad-op")
  | ["eval", i, method, xs] =>
    match i.toNat?, csvInt xs with
    | some i, some xs =>
      match st.heap[i]? with
      | none => (st, "bad-op")
      | some o =>
        match findSite o.cls method with
        | none => (st, "bad-op")
        | some k =>
          let hit := (siteAt memoSites k).cached &&
            (st.cache.lookup (keyOf memoSites st.heap i k xs)).isSome
          let r := stepM memoSites (freeBody memoSites) st (.eval i k xs)
          let spec := freeBody memoSites k (specEnv st.heap i) xs
          match r.2 with
          | some out =>
            let tag := if (siteAt memoSites k).cached && (siteAt memoSites k).placement == .instance
              then "inst" else if hit then "hit" else "miss"
            (r.1, s!"{tag} {showOut out} spec {showOut spec}")
          | none => (st, "bad-op")
    | _, _ => (st, "bad-op")
  | _ => (st, "bad-op")

/-- object references in the tokens are *handles*: the k-th `new`/`copy` token defines handle k
    (two handles may denote one object when a copy site hands out a kept object) -/
def memoRun (toks : List String) : String :=
  let r := toks.foldl (fun (acc : MState (List Val × Args) × List Nat × List String) tok =>
    let (st, handles, outs) := acc
    let obj (h : String) : String := match h.toNat? with
      | some h => toString (handles.getD h 1000000)
      | none => "x"
    let tok' := match words tok with
      | ["copy", src, site] => s!"copy {obj src} {site}"
      | ["set", i, a, v] => s!"set {obj i} {a} {v}"
      | ["eval", i, m, xs] => s!"eval {obj i} {m} {xs}"
      | _ => tok
    let (st', out) := memoStep st tok'
    let handles' := if out.startsWith "id=" then
        handles ++ [((out.drop 3).toNat?).getD 1000000] else handles
    (st', handles', outs ++ [out])) (initM, [], [])
  ";".intercalate r.2.2

/-! `derived <site> init;mut 5;init`: the source value the attribute was computed from, per init -/
def derivedRun (site : Nat) (toks : List String) : String :=
  match derivedStores[site]? with
  | none => "bad-op"
  | some s =>
    let r := toks.foldl (fun (acc : DState Val × List String) tok =>
      match words tok with
      | ["init"] =>
        let st' := stepD s.guard (fun v => v) acc.1 .init
        (st', acc.2 ++ [toString (st'.derived.getD 0)])
      | ["mut", v] =>
        match v.toInt? with
        | some v => (stepD s.guard (fun v => v) acc.1 (.mutate v), acc.2 ++ ["ok"])
        | none => (acc.1, acc.2 ++ ["bad-op"])
      | _ => (acc.1, acc.2 ++ ["bad-op"])) ({ source := 1, derived := none }, [])
    ";".intercalate r.2

def tables : String :=
  let ms := memoSites.map (fun s =>
    s!"{s.cls}.{s.method}:cached={s.cached}:key={showCsv s.keyAttrs}:reads={showCsv (s.reads.map (fun r => r.attr ++ "@" ++ (match r.kind with | .direct => "d" | .closure => "c" | .frozen => "f")))}:ok={siteOK isPublic s}")
  let cs := copySites.map (fun c => s!"{c.cls}.{c.method}:{repr c.kind}:ok={copyOK c}")
  let as := arraySites.map (fun s => s!"{s.func}:{s.param}:rank={s.rank}:safe={siteSafe s}")
  let gs := argStores.map (fun s =>
    s!"{s.func}:{s.param}:{match s.kind with | .none => "none" | .content => "content" | .identity => "identity"}:ok={argStoreOK s}")
  let rs := returnSites.map (fun s =>
    s!"{s.func}:{match s.kind with | .fresh => "fresh" | .cached => "cached" | .constant => "constant" | .argument => "argument"}:ok={returnOK s}")
  " ".intercalate ms ++ " || " ++ " ".intercalate cs ++ " || " ++ " ".intercalate as
    ++ " || " ++ " ".intercalate gs ++ " || " ++ " ".intercalate rs
    ++ " || " ++ " ".intercalate (derivedStores.map (fun s =>
      s!"{s.func}:{s.attr}:{match s.guard with | .always => "always" | .onlyIfUnset => "onlyIfUnset"}:ok={derivedOK s}"))
    ++ " || " ++ " ".intercalate (getterStores.map (fun s =>
      s!"{s.func}:{s.attr}:used={showCsv s.used}:keyed={showCsv s.keyedOn}:ok={getterOK s}"))

/-! `ret <site> call;write 0 9;call`: per call `value@buffer` -/
def retRun (site : Nat) (toks : List String) : String :=
  match returnSites[site]? with
  | none => "bad-op"
  | some s =>
    let r := toks.foldl (fun (acc : RState × List String) tok =>
      match words tok with
      | ["call"] =>
        let st' := stepR s.kind 1 acc.1 .call
        (st'.1, acc.2 ++ [s!"{(st'.2).getD 0}@{st'.1.results.getLast?.getD 0}"])
      | ["write", r, v] =>
        match r.toNat?, v.toInt? with
        | some r, some v => ((stepR s.kind 1 acc.1 (.write r v)).1, acc.2 ++ ["ok"])
        | _, _ => (acc.1, acc.2 ++ ["bad-op"])
      | _ => (acc.1, acc.2 ++ ["bad-op"])) (initR, [])
    ";".intercalate r.2

/-! histories of calls with caller-owned tables: `args <site> new 1,2;call 0;mut 0 7,2;call 0`
    answers, per call, with the table values the returned result was computed from -/

def argStep (kind : ArgKeyKind) (st : TState (List Val)) (tok : String) : TState (List Val) × String :=
  match words tok with
  | ["new", c] =>
    match csvInt c with
    | some c => ((stepT kind (fun x => x) st (.newTable c)).1, s!"id={st.tables.length}")
    | none => (st, "bad-op")
  | ["mut", t, c] =>
    match t.toNat?, csvInt c with
    | some t, some c => ((stepT kind (fun x => x) st (.mutate t c)).1, "ok")
    | _, _ => (st, "bad-op")
  | ["call", t] =>
    match t.toNat? with
    | some t =>
      let r := stepT kind (fun x => x) st (.call t)
      match r.2 with
      | some out => (r.1, showCsv out)
      | none => (st, "bad-op")
    | none => (st, "bad-op")
  | _ => (st, "bad-op")

def argRun (site : Nat) (toks : List String) : String :=
  match argStores[site]? with
  | none => "bad-op"
  | some s =>
    let r := toks.foldl (fun (acc : TState (List Val) × List String) tok =>
      let (st', out) := argStep s.kind acc.1 tok
      (st', acc.2 ++ [out])) (initT, [])
    ";".intercalate r.2

def step (line : String) : String :=
  match words line with
  | ["np", op, w, sh, st, ns] =>
    match csvNat sh, csvInt st, csvNat ns with
    | some sh, some st, some ns => npOp op (w == "1") sh st ns
    | _, _, _ => "bad-op"
  | ["site", idx, w, sh, st, vals, pars] =>
    match idx.toNat?, csvNat sh, csvInt st, csvInt vals with
    | some idx, some sh, some st, some vals => siteOp idx (w == "1") sh st vals (parsePars pars)
    | _, _, _, _ => "bad-op"
  | "memo" :: rest => memoRun ((" ".intercalate rest).splitOn ";")
  | "derived" :: site :: rest =>
    match site.toNat? with
    | some site => derivedRun site ((" ".intercalate rest).splitOn ";")
    | none => "bad-op"
  | "ret" :: site :: rest =>
    match site.toNat? with
    | some site => retRun site ((" ".intercalate rest).splitOn ";")
    | none => "bad-op"
  | "args" :: site :: rest =>
    match site.toNat? with
    | some site => argRun site ((" ".intercalate rest).splitOn ";")
    | none => "bad-op"
  | ["tables"] => tables
  | _ => "bad-op"

def main : IO Unit := mainLoop step
