/- Driver for the path-sum / TEMPO model (used by C01, C02, C04, C05, C06).
   line:  <op> L n K|none hasAdd(0/1) | rho0 | Uin | Uout | P1_1 | P2_1 | … | P1_n | P2_n | id tbl | id tbl …
   op = tempo : the n+1 states (steps 0..n), each L numbers, separated by " ; "
   op = hyp   : residuals (squared moduli, exact rationals) of the hypotheses of
                Props.C04.trace_preserved / hermitian_preserved on these very tensors:
                "tp <max over props,U> herm <max over props,U,rho0> unit <max over tables> conj <max over tables>"
   op = ptinfl: extra section "| path | path …" at the end (each path = 2n indices o_{n-1} i_{n-1} … o_0 i_0);
                answer: `ptOfInfluence` on each path. -/
import OQuPyVerif.Model.ProtoQI
import OQuPyVerif.Model.Tempo
import OQuPyVerif.Model.ProcessTensor
import OQuPyVerif.Model.Degeneracy
open OQuPyVerif OQuPyVerif.Proto OQuPyVerif.PathSum OQuPyVerif.Tempo OQuPyVerif.PT

structure Case where
  L : Nat
  n : Nat
  dkmax : Option Nat
  hasAdd : Bool
  rho0 : Array QI
  uin : Array QI
  uout : Array QI
  props : List (Array QI)
  tbls : List (Int × Array QI)
  extra : List (List String)
  north : Array Nat := #[]
  west : Array Nat := #[]

def lookupTbl (tbls : List (Int × Array QI)) (L : Nat) : Int → Nat → Nat → QI :=
  fun id a b => match tbls.find? (fun t => t.1 == id) with
    | some t => t.2.getD (a * L + b) 0
    | none => 0

def parseCase (ws : List String) : Option Case := do
  let secs := sections ws
  let hd ← secs[0]?
  let L ← (← hd[0]?).toNat?
  let n ← (← hd[1]?).toNat?
  let kS ← hd[2]?
  let dkmax : Option Nat := if kS == "none" then none else kS.toNat?
  let hasAdd := (← hd[3]?) == "1"
  let rho0 ← parseQIs? (← secs[1]?)
  let uin ← parseQIs? (← secs[2]?)
  let uout ← parseQIs? (← secs[3]?)
  let props ← ((secs.drop 4).take (2*n)).mapM parseQIs?
  let rest0 := secs.drop (4 + 2*n)
  let isKw (s : List String) (kw : String) : Bool := s.head? == some kw
  let north := ((rest0.find? (isKw · "north")).getD []).drop 1 |>.filterMap String.toNat? |>.toArray
  let west := ((rest0.find? (isKw · "west")).getD []).drop 1 |>.filterMap String.toNat? |>.toArray
  let rest := rest0.filter (fun s => !(isKw s "north" || isKw s "west"))
  let tblSecs := rest.takeWhile (fun s => s.head? != some "paths")
  let extra := (rest.dropWhile (fun s => s.head? != some "paths")).map (fun s => s.drop 1)
  let tbls ← tblSecs.mapM (fun s => do
    let id ← (← s[0]?).toInt?
    let arr ← parseQIs? (s.drop 1)
    pure (id, arr))
  pure { L, n, dkmax, hasAdd, rho0, uin, uout, props, tbls, extra, north, west }

def Case.P1 (c : Case) : Nat → Nat → Nat → QI := fun k => tab2 c.L (c.props.getD (2*(k-1)) #[])
def Case.P2 (c : Case) : Nat → Nat → Nat → QI := fun k => tab2 c.L (c.props.getD (2*(k-1)+1) #[])
/-- with "north"/"west" sections present the tables are read through `uniqueTbl`
    (the reduced network of `unique=True`) -/
def Case.I (c : Case) : Nat → Nat → Nat → Nat → QI :=
  if c.north.size == 0 then inflOfTables c.dkmax c.hasAdd (lookupTbl c.tbls c.L)
  else inflOfTables c.dkmax c.hasAdd
    (OQuPyVerif.Degeneracy.uniqueTbl c.L (fun a => c.north.getD a 0) (fun a => c.west.getD a 0)
      (lookupTbl c.tbls c.L))

def runTempo (c : Case) : String :=
  let L := c.L
  let Uin := tab2 L c.uin
  let Uout := tab2 L c.uout
  -- tabulate the kernels once (semantic no-op: `tab2 (tabulate2 f) = f` on the index range)
  let Ms : Array (Array QI) :=
    Array.ofFn (n := c.n+1) (fun k => tabulate2 L L (kernelM L c.P1 c.P2 Uin Uout k.val))
  let M : Nat → Nat → Nat → QI := fun k => tab2 L (Ms.getD k #[])
  let states := (List.range (c.n+1)).map (fun m =>
    if m = 0 then (List.range L).map (tab1 c.rho0)
    else
      let fin := tabulate2 L L (matMul L (c.P2 m) Uout)
      (List.range L).map (fun out => pathState L (tab1 c.rho0) M c.I m (fun a => tab2 L fin out a)))
  " ; ".intercalate (states.map (fun st => " ".intercalate (st.map showQI)))

def normSq (z : QI) : Rat := z.re * z.re + z.im * z.im
def maxR (l : List Rat) : Rat := l.foldl (fun a b => if a < b then b else a) 0

def isqrt (L : Nat) : Nat := (List.range (L+1)).find? (fun d => d * d == L) |>.getD 0

def runHyp (c : Case) : String :=
  let L := c.L
  let d := isqrt L
  let trv : Nat → QI := fun a => if a / d == a % d then 1 else 0
  let sw : Nat → Nat := fun a => (a % d) * d + a / d
  let idx := List.range L
  let tpRes (A : Nat → Nat → QI) : Rat :=
    maxR (idx.map (fun b => normSq ((idx.map (fun a => trv a * A a b)).foldl (· + ·) 0 - trv b)))
  let hpRes (A : Nat → Nat → QI) : Rat :=
    maxR (idx.flatMap (fun a => idx.map (fun b => normSq (star (A (sw a) (sw b)) - A a b))))
  let mats : List (Nat → Nat → QI) :=
    [tab2 L c.uin, tab2 L c.uout] ++ c.props.map (fun p => tab2 L p)
  let tp := maxR (mats.map tpRes)
  let herm := maxR ((mats.map hpRes) ++
    [maxR (idx.map (fun a => normSq (star (tab1 c.rho0 (sw a)) - tab1 c.rho0 a)))])
  let tbl := lookupTbl c.tbls L
  let ids := c.tbls.map (·.1)
  let unitR := maxR (ids.flatMap (fun id => idx.flatMap (fun e => idx.map (fun l =>
    -- dk = 0 tables only use the diagonal
    if id == 0 && e != l then 0 else normSq (trv l * tbl id e l - trv l)))))
  let conjR := maxR (ids.flatMap (fun id => idx.flatMap (fun e => idx.map (fun l =>
    if id == 0 && e != l then 0 else normSq (star (tbl id (sw e) (sw l)) - tbl id e l)))))
  -- hypotheses of Props.C02.pt_prefix: the closing weight sums to one and sits on unit factors
  let dQ : QI := QI.ofRat (1 / (d : Rat))
  let trIn : Nat → QI := fun a => trv a * dQ
  let t : Nat → QI := fun a => closeWeight L (tab2 L c.uin) (tab2 L c.uout) trIn trv a
  let closeSum := normSq ((idx.map t).foldl (· + ·) 0 - 1)
  let closeUnit := maxR (ids.flatMap (fun id => idx.flatMap (fun e => idx.map (fun l =>
    if id == 0 && e != l then 0 else normSq (t l * tbl id e l - t l)))))
  s!"tp {showRat tp} herm {showRat herm} unit {showRat unitR} conj {showRat conjR} closesum {showRat closeSum} closeunit {showRat closeUnit}"

def runPtInfl (c : Case) : String :=
  let L := c.L
  let Uin := tab2 L c.uin
  let Uout := tab2 L c.uout
  let vals := c.extra.map (fun pw =>
    match pw.mapM String.toNat? with
    | some p => showQI (ptOfInfluence L Uin Uout c.I c.n p)
    | none => "bad-path")
  " ".intercalate vals

/-- "rowdeg r1 | r2 | …" : rows of rationals -> `rowDegeneracy` -/
def runRowDeg (ws : List String) : String :=
  match (sections ws).mapM (fun s => s.mapM parseRat?) with
  | some rows => " ".intercalate ((OQuPyVerif.Degeneracy.rowDegeneracy rows).map toString)
  | none => "bad-op"

def step (line : String) : String :=
  match words line with
  | "rowdeg" :: rest => runRowDeg rest
  | op :: rest =>
    match parseCase rest with
    | some c =>
      if op == "tempo" then runTempo c
      else if op == "hyp" then runHyp c
      else if op == "ptinfl" then runPtInfl c
      else "bad-op"
    | none => "bad-op"
  | _ => "bad-op"

def main : IO Unit := mainLoop step
