/- Driver for the path-sum / TEMPO model (used by C01, C02, C04, C05, C06).
   line:  tempo L n K|none hasAdd(0/1) | rho0 | Uin | Uout | P1_1 | P2_1 | … | P1_n | P2_n | id tbl | id tbl …
   answer: the n+1 states (steps 0..n), each L numbers, separated by " ; " -/
import OQuPyVerif.Model.ProtoQI
import OQuPyVerif.Model.Tempo
open OQuPyVerif OQuPyVerif.Proto OQuPyVerif.PathSum OQuPyVerif.Tempo

def lookupTbl (tbls : List (Int × Array QI)) (L : Nat) : Int → Nat → Nat → QI :=
  fun id a b => match tbls.find? (fun t => t.1 == id) with
    | some t => t.2.getD (a * L + b) 0
    | none => 0

def runTempo (ws : List String) : Option String := do
  let secs := sections ws
  let hd ← secs[0]?
  let L ← (← hd[0]?).toNat?
  let n ← (← hd[1]?).toNat?
  let kS ← hd[2]?
  let dkmax : Option Nat := if kS == "none" then none else kS.toNat?
  let hasAdd := (← hd[3]?) == "1"
  let rho0 ← parseQIs? (← secs[1]?)
  let uin ← parseQIs? (← secs[2]?)
  let uout ← parseQIs? (← secs[3]?)
  let props ← ((secs.drop 4).take (2*n)).mapM parseQIs?
  let tblSecs := secs.drop (4 + 2*n)
  let tbls ← tblSecs.mapM (fun s => do
    let id ← (← s[0]?).toInt?
    let arr ← parseQIs? (s.drop 1)
    pure (id, arr))
  let P1 : Nat → Nat → Nat → QI := fun k => tab2 L ((props.getD (2*(k-1)) #[]))
  let P2 : Nat → Nat → Nat → QI := fun k => tab2 L ((props.getD (2*(k-1)+1) #[]))
  let Uin := tab2 L uin
  let Uout := tab2 L uout
  let I := inflOfTables dkmax hasAdd (lookupTbl tbls L)
  -- tabulate the kernels once (semantic no-op: `tab2 (tabulate2 f) = f` on the index range)
  let Ms : Array (Array QI) := Array.ofFn (n := n+1) (fun k => tabulate2 L L (kernelM L P1 P2 Uin Uout k.val))
  let M : Nat → Nat → Nat → QI := fun k => tab2 L (Ms.getD k #[])
  let states := (List.range (n+1)).map (fun m =>
    if m = 0 then (List.range L).map (tab1 rho0)
    else
      let fin := tabulate2 L L (matMul L (P2 m) Uout)
      (List.range L).map (fun out => pathState L (tab1 rho0) M I m (fun a => tab2 L fin out a)))
  pure (" ; ".intercalate (states.map (fun st => " ".intercalate (st.map showQI))))

def step (line : String) : String :=
  match words line with
  | "tempo" :: rest => (runTempo rest).getD "bad-op"
  | _ => "bad-op"

def main : IO Unit := mainLoop step
