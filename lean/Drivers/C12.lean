/- Driver for C12: evaluates the generated definitions of Generated/BathShapes.lean.

   shape <name> <matsubara 0|1> <delta> <time_1> <time_2|none> <ci|none> <tab>
        name  : upper-triangle | square | rectangle
        times : binary64 values as exact rationals p/q
        ci    : value of  _complex_integral(correlation, 0, time_1)  as  re,im  (or none)
        tab   : ;-separated  tau:re,im  entries = the eta_function values the implementation used
      -> "re im" (exact rationals) of the generated difference formula evaluated with binary64
         time arithmetic (FloatModel) and exact complex-rational value arithmetic,
         or "missing" if the formula asks for an eta_function value that is not in the table
   integrand <corr|eta> <matsubara 0|1> <T> <tau> <w> <Jre> <Jim>      (all binary64 bit patterns)
      -> "rebits imbits" of the generated integrand closure (branch selection included) in
         complex binary64
   sd <cutoff_type> <alpha> <zeta> <cutoff> <w>                         (bit patterns)
      -> "rebits imbits" of the generated PowerLawSD spectral density, or "rejected"
   config
      -> "INTEGRATE_EPSREL SUBDIV_LIMIT true" as regenerated from oqupy/config.py
-/
import OQuPyVerif.Model.Proto
import OQuPyVerif.Model.BathCorr
import OQuPyVerif.Generated.BathShapes
open OQuPyVerif OQuPyVerif.Proto OQuPyVerif.BathCorr OQuPyVerif.Generated.BathShapes

def parseCQ? (s : String) : Option CQ :=
  match s.splitOn "," with
  | [a, b] => match parseRat? a, parseRat? b with
    | some x, some y => some ⟨x, y⟩
    | _, _ => none
  | _ => none

def parseEntry? (s : String) : Option (Rat × CQ) :=
  match s.splitOn ":" with
  | [t, v] => match parseRat? t, parseCQ? v with
    | some t, some v => some (t, v)
    | _, _ => none
  | _ => none

def parseTab? (s : String) : Option (List (Rat × CQ)) :=
  ((s.splitOn ";").filter (fun w => w ≠ "")).mapM parseEntry?

def parseBool? (s : String) : Option Bool :=
  if s == "0" then some false else if s == "1" then some true else none

def bitsF? (s : String) : Option Float := s.toNat?.map (fun n => Float.ofBits (UInt64.ofNat n))
def showF (x : Float) : String := toString x.toBits.toNat
def showCF (z : CF) : String := s!"{showF z.re} {showF z.im}"
def ofF (x : Float) : CF := ⟨x, 0.0⟩

def runShape (name : String) (m : Bool) (delta t1 t2 : Rat) (ci : Option CQ)
    (tab : List (Rat × CQ)) : String :=
  let eta : F64 → OCQ := fun t => ⟨lookup tab t⟩
  let corrInt : F64 → F64 → OCQ := fun a b =>
    if a.val == 0 && b.val == t1 then ⟨ci⟩ else ⟨none⟩
  let ι : F64 → OCQ := fun t => ⟨some (CQ.ofRat t.val)⟩
  let r : Option OCQ :=
    if name == "upper-triangle" then some (shapeTri eta corrInt ι m ⟨delta⟩ ⟨t1⟩ ⟨t2⟩)
    else if name == "square" then some (shapeSq eta corrInt ι m ⟨delta⟩ ⟨t1⟩ ⟨t2⟩)
    else if name == "rectangle" then some (shapeRect eta corrInt ι m ⟨delta⟩ ⟨t1⟩ ⟨t2⟩)
    else none
  match r with
  | none => "bad-op"
  | some r =>
    if !(shapeNames.contains name) then "bad-op" else
    match (shapePost OCQ.realPart m r).v with
    | none => "missing"
    | some z => s!"{showRat z.re} {showRat z.im}"

def eps64 : Float := Float.ofBits 0x3CB0000000000000   -- 2^-52

def runIntegrand (which : String) (m : Bool) (T tau w : Float) (J : CF) : String :=
  let F := CF.fns
  let zeroT := T == 0.0
  if which == "corr" then
    let tau' := corr_tau F m (ofF tau)
    let g := (corr_guardQty F (ofF w) (ofF T)).re > eps64
    showCF (pick zeroT g (corr_zeroT F J (ofF w) tau' (ofF T)) (corr_thermal F J (ofF w) tau' (ofF T))
      (corr_guard F J (ofF w) tau' (ofF T)))
  else if which == "eta" then
    let tau' := eta_tau F m (ofF tau)
    let g := (eta_guardQty F (ofF w) (ofF T)).re > eps64
    showCF (pick zeroT g (eta_zeroT F J (ofF w) tau' (ofF T)) (eta_thermal F J (ofF w) tau' (ofF T))
      (eta_guard F J (ofF w) tau' (ofF T)))
  else "bad-op"

def step (line : String) : String :=
  match words line with
  | ["shape", name, m, delta, t1, t2, ci, tab] =>
    let t2v : Option Rat := if t2 == "none" then some 0 else parseRat? t2
    let civ : Option (Option CQ) := if ci == "none" then some none else (parseCQ? ci).map some
    match parseBool? m, parseRat? delta, parseRat? t1, t2v, civ, parseTab? tab with
    | some m, some delta, some t1, some t2, some ci, some tab => runShape name m delta t1 t2 ci tab
    | _, _, _, _, _, _ => "bad-op"
  | ["integrand", which, m, T, tau, w, jre, jim] =>
    match parseBool? m, bitsF? T, bitsF? tau, bitsF? w, bitsF? jre, bitsF? jim with
    | some m, some T, some tau, some w, some jre, some jim => runIntegrand which m T tau w ⟨jre, jim⟩
    | _, _, _, _, _, _ => "bad-op"
  | ["sd", ct, alpha, zeta, cutoff, w] =>
    match bitsF? alpha, bitsF? zeta, bitsF? cutoff, bitsF? w with
    | some a, some z, some c, some w =>
      match powerLawSD CF.fns (ofF a) (ofF z) (ofF c) ct (ofF w) with
      | some v => showCF v
      | none => "rejected"
    | _, _, _, _ => "bad-op"
  | ["config"] =>
    let ea := match quadratureEpsabs with | none => "default" | some r => showRat r
    s!"{showRat integrateEpsrel} {subdivLimit} {quadratureDefaultsAreConfig} epsabs={ea}"
  | _ => "bad-op"

def main : IO Unit := mainLoop step
