/- Driver for C18: evaluates the Control / ChainControl models, the compute_dynamics loop model
   and the PtTebd step model (all with the generated operand orders and statement orders) on
   lines from stdin.  Superoperators are real matrices (`I` = formal identity), states are real
   vectors; the harness embeds complex data as real blocks.

   t2s <t> <start> <dt>
   gc  <D> <step> <dt> <start> <n> { <post> <i|f> <key> <mat> }*n
   cd  <D> <N> <rec> <dt> <start> <x0> <n> { add }*n <env> [ {<P1> <P2> <E>}*N  <c_0 .. c_N> ]
   chainget <sites> <step> <post> <n> { <post> <site> <step> <D> <mat> }*n
   tebd <sites> <start_step> <nsteps> <D_i>*sites <x0_i>*sites <n> { <post> <site> <step> <mat> }*n
        <haslayers> [ <H_i>*sites ]
   tebdh <sites> <start_step> <D_i>*sites <x0_i>*sites <n0> { reg }*n0 <haslayers> [ <H_i>*sites ]
        <nops> { a <post> <site> <step> <mat> | c <end_step> }*nops
-/
import OQuPyVerif.Model.Proto
import OQuPyVerif.Model.Control
open OQuPyVerif OQuPyVerif.Proto OQuPyVerif.Control OQuPyVerif.Generated.ControlCompose

abbrev P := StateT (List String) Option

def tok : P String := do
  match (← get) with
  | [] => failure
  | t :: r => set r; pure t

def pNat : P Nat := do
  match (← tok).toNat? with
  | some n => pure n
  | none => failure

def pInt : P Int := do
  match (← tok).toInt? with
  | some n => pure n
  | none => failure

def pRat : P Rat := do
  match parseRat? (← tok) with
  | some q => pure q
  | none => failure

def pBool : P Bool := do
  match (← tok) with
  | "0" => pure false
  | "1" => pure true
  | _ => failure

def pMany {α : Type} (n : Nat) (p : P α) : P (List α) := (List.range n).mapM (fun _ => p)

def pVec (d : Nat) : P (Array Rat) := do return (← pMany d pRat).toArray

def pMat (d : Nat) : P DMat := do
  match (← get) with
  | "I" :: r => set r; pure DMat.one
  | _ => do
    let rows ← pMany d (pVec d)
    pure (DMat.mat rows.toArray)

def pEnd : P Unit := do
  match (← get) with
  | [] => pure ()
  | _ => failure

def pKey : P Key := do
  match (← tok) with
  | "i" => return Key.step (← pInt)
  | "f" => return Key.time (← pRat)
  | _ => failure

def pCall (d : Nat) : P (Call DMat) := do
  let post ← pBool
  let key ← pKey
  let op ← pMat d
  pure ⟨key, post, op⟩

def showVec (v : Array Rat) : String := showRats v.toList

def showMat : DMat → String
  | .one => "I"
  | .mat rows => " ".intercalate (rows.toList.map showVec)

def showOpt : Option DMat → String
  | none => "none"
  | some m => showMat m

def opT2s : P String := do
  let t ← pRat; let start ← pRat; let dt ← pRat; pEnd
  let a := timeToStep_pre t start dt
  let b := timeToStep_post t start dt
  pure s!"{showRat a} {showRat b}"

def opGc : P String := do
  let d ← pNat; let step ← pInt; let dt ← pRat; let start ← pRat
  let n ← pNat
  let calls ← pMany n (pCall d)
  pEnd
  let r := (build calls).getControls step dt start
  pure s!"{showOpt r.1};{showOpt r.2}"

def scale (c : Rat) (v : Array Rat) : Array Rat := v.map (fun x => c * x)

def opCd : P String := do
  let d ← pNat; let N ← pNat; let recAll ← pBool; let dt ← pRat; let start ← pRat
  let x0 ← pVec d
  let n ← pNat
  let calls ← pMany n (pCall d)
  let hasEnv ← pBool
  let steps ← if hasEnv then pMany N (do
      let p1 ← pMat d; let p2 ← pMat d; let e ← pMat d; pure (p1, p2, e)) else pure []
  let caps ← if hasEnv then pMany (N + 1) pRat else pure []
  pEnd
  let c := build calls
  let sa := steps.toArray
  let ca := caps.toArray
  let env : Env DMat (Array Rat) (Array Rat) :=
    { N := N
      ctl := fun k => c.getControls (k : Int) dt start
      P1 := fun k => (sa.getD k (1, 1, 1)).1
      P2 := fun k => (sa.getD k (1, 1, 1)).2.1
      mpo := fun k x => (sa.getD k (1, 1, 1)).2.2 • x
      cap := fun k x => if hasEnv then scale (ca.getD k 1) x else x
      recordAll := recAll }
  pure (";".intercalate ((computeDynamics env x0).map showVec))

def pChainCall (fixedD : Option (Array Nat)) : P (Bool × Nat × Int × DMat) := do
  let post ← pBool; let site ← pNat; let step ← pInt
  let d ← match fixedD with
    | some ds => pure (ds.getD site 0)
    | none => pNat
  let op ← pMat d
  pure (post, site, step, op)

def buildChain (calls : List (Bool × Nat × Int × DMat)) : ChainCtl DMat :=
  calls.foldl (fun c (p : Bool × Nat × Int × DMat) => c.add p.2.2.2 p.2.1 p.2.2.1 p.1) {}

def opChainGet : P String := do
  let sites ← pNat; let step ← pInt; let post ← pBool
  let n ← pNat
  let calls ← pMany n (pChainCall none)
  pEnd
  match (buildChain calls).get sites step post with
  | none => pure "None"
  | some l => pure (";".intercalate (l.map showOpt))

def opTebd : P String := do
  let sites ← pNat; let s0 ← pInt; let nsteps ← pNat
  let dims ← pMany sites pNat
  let x0 ← dims.mapM pVec
  let n ← pNat
  let calls ← pMany n (pChainCall (some dims.toArray))
  let hasL ← pBool
  let hs ← if hasL then dims.mapM pMat else pure []
  pEnd
  let ha := hs.toArray
  let env : TebdEnv DMat (Array (Array Rat)) (Array (Array Rat)) :=
    { n := sites
      ctl := buildChain calls
      actSite := fun i a x => x.modify i (fun v => a • v)
      layers := fun x => if hasL then x.mapIdx (fun i v => ha.getD i 1 • v) else x
      pts := fun _ x => x
      obs := fun _ x => x }
  let recs := tebdRun env s0 x0.toArray nsteps
  pure ("|".intercalate (recs.map (fun r => ";".intercalate (r.toList.map showVec))))

def pHistOp (dims : Array Nat) : P (TebdHistOp DMat) := do
  match (← tok) with
  | "a" => do
    let (post, site, stp, op) ← pChainCall (some dims)
    pure (TebdHistOp.add op site stp post)
  | "c" => return TebdHistOp.compute (← pInt)
  | _ => failure

/-- construct (with `n0` controls already registered); then a history of add / compute ops -/
def opTebdHist : P String := do
  let sites ← pNat; let s0 ← pInt
  let dims ← pMany sites pNat
  let x0 ← dims.mapM pVec
  let n0 ← pNat
  let calls ← pMany n0 (pChainCall (some dims.toArray))
  let hasL ← pBool
  let hs ← if hasL then dims.mapM pMat else pure []
  let nops ← pNat
  let ops ← pMany nops (pHistOp dims.toArray)
  pEnd
  let ha := hs.toArray
  let base : TebdEnv DMat (Array (Array Rat)) (Array (Array Rat)) :=
    { n := sites
      ctl := {}
      actSite := fun i a x => x.modify i (fun v => a • v)
      layers := fun x => if hasL then x.mapIdx (fun i v => ha.getD i 1 • v) else x
      pts := fun _ x => x
      obs := fun _ x => x }
  let recs := tebdHistory base (buildChain calls) s0 x0.toArray ops
  pure ("|".intercalate (recs.map (fun r => ";".intercalate (r.toList.map showVec))))

def step (line : String) : String :=
  match words line with
  | [] => "bad-op"
  | op :: args =>
    let p : Option (P String) := match op with
      | "t2s" => some opT2s
      | "gc" => some opGc
      | "cd" => some opCd
      | "chainget" => some opChainGet
      | "tebd" => some opTebd
      | "tebdh" => some opTebdHist
      | _ => none
    match p with
    | none => "bad-op"
    | some p => match p.run args with
      | some (s, _) => s
      | none => "bad-op"

def main : IO Unit := mainLoop step
