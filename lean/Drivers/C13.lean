/- Driver for C13: evaluates the generated step-count / label functions and the
   TimeGrid history model on lines from stdin. -/
import OQuPyVerif.Model.Proto
import OQuPyVerif.Model.TimeGrid
import OQuPyVerif.Generated.StepCount
import OQuPyVerif.Model.MfDynamics
open OQuPyVerif OQuPyVerif.Proto OQuPyVerif.TimeGrid OQuPyVerif.Generated.StepCount OQuPyVerif.MfDynamics

def rats (ws : List String) : Option (List Rat) := ws.mapM parseRat?

def timesOf (cnt : Int) (f : Int → Rat) : List Rat :=
  (List.range cnt.toNat).map (fun (k : Nat) => f (k : Int))

def step (line : String) : String :=
  match words line with
  | ["numstep", api, s, dt, k, e] =>
    match parseRat? s, parseRat? dt, parseInt? k, parseRat? e with
    | some s, some dt, some k, some e =>
      if api == "tempo" then toString (tempo_num_step s dt k e)
      else if api == "mft" then toString (mft_num_step s dt k e) else "bad-op"
    | _, _, _, _ => "bad-op"
  | ["ptsteps", s, dt, e] =>
    match parseRat? s, parseRat? dt, parseRat? e with
    | some s, some dt, some e => toString (pt_num_steps s dt e)
    | _, _, _ => "bad-op"
  | ["time", api, s, dt, k] =>
    match parseRat? s, parseRat? dt, parseInt? k with
    | some s, some dt, some k =>
      if api == "tempo" then showRat (tempo_time s dt k)
      else if api == "mft" then showRat (mft_time s dt k) else "bad-op"
    | _, _, _ => "bad-op"
  | ["tebdtime", s, dt, k0, k] =>
    match parseRat? s, parseRat? dt, parseInt? k0, parseInt? k with
    | some s, some dt, some k0, some k => showRat (tebd_time s dt k0 k)
    | _, _, _, _ => "bad-op"
  | "histtebd" :: s :: dt :: ks :: es =>
    -- PtTebd: targets are end steps; steps are counted from the constructor's start step
    match parseRat? s, parseRat? dt, parseInt? ks, rats es with
    | some s, some dt, some ks, some es =>
      let st := computeAll (fun (j : Int) (t : Rat) => tebd_compute_steps ks (ks + j) t.floor)
                  (fun (j : Int) => tebd_time s dt ks (ks + j)) es
      let k := match st.step with | some k => toString (ks + k) | none => "none"
      s!"{k};{showRats st.dyn.times}"
    | _, _, _, _ => "bad-op"
  | ["resolve", ns, m] =>
    let opt (w : String) : Option (Option Int) :=
      if w == "none" then some none else (parseInt? w).map some
    match opt ns, opt m with
    | some ns, some m =>
      match cd_resolve_num_steps ns m with
      | .ok n => s!"ok {n}"
      | .error e => s!"error {e}"
    | _, _ => "bad-op"
  | "hist" :: api :: s :: dt :: es =>
    match parseRat? s, parseRat? dt, rats es with
    | some s, some dt, some es =>
      let st := if api == "tempo" then computeAll (tempo_num_step s dt) (tempo_time s dt) es
                else computeAll (mft_num_step s dt) (mft_time s dt) es
      let k := match st.step with | some k => toString k | none => "none"
      s!"{k};{showRats st.dyn.times};{" ".intercalate (st.dyn.states.map toString)}"
    | _, _, _ => "bad-op"
  | ["cd", api, mode, s, dt, n] =>
    match parseRat? s, parseRat? dt, parseInt? n with
    | some s, some dt, some n =>
      -- the loops record n+1 states with record_all and 1 state without
      let len : Int := if mode == "all" then n + 1 else 1
      if mode == "all" then
        if api == "cd" then showRats (timesOf (cd_label_count n len) (cd_label_all s dt n len))
        else if api == "cdwf" then showRats (timesOf (cdwf_label_count n len) (cdwf_label_all s dt n len))
        else if api == "grad" then showRats (timesOf (grad_label_count n len) (grad_label_all s dt n len))
        else "bad-op"
      else
        if api == "cd" then showRat (cd_label_final s dt n len)
        else if api == "cdwf" then showRat (cdwf_label_final s dt n len)
        else if api == "grad" then showRat (grad_label_final s dt n len)
        else "bad-op"
    | _, _, _ => "bad-op"
  | "mfd" :: entries =>
    -- each entry: time:field:state0,state1,…   (fields / states are integer tags)
    let parsed := entries.mapM (fun e => match e.splitOn ":" with
      | [t, f, sts] => match parseRat? t, parseInt? f, (sts.splitOn ",").mapM parseInt? with
        | some t, some f, some sts => some (t, sts, f)
        | _, _, _ => none
      | _ => none)
    match parsed with
    | some hist =>
      let s := hist.foldl (fun s (e : Rat × List Int × Int) => mfAdd s e.1 e.2.1 e.2.2) MfSt.empty
      let sysS := " / ".intercalate (s.sys.map (fun d =>
        showRats d.times ++ " # " ++ " ".intercalate (d.states.map toString)))
      s!"{showRats s.times} | {" ".intercalate (s.fields.map toString)} | {sysS}"
    | none => "bad-op"
  | "dynadd" :: entries =>
    let parsed := entries.mapM (fun e => match e.splitOn ":" with
      | [t, x] => match parseRat? t, parseInt? x with
        | some t, some x => some (t, x)
        | _, _ => none
      | _ => none)
    match parsed with
    | some hist =>
      let d := hist.foldl (fun d (e : Rat × Int) =>
        (dynRun e.1 e.2 OQuPyVerif.Generated.DynamicsAdd.dynamics_add_ops (d, 0)).1) (Dyn.empty : Dyn Int)
      s!"{showRats d.times} | {" ".intercalate (d.states.map toString)}"
    | none => "bad-op"
  | _ => "bad-op"

def main : IO Unit := mainLoop step
