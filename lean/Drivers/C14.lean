/- Driver for C14: runs the history models of Model/Histories.lean (which interpret the
   generated micro-op lists / loop conditions) on lines from stdin.

   hist <tempo|mft> <dkmax: int|none> <start> <dt> <faults: i,jb,..|-> <ref target> <targets...>
        (`jb`: invocation j raises a BaseException that is not an Exception)
        -> ok flags ; step ; calls ; trace ; times ; same-as-single-call(ref)
   pt <n> <ops: string of c/g>      -> outputs ; step ; net ; ptLen
   gibbs <n> <number of computes>   -> step ; label indices ; recorded ; state
   tebd <start> <pre: steps|-> <post: steps|-> <ops: int (compute) | d | r | m (getters),..>
        -> step ; chain ; result steps ; same-as-single-call(largest target)
   tebdrestart <pre|-> <post|-> <m> <n>
        -> restarted chain (new part) ; result steps ; chain-equal ; results-equal -/
import OQuPyVerif.Model.Proto
import OQuPyVerif.Model.Histories
import OQuPyVerif.Generated.StepCount
open OQuPyVerif OQuPyVerif.Proto OQuPyVerif.TimeGrid OQuPyVerif.Histories
open OQuPyVerif.Generated.StepCount OQuPyVerif.Generated.LoopOrder

def rats (ws : List String) : Option (List Rat) := ws.mapM parseRat?

def natList (s : String) : Option (List Nat) :=
  if s == "-" then some [] else (s.splitOn ",").mapM (fun w => w.toNat?)

/-- `3` | `3b` -/
def faultList (s : String) : Option (List (Nat × Bool)) :=
  if s == "-" then some [] else (s.splitOn ",").mapM (fun w =>
    if w.endsWith "b" then (String.ofList w.toList.dropLast).toNat?.map (fun n => (n, true))
    else w.toNat?.map (fun n => (n, false)))

def tebdOps (s : String) : Option (List TebdOp) :=
  (s.splitOn ",").mapM (fun w =>
    if w == "d" then some TebdOp.getDM else if w == "r" then some TebdOp.getResults
    else if w == "m" then some TebdOp.getMPS else w.toInt?.map TebdOp.compute)

def intList (s : String) : Option (List Int) :=
  if s == "-" then some [] else (s.splitOn ",").mapM (fun w => w.toInt?)

def showInts (l : List Int) : String := " ".intercalate (l.map toString)

def showTrace (l : List (Nat × Int)) : String :=
  " ".intercalate (l.map (fun p => s!"{p.1}:{p.2}"))

def showChain (l : List ChainEv) : String :=
  " ".intercalate (l.map (fun e => match e with
    | .ctrl post k => s!"c{if post then 1 else 0}:{k}"
    | .evolve k => s!"e:{k}"))

def showPtOut : PtOut → String
  | .done => "done"
  | .raised => "raised"
  | .pt c => "pt:" ++ ",".intercalate (c.map toString)

def histLine (api : String) (dkmax : Option Int) (s dt : Rat) (faults : List (Nat × Bool)) (ref : Rat) (es : List Rat) : String :=
  let faulty : Oracle := ⟨fun n => faults.any (fun f => f.1 == n),
                          fun n => faults.any (fun f => f.1 == n && f.2)⟩
  let (numStep, time, init, ops) :=
    if api == "tempo" then (tempo_num_step s dt, tempo_time s dt, tempo_init_step, tempoOpsAt dkmax)
    else (mft_num_step s dt, mft_time s dt, mft_init_step, mftOpsAt dkmax)
  let stepf := fun (acc : Obj × List Bool) (e : Rat) =>
    let r := compute numStep time init ops faulty acc.1 e
    (r.1, acc.2 ++ [r.2])
  let (o, oks) := es.foldl stepf (Obj.fresh, [])
  let single := (compute numStep time init ops noFault Obj.fresh ref).1
  let same := decide (o.view = single.view)
  let okS := "".intercalate (oks.map (fun b => if b then "1" else "0"))
  s!"{okS};{o.b.core.step};{o.b.calls};{showTrace o.b.trace};{showRats o.dyn.times};{if same then 1 else 0}"

def ptLine (n : Int) (ops : String) : Option String := do
  let l ← ops.toList.mapM (fun c => if c == 'c' then some FixedOp.compute
                                     else if c == 'g' then some FixedOp.get else none)
  let (o, outs) := ptHist n l PtObj.fresh
  let st := match o.step with | some k => toString k | none => "none"
  pure s!"{" ".intercalate (outs.map showPtOut)};{st};{showInts o.net};{o.ptLen}"

def gibbsLine (n : Int) (k : Nat) : String :=
  let o := gibbsHist n k
  let st := match o.step with | some k => toString k | none => "none"
  let gs := match gibbsState o with | some k => toString k | none => "none"
  s!"{st};{showRats o.dyn.times};{showInts o.dyn.states};{gs}"

def mkCfg (start : Int) (pre post : List Int) (initial : List ChainEv) : TebdCfg :=
  { startStep := start,
    hasCtrl := fun p k => if p then post.contains k else pre.contains k,
    initial := initial }

def step (line : String) : String :=
  match words line with
  | "hist" :: api :: dk :: s :: dt :: faults :: ref :: es =>
    let dkmax : Option (Option Int) := if dk == "none" then some none else (parseInt? dk).map some
    match dkmax, parseRat? s, parseRat? dt, faultList faults, parseRat? ref, rats es with
    | some dkmax, some s, some dt, some f, some ref, some es =>
      if api == "tempo" || api == "mft" then histLine api dkmax s dt f ref es else "bad-op"
    | _, _, _, _, _, _ => "bad-op"
  | ["pt", n, ops] =>
    match parseInt? n with
    | some n => (ptLine n ops).getD "bad-op"
    | none => "bad-op"
  | ["gibbs", n, k] =>
    match parseInt? n, k.toNat? with
    | some n, some k => gibbsLine n k
    | _, _ => "bad-op"
  | ["tebd", start, pre, post, targets] =>
    match parseInt? start, intList pre, intList post, tebdOps targets with
    | some start, some pre, some post, some ops =>
      let cfg := mkCfg start pre post []
      let t := tebdOpHist cfg ops
      let far := (computesOf ops).foldl max start
      let single := tebdCompute cfg Tebd.fresh far
      let same := decide (t.results = single.results ∧ t.chain = single.chain ∧ t.step = single.step)
      let st := match t.step with | some k => toString k | none => "none"
      s!"{st};{showChain t.chain};{showInts (t.results.map (·.1))};{if same then 1 else 0}"
    | _, _, _, _ => "bad-op"
  | ["tebdrestart", pre, post, m, n] =>
    match intList pre, intList post, parseInt? m, parseInt? n with
    | some pre, some post, some m, some n =>
      let cfg := mkCfg 0 pre post []
      let u := tebdCompute cfg Tebd.fresh m
      let full := tebdCompute cfg u n
      let r := tebdCompute (tebdRestartCfg cfg u) Tebd.fresh n
      let chEq := decide (r.chain = full.chain)
      let rsEq := decide (r.results = full.results.drop m.toNat)
      s!"{showChain (r.chain.drop u.chain.length)};{showInts (r.results.map (·.1))};{if chEq then 1 else 0};{if rsEq then 1 else 0}"
    | _, _, _, _ => "bad-op"
  | _ => "bad-op"

def main : IO Unit := mainLoop step
