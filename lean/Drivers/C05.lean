/- Driver for C05:  diag d | U (d*d) | w (d) | O (d*d)  ->  "unit <r> recon <r> real <r>" -/
import OQuPyVerif.Model.ProtoQI
import OQuPyVerif.Model.Diag
open OQuPyVerif OQuPyVerif.Proto OQuPyVerif.Diag

def run (ws : List String) : Option String := do
  let secs := sections ws
  let d ← (← (← secs[0]?)[0]?).toNat?
  let u ← parseQIs? (← secs[1]?)
  let w ← parseQIs? (← secs[2]?)
  let o ← parseQIs? (← secs[3]?)
  let U := tab2 d u
  let O := tab2 d o
  let W := tab1 w
  pure s!"unit {showRat (unitarityResidual d U)} recon {showRat (reconstructionResidual d U W O)} real {showRat (realityResidual d W)}"

def step (line : String) : String :=
  match words line with
  | "diag" :: rest => (run rest).getD "bad-op"
  | _ => "bad-op"

def main : IO Unit := mainLoop step
