/- Driver for C15: the regenerated table of time expressions (`list`) and their binary64 reading
   (`eval`), one op per stdin line, one answer per stdout line.

   list                               -> name|role|fvars|tmask|ivars|file:line|ok|shape ; ...
   eval <site> <nf> <rat>*nf <int>*   -> p/q     (FloatModel value of the site's expression)
   probes                             -> name|file:line|time|kept,..|ok ; ...
   wt <site>                          -> weight demanded by the sink, weight of the expression
-/
import OQuPyVerif.Model.Proto
import OQuPyVerif.Model.TimeShift
import OQuPyVerif.Generated.TimeExprs
open OQuPyVerif OQuPyVerif.Proto OQuPyVerif.TimeShift OQuPyVerif.Generated.TimeExprs

def showSite (s : Site) : String :=
  let shape := if s.tpi then "time+inv"
    else match s.expr with
      | .var _ => "var"
      | _ => "other"
  s!"{s.name}|{if s.role == .time then "time" else "inv"}|{",".intercalate s.fvars}|" ++
  s!"{",".intercalate (s.tmask.map (fun b => if b then "1" else "0"))}|{",".intercalate s.ivars}|" ++
  s!"{s.file}:{s.line}|{if s.ok then "ok" else "BAD"}|{shape}"

def keptName : Kept → String
  | .discard => "discard" | .validate => "validate" | .shape => "shape"
  | .dtype => "dtype" | .value => "value" | .unknown => "unknown"

def findSite (nm : String) : Option Site := sites.find? (fun s => s.name == nm)

def step (line : String) : String :=
  match words line with
  | ["list"] => ";".intercalate (sites.map showSite)
  | "eval" :: nm :: nf :: rest =>
    match findSite nm, nf.toNat? with
    | some s, some n =>
      let fs := rest.take n
      let is := rest.drop n
      if fs.length != n || n != s.fvars.length || is.length != s.ivars.length then "bad-op" else
      match fs.mapM parseRat?, is.mapM parseInt? with
      | some fl, some il => showRat (s.evalF fl il)
      | _, _ => "bad-op"
    | _, _ => "bad-op"
  | ["probes"] =>
    ";".intercalate (probes.map (fun p =>
      s!"{p.name}|{p.file}:{p.line}|{p.time}|{",".intercalate (p.kept.map keptName)}|" ++
      s!"{if p.ok then "ok" else "BAD"}"))
  | ["wt", nm] =>
    match findSite nm with
    | some s => s!"{s.role.weight} {match wt s.tmask s.expr with | some w => toString w | none => "none"}"
    | none => "bad-op"
  | _ => "bad-op"

def main : IO Unit := mainLoop step
