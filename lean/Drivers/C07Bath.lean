/- Driver for the bath part of C07:
     rebuild d | U (d*d) | w (d) | O (d*d)
       ->  "unit <r> recon <r> real <r> | <d*d entries of the operator rebuilt by
            generate_system_correlations, in the regenerated operand order>"
     steps <t1> <t2> <dt>  ->  cmd=.. corr=.. ker=.. switch=..   (float time -> step conversions)
     last <n> <dt>         ->  last=<n*dt> cmd=.. ker=.. switch=..
   (residuals: C05's IsDiagonalisation ingredients, exact on Gaussian rationals) -/
import OQuPyVerif.Model.ProtoQI
import OQuPyVerif.Model.Diag
import OQuPyVerif.Model.CorrelationsBath
open OQuPyVerif OQuPyVerif.Proto OQuPyVerif.Diag OQuPyVerif.CorrelationsBath

/-- d×d matrices as row-major arrays -/
def amul (d : Nat) (a b : Array QI) : Array QI :=
  Array.ofFn (n := d * d) (fun idx =>
    (List.range d).foldl (fun acc k => acc + a.getD ((idx.val / d) * d + k) 0 * b.getD (k * d + idx.val % d) 0) 0)

def adagger (d : Nat) (a : Array QI) : Array QI :=
  Array.ofFn (n := d * d) (fun idx => star (a.getD ((idx.val % d) * d + idx.val / d) 0))

def adiag (d : Nat) (w : Array QI) : Array QI :=
  Array.ofFn (n := d * d) (fun idx => if idx.val / d = idx.val % d then w.getD (idx.val / d) 0 else 0)

def run (ws : List String) : Option String := do
  let secs := sections ws
  let d ← (← (← secs[0]?)[0]?).toNat?
  let u ← parseQIs? (← secs[1]?)
  let w ← parseQIs? (← secs[2]?)
  let o ← parseQIs? (← secs[3]?)
  if u.size != d * d || w.size != d || o.size != d * d then none
  let U := tab2 d u
  let O := tab2 d o
  let W := tab1 w
  let r ← rebuiltCoupling (amul d) u (adagger d u) (adiag d w)
  pure (s!"unit {showRat (unitarityResidual d U)} recon {showRat (reconstructionResidual d U W O)} real {showRat (realityResidual d W)} | "
    ++ " ".intercalate (r.toList.map showQI))

open OQuPyVerif.Generated.CorrBath in
def step (line : String) : String :=
  match words line with
  | "rebuild" :: rest => (run rest).getD "bad-op"
  | ["steps", t1, t2, dt] =>
    -- the float time -> step conversions of generate_system_correlations / correlation / _calc_kernel
    match parseRat? t1, parseRat? t2, parseRat? dt with
    | some t1, some t2, some dt =>
      s!"cmd={corr_mat_dim t2 dt} corr={correlation_corr_mat_dim t2 dt} ker={kernel_ker_dim t2 dt} switch={kernel_switch t1 dt}"
    | _, _, _ => "bad-op"
  | ["tlist", n, dt] =>
    -- the time axis of occupation(): count, then the labels
    match parseInt? n, parseRat? dt with
    | some n, some dt =>
      let c := occupation_tlist_count n dt
      s!"count={c} times=" ++ ",".intercalate
        ((List.range c.toNat).map (fun (k : Nat) => showRat (occupation_tlist_label n dt (k : Int))))
    | _, _ => "bad-op"
  | ["last", n, dt] =>
    match parseInt? n, parseRat? dt with
    | some n, some dt =>
      let t := occupation_last_time n dt
      s!"last={showRat t} cmd={corr_mat_dim t dt} ker={kernel_ker_dim t dt} switch={kernel_switch t dt}"
    | _, _ => "bad-op"
  | _ => "bad-op"

def main : IO Unit := mainLoop step
