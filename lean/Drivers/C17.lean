/- Driver for C17 (interrupted process-tensor files): evaluates the PTFile model, instantiated
   with the flags regenerated from the source, on lines from stdin.  Protocol:
   OQuPyVerif/Lemmas/PTFileWire.lean. -/
import OQuPyVerif.Model.Proto
import OQuPyVerif.Model.PTFile
import OQuPyVerif.Lemmas.PTFileWire
import OQuPyVerif.Generated.FileFlags
open OQuPyVerif OQuPyVerif.Proto

def main : IO Unit := mainLoop (OQuPyVerif.PTFile.Wire.step OQuPyVerif.Generated.FileFlags.flags)
