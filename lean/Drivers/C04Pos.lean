/- Driver for the positivity sector of C04.
   kraus d r | P (d²·d²) | Ks (r·d·d)        ->  "kraus <res²> unit <res²>"
   gram d m | rho (d·d) | B (d·m)             ->  "gram <res²>"
   run d n | v0 (d²) | P_1 (d²·d²) | … | P_n  ->  states after each step, `;`-separated -/
import OQuPyVerif.Model.ProtoQI
import OQuPyVerif.Props.C04Pos
open OQuPyVerif OQuPyVerif.Proto OQuPyVerif.Positivity OQuPyVerif.Props.C04

def tab3 (d : Nat) (arr : Array QI) : Nat → Nat → Nat → QI :=
  fun k i j => arr.getD (k * d * d + i * d + j) 0

def runKraus (ws : List String) : Option String := do
  let secs := sections ws
  let hd ← secs[0]?
  let d ← (← hd[0]?).toNat?
  let r ← (← hd[1]?).toNat?
  let p ← parseQIs? (← secs[1]?)
  let ks ← parseQIs? (← secs[2]?)
  if p.size ≠ d * d * (d * d) ∨ ks.size ≠ r * d * d then none
  let P := tab2 (d * d) p
  let Ks := tab3 d ks
  pure s!"kraus {showRat (krausResidual d r P Ks)} unit {showRat (krausUnitResidual d r Ks)}"

def runGram (ws : List String) : Option String := do
  let secs := sections ws
  let hd ← secs[0]?
  let d ← (← hd[0]?).toNat?
  let m ← (← hd[1]?).toNat?
  let rho ← parseQIs? (← secs[1]?)
  let b ← parseQIs? (← secs[2]?)
  if rho.size ≠ d * d ∨ b.size ≠ d * m then none
  pure s!"gram {showRat (gramResidual d m (tab2 d rho) (tab2 m b))}"

def runRun (ws : List String) : Option String := do
  let secs := sections ws
  let hd ← secs[0]?
  let d ← (← hd[0]?).toNat?
  let n ← (← hd[1]?).toNat?
  let v0 ← parseQIs? (← secs[1]?)
  if v0.size ≠ d * d ∨ secs.length ≠ n + 2 then none
  let mut v := v0
  let mut out : List String := []
  for s in secs.drop 2 do
    let p ← parseQIs? s
    if p.size ≠ d * d * (d * d) then none
    let cur := v
    -- one application of the model's `stepVec`, tabulated
    v := Array.ofFn (n := d * d) (fun a => stepVec d (tab2 (d * d) p) (tab1 cur) a.val)
    out := out ++ [" ".intercalate (v.toList.map showQI)]
  pure (" ; ".intercalate out)

def step (line : String) : String :=
  match words line with
  | "kraus" :: rest => (runKraus rest).getD "bad-op"
  | "gram" :: rest => (runGram rest).getD "bad-op"
  | "run" :: rest => (runRun rest).getD "bad-op"
  | _ => "bad-op"

def main : IO Unit := mainLoop step
