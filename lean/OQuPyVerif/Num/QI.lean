/-
  Gaussian rationals ℚ[i]: the exact complex numbers every tensor model is *run* at.
  (Every binary64 complex number is a Gaussian rational, so float data cross the line
  protocol losslessly.)  The algebraic theorems are generic over a commutative ring;
  the `CommRing`/`StarRing` instances below make them apply to `QI`.
-/
import Mathlib.Algebra.Ring.Defs
import Mathlib.Algebra.Star.Basic
import Mathlib.Tactic.Ring
import Mathlib.Algebra.Order.Field.Rat

namespace OQuPyVerif

@[ext] structure QI where
  re : ℚ
  im : ℚ
deriving DecidableEq, Repr

namespace QI

instance : Zero QI := ⟨⟨0, 0⟩⟩
instance : One QI := ⟨⟨1, 0⟩⟩
instance : Add QI := ⟨fun a b => ⟨a.re + b.re, a.im + b.im⟩⟩
instance : Neg QI := ⟨fun a => ⟨-a.re, -a.im⟩⟩
instance : Sub QI := ⟨fun a b => ⟨a.re - b.re, a.im - b.im⟩⟩
instance : Mul QI := ⟨fun a b => ⟨a.re * b.re - a.im * b.im, a.re * b.im + a.im * b.re⟩⟩

@[simp] theorem zero_re : (0 : QI).re = 0 := rfl
@[simp] theorem zero_im : (0 : QI).im = 0 := rfl
@[simp] theorem one_re : (1 : QI).re = 1 := rfl
@[simp] theorem one_im : (1 : QI).im = 0 := rfl
@[simp] theorem add_re (a b : QI) : (a + b).re = a.re + b.re := rfl
@[simp] theorem add_im (a b : QI) : (a + b).im = a.im + b.im := rfl
@[simp] theorem neg_re (a : QI) : (-a).re = -a.re := rfl
@[simp] theorem neg_im (a : QI) : (-a).im = -a.im := rfl
@[simp] theorem sub_re (a b : QI) : (a - b).re = a.re - b.re := rfl
@[simp] theorem sub_im (a b : QI) : (a - b).im = a.im - b.im := rfl
@[simp] theorem mul_re (a b : QI) : (a * b).re = a.re * b.re - a.im * b.im := rfl
@[simp] theorem mul_im (a b : QI) : (a * b).im = a.re * b.im + a.im * b.re := rfl

instance : CommRing QI where
  add_assoc a b c := by ext <;> simp <;> ring
  zero_add a := by ext <;> simp
  add_zero a := by ext <;> simp
  add_comm a b := by ext <;> simp <;> ring
  mul_assoc a b c := by ext <;> simp <;> ring
  one_mul a := by ext <;> simp
  mul_one a := by ext <;> simp
  mul_comm a b := by ext <;> simp <;> ring
  left_distrib a b c := by ext <;> simp <;> ring
  right_distrib a b c := by ext <;> simp <;> ring
  zero_mul a := by ext <;> simp
  mul_zero a := by ext <;> simp
  neg_add_cancel a := by ext <;> simp
  sub_eq_add_neg a b := by ext <;> simp <;> ring
  nsmul := nsmulRec
  zsmul := zsmulRec

/-- complex conjugation -/
instance : Star QI := ⟨fun a => ⟨a.re, -a.im⟩⟩
@[simp] theorem star_re (a : QI) : (star a).re = a.re := rfl
@[simp] theorem star_im (a : QI) : (star a).im = -a.im := rfl

instance : StarRing QI where
  star_involutive a := by ext <;> simp
  star_mul a b := by ext <;> simp <;> ring
  star_add a b := by ext <;> simp <;> ring

def ofRat (r : ℚ) : QI := ⟨r, 0⟩
def I : QI := ⟨0, 1⟩

end QI
end OQuPyVerif
