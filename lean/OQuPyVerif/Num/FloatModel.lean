/-
  Exact model of IEEE-754 binary64 arithmetic on `Rat` (Mathlib-free).

  Every finite binary64 number is a dyadic rational, so a float is represented
  by the rational it denotes.  `rnd` is round-to-nearest, ties-to-even, at 53
  significant bits.  Overflow, subnormals, NaN and signed zero are NOT modelled
  (all uses are time/step arithmetic in the normal range); this is part of the
  trusted base stated in DESIGN.md §2.7.
-/
namespace OQuPyVerif.FloatModel

/-- `2^k` as a rational for an integer exponent. -/
def pow2 (k : Int) : Rat :=
  if k ≥ 0 then ((2 ^ k.toNat : Nat) : Rat) else 1 / ((2 ^ (-k).toNat : Nat) : Rat)

/-- round half to even of a rational to an integer (numpy `round`, Python `round`). -/
def roundHalfEven (m : Rat) : Int :=
  let f := m.floor
  let r := m - (f : Rat)
  if r < 1/2 then f
  else if r > 1/2 then f + 1
  else if f % 2 = 0 then f else f + 1

/-- Python `int(x)` on a float: truncation toward zero. -/
def truncInt (x : Rat) : Int :=
  if x ≥ 0 then x.floor else -((-x).floor)

/-- floor (numpy `floor`) -/
def floorInt (x : Rat) : Int := x.floor

/-- ceil (numpy `ceil`) -/
def ceilInt (x : Rat) : Int := -((-x).floor)

/-- scaling exponent `sh` such that `2^52 ≤ |x|·2^sh < 2^53` (x ≠ 0). -/
def scaleExp (a : Rat) : Int :=
  let p : Nat := a.num.natAbs
  let q : Nat := a.den
  let e0 : Int := (Nat.log2 p : Int) - (Nat.log2 q : Int)
  let sh : Int := 52 - e0
  let m := a * pow2 sh
  if m ≥ pow2 53 then sh - 1 else if m < pow2 52 then sh + 1 else sh

/-- round-to-nearest-even to 53 significant bits. -/
def rnd (x : Rat) : Rat :=
  if x = 0 then 0 else
  let a : Rat := if x < 0 then -x else x
  let sh := scaleExp a
  let n : Int := roundHalfEven (a * pow2 sh)
  let r : Rat := (n : Rat) * pow2 (-sh)
  if x < 0 then -r else r

/-- `abs` on a float is exact. -/
def fabs (a : Rat) : Rat := if a < 0 then -a else a
def fadd (a b : Rat) : Rat := rnd (a + b)
def fsub (a b : Rat) : Rat := rnd (a - b)
def fmul (a b : Rat) : Rat := rnd (a * b)
def fdiv (a b : Rat) : Rat := rnd (a / b)
/-- Python `float(k)` for an integer of magnitude < 2^53 is exact; `rnd` covers the rest. -/
def ofInt (k : Int) : Rat := rnd (k : Rat)
/-- decimal literal `n / 10^d` as parsed by Python (correctly rounded). -/
def lit (n : Int) (d : Nat) : Rat := rnd ((n : Rat) / ((10 ^ d : Nat) : Rat))

end OQuPyVerif.FloatModel
