/- The invariant of the continuing TEMPO objects: whatever compute calls were made and
   whichever user-callable invocations raised, the object is in the state of a fault-free
   computation of `k` steps (`Canon … k`).  Used by Props/C14. -/
import OQuPyVerif.Lemmas.Histories

namespace OQuPyVerif.Histories
open OQuPyVerif.TimeGrid OQuPyVerif.Generated.LoopOrder

/-- the dynamics holding exactly the grid `0..n`, state `f k` under label `time k` -/
def gridDynOf {σ} (time : Int → Rat) (f : Nat → σ) (n : Nat) : Dyn σ :=
  ⟨(List.range (n+1)).map (fun (k : Nat) => time (k : Int)), (List.range (n+1)).map f⟩

theorem dynAdd_grid {σ} (time : Int → Rat) (hm : ∀ a b : Int, a ≤ b → time a ≤ time b)
    (f : Nat → σ) (n : Nat) :
    dynAdd (gridDynOf time f n) (time ((n : Int) + 1)) (f (n+1)) = gridDynOf time f (n+1) := by
  unfold dynAdd
  have hall : ∀ t ∈ (gridDynOf time f n).times, t ≤ time ((n : Int) + 1) := by
    intro t ht
    simp only [gridDynOf, List.mem_map, List.mem_range] at ht
    obtain ⟨k, hk, rfl⟩ := ht
    apply hm; omega
  simp only []
  rw [bisectRight_all _ _ hall]
  have hl : (gridDynOf time f n).times.length = (gridDynOf time f n).states.length := by
    simp [gridDynOf]
  conv => lhs; rw [insertAt_end, hl, insertAt_end]
  simp [gridDynOf, List.range_succ (n := n+1)]

theorem dynAdd_empty {σ} (t : Rat) (x : σ) (time : Int → Rat) (f : Nat → σ)
    (ht : t = time 0) (hx : x = f 0) :
    dynAdd (Dyn.empty : Dyn σ) t x = gridDynOf time f 0 := by
  subst ht hx
  simp [dynAdd, Dyn.empty, bisectRight, insertAt, gridDynOf]

/-- core after `k` fault-free backend steps from the initialised backend (initial step 0) -/
def canonCore (ops : Int → List MicroOp) : Nat → Core
  | 0 => ⟨0, [], ([], [])⟩
  | k+1 => (backendStep noFault (ops (canonCore ops k).step) ⟨canonCore ops k, 0, []⟩).1.core

theorem backendStep_noFault_step (ops : List MicroOp) (hinc : lastSetStep ops = some ⟨1, 1⟩)
    (b : BState) : (backendStep noFault ops b).1.core.step = b.core.step + 1 := by
  unfold backendStep
  rw [runOps_noFault_step, finalStep_last, hinc]
  simp [Aff.eval]

theorem canonCore_step (ops : Int → List MicroOp)
    (hinc : ∀ k, lastSetStep (ops k) = some ⟨1, 1⟩) (k : Nat) :
    (canonCore ops k).step = (k : Int) := by
  induction k with
  | zero => rfl
  | succ k ih =>
    simp only [canonCore]
    rw [backendStep_noFault_step _ (hinc _), ih]
    omega

/-- the object is exactly what a fault-free computation of `k` steps leaves -/
def Canon (ops : Int → List MicroOp) (time : Int → Rat) (o : Obj) (k : Nat) : Prop :=
  o.started = true ∧ o.b.core = canonCore ops k ∧
  o.dyn = gridDynOf time (fun j => (canonCore ops j).stored) k

/-- either fault-safe code, or no faults at all -/
def Harmless (ops : Int → List MicroOp) (faulty : Oracle) : Prop :=
  (∀ k, faultSafe (ops k) = true) ∨ faulty = noFault

theorem backendStep_cases (ops : Int → List MicroOp) (faulty : Oracle) (hh : Harmless ops faulty)
    (b : BState) (k : Nat) (hc : b.core = canonCore ops k) :
    ((backendStep faulty (ops b.core.step) b).2 = true →
      (backendStep faulty (ops b.core.step) b).1.core = canonCore ops (k+1)) ∧
    ((backendStep faulty (ops b.core.step) b).2 = false →
      (backendStep faulty (ops b.core.step) b).1.core = canonCore ops k) := by
  constructor
  · intro hok
    unfold backendStep at hok ⊢
    have := runOps_ok_core faulty (ops b.core.step) ⟨b.core.step, [], none, false, false⟩ b
      ⟨canonCore ops k, 0, []⟩ hc hok
    rw [this]
    simp only [canonCore, backendStep]
    rw [hc]
  · intro hfail
    rcases hh with hs | hn
    · unfold backendStep at hfail ⊢
      rw [← hc]
      refine runOps_fail_core faulty _ ⟨false, false, false⟩ _ b b.core (hs _) ?_ hfail
      intro _
      simp
    · subst hn
      unfold backendStep at hfail
      rw [runOps_noFault_ok] at hfail
      cases hfail

theorem stepLoop_canon (ops : Int → List MicroOp) (hinc : ∀ k, lastSetStep (ops k) = some ⟨1, 1⟩)
    (time : Int → Rat) (hm : ∀ a b : Int, a ≤ b → time a ≤ time b)
    (faulty : Oracle) (hh : Harmless ops faulty) (n : Nat) (o : Obj) (k : Nat)
    (h : Canon ops time o k) :
    ∃ j, j ≤ n ∧ Canon ops time (stepLoop faulty ops time n o).1 (k + j) ∧
      ((stepLoop faulty ops time n o).2 = true → j = n) := by
  induction n generalizing o k with
  | zero => exact ⟨0, Nat.le_refl _, by simpa [stepLoop] using h, fun _ => rfl⟩
  | succ n ih =>
    obtain ⟨hst, hcore, hdyn⟩ := h
    have hcases := backendStep_cases ops faulty hh o.b k hcore
    simp only [stepLoop]
    by_cases hok : (backendStep faulty (ops o.b.core.step) o.b).2 = true
    · simp only [hok, if_true]
      have hc1 := hcases.1 hok
      have hcanon : Canon ops time
          { o with b := (backendStep faulty (ops o.b.core.step) o.b).1,
                   dyn := dynAdd o.dyn (time (backendStep faulty (ops o.b.core.step) o.b).1.core.step)
                            (backendStep faulty (ops o.b.core.step) o.b).1.core.stored } (k+1) := by
        refine ⟨hst, hc1, ?_⟩
        simp only []
        rw [hc1, hdyn, canonCore_step ops hinc]
        have : ((k + 1 : Nat) : Int) = (k : Int) + 1 := by omega
        rw [this]
        exact dynAdd_grid time hm (fun j => (canonCore ops j).stored) k
      obtain ⟨j, hj, hcj, hfin⟩ := ih _ (k+1) hcanon
      refine ⟨j + 1, by omega, ?_, fun h => by rw [hfin h]⟩
      have : k + (j + 1) = k + 1 + j := by omega
      rw [this]; exact hcj
    · have hf : (backendStep faulty (ops o.b.core.step) o.b).2 = false := by simpa using hok
      simp only [hf]
      refine ⟨0, by omega, ⟨hst, ?_, hdyn⟩, fun h => by simp at h⟩
      exact hcases.2 hf

/-- a freshly constructed object, or an object in a canonical state -/
def Pre (ops : Int → List MicroOp) (time : Int → Rat) (o : Obj) (k : Nat) : Prop :=
  (o.started = false ∧ o.b.core = ⟨0, [], ([], [])⟩ ∧ o.dyn = Dyn.empty ∧ k = 0) ∨
  Canon ops time o k

theorem startObj_canon (ops : Int → List MicroOp) (time : Int → Rat) (o : Obj) (k : Nat)
    (h : Pre ops time o k) : Canon ops time (startObj time 0 o) k := by
  rcases h with ⟨hs, hc, hd, hk⟩ | h
  · subst hk
    unfold startObj
    simp only [hs, Bool.false_eq_true, if_false]
    refine ⟨rfl, ?_, ?_⟩
    · simp [hc, canonCore]
    · simp only [hd, hc]
      exact dynAdd_empty _ _ time _ rfl rfl
  · unfold startObj
    simp only [h.1, if_true]
    exact h

/-- one `compute` call from a fresh or canonical object: the result is canonical, at most the
    requested number of steps further, exactly that many if the call returned normally -/
theorem compute_canon (ops : Int → List MicroOp) (hinc : ∀ k, lastSetStep (ops k) = some ⟨1, 1⟩)
    (numStep : Int → Rat → Int) (time : Int → Rat) (hm : ∀ a b : Int, a ≤ b → time a ≤ time b)
    (faulty : Oracle) (hh : Harmless ops faulty) (o : Obj) (k : Nat)
    (h : Pre ops time o k) (e : Rat) :
    ∃ j, j ≤ (numStep (k : Int) e).toNat ∧
      Canon ops time (compute numStep time 0 ops faulty o e).1 (k + j) ∧
      ((compute numStep time 0 ops faulty o e).2 = true → j = (numStep (k : Int) e).toNat) := by
  have hc := startObj_canon ops time o k h
  unfold compute
  simp only []
  have hstep : (startObj time 0 o).b.core.step = (k : Int) := by
    rw [hc.2.1, canonCore_step ops hinc]
  rw [hstep]
  exact stepLoop_canon ops hinc time hm faulty hh _ _ k hc

/-- a canonical state is determined by its step number -/
theorem canon_view (ops : Int → List MicroOp) (time : Int → Rat) (o o' : Obj) (k : Nat)
    (h : Canon ops time o k) (h' : Canon ops time o' k) : o.view = o'.view := by
  obtain ⟨a, b, c⟩ := h
  obtain ⟨a', b', c'⟩ := h'
  simp [Obj.view, a, a', b, b', c, c']

end OQuPyVerif.Histories
