/- Closing slots with covectors: caps on different slots commute, so the order of a closing
   list does not matter; an operation that turns the covectors of its slots into other
   covectors is absorbed by the closing list. -/
import Mathlib.Data.List.Perm.Basic
import Mathlib.Data.List.Nodup
import OQuPyVerif.Lemmas.TebdDense

namespace OQuPyVerif.Tebd
open Finset BigOperators Function

variable {K : Type} [CommRing K]
set_option linter.unusedSectionVars false

/-- one entry of a closing list as an operation -/
def capOp (x : ℕ × ℕ × (ℕ → K)) : (Config → K) → (Config → K) := applySite x.1 x.2.1 (cov x.2.2)

theorem capAll_cons (x : ℕ × ℕ × (ℕ → K)) (l : List (ℕ × ℕ × (ℕ → K))) (ψ : Config → K) :
    capAll (x :: l) ψ = capOp x (capAll l ψ) := rfl

theorem capAll_append (l1 l2 : List (ℕ × ℕ × (ℕ → K))) (ψ : Config → K) :
    capAll (l1 ++ l2) ψ = capAll l1 (capAll l2 ψ) := by
  simp [capAll, List.foldr_append]

theorem capOp_comm (x y : ℕ × ℕ × (ℕ → K)) (h : x.1 ≠ y.1) (ψ : Config → K) :
    capOp x (capOp y ψ) = capOp y (capOp x ψ) :=
  applySite_comm _ _ h _ _ _ _ _

/-- the order of a closing list (distinct slots) does not matter -/
theorem capAll_perm (l l' : List (ℕ × ℕ × (ℕ → K))) (hp : l.Perm l')
    (hnd : (l.map Prod.fst).Nodup) (ψ : Config → K) : capAll l ψ = capAll l' ψ := by
  unfold capAll
  apply List.Perm.foldr_eq' hp
  intro x hx y hy z
  by_cases hxy : x = y
  · subst hxy; rfl
  · have hne : x.1 ≠ y.1 := fun e => hxy (List.inj_on_of_nodup_map hnd hx hy e)
    exact capOp_comm y x (fun e => hne e.symm) z

theorem nodup_of_slots (l : List (ℕ × ℕ × (ℕ → K))) (hnd : (l.map Prod.fst).Nodup) : l.Nodup :=
  List.Nodup.of_map _ hnd

/-- the entries of two slots can be moved to the end (= applied first) -/
theorem capAll_split (l : List (ℕ × ℕ × (ℕ → K))) (hnd : (l.map Prod.fst).Nodup)
    (xs xt : ℕ × ℕ × (ℕ → K)) (hxs : xs ∈ l) (hxt : xt ∈ l) (hst : xs.1 ≠ xt.1)
    (ψ : Config → K) :
    capAll l ψ
      = capAll (l.filter (fun x => decide (x.1 ≠ xs.1 ∧ x.1 ≠ xt.1))) (capOp xs (capOp xt ψ)) := by
  have hl : l.Nodup := nodup_of_slots l hnd
  have h2 : (l.filter (fun x => !decide (x.1 ≠ xs.1 ∧ x.1 ≠ xt.1))).Perm [xs, xt] := by
    rw [List.perm_ext_iff_of_nodup (hl.filter _)]
    · intro a
      simp only [List.mem_filter, Bool.not_eq_eq_eq_not, Bool.not_true, decide_eq_false_iff_not,
        List.mem_cons, List.not_mem_nil, or_false]
      constructor
      · rintro ⟨ha, hne⟩
        by_cases h1 : a.1 = xs.1
        · exact Or.inl (List.inj_on_of_nodup_map hnd ha hxs h1)
        · by_cases h2 : a.1 = xt.1
          · exact Or.inr (List.inj_on_of_nodup_map hnd ha hxt h2)
          · exact absurd ⟨h1, h2⟩ hne
      · rintro (rfl | rfl)
        · exact ⟨hxs, fun h => h.1 rfl⟩
        · exact ⟨hxt, fun h => h.2 rfl⟩
    · simp only [List.nodup_cons, List.mem_cons, List.not_mem_nil, or_false, not_false_eq_true,
        List.nodup_nil, and_true]
      exact fun e => hst (by rw [e])
  have h1 : l.Perm (l.filter (fun x => decide (x.1 ≠ xs.1 ∧ x.1 ≠ xt.1)) ++ [xs, xt]) :=
    (List.filter_append_perm _ l).symm.trans (List.Perm.append_left _ h2)
  rw [capAll_perm l _ h1 hnd, capAll_append]
  rfl

/-- **absorption**: if an operation `T`, followed by the closing entries `xs`, `xt` of two
    slots, equals the closing entries `xs'`, `xt'` of the same slots, and the closing lists
    `l` (after) and `l'` (before) agree elsewhere, then closing after `T` = closing before. -/
theorem capAll_absorb (l l' : List (ℕ × ℕ × (ℕ → K)))
    (hnd : (l.map Prod.fst).Nodup) (hnd' : (l'.map Prod.fst).Nodup)
    (xs xt xs' xt' : ℕ × ℕ × (ℕ → K))
    (hxs : xs ∈ l) (hxt : xt ∈ l) (hxs' : xs' ∈ l') (hxt' : xt' ∈ l')
    (hs : xs'.1 = xs.1) (ht : xt'.1 = xt.1) (hst : xs.1 ≠ xt.1)
    (hrest : l.filter (fun x => decide (x.1 ≠ xs.1 ∧ x.1 ≠ xt.1))
      = l'.filter (fun x => decide (x.1 ≠ xs.1 ∧ x.1 ≠ xt.1)))
    (T : (Config → K) → (Config → K))
    (habs : ∀ φ, capOp xs (capOp xt (T φ)) = capOp xs' (capOp xt' φ)) (ψ : Config → K) :
    capAll l (T ψ) = capAll l' ψ := by
  rw [capAll_split l hnd xs xt hxs hxt hst, habs, hrest,
    capAll_split l' hnd' xs' xt' hxs' hxt' (by rw [hs, ht]; exact hst), hs, ht]

/-! ### absorption of single operations -/

theorem applySite_congr (s m : ℕ) (M M' : ℕ → ℕ → K) (h : ∀ x a, a < m → M x a = M' x a)
    (ψ : Config → K) : applySite s m M ψ = applySite s m M' ψ := by
  funext c
  simp only [applySite]
  apply Finset.sum_congr rfl
  intro a ha
  rw [h _ a (Finset.mem_range.mp ha)]

theorem applyPair_congr (s t m1 m2 : ℕ) (G G' : ℕ → ℕ → ℕ → ℕ → K)
    (h : ∀ x y a b, a < m1 → b < m2 → G x y a b = G' x y a b) (ψ : Config → K) :
    applyPair s t m1 m2 G ψ = applyPair s t m1 m2 G' ψ := by
  funext c
  simp only [applyPair]
  apply Finset.sum_congr rfl; intro a ha
  apply Finset.sum_congr rfl; intro b hb
  rw [h _ _ a b (Finset.mem_range.mp ha) (Finset.mem_range.mp hb)]

/-- a single-slot map that turns the covector `τ'` into `τ` is absorbed by the cap -/
theorem cap_absorb_site (s m mo : ℕ) (τ τ' : ℕ → K) (M : ℕ → ℕ → K)
    (h : ∀ a, a < m → ∑ x ∈ range mo, τ' x * M x a = τ a) (ψ : Config → K) :
    capOp (s, mo, τ') (applySite s m M ψ) = capOp (s, m, τ) ψ := by
  unfold capOp
  simp only
  rw [applySite_comp]
  apply applySite_congr
  intro x a ha
  simp only [mmul, cov]
  exact h a ha

/-- a pair map that turns the covectors `τs' ⊗ τt'` into `τs ⊗ τt` is absorbed by the two caps -/
theorem cap_absorb_pair (s t : ℕ) (hst : s ≠ t) (m1 m2 o1 o2 : ℕ) (τs τt τs' τt' : ℕ → K)
    (G : ℕ → ℕ → ℕ → ℕ → K)
    (h : ∀ a b, a < m1 → b < m2 →
      ∑ x ∈ range o1, ∑ y ∈ range o2, τs' x * τt' y * G x y a b = τs a * τt b)
    (ψ : Config → K) :
    capOp (s, o1, τs') (capOp (t, o2, τt') (applyPair s t m1 m2 G ψ))
      = capOp (s, m1, τs) (capOp (t, m2, τt) ψ) := by
  unfold capOp
  simp only
  rw [← applyPair_kron s t hst, ← applyPair_kron s t hst, applyPair_comp s t hst]
  apply applyPair_congr
  intro x y a b ha hb
  simp only [pmul, kron, cov]
  exact h a b ha hb

end OQuPyVerif.Tebd
