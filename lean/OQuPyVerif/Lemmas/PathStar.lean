/- Conjugation symmetry of the path sum: the core of Hermiticity preservation (C04). -/
import OQuPyVerif.Lemmas.PathLinear
import Mathlib.Algebra.Star.BigOperators

namespace OQuPyVerif.PathSum
open Finset BigOperators
variable {K : Type} [CommRing K]

/-- an involution of the index range `0..L-1` (the index swap `(i,j) ↦ (j,i)`) -/
structure IsSwap (L : ℕ) (σ : ℕ → ℕ) : Prop where
  lt : ∀ a, a < L → σ a < L
  invol : ∀ a, a < L → σ (σ a) = a

theorem sum_swap {L : ℕ} {σ : ℕ → ℕ} (hσ : IsSwap L σ) (f : ℕ → K) :
    ∑ a ∈ range L, f (σ a) = ∑ a ∈ range L, f a := by
  apply Finset.sum_nbij' σ σ
  · intro a ha; exact Finset.mem_range.mpr (hσ.lt a (Finset.mem_range.mp ha))
  · intro a ha; exact Finset.mem_range.mpr (hσ.lt a (Finset.mem_range.mp ha))
  · intro a ha; exact hσ.invol a (Finset.mem_range.mp ha)
  · intro a ha; exact hσ.invol a (Finset.mem_range.mp ha)
  · intro a _; rfl

theorem pathSum_swap {L : ℕ} {σ : ℕ → ℕ} (hσ : IsSwap L σ) (n : ℕ) (F : List ℕ → K) :
    pathSum L n (fun p => F (p.map σ)) = pathSum L n F := by
  induction n generalizing F with
  | zero => rfl
  | succ n ih =>
    unfold pathSum
    have : ∀ a ∈ range L, pathSum L n (fun p => F ((a :: p).map σ))
        = pathSum L n (fun p => F (σ a :: p)) := by
      intro a _
      simpa using ih (fun p => F (σ a :: p))
    rw [Finset.sum_congr rfl this]
    exact sum_swap hσ (fun a => pathSum L n (fun p => F (a :: p)))

variable [StarRing K]

theorem star_pathSum (L n : ℕ) (F : List ℕ → K) :
    star (pathSum L n F) = pathSum L n (fun p => star (F p)) := by
  induction n generalizing F with
  | zero => rfl
  | succ n ih =>
    unfold pathSum
    rw [star_sum]
    apply Finset.sum_congr rfl
    intro a _
    exact ih _

/-- Hermiticity preservation of a table w.r.t. the swap: `A(σa, σb)* = A(a, b)` -/
def StarSym (L : ℕ) (σ : ℕ → ℕ) (A : ℕ → ℕ → K) : Prop :=
  ∀ a b, a < L → b < L → star (A (σ a) (σ b)) = A a b

theorem starSym_matMul {L : ℕ} {σ : ℕ → ℕ} (hσ : IsSwap L σ) (A B : ℕ → ℕ → K)
    (hA : StarSym L σ A) (hB : StarSym L σ B) : StarSym L σ (matMul L A B) := by
  intro a b ha hb
  unfold matMul
  rw [star_sum, ← sum_swap hσ]
  apply Finset.sum_congr rfl
  intro c hc
  have hc' := Finset.mem_range.mp hc
  rw [star_mul', hA a c ha hc', hB c b hc' hb]

theorem starSym_kernelM {L : ℕ} {σ : ℕ → ℕ} (hσ : IsSwap L σ) (P1 P2 : ℕ → ℕ → ℕ → K)
    (Uin Uout : ℕ → ℕ → K) (h1 : ∀ k, StarSym L σ (P1 k)) (h2 : ∀ k, StarSym L σ (P2 k))
    (hin : StarSym L σ Uin) (hout : StarSym L σ Uout) (k : ℕ) :
    StarSym L σ (kernelM L P1 P2 Uin Uout k) := by
  unfold kernelM
  split
  · exact starSym_matMul hσ _ _ hin (h1 k)
  · exact starSym_matMul hσ _ _ hin
      (starSym_matMul hσ _ _ (h1 k) (starSym_matMul hσ _ _ (h2 (k-1)) hout))

theorem star_inflRow {L : ℕ} {σ : ℕ → ℕ} (I : ℕ → ℕ → ℕ → ℕ → K)
    (hI : ∀ n dk a c, a < L → c < L → star (I n dk (σ a) (σ c)) = I n dk a c)
    (n a : ℕ) (ha : a < L) (j : ℕ) (q : List ℕ) (hq : ∀ c ∈ q, c < L) :
    star (inflRow I n (σ a) j (q.map σ)) = inflRow I n a j q := by
  induction q generalizing j with
  | nil => simp [inflRow]
  | cons c cs ih =>
    cases cs with
    | nil => simp [inflRow]
    | cons c' cs' =>
      simp only [List.map_cons, inflRow] at ih ⊢
      rw [star_mul', hI n j a c ha (hq c (by simp))]
      rw [ih (j+1) (fun x hx => hq x (by simp [List.mem_cons] at hx ⊢; tauto))]

theorem star_weight {L : ℕ} {σ : ℕ → ℕ} (ρ0 : ℕ → K) (M : ℕ → ℕ → ℕ → K)
    (I : ℕ → ℕ → ℕ → ℕ → K)
    (hρ : ∀ a, a < L → star (ρ0 (σ a)) = ρ0 a)
    (hM : ∀ k, StarSym L σ (M k))
    (hI : ∀ n dk a c, a < L → c < L → star (I n dk (σ a) (σ c)) = I n dk a c)
    (p : List ℕ) (hp : ∀ c ∈ p, c < L) :
    star (weight ρ0 M I (p.map σ)) = weight ρ0 M I p := by
  induction p with
  | nil => simp [weight]
  | cons a rest ih =>
    cases rest with
    | nil => simpa [weight] using hρ a (hp a (by simp))
    | cons b rest' =>
      have ha : a < L := hp a (by simp)
      have hb : b < L := hp b (by simp)
      have ih' := ih (fun x hx => hp x (by simp [List.mem_cons] at hx ⊢; tauto))
      simp only [List.map_cons, weight, List.length_map] at ih' ⊢
      rw [star_mul', star_mul', hM _ a b ha hb, ih']
      have := star_inflRow (σ := σ) I hI (rest'.length + 1) a ha 0 (a :: b :: rest') hp
      simp only [List.map_cons] at this
      rw [this]

/-- conjugation symmetry of the tested path state -/
theorem star_pathState {L : ℕ} {σ : ℕ → ℕ} (hσ : IsSwap L σ) (ρ0 : ℕ → K)
    (M : ℕ → ℕ → ℕ → K) (I : ℕ → ℕ → ℕ → ℕ → K)
    (hρ : ∀ a, a < L → star (ρ0 (σ a)) = ρ0 a)
    (hM : ∀ k, StarSym L σ (M k))
    (hI : ∀ n dk a c, a < L → c < L → star (I n dk (σ a) (σ c)) = I n dk a c)
    (n : ℕ) (φ ψ : ℕ → K) (hφ : ∀ a, a < L → star (φ (σ a)) = ψ a) :
    star (pathState L ρ0 M I n φ) = pathState L ρ0 M I n ψ := by
  unfold pathState
  rw [star_pathSum, ← pathSum_swap hσ]
  apply pathSum_congr
  intro p hp
  have hlt := headD_lt_of_isPath hp
  have hhead : (p.map σ).headD 0 = σ (p.headD 0) := by
    obtain ⟨hlen, _⟩ := hp
    match p, hlen with
    | b :: rest, _ => simp
  rw [star_mul', hhead, hφ _ hlt, star_weight ρ0 M I hρ hM hI p hp.2]

end OQuPyVerif.PathSum
