/-
  Helper lemmas for property C18 (controls), chain part: what
  `ChainControl.get_single_site_controls` returns, `PtTebd._apply_controls`, and the step
  structure of `PtTebd.initialize` / `compute_step`.
-/
import OQuPyVerif.Lemmas.Control
import Mathlib.Tactic.Linarith

namespace OQuPyVerif.Control
open OQuPyVerif.Generated.ControlCompose
variable {M S R : Type}

/-! ### ChainControl -/

/-- the operators registered for `(site, step)` in insertion order -/
def siteOps (l : List (ChainEntry M)) (step : Int) (i : Nat) : List M :=
  (l.filter (fun e => e.step == step && e.site == i)).map (·.op)

theorem chainAccum_length [Mul M] (ctrls : List (Option M)) (e : ChainEntry M) :
    (chainAccum ctrls e).length = ctrls.length := by
  unfold chainAccum
  split <;> simp

theorem foldl_chainAccum_length [Mul M] (hits : List (ChainEntry M)) (ctrls : List (Option M)) :
    (hits.foldl chainAccum ctrls).length = ctrls.length := by
  induction hits generalizing ctrls with
  | nil => rfl
  | cons e r ih => simp [List.foldl_cons, ih, chainAccum_length]

/-- what one slot holds after a further entry -/
def slotStep [Mul M] (o : Option M) (c : M) : Option M :=
  match o with
  | some acc => some (combine chainGet c acc)
  | none => some c

theorem chainAccum_get [Mul M] (ctrls : List (Option M)) (e : ChainEntry M) (i : Nat)
    (hi : i < ctrls.length) :
    (chainAccum ctrls e)[i]? = if e.site = i then some (slotStep (ctrls[i]'hi) e.op) else ctrls[i]? := by
  unfold chainAccum
  by_cases h : e.site = i
  · subst h
    simp only [if_true]
    have : ctrls[e.site]? = some (ctrls[e.site]'hi) := List.getElem?_eq_getElem hi
    rw [this]
    cases hc : ctrls[e.site]'hi with
    | none => simp [slotStep, List.getElem?_set_self hi]
    | some acc => simp [slotStep, List.getElem?_set_self hi]
  · simp only [h, if_false]
    split <;> simp [List.getElem?_set_ne h]

theorem foldl_chainAccum_get [Mul M] (hits : List (ChainEntry M)) (ctrls : List (Option M)) (i : Nat)
    (hi : i < ctrls.length) :
    (hits.foldl chainAccum ctrls)[i]? =
      some (((hits.filter (fun e => e.site == i)).map (·.op)).foldl slotStep (ctrls[i]'hi)) := by
  induction hits generalizing ctrls with
  | nil => simp [List.getElem?_eq_getElem hi]
  | cons e r ih =>
    rw [List.foldl_cons]
    have hl : i < (chainAccum ctrls e).length := by rw [chainAccum_length]; exact hi
    rw [ih (chainAccum ctrls e) hl]
    have hg := chainAccum_get ctrls e i hi
    rw [List.getElem?_eq_getElem hl] at hg
    by_cases h : e.site = i
    · simp only [h, if_true, Option.some.injEq] at hg
      simp [h, hg]
    · simp only [h, if_false, List.getElem?_eq_getElem hi, Option.some.injEq] at hg
      simp [h, hg]

theorem foldl_slotStep [Monoid M] (hc : chainGet = Side.newLeft) (ops : List M) (o : Option M) :
    ops.foldl slotStep o = match o with
      | none => bucket ops
      | some a => some (seqProd ops * a) := by
  induction ops generalizing o with
  | nil => cases o <;> simp [bucket]
  | cons c r ih =>
    rw [List.foldl_cons, ih]
    cases o with
    | none => simp [slotStep, bucket]
    | some a => simp [slotStep, hc, combine, mul_assoc]

theorem chain_fold_eq [Monoid M] (hc : chainGet = Side.newLeft) (l : List (ChainEntry M)) (n : Nat)
    (step : Int) :
    (l.filter (fun e => e.step == step)).foldl chainAccum (List.replicate n none)
      = (List.range n).map (fun i => bucket (siteOps l step i)) := by
  apply List.ext_getElem?
  intro i
  by_cases hi : i < n
  · have hl : i < (List.replicate n (none : Option M)).length := by simpa using hi
    rw [foldl_chainAccum_get _ _ i hl, foldl_slotStep hc]
    simp only [List.getElem_replicate]
    rw [List.getElem?_map, List.getElem?_range hi]
    simp only [Option.map_some, siteOps, List.filter_filter, Bool.and_comm]
  · rw [List.getElem?_eq_none (by rw [foldl_chainAccum_length]; simpa using hi),
      List.getElem?_eq_none (by simpa using hi)]

/-- the list the chain control keeps for `post` -/
def ChainCtl.side (c : ChainCtl M) (post : Bool) : List (ChainEntry M) :=
  if !post then c.pre else c.post

/-- `get_single_site_controls(step, post)`: `None` when nothing is registered for the step; else a
    list of length `n` whose slot `i` holds the product of the operators registered for
    `(i, step)` in insertion order (first added acts first), `None` if there is none. -/
theorem chain_get_eq [Monoid M] (hc : chainGet = Side.newLeft) (c : ChainCtl M) (n : Nat) (step : Int)
    (post : Bool) :
    c.get n step post =
      if ((c.side post).filter (fun e => e.step == step)).isEmpty then none
      else some ((List.range n).map (fun i => bucket (siteOps (c.side post) step i))) := by
  unfold ChainCtl.get ChainCtl.side
  simp only [chain_fold_eq hc]

/-! ### PtTebd -/

/-- apply, site after site, the optional operator `g i` of every site `i < n` -/
def applySites (act : Nat → M → S → S) (g : Nat → Option M) (n : Nat) (x : S) : S :=
  (List.range n).foldl (fun x i => match g i with
    | none => x
    | some a => act i a x) x

theorem applySiteControls_range' (act : Nat → M → S → S) (g : Nat → Option M) (j n : Nat) (x : S) :
    applySiteControls act j ((List.range' j n).map g) x =
      (List.range' j n).foldl (fun x i => match g i with
        | none => x
        | some a => act i a x) x := by
  induction n generalizing j x with
  | zero => simp [applySiteControls]
  | succ n ih =>
    rw [List.range'_succ, List.map_cons, List.foldl_cons]
    cases h : g j with
    | none => simp only [applySiteControls]; exact ih (j + 1) x
    | some a => simp only [applySiteControls]; exact ih (j + 1) (act j a x)

theorem applySites_none (act : Nat → M → S → S) (g : Nat → Option M) (n : Nat) (x : S)
    (h : ∀ i, g i = none) : applySites act g n x = x := by
  unfold applySites
  induction n with
  | zero => simp
  | succ n ih => rw [List.range_succ, List.foldl_append, ih]; simp [h]

/-- `_apply_controls(step, post)`: on every site, the product (in insertion order) of the
    operators registered for that site and step acts, if there is any. -/
theorem applyControls_eq [Monoid M] (hc : chainGet = Side.newLeft) (e : TebdEnv M S R) (step : Int)
    (post : Bool) (x : S) :
    applyControls e step post x =
      applySites e.actSite (fun i => bucket (siteOps (e.ctl.side post) step i)) e.n x := by
  unfold applyControls
  rw [chain_get_eq hc]
  by_cases h : ((e.ctl.side post).filter (fun e => e.step == step)).isEmpty = true
  · rw [if_pos h]
    symm
    apply applySites_none
    intro i
    have h' : (e.ctl.side post).filter (fun e => e.step == step) = [] := by simpa using h
    have : siteOps (e.ctl.side post) step i = [] := by
      unfold siteOps
      rw [List.map_eq_nil_iff, List.filter_eq_nil_iff]
      intro a ha hcond
      rw [List.filter_eq_nil_iff] at h'
      exact h' a ha (by simp only [Bool.and_eq_true] at hcond; exact hcond.1)
    simp [this, bucket]
  · rw [if_neg h]
    simp only
    unfold applySites
    rw [List.range_eq_range', applySiteControls_range']

theorem iter_succ' {α : Type} (f : α → α) (n : Nat) (x : α) : iter f (n + 1) x = f (iter f n x) := by
  induction n generalizing x with
  | zero => rfl
  | succ n ih => rw [iter, ih (f x)]; rfl

/-- one full PT-TEBD step on the state that enters step `s` -/
def tebdStep [Mul M] (e : TebdEnv M S R) (s : Int) (y : S) : S :=
  e.layers (e.pts (s + 1) (e.layers (applyControls e s true (applyControls e s false y))))

/-- the chain state entering the `k`-th step after `startStep` (before its pre-controls) -/
def tebdTraj [Mul M] (e : TebdEnv M S R) (s0 : Int) (x0 : S) : Nat → S
  | 0 => x0
  | k + 1 => tebdStep e (s0 + k) (tebdTraj e s0 x0 k)

/-- what is recorded for the `k`-th step after `startStep` -/
def tebdSeen [Mul M] (e : TebdEnv M S R) (s0 : Int) (x0 : S) (k : Nat) : R :=
  e.obs (s0 + k) (applyControls e (s0 + k) false (tebdTraj e s0 x0 k))

theorem tebd_init [Mul M] (e : TebdEnv M S R) (s0 : Int) (x0 : S) :
    execTebd e tebdInitialize ⟨s0, x0, []⟩ =
      ⟨s0, applyControls e s0 false x0, [e.obs s0 (applyControls e s0 false x0)]⟩ := by
  simp [execTebd, tebdInitialize, execTebdOp]

theorem tebd_step [Mul M] (e : TebdEnv M S R) (s : Int) (y : S) (r : List R) :
    execTebd e tebdComputeStep ⟨s, applyControls e s false y, r⟩ =
      ⟨s + 1, applyControls e (s + 1) false (tebdStep e s y),
        r ++ [e.obs (s + 1) (applyControls e (s + 1) false (tebdStep e s y))]⟩ := by
  simp [execTebd, tebdComputeStep, execTebdOp, tebdStep]

theorem tebdRun_state [Mul M] (e : TebdEnv M S R) (s0 : Int) (x0 : S) (n : Nat) :
    iter (execTebd e tebdComputeStep) n (execTebd e tebdInitialize ⟨s0, x0, []⟩) =
      ⟨s0 + n, applyControls e (s0 + n) false (tebdTraj e s0 x0 n),
        (List.range (n + 1)).map (tebdSeen e s0 x0)⟩ := by
  induction n with
  | zero => rw [iter, tebd_init]; simp [tebdTraj, tebdSeen]
  | succ n ih =>
    rw [iter_succ', ih, tebd_step]
    have : s0 + (n : Int) + 1 = s0 + ((n + 1 : Nat) : Int) := by push_cast; ring
    rw [List.range_succ (n := n + 1), List.map_append]
    simp only [tebdTraj, tebdSeen, this, List.map_cons, List.map_nil]

theorem tebdRun_eq [Mul M] (e : TebdEnv M S R) (s0 : Int) (x0 : S) (n : Nat) :
    tebdRun e s0 x0 n = (List.range (n + 1)).map (tebdSeen e s0 x0) := by
  unfold tebdRun
  rw [tebdRun_state]

/-! ### object lifetime -/

def addsToOps (adds : List (ChainEntry M × Bool)) : List (TebdHistOp M) :=
  adds.map (fun a => TebdHistOp.add a.1.op a.1.site a.1.step a.2)

def addAll (c : ChainCtl M) (adds : List (ChainEntry M × Bool)) : ChainCtl M :=
  adds.foldl (fun c a => c.add a.1.op a.1.site a.1.step a.2) c

theorem foldl_adds [Mul M] (base : TebdEnv M S R) (s0 : Int) (x0 : S) (o : TebdObj M S R)
    (adds : List (ChainEntry M × Bool)) :
    (addsToOps adds).foldl (tebdHistStep base s0 x0) o = { o with ctl := addAll o.ctl adds } := by
  induction adds generalizing o with
  | nil => rfl
  | cons a r ih =>
    simp only [addsToOps, List.map_cons, List.foldl_cons, addAll] at ih ⊢
    rw [ih]
    rfl

theorem history_add_then_compute [Mul M] (base : TebdEnv M S R) (c0 : ChainCtl M) (s0 : Int) (x0 : S)
    (adds : List (ChainEntry M × Bool)) (n : Nat) :
    tebdHistory base c0 s0 x0 (addsToOps adds ++ [TebdHistOp.compute (s0 + n)])
      = tebdRun { base with ctl := addAll c0 adds } s0 x0 n := by
  unfold tebdHistory
  rw [List.foldl_append, foldl_adds]
  simp only [List.foldl_cons, List.foldl_nil, tebdHistStep, tebdRun]
  have hstep : (execTebd { base with ctl := addAll c0 adds } tebdInitialize
      ⟨s0, x0, []⟩).step = s0 := by
    rw [tebd_init]
  rw [hstep]
  have : (s0 + (n : Int) - s0).toNat = n := by
    rw [add_sub_cancel_left]; exact Int.toNat_natCast n
  rw [this]

/-! ### identity operators on a chain -/

theorem applySites_congr (act : Nat → M → S → S) (g g' : Nat → Option M) (n : Nat) (x : S)
    (h : ∀ i y, (match g i with | none => y | some a => act i a y)
              = (match g' i with | none => y | some a => act i a y)) :
    applySites act g n x = applySites act g' n x := by
  unfold applySites
  congr 1
  funext y i
  exact h i y

theorem siteOps_insert (l₁ l₂ : List (ChainEntry M)) (e0 : ChainEntry M) (step : Int) (i : Nat) :
    siteOps (l₁ ++ e0 :: l₂) step i
      = siteOps l₁ step i ++ (if (e0.step == step && e0.site == i) = true then [e0.op] else [])
        ++ siteOps l₂ step i := by
  unfold siteOps
  rw [List.filter_append, List.filter_cons]
  split <;> simp

/-- an identity operator registered anywhere for any site and step changes the action of
    `_apply_controls` at no step (given that the site gate of the identity is the identity map) -/
theorem applyControls_insert_one [Monoid M] (hc : chainGet = Side.newLeft) (e e' : TebdEnv M S R)
    (hn : e.n = e'.n) (ha : e.actSite = e'.actSite)
    (hact1 : ∀ i x, e.actSite i 1 x = x) (post : Bool) (l₁ l₂ : List (ChainEntry M))
    (site : Nat) (s : Int) (h : e.ctl.side post = l₁ ++ ⟨site, s, 1⟩ :: l₂)
    (h' : e'.ctl.side post = l₁ ++ l₂) (step : Int) (x : S) :
    applyControls e step post x = applyControls e' step post x := by
  rw [applyControls_eq hc, applyControls_eq hc, h, h', ← hn, ← ha]
  apply applySites_congr
  intro i y
  rw [siteOps_insert]
  have h0 : siteOps (l₁ ++ l₂) step i = siteOps l₁ step i ++ siteOps l₂ step i := by
    unfold siteOps; rw [List.filter_append, List.map_append]
  rw [h0]
  by_cases hcnd : ((s == step && site == i) = true)
  · simp only [hcnd, if_true]
    by_cases hem : siteOps l₁ step i ++ siteOps l₂ step i = []
    · have h1 : siteOps l₁ step i = [] := (List.append_eq_nil_iff.1 hem).1
      have h2 : siteOps l₂ step i = [] := (List.append_eq_nil_iff.1 hem).2
      simp [h1, h2, bucket, hact1]
    · have hne : siteOps l₁ step i ++ [(1 : M)] ++ siteOps l₂ step i ≠ [] := by simp
      simp only [bucket, List.isEmpty_iff, hem, hne, if_false]
      simp [seqProd_append]
  · simp only [hcnd]
    simp

end OQuPyVerif.Control
