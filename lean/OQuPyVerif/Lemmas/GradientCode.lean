/- The code layer of the adjoint gradient (regenerated wiring) expressed through the
   specification layer: one environment, two environments (either backward order) (C08). -/
import OQuPyVerif.Lemmas.GradientAdjoint

namespace OQuPyVerif.Grad
open Finset BigOperators OQuPyVerif.Generated.GradWiring
set_option linter.unusedSectionVars false
variable {K : Type} [CommRing K] {ι : Type}

/-! ### the regenerated axis numbers, read as index conventions -/

/-- `_apply_pt_mpos`: past bond = axis 0, future bond = axis 1, input = axis 2, output = axis 3 -/
theorem axGet_apply (T : Tensor4 K) (b b' i o : ℕ) : axGet applyAxes T b b' i o = T b b' i o := rfl

theorem axGet_derivFirst (T : Tensor4 K) (b b' i o : ℕ) :
    axGet derivFirstAxes T b b' i o = T b b' i o := rfl

theorem axGet_derivRest (T : Tensor4 K) (b b' i o : ℕ) :
    axGet derivRestAxes T b b' i o = T b b' i o := rfl

/-- `_get_pt_mpos_backprop`: bond legs exchanged and system legs exchanged -/
theorem backTensor_apply (T : Tensor4 K) (a0 a1 a2 a3 : ℕ) :
    backTensor T a0 a1 a2 a3 = T a1 a0 a3 a2 := rfl

/-- `_apply_system_superoperator` applies its argument as a matrix to the system leg -/
theorem codeSys_eq (L : ℕ) (M : ℕ → ℕ → K) (X : ι → ℕ → K) : codeSys L M X = sysJ L M X := rfl

/-! ### one environment -/

theorem applyPtMpos_one (L : ℕ) (r : Bool) (D D' : ℕ) (T : Tensor4 K) (X : ℕ → ℕ → K) :
    applyPtMpos L r [{ slot := slot1, dIn := D, dOut := D', T := T }] X = bondJ L (range D) T X := by
  cases r <;> rfl

theorem applyPtMpos_back_one (L : ℕ) (r : Bool) (D D' : ℕ) (T : Tensor4 K) (Y : ℕ → ℕ → K) :
    applyPtMpos L r (backEnvs [{ slot := slot1, dIn := D, dOut := D', T := T }]) Y
      = bondJT L (range D') T Y := by
  cases r <;> rfl

theorem codeStep_one (L : ℕ) (D : ℕ → ℕ) (T : ℕ → Tensor4 K) (A B : ℕ → ℕ → K) (k : ℕ)
    (X : ℕ → ℕ → K) :
    codeStep L (envs1 D T k) A B X = jStep L (range (D k)) (T k) A B X := by
  unfold codeStep envs1 jStep
  rw [applyPtMpos_one]; rfl

theorem codeBackStep_one (L : ℕ) (D : ℕ → ℕ) (T : ℕ → Tensor4 K) (A B : ℕ → ℕ → K) (k : ℕ)
    (Y : ℕ → ℕ → K) :
    codeBackStep L (envs1 D T k) A B Y = jStepT L (range (D (k+1))) (T k) A B Y := by
  unfold codeBackStep envs1 jStepT
  rw [applyPtMpos_back_one]; rfl

theorem codeFwd_one (L : ℕ) (D : ℕ → ℕ) (T : ℕ → Tensor4 K) (A B : ℕ → ℕ → ℕ → K)
    (X0 : ℕ → ℕ → K) (k : ℕ) :
    codeFwd L (envs1 D T) A B X0 k = jFwd L (fun k => range (D k)) T A B X0 k := by
  induction k with
  | zero => rfl
  | succ k ih => simp only [codeFwd, jFwd, ih, codeStep_one]

theorem codeBwd_one (L : ℕ) (D : ℕ → ℕ) (T : ℕ → Tensor4 K) (A B : ℕ → ℕ → ℕ → K)
    (tgt : ℕ → ℕ → K) (N m : ℕ) (hm : m ≤ N) :
    codeBwd L (envs1 D T) A B tgt N m = jBwd L (fun k => range (D k)) T A B tgt N m := by
  induction m with
  | zero => rfl
  | succ m ih =>
    simp only [codeBwd, jBwd, ih (by omega), codeBackStep_one]
    have : N - m - 1 + 1 = N - m := by omega
    rw [this]

theorem codeDeriv1_eq (D D' : ℕ) (T : Tensor4 K) (X Y : ℕ → ℕ → K) :
    codeDeriv1 D D' T X Y = jDeriv (range D) (range D') T X Y := rfl

/-- with one environment the forward tensors are those of `compute_dynamics` -/
theorem jFwd_eq_mpoState (L : ℕ) (D : ℕ → ℕ) (T : ℕ → Tensor4 K) (A B : ℕ → ℕ → ℕ → K)
    (ρ0 : ℕ → K) (k : ℕ) :
    jFwd L (fun k => range (D k)) T A B (init1 ρ0) k = PT.mpoState L D T A B ρ0 k := by
  induction k with
  | zero => rfl
  | succ k ih => simp only [jFwd, PT.mpoState, ih]; rfl

/-! ### two environments -/

theorem apply2_fwd (L D0 D1 D0' D1' : ℕ) (T0 T1 : Tensor4 K) (X : ℕ × ℕ → ℕ → K) :
    applyPtMpos L false
        [{ slot := slotFst, dIn := D0, dOut := D0', T := T0 },
         { slot := slotSnd, dIn := D1, dOut := D1', T := T1 }] X
      = bondJ L (range D0 ×ˢ range D1) (G2 L T0 T1) X := by
  funext β' o
  simp only [applyPtMpos, Bool.false_eq_true, if_false, List.foldl_cons, List.foldl_nil,
    applyMpoAt, axGet_apply, slotFst, slotSnd, bondJ, G2]
  rw [Finset.sum_product]
  simp only [Finset.mul_sum, Finset.sum_mul]
  -- left: Σ b1 Σ m Σ b0 Σ i ;  right: Σ b0 Σ b1 Σ i Σ m
  rw [sum_pull3]
  apply Finset.sum_congr rfl; intro b0 _
  apply Finset.sum_congr rfl; intro b1 _
  rw [Finset.sum_comm]
  apply Finset.sum_congr rfl; intro i _
  apply Finset.sum_congr rfl; intro m _
  ring

/-- the backward application, environments in list order (`r = false`) or reversed (`r = true`) -/
theorem apply2_back (L D0 D1 D0' D1' : ℕ) (T0 T1 : Tensor4 K) (r : Bool) (Y : ℕ × ℕ → ℕ → K) :
    applyPtMpos L r (backEnvs
        [{ slot := slotFst, dIn := D0, dOut := D0', T := T0 },
         { slot := slotSnd, dIn := D1, dOut := D1', T := T1 }]) Y
      = bondJT L (range D0' ×ˢ range D1') (if r then G2 L T0 T1 else G2swap L T0 T1) Y := by
  funext β i
  cases r
  · simp only [applyPtMpos, backEnvs, List.map_cons, List.map_nil, Bool.false_eq_true, if_false,
      List.foldl_cons, List.foldl_nil, applyMpoAt, axGet_apply, backTensor_apply, slotFst, slotSnd,
      bondJT, G2swap]
    rw [Finset.sum_product]
    simp only [Finset.mul_sum, Finset.sum_mul]
    -- left: Σ b1' Σ m Σ b0' Σ o ;  right: Σ b0' Σ b1' Σ o Σ m
    rw [sum_pull3]
    apply Finset.sum_congr rfl; intro b0 _
    apply Finset.sum_congr rfl; intro b1 _
    rw [Finset.sum_comm]
    apply Finset.sum_congr rfl; intro o _
    apply Finset.sum_congr rfl; intro m _
    ring
  · simp only [applyPtMpos, backEnvs, List.map_cons, List.map_nil, if_true, List.reverse_cons,
      List.reverse_nil, List.nil_append, List.cons_append, List.foldl_cons, List.foldl_nil,
      applyMpoAt, axGet_apply, backTensor_apply, slotFst, slotSnd, bondJT, G2]
    rw [Finset.sum_product]
    simp only [Finset.mul_sum, Finset.sum_mul]
    -- left: Σ b0' Σ m Σ b1' Σ o ;  right: Σ b0' Σ b1' Σ o Σ m
    apply Finset.sum_congr rfl; intro b0 _
    rw [Finset.sum_comm]
    apply Finset.sum_congr rfl; intro b1 _
    rw [Finset.sum_comm]
    apply Finset.sum_congr rfl; intro o _
    apply Finset.sum_congr rfl; intro m _
    ring

/-- the combined tensor the code's backward pass effectively transposes -/
def G2back (L : ℕ) (T0 T1 : Tensor4 K) : ℕ × ℕ → ℕ × ℕ → ℕ → ℕ → K :=
  if bwdEnvReversed then G2 L T0 T1 else G2swap L T0 T1

theorem codeStep_two (L : ℕ) (D0 D1 : ℕ → ℕ) (T0 T1 : ℕ → Tensor4 K) (A B : ℕ → ℕ → K) (k : ℕ)
    (X : ℕ × ℕ → ℕ → K) :
    codeStep L (envs2 D0 D1 T0 T1 k) A B X = jStep L (S2 D0 D1 k) (G2 L (T0 k) (T1 k)) A B X := by
  unfold codeStep envs2 jStep S2
  rw [apply2_fwd]; rfl

theorem codeBackStep_two (L : ℕ) (D0 D1 : ℕ → ℕ) (T0 T1 : ℕ → Tensor4 K) (A B : ℕ → ℕ → K) (k : ℕ)
    (Y : ℕ × ℕ → ℕ → K) :
    codeBackStep L (envs2 D0 D1 T0 T1 k) A B Y
      = jStepT L (S2 D0 D1 (k+1)) (G2back L (T0 k) (T1 k)) A B Y := by
  unfold codeBackStep envs2 jStepT S2 G2back
  rw [apply2_back]; rfl

theorem codeFwd_two (L : ℕ) (D0 D1 : ℕ → ℕ) (T0 T1 : ℕ → Tensor4 K) (A B : ℕ → ℕ → ℕ → K)
    (X0 : ℕ × ℕ → ℕ → K) (k : ℕ) :
    codeFwd L (envs2 D0 D1 T0 T1) A B X0 k
      = jFwd L (S2 D0 D1) (fun k => G2 L (T0 k) (T1 k)) A B X0 k := by
  induction k with
  | zero => rfl
  | succ k ih => simp only [codeFwd, jFwd, ih, codeStep_two]

/-- the code's backward tensors are the specification backward tensors of the combined tensor
    `G2back` (which is `G2`, the forward one, exactly when the environments are visited in
    reversed order) -/
theorem codeBwd_two (L : ℕ) (D0 D1 : ℕ → ℕ) (T0 T1 : ℕ → Tensor4 K) (A B : ℕ → ℕ → ℕ → K)
    (tgt : ℕ × ℕ → ℕ → K) (N m : ℕ) (hm : m ≤ N) :
    codeBwd L (envs2 D0 D1 T0 T1) A B tgt N m
      = jBwd L (S2 D0 D1) (fun k => G2back L (T0 k) (T1 k)) A B tgt N m := by
  induction m with
  | zero => rfl
  | succ m ih =>
    simp only [codeBwd, jBwd, ih (by omega), codeBackStep_two]
    have : N - m - 1 + 1 = N - m := by omega
    rw [this]

theorem codeDeriv2_eq (L D0 D1 D0' D1' : ℕ) (T0 T1 : Tensor4 K) (X Y : ℕ × ℕ → ℕ → K) :
    codeDeriv2 L D0 D1 D0' D1' T0 T1 X Y
      = jDeriv (range D0 ×ˢ range D1) (range D0' ×ˢ range D1') (G2 L T0 T1) X Y := rfl

/-- commutation of the two environments' tensors on the system leg -/
def Commute2 (L : ℕ) (T0 T1 : Tensor4 K) : Prop :=
  ∀ b0 b0' b1 b1' i o, ∑ m ∈ range L, T0 b0 b0' i m * T1 b1 b1' m o
    = ∑ m ∈ range L, T1 b1 b1' i m * T0 b0 b0' m o

theorem G2swap_eq_of_commute (L : ℕ) (T0 T1 : Tensor4 K) (h : Commute2 L T0 T1) :
    G2swap L T0 T1 = G2 L T0 T1 := by
  funext β β' i o
  exact (h β.1 β'.1 β.2 β'.2 i o).symm

/-! ### the chain rule -/

theorem chainEven_eq (L : ℕ) (Dv : Tensor4 K) (P1 P2 dP1 dP2 : ℕ → ℕ → K) :
    chainEven L Dv P1 P2 dP1 dP2 = chainFirst L Dv dP1 P2 := rfl

theorem chainOdd_eq (L : ℕ) (Dv : Tensor4 K) (P1 P2 dP1 dP2 : ℕ → ℕ → K) :
    chainOdd L Dv P1 P2 dP1 dP2 = chainSecond L Dv P1 dP2 := rfl

end OQuPyVerif.Grad
