/- C03: exchanging commuting environments in the list changes no recorded state. -/
import OQuPyVerif.Model.MultiEnv
import Mathlib.Tactic.Ring
import Mathlib.Tactic.Linarith

namespace OQuPyVerif.MultiEnv
open Finset BigOperators OQuPyVerif.PathSum OQuPyVerif.PT OQuPyVerif.Generated.MpoWiring
variable {K : Type} [CommRing K]

theorem CommuteOn.symm {L : ℕ} {e1 e2 : EnvMpo K} (h : CommuteOn L e1 e2) : CommuteOn L e2 e1 :=
  fun k b1 b1' b2 b2' i o => (h k b2 b2' b1 b1' i o).symm

theorem swapAt_swapAt : ∀ (j : ℕ) (l : List ℕ), swapAt j (swapAt j l) = l
  | 0, [] => rfl
  | 0, [_] => rfl
  | 0, _ :: _ :: _ => rfl
  | _+1, [] => rfl
  | j+1, x :: r => by simp [swapAt, swapAt_swapAt j r]

theorem swapAt_sum : ∀ (j : ℕ) (l : List ℕ), (swapAt j l).sum = l.sum
  | 0, [] => rfl
  | 0, [_] => rfl
  | 0, x :: y :: r => by simp [swapAt]; omega
  | _+1, [] => rfl
  | j+1, x :: r => by simp [swapAt, swapAt_sum j r]

theorem envRec_swap_head (L k : ℕ) (e1 e2 : EnvMpo K) (h : CommuteOn L e1 e2)
    (post : List (EnvMpo K)) (X : List ℕ → ℕ → K) (bs : List ℕ) (o : ℕ) :
    envRec L k (e1 :: e2 :: post) X bs o =
      envRec L k (e2 :: e1 :: post) (fun bt => X (swapAt 0 bt)) (swapAt 0 bs) o := by
  match bs with
  | [] => rfl
  | [_] => rfl
  | b1' :: b2' :: bq =>
    simp only [envRec, swapAt]
    congr 1
    funext bt m
    simp only [Finset.mul_sum]
    -- left:  Σ_b2 Σ_i2 Σ_b1 Σ_i  T2 b2 b2' i2 m * (T1 b1 b1' i i2 * X (b1::b2::bt) i)
    -- right: Σ_b1 Σ_i1 Σ_b2 Σ_i  T1 b1 b1' i1 m * (T2 b2 b2' i i1 * X (b1::b2::bt) i)
    have hl : ∀ b2 ∈ range (e2.D k), ∀ b1 ∈ range (e1.D k),
        ∑ i2 ∈ range L, ∑ i ∈ range L, e2.T k b2 b2' i2 m * (e1.T k b1 b1' i i2 * X (b1 :: b2 :: bt) i)
        = ∑ i ∈ range L, (∑ i2 ∈ range L, e1.T k b1 b1' i i2 * e2.T k b2 b2' i2 m) * X (b1 :: b2 :: bt) i := by
      intro b2 _ b1 _
      rw [Finset.sum_comm]
      apply Finset.sum_congr rfl; intro i _
      rw [Finset.sum_mul]
      apply Finset.sum_congr rfl; intro i2 _
      ring
    have hr : ∀ b1 ∈ range (e1.D k), ∀ b2 ∈ range (e2.D k),
        ∑ i1 ∈ range L, ∑ i ∈ range L, e1.T k b1 b1' i1 m * (e2.T k b2 b2' i i1 * X (b1 :: b2 :: bt) i)
        = ∑ i ∈ range L, (∑ i1 ∈ range L, e2.T k b2 b2' i i1 * e1.T k b1 b1' i1 m) * X (b1 :: b2 :: bt) i := by
      intro b1 _ b2 _
      rw [Finset.sum_comm]
      apply Finset.sum_congr rfl; intro i _
      rw [Finset.sum_mul]
      apply Finset.sum_congr rfl; intro i1 _
      ring
    calc ∑ b2 ∈ range (e2.D k), ∑ i2 ∈ range L, ∑ b1 ∈ range (e1.D k), ∑ i ∈ range L,
            e2.T k b2 b2' i2 m * (e1.T k b1 b1' i i2 * X (b1 :: b2 :: bt) i)
        = ∑ b2 ∈ range (e2.D k), ∑ b1 ∈ range (e1.D k), ∑ i ∈ range L,
            (∑ i2 ∈ range L, e1.T k b1 b1' i i2 * e2.T k b2 b2' i2 m) * X (b1 :: b2 :: bt) i := by
          apply Finset.sum_congr rfl; intro b2 hb2
          rw [Finset.sum_comm]
          exact Finset.sum_congr rfl (fun b1 hb1 => hl b2 hb2 b1 hb1)
      _ = ∑ b1 ∈ range (e1.D k), ∑ b2 ∈ range (e2.D k), ∑ i ∈ range L,
            (∑ i1 ∈ range L, e2.T k b2 b2' i i1 * e1.T k b1 b1' i1 m) * X (b1 :: b2 :: bt) i := by
          rw [Finset.sum_comm]
          apply Finset.sum_congr rfl; intro b1 _
          apply Finset.sum_congr rfl; intro b2 _
          apply Finset.sum_congr rfl; intro i _
          rw [h k b1 b1' b2 b2' i m]
      _ = _ := by
          apply Finset.sum_congr rfl; intro b1 hb1
          conv_rhs => rw [Finset.sum_comm]
          exact (Finset.sum_congr rfl (fun b2 hb2 => hr b1 hb1 b2 hb2)).symm

theorem envRec_swap (L k : ℕ) (e1 e2 : EnvMpo K) (h : CommuteOn L e1 e2)
    (post : List (EnvMpo K)) : ∀ (pre : List (EnvMpo K)) (X : List ℕ → ℕ → K) (bs : List ℕ) (o : ℕ),
    envRec L k (pre ++ e1 :: e2 :: post) X bs o =
      envRec L k (pre ++ e2 :: e1 :: post) (fun bt => X (swapAt pre.length bt))
        (swapAt pre.length bs) o := by
  intro pre
  induction pre with
  | nil => intro X bs o; exact envRec_swap_head L k e1 e2 h post X bs o
  | cons p pre ih =>
    intro X bs o
    match bs with
    | [] => rfl
    | b' :: bt =>
      simp only [List.cons_append, List.length_cons, envRec, swapAt]
      rw [ih]

theorem multiState_swap (L : ℕ) (e1 e2 : EnvMpo K) (h : CommuteOn L e1 e2)
    (pre post : List (EnvMpo K)) (A B : ℕ → ℕ → ℕ → K) (ρ0 : ℕ → K) :
    ∀ (n : ℕ) (bs : List ℕ) (s : ℕ),
      multiState L (pre ++ e2 :: e1 :: post) A B ρ0 n bs s =
        multiState L (pre ++ e1 :: e2 :: post) A B ρ0 n (swapAt pre.length bs) s := by
  intro n
  induction n with
  | zero => intro bs s; simp only [multiState, swapAt_sum]
  | succ n ih =>
    intro bs s'
    simp only [multiState, multiStep]
    apply Finset.sum_congr rfl; intro o _
    congr 1
    rw [envRec_swap L n e1 e2 h post pre _ (swapAt pre.length bs) o, swapAt_swapAt]
    congr 1
    funext bt i
    apply Finset.sum_congr rfl; intro s _
    rw [ih]

theorem applyCaps_swap (D1 D2 : ℕ) (c1 c2 : ℕ → K) (post : List (ℕ × (ℕ → K))) :
    ∀ (pre : List (ℕ × (ℕ → K))) (X : List ℕ → ℕ → K) (s' : ℕ),
      applyCaps (pre ++ (D2, c2) :: (D1, c1) :: post) (fun bs => X (swapAt pre.length bs)) s' =
        applyCaps (pre ++ (D1, c1) :: (D2, c2) :: post) X s' := by
  intro pre
  induction pre with
  | nil =>
    intro X s'
    simp only [List.nil_append, applyCaps, List.length_nil, swapAt]
    congr 1
    funext bt s
    simp only [Finset.mul_sum]
    rw [Finset.sum_comm]
    apply Finset.sum_congr rfl; intro b2 _
    apply Finset.sum_congr rfl; intro b1 _
    ring
  | cons p pre ih =>
    intro X s'
    obtain ⟨D, c⟩ := p
    simp only [List.cons_append, applyCaps, List.length_cons, swapAt]
    exact ih (fun bt s => ∑ b ∈ range D, c b * X (b :: bt) s) s'

/-- exchanging two neighbouring commuting environments anywhere in the list changes no recorded state -/
theorem multiRecord_swap (L : ℕ) (e1 e2 : EnvMpo K) (h : CommuteOn L e1 e2)
    (pre post : List (EnvMpo K)) (A B : ℕ → ℕ → ℕ → K) (pc : ℕ → ℕ → K) (ρ0 : ℕ → K) (n s' : ℕ) :
    multiRecord L (pre ++ e2 :: e1 :: post) A B pc ρ0 n s' =
      multiRecord L (pre ++ e1 :: e2 :: post) A B pc ρ0 n s' := by
  unfold multiRecord
  simp only [List.map_append, List.map_cons]
  have := applyCaps_swap (e1.D n) (e2.D n) (e1.cap n) (e2.cap n)
    (post.map (fun e => (e.D n, e.cap n))) (pre.map (fun e => (e.D n, e.cap n)))
    (fun bs s'' => ∑ s ∈ range L, pc s'' s * multiState L (pre ++ e1 :: e2 :: post) A B ρ0 n bs s) s'
  rw [← this]
  congr 1
  funext bs s''
  apply Finset.sum_congr rfl; intro s _
  rw [multiState_swap L e1 e2 h pre post A B ρ0 n bs s, List.length_map]

/-- any permutation of pairwise commuting environments -/
theorem multiRecord_perm (L : ℕ) (A B : ℕ → ℕ → ℕ → K) (pc : ℕ → ℕ → K) (ρ0 : ℕ → K) (n s' : ℕ)
    {l1 l2 : List (EnvMpo K)} (hp : l1.Perm l2) :
    l1.Pairwise (CommuteOn L) → ∀ pre : List (EnvMpo K),
      multiRecord L (pre ++ l1) A B pc ρ0 n s' = multiRecord L (pre ++ l2) A B pc ρ0 n s' := by
  induction hp with
  | nil => intro _ _; rfl
  | cons x _ ih =>
    intro hpw pre
    have := ih (List.Pairwise.of_cons hpw) (pre ++ [x])
    simpa using this
  | swap x y l =>
    intro hpw pre
    have hyx : CommuteOn L y x := (List.pairwise_cons.mp hpw).1 x (by simp)
    exact multiRecord_swap L x y hyx.symm pre l A B pc ρ0 n s'
  | trans h12 _ ih1 ih2 =>
    intro hpw pre
    exact (ih1 hpw pre).trans
      (ih2 ((h12.pairwise_iff (fun h => CommuteOn.symm h)).mp hpw) pre)

end OQuPyVerif.MultiEnv
