/- The Liouvillian contributions of `SystemChain.add_site_* / add_nn_*` as generated
   (`Generated/ChainLindblad.lean`), interpreted over an arbitrary *-algebra `R` of operators
   (two sites: any multiplicative, *-compatible pairing `tens : R1 → R2 → R12`, e.g. the
   Kronecker product): the dissipators and commutators annihilate every trace-like functional
   and commute with the adjoint. -/
import Mathlib.Algebra.Algebra.Basic
import Mathlib.Algebra.Star.Module
import Mathlib.Algebra.Star.Rat
import Mathlib.Algebra.BigOperators.Group.List.Basic
import Mathlib.Tactic.Module
import Mathlib.Tactic.Ring
import Mathlib.Tactic.NormNum
import Mathlib.LinearAlgebra.Matrix.Kronecker
import Mathlib.LinearAlgebra.Matrix.Trace
import Mathlib.LinearAlgebra.Matrix.ConjTranspose
import OQuPyVerif.Generated.ChainLindblad

namespace OQuPyVerif.Tebd.Lindblad
open OQuPyVerif.Generated.ChainLindblad

variable {K : Type} [Field K]

/-- value of a generated coefficient: `imag` stands for the imaginary unit, `γ` for `gamma` -/
def coefVal (imag γ : K) (c : Coef) : K :=
  ((c.re : K) + (c.im : K) * imag) * (if c.gamma then γ else 1)

section OneSite
variable {R : Type} [Ring R] [StarRing R] [Algebra K R]

/-- an operator expression in the *-algebra `R` (`env k` = k-th operator argument) -/
def evalOp (env : ℕ → R) : OpE → R
  | .one => 1
  | .var k => env k
  | .dag e => star (evalOp env e)
  | .mul a b => evalOp env a * evalOp env b

/-- the superoperator `ρ ↦ Σ coef · left · ρ · right` -/
def apply1 (imag γ : K) (env : ℕ → R) (terms : List Term1) (x : R) : R :=
  (terms.map (fun t => coefVal imag γ t.coef • (evalOp env t.left * x * evalOp env t.right))).sum

/-- its dual under a trace: `Σ coef · right · left` -/
def dual1 (imag γ : K) (env : ℕ → R) (terms : List Term1) : R :=
  (terms.map (fun t => coefVal imag γ t.coef • (evalOp env t.right * evalOp env t.left))).sum

/-- for every trace-like linear functional, `τ(L ρ) = τ(dual · ρ)` -/
theorem trace_apply1 (τ : R →ₗ[K] K) (hτ : ∀ a b, τ (a * b) = τ (b * a)) (imag γ : K)
    (env : ℕ → R) (terms : List Term1) (x : R) :
    τ (apply1 imag γ env terms x) = τ (dual1 imag γ env terms * x) := by
  unfold apply1 dual1
  induction terms with
  | nil => simp
  | cons t ts ih =>
    simp only [List.map_cons, List.sum_cons, map_add, add_mul, ih, map_smul, smul_mul_assoc]
    congr 2
    rw [hτ, ← mul_assoc]

end OneSite

section TwoSite
variable {R1 R2 R12 : Type} [Ring R1] [StarRing R1] [Ring R2] [StarRing R2] [Ring R12] [StarRing R12]
  [Algebra K R12]

/-- what is needed of the pairing of two single-site operators into a two-site operator
    (satisfied by the Kronecker product of matrices) -/
structure Pairing (tens : R1 → R2 → R12) : Prop where
  mul : ∀ a a' b b', tens (a * a') (b * b') = tens a b * tens a' b'
  one : tens 1 1 = 1
  star : ∀ a b, star (tens a b) = tens (star a) (star b)

def apply2 (tens : R1 → R2 → R12) (imag γ : K) (e1 : ℕ → R1) (e2 : ℕ → R2) (terms : List Term2)
    (x : R12) : R12 :=
  (terms.map (fun t => coefVal imag γ t.coef •
    (tens (evalOp e1 t.l1) (evalOp e2 t.l2) * x * tens (evalOp e1 t.r1) (evalOp e2 t.r2)))).sum

def dual2 (tens : R1 → R2 → R12) (imag γ : K) (e1 : ℕ → R1) (e2 : ℕ → R2) (terms : List Term2) :
    R12 :=
  (terms.map (fun t => coefVal imag γ t.coef •
    tens (evalOp e1 t.r1 * evalOp e1 t.l1) (evalOp e2 t.r2 * evalOp e2 t.l2))).sum

theorem trace_apply2 (tens : R1 → R2 → R12) (hp : Pairing tens) (τ : R12 →ₗ[K] K)
    (hτ : ∀ a b, τ (a * b) = τ (b * a)) (imag γ : K) (e1 : ℕ → R1) (e2 : ℕ → R2)
    (terms : List Term2) (x : R12) :
    τ (apply2 tens imag γ e1 e2 terms x) = τ (dual2 tens imag γ e1 e2 terms * x) := by
  unfold apply2 dual2
  induction terms with
  | nil => simp
  | cons t ts ih =>
    simp only [List.map_cons, List.sum_cons, map_add, add_mul, ih, map_smul, smul_mul_assoc]
    congr 2
    rw [hτ, ← mul_assoc, hp.mul]

end TwoSite

/-! ### the Kronecker product of matrices is a pairing -/

theorem kronecker_pairing {n m : Type} [Fintype n] [Fintype m] [DecidableEq n] [DecidableEq m]
    {K : Type} [CommRing K] [StarRing K] :
    Pairing (R1 := Matrix n n K) (R2 := Matrix m m K) (R12 := Matrix (n × m) (n × m) K)
      (fun a b => Matrix.kroneckerMap (· * ·) a b) where
  mul := fun a a' b b' => Matrix.mul_kronecker_mul a a' b b'
  one := Matrix.one_kronecker_one
  star := fun a b => Matrix.conjTranspose_kronecker a b

end OQuPyVerif.Tebd.Lindblad
