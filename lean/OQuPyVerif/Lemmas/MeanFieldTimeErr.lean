/-
  C09 — helper lemmas: how far the binary64 stage times are from the exact grid `s + n·dt`
  (uses the relative-error bound of the rounding model, Lemmas/FloatGrid.lean `rnd_err`).
-/
import OQuPyVerif.Lemmas.MeanField
import OQuPyVerif.Lemmas.FloatGrid

namespace OQuPyVerif.MeanField
open OQuPyVerif.FloatModel OQuPyVerif.FloatGrid

/-- one rounded sum: `|x ⊕ y − (x + y)| ≤ u|x + y|` -/
theorem fadd_err (x y : Rat) : |fadd x y - (x + y)| ≤ (1 / 2 ^ 53) * |x + y| := rnd_err _

theorem gridT_err (s dt : Rat) (n : Int) :
    |gridT s dt n - (s + ofInt n * dt)|
      ≤ (1 / 2 ^ 53) * (|s| + (2 + 1 / 2 ^ 53) * |ofInt n * dt|) := by
  have hu0 : (0 : Rat) ≤ 1 / 2 ^ 53 := by positivity
  have h1 : |fmul (ofInt n) dt - ofInt n * dt| ≤ (1 / 2 ^ 53) * |ofInt n * dt| := rnd_err _
  have h2 : |gridT s dt n - (s + fmul (ofInt n) dt)| ≤ (1 / 2 ^ 53) * |s + fmul (ofInt n) dt| :=
    rnd_err _
  have h3 : |s + fmul (ofInt n) dt| ≤ |s| + |fmul (ofInt n) dt| := abs_add_le _ _
  have h4 : |fmul (ofInt n) dt| ≤ |ofInt n * dt| + (1 / 2 ^ 53) * |ofInt n * dt| := by
    have := abs_sub_abs_le_abs_sub (fmul (ofInt n) dt) (ofInt n * dt)
    linarith
  have h5 : (1 / 2 ^ 53 : Rat) * |s + fmul (ofInt n) dt|
      ≤ (1 / 2 ^ 53) * (|s| + (|ofInt n * dt| + (1 / 2 ^ 53) * |ofInt n * dt|)) :=
    mul_le_mul_of_nonneg_left (by linarith) hu0
  have h6 : |gridT s dt n - (s + ofInt n * dt)|
      ≤ |gridT s dt n - (s + fmul (ofInt n) dt)| + |fmul (ofInt n) dt - ofInt n * dt| := by
    have := abs_add_le (gridT s dt n - (s + fmul (ofInt n) dt)) (fmul (ofInt n) dt - ofInt n * dt)
    rwa [show gridT s dt n - (s + fmul (ofInt n) dt) + (fmul (ofInt n) dt - ofInt n * dt)
        = gridT s dt n - (s + ofInt n * dt) by ring] at this
  calc |gridT s dt n - (s + ofInt n * dt)|
      ≤ (1 / 2 ^ 53) * (|s| + (|ofInt n * dt| + (1 / 2 ^ 53) * |ofInt n * dt|))
          + (1 / 2 ^ 53) * |ofInt n * dt| := by linarith
    _ = (1 / 2 ^ 53) * (|s| + (2 + 1 / 2 ^ 53) * |ofInt n * dt|) := by ring

end OQuPyVerif.MeanField
