/- Over ℝ or ℂ the algebraic notion used in `Positivity` (Gram form `ρ = B B†`) is Mathlib's
   positive semidefiniteness. -/
import OQuPyVerif.Lemmas.Positivity
import Mathlib.LinearAlgebra.Matrix.PosDef
import Mathlib.Analysis.RCLike.Basic

namespace OQuPyVerif.Positivity
open Finset BigOperators Matrix
open scoped ComplexOrder

/-- a table of Gram form is a positive semidefinite matrix in Mathlib's sense -/
theorem gram_posSemidef {𝕜 : Type} [RCLike 𝕜] (d : ℕ) (ρ : ℕ → ℕ → 𝕜) (h : IsGram d ρ) :
    (Matrix.of fun (i j : Fin d) => ρ i j).PosSemidef := by
  obtain ⟨m, B, hB⟩ := h
  have hEq : (Matrix.of fun (i j : Fin d) => ρ i j)
      = (Matrix.of fun (i : Fin d) (c : Fin m) => B i c) *
        (Matrix.of fun (i : Fin d) (c : Fin m) => B i c)ᴴ := by
    ext i j
    simp only [Matrix.of_apply, Matrix.mul_apply, Matrix.conjTranspose_apply]
    rw [hB i i.2 j j.2, Finset.sum_range]
  rw [hEq]
  exact Matrix.posSemidef_self_mul_conjTranspose _

end OQuPyVerif.Positivity
