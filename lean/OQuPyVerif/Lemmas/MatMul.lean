/- Algebra of `matMul` on index-range tables (associativity, cancellation of inverses). -/
import OQuPyVerif.Lemmas.PathSum

namespace OQuPyVerif.PathSum
open Finset BigOperators
variable {K : Type} [CommRing K]

/-- identity table -/
def idTable : ℕ → ℕ → K := fun a b => if a = b then 1 else 0

theorem matMul_assoc (L : ℕ) (A B C : ℕ → ℕ → K) (a b : ℕ) :
    matMul L (matMul L A B) C a b = matMul L A (matMul L B C) a b := by
  unfold matMul
  simp only [Finset.sum_mul, Finset.mul_sum]
  rw [Finset.sum_comm]
  apply Finset.sum_congr rfl; intro c _
  apply Finset.sum_congr rfl; intro e _
  ring

theorem matMul_congr (L : ℕ) (A A' B B' : ℕ → ℕ → K) (a b : ℕ)
    (hA : ∀ c, c < L → A a c = A' a c) (hB : ∀ c, c < L → B c b = B' c b) :
    matMul L A B a b = matMul L A' B' a b := by
  unfold matMul
  apply Finset.sum_congr rfl; intro c hc
  rw [hA c (Finset.mem_range.mp hc), hB c (Finset.mem_range.mp hc)]

theorem matMul_id_left (L : ℕ) (B : ℕ → ℕ → K) (a b : ℕ) (ha : a < L) :
    matMul L idTable B a b = B a b := by
  unfold matMul idTable
  rw [Finset.sum_eq_single a]
  · simp
  · intro c _ hc; simp [Ne.symm hc]
  · intro h; exact absurd (Finset.mem_range.mpr ha) h

theorem matMul_id_right (L : ℕ) (A : ℕ → ℕ → K) (a b : ℕ) (hb : b < L) :
    matMul L A idTable a b = A a b := by
  unfold matMul idTable
  rw [Finset.sum_eq_single b]
  · simp
  · intro c _ hc; simp [hc]
  · intro h; exact absurd (Finset.mem_range.mpr hb) h

/-- `A · W⁻¹ · W · B = A · B` -/
theorem matMul_cancel (L : ℕ) (A B W Winv : ℕ → ℕ → K)
    (hinv : ∀ a b, a < L → b < L → matMul L Winv W a b = idTable a b) (a b : ℕ) :
    matMul L (matMul L A Winv) (matMul L W B) a b = matMul L A B a b := by
  rw [matMul_assoc]
  have h1 : ∀ c, c < L → matMul L Winv (matMul L W B) c b = B c b := by
    intro c hc
    rw [← matMul_assoc]
    have : matMul L (matMul L Winv W) B c b = matMul L idTable B c b := by
      apply matMul_congr
      · intro e he; exact hinv c e hc he
      · intro _ _; rfl
    rw [this, matMul_id_left L B c b hc]
  apply matMul_congr
  · intro _ _; rfl
  · exact h1

end OQuPyVerif.PathSum
