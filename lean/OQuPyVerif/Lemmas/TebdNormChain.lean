/- The closing lists of a chain, and: trace-preserving gates / controls and process tensors
   whose caps are consistent leave the total trace unchanged by a step. -/
import OQuPyVerif.Lemmas.TebdNorm
import OQuPyVerif.Lemmas.TebdUncoupled

namespace OQuPyVerif.Tebd
open OQuPyVerif.Generated
open Finset BigOperators Function

variable {K : Type} [CommRing K]
set_option linter.unusedSectionVars false

section
variable (ch : Chain K)

/-- closing entry of the process-tensor slot of site `j` -/
def Chain.ptEntry (κ : ℕ → ℕ) (j : ℕ) : ℕ × ℕ × (ℕ → K) := (ptSlot j, ch.D j (κ j), ch.cap j (κ j))
/-- closing entry (trace) of the physical slot of site `j` -/
def Chain.physEntry (j : ℕ) : ℕ × ℕ × (ℕ → K) := (physSlot j, ch.L j, trVec (ch.d j))

theorem closingAt_eq (κ : ℕ → ℕ) (keep : List ℕ) :
    ch.closingAt κ keep = (List.range ch.n).map (ch.ptEntry κ)
      ++ ((List.range ch.n).filter (fun j => !keep.contains j)).map ch.physEntry := rfl

theorem mem_closingAt (κ : ℕ → ℕ) (keep : List ℕ) (x : ℕ × ℕ × (ℕ → K)) :
    x ∈ ch.closingAt κ keep ↔
      (∃ j, j < ch.n ∧ x = ch.ptEntry κ j) ∨ (∃ j, j < ch.n ∧ j ∉ keep ∧ x = ch.physEntry j) := by
  rw [closingAt_eq]
  simp only [List.mem_append, List.mem_map, List.mem_range, List.mem_filter, Bool.not_eq_eq_eq_not,
    Bool.not_true, List.contains_eq_mem, decide_eq_false_iff_not]
  constructor
  · rintro (⟨j, hj, rfl⟩ | ⟨j, ⟨hj, hk⟩, rfl⟩)
    · exact Or.inl ⟨j, hj, rfl⟩
    · exact Or.inr ⟨j, hj, hk, rfl⟩
  · rintro (⟨j, hj, rfl⟩ | ⟨j, hj, hk, rfl⟩)
    · exact Or.inl ⟨j, hj, rfl⟩
    · exact Or.inr ⟨j, ⟨hj, hk⟩, rfl⟩

theorem closingAt_slots_nodup (κ : ℕ → ℕ) (keep : List ℕ) :
    ((ch.closingAt κ keep).map Prod.fst).Nodup := by
  rw [closingAt_eq, List.map_append, List.map_map, List.map_map]
  have e1 : (Prod.fst ∘ ch.ptEntry κ) = ptSlot := rfl
  have e2 : (Prod.fst ∘ ch.physEntry) = physSlot := rfl
  rw [e1, e2]
  apply List.Nodup.append
  · exact List.Nodup.map (fun a b h => by unfold ptSlot at h; omega) List.nodup_range
  · exact List.Nodup.map (fun a b h => by unfold physSlot at h; omega)
      (List.nodup_range.filter _)
  · intro s hs ht
    simp only [List.mem_map] at hs ht
    obtain ⟨a, _, rfl⟩ := hs
    obtain ⟨b, _, hb⟩ := ht
    unfold ptSlot physSlot at hb
    omega

/-- away from the slots `s`, `t` the closing list depends on `κ` only through the sites whose
    process-tensor slot is neither `s` nor `t` -/
theorem closingAt_rest (κ κ' : ℕ → ℕ) (keep : List ℕ) (s t : ℕ)
    (h : ∀ j, ptSlot j ≠ s → ptSlot j ≠ t → κ j = κ' j) :
    (ch.closingAt κ keep).filter (fun x => decide (x.1 ≠ s ∧ x.1 ≠ t))
      = (ch.closingAt κ' keep).filter (fun x => decide (x.1 ≠ s ∧ x.1 ≠ t)) := by
  rw [closingAt_eq, closingAt_eq, List.filter_append, List.filter_append]
  congr 1
  rw [List.filter_map, List.filter_map]
  have e : ((fun x : ℕ × ℕ × (ℕ → K) => decide (x.1 ≠ s ∧ x.1 ≠ t)) ∘ ch.ptEntry κ)
      = ((fun x : ℕ × ℕ × (ℕ → K) => decide (x.1 ≠ s ∧ x.1 ≠ t)) ∘ ch.ptEntry κ') := rfl
  rw [e]
  apply List.map_congr_left
  intro j hj
  simp only [List.mem_filter, comp_apply, decide_eq_true_eq] at hj
  have hk := h j hj.2.1 hj.2.2
  simp only [Chain.ptEntry, hk]

/-- trace of the chain state in which the process tensor of site `j` stands at step `κ j` -/
def Chain.traceAt (κ : ℕ → ℕ) (ψ : Config → K) : Config → K := capAll (ch.closingAt κ []) ψ

theorem ptEntry_mem (κ : ℕ → ℕ) (j : ℕ) (hj : j < ch.n) : ch.ptEntry κ j ∈ ch.closingAt κ [] :=
  (mem_closingAt ch κ [] _).mpr (Or.inl ⟨j, hj, rfl⟩)

theorem physEntry_mem (κ : ℕ → ℕ) (j : ℕ) (hj : j < ch.n) : ch.physEntry j ∈ ch.closingAt κ [] :=
  (mem_closingAt ch κ [] _).mpr (Or.inr ⟨j, hj, by simp, rfl⟩)

/-! ### single operations -/

/-- a trace-preserving single-site map on the physical slot -/
theorem traceAt_site (κ : ℕ → ℕ) (j : ℕ) (hj : j < ch.n) (M : ℕ → ℕ → K)
    (hM : ∀ a, a < ch.L j → ∑ x ∈ range (ch.L j), trVec (ch.d j) x * M x a = trVec (ch.d j) a)
    (ψ : Config → K) :
    ch.traceAt κ (applySite (physSlot j) (ch.L j) M ψ) = ch.traceAt κ ψ := by
  have hne : physSlot j ≠ ptSlot j := by unfold physSlot ptSlot; omega
  unfold Chain.traceAt
  apply capAll_absorb _ _ (closingAt_slots_nodup ch κ []) (closingAt_slots_nodup ch κ [])
    (ch.physEntry j) (ch.ptEntry κ j) (ch.physEntry j) (ch.ptEntry κ j)
    (physEntry_mem ch κ j hj) (ptEntry_mem ch κ j hj) (physEntry_mem ch κ j hj)
    (ptEntry_mem ch κ j hj) rfl rfl hne rfl
  intro φ
  have hc : capOp (ch.ptEntry κ j) (applySite (physSlot j) (ch.L j) M φ)
      = applySite (physSlot j) (ch.L j) M (capOp (ch.ptEntry κ j) φ) :=
    applySite_comm _ _ hne.symm _ _ _ _ _
  rw [hc]
  exact cap_absorb_site (physSlot j) (ch.L j) (ch.L j) _ _ M hM _

/-- a trace-preserving gate -/
theorem traceAt_gate (κ : ℕ → ℕ) (i : ℕ) (hi : i + 1 < ch.n) (G : ℕ → ℕ → ℕ → ℕ → K)
    (hG : ∀ a b, a < ch.L i → b < ch.L (i + 1) →
      ∑ x ∈ range (ch.L i), ∑ y ∈ range (ch.L (i + 1)),
        trVec (ch.d i) x * trVec (ch.d (i + 1)) y * G x y a b
        = trVec (ch.d i) a * trVec (ch.d (i + 1)) b)
    (ψ : Config → K) :
    ch.traceAt κ (applyPair (physSlot i) (physSlot (i + 1)) (ch.L i) (ch.L (i + 1)) G ψ)
      = ch.traceAt κ ψ := by
  have hne : physSlot i ≠ physSlot (i + 1) := by unfold physSlot; omega
  unfold Chain.traceAt
  apply capAll_absorb _ _ (closingAt_slots_nodup ch κ []) (closingAt_slots_nodup ch κ [])
    (ch.physEntry i) (ch.physEntry (i + 1)) (ch.physEntry i) (ch.physEntry (i + 1))
    (physEntry_mem ch κ i (by omega)) (physEntry_mem ch κ (i + 1) hi)
    (physEntry_mem ch κ i (by omega)) (physEntry_mem ch κ (i + 1) hi) rfl rfl hne rfl
  intro φ
  exact cap_absorb_pair _ _ hne _ _ _ _ _ _ _ _ G hG φ

/-- the MPO `k` of the process tensor of site `j`: the cap of step `k+1` becomes the cap of step `k` -/
theorem traceAt_pt (κ : ℕ → ℕ) (j k : ℕ) (hj : j < ch.n) (hκ : κ j = k)
    (hT : ∀ b i, b < ch.D j k → i < ch.L j →
      ∑ b' ∈ range (ch.D j (k + 1)), ∑ o ∈ range (ch.L j),
        ch.cap j (k + 1) b' * trVec (ch.d j) o * ch.T j k b b' i o
        = ch.cap j k b * trVec (ch.d j) i)
    (ψ : Config → K) :
    ch.traceAt (update κ j (k + 1))
        (applyPair (ptSlot j) (physSlot j) (ch.D j k) (ch.L j) (fun b' o b i => ch.T j k b b' i o) ψ)
      = ch.traceAt κ ψ := by
  have hne : ptSlot j ≠ physSlot j := by unfold physSlot ptSlot; omega
  unfold Chain.traceAt
  apply capAll_absorb _ _ (closingAt_slots_nodup ch _ []) (closingAt_slots_nodup ch κ [])
    (ch.ptEntry (update κ j (k + 1)) j) (ch.physEntry j) (ch.ptEntry κ j) (ch.physEntry j)
    (ptEntry_mem ch _ j hj) (physEntry_mem ch _ j hj) (ptEntry_mem ch κ j hj)
    (physEntry_mem ch κ j hj) rfl rfl hne
  · apply closingAt_rest
    intro j' h1 _
    have : j' ≠ j := fun e => h1 (by rw [e]; rfl)
    rw [update_of_ne this]
  · intro φ
    have e1 : ch.ptEntry (update κ j (k + 1)) j = (ptSlot j, ch.D j (k + 1), ch.cap j (k + 1)) := by
      simp [Chain.ptEntry]
    have e2 : ch.ptEntry κ j = (ptSlot j, ch.D j k, ch.cap j k) := by
      simp [Chain.ptEntry, hκ]
    rw [e1, e2]
    exact cap_absorb_pair _ _ hne _ _ _ _ _ _ _ _ _ hT φ

/-! ### lists of operations -/

theorem runOps_single (o : Op K) (ψ : Config → K) : runOps [o] ψ = o.run ψ := rfl

theorem runOps_nil (ψ : Config → K) : runOps ([] : List (Op K)) ψ = ψ := rfl

theorem runOps_preserve {X : Type} (N : (Config → K) → X) (ops : List (Op K))
    (h : ∀ o ∈ ops, ∀ φ, N (o.run φ) = N φ) (ψ : Config → K) : N (runOps ops ψ) = N ψ := by
  induction ops generalizing ψ with
  | nil => rfl
  | cons o ops ih =>
    show N (runOps ops (o.run ψ)) = _
    rw [ih (fun o' ho' => h o' (List.mem_cons_of_mem _ ho')), h o (List.mem_cons_self ..)]

/-- trace preservation of a single-site map (a control) -/
def TracePres (d L : ℕ) (M : ℕ → ℕ → K) : Prop :=
  ∀ a, a < L → ∑ x ∈ range L, trVec d x * M x a = trVec d a

/-- trace preservation of a two-site gate kernel -/
def TracePres2 (d1 L1 d2 L2 : ℕ) (G : ℕ → ℕ → ℕ → ℕ → K) : Prop :=
  ∀ a b, a < L1 → b < L2 →
    ∑ x ∈ range L1, ∑ y ∈ range L2, trVec d1 x * trVec d2 y * G x y a b = trVec d1 a * trVec d2 b

theorem traceAt_ctrlOps (κ : ℕ → ℕ) (ctl : ℕ → ℕ → Option (ℕ → ℕ → K)) (k : ℕ)
    (hc : ∀ j M, ctl j k = some M → TracePres (ch.d j) (ch.L j) M) (ψ : Config → K) :
    ch.traceAt κ (runOps (ch.ctrlOps ctl k) ψ) = ch.traceAt κ ψ := by
  apply runOps_preserve
  intro o ho φ
  unfold Chain.ctrlOps at ho
  simp only [List.mem_filterMap, List.mem_range, Option.map_eq_some_iff] at ho
  obtain ⟨j, hj, M, hM, rfl⟩ := ho
  rw [siteGateTable_eq]
  exact traceAt_site ch κ j hj M (hc j M hM) φ

theorem traceAt_halfOps (κ : ℕ → ℕ) (order : ℤ) (dt : ℚ)
    (hg : ∀ i t, i + 1 < ch.n →
      TracePres2 (ch.d i) (ch.L i) (ch.d (i + 1)) (ch.L (i + 1)) (ch.gate i t))
    (ψ : Config → K) :
    ch.traceAt κ (runOps (ch.halfOps order dt) ψ) = ch.traceAt κ ψ := by
  apply runOps_preserve
  intro o ho φ
  unfold Chain.halfOps at ho
  simp only [List.mem_map] at ho
  obtain ⟨g, hg', rfl⟩ := ho
  have hlt := halfStepGates_lt ch.n order dt g hg'
  exact traceAt_gate ch κ g.1 hlt _ (hg g.1 g.2 hlt) φ

/-- the steps the process tensors stand at after the MPOs `k` of the first `m` sites were applied -/
def Chain.kappa (k m : ℕ) : ℕ → ℕ := fun j => if j < m ∧ ch.hasPT j k = true then k + 1 else k

theorem traceAt_ptOps_prefix (k m : ℕ) (hm : m ≤ ch.n)
    (hT : ∀ j, j < ch.n → ch.hasPT j k = true → ∀ b i, b < ch.D j k → i < ch.L j →
      ∑ b' ∈ range (ch.D j (k + 1)), ∑ o ∈ range (ch.L j),
        ch.cap j (k + 1) b' * trVec (ch.d j) o * ch.T j k b b' i o
        = ch.cap j k b * trVec (ch.d j) i)
    (ψ : Config → K) :
    ch.traceAt (ch.kappa k m)
        (runOps ((List.range m).filterMap (fun j =>
          if ch.hasPT j k then
            some (Op.pair (ptSlot j) (physSlot j) (ch.D j k) (ch.L j) (ch.D j (k+1)) (ch.L j)
              (fun b' o b i => ch.T j k b b' i o))
          else none)) ψ)
      = ch.traceAt (fun _ => k) ψ := by
  induction m with
  | zero =>
    have : ch.kappa k 0 = fun _ => k := by funext j; simp [Chain.kappa]
    rw [this]; rfl
  | succ m ih =>
    rw [List.range_succ, List.filterMap_append, runOps_append]
    simp only [List.filterMap_cons, List.filterMap_nil]
    by_cases hpt : ch.hasPT m k = true
    · have hk : ch.kappa k (m + 1) = update (ch.kappa k m) m (k + 1) := by
        funext j
        by_cases hjm : j = m
        · subst hjm; simp [Chain.kappa, hpt]
        · rw [update_of_ne hjm]
          simp only [Chain.kappa]
          have : (j < m + 1) ↔ (j < m) := by omega
          simp only [this]
      simp only [hpt, if_true, runOps_single, Op.run]
      rw [hk, traceAt_pt ch (ch.kappa k m) m k (by omega) (by simp [Chain.kappa])
        (hT m (by omega) hpt), ih (by omega)]
    · have hk : ch.kappa k (m + 1) = ch.kappa k m := by
        funext j
        simp only [Chain.kappa]
        by_cases hjm : j = m
        · subst hjm; simp [hpt]
        · have : (j < m + 1) ↔ (j < m) := by omega
          simp only [this]
      simp only [hpt, Bool.false_eq_true, if_false, runOps_nil]
      rw [hk]
      exact ih (by omega)

theorem traceAt_ptOps (k : ℕ)
    (hT : ∀ j, j < ch.n → ch.hasPT j k = true → ∀ b i, b < ch.D j k → i < ch.L j →
      ∑ b' ∈ range (ch.D j (k + 1)), ∑ o ∈ range (ch.L j),
        ch.cap j (k + 1) b' * trVec (ch.d j) o * ch.T j k b b' i o
        = ch.cap j k b * trVec (ch.d j) i)
    (hN : ∀ j, j < ch.n → ch.hasPT j k = false →
      ch.D j (k + 1) = ch.D j k ∧ ch.cap j (k + 1) = ch.cap j k)
    (ψ : Config → K) :
    ch.traceAt (fun _ => k + 1) (runOps (ch.ptOps k) ψ) = ch.traceAt (fun _ => k) ψ := by
  rw [← traceAt_ptOps_prefix ch k ch.n (le_refl _) hT ψ]
  have hcl : ch.closingAt (fun _ => k + 1) [] = ch.closingAt (ch.kappa k ch.n) [] := by
    rw [closingAt_eq, closingAt_eq]
    congr 1
    apply List.map_congr_left
    intro j hj
    have hjn := List.mem_range.mp hj
    by_cases hpt : ch.hasPT j k = true
    · simp [Chain.ptEntry, Chain.kappa, hjn, hpt]
    · have hpt' : ch.hasPT j k = false := by simpa using hpt
      obtain ⟨h1, h2⟩ := hN j hjn hpt'
      simp [Chain.ptEntry, Chain.kappa, hpt', h1, h2]
  unfold Chain.traceAt
  rw [hcl]
  rfl

/-- **the trace is unchanged by a step** -/
theorem traceAt_step (order : ℤ) (dt : ℚ) (k : ℕ)
    (hg : ∀ i t, i + 1 < ch.n →
      TracePres2 (ch.d i) (ch.L i) (ch.d (i + 1)) (ch.L (i + 1)) (ch.gate i t))
    (hpost : ∀ j M, ch.post j k = some M → TracePres (ch.d j) (ch.L j) M)
    (hpre : ∀ j M, ch.pre j (k + 1) = some M → TracePres (ch.d j) (ch.L j) M)
    (hT : ∀ j, j < ch.n → ch.hasPT j k = true → ∀ b i, b < ch.D j k → i < ch.L j →
      ∑ b' ∈ range (ch.D j (k + 1)), ∑ o ∈ range (ch.L j),
        ch.cap j (k + 1) b' * trVec (ch.d j) o * ch.T j k b b' i o
        = ch.cap j k b * trVec (ch.d j) i)
    (hN : ∀ j, j < ch.n → ch.hasPT j k = false →
      ch.D j (k + 1) = ch.D j k ∧ ch.cap j (k + 1) = ch.cap j k)
    (ψ : Config → K) :
    ch.traceAt (fun _ => k + 1) (runOps (ch.stepOps order dt k) ψ) = ch.traceAt (fun _ => k) ψ := by
  rw [stepOps_eq]
  simp only [runOps_append]
  rw [traceAt_ctrlOps ch _ ch.pre (k + 1) hpre, traceAt_halfOps ch _ order dt hg,
    traceAt_ptOps ch k hT hN, traceAt_halfOps ch _ order dt hg, traceAt_ctrlOps ch _ ch.post k hpost]

end

end OQuPyVerif.Tebd
