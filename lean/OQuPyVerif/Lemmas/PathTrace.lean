/- Invariance of a covector under the path sum: the core of trace preservation (C04). -/
import OQuPyVerif.Lemmas.PathSum

namespace OQuPyVerif.PathSum
open Finset BigOperators
variable {K : Type} [CommRing K]

theorem tr_inflRow (I : ℕ → ℕ → ℕ → ℕ → K) (tr : ℕ → K) (n a : ℕ)
    (hI : ∀ dk c, tr a * I n dk a c = tr a) (j : ℕ) (q : List ℕ) :
    tr a * inflRow I n a j q = tr a := by
  induction q generalizing j with
  | nil => simp [inflRow]
  | cons c cs ih =>
    cases cs with
    | nil => simp [inflRow]
    | cons c' cs' =>
      simp only [inflRow]
      rw [← mul_assoc, hI, ih]

/-- If every kernel preserves the covector `tr` and every influence factor is `1` wherever
    `tr` does not vanish on the later index, the path sum tested against `tr` never changes. -/
theorem pathState_invariant (L : ℕ) (ρ0 : ℕ → K) (M : ℕ → ℕ → ℕ → K)
    (I : ℕ → ℕ → ℕ → ℕ → K) (tr : ℕ → K)
    (hM : ∀ k b, b < L → ∑ a ∈ range L, tr a * M k a b = tr b)
    (hI : ∀ n dk a c, tr a * I n dk a c = tr a) (n : ℕ) :
    pathState L ρ0 M I n tr = ∑ a ∈ range L, tr a * ρ0 a := by
  induction n with
  | zero =>
    unfold pathState
    simp [pathSum, weight]
  | succ n ih =>
    rw [← ih]
    unfold pathState
    rw [pathSum_succ]
    -- replace the summand using the shape of the enumerated paths
    have step1 : ∀ a ∈ range L,
        pathSum L (n+1) (fun p => tr ((a :: p).headD 0) * weight ρ0 M I (a :: p)) =
        pathSum L (n+1) (fun q => (tr a * M (n+1) a (q.headD 0)) * weight ρ0 M I q) := by
      intro a _
      apply pathSum_congr
      intro q hq
      obtain ⟨hlen, _⟩ := hq
      match q, hlen with
      | b :: rest, hlen =>
        have hr : rest.length = n := by simpa using hlen
        simp only [List.headD_cons, weight, hr]
        have := tr_inflRow I tr (n+1) a (fun dk c => hI (n+1) dk a c) 0 (a :: b :: rest)
        calc tr a * (M (n + 1) a b * inflRow I (n + 1) a 0 (a :: b :: rest) * weight ρ0 M I (b :: rest))
            = (tr a * inflRow I (n + 1) a 0 (a :: b :: rest)) * M (n+1) a b * weight ρ0 M I (b :: rest) := by ring
          _ = tr a * M (n+1) a b * weight ρ0 M I (b :: rest) := by rw [this]
    rw [Finset.sum_congr rfl step1, ← pathSum_finsum]
    apply pathSum_congr
    intro q hq
    have hlt : q.headD 0 < L := by
      obtain ⟨hlen, hmem⟩ := hq
      match q, hlen with
      | b :: rest, _ => exact hmem b (by simp)
    rw [← Finset.sum_mul, hM (n+1) _ hlt]

end OQuPyVerif.PathSum
