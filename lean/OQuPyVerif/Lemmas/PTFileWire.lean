/- Wire format of the PTFile model for the C16 / C17 drivers (no lemmas here; Mathlib-free).

   entry   := "nan" | <p/q>,<p/q>
   tensor  := T:<d0>x<d1>…:<entry>;<entry>;…        (0-d: "T::<entry>")
   opt     := None | tensor
   list    := "-" (empty) | opt|opt|…
   cmds    := "-" | I@opt | M<k>@opt | C<k>@opt  joined with "|"
   strings (name, description, version) travel hex-encoded and are opaque to the model. -/
import OQuPyVerif.Model.Proto
import OQuPyVerif.Model.PTFile

namespace OQuPyVerif.PTFile.Wire
open OQuPyVerif.Proto OQuPyVerif.PTFile

/-! text travels as "h" + hex of its UTF-8 bytes -/
def hexDigit (n : Nat) : Char := if n < 10 then Char.ofNat (48 + n) else Char.ofNat (87 + n)

def hexEncode (s : String) : String :=
  "h" ++ String.ofList (s.toUTF8.toList.flatMap
    (fun b => [hexDigit (b.toNat / 16), hexDigit (b.toNat % 16)]))

def hexVal? (c : Char) : Option Nat :=
  if '0' ≤ c ∧ c ≤ '9' then some (c.toNat - 48)
  else if 'a' ≤ c ∧ c ≤ 'f' then some (c.toNat - 87) else none

def hexPairs? : List Char → Option (List UInt8)
  | [] => some []
  | a :: b :: r => do
    let x ← hexVal? a
    let y ← hexVal? b
    let t ← hexPairs? r
    pure (UInt8.ofNat (x * 16 + y) :: t)
  | _ => none

def hexDecode? (s : String) : Option String :=
  match s.toList with
  | 'h' :: r => (hexPairs? r).bind (fun bs => String.fromUTF8? (ByteArray.mk bs.toArray))
  | _ => none

def parseEntry? (s : String) : Option Entry :=
  if s == "nan" then some Entry.nan else
  match s.splitOn "," with
  | [a, b] => match parseRat? a, parseRat? b with
    | some x, some y => some (Entry.num x y)
    | _, _ => none
  | _ => none

def splitNE (s : String) (sep : String) : List String :=
  if s == "" then [] else s.splitOn sep

def parseTensor? (s : String) : Option Tensor :=
  match s.splitOn ":" with
  | ["T", sh, da] =>
    match (splitNE sh "x").mapM (·.toNat?), (splitNE da ";").mapM parseEntry? with
    | some shape, some data => some ⟨shape, data⟩
    | _, _ => none
  | _ => none

/-- `none` = malformed, `some none` = Python `None` -/
def parseOpt? (s : String) : Option (Option Tensor) :=
  if s == "None" then some none else (parseTensor? s).map some

def parseOptList? (s : String) : Option (List (Option Tensor)) :=
  if s == "-" then some [] else (s.splitOn "|").mapM parseOpt?

def parseCmd? (s : String) : Option Cmd :=
  match s.splitOn "@" with
  | [h, t] =>
    match parseOpt? t with
    | none => none
    | some ot =>
      if h == "I" then some (Cmd.setInitial ot)
      else if h.startsWith "M" then (h.drop 1).toNat?.map (fun k => Cmd.setMpo k ot)
      else if h.startsWith "C" then (h.drop 1).toNat?.map (fun k => Cmd.setCap k ot)
      else none
  | _ => none

/-- "K@None" marks the end of a `compute_caps()` call of the file-backed object -/
def isCapsMark (t : String) : Bool := t == "K@None"

/-- all `set_*` calls (the `compute_caps()` marks dropped) -/
def parseCmds? (s : String) : Option (List Cmd) :=
  if s == "-" then some [] else ((s.splitOn "|").filter (fun t => !isCapsMark t)).mapM parseCmd?

/-- (segments each ended by a `compute_caps()` mark, calls after the last mark) -/
def parseSegs? (s : String) : Option (List (List Cmd) × List Cmd) :=
  if s == "-" then some ([], []) else
  let rec go (toks : List String) (cur : List Cmd) (segs : List (List Cmd)) :
      Option (List (List Cmd) × List Cmd) :=
    match toks with
    | [] => some (segs.reverse, cur.reverse)
    | t :: r =>
      if isCapsMark t then go r [] (cur.reverse :: segs)
      else match parseCmd? t with
        | some c => go r (c :: cur) segs
        | none => none
  go (s.splitOn "|") [] []

/-- `N@<text|None>` / `D@<text|None>` = assignment to `.name` / `.description`; otherwise a tensor call -/
def parseMCmd? (s : String) : Option MCmd :=
  match s.splitOn "@" with
  | ["N", v] => if v == "None" then some (MCmd.setName none)
                else (hexDecode? v).map (fun t => MCmd.setName (some t))
  | ["D", v] => if v == "None" then some (MCmd.setDescription none)
                else (hexDecode? v).map (fun t => MCmd.setDescription (some t))
  | _ => (parseCmd? s).map MCmd.tensor

def parseMCmds? (s : String) : Option (List MCmd) :=
  if s == "-" then some [] else ((s.splitOn "|").filter (fun t => !isCapsMark t)).mapM parseMCmd?

def kv (ws : List String) (k : String) : Option String :=
  ws.findSome? (fun w => if w.startsWith (k ++ "=") then some (w.drop (k.length + 1)).copy else none)

def parseBool? (s : String) : Option Bool :=
  if s == "1" then some true else if s == "0" then some false else none

def parseDisk? (s : String) : Option Disk :=
  if s == "missing" then some Disk.missing
  else if s == "unreadable" then some Disk.unreadable
  else if s == "empty" then some (Disk.file {})       -- a readable HDF5 file that is not a process tensor
  else none

def parseOptRat? (s : String) : Option (Option Rat) :=
  if s == "None" then some none else (parseRat? s).map some

def parseMeta? (ws : List String) : Option Meta := do
  let hs ← (← kv ws "hs").toNat?
  let dt ← parseOptRat? (← kv ws "dt")
  let tin ← parseOpt? (← kv ws "tin")
  let tout ← parseOpt? (← kv ws "tout")
  let name ← hexDecode? (← kv ws "name")
  let descr ← hexDecode? (← kv ws "descr")
  pure ⟨hs, dt, tin, tout, name, descr⟩

def parseSimple? (ws : List String) : Option SimplePT := do
  let m ← parseMeta? ws
  let ini ← parseOpt? (← kv ws "init")
  let mpos ← parseOptList? (← kv ws "mpos")
  let caps ← parseOptList? (← kv ws "caps")
  pure { info := m, initial := ini, mpos := mpos, caps := caps }

/-! ### printing -/

def showEntry : Entry → String
  | .nan => "nan"
  | .num a b => showRat a ++ "," ++ showRat b

def showTensor (t : Tensor) : String :=
  "T:" ++ "x".intercalate (t.shape.map toString) ++ ":" ++ ";".intercalate (t.data.map showEntry)

def showOpt : Option Tensor → String
  | none => "None"
  | some t => showTensor t

def showOptList (l : List (Option Tensor)) : String :=
  if l.isEmpty then "-" else "|".intercalate (l.map showOpt)

def showOptRat : Option Rat → String
  | none => "None"
  | some r => showRat r

def showRowsE (l : Option (List (List Entry))) : String :=
  match l with
  | none => "absent"
  | some rows => s!"{rows.length}[" ++ "|".intercalate (rows.map (fun r => ";".intercalate (r.map showEntry))) ++ "]"

def showRowsN (l : Option (List (List Nat))) : String :=
  match l with
  | none => "absent"
  | some rows => s!"{rows.length}[" ++ "|".intercalate (rows.map (fun r => "x".intercalate (r.map toString))) ++ "]"

def showOStr : Option String → String
  | none => "absent"
  | some s => hexEncode s

def showOT : Option Tensor → String
  | none => "absent"
  | some t => showTensor t

def showH5 (c : H5) : String :=
  " ".intercalate [
    "version=" ++ showOStr c.version, "name=" ++ showOStr c.name,
    "descr=" ++ showOStr c.description,
    "writing=" ++ (match c.writing with | none => "absent" | some true => "1" | some false => "0"),
    "hs=" ++ (match c.hsDim with | none => "absent" | some n => toString n),
    "dt=" ++ showOT c.dt, "tin=" ++ showOT c.tin, "tout=" ++ showOT c.tout,
    "init_data=" ++ showRowsE c.init.data, "init_shape=" ++ showRowsN c.init.shape,
    "mpo_data=" ++ showRowsE c.mpo.data, "mpo_shape=" ++ showRowsN c.mpo.shape,
    "cap_data=" ++ showRowsE c.cap.data, "cap_shape=" ++ showRowsN c.cap.shape]

def showDisk : Disk → String
  | .missing => "missing"
  | .unreadable => "unreadable"
  | .file c => "file " ++ showH5 c

def showMode : H5Mode → String
  | .r => "r" | .rplus => "r+" | .w => "w" | .x => "x" | .a => "a"

def attrKey : AttrName → String
  | .version => "oqupy_version" | .name => "name" | .description => "description"
  | .writing => "writing"

def arrKey : ArrName → String
  | .hsDim => "hs_dim" | .dt => "dt" | .transformIn => "transform_in"
  | .transformOut => "transform_out"

def vKey : VName → String
  | .init => "initial_tensor" | .mpo => "mpo_tensors" | .cap => "cap_tensors"

/-- one h5py-level operation, as the harness logs it on the real code -/
def showOp : Op → String
  | .openMode m => "open:" ++ showMode m
  | .setAttrStr a _ => "attr:" ++ attrKey a
  | .setWriting b => "attr:writing=" ++ (if b then "True" else "False")
  | .createHsDim _ => "create:hs_dim"
  | .createArr a _ => "create:" ++ arrKey a
  | .createData v n => s!"create:{vKey v}_data:{n}"
  | .createShape v n => s!"create:{vKey v}_shape:{n}"
  | .resizeShape v n => s!"resize:{vKey v}_shape:{n}"
  | .resizeData v n => s!"resize:{vKey v}_data:{n}"
  | .writeShape v i _ => s!"write:{vKey v}_shape:{i}"
  | .writeData v i _ => s!"write:{vKey v}_data:{i}"
  | .fclose => "fclose"

def showTrace (ops : List Op) : String := ",".intercalate (ops.map showOp)

def showOutcome : Outcome → String
  | .fail => "fail" | .warn => "warn" | .clean => "clean"

def showGet : Except GetErr (Option Tensor) → String
  | .ok t => showOpt t
  | .error .indexError => "E:IndexError"
  | .error .valueError => "E:ValueError"
  | .error .keyError => "E:KeyError"

def showOpenErr : OpenErr → String
  | .badMode => "ValueError" | .notWriting => "not-writing" | .badH5Mode => "bad-h5-mode"
  | .osError => "OSError"

def showBonds : Option (List Nat) → String
  | none => "raises"
  | some l => ",".intercalate (l.map toString)

def showMeta (m : Meta) : String :=
  s!"hs={m.hsDim} dt={showOptRat m.dt} tin={showOpt m.tin} tout={showOpt m.tout} name={hexEncode m.name} descr={hexEncode m.description}"

/-- what the harness observes on an imported FileProcessTensor -/
def showFileView (p : FilePT) (warned : Bool) : String :=
  let n := p.length
  let mpos := (List.range n).map (fun k => showGet (p.getMpo k))
  let caps := (List.range (capLen p + 1)).map (fun k => showGet (p.getCap k))
  s!"warned={if warned then 1 else 0} len={n} {showMeta p.info} init={showGet p.getInitial} " ++
  s!"mpos={"|".intercalate mpos} caps={"|".intercalate caps} bonds={showBonds p.bondDims}"

/-- what the harness observes on an imported SimpleProcessTensor -/
def showSimpleView (s : SimplePT) (warned : Bool) : String :=
  let n := s.length
  let mpos := (List.range n).map (fun k => showOpt (s.getMpo k))
  let caps := (List.range (s.caps.length + 1)).map (fun k => showOpt (s.getCap k))
  s!"warned={if warned then 1 else 0} len={n} {showMeta s.info} init={showOpt s.initial} " ++
  s!"mpos={"|".intercalate mpos} caps={"|".intercalate caps} bonds={showBonds s.bondDims}"

def showImportErr : ImportErr → String
  | .openFailed => "E:open"
  | .get .indexError => "E:IndexError"
  | .get .valueError => "E:ValueError"
  | .get .keyError => "E:KeyError"
  | .badType => "E:ValueError"

def parsePyVal? (s : String) : Option PyVal :=
  if s == "True" then some .pyTrue else if s == "False" then some .pyFalse
  else if s == "np.True_" then some .npTrue else if s == "np.False_" then some .npFalse
  else if s == "None" then some .pyNone else none

end OQuPyVerif.PTFile.Wire

/-! ### the driver's step function (shared by Drivers/C16 and Drivers/C17) -/
namespace OQuPyVerif.PTFile.Wire
open OQuPyVerif.Proto OQuPyVerif.PTFile

/-- disk=missing|unreadable|empty|pt|ptopen ; `pt` = the PT of this line exported and closed,
    `ptopen` = the same, every operation persisted, but never closed -/
def diskOf (F : Flags) (env : Env) (ws : List String) : Option Disk := do
  let s ← kv ws "disk"
  if s == "pt" || s == "ptopen" then
    let pt ← parseSimple? ws
    match exportW F env Disk.missing pt false with
    | .ok w =>
      if s == "pt" then pure w.d
      else
        -- drop everything `close()` issued
        match createFile F env Disk.missing (F.exportMode false) pt.info with
        | .ok w0 =>
          let w1 := (F.exportSteps.filter (· != ExportStep.close)).foldl (exportStep F pt) w0
          pure w1.d
        | .error _ => none
    | .error _ => none
  else parseDisk? s

def showW (r : Except OpenErr W) : String :=
  match r with
  | .ok w => "ok trace=" ++ showTrace w.trace ++ " disk=" ++ showDisk w.d
  | .error e => "err " ++ showOpenErr e

def crashReport (F : Flags) (d0 : Disk) (r : Except OpenErr W) (unwind : List UnwindStep)
    (removeable : Bool) (nCreate : Nat) : String :=
  match r with
  | .error e => "err " ++ showOpenErr e
  | .ok w =>
    let js := List.range (w.trace.length + 1)
    let states := js.map (fun j => replay d0 (w.trace.take j))
    let exc := js.map (fun k => excState F removeable unwind d0 w.trace nCreate k)
    "ok trace=" ++ showTrace w.trace ++
    " excoutcomes=" ++ ",".intercalate (exc.map (fun d => showOutcome (readOutcome F d))) ++
    " outcomes=" ++ ",".intercalate (states.map (fun d => showOutcome (readOutcome F d))) ++
    " excdumps=" ++ (if unwind.isEmpty then "same" else "#".intercalate (exc.map showDisk)) ++
    " dumps=" ++ "#".intercalate (states.map showDisk)

/-- number of operations the constructor issues, and `_removeable`, for a writing mode -/
def ctorInfo (F : Flags) (env : Env) (d0 : Disk) (mode : String) (m : Meta) (hasfn : Bool) :
    Nat × Bool :=
  let n := match createFile F env d0 mode m with
    | .ok w => w.trace.length
    | .error _ => 0
  let rm := match F.modeFlags mode with
    | some (wr, ovw) => F.removeable wr ovw hasfn
    | none => false
  (n, rm)

def step (F : Flags) (line : String) : String :=
  let ws := words line
  match ws with
  | "export" :: _ | "crash-export" :: _ | "roundtrip" :: _ =>
    match parseSimple? ws, (kv ws "ovw").bind parseBool?, (kv ws "version").bind hexDecode? with
    | some pt, some ovw, some ver =>
      let env : Env := ⟨ver⟩
      match diskOf F env ws with
      | none => "bad-op"
      | some d0 =>
        let r := exportW F env d0 pt ovw
        if ws.head? == some "export" then showW r
        else if ws.head? == some "crash-export" then
          let ci := ctorInfo F env d0 (F.exportMode ovw) pt.info true
          crashReport F d0 r F.exportUnwind ci.2 ci.1
        else
          match r with
          | .error e => "err " ++ showOpenErr e
          | .ok w =>
            match kv ws "type" with
            | some "file" =>
              (match importFile F w.d with
               | .ok (p, warned) => "ok " ++ showFileView p warned
               | .error e => "err " ++ showImportErr e)
            | some "simple" =>
              (match importSimple F w.d with
               | .ok (s, warned) => "ok " ++ showSimpleView s warned
               | .error e => "err " ++ showImportErr e)
            | _ => "bad-op"
    | _, _, _ => "bad-op"
  | "writer" :: _ | "crash-writer" :: _ | "writer-view" :: _ =>
    match parseMeta? ws, (kv ws "cmds").bind parseSegs?, kv ws "mode",
          (kv ws "close").bind parseBool?, (kv ws "version").bind hexDecode? with
    | some m, some (segs, rest), some mode, some close, some ver =>
      let env : Env := ⟨ver⟩
      match diskOf F env ws with
      | none => "bad-op"
      | some d0 =>
        let r := writerSegW F env d0 mode m segs rest close
        if ws.head? == some "writer" then showW r
        else if ws.head? == some "crash-writer" then
          let ci := ctorInfo F env d0 mode m true
          let unwind := if kv ws "unwind" == some "pttempo" then F.ptTempoUnwind else []
          crashReport F d0 r unwind ci.2 ci.1
        else match r with
          | .error e => "err " ++ showOpenErr e
          | .ok w => match importFile F w.d with
            | .ok (p, warned) => "ok " ++ showFileView p warned
            | .error e => "err " ++ showImportErr e
    | _, _, _, _, _ => "bad-op"
  | "writer-meta" :: _ | "writer-meta-view" :: _ =>
    match parseMeta? ws, (kv ws "cmds").bind parseMCmds?, kv ws "mode", (kv ws "version").bind hexDecode? with
    | some m, some cmds, some mode, some ver =>
      let env : Env := ⟨ver⟩
      match diskOf F env ws with
      | none => "bad-op"
      | some d0 =>
        match writerM F env d0 mode m cmds true with
        | .error e => "err " ++ showOpenErr e
        | .ok st =>
          let live := s!"live={hexEncode st.2.name},{hexEncode st.2.description}"
          if ws.head? == some "writer-meta" then
            s!"ok {live} trace={showTrace st.1.trace} disk={showDisk st.1.d}"
          else match kv ws "type" with
            | some "simple" => (match importSimple F st.1.d with
              | .ok (s, warned) => s!"ok {live} " ++ showSimpleView s warned
              | .error e => "err " ++ showImportErr e)
            | _ => (match importFile F st.1.d with
              | .ok (p, warned) => s!"ok {live} " ++ showFileView p warned
              | .error e => "err " ++ showImportErr e)
    | _, _, _, _ => "bad-op"
  | "simple-meta" :: _ =>
    -- the same assignments on an in-memory object
    match parseMeta? ws, (kv ws "cmds").bind parseMCmds? with
    | some m, some cmds =>
      let m' := cmds.foldl (metaCmd F) m
      s!"live={hexEncode m'.name},{hexEncode m'.description}"
    | _, _ => "bad-op"
  | ["ptinit-same"] => if F.ptTempoFileInit == F.ptTempoSimpleInit then "1" else "0"
  | "simple-sets" :: _ =>
    -- the same set_* calls on a SimpleProcessTensor
    match parseMeta? ws, (kv ws "cmds").bind parseCmds? with
    | some m, some cmds =>
      let s := cmds.foldl (fun (s : SimplePT) c => match c with
        | .setInitial t => s.setInitial F t
        | .setMpo k t => s.setMpo k t
        | .setCap k t => s.setCap k t) { info := m }
      "ok " ++ showSimpleView s false
    | _, _ => "bad-op"
  | "setget" :: _ =>
    match (kv ws "rows").bind (·.toNat?), (kv ws "cmds").bind parseCmds? with
    | some n, some cmds =>
      let c0 : H5 := { mpo := ⟨some (List.replicate n []), some (List.replicate n [])⟩ }
      let w := runCmds ⟨Disk.file c0, []⟩ cmds
      match w.d with
      | .file c =>
        let len := match c.mpo.shape with | some l => l.length | none => 0
        s!"trace={showTrace w.trace} len={len} gets=" ++
          "|".intercalate ((List.range (len + 1)).map (fun k => showGet (getDataShape c.mpo k))) ++
          s!" data={showRowsE c.mpo.data} shape={showRowsN c.mpo.shape}"
      | _ => "bad-op"
    | _, _ => "bad-op"
  | ["flag", "read", v] =>
    match parsePyVal? v with
    | some v => if F.readWarn v then "1" else "0"
    | none => "bad-op"
  | ["flag", "close", wr, v] =>
    match parseBool? wr, parsePyVal? v with
    | some wr, some v => if F.closeReset wr v then "1" else "0"
    | _, _ => "bad-op"
  | "open" :: _ =>
    match kv ws "mode", (kv ws "hasfn").bind parseBool?, (kv ws "version").bind hexDecode? with
    | some mode, some hasfn, some ver =>
      let env : Env := ⟨ver⟩
      match diskOf F env ws with
      | none => "bad-op"
      | some d0 =>
        match F.modeFlags mode with
        | none => "ctor=ValueError after=unchanged"
        | some (false, _) =>
          -- reading
          let o := readOutcome F d0
          let rm := removeRun F.removeSteps (F.removeable false false hasfn)
          let closeOk := match d0 with | .file c => readerCloseOk F c | _ => false
          s!"ctor={showOutcome o} after=unchanged removeable={F.removeable false false hasfn} " ++
          s!"remove-deleted={rm.1} remove-raised={rm.2} close-ok={closeOk}"
        | some (true, ovw) =>
          match parseMeta? ws with
          | none => "bad-op"
          | some m =>
            let rm := removeRun F.removeSteps (F.removeable true ovw hasfn)
            match createFile F env d0 mode m with
            | .error e => s!"ctor={showOpenErr e} after=unchanged"
            | .ok w =>
              s!"ctor=ok after={if w.d == d0 then "unchanged" else "created"} " ++
              s!"removeable={F.removeable true ovw hasfn} remove-deleted={rm.1} remove-raised={rm.2}"
    | _, _, _ => "bad-op"
  | "entry" :: _ =>
    -- a creating entry point against an existing/missing path: does it raise, is the path
    -- kept, and may the object it returns remove() the file?
    match kv ws "kind", (kv ws "ovw").bind parseBool?, (kv ws "disk").bind parseDisk?,
          (kv ws "hasfn").bind parseBool? with
    | some kind, some ovw, some d0, some hasfn =>
      let mode := if kind == "fpt" then (if ovw then "overwrite" else "write")
                  else if kind == "export" then F.exportMode ovw
                  else F.ptTempoMode ovw (fun _ => d0 != Disk.missing)
      let m : Meta := ⟨2, none, none, none, "n", "d"⟩
      let rm := match F.modeFlags mode with
        | some (wr, o) => removeRun F.removeSteps (F.removeable wr o hasfn)
        | none => (false, true)
      let rmS := if rm.1 then "deleted" else if rm.2 then "refused" else "kept"
      match createFile F ⟨"v"⟩ d0 mode m with
      | .ok w => (if w.d == d0 then "ok-unchanged" else "ok-created") ++ " remove=" ++ rmS
      | .error _ => "raises-unchanged"
    | _, _, _, _ => "bad-op"
  | "removeseq" :: _ =>
    -- close(); remove()  (twice=0)  /  remove(); remove()  (twice=1): is the file gone?
    match kv ws "mode", (kv ws "hasfn").bind parseBool?, (kv ws "twice").bind parseBool? with
    | some mode, some hasfn, some twice =>
      match F.modeFlags mode with
      | some (wr, o) =>
        if removeSeqDeletes F.removeSteps (F.removeable wr o hasfn) twice then "deleted" else "kept"
      | none => "bad-op"
    | _, _, _ => "bad-op"
  | ["choice", t, x] =>
    match parseBool? t, parseBool? x with
    | some t, some x => (match F.ptTempoChoice t x with
      | .simple => "simple" | .fileNamed => "fileNamed" | .fileTemp => "fileTemp")
    | _, _ => "bad-op"
  | ["ptmode", o] =>
    match parseBool? o with
    | some o => F.ptTempoMode o (fun _ => false)
    | none => "bad-op"
  | _ => "bad-op"

end OQuPyVerif.PTFile.Wire
