/- C11 helper lemmas on the `GibbsTempo.compute` state machine with the regenerated loop data. -/
import OQuPyVerif.Lemmas.GibbsSpec
import Mathlib.Tactic.Ring
import Mathlib.Tactic.Linarith

namespace OQuPyVerif.Gibbs
open OQuPyVerif.Generated.GibbsLoop

/-- the object after `m ≥ 2` imaginary-time slices have been recorded: counter `m − 1`,
    `m + 1` arrays, state number `k` labelled `k` -/
def gridObj (m : Nat) : GObj :=
  ⟨some ((m : Int) - 1), m + 1, (List.range (m + 1)).map (fun (k : Nat) => ((k : Int), k))⟩

theorem gStep_grid (m : Nat) : gStep genSpec (gridObj m) = gridObj (m + 1) := by
  unfold gStep gridObj genSpec
  simp only [step_increment, step_appends, step_label_index, Option.getD_some]
  congr 1
  · congr 1; push_cast; ring
  · rw [List.range_succ (n := m + 1), List.map_append]
    simp

theorem gIter_grid (k m : Nat) : gIter genSpec k (gridObj m) = gridObj (m + k) := by
  induction k generalizing m with
  | zero => rfl
  | succ k ih =>
    simp only [gIter]
    rw [gStep_grid, ih]
    congr 1; omega

theorem gInitialise_fresh : gInitialise genSpec (GObj.fresh genSpec) = gridObj 2 := by
  decide

theorem gCompute_fresh (n : Int) (hn : 2 ≤ n) :
    gCompute genSpec n (GObj.fresh genSpec) = gridObj n.toNat := by
  unfold gCompute
  have h0 : (GObj.fresh genSpec).step = none := rfl
  simp only [h0, gInitialise_fresh]
  rw [gIter_grid]
  congr 1
  simp only [genSpec, compute_num_step, gridObj, Option.getD_some]
  omega

theorem gIter_step_some (k : Nat) (o : GObj) (st : Int) (h : o.step = some st) :
    (gIter genSpec k o).step = some (st + k) := by
  induction k generalizing o st with
  | zero => simpa [gIter] using h
  | succ k ih =>
    simp only [gIter]
    have h1 : (gStep genSpec o).step = some (st + 1) := by
      unfold gStep genSpec; simp [h, step_increment]
    rw [ih _ _ h1]
    congr 1; push_cast; ring

theorem gCompute_of_some (n : Int) (o : GObj) (st : Int) (h : o.step = some st) :
    gCompute genSpec n o = gIter genSpec (compute_num_step n st).toNat o := by
  unfold gCompute
  rw [h]
  simp only [Option.getD_some, h]
  rfl

theorem gCompute_done (n : Int) (o : GObj) (st : Int) (h : o.step = some st) (hst : n - 1 ≤ st) :
    gCompute genSpec n o = o := by
  rw [gCompute_of_some n o st h]
  have : (compute_num_step n st).toNat = 0 := by
    unfold compute_num_step; omega
  rw [this]; rfl

theorem gCompute_idem (n : Int) (o : GObj) :
    gCompute genSpec n (gCompute genSpec n o) = gCompute genSpec n o := by
  -- after the initialisation guard the counter is `some st1`
  obtain ⟨o1, st1, h1, hc⟩ : ∃ o1 st1, o1.step = some st1 ∧
      gCompute genSpec n o = gIter genSpec (compute_num_step n st1).toNat o1 := by
    cases hs : o.step with
    | none =>
      refine ⟨gInitialise genSpec o, genSpec.initStep, rfl, ?_⟩
      unfold gCompute
      simp only [hs]
      rfl
    | some st => exact ⟨o, st, hs, gCompute_of_some n o st hs⟩
  rw [hc]
  apply gCompute_done n _ _ (gIter_step_some _ o1 st1 h1)
  unfold compute_num_step
  omega

end OQuPyVerif.Gibbs
