/- Tiling identities of the 2D correlation integrals written as differences of the
   η-function on the time grid (C01, C11, C12). -/
import Mathlib.Algebra.BigOperators.Intervals
import Mathlib.Algebra.BigOperators.Group.Finset.Basic
import Mathlib.Tactic.Abel
import Mathlib.Tactic.Ring
import Mathlib.Algebra.Order.Ring.Int

namespace OQuPyVerif.EtaCells
open Finset BigOperators
variable {K : Type} [AddCommGroup K]

/-- `'upper-triangle'` at `time_1 = 0`: `η(Δ) − η(0)` -/
def triCell (e : ℤ → K) : K := e 1 - e 0
/-- `'square'` at `time_1 = dk·Δ`: `η((dk+1)Δ) − 2η(dkΔ) + η((dk−1)Δ)` -/
def sqCell (e : ℤ → K) (dk : ℕ) : K := e ((dk : ℤ) + 1) - (e dk + e dk) + e ((dk : ℤ) - 1)
/-- the cell TEMPO uses for distance `dk` -/
def cell (e : ℤ → K) (dk : ℕ) : K := if dk = 0 then triCell e else sqCell e dk
/-- `'rectangle'` from `time_1 = K·Δ` to `time_2` (`η2 = η(time_2)`, `η2m = η(time_2 − Δ)`) -/
def rectCell (e : ℤ → K) (Kc : ℕ) (η2 η2m : K) : K := η2 - e Kc - η2m + e ((Kc : ℤ) - 1)

/-- a row of cells `dk = 0..m` sums to the strip integral `η((m+1)Δ) − η(mΔ)` -/
theorem row_sum (e : ℤ → K) (m : ℕ) :
    ∑ dk ∈ range (m+1), cell e dk = e ((m : ℤ) + 1) - e m := by
  induction m with
  | zero => simp [cell, triCell]
  | succ m ih =>
    rw [Finset.sum_range_succ, ih]
    simp only [cell, Nat.succ_ne_zero, ite_false, sqCell, Nat.cast_succ]
    have : ((m : ℤ) + 1 - 1) = m := by ring
    rw [this]
    abel

/-- **Tiling**: the cells of the first `n` steps with full memory sum to the integral over the
    whole triangle, `η(nΔ) − η(0)`. -/
theorem tiling (e : ℤ → K) (n : ℕ) :
    ∑ k ∈ range n, ∑ dk ∈ range (k+1), cell e dk = e n - e 0 := by
  induction n with
  | zero => simp
  | succ n ih =>
    rw [Finset.sum_range_succ, ih, row_sum]
    simp only [Nat.cast_succ]
    abel

/-- memory cut-off `Kc`: a later row (`k ≥ Kc`) only keeps the cells `dk = 0..Kc` -/
theorem row_sum_cutoff (e : ℤ → K) (Kc k : ℕ) :
    ∑ dk ∈ range (min k Kc + 1), cell e dk = e ((min k Kc : ℕ) + 1) - e (min k Kc : ℕ) :=
  row_sum e (min k Kc)

/-- additional correlation time: replacing the furthest cell `dk = Kc` (`Kc ≥ 1`) by the
    rectangle reaching to `time_2` turns the row into the strip integral out to `time_2`:
    `η(time_2) − η(time_2 − Δ)`. -/
theorem row_sum_rect (e : ℤ → K) (Kc : ℕ) (hK : 1 ≤ Kc) (η2 η2m : K) :
    ∑ dk ∈ range Kc, cell e dk + rectCell e Kc η2 η2m = η2 - η2m := by
  obtain ⟨m, rfl⟩ : ∃ m, Kc = m + 1 := ⟨Kc - 1, by omega⟩
  rw [row_sum]
  simp only [rectCell, Nat.cast_succ]
  have : ((m : ℤ) + 1 - 1) = m := by ring
  rw [this]
  abel

end OQuPyVerif.EtaCells
