/-
  Lemmas/ProgressStep — Owicki–Gries style assertions for the lock + active-flag protocol
  (`lockedProtocol`): what holds at every statement inside `with self._lock:`, and the
  single-thread step lemma `thread_step_inv` (one case per statement of enter / update /
  exit / _print_status).  Helper lemmas for C19.
-/
import OQuPyVerif.Lemmas.ProgressData
namespace OQuPyVerif.Progress
open MicroOp

def inCrit : List MicroOp → Bool
  | [] => false
  | .release :: _ => true
  | .acquire :: _ => false
  | _ :: rest => inCrit rest

/-- what holds while a thread is inside `with self._lock:` and about to execute the head -/
def critAssert (s : State) : List MicroOp → Prop
  | .returnUnlessActive :: _ => Good s ∧ s.timers ≠ []
  | .setActive true :: _ => s.timers = [] ∧ s.cur = none
  | .setActive false :: _ => Good s ∧ s.timers ≠ []
  | .cancelTimer :: .newTimer _ :: _ => Good s ∧ s.timers ≠ [] ∧ s.active = true
  | .cancelTimer :: _ => NoUnstarted s ∧ PendingCur s ∧ s.timers ≠ [] ∧ s.active = false
  | .newTimer _ :: _ => NoUnstarted s ∧ NoPending s ∧ s.active = true
  | .setDaemon :: _ => Fresh s false
  | .startTimer :: _ => Fresh s true
  | .setStep :: _ => Good s ∧ s.timers ≠ [] ∧ s.active = true
  | .print :: _ => Good s ∧ s.timers ≠ [] ∧ s.active = true
  | .release :: .print :: _ => Good s ∧ s.timers ≠ [] ∧ s.active = false
  | .release :: _ => Good s ∧ s.timers ≠ []
  | _ => False

def ThreadOK (s : State) (t : Tid) (c : List MicroOp) : Prop :=
  (inCrit c = true → s.lock = some t ∧ critAssert s c) ∧ (inCrit c = false → s.lock ≠ some t)

def suffixes {α} : List α → List (List α)
  | [] => [[]]
  | a :: l => (a :: l) :: suffixes l

def enterTails : List (List MicroOp) := suffixes lockedProtocol.enter
def updateTails : List (List MicroOp) := suffixes lockedProtocol.update
def exitTails : List (List MicroOp) := suffixes lockedProtocol.exit
def psTails : List (List MicroOp) := suffixes lockedProtocol.printStatus

structure Shared (s : State) : Prop where
  daemon : StartedDaemon s
  cur : CurValid s
  free : s.lock = none → Good s

def SameThreads (s s' : State) : Prop :=
  s.timers.length ≤ s'.timers.length ∧
  ∀ (i : Nat) (r' : TimerRec), s'.timers[i]? = some r' →
    (∃ r, s.timers[i]? = some r ∧ r'.code = r.code ∧ (r'.st = TState.running ↔ r.st = TState.running)) ∨
    (s.timers[i]? = none ∧ r'.st ≠ TState.running)

structure StepOut (s : State) (t : Tid) (op : MicroOp) (rest : List MicroOp) (m : Moved) : Prop where
  noRaise : m.raised = false
  shared : Shared m.s
  thread : ThreadOK m.s t m.code
  same : SameThreads s m.s
  others : ∀ t' c', t' ≠ t → ThreadOK s t' c' → ThreadOK m.s t' c'
  frameA : (∀ b, op ≠ .setActive b) → m.s.active = s.active
  frameT : op = .print → m.s.timers = s.timers ∧ m.s.cur = s.cur
  mainF : m.s.mainTodo = s.mainTodo ∧ m.s.mainCode = s.mainCode
  lockF : ∀ i, m.s.lock = some (.timer i) → s.lock = some (.timer i) ∨ t = .timer i
  codeF : m.code = rest ∨ op = .returnUnlessActive
  relF : op = .release → m.s.timers ≠ []

theorem sameThreads_refl (s s' : State) (h : s'.timers = s.timers) : SameThreads s s' := by
  refine ⟨by rw [h]; exact Nat.le_refl _, ?_⟩
  intro i r' hi
  rw [h] at hi
  exact Or.inl ⟨r', hi, rfl, Iff.rfl⟩

theorem sameThreads_modify (s s' : State) (j : Nat) (f : TimerRec → TimerRec)
    (h : s'.timers = s.timers.modify j f)
    (hf : ∀ r, s.timers[j]? = some r →
      (f r).code = r.code ∧ ((f r).st = TState.running ↔ r.st = TState.running)) :
    SameThreads s s' := by
  refine ⟨by rw [h, List.length_modify]; exact Nat.le_refl _, ?_⟩
  intro i r' hi
  rw [h] at hi
  obtain ⟨r0, hl, rfl⟩ := modify_some hi
  left
  refine ⟨r0, hl, ?_⟩
  split
  · rename_i hji
    exact hf r0 (hji ▸ hl)
  · exact ⟨rfl, Iff.rfl⟩

theorem others_locked {s s' : State} {t : Tid} (hl : s.lock = some t)
    (hl' : s'.lock = some t ∨ s'.lock = none) :
    ∀ t' c', t' ≠ t → ThreadOK s t' c' → ThreadOK s' t' c' := by
  intro t' c' hne ⟨h1, _⟩
  constructor
  · intro hc
    have := (h1 hc).1
    rw [hl] at this
    cases this
    exact absurd rfl hne
  · intro _ h
    rcases hl' with h' | h' <;> rw [h'] at h
    · cases h; exact absurd rfl hne
    · cases h



theorem out_same {s : State} {t : Tid} {op : MicroOp} {c rest : List MicroOp} (hS : Shared s)
    (hT : ThreadOK s t c) (hcode : c = rest ∨ op = .returnUnlessActive) (hnr : op ≠ .release) :
    StepOut s t op rest { s := s, code := c, raised := false } :=
  { noRaise := rfl, shared := hS, thread := hT, same := sameThreads_refl s s rfl,
    others := fun _ _ _ h => h, frameA := fun _ => rfl, frameT := fun _ => ⟨rfl, rfl⟩,
    mainF := ⟨rfl, rfl⟩, lockF := fun _ h => Or.inl h, codeF := hcode,
    relF := fun h => absurd h hnr }

theorem out_acquire {s : State} {t : Tid} {c : List MicroOp} (hS : Shared s) (hl : s.lock = none)
    (hc : inCrit c = true) (ha : critAssert s c) :
    StepOut s t .acquire c { s := { s with lock := some t }, code := c, raised := false } :=
  { noRaise := rfl
    shared := ⟨hS.daemon, hS.cur, fun h => by cases h⟩
    thread := ⟨fun _ => ⟨rfl, ha⟩, fun h => by rw [hc] at h; cases h⟩
    same := sameThreads_refl _ _ rfl
    others := by
      intro t' c' hne ⟨h1, _⟩
      refine ⟨fun hc' => ?_, fun _ h => ?_⟩
      · have := (h1 hc').1
        rw [hl] at this
        cases this
      · cases h
        exact hne rfl
    frameA := fun _ => rfl
    frameT := fun h => by cases h
    mainF := ⟨rfl, rfl⟩
    lockF := fun i h => by
      right
      cases h
      rfl
    codeF := Or.inl rfl
    relF := fun h => by cases h }

theorem out_release {s : State} {t : Tid} {c : List MicroOp} (hS : Shared s)
    (hl : s.lock = some t) (hc : inCrit c = false) (hg : Good s) (hne : s.timers ≠ []) :
    StepOut s t .release c { s := { s with lock := none }, code := c, raised := false } :=
  { noRaise := rfl
    shared := ⟨hS.daemon, hS.cur, fun _ => hg⟩
    thread := ⟨fun h => (by rw [hc] at h; cases h), fun _ h => (by cases h)⟩
    same := sameThreads_refl _ _ rfl
    others := others_locked hl (Or.inr rfl)
    frameA := fun _ => rfl
    frameT := fun h => by cases h
    mainF := ⟨rfl, rfl⟩
    lockF := fun i h => by cases h
    codeF := Or.inl rfl
    relF := fun _ => hne }

theorem out_data {s : State} {t : Tid} {op : MicroOp} {rest : List MicroOp} {m : Moved}
    (hl : s.lock = some t) (hcode : m.code = rest) (hnr : op ≠ .release)
    (hl' : m.s.lock = some t) (hr : m.raised = false) (hd : StartedDaemon m.s) (hcv : CurValid m.s)
    (hsame : SameThreads s m.s) (hc : inCrit m.code = true) (ha : critAssert m.s m.code)
    (hfa : (∀ b, op ≠ .setActive b) → m.s.active = s.active) (hnp : op ≠ .print)
    (hmf : m.s.mainTodo = s.mainTodo ∧ m.s.mainCode = s.mainCode) : StepOut s t op rest m :=
  { noRaise := hr
    shared := ⟨hd, hcv, fun h => by rw [hl'] at h; cases h⟩
    thread := ⟨fun _ => ⟨hl', ha⟩, fun h => by rw [hc] at h; cases h⟩
    same := hsame
    others := others_locked hl (Or.inl hl')
    frameA := hfa
    frameT := fun h => absurd h hnp
    mainF := hmf
    lockF := fun i h => by
      left
      rw [hl'] at h
      rw [hl]
      exact h
    codeF := Or.inl hcode
    relF := fun h => absurd h hnr }




theorem sameThreads_new (s : State) (cb : Callback) : SameThreads s (newAt s cb) := by
  refine ⟨by simp [newAt], ?_⟩
  intro i r' hi
  rcases append_some hi with h | ⟨h1, h2⟩
  · exact Or.inl ⟨r', h, rfl, Iff.rfl⟩
  · right
    subst h1 h2
    simp

theorem curValid_modify {s s' : State} {j : Nat} {f : TimerRec → TimerRec} (h : CurValid s)
    (hc : s'.cur = s.cur) (ht : s'.timers = s.timers.modify j f) : CurValid s' := by
  constructor
  · intro k hk
    rw [ht, List.length_modify]
    exact h.1 k (hc ▸ hk)
  · intro hn
    rw [ht, h.2 (hc ▸ hn)]
    simp

theorem ne_nil_of_some {α} {l : List α} {j : Nat} {r : α} (h : l[j]? = some r) : l ≠ [] := by
  intro hn
  rw [hn] at h
  simp at h

theorem modify_ne_nil {α} {l : List α} {j : Nat} {f : α → α} (h : l ≠ []) : l.modify j f ≠ [] := by
  intro hn
  have := congrArg List.length hn
  rw [List.length_modify] at this
  cases l with
  | nil => exact h rfl
  | cons a l => simp at this

theorem cur_some {s : State} (h : CurValid s) (hne : s.timers ≠ []) : ∃ j, s.cur = some j := by
  cases hc : s.cur with
  | none => exact absurd (h.2 hc) hne
  | some j => exact ⟨j, rfl⟩

theorem good_of_noPending {s : State} (h1 : NoUnstarted s) (h2 : NoPending s) : Good s :=
  ⟨h1, fun j r hj hp => absurd hp (h2 j r hj)⟩

macro "memT" : tactic =>
  `(tactic| simp [enterTails, updateTails, exitTails, psTails, suffixes, lockedProtocol])

theorem thread_step_inv (s : State) (t : Tid) (op : MicroOp) (rest : List MicroOp) (m : Moved)
    (T : List (List MicroOp))
    (hT : T = enterTails ∨ T = updateTails ∨ T = exitTails ∨ T = psTails)
    (hc : op :: rest ∈ T) (hS : Shared s) (hOK : ThreadOK s t (op :: rest))
    (hacq : op = .acquire → s.lock = none → critAssert s rest)
    (h : threadStep s t op rest = some m) :
    StepOut s t op rest m ∧ m.code ∈ T := by
  rcases hT with rfl | rfl | rfl | rfl
  · simp [enterTails, suffixes, lockedProtocol] at hc
    rcases hc with ⟨rfl, rfl⟩ | ⟨rfl, rfl⟩ | ⟨rfl, rfl⟩ | ⟨rfl, rfl⟩ | ⟨rfl, rfl⟩ | ⟨rfl, rfl⟩ | ⟨rfl, rfl⟩
    · -- E0 print
      simp [threadStep, execOp] at h
      subst h
      exact ⟨out_same hS ⟨fun h => (by cases h), fun _ => hOK.2 rfl⟩ (Or.inl rfl) (by simp), by memT⟩
    · -- E1 acquire
      by_cases hl : s.lock = none
      · simp [threadStep, execOp, hl] at h
        subst h
        exact ⟨out_acquire hS hl rfl (hacq rfl hl), by memT⟩
      · simp [threadStep, execOp, hl] at h
    · -- E2 setActive true
      obtain ⟨hl, hv⟩ := hOK.1 rfl
      simp [threadStep, execOp] at h
      subst h
      refine ⟨out_data hl rfl (by simp) hl rfl hS.daemon hS.cur (sameThreads_refl _ _ rfl) rfl ?_
        (fun h => absurd rfl (h true)) (by simp) ⟨rfl, rfl⟩, by memT⟩
      refine ⟨?_, ?_, rfl⟩
      · intro j r hj
        simp [hv.1] at hj
      · intro j r hj
        simp [hv.1] at hj
    · -- E3 newTimer
      obtain ⟨hl, h1, h2, h3⟩ := hOK.1 rfl
      simp [threadStep, execOp] at h
      subst h
      obtain ⟨hf, hd, hcv⟩ := new_post s .printStatus h1 h2 h3 hS.daemon
      exact ⟨out_data (m := ⟨newAt s .printStatus, _, false⟩) hl rfl (by simp) hl rfl hd hcv
        (sameThreads_new s _) rfl hf (fun _ => rfl) (by simp) ⟨rfl, rfl⟩, by memT⟩
    · -- E4 setDaemon
      obtain ⟨hl, hv⟩ := hOK.1 rfl
      obtain ⟨j, r, hcur, hj, hst, hf, hd⟩ := daemon_post s hv hS.daemon
      simp [threadStep, execOp, hcur, hj, hst] at h
      subst h
      exact ⟨out_data (m := ⟨daemonAt s j, _, false⟩) hl rfl (by simp) hl rfl hd
        (curValid_modify hS.cur rfl rfl)
        (sameThreads_modify s _ j _ rfl (fun r _ => ⟨rfl, Iff.rfl⟩)) rfl hf (fun _ => rfl) (by simp)
        ⟨rfl, rfl⟩, by memT⟩
    · -- E5 startTimer
      obtain ⟨hl, hv⟩ := hOK.1 rfl
      obtain ⟨j, r, hcur, hj, hst, hg, ha, hd⟩ := start_post s hv hS.daemon
      simp [threadStep, execOp, hcur, hj, hst] at h
      subst h
      exact ⟨out_data (m := ⟨startAt s j, _, false⟩) hl rfl (by simp) hl rfl hd
        (curValid_modify hS.cur rfl rfl)
        (sameThreads_modify s _ j _ rfl (fun r' hr' => ⟨rfl, by rw [hj] at hr'; cases hr'; simp [hst]⟩)) rfl
        ⟨hg, modify_ne_nil (ne_nil_of_some hj)⟩ (fun _ => rfl) (by simp) ⟨rfl, rfl⟩, by memT⟩
    · -- E6 release
      obtain ⟨hl, hv⟩ := hOK.1 rfl
      simp [threadStep, execOp, hl] at h
      subst h
      exact ⟨out_release hS hl rfl hv.1 hv.2, by memT⟩
  · simp [updateTails, suffixes, lockedProtocol] at hc
    rcases hc with ⟨rfl, rfl⟩ | ⟨rfl, rfl⟩ | ⟨rfl, rfl⟩ | ⟨rfl, rfl⟩ | ⟨rfl, rfl⟩ | ⟨rfl, rfl⟩ |
      ⟨rfl, rfl⟩ | ⟨rfl, rfl⟩ | ⟨rfl, rfl⟩
    · -- U0 acquire
      by_cases hl : s.lock = none
      · simp [threadStep, execOp, hl] at h
        subst h
        exact ⟨out_acquire hS hl rfl (hacq rfl hl), by memT⟩
      · simp [threadStep, execOp, hl] at h
    · -- U1 returnUnlessActive
      obtain ⟨hl, hv⟩ := hOK.1 rfl
      by_cases ha : s.active = true
      · simp [threadStep, execOp, ha] at h
        subst h
        exact ⟨out_same hS ⟨fun _ => ⟨hl, hv.1, hv.2, ha⟩, fun h => (by cases h)⟩ (Or.inl rfl) (by simp), by memT⟩
      · simp [threadStep, execOp, ha, unwind, hl] at h
        subst h
        exact ⟨out_same hS ⟨fun _ => ⟨hl, hv⟩, fun h => (by cases h)⟩ (Or.inr rfl) (by simp), by memT⟩
    · -- U2 cancelTimer (update)
      obtain ⟨hl, hg, hne, ha⟩ := hOK.1 rfl
      obtain ⟨j, hcur⟩ := cur_some hS.cur hne
      simp [threadStep, execOp, hcur] at h
      subst h
      obtain ⟨h1, h2, h3⟩ := cancel_post s j hcur hg.1 hg.pendingCur hS.daemon
      exact ⟨out_data (m := ⟨cancelAt s j, _, false⟩) hl rfl (by simp) hl rfl h3
        (curValid_modify hS.cur rfl rfl)
        (sameThreads_modify s _ j _ rfl (fun r _ => ⟨rfl, by cases hr : r.st <;> simp [TState.cancel]⟩))
        rfl ⟨h1, h2, ha⟩ (fun _ => rfl) (by simp) ⟨rfl, rfl⟩, by memT⟩
    · -- U3 newTimer
      obtain ⟨hl, h1, h2, h3⟩ := hOK.1 rfl
      simp [threadStep, execOp] at h
      subst h
      obtain ⟨hf, hd, hcv⟩ := new_post s .update h1 h2 h3 hS.daemon
      exact ⟨out_data (m := ⟨newAt s .update, _, false⟩) hl rfl (by simp) hl rfl hd hcv
        (sameThreads_new s _) rfl hf (fun _ => rfl) (by simp) ⟨rfl, rfl⟩, by memT⟩
    · -- U4 setDaemon
      obtain ⟨hl, hv⟩ := hOK.1 rfl
      obtain ⟨j, r, hcur, hj, hst, hf, hd⟩ := daemon_post s hv hS.daemon
      simp [threadStep, execOp, hcur, hj, hst] at h
      subst h
      exact ⟨out_data (m := ⟨daemonAt s j, _, false⟩) hl rfl (by simp) hl rfl hd
        (curValid_modify hS.cur rfl rfl)
        (sameThreads_modify s _ j _ rfl (fun r _ => ⟨rfl, Iff.rfl⟩)) rfl hf (fun _ => rfl) (by simp)
        ⟨rfl, rfl⟩, by memT⟩
    · -- U5 startTimer
      obtain ⟨hl, hv⟩ := hOK.1 rfl
      obtain ⟨j, r, hcur, hj, hst, hg, ha, hd⟩ := start_post s hv hS.daemon
      simp [threadStep, execOp, hcur, hj, hst] at h
      subst h
      exact ⟨out_data (m := ⟨startAt s j, _, false⟩) hl rfl (by simp) hl rfl hd
        (curValid_modify hS.cur rfl rfl)
        (sameThreads_modify s _ j _ rfl
          (fun r' hr' => ⟨rfl, by rw [hj] at hr'; cases hr'; simp [hst]⟩)) rfl
        ⟨hg, modify_ne_nil (ne_nil_of_some hj), ha⟩ (fun _ => rfl) (by simp) ⟨rfl, rfl⟩, by memT⟩
    · -- U6 setStep
      obtain ⟨hl, hv⟩ := hOK.1 rfl
      simp [threadStep, execOp] at h
      subst h
      exact ⟨out_same hS ⟨fun _ => ⟨hl, hv⟩, fun h => (by cases h)⟩ (Or.inl rfl) (by simp), by memT⟩
    · -- U7 print
      obtain ⟨hl, hv⟩ := hOK.1 rfl
      simp [threadStep, execOp] at h
      subst h
      exact ⟨out_same hS ⟨fun _ => ⟨hl, hv.1, hv.2.1⟩, fun h => (by cases h)⟩ (Or.inl rfl) (by simp), by memT⟩
    · -- U8 release
      obtain ⟨hl, hv⟩ := hOK.1 rfl
      simp [threadStep, execOp, hl] at h
      subst h
      exact ⟨out_release hS hl rfl hv.1 hv.2, by memT⟩
  · simp [exitTails, suffixes, lockedProtocol] at hc
    rcases hc with ⟨rfl, rfl⟩ | ⟨rfl, rfl⟩ | ⟨rfl, rfl⟩ | ⟨rfl, rfl⟩ | ⟨rfl, rfl⟩ | ⟨rfl, rfl⟩
    · -- X0 acquire
      by_cases hl : s.lock = none
      · simp [threadStep, execOp, hl] at h
        subst h
        exact ⟨out_acquire hS hl rfl (hacq rfl hl), by memT⟩
      · simp [threadStep, execOp, hl] at h
    · -- X1 setActive false
      obtain ⟨hl, hg, hne⟩ := hOK.1 rfl
      simp [threadStep, execOp] at h
      subst h
      exact ⟨out_data (m := ⟨{ s with active := false }, _, false⟩) hl rfl (by simp) hl rfl hS.daemon hS.cur
        (sameThreads_refl _ _ rfl) rfl ⟨hg.1, hg.pendingCur, hne, rfl⟩
        (fun h => absurd rfl (h false)) (by simp) ⟨rfl, rfl⟩, by memT⟩
    · -- X2 cancelTimer (exit)
      obtain ⟨hl, h1, h2, hne, ha⟩ := hOK.1 rfl
      obtain ⟨j, hcur⟩ := cur_some hS.cur hne
      simp [threadStep, execOp, hcur] at h
      subst h
      obtain ⟨h1', h2', h3'⟩ := cancel_post s j hcur h1 h2 hS.daemon
      exact ⟨out_data (m := ⟨cancelAt s j, _, false⟩) hl rfl (by simp) hl rfl h3'
        (curValid_modify hS.cur rfl rfl)
        (sameThreads_modify s _ j _ rfl (fun r _ => ⟨rfl, by cases hr : r.st <;> simp [TState.cancel]⟩))
        rfl ⟨good_of_noPending h1' h2', modify_ne_nil hne, ha⟩ (fun _ => rfl) (by simp) ⟨rfl, rfl⟩,
        by memT⟩
    · -- X3 release
      obtain ⟨hl, hv⟩ := hOK.1 rfl
      simp [threadStep, execOp, hl] at h
      subst h
      exact ⟨out_release hS hl rfl hv.1 hv.2.1, by memT⟩
    · -- X4 print
      simp [threadStep, execOp] at h
      subst h
      exact ⟨out_same hS ⟨fun h => (by cases h), fun _ => hOK.2 rfl⟩ (Or.inl rfl) (by simp), by memT⟩
    · -- X5 print
      simp [threadStep, execOp] at h
      subst h
      exact ⟨out_same hS ⟨fun h => (by cases h), fun _ => hOK.2 rfl⟩ (Or.inl rfl) (by simp), by memT⟩
  · simp [psTails, suffixes, lockedProtocol] at hc
    obtain ⟨rfl, rfl⟩ := hc
    simp [threadStep, execOp] at h
    subst h
    exact ⟨out_same hS ⟨fun h => (by cases h), fun _ => hOK.2 rfl⟩ (Or.inl rfl) (by simp), by memT⟩

end OQuPyVerif.Progress
