/- Lemmas for C16/C17: a file-backed process tensor and an in-memory one behave like the same
   array of slots under ANY sequence of `set_*` calls (any order, repeated or skipped
   indices — e.g. PT-TEMPO's reversed order): reading slot `k` returns the last tensor written
   to it.  Mathlib-free. -/
import OQuPyVerif.Lemmas.PTFileRoundtrip

namespace OQuPyVerif.PTFile

/-- (dataset pair, slot, tensor) a call writes -/
def cmdTarget : Cmd → VName × Nat × Option Tensor
  | .setInitial t => (.init, 0, t)
  | .setMpo k t => (.mpo, k, t)
  | .setCap k t => (.cap, k, t)

/-- the tensor written last to slot `k` of `v`, if any call wrote there -/
def lastSet (v : VName) (k : Nat) : List Cmd → Option (Option Tensor)
  | [] => none
  | c :: cs =>
    match lastSet v k cs with
    | some t => some t
    | none => if (cmdTarget c).1 = v ∧ (cmdTarget c).2.1 = k then some (cmdTarget c).2.2 else none

theorem pureCmd_eq (c : H5) (cmd : Cmd) :
    pureCmd c cmd = c.setTensor (cmdTarget cmd).1 (cmdTarget cmd).2.1 (cmdTarget cmd).2.2 := by
  cases cmd <;> rfl

theorem vds_setTensor_same (c : H5) (v : VName) (k : Nat) (t : Option Tensor) :
    (c.setTensor v k t).vds v = (c.vds v).setDS k t := by
  unfold H5.setTensor; simp

theorem vds_setTensor_ne (c : H5) (v v' : VName) (k : Nat) (t : Option Tensor) (h : v' ≠ v) :
    (c.setTensor v k t).vds v' = c.vds v' := by
  unfold H5.setTensor; exact vds_setVds_ne _ _ _ _ h

/-- both datasets of `v` exist and have a row `k` -/
def HasRow (c : H5) (v : VName) (k : Nat) : Prop :=
  ∃ da sh, (c.vds v).data = some da ∧ (c.vds v).shape = some sh ∧ k < da.length ∧ k < sh.length

/-- both datasets of `v` exist -/
def HasDs (c : H5) (v : VName) : Prop :=
  ∃ da sh, (c.vds v).data = some da ∧ (c.vds v).shape = some sh

theorem setDS_some (p : VDs) (da : List (List Entry)) (sh : List (List Nat))
    (hd : p.data = some da) (hs : p.shape = some sh) (k : Nat) (t : Option Tensor) :
    (p.setDS k t).data = some (setRows da k (t.getD hdf5None).data) ∧
    (p.setDS k t).shape = some (setRows sh k (t.getD hdf5None).shape) := by
  simp [VDs.setDS, hd, hs]

theorem hasDs_pureCmd (c : H5) (v : VName) (cmd : Cmd) (h : HasDs c v) : HasDs (pureCmd c cmd) v := by
  obtain ⟨da, sh, hd, hs⟩ := h
  rw [pureCmd_eq]
  by_cases hv : v = (cmdTarget cmd).1
  · subst hv
    rw [HasDs, vds_setTensor_same]
    have := setDS_some _ da sh hd hs (cmdTarget cmd).2.1 (cmdTarget cmd).2.2
    exact ⟨_, _, this.1, this.2⟩
  · rw [HasDs, vds_setTensor_ne _ _ _ _ _ hv]
    exact ⟨da, sh, hd, hs⟩

theorem hasRow_pureCmd (c : H5) (v : VName) (k : Nat) (cmd : Cmd) (h : HasRow c v k) :
    HasRow (pureCmd c cmd) v k := by
  obtain ⟨da, sh, hd, hs, h1, h2⟩ := h
  rw [pureCmd_eq]
  by_cases hv : v = (cmdTarget cmd).1
  · subst hv
    rw [HasRow, vds_setTensor_same]
    have := setDS_some _ da sh hd hs (cmdTarget cmd).2.1 (cmdTarget cmd).2.2
    refine ⟨_, _, this.1, this.2, ?_, ?_⟩
    · rw [setRows_length]; omega
    · rw [setRows_length]; omega
  · rw [HasRow, vds_setTensor_ne _ _ _ _ _ hv]
    exact ⟨da, sh, hd, hs, h1, h2⟩

theorem hasRow_after_set (c : H5) (v : VName) (k : Nat) (t : Option Tensor) (h : HasDs c v) :
    HasRow (c.setTensor v k t) v k := by
  obtain ⟨da, sh, hd, hs⟩ := h
  rw [HasRow, vds_setTensor_same]
  have := setDS_some _ da sh hd hs k t
  refine ⟨_, _, this.1, this.2, ?_, ?_⟩
  · rw [setRows_length]; omega
  · rw [setRows_length]; omega

/-- calls that do not write slot `(v, k)` do not change what is read from it -/
theorem file_frame (v : VName) (k : Nat) :
    ∀ (cs : List Cmd) (c : H5), HasRow c v k → lastSet v k cs = none →
      getDataShape ((cs.foldl pureCmd c).vds v) k = getDataShape (c.vds v) k := by
  intro cs
  induction cs with
  | nil => intro c _ _; rfl
  | cons cmd cs ih =>
    intro c hrow hn
    unfold lastSet at hn
    cases hl : lastSet v k cs with
    | some t => rw [hl] at hn; simp at hn
    | none =>
      rw [hl] at hn
      simp only at hn
      have hnot : ¬ ((cmdTarget cmd).1 = v ∧ (cmdTarget cmd).2.1 = k) := by
        intro hh; rw [if_pos hh] at hn; cases hn
      rw [List.foldl_cons, ih _ (hasRow_pureCmd c v k cmd hrow) hl, pureCmd_eq]
      by_cases hv : v = (cmdTarget cmd).1
      · have hk : k ≠ (cmdTarget cmd).2.1 := fun e => hnot ⟨hv.symm, e.symm⟩
        obtain ⟨da, sh, hd, hs, h1, h2⟩ := hrow
        subst hv
        rw [vds_setTensor_same]
        exact get_set_frame _ da sh hd hs _ k _ hk h1 h2
      · rw [vds_setTensor_ne _ _ _ _ _ hv]

/-- **File side**: after any calls, slot `k` of `v` reads as the last tensor written to it -/
theorem file_lastSet (v : VName) (k : Nat) :
    ∀ (cmds : List Cmd) (c : H5), HasDs c v →
      (∀ cmd ∈ cmds, ∀ t', (cmdTarget cmd).2.2 = some t' → t'.WF) →
      ∀ t, lastSet v k cmds = some t →
      getDataShape ((cmds.foldl pureCmd c).vds v) k = .ok (storedView t) := by
  intro cmds
  induction cmds with
  | nil => intro c _ _ t h; simp [lastSet] at h
  | cons cmd cs ih =>
    intro c hds hwf t hl
    unfold lastSet at hl
    rw [List.foldl_cons]
    cases hl' : lastSet v k cs with
    | some t' =>
      rw [hl'] at hl
      simp only [Option.some.injEq] at hl
      subst hl
      exact ih _ (hasDs_pureCmd c v cmd hds) (fun x hx => hwf x (by simp [hx])) _ hl'
    | none =>
      rw [hl'] at hl
      simp only at hl
      by_cases hh : (cmdTarget cmd).1 = v ∧ (cmdTarget cmd).2.1 = k
      · rw [if_pos hh] at hl
        simp only [Option.some.injEq] at hl
        obtain ⟨hv, hk⟩ := hh
        have hrow : HasRow (pureCmd c cmd) v k := by
          rw [pureCmd_eq, hv, hk]; exact hasRow_after_set c v k _ hds
        rw [file_frame v k cs _ hrow hl', pureCmd_eq, hv, hk, vds_setTensor_same, hl]
        obtain ⟨da, sh, hd, hs⟩ := hds
        refine get_set _ da sh hd hs k t ?_
        intro t' ht'
        exact hwf cmd (by simp) t' (by rw [hl]; exact ht')
      · rw [if_neg hh] at hl; cases hl

/-! ### the same calls on a `SimpleProcessTensor` -/

theorem getElem?_listSetGrow {α} (l : List (Option α)) (step i : Nat) (x : α) :
    (listSetGrow l step x)[i]? =
      if i = step then some (some x)
      else if i < l.length then l[i]?
      else if i < step then some none else none := by
  unfold listSetGrow
  by_cases h : step ≥ l.length
  · simp only [h, if_true]
    rw [List.getElem?_set]
    by_cases hi : step = i
    · subst hi; simp; omega
    · have hi' : ¬ i = step := fun e => hi e.symm
      simp only [hi, hi', if_false]
      by_cases hl : i < l.length
      · simp [hl, List.getElem?_append_left hl]
      · simp only [hl, if_false]
        rw [List.getElem?_append_right (by omega), List.getElem?_replicate]
        by_cases h2 : i < step
        · simp [h2]; omega
        · simp [h2]; omega
  · simp only [h, if_false]
    rw [List.getElem?_set]
    by_cases hi : step = i
    · subst hi; simp; omega
    · have hi' : ¬ i = step := fun e => hi e.symm
      simp only [hi, hi', if_false]
      by_cases hl : i < l.length
      · simp [hl]
      · simp only [hl, if_false]
        have : ¬ i < step := by omega
        simp [this]; omega

theorem listSetGrow_length {α} (l : List (Option α)) (step : Nat) (x : α) :
    (listSetGrow l step x).length = max l.length (step + 1) := by
  unfold listSetGrow
  split
  · rw [List.length_set, List.length_append, List.length_replicate]; omega
  · rw [List.length_set]; omega

/-- a `set_*` call on a `SimpleProcessTensor` -/
def simpleCmd (F : Flags) (s : SimplePT) : Cmd → SimplePT
  | .setInitial t => s.setInitial F t
  | .setMpo k t => s.setMpo k t
  | .setCap k t => s.setCap k t

theorem simple_mpos_cmd (F : Flags) (s : SimplePT) (cmd : Cmd) :
    (simpleCmd F s cmd).mpos =
      if (cmdTarget cmd).1 = .mpo then listSetGrow s.mpos (cmdTarget cmd).2.1 (npArray (cmdTarget cmd).2.2)
      else s.mpos := by
  cases cmd <;> rfl

theorem simple_caps_cmd (F : Flags) (s : SimplePT) (cmd : Cmd) :
    (simpleCmd F s cmd).caps =
      if (cmdTarget cmd).1 = .cap then listSetGrow s.caps (cmdTarget cmd).2.1 (npArray (cmdTarget cmd).2.2)
      else s.caps := by
  cases cmd <;> rfl

/-- generic: a list-valued field updated by `listSetGrow` on the calls that target `v` -/
theorem list_frame (v : VName) (k : Nat) (field : SimplePT → List (Option Tensor)) (F : Flags)
    (hf : ∀ s cmd, field (simpleCmd F s cmd) =
      if (cmdTarget cmd).1 = v then listSetGrow (field s) (cmdTarget cmd).2.1 (npArray (cmdTarget cmd).2.2)
      else field s) :
    ∀ (cs : List Cmd) (s : SimplePT), k < (field s).length → lastSet v k cs = none →
      (field (cs.foldl (simpleCmd F) s))[k]? = (field s)[k]? := by
  intro cs
  induction cs with
  | nil => intro s _ _; rfl
  | cons cmd cs ih =>
    intro s hk hn
    unfold lastSet at hn
    cases hl : lastSet v k cs with
    | some t => rw [hl] at hn; simp at hn
    | none =>
      rw [hl] at hn
      simp only at hn
      have hnot : ¬ ((cmdTarget cmd).1 = v ∧ (cmdTarget cmd).2.1 = k) := by
        intro hh; rw [if_pos hh] at hn; cases hn
      have hlen : k < (field (simpleCmd F s cmd)).length := by
        rw [hf]; split
        · rw [listSetGrow_length]; omega
        · exact hk
      rw [List.foldl_cons, ih _ hlen hl, hf]
      by_cases hv : (cmdTarget cmd).1 = v
      · have hk' : ¬ k = (cmdTarget cmd).2.1 := fun e => hnot ⟨hv, e.symm⟩
        simp only [hv, if_true, getElem?_listSetGrow, hk', if_false, hk]
      · simp only [hv, if_false]

theorem list_lastSet (v : VName) (k : Nat) (field : SimplePT → List (Option Tensor)) (F : Flags)
    (hf : ∀ s cmd, field (simpleCmd F s cmd) =
      if (cmdTarget cmd).1 = v then listSetGrow (field s) (cmdTarget cmd).2.1 (npArray (cmdTarget cmd).2.2)
      else field s) :
    ∀ (cmds : List Cmd) (s : SimplePT) (t : Option Tensor), lastSet v k cmds = some t →
      (field (cmds.foldl (simpleCmd F) s))[k]? = some (some (npArray t)) := by
  intro cmds
  induction cmds with
  | nil => intro s t h; simp [lastSet] at h
  | cons cmd cs ih =>
    intro s t hl
    unfold lastSet at hl
    rw [List.foldl_cons]
    cases hl' : lastSet v k cs with
    | some t' =>
      rw [hl'] at hl
      simp only [Option.some.injEq] at hl
      subst hl
      exact ih _ _ hl'
    | none =>
      rw [hl'] at hl
      simp only at hl
      by_cases hh : (cmdTarget cmd).1 = v ∧ (cmdTarget cmd).2.1 = k
      · rw [if_pos hh] at hl
        simp only [Option.some.injEq] at hl
        obtain ⟨hv, hk⟩ := hh
        have hlen : k < (field (simpleCmd F s cmd)).length := by
          rw [hf, if_pos hv, listSetGrow_length, hk]; omega
        rw [list_frame v k field F hf cs _ hlen hl', hf, if_pos hv, getElem?_listSetGrow, hk, hl]
        simp
      · rw [if_neg hh] at hl; cases hl

/-- **Memory side**: after any calls, MPO slot `k` holds the last array written to it -/
theorem simple_lastSet_mpo (F : Flags) (k : Nat) (cmds : List Cmd) (s : SimplePT)
    (t : Option Tensor) (h : lastSet .mpo k cmds = some t) :
    (cmds.foldl (simpleCmd F) s).getMpo k = some (npArray t) := by
  unfold SimplePT.getMpo
  rw [list_lastSet .mpo k (·.mpos) F (simple_mpos_cmd F) cmds s t h]
  rfl

theorem simple_lastSet_cap (F : Flags) (k : Nat) (cmds : List Cmd) (s : SimplePT)
    (t : Option Tensor) (h : lastSet .cap k cmds = some t) :
    (cmds.foldl (simpleCmd F) s).getCap k = some (npArray t) := by
  unfold SimplePT.getCap
  rw [list_lastSet .cap k (·.caps) F (simple_caps_cmd F) cmds s t h]
  rfl

theorem lastSet_mem (v : VName) (k : Nat) :
    ∀ (cmds : List Cmd) (t : Option Tensor), lastSet v k cmds = some t →
      ∃ cmd ∈ cmds, (cmdTarget cmd).2.2 = t := by
  intro cmds
  induction cmds with
  | nil => intro t h; simp [lastSet] at h
  | cons cmd cs ih =>
    intro t h
    unfold lastSet at h
    cases hl : lastSet v k cs with
    | some t' =>
      rw [hl] at h
      simp only [Option.some.injEq] at h
      subst h
      obtain ⟨x, hx, hxt⟩ := ih _ hl
      exact ⟨x, by simp [hx], hxt⟩
    | none =>
      rw [hl] at h
      simp only at h
      by_cases hh : (cmdTarget cmd).1 = v ∧ (cmdTarget cmd).2.1 = k
      · rw [if_pos hh] at h
        simp only [Option.some.injEq] at h
        exact ⟨cmd, by simp, h⟩
      · rw [if_neg hh] at h; cases h

/-- tensors as the `set_*` calls of a computation pass them: actual well-formed arrays that
    are not literally the one-entry NaN vector -/
def GoodCmds (cmds : List Cmd) : Prop :=
  ∀ cmd ∈ cmds, ∃ t', (cmdTarget cmd).2.2 = some t' ∧ t'.WF ∧ isHdf5None t' = false

/-- **File-backed = in-memory**: the same `set_*` calls (any order) leave the same tensor in
    every slot that was written. -/
theorem file_eq_memory_generic (F : Flags) (c0 : H5) (s0 : SimplePT) (cmds : List Cmd)
    (hgood : GoodCmds cmds) (k : Nat) :
    (HasDs c0 .mpo → ∀ t, lastSet .mpo k cmds = some t →
      getDataShape (cmds.foldl pureCmd c0).mpo k = .ok ((cmds.foldl (simpleCmd F) s0).getMpo k) ∧
      ∃ t', t = some t' ∧ (cmds.foldl (simpleCmd F) s0).getMpo k = some t') ∧
    (HasDs c0 .cap → ∀ t, lastSet .cap k cmds = some t →
      getDataShape (cmds.foldl pureCmd c0).cap k = .ok ((cmds.foldl (simpleCmd F) s0).getCap k) ∧
      ∃ t', t = some t' ∧ (cmds.foldl (simpleCmd F) s0).getCap k = some t') := by
  have hwf : ∀ cmd ∈ cmds, ∀ t', (cmdTarget cmd).2.2 = some t' → t'.WF := by
    intro cmd hc t' ht'
    obtain ⟨t'', h1, h2, _⟩ := hgood cmd hc
    rw [h1] at ht'; cases ht'; exact h2
  constructor
  · intro hds t hl
    obtain ⟨cmd, hc, hct⟩ := lastSet_mem .mpo k cmds t hl
    obtain ⟨t', h1, _, h3⟩ := hgood cmd hc
    have ht : t = some t' := by rw [← hct, h1]
    have hf := file_lastSet .mpo k cmds c0 hds hwf t hl
    have hs := simple_lastSet_mpo F k cmds s0 t hl
    subst ht
    refine ⟨?_, t', rfl, hs⟩
    show getDataShape ((cmds.foldl pureCmd c0).vds .mpo) k = _
    rw [hf, hs]
    simp [storedView, h3, npArray]
  · intro hds t hl
    obtain ⟨cmd, hc, hct⟩ := lastSet_mem .cap k cmds t hl
    obtain ⟨t', h1, _, h3⟩ := hgood cmd hc
    have ht : t = some t' := by rw [← hct, h1]
    have hf := file_lastSet .cap k cmds c0 hds hwf t hl
    have hs := simple_lastSet_cap F k cmds s0 t hl
    subst ht
    refine ⟨?_, t', rfl, hs⟩
    show getDataShape ((cmds.foldl pureCmd c0).vds .cap) k = _
    rw [hf, hs]
    simp [storedView, h3, npArray]

end OQuPyVerif.PTFile
