/-
  Lemmas/ProgressApi — the API skeleton (`apiRun`), protocols that never create a timer,
  and the explicit leaking schedule of the legacy `ProgressBar`.  Helper lemmas for C19.
-/
import OQuPyVerif.Lemmas.ProgressInv
namespace OQuPyVerif.Progress
open MicroOp

/-! ### API skeleton -/

theorem runBody_spec (fail : Option Nat) (n i : Nat) :
    ∃ j, j ≤ n ∧ (runBody fail i n).1 = List.replicate j Method.update ∧
      ((runBody fail i n).2 = false → j = n) ∧
      ((runBody fail i n).2 = true → fail = some (i + j)) := by
  induction n generalizing i with
  | zero => exact ⟨0, Nat.le_refl _, rfl, fun _ => rfl, fun h => by simp [runBody] at h⟩
  | succ n ih =>
    unfold runBody
    by_cases hf : fail = some i
    · simp only [hf, if_true]
      exact ⟨0, Nat.zero_le _, rfl, fun h => by simp at h, fun _ => by simp⟩
    · simp only [hf, if_false]
      obtain ⟨j, hj, h1, h2, h3⟩ := ih (i + 1)
      refine ⟨j + 1, Nat.succ_le_succ hj, ?_, ?_, ?_⟩
      · simp [h1, List.replicate_succ]
      · intro h
        rw [h2 h]
      · intro h
        rw [h3 h]
        congr 1
        omega

/-- a failing work item inside the loop range makes the body raise -/
theorem runBody_raises (k : Nat) : ∀ (n i : Nat), i ≤ k → k < i + n →
    (runBody (some k) i n).2 = true := by
  intro n
  induction n with
  | zero => intro i h1 h2; omega
  | succ n ih =>
    intro i h1 h2
    unfold runBody
    by_cases hik : k = i
    · simp [hik]
    · have : (some k = some i) = False := by simp [hik]
      simp only [this, if_false]
      exact ih (i + 1) (by omega) (by omega)

theorem apiPropagates_of_falsy (style : GuardStyle) (N k : Nat) (hk : k < N) :
    apiPropagates style N (some k) false = true := by
  unfold apiPropagates
  rw [runBody_raises k N 0 (Nat.zero_le _) (by omega)]
  cases style <;> rfl

/-- a truthy `__exit__` swallows every failure of a `with`-guarded API -/
theorem apiPropagates_truthy_with (N : Nat) (fail : Option Nat) :
    apiPropagates .withStmt N fail true = false := by
  simp [apiPropagates]

/-- with `with` or `try/finally`, whatever fails, the calls are enter, some updates, exit -/
theorem apiRun_guarded (style : GuardStyle) (hg : style.guarded = true) (N : Nat)
    (fail : Option Nat) :
    ∃ j, j ≤ N ∧ apiRun style N fail = Method.enter :: scriptTail j := by
  obtain ⟨j, hj, h1, _, _⟩ := runBody_spec fail N 0
  refine ⟨j, hj, ?_⟩
  cases style with
  | bare => simp [GuardStyle.guarded] at hg
  | withStmt => simp [apiRun, scriptTail, h1]
  | tryFinally => simp [apiRun, scriptTail, h1]

/-- a bare enter()/exit() pair: a failing work item means `exit` is never called -/
theorem apiRun_bare_fail (N k : Nat) (hk : k < N) :
    apiRun .bare N (some k) = Method.enter :: List.replicate k Method.update := by
  obtain ⟨j, hj, h1, h2, h3⟩ := runBody_spec (some k) N 0
  cases hr : (runBody (some k) 0 N).2 with
  | true =>
    have := h3 hr
    simp at this
    subst this
    simp [apiRun, h1, hr]
  | false =>
    -- the body cannot run through: item k < N raises
    exfalso
    have hjn := h2 hr
    subst hjn
    have key : ∀ (n i : Nat), i ≤ k → k < i + n → (runBody (some k) i n).2 = true := by
      intro n
      induction n with
      | zero => intro i h1 h2; omega
      | succ n ih =>
        intro i h1 h2
        unfold runBody
        by_cases hik : k = i
        · simp [hik]
        · have : (some k = some i) = False := by simp [hik]
          simp only [this, if_false]
          exact ih (i + 1) (by omega) (by omega)
    have := key j 0 (Nat.zero_le _) (by omega)
    rw [hr] at this
    cases this

theorem apiRun_bare_ok (N : Nat) : apiRun .bare N none = Method.enter :: scriptTail N := by
  obtain ⟨j, hj, h1, h2, h3⟩ := runBody_spec none N 0
  cases hr : (runBody none 0 N).2 with
  | true =>
    have := h3 hr
    cases this
  | false =>
    have := h2 hr
    subst this
    simp [apiRun, h1, hr, scriptTail]

/-! ### a protocol without `Timer(...)` never has a thread -/

def createsNoTimer (P : Protocol) : Bool :=
  P.allOps.all (fun op => match op with | .newTimer _ => false | _ => true)

def NoNew (c : List MicroOp) : Prop := ∀ cb, MicroOp.newTimer cb ∉ c

theorem noNew_code (P : Protocol) (h : createsNoTimer P = true) (m : Method) :
    NoNew (P.code m) := by
  intro cb hmem
  simp only [createsNoTimer, List.all_eq_true] at h
  have : MicroOp.newTimer cb ∈ P.allOps := by
    cases m <;> simp [Protocol.code] at hmem <;> simp [Protocol.allOps, hmem]
  simpa using h _ this

theorem execOp_no_timers (s : State) (t : Tid) (op : MicroOp) (ht : s.timers = [])
    (hop : ∀ cb, op ≠ .newTimer cb) :
    (∀ s', execOp s t op = .ok s' → s'.timers = []) ∧
    (∀ s', execOp s t op = .ret s' → s'.timers = []) ∧
    (∀ s', execOp s t op = .raised s' → s'.timers = []) := by
  cases op
  case newTimer cb => exact absurd rfl (hop cb)
  case print => simp [execOp, ht]
  case setStep => simp [execOp, ht]
  case setActive b =>
    simp only [execOp]
    refine ⟨fun s' h => ?_, fun s' h => ?_, fun s' h => ?_⟩
    · cases h; exact ht
    · cases h
    · cases h
  case acquire =>
    simp only [execOp]
    refine ⟨fun s' h => ?_, fun s' h => ?_, fun s' h => ?_⟩ <;> split at h <;> cases h
    exact ht
  case release =>
    simp only [execOp]
    refine ⟨fun s' h => ?_, fun s' h => ?_, fun s' h => ?_⟩ <;> split at h <;> cases h <;> exact ht
  case returnUnlessActive =>
    simp only [execOp]
    refine ⟨fun s' h => ?_, fun s' h => ?_, fun s' h => ?_⟩ <;> split at h <;> cases h <;> exact ht
  case cancelTimer =>
    simp only [execOp]
    refine ⟨fun s' h => ?_, fun s' h => ?_, fun s' h => ?_⟩ <;> split at h <;> cases h
    · simp [setTimers, ht]
    · exact ht
  case setDaemon =>
    simp only [execOp, ht]
    refine ⟨fun s' h => ?_, fun s' h => ?_, fun s' h => ?_⟩ <;> split at h <;>
      first | (cases h; done) | (cases h; exact ht) | (simp at h; try (cases h; exact ht))
  case startTimer =>
    simp only [execOp, ht]
    refine ⟨fun s' h => ?_, fun s' h => ?_, fun s' h => ?_⟩ <;> split at h <;>
      first | (cases h; done) | (cases h; exact ht) | (simp at h; try (cases h; exact ht))



theorem noNew_tail {op : MicroOp} {rest : List MicroOp} (h : NoNew (op :: rest)) :
    (∀ cb, op ≠ .newTimer cb) ∧ NoNew rest :=
  ⟨fun cb hop => h cb (by simp [hop]), fun cb hmem => h cb (List.mem_cons_of_mem _ hmem)⟩

theorem noNew_unwind (s : State) (t : Tid) : NoNew (unwind s t) := by
  intro cb
  unfold unwind
  split <;> simp

/-- a protocol whose methods never construct a `Timer` never has a timer thread -/
theorem no_timer_reachable (P : Protocol) (hP : createsNoTimer P = true) (script : List Method)
    (g : Bool) {s : State} (h : Reachable P (init script g) s) :
    s.timers = [] ∧ NoNew s.mainCode := by
  induction h with
  | init => exact ⟨rfl, fun cb hm => by simp [init] at hm⟩
  | @step s s' a _ hs ih =>
    obtain ⟨ht, hc⟩ := ih
    cases a with
    | main =>
      simp only [step, stepMain] at hs
      cases hcode : s.mainCode with
      | nil =>
        rw [hcode] at hs
        cases htodo : s.mainTodo with
        | nil => simp [htodo] at hs
        | cons m rest =>
          simp [htodo] at hs
          subst hs
          exact ⟨ht, noNew_code P hP m⟩
      | cons op rest =>
        rw [hcode] at hs hc
        obtain ⟨hop, hrest⟩ := noNew_tail hc
        obtain ⟨h1, h2, h3⟩ := execOp_no_timers s .main op ht hop
        simp only [threadStep] at hs
        cases he : execOp s .main op with
        | blocked => simp [he] at hs
        | ok s1 =>
          simp [he] at hs
          subst hs
          exact ⟨h1 s1 he, hrest⟩
        | ret s1 =>
          simp [he] at hs
          subst hs
          exact ⟨h2 s1 he, noNew_unwind s1 .main⟩
        | raised s1 =>
          simp [he] at hs
          subst hs
          exact ⟨h3 s1 he, noNew_unwind s1 .main⟩
    | fire i => simp [step, stepFire, ht] at hs
    | timer i => simp [step, stepTimer, ht] at hs

/-! ### the legacy `ProgressBar`: the race exists -/

theorem legacy_race_leaks :
    legacyRaceFinal.mainFinished = true ∧ legacyRaceFinal.anyRunning = false ∧
    legacyRaceFinal.aliveTimers = [2] ∧ legacyRaceFinal.blocksExit = true := by decide

/-- and the leaked timer re-arms itself for ever: each firing ends with a new pending timer -/
theorem legacy_leak_rearms :
    (runSchedule legacyProtocol legacyRaceFinal
      ([Action.fire 2] ++ List.replicate 5 (Action.timer 2))).aliveTimers = [3] := by decide



/-! ### executor pools -/

theorem poolBody_spec (fail : Option Nat) (n i : Nat) (p : Pool) (hw : p.workers ≤ p.maxWorkers) :
    let r := poolBody fail i n p
    r.1.maxWorkers = p.maxWorkers ∧ p.workers ≤ r.1.workers ∧ r.1.workers ≤ r.1.maxWorkers ∧
      p.submitted ≤ r.1.submitted ∧ r.1.submitted ≤ p.submitted + n ∧ r.1.shut = p.shut := by
  induction n generalizing i p with
  | zero => simp [poolBody, hw]
  | succ n ih =>
    unfold poolBody
    by_cases hf : fail = some i
    · simp [hf, hw]
    · simp only [hf, if_false]
      have hw' : p.submit.workers ≤ p.submit.maxWorkers := by
        simp only [Pool.submit]
        exact Nat.min_le_right _ _
      obtain ⟨h1, h2, h3, h4, h5, h6⟩ := ih (i + 1) p.submit hw'
      have e1 : p.submit.submitted = p.submitted + 1 := rfl
      have e2 : p.submit.maxWorkers = p.maxWorkers := rfl
      have e3 : p.submit.shut = p.shut := rfl
      have hs : p.workers ≤ p.submit.workers := by
        show p.workers ≤ min (p.workers + 1) p.maxWorkers
        omega
      rw [e1] at h4 h5
      exact ⟨h1.trans e2, Nat.le_trans hs h2, h3, by omega, by omega, h6.trans e3⟩

/-- a `with`-scoped executor: however many tasks are submitted and wherever the block
    fails, no worker is left once the block has been left -/
theorem runPool_with (maxWorkers n : Nat) (fail : Option Nat) :
    (runPool .withStmt maxWorkers n fail).workers = 0 ∧
    (runPool .withStmt maxWorkers n fail).shut = true := by
  simp [runPool, Pool.shutdown]

/-- an executor that is kept on an object: after the first accepted submission at least
    one worker exists and nothing ever joins it -/
theorem runPool_stored (maxWorkers n : Nat) (fail : Option Nat) (hm : 0 < maxWorkers)
    (hn : 0 < n) (hf : fail ≠ some 0) :
    0 < (runPool .stored maxWorkers n fail).workers ∧
    (runPool .stored maxWorkers n fail).shut = false := by
  cases n with
  | zero => exact absurd hn (Nat.lt_irrefl 0)
  | succ n =>
    simp only [runPool, poolBody, hf, if_false]
    have hw : (Pool.fresh maxWorkers).submit.workers ≤ (Pool.fresh maxWorkers).submit.maxWorkers := by
      simp only [Pool.submit]
      exact Nat.min_le_right _ _
    obtain ⟨_, h2, _, _, _, h6⟩ := poolBody_spec fail n 1 (Pool.fresh maxWorkers).submit hw
    constructor
    · have : 0 < (Pool.fresh maxWorkers).submit.workers := by
        simp only [Pool.submit, Pool.fresh]
        omega
      exact Nat.lt_of_lt_of_le this h2
    · rw [h6]
      rfl

end OQuPyVerif.Progress
