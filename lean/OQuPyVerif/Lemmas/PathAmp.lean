/- Factorisation of the TEMPO path weight into (influence product) × (system amplitude),
   with the initial index summed out.  Used to identify PT-TEMPO + compute_dynamics with
   TEMPO (C02). -/
import OQuPyVerif.Lemmas.PathLinear

namespace OQuPyVerif.PathSum
open Finset BigOperators
variable {K : Type} [CommRing K]

theorem inflRow_snoc (I : ℕ → ℕ → ℕ → ℕ → K) (n a j : ℕ) (q : List ℕ) (x : ℕ) :
    inflRow I n a j (q ++ [x]) = inflRowFull I n a j q := by
  induction q generalizing j with
  | nil => simp [inflRow, inflRowFull]
  | cons c cs ih =>
    cases cs with
    | nil => simp [inflRow, inflRowFull]
    | cons c' cs' =>
      have := ih (j+1)
      simp only [List.cons_append] at this ⊢
      simp only [inflRow, inflRowFull]
      rw [this]
      rfl

theorem pathSum_snoc (L n : ℕ) (G : List ℕ → K) :
    pathSum L (n+1) G = pathSum L n (fun a => ∑ a0 ∈ range L, G (a ++ [a0])) := by
  induction n generalizing G with
  | zero => simp [pathSum]
  | succ n ih =>
    rw [pathSum_succ]
    have : ∀ x ∈ range L, pathSum L (n+1) (fun p => G (x :: p))
        = pathSum L n (fun a => ∑ a0 ∈ range L, G (x :: (a ++ [a0]))) := by
      intro x _; exact ih _
    rw [Finset.sum_congr rfl this]
    rfl

/-- weight of a path with its initial index summed out -/
theorem sum_weight_snoc (L : ℕ) (ρ0 : ℕ → K) (M : ℕ → ℕ → ℕ → K) (I : ℕ → ℕ → ℕ → ℕ → K)
    (a : List ℕ) (ha : a ≠ []) :
    ∑ a0 ∈ range L, weight ρ0 M I (a ++ [a0]) =
      inflProd I a * sysAmpl M (fun a1 => ∑ a0 ∈ range L, M 1 a1 a0 * ρ0 a0) a := by
  induction a with
  | nil => exact absurd rfl ha
  | cons x rest ih =>
    cases rest with
    | nil =>
      simp only [List.cons_append, List.nil_append, weight, inflRow, inflProd, inflRowFull,
        sysAmpl, List.length_nil]
      rw [Finset.mul_sum]
      apply Finset.sum_congr rfl; intro a0 _
      ring
    | cons y rest' =>
      have ih' := ih (by simp)
      have hw : ∀ a0, weight ρ0 M I ((x :: y :: rest') ++ [a0]) =
          M (rest'.length + 2) x y * inflRowFull I (rest'.length + 2) x 0 (x :: y :: rest')
            * weight ρ0 M I ((y :: rest') ++ [a0]) := by
        intro a0
        have h1 : (x :: y :: rest') ++ [a0] = x :: y :: (rest' ++ [a0]) := rfl
        have h2 : (y :: rest') ++ [a0] = y :: (rest' ++ [a0]) := rfl
        rw [h1, h2]
        show M ((rest' ++ [a0]).length + 1) x y *
            inflRow I ((rest' ++ [a0]).length + 1) x 0 (x :: y :: (rest' ++ [a0])) * _ = _
        have hl : (rest' ++ [a0]).length + 1 = rest'.length + 2 := by simp
        rw [hl]
        have := inflRow_snoc I (rest'.length + 2) x 0 (x :: y :: rest') a0
        simp only [List.cons_append] at this
        rw [this]
      simp only [hw]
      rw [← Finset.mul_sum, ih']
      simp only [inflProd, sysAmpl, List.length_cons]
      ring

/-- TEMPO's tested path state in amplitude form (n ≥ 1 steps). -/
theorem pathState_ampl (L : ℕ) (ρ0 : ℕ → K) (M : ℕ → ℕ → ℕ → K) (I : ℕ → ℕ → ℕ → ℕ → K)
    (n : ℕ) (φ : ℕ → K) :
    pathState L ρ0 M I (n+1) φ =
      pathSum L (n+1) (fun a => φ (a.headD 0) * (inflProd I a *
        sysAmpl M (fun a1 => ∑ a0 ∈ range L, M 1 a1 a0 * ρ0 a0) a)) := by
  unfold pathState
  rw [pathSum_snoc]
  apply pathSum_congr
  intro a ha
  have hne : a ≠ [] := by
    intro h; have := ha.1; rw [h] at this; simp at this
  have hhd : ∀ a0, (a ++ [a0]).headD 0 = a.headD 0 := by
    intro a0
    match a, hne with
    | x :: r, _ => rfl
  simp only [hhd]
  rw [← Finset.mul_sum, sum_weight_snoc L ρ0 M I a hne]

end OQuPyVerif.PathSum
