/-
  Exact-rational lemmas about the binary64 model (`Num/FloatModel.lean`) and the
  generated step-count function (`Generated/StepCount.lean`).
-/
import Mathlib.Tactic.Linarith
import Mathlib.Tactic.Positivity
import Mathlib.Tactic.Ring
import Mathlib.Tactic.NormNum
import Mathlib.Tactic.FieldSimp
import Mathlib.Algebra.Order.Floor.Ring
import Mathlib.Data.Rat.Floor
import Mathlib.Algebra.Order.Field.Power
import OQuPyVerif.Generated.StepCount

namespace OQuPyVerif.FloatGrid
open OQuPyVerif.FloatModel
open OQuPyVerif.Generated.StepCount

def stepsAlg (rnd : Rat → Rat) (s e dt : Rat) : Int :=
  let ratio : Rat := rnd (rnd (e - s) / dt)
  let nearest : Rat := ((roundHalfEven ratio : Int) : Rat)
  if (decide (fabs (rnd (ratio - nearest)) ≤
      rnd (mkRat 4835703278458517 4835703278458516698824704 * max (mkRat 1 1) (fabs nearest)))) then
    truncInt nearest
  else
    truncInt ratio

theorem steps_abstract_eq (s e dt : Rat) :
    get_number_of_steps s e dt = stepsAlg OQuPyVerif.FloatModel.rnd s e dt := rfl

/-- the double nearest to `1e-9`, as an exact rational -/
def tolQ : Rat := 4835703278458517 / 2 ^ 82

theorem tol_eq : mkRat 4835703278458517 4835703278458516698824704 = tolQ := by
  unfold tolQ
  rw [Rat.mkRat_eq_div]; norm_num

theorem mkRat_one_one : mkRat 1 1 = 1 := by
  rw [Rat.mkRat_eq_div]; norm_num

theorem fabs_eq_abs (x : Rat) : fabs x = |x| := by
  unfold fabs; split
  · rw [abs_of_neg ‹_›]
  · rw [abs_of_nonneg (not_lt.mp ‹_›)]

theorem roundHalfEven_def (m : Rat) : roundHalfEven m =
    if m - ⌊m⌋ < 1/2 then ⌊m⌋ else if m - ⌊m⌋ > 1/2 then ⌊m⌋ + 1
    else if ⌊m⌋ % 2 = 0 then ⌊m⌋ else ⌊m⌋ + 1 := rfl

theorem truncInt_of_nonneg {x : Rat} (h : 0 ≤ x) : truncInt x = ⌊x⌋ := by
  unfold truncInt; rw [if_pos h]; rfl

theorem truncInt_of_neg {x : Rat} (h : x < 0) : truncInt x = ⌈x⌉ := by
  unfold truncInt; rw [if_neg (not_le.mpr h)]; rfl

theorem truncInt_intCast (n : Int) : truncInt (n : Rat) = n := by
  rcases le_or_gt 0 (n : Rat) with h | h
  · rw [truncInt_of_nonneg h]; exact Int.floor_intCast n
  · rw [truncInt_of_neg h]; exact Int.ceil_intCast n

theorem stepsAlg_of_test (rnd : Rat → Rat) (s e dt : Rat) (n : Int)
    (hn : roundHalfEven (rnd (rnd (e - s) / dt)) = n)
    (ht : |rnd (rnd (rnd (e - s) / dt) - n)| ≤ rnd (tolQ * max 1 |(n : Rat)|)) :
    stepsAlg rnd s e dt = n := by
  unfold stepsAlg
  simp only [fabs_eq_abs, decide_eq_true_eq, tol_eq, mkRat_one_one, hn]
  rw [if_pos ht, truncInt_intCast]

theorem stepsAlg_of_not_test (rnd : Rat → Rat) (s e dt : Rat) (n : Int)
    (hn : roundHalfEven (rnd (rnd (e - s) / dt)) = n)
    (ht : rnd (tolQ * max 1 |(n : Rat)|) < |rnd (rnd (rnd (e - s) / dt) - n)|) :
    stepsAlg rnd s e dt = truncInt (rnd (rnd (e - s) / dt)) := by
  unfold stepsAlg
  simp only [fabs_eq_abs, decide_eq_true_eq, tol_eq, mkRat_one_one, hn]
  rw [if_neg (not_le.mpr ht)]


/-! ### roundHalfEven -/

theorem roundHalfEven_cases (m : Rat) :
    (roundHalfEven m = ⌊m⌋ ∧ m - ⌊m⌋ ≤ 1/2) ∨ (roundHalfEven m = ⌊m⌋ + 1 ∧ 1/2 ≤ m - ⌊m⌋) := by
  rw [roundHalfEven_def]
  split_ifs with h1 h2 h3
  · left; exact ⟨rfl, h1.le⟩
  · right; exact ⟨rfl, h2.le⟩
  · left; exact ⟨rfl, not_lt.mp h2⟩
  · right; exact ⟨rfl, not_lt.mp h1⟩

theorem roundHalfEven_err (m : Rat) : |((roundHalfEven m : Int) : Rat) - m| ≤ 1/2 := by
  have h1 := Int.floor_le m
  have h2 := Int.lt_floor_add_one m
  rw [abs_le]
  rcases roundHalfEven_cases m with ⟨h, h'⟩ | ⟨h, h'⟩ <;> rw [h] <;> push_cast <;>
    constructor <;> linarith

theorem roundHalfEven_eq_of_close (m : Rat) (n : Int) (h : |m - n| < 1/2) :
    roundHalfEven m = n := by
  rw [abs_lt] at h
  have hm := roundHalfEven_err m
  rw [abs_le] at hm
  have h1 : ((roundHalfEven m : Int) : Rat) < ((n + 1 : Int) : Rat) := by push_cast; linarith
  have h2 : ((n - 1 : Int) : Rat) < ((roundHalfEven m : Int) : Rat) := by push_cast; linarith
  have h1' := Int.cast_lt.mp h1
  have h2' := Int.cast_lt.mp h2
  omega

/-! ### generic relative-error rounding -/

section Generic
variable (rnd : Rat → Rat) (u : Rat) (hr : ∀ x, |rnd x - x| ≤ u * |x|)
include hr

theorem abs_rnd_le (z : Rat) : |rnd z| ≤ (1 + u) * |z| := by
  have h := hr z
  have : |rnd z| ≤ |rnd z - z| + |z| := by
    have := abs_add_le (rnd z - z) z
    rwa [sub_add_cancel] at this
  linarith

theorem abs_rnd_ge (z : Rat) : (1 - u) * |z| ≤ |rnd z| := by
  have h := hr z
  have : |z| ≤ |rnd z - z| + |rnd z| := by
    have := abs_add_le (z - rnd z) (rnd z)
    rwa [sub_add_cancel, abs_sub_comm] at this
  linarith

theorem rnd_ge_of_nonneg {y : Rat} (hy : 0 ≤ y) : (1 - u) * y ≤ rnd y := by
  have h := hr y
  rw [abs_of_nonneg hy, abs_le] at h
  linarith

theorem rnd_le_of_nonneg {y : Rat} (hy : 0 ≤ y) : rnd y ≤ (1 + u) * y := by
  have h := hr y
  rw [abs_of_nonneg hy, abs_le] at h
  linarith

/-- two roundings (`fsub` then `fdiv`) perturb the exact quotient by `≤ (2u+u²)|q|` -/
theorem ratio_err (hu0 : 0 ≤ u) (d dt : Rat) (hdt : 0 < dt) :
    |rnd (rnd d / dt) - d / dt| ≤ (2 * u + u ^ 2) * |d / dt| := by
  have h1 := hr d
  have h2 := hr (rnd d / dt)
  have e1 : |rnd d / dt - d / dt| ≤ u * |d / dt| := by
    rw [← sub_div, abs_div, abs_div, abs_of_pos hdt, ← mul_div_assoc]
    exact div_le_div_of_nonneg_right h1 hdt.le
  have e2 : |rnd d / dt| ≤ |d / dt| + u * |d / dt| := by
    have := abs_add_le (rnd d / dt - d / dt) (d / dt)
    rw [sub_add_cancel] at this
    linarith
  have e3 : u * |rnd d / dt| ≤ u * (|d / dt| + u * |d / dt|) :=
    mul_le_mul_of_nonneg_left e2 hu0
  have e4 := abs_sub_le (rnd (rnd d / dt)) (rnd d / dt) (d / dt)
  nlinarith

end Generic


/-! ### on-grid end points -/

theorem steps_on_grid (rnd : Rat → Rat) (u : Rat) (hu0 : 0 ≤ u) (hu : u ≤ 1 / 2 ^ 32)
    (hr : ∀ x, |rnd x - x| ≤ u * |x|) (s e dt : Rat) (m : Nat) (hdt : 0 < dt)
    (hm : (m : Rat) ≤ 2 ^ 20) (η : Rat) (hη : η ≤ 1 / 2 ^ 32)
    (hclose : |e - (s + m * dt)| ≤ η * dt) : stepsAlg rnd s e dt = m := by
  have hη0 : 0 ≤ η := by
    have h0 : 0 ≤ η * dt := le_trans (abs_nonneg _) hclose
    by_contra hneg
    have : η * dt < 0 := mul_neg_of_neg_of_pos (not_le.mp hneg) hdt
    linarith
  have hm0 : (0 : Rat) ≤ m := Nat.cast_nonneg m
  -- exact quotient
  have hQ : |(e - s) / dt - m| ≤ η := by
    have : (e - s) / dt - m = (e - (s + m * dt)) / dt := by field_simp; ring
    rw [this, abs_div, abs_of_pos hdt, div_le_iff₀ hdt]
    exact hclose
  have hQabs : |(e - s) / dt| ≤ m + η := by
    have := abs_add_le ((e - s) / dt - m) (m : Rat)
    rw [sub_add_cancel, abs_of_nonneg hm0] at this
    linarith
  have hre := ratio_err rnd u hr hu0 (e - s) dt hdt
  set ratio := rnd (rnd (e - s) / dt) with hratio
  set Q := (e - s) / dt with hQdef
  set M : Rat := max 1 |((m : Int) : Rat)| with hM
  have hM1 : 1 ≤ M := le_max_left _ _
  have hMm : (m : Rat) ≤ M := by
    have : |((m : Int) : Rat)| ≤ M := le_max_right _ _
    rwa [Int.cast_natCast, abs_of_nonneg hm0] at this
  have hMle : M ≤ 2 ^ 20 := by
    apply max_le
    · norm_num
    · rw [Int.cast_natCast, abs_of_nonneg hm0]; exact hm
  -- k = 2u + u² ≤ (9/4) t
  have hk0 : 0 ≤ 2 * u + u ^ 2 := by positivity
  have hk : 2 * u + u ^ 2 ≤ 9 / 4 * (1 / 2 ^ 32) := by nlinarith
  have hA1 : |ratio - m| ≤ (2 * u + u ^ 2) * (m + η) + η := by
    have h1 := abs_sub_le ratio Q (m : Rat)
    have h2 : (2 * u + u ^ 2) * |Q| ≤ (2 * u + u ^ 2) * (m + η) :=
      mul_le_mul_of_nonneg_left hQabs hk0
    linarith
  have hmη : (m : Rat) + η ≤ 9 / 8 * M := by linarith
  have hA2 : |ratio - m| ≤ 113 / 32 * (1 / 2 ^ 32) * M := by
    have h2 : (2 * u + u ^ 2) * (m + η) ≤ 9 / 4 * (1 / 2 ^ 32) * (9 / 8 * M) :=
      mul_le_mul hk hmη (by linarith) (by norm_num)
    have h3 : η ≤ 1 / 2 ^ 32 * M := by nlinarith
    linarith
  have hn : roundHalfEven ratio = (m : Int) := by
    apply roundHalfEven_eq_of_close
    rw [Int.cast_natCast]
    have : (113 : Rat) / 32 * (1 / 2 ^ 32) * M ≤ 113 / 32 * (1 / 2 ^ 32) * 2 ^ 20 :=
      mul_le_mul_of_nonneg_left hMle (by norm_num)
    have h2 : (113 : Rat) / 32 * (1 / 2 ^ 32) * 2 ^ 20 < 1 / 2 := by norm_num
    linarith
  have := stepsAlg_of_test rnd s e dt (m : Int) hn ?_
  · exact this
  · rw [← hratio, ← hM, Int.cast_natCast]
    have hL := abs_rnd_le rnd u hr (ratio - m)
    have hT0 : 0 ≤ tolQ * M := by unfold tolQ; positivity
    have hR := rnd_ge_of_nonneg rnd u hr hT0
    have hL2 : (1 + u) * |ratio - m| ≤ (1 + 1 / 2 ^ 32) * (113 / 32 * (1 / 2 ^ 32) * M) :=
      mul_le_mul (by linarith) hA2 (abs_nonneg _) (by norm_num)
    have hR2 : (1 - 1 / 2 ^ 32) * (tolQ * M) ≤ (1 - u) * (tolQ * M) :=
      mul_le_mul_of_nonneg_right (by linarith) hT0
    have hnum : (1 + 1 / 2 ^ 32) * (113 / 32 * (1 / 2 ^ 32)) ≤ (1 - 1 / 2 ^ 32) * tolQ := by
      unfold tolQ; norm_num
    have hnum2 : (1 + 1 / 2 ^ 32) * (113 / 32 * (1 / 2 ^ 32) * M) ≤ (1 - 1 / 2 ^ 32) * (tolQ * M) := by
      have := mul_le_mul_of_nonneg_right hnum (by linarith : (0 : Rat) ≤ M)
      linarith
    linarith


/-! ### off-grid end points -/

theorem tolQ_pos : 0 < tolQ := by unfold tolQ; positivity

theorem steps_off_grid (rnd : Rat → Rat) (u : Rat) (hu0 : 0 ≤ u) (hu : u ≤ 1 / 2 ^ 32)
    (hr : ∀ x, |rnd x - x| ≤ u * |x|) (s e dt : Rat) (hdt : 0 < dt)
    (q : Rat) (hq : q = (e - s) / dt) (hq0 : 0 ≤ q)
    (δ : Rat) (hδ : 2 * (tolQ + 4 * u) * (q + 1) ≤ δ)
    (hfar : ∀ n : Int, δ ≤ |q - n|) : stepsAlg rnd s e dt = ⌊q⌋ := by
  have hT := tolQ_pos
  have hu1 : u ≤ 1 / 4 := le_trans hu (by norm_num)
  have hre := ratio_err rnd u hr hu0 (e - s) dt hdt
  rw [← hq, abs_of_nonneg hq0] at hre
  set ratio := rnd (rnd (e - s) / dt) with hratio
  -- error of the computed ratio
  have hP : 0 < tolQ * (q + 1) := by positivity
  have hUq : 0 ≤ u * (q + 1) := by positivity
  have herr : |ratio - q| ≤ 3 * (u * (q + 1)) := by
    have h1 : u ^ 2 ≤ u := by nlinarith
    have h2 : (2 * u + u ^ 2) * q ≤ 3 * u * q := mul_le_mul_of_nonneg_right (by linarith) hq0
    nlinarith
  have hδ' : 2 * (tolQ * (q + 1)) + 8 * (u * (q + 1)) ≤ δ := by linarith
  have hδ0 : 0 < δ := by linarith
  have herr2 : |ratio - q| ≤ 3 / 8 * δ := by linarith
  rw [abs_le] at herr2
  -- distance of q from its floor / ceiling
  have hfl := Int.floor_le q
  have hfl2 := Int.lt_floor_add_one q
  have hf0 : (0 : Rat) ≤ (⌊q⌋ : Int) := by exact_mod_cast Int.floor_nonneg.mpr hq0
  have hlo : δ ≤ q - ⌊q⌋ := by
    have := hfar ⌊q⌋
    rwa [abs_of_nonneg (by linarith)] at this
  have hhi : δ ≤ ⌊q⌋ + 1 - q := by
    have := hfar (⌊q⌋ + 1)
    rw [abs_of_nonpos (by push_cast; linarith)] at this
    push_cast at this; linarith
  have hδhalf : δ ≤ 1 / 2 := by linarith
  have hratio0 : 0 ≤ ratio := by linarith
  -- the rounded ratio
  set n := roundHalfEven ratio with hn
  have hnerr := roundHalfEven_err ratio
  rw [← hn] at hnerr
  have hnabs : |(n : Rat)| ≤ q + 1 := by
    rw [abs_le] at hnerr ⊢
    constructor <;> linarith
  have hM : max 1 |(n : Rat)| ≤ q + 1 := max_le (by linarith) hnabs
  have hM0 : (0 : Rat) ≤ max 1 |(n : Rat)| := le_trans zero_le_one (le_max_left _ _)
  have hdist : δ - 3 * (u * (q + 1)) ≤ |ratio - n| := by
    have h1 := hfar n
    have h2 := abs_sub_le q ratio (n : Rat)
    rw [abs_sub_comm q ratio] at h2
    linarith
  rw [stepsAlg_of_not_test rnd s e dt n hn.symm ?_]
  · rw [← hratio, truncInt_of_nonneg hratio0, Int.floor_eq_iff]
    constructor <;> linarith
  · rw [← hratio]
    have hR := rnd_le_of_nonneg rnd u hr (mul_nonneg hT.le hM0)
    have hR2 : (1 + u) * (tolQ * max 1 |(n : Rat)|) ≤ (1 + u) * (tolQ * (q + 1)) :=
      mul_le_mul_of_nonneg_left (mul_le_mul_of_nonneg_left hM hT.le) (by linarith)
    have hL := abs_rnd_ge rnd u hr (ratio - n)
    have hL2 : (1 - u) * (2 * (tolQ * (q + 1))) ≤ (1 - u) * |ratio - n| :=
      mul_le_mul_of_nonneg_left (by linarith) (by linarith)
    have hkey : (1 + u) * (tolQ * (q + 1)) < (1 - u) * (2 * (tolQ * (q + 1))) := by
      nlinarith
    linarith


theorem far_seven_halves (n : Int) : (1 / 2 : Rat) ≤ |7 / 2 - (n : Rat)| := by
  rcases le_or_gt n 3 with h | h
  · have : (n : Rat) ≤ 3 := by exact_mod_cast h
    exact le_abs.mpr (Or.inl (by linarith))
  · have : (4 : Rat) ≤ n := by exact_mod_cast h
    exact le_abs.mpr (Or.inr (by linarith))

/-- non-vacuity of `steps_off_grid`: `s = 0`, `dt = 1/10`, `e = 7/20`, so `q = 7/2`, `δ = 1/2`. -/
example (rnd : Rat → Rat) (hr : ∀ x, |rnd x - x| ≤ (1 / 2 ^ 53) * |x|) :
    stepsAlg rnd 0 (7 / 20) (1 / 10) = 3 := by
  have h := steps_off_grid rnd (1 / 2 ^ 53) (by positivity) (by norm_num) hr 0 (7 / 20) (1 / 10)
    (by norm_num) (7 / 2) (by norm_num) (by norm_num) (1 / 2) (by unfold tolQ; norm_num)
    far_seven_halves
  rw [h]; norm_num

/-! ### the concrete binary64 rounding -/

theorem pow2_eq (k : Int) : pow2 k = (2 : Rat) ^ k := by
  unfold pow2
  split
  · rename_i h
    obtain ⟨n, rfl⟩ := Int.eq_ofNat_of_zero_le h
    simp
  · rename_i h
    have h' : 0 ≤ -k := by omega
    obtain ⟨n, hn⟩ := Int.eq_ofNat_of_zero_le h'
    have hk : k = -(n : Int) := by omega
    subst hk
    simp

theorem scale0 {a : Rat} (ha : 0 < a) :
    (2 : Rat) ^ 51 < a * (2 : Rat) ^ ((52 : Int) - ((Nat.log2 a.num.natAbs : Int) - (Nat.log2 a.den : Int))) ∧
    a * (2 : Rat) ^ ((52 : Int) - ((Nat.log2 a.num.natAbs : Int) - (Nat.log2 a.den : Int))) < (2 : Rat) ^ 53 := by
  have hp : 0 < a.num := Rat.num_pos.mpr ha
  have hpa : ((a.num.natAbs : Nat) : Int) = a.num := Int.natAbs_of_nonneg hp.le
  have hp0 : a.num.natAbs ≠ 0 := by omega
  have hd0 : a.den ≠ 0 := a.den_nz
  have hPQ : ((a.num.natAbs : Nat) : Rat) = (a.num : Rat) := by
    rw [← Int.cast_natCast, hpa]
  have ha_eq : a = ((a.num.natAbs : Nat) : Rat) / ((a.den : Nat) : Rat) := by
    rw [hPQ]; exact (Rat.num_div_den a).symm
  generalize a.num.natAbs = p at *
  generalize a.den = d at *
  have h1 : ((2 ^ p.log2 : Nat) : Rat) ≤ (p : Rat) := by exact_mod_cast Nat.log2_self_le hp0
  have h2 : (p : Rat) < ((2 ^ (p.log2 + 1) : Nat) : Rat) := by exact_mod_cast Nat.lt_log2_self
  have h3 : ((2 ^ d.log2 : Nat) : Rat) ≤ (d : Rat) := by exact_mod_cast Nat.log2_self_le hd0
  have h4 : (d : Rat) < ((2 ^ (d.log2 + 1) : Nat) : Rat) := by exact_mod_cast Nat.lt_log2_self
  push_cast at h1 h2 h3 h4
  rw [pow_succ] at h2 h4
  have hX : (0 : Rat) < 2 ^ p.log2 := by positivity
  have hY : (0 : Rat) < 2 ^ d.log2 := by positivity
  have hD : (0 : Rat) < d := lt_of_lt_of_le hY h3
  have hP : (0 : Rat) < p := lt_of_lt_of_le hX h1
  have hpow : (2 : Rat) ^ ((52 : Int) - ((p.log2 : Int) - (d.log2 : Int)))
      = 2 ^ 52 * 2 ^ d.log2 / 2 ^ p.log2 := by
    rw [zpow_sub₀ two_ne_zero, zpow_sub₀ two_ne_zero, zpow_natCast, zpow_natCast]
    have : (2 : Rat) ^ (52 : Int) = 2 ^ (52 : Nat) := by norm_num
    rw [this]
    field_simp
  rw [hpow, ha_eq]
  generalize (2 : Rat) ^ p.log2 = X at *
  generalize (2 : Rat) ^ d.log2 = Y at *
  have e : (p : Rat) / d * (2 ^ 52 * Y / X) = (p * Y * 2 ^ 52) / (d * X) := by
    field_simp
  rw [e]
  have hDX : 0 < (d : Rat) * X := by positivity
  constructor
  · rw [lt_div_iff₀ hDX]
    have : (d : Rat) * X < 2 * Y * p := by nlinarith
    linarith
  · rw [div_lt_iff₀ hDX]
    have : (p : Rat) * Y < 2 * d * X := by nlinarith
    linarith

theorem scaleExp_spec {a : Rat} (ha : 0 < a) :
    (2 : Rat) ^ 52 ≤ a * (2 : Rat) ^ (scaleExp a) ∧ a * (2 : Rat) ^ (scaleExp a) < (2 : Rat) ^ 53 := by
  obtain ⟨h1, h2⟩ := scale0 ha
  unfold scaleExp
  simp only [pow2_eq]
  have e53 : (2 : Rat) ^ (53 : Int) = 2 ^ (53 : Nat) := by norm_num
  have e52 : (2 : Rat) ^ (52 : Int) = 2 ^ (52 : Nat) := by norm_num
  rw [e53, e52]
  split_ifs with c1 c2
  · exact absurd h2 (not_lt.mpr c1)
  · rw [zpow_add_one₀ two_ne_zero, ← mul_assoc]
    constructor <;> linarith
  · exact ⟨not_lt.mp c2, h2⟩


theorem rnd_zero : rnd 0 = 0 := by unfold rnd; simp

theorem rnd_of_pos {x : Rat} (hx : 0 < x) :
    rnd x = ((roundHalfEven (x * (2 : Rat) ^ (scaleExp x)) : Int) : Rat) * (2 : Rat) ^ (-(scaleExp x)) := by
  unfold rnd
  simp only [pow2_eq]
  rw [if_neg hx.ne', if_neg (not_lt.mpr hx.le), if_neg (not_lt.mpr hx.le)]

theorem rnd_neg (x : Rat) : rnd (-x) = -rnd x := by
  rcases lt_trichotomy x 0 with h | h | h
  · have h' : 0 < -x := by linarith
    rw [rnd_of_pos h']
    unfold rnd
    simp only [pow2_eq]
    rw [if_neg h.ne, if_pos h, if_pos h, neg_neg]
  · subst h; simp [rnd_zero]
  · have h' : -x < 0 := by linarith
    rw [rnd_of_pos h]
    unfold rnd
    simp only [pow2_eq]
    rw [if_neg h'.ne, if_pos h', if_pos h', neg_neg]

theorem rnd_err_pos {x : Rat} (hx : 0 < x) : |rnd x - x| ≤ (1 / 2 ^ 53) * x := by
  obtain ⟨h1, _⟩ := scaleExp_spec hx
  rw [rnd_of_pos hx]
  have hE := roundHalfEven_err (x * (2 : Rat) ^ (scaleExp x))
  generalize roundHalfEven (x * (2 : Rat) ^ (scaleExp x)) = n at *
  have hpos : (0 : Rat) < (2 : Rat) ^ (scaleExp x) := by positivity
  rw [zpow_neg]
  generalize (2 : Rat) ^ (scaleExp x) = T at *
  have e : (n : Rat) * T⁻¹ - x = ((n : Rat) - x * T) * T⁻¹ := by field_simp
  rw [e, abs_mul, abs_of_pos (inv_pos.mpr hpos)]
  have hTi : T⁻¹ ≤ x / 2 ^ 52 := by
    rw [inv_le_comm₀ hpos (by positivity)]
    rw [inv_div, div_le_iff₀ hx]; linarith
  calc |(n : Rat) - x * T| * T⁻¹ ≤ 1 / 2 * T⁻¹ :=
        mul_le_mul_of_nonneg_right hE (inv_pos.mpr hpos).le
    _ ≤ 1 / 2 * (x / 2 ^ 52) := mul_le_mul_of_nonneg_left hTi (by norm_num)
    _ = 1 / 2 ^ 53 * x := by ring

theorem rnd_err (x : Rat) : |rnd x - x| ≤ (1 / 2 ^ 53) * |x| := by
  rcases lt_trichotomy x 0 with h | h | h
  · have h' : 0 < -x := by linarith
    have := rnd_err_pos h'
    rw [rnd_neg, ← neg_sub', abs_neg] at this
    rwa [abs_of_neg h]
  · subst h; simp [rnd_zero]
  · rw [abs_of_pos h]; exact rnd_err_pos h

theorem steps_on_grid_binary64 (s e dt : Rat) (m : Nat) (hdt : 0 < dt)
    (hm : (m : Rat) ≤ 2 ^ 20) (η : Rat) (hη : η ≤ 1 / 2 ^ 32)
    (hclose : |e - (s + m * dt)| ≤ η * dt) : get_number_of_steps s e dt = m := by
  rw [steps_abstract_eq]
  exact steps_on_grid rnd (1 / 2 ^ 53) (by positivity) (by norm_num) rnd_err s e dt m hdt hm η hη hclose

theorem steps_off_grid_binary64 (s e dt : Rat) (hdt : 0 < dt)
    (q : Rat) (hq : q = (e - s) / dt) (hq0 : 0 ≤ q)
    (δ : Rat) (hδ : 2 * (tolQ + 4 * (1 / 2 ^ 53)) * (q + 1) ≤ δ)
    (hfar : ∀ n : Int, δ ≤ |q - n|) : get_number_of_steps s e dt = ⌊q⌋ := by
  rw [steps_abstract_eq]
  exact steps_off_grid rnd (1 / 2 ^ 53) (by positivity) (by norm_num) rnd_err s e dt hdt q hq hq0 δ hδ hfar

/-- fixed-margin corollary: `q ≤ 2^20` and `q` at least `2^-8` from every integer -/
theorem steps_off_grid_binary64_fixed (s e dt : Rat) (hdt : 0 < dt)
    (q : Rat) (hq : q = (e - s) / dt) (hq0 : 0 ≤ q) (hqM : q ≤ 2 ^ 20)
    (hfar : ∀ n : Int, (1 / 2 ^ 8 : Rat) ≤ |q - n|) : get_number_of_steps s e dt = ⌊q⌋ := by
  refine steps_off_grid_binary64 s e dt hdt q hq hq0 (1 / 2 ^ 8) ?_ hfar
  have h1 : 2 * (tolQ + 4 * (1 / 2 ^ 53)) * (q + 1) ≤ 2 * (tolQ + 4 * (1 / 2 ^ 53)) * (2 ^ 20 + 1) :=
    mul_le_mul_of_nonneg_left (by linarith) (by unfold tolQ; positivity)
  have h2 : 2 * (tolQ + 4 * (1 / 2 ^ 53)) * (2 ^ 20 + 1) ≤ 1 / 2 ^ 8 := by unfold tolQ; norm_num
  linarith

/-- `int((0.35 - 0)/0.1)`-style instance, on exact rational inputs -/
example : get_number_of_steps 0 (7 / 20) (1 / 10) = 3 := by
  have h := steps_off_grid_binary64 0 (7 / 20) (1 / 10) (by norm_num) (7 / 2) (by norm_num)
    (by norm_num) (1 / 2) (by unfold tolQ; norm_num) far_seven_halves
  rw [h]; norm_num

/-! ### monotonicity of round-to-nearest -/

theorem roundHalfEven_intCast (n : Int) : roundHalfEven (n : Rat) = n :=
  roundHalfEven_eq_of_close _ n (by simp)

theorem roundHalfEven_mono {a b : Rat} (h : a ≤ b) : roundHalfEven a ≤ roundHalfEven b := by
  have hf : ⌊a⌋ ≤ ⌊b⌋ := Int.floor_mono h
  rcases lt_or_eq_of_le hf with hlt | heq
  · have ha : roundHalfEven a ≤ ⌊a⌋ + 1 := by
      rcases roundHalfEven_cases a with ⟨h1, _⟩ | ⟨h1, _⟩ <;> omega
    have hb : ⌊b⌋ ≤ roundHalfEven b := by
      rcases roundHalfEven_cases b with ⟨h1, _⟩ | ⟨h1, _⟩ <;> omega
    omega
  · rw [roundHalfEven_def, roundHalfEven_def, heq]
    have hr : a - ⌊b⌋ ≤ b - ⌊b⌋ := by linarith
    split_ifs <;> first | omega | (exfalso; linarith)

theorem scaleExp_anti {x y : Rat} (hx : 0 < x) (h : x ≤ y) : scaleExp y ≤ scaleExp x := by
  by_contra hc
  have hc' : scaleExp x + 1 ≤ scaleExp y := by omega
  obtain ⟨hx1, _⟩ := scaleExp_spec hx
  obtain ⟨_, hy2⟩ := scaleExp_spec (lt_of_lt_of_le hx h)
  have hp : (2 : Rat) ^ (scaleExp x + 1) ≤ (2 : Rat) ^ (scaleExp y) :=
    zpow_le_zpow_right₀ (by norm_num) hc'
  rw [zpow_add_one₀ two_ne_zero] at hp
  have hpx : (0 : Rat) < (2 : Rat) ^ (scaleExp x) := by positivity
  have hpy : (0 : Rat) < (2 : Rat) ^ (scaleExp y) := by positivity
  have h1 : x * (2 : Rat) ^ (scaleExp y) ≤ y * (2 : Rat) ^ (scaleExp y) :=
    mul_le_mul_of_nonneg_right h hpy.le
  have h2 : x * ((2 : Rat) ^ (scaleExp x) * 2) ≤ x * (2 : Rat) ^ (scaleExp y) :=
    mul_le_mul_of_nonneg_left hp hx.le
  linarith

theorem rnd_mono_pos {x y : Rat} (hx : 0 < x) (h : x ≤ y) : rnd x ≤ rnd y := by
  have hy : 0 < y := lt_of_lt_of_le hx h
  obtain ⟨hx1, hx2⟩ := scaleExp_spec hx
  obtain ⟨hy1, hy2⟩ := scaleExp_spec hy
  have hs := scaleExp_anti hx h
  rw [rnd_of_pos hx, rnd_of_pos hy]
  rcases lt_or_eq_of_le hs with hlt | heq
  · -- different binades
    have hnx : roundHalfEven (x * (2 : Rat) ^ (scaleExp x)) ≤ (2 ^ 53 : Int) := by
      have := roundHalfEven_mono (a := x * (2 : Rat) ^ (scaleExp x)) (b := ((2 ^ 53 : Int) : Rat))
        (by push_cast; exact hx2.le)
      rwa [roundHalfEven_intCast] at this
    have hny : (2 ^ 52 : Int) ≤ roundHalfEven (y * (2 : Rat) ^ (scaleExp y)) := by
      have := roundHalfEven_mono (a := ((2 ^ 52 : Int) : Rat)) (b := y * (2 : Rat) ^ (scaleExp y))
        (by push_cast; exact hy1)
      rwa [roundHalfEven_intCast] at this
    have hnx' : ((roundHalfEven (x * (2 : Rat) ^ (scaleExp x)) : Int) : Rat) ≤ 2 ^ 53 := by
      exact_mod_cast hnx
    have hny' : (2 : Rat) ^ 52 ≤ ((roundHalfEven (y * (2 : Rat) ^ (scaleExp y)) : Int) : Rat) := by
      exact_mod_cast hny
    generalize ((roundHalfEven (x * (2 : Rat) ^ (scaleExp x)) : Int) : Rat) = nx at *
    generalize ((roundHalfEven (y * (2 : Rat) ^ (scaleExp y)) : Int) : Rat) = ny at *
    have hp : (2 : Rat) ^ (-(scaleExp x)) * 2 ≤ (2 : Rat) ^ (-(scaleExp y)) := by
      rw [← zpow_add_one₀ two_ne_zero]
      exact zpow_le_zpow_right₀ (by norm_num) (by omega)
    have hpx : (0 : Rat) < (2 : Rat) ^ (-(scaleExp x)) := by positivity
    have hpy : (0 : Rat) < (2 : Rat) ^ (-(scaleExp y)) := by positivity
    calc nx * (2 : Rat) ^ (-(scaleExp x)) ≤ 2 ^ 53 * (2 : Rat) ^ (-(scaleExp x)) :=
          mul_le_mul_of_nonneg_right hnx' hpx.le
      _ = 2 ^ 52 * ((2 : Rat) ^ (-(scaleExp x)) * 2) := by ring
      _ ≤ 2 ^ 52 * (2 : Rat) ^ (-(scaleExp y)) := mul_le_mul_of_nonneg_left hp (by norm_num)
      _ ≤ ny * (2 : Rat) ^ (-(scaleExp y)) := mul_le_mul_of_nonneg_right hny' hpy.le
  · rw [heq]
    have hpx : (0 : Rat) < (2 : Rat) ^ (scaleExp x) := by positivity
    have hpn : (0 : Rat) < (2 : Rat) ^ (-(scaleExp x)) := by positivity
    apply mul_le_mul_of_nonneg_right _ hpn.le
    exact_mod_cast roundHalfEven_mono (mul_le_mul_of_nonneg_right h hpx.le)

theorem rnd_nonneg {x : Rat} (hx : 0 ≤ x) : 0 ≤ rnd x := by
  rcases lt_or_eq_of_le hx with h | h
  · obtain ⟨h1, _⟩ := scaleExp_spec h
    rw [rnd_of_pos h]
    have hn : (0 : Int) ≤ roundHalfEven (x * (2 : Rat) ^ (scaleExp x)) := by
      have := roundHalfEven_mono (a := ((0 : Int) : Rat)) (b := x * (2 : Rat) ^ (scaleExp x))
        (by push_cast; linarith [show (0 : Rat) < 2 ^ 52 by norm_num])
      rwa [roundHalfEven_intCast] at this
    have : (0 : Rat) ≤ ((roundHalfEven (x * (2 : Rat) ^ (scaleExp x)) : Int) : Rat) := by
      exact_mod_cast hn
    positivity
  · rw [← h, rnd_zero]

theorem rnd_mono {x y : Rat} (h : x ≤ y) : rnd x ≤ rnd y := by
  rcases lt_or_ge 0 x with hx | hx
  · exact rnd_mono_pos hx h
  · rcases le_or_gt 0 y with hy | hy
    · have h1 : 0 ≤ rnd (-x) := rnd_nonneg (by linarith)
      rw [rnd_neg] at h1
      have h2 := rnd_nonneg hy
      linarith
    · have := rnd_mono_pos (x := -y) (y := -x) (by linarith) (by linarith)
      rw [rnd_neg, rnd_neg] at this
      linarith

theorem gridTime_mono (s dt : Rat) (hdt : 0 ≤ dt) (a b : Int) (h : a ≤ b) :
    fadd s (fmul (ofInt a) dt) ≤ fadd s (fmul (ofInt b) dt) := by
  unfold fadd fmul ofInt
  apply rnd_mono
  apply add_le_add_right
  apply rnd_mono
  apply mul_le_mul_of_nonneg_right _ hdt
  apply rnd_mono
  exact_mod_cast h


/-! ### monotonicity of the step count in the end time -/

/-- the part of `stepsAlg` after the ratio has been computed -/
def stepsOfRatio (rnd : Rat → Rat) (ratio : Rat) : Int :=
  if |rnd (ratio - (roundHalfEven ratio : Int))| ≤
      rnd (tolQ * max 1 |((roundHalfEven ratio : Int) : Rat)|) then roundHalfEven ratio
  else truncInt ratio

theorem stepsAlg_eq_ofRatio (rnd : Rat → Rat) (s e dt : Rat) :
    stepsAlg rnd s e dt = stepsOfRatio rnd (rnd (rnd (e - s) / dt)) := by
  unfold stepsAlg stepsOfRatio
  simp only [fabs_eq_abs, decide_eq_true_eq, tol_eq, mkRat_one_one, truncInt_intCast]

theorem truncInt_floor_or_ceil (r : Rat) : truncInt r = ⌊r⌋ ∨ truncInt r = ⌈r⌉ := by
  rcases le_or_gt 0 r with h | h
  · left; exact truncInt_of_nonneg h
  · right; exact truncInt_of_neg h

theorem roundHalfEven_floor_or_ceil (r : Rat) :
    ⌊r⌋ ≤ roundHalfEven r ∧ roundHalfEven r ≤ ⌈r⌉ := by
  have hfc := Int.floor_le_ceil r
  rcases roundHalfEven_cases r with ⟨h1, _⟩ | ⟨h1, h2⟩
  · rw [h1]; exact ⟨le_refl _, hfc⟩
  · have : ⌊r⌋ < ⌈r⌉ := Int.lt_ceil.mpr (by linarith)
    rw [h1]; constructor <;> omega

theorem stepsOfRatio_bounds (rnd : Rat → Rat) (r : Rat) :
    ⌊r⌋ ≤ stepsOfRatio rnd r ∧ stepsOfRatio rnd r ≤ ⌈r⌉ := by
  have hfc := Int.floor_le_ceil r
  unfold stepsOfRatio
  split_ifs
  · exact roundHalfEven_floor_or_ceil r
  · rcases truncInt_floor_or_ceil r with h | h <;> rw [h] <;> constructor <;> omega

section Mono
variable (rnd : Rat → Rat) (hmono : ∀ x y, x ≤ y → rnd x ≤ rnd y) (h0 : rnd 0 = 0)
include hmono h0

/-- both ratios strictly inside the same unit cell `(f, f+1)` -/
theorem stepsOfRatio_mono_cell (f : Int) (r1 r2 : Rat) (h1 : (f : Rat) < r1) (h12 : r1 ≤ r2)
    (h2 : r2 < f + 1) : stepsOfRatio rnd r1 ≤ stepsOfRatio rnd r2 := by
  have hf1 : ⌊r1⌋ = f := Int.floor_eq_iff.mpr ⟨h1.le, by linarith⟩
  have hf2 : ⌊r2⌋ = f := Int.floor_eq_iff.mpr ⟨by linarith, h2⟩
  have hc1 : ⌈r1⌉ = f + 1 := Int.ceil_eq_iff.mpr ⟨by push_cast; linarith, by push_cast; linarith⟩
  have hc2 : ⌈r2⌉ = f + 1 := Int.ceil_eq_iff.mpr ⟨by push_cast; linarith, by push_cast; linarith⟩
  have hn1 := roundHalfEven_floor_or_ceil r1
  have hn2 := roundHalfEven_floor_or_ceil r2
  rw [hf1, hc1] at hn1
  rw [hf2, hc2] at hn2
  have hn12 := roundHalfEven_mono h12
  have hb1 := stepsOfRatio_bounds rnd r1
  have hb2 := stepsOfRatio_bounds rnd r2
  rw [hf1, hc1] at hb1
  rw [hf2, hc2] at hb2
  rcases le_or_gt 0 f with hf | hf
  · -- non-negative cell: truncation is the floor
    have hfQ : (0 : Rat) ≤ f := by exact_mod_cast hf
    have ht1 : truncInt r1 = f := by rw [truncInt_of_nonneg (by linarith), hf1]
    have ht2 : truncInt r2 = f := by rw [truncInt_of_nonneg (by linarith), hf2]
    by_cases hcase : roundHalfEven r1 = f
    · have : stepsOfRatio rnd r1 = f := by
        unfold stepsOfRatio; split_ifs
        · exact hcase
        · exact ht1
      omega
    · have e1 : roundHalfEven r1 = f + 1 := by omega
      have e2 : roundHalfEven r2 = f + 1 := by omega
      unfold stepsOfRatio
      rw [e1, e2, ht1, ht2]
      have ha : rnd (r1 - ((f + 1 : Int) : Rat)) ≤ rnd (r2 - ((f + 1 : Int) : Rat)) :=
        hmono _ _ (by linarith)
      have hb : rnd (r2 - ((f + 1 : Int) : Rat)) ≤ 0 := by
        have := hmono (r2 - ((f + 1 : Int) : Rat)) 0 (by push_cast; linarith)
        rwa [h0] at this
      have habs : |rnd (r2 - ((f + 1 : Int) : Rat))| ≤ |rnd (r1 - ((f + 1 : Int) : Rat))| := by
        rw [abs_of_nonpos hb, abs_of_nonpos (le_trans ha hb)]; linarith
      split_ifs with c1 c2
      · exact le_refl _
      · exact absurd (le_trans habs c1) c2
      · omega
      · exact le_refl _
  · -- negative cell: truncation is the ceiling
    have hfQ : (f : Rat) + 1 ≤ 0 := by exact_mod_cast hf
    have ht1 : truncInt r1 = f + 1 := by rw [truncInt_of_neg (by linarith), hc1]
    have ht2 : truncInt r2 = f + 1 := by rw [truncInt_of_neg (by linarith), hc2]
    by_cases hcase : roundHalfEven r2 = f + 1
    · have : stepsOfRatio rnd r2 = f + 1 := by
        unfold stepsOfRatio; split_ifs
        · exact hcase
        · exact ht2
      omega
    · have e2 : roundHalfEven r2 = f := by omega
      have e1 : roundHalfEven r1 = f := by omega
      unfold stepsOfRatio
      rw [e1, e2, ht1, ht2]
      have ha : rnd (r1 - (f : Rat)) ≤ rnd (r2 - (f : Rat)) := hmono _ _ (by linarith)
      have hb : 0 ≤ rnd (r1 - (f : Rat)) := by
        have := hmono 0 (r1 - (f : Rat)) (by linarith)
        rwa [h0] at this
      have habs : |rnd (r1 - (f : Rat))| ≤ |rnd (r2 - (f : Rat))| := by
        rw [abs_of_nonneg hb, abs_of_nonneg (le_trans hb ha)]; exact ha
      split_ifs with c1 c2 c3
      · exact le_refl _
      · omega
      · exact absurd (le_trans habs c3) c1
      · exact le_refl _

theorem stepsOfRatio_mono {r1 r2 : Rat} (h : r1 ≤ r2) :
    stepsOfRatio rnd r1 ≤ stepsOfRatio rnd r2 := by
  have hb1 := stepsOfRatio_bounds rnd r1
  have hb2 := stepsOfRatio_bounds rnd r2
  rcases le_or_gt ⌈r1⌉ ⌊r2⌋ with hc | hc
  · omega
  · exact stepsOfRatio_mono_cell rnd hmono h0 ⌊r2⌋ r1 r2 (Int.lt_ceil.mp hc) h
      (Int.lt_floor_add_one r2)

end Mono

theorem steps_mono (s dt : Rat) (hdt : 0 < dt) {e1 e2 : Rat} (h : e1 ≤ e2) :
    get_number_of_steps s e1 dt ≤ get_number_of_steps s e2 dt := by
  rw [steps_abstract_eq, steps_abstract_eq, stepsAlg_eq_ofRatio, stepsAlg_eq_ofRatio]
  apply stepsOfRatio_mono rnd (fun _ _ => rnd_mono) rnd_zero
  apply rnd_mono
  apply div_le_div_of_nonneg_right _ hdt.le
  apply rnd_mono
  linarith

end OQuPyVerif.FloatGrid
