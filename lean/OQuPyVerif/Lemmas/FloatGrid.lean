/-
  Exact-rational lemmas about the binary64 model (`Num/FloatModel.lean`) and the
  generated step-count function (`Generated/StepCount.lean`).
-/
import Mathlib.Tactic.Linarith
import Mathlib.Tactic.Positivity
import Mathlib.Tactic.Ring
import Mathlib.Tactic.NormNum
import Mathlib.Tactic.FieldSimp
import Mathlib.Algebra.Order.Floor.Ring
import Mathlib.Data.Rat.Floor
import Mathlib.Algebra.Order.Field.Power
import OQuPyVerif.Generated.StepCount

namespace OQuPyVerif.FloatGrid
open OQuPyVerif.FloatModel
open OQuPyVerif.Generated.StepCount

def stepsAlg (rnd : Rat → Rat) (s e dt : Rat) : Int :=
  let ratio : Rat := rnd (rnd (e - s) / dt)
  let nearest : Rat := ((roundHalfEven ratio : Int) : Rat)
  if (decide (fabs (rnd (ratio - nearest)) ≤
      rnd (mkRat 4835703278458517 4835703278458516698824704 * max (mkRat 1 1) (fabs nearest)))) then
    truncInt nearest
  else
    truncInt ratio

theorem steps_abstract_eq (s e dt : Rat) :
    get_number_of_steps s e dt = stepsAlg OQuPyVerif.FloatModel.rnd s e dt := rfl

/-- the double nearest to `1e-9`, as an exact rational -/
def tolQ : Rat := 4835703278458517 / 2 ^ 82

theorem tol_eq : mkRat 4835703278458517 4835703278458516698824704 = tolQ := by
  unfold tolQ
  rw [Rat.mkRat_eq_div]; norm_num

theorem mkRat_one_one : mkRat 1 1 = 1 := by
  rw [Rat.mkRat_eq_div]; norm_num

theorem fabs_eq_abs (x : Rat) : fabs x = |x| := by
  unfold fabs; split
  · rw [abs_of_neg ‹_›]
  · rw [abs_of_nonneg (not_lt.mp ‹_›)]

theorem roundHalfEven_def (m : Rat) : roundHalfEven m =
    if m - ⌊m⌋ < 1/2 then ⌊m⌋ else if m - ⌊m⌋ > 1/2 then ⌊m⌋ + 1
    else if ⌊m⌋ % 2 = 0 then ⌊m⌋ else ⌊m⌋ + 1 := rfl

theorem truncInt_of_nonneg {x : Rat} (h : 0 ≤ x) : truncInt x = ⌊x⌋ := by
  unfold truncInt; rw [if_pos h]; rfl

theorem truncInt_of_neg {x : Rat} (h : x < 0) : truncInt x = ⌈x⌉ := by
  unfold truncInt; rw [if_neg (not_le.mpr h)]; rfl

theorem truncInt_intCast (n : Int) : truncInt (n : Rat) = n := by
  rcases le_or_gt 0 (n : Rat) with h | h
  · rw [truncInt_of_nonneg h]; exact Int.floor_intCast n
  · rw [truncInt_of_neg h]; exact Int.ceil_intCast n

theorem stepsAlg_of_test (rnd : Rat → Rat) (s e dt : Rat) (n : Int)
    (hn : roundHalfEven (rnd (rnd (e - s) / dt)) = n)
    (ht : |rnd (rnd (rnd (e - s) / dt) - n)| ≤ rnd (tolQ * max 1 |(n : Rat)|)) :
    stepsAlg rnd s e dt = n := by
  unfold stepsAlg
  simp only [fabs_eq_abs, decide_eq_true_eq, tol_eq, mkRat_one_one, hn]
  rw [if_pos ht, truncInt_intCast]

theorem stepsAlg_of_not_test (rnd : Rat → Rat) (s e dt : Rat) (n : Int)
    (hn : roundHalfEven (rnd (rnd (e - s) / dt)) = n)
    (ht : rnd (tolQ * max 1 |(n : Rat)|) < |rnd (rnd (rnd (e - s) / dt) - n)|) :
    stepsAlg rnd s e dt = truncInt (rnd (rnd (e - s) / dt)) := by
  unfold stepsAlg
  simp only [fabs_eq_abs, decide_eq_true_eq, tol_eq, mkRat_one_one, hn]
  rw [if_neg (not_le.mpr ht)]


/-! ### roundHalfEven -/

theorem roundHalfEven_cases (m : Rat) :
    (roundHalfEven m = ⌊m⌋ ∧ m - ⌊m⌋ ≤ 1/2) ∨ (roundHalfEven m = ⌊m⌋ + 1 ∧ 1/2 ≤ m - ⌊m⌋) := by
  rw [roundHalfEven_def]
  split_ifs with h1 h2 h3
  · left; exact ⟨rfl, h1.le⟩
  · right; exact ⟨rfl, h2.le⟩
  · left; exact ⟨rfl, not_lt.mp h2⟩
  · right; exact ⟨rfl, not_lt.mp h1⟩

theorem roundHalfEven_err (m : Rat) : |((roundHalfEven m : Int) : Rat) - m| ≤ 1/2 := by
  have h1 := Int.floor_le m
  have h2 := Int.lt_floor_add_one m
  rw [abs_le]
  rcases roundHalfEven_cases m with ⟨h, h'⟩ | ⟨h, h'⟩ <;> rw [h] <;> push_cast <;>
    constructor <;> linarith

theorem roundHalfEven_eq_of_close (m : Rat) (n : Int) (h : |m - n| < 1/2) :
    roundHalfEven m = n := by
  rw [abs_lt] at h
  have hm := roundHalfEven_err m
  rw [abs_le] at hm
  have h1 : ((roundHalfEven m : Int) : Rat) < ((n + 1 : Int) : Rat) := by push_cast; linarith
  have h2 : ((n - 1 : Int) : Rat) < ((roundHalfEven m : Int) : Rat) := by push_cast; linarith
  have h1' := Int.cast_lt.mp h1
  have h2' := Int.cast_lt.mp h2
  omega

/-! ### generic relative-error rounding -/

section Generic
variable (rnd : Rat → Rat) (u : Rat) (hr : ∀ x, |rnd x - x| ≤ u * |x|)
include hr

theorem abs_rnd_le (z : Rat) : |rnd z| ≤ (1 + u) * |z| := by
  have h := hr z
  have : |rnd z| ≤ |rnd z - z| + |z| := by
    have := abs_add_le (rnd z - z) z
    rwa [sub_add_cancel] at this
  linarith

theorem abs_rnd_ge (z : Rat) : (1 - u) * |z| ≤ |rnd z| := by
  have h := hr z
  have : |z| ≤ |rnd z - z| + |rnd z| := by
    have := abs_add_le (z - rnd z) (rnd z)
    rwa [sub_add_cancel, abs_sub_comm] at this
  linarith

theorem rnd_ge_of_nonneg {y : Rat} (hy : 0 ≤ y) : (1 - u) * y ≤ rnd y := by
  have h := hr y
  rw [abs_of_nonneg hy, abs_le] at h
  linarith

theorem rnd_le_of_nonneg {y : Rat} (hy : 0 ≤ y) : rnd y ≤ (1 + u) * y := by
  have h := hr y
  rw [abs_of_nonneg hy, abs_le] at h
  linarith

/-- two roundings (`fsub` then `fdiv`) perturb the exact quotient by `≤ (2u+u²)|q|` -/
theorem ratio_err (hu0 : 0 ≤ u) (d dt : Rat) (hdt : 0 < dt) :
    |rnd (rnd d / dt) - d / dt| ≤ (2 * u + u ^ 2) * |d / dt| := by
  have h1 := hr d
  have h2 := hr (rnd d / dt)
  have e1 : |rnd d / dt - d / dt| ≤ u * |d / dt| := by
    rw [← sub_div, abs_div, abs_div, abs_of_pos hdt, ← mul_div_assoc]
    exact div_le_div_of_nonneg_right h1 hdt.le
  have e2 : |rnd d / dt| ≤ |d / dt| + u * |d / dt| := by
    have := abs_add_le (rnd d / dt - d / dt) (d / dt)
    rw [sub_add_cancel] at this
    linarith
  have e3 : u * |rnd d / dt| ≤ u * (|d / dt| + u * |d / dt|) :=
    mul_le_mul_of_nonneg_left e2 hu0
  have e4 := abs_sub_le (rnd (rnd d / dt)) (rnd d / dt) (d / dt)
  nlinarith

end Generic


/-! ### on-grid end points -/

theorem steps_on_grid (rnd : Rat → Rat) (u : Rat) (hu0 : 0 ≤ u) (hu : u ≤ 1 / 2 ^ 32)
    (hr : ∀ x, |rnd x - x| ≤ u * |x|) (s e dt : Rat) (m : Nat) (hdt : 0 < dt)
    (hm : (m : Rat) ≤ 2 ^ 20) (η : Rat) (hη : η ≤ 1 / 2 ^ 32)
    (hclose : |e - (s + m * dt)| ≤ η * dt) : stepsAlg rnd s e dt = m := by
  have hη0 : 0 ≤ η := by
    have h0 : 0 ≤ η * dt := le_trans (abs_nonneg _) hclose
    by_contra hneg
    have : η * dt < 0 := mul_neg_of_neg_of_pos (not_le.mp hneg) hdt
    linarith
  have hm0 : (0 : Rat) ≤ m := Nat.cast_nonneg m
  -- exact quotient
  have hQ : |(e - s) / dt - m| ≤ η := by
    have : (e - s) / dt - m = (e - (s + m * dt)) / dt := by field_simp; ring
    rw [this, abs_div, abs_of_pos hdt, div_le_iff₀ hdt]
    exact hclose
  have hQabs : |(e - s) / dt| ≤ m + η := by
    have := abs_add_le ((e - s) / dt - m) (m : Rat)
    rw [sub_add_cancel, abs_of_nonneg hm0] at this
    linarith
  have hre := ratio_err rnd u hr hu0 (e - s) dt hdt
  set ratio := rnd (rnd (e - s) / dt) with hratio
  set Q := (e - s) / dt with hQdef
  set M : Rat := max 1 |((m : Int) : Rat)| with hM
  have hM1 : 1 ≤ M := le_max_left _ _
  have hMm : (m : Rat) ≤ M := by
    have : |((m : Int) : Rat)| ≤ M := le_max_right _ _
    rwa [Int.cast_natCast, abs_of_nonneg hm0] at this
  have hMle : M ≤ 2 ^ 20 := by
    apply max_le
    · norm_num
    · rw [Int.cast_natCast, abs_of_nonneg hm0]; exact hm
  -- k = 2u + u² ≤ (9/4) t
  have hk0 : 0 ≤ 2 * u + u ^ 2 := by positivity
  have hk : 2 * u + u ^ 2 ≤ 9 / 4 * (1 / 2 ^ 32) := by nlinarith
  have hA1 : |ratio - m| ≤ (2 * u + u ^ 2) * (m + η) + η := by
    have h1 := abs_sub_le ratio Q (m : Rat)
    have h2 : (2 * u + u ^ 2) * |Q| ≤ (2 * u + u ^ 2) * (m + η) :=
      mul_le_mul_of_nonneg_left hQabs hk0
    linarith
  have hmη : (m : Rat) + η ≤ 9 / 8 * M := by linarith
  have hA2 : |ratio - m| ≤ 113 / 32 * (1 / 2 ^ 32) * M := by
    have h2 : (2 * u + u ^ 2) * (m + η) ≤ 9 / 4 * (1 / 2 ^ 32) * (9 / 8 * M) :=
      mul_le_mul hk hmη (by linarith) (by norm_num)
    have h3 : η ≤ 1 / 2 ^ 32 * M := by nlinarith
    linarith
  have hn : roundHalfEven ratio = (m : Int) := by
    apply roundHalfEven_eq_of_close
    rw [Int.cast_natCast]
    have : (113 : Rat) / 32 * (1 / 2 ^ 32) * M ≤ 113 / 32 * (1 / 2 ^ 32) * 2 ^ 20 :=
      mul_le_mul_of_nonneg_left hMle (by norm_num)
    have h2 : (113 : Rat) / 32 * (1 / 2 ^ 32) * 2 ^ 20 < 1 / 2 := by norm_num
    linarith
  have := stepsAlg_of_test rnd s e dt (m : Int) hn ?_
  · exact this
  · rw [← hratio, ← hM, Int.cast_natCast]
    have hL := abs_rnd_le rnd u hr (ratio - m)
    have hT0 : 0 ≤ tolQ * M := by unfold tolQ; positivity
    have hR := rnd_ge_of_nonneg rnd u hr hT0
    have hL2 : (1 + u) * |ratio - m| ≤ (1 + 1 / 2 ^ 32) * (113 / 32 * (1 / 2 ^ 32) * M) :=
      mul_le_mul (by linarith) hA2 (abs_nonneg _) (by norm_num)
    have hR2 : (1 - 1 / 2 ^ 32) * (tolQ * M) ≤ (1 - u) * (tolQ * M) :=
      mul_le_mul_of_nonneg_right (by linarith) hT0
    have hnum : (1 + 1 / 2 ^ 32) * (113 / 32 * (1 / 2 ^ 32)) ≤ (1 - 1 / 2 ^ 32) * tolQ := by
      unfold tolQ; norm_num
    have hnum2 : (1 + 1 / 2 ^ 32) * (113 / 32 * (1 / 2 ^ 32) * M) ≤ (1 - 1 / 2 ^ 32) * (tolQ * M) := by
      have := mul_le_mul_of_nonneg_right hnum (by linarith : (0 : Rat) ≤ M)
      linarith
    linarith


/-! ### off-grid end points -/

theorem tolQ_pos : 0 < tolQ := by unfold tolQ; positivity

theorem steps_off_grid (rnd : Rat → Rat) (u : Rat) (hu0 : 0 ≤ u) (hu : u ≤ 1 / 2 ^ 32)
    (hr : ∀ x, |rnd x - x| ≤ u * |x|) (s e dt : Rat) (hdt : 0 < dt)
    (q : Rat) (hq : q = (e - s) / dt) (hq0 : 0 ≤ q)
    (δ : Rat) (hδ : 2 * (tolQ + 4 * u) * (q + 1) ≤ δ)
    (hfar : ∀ n : Int, δ ≤ |q - n|) : stepsAlg rnd s e dt = ⌊q⌋ := by
  have hT := tolQ_pos
  have hu1 : u ≤ 1 / 4 := le_trans hu (by norm_num)
  have hre := ratio_err rnd u hr hu0 (e - s) dt hdt
  rw [← hq, abs_of_nonneg hq0] at hre
  set ratio := rnd (rnd (e - s) / dt) with hratio
  -- error of the computed ratio
  have hP : 0 < tolQ * (q + 1) := by positivity
  have hUq : 0 ≤ u * (q + 1) := by positivity
  have herr : |ratio - q| ≤ 3 * (u * (q + 1)) := by
    have h1 : u ^ 2 ≤ u := by nlinarith
    have h2 : (2 * u + u ^ 2) * q ≤ 3 * u * q := mul_le_mul_of_nonneg_right (by linarith) hq0
    nlinarith
  have hδ' : 2 * (tolQ * (q + 1)) + 8 * (u * (q + 1)) ≤ δ := by linarith
  have hδ0 : 0 < δ := by linarith
  have herr2 : |ratio - q| ≤ 3 / 8 * δ := by linarith
  rw [abs_le] at herr2
  -- distance of q from its floor / ceiling
  have hfl := Int.floor_le q
  have hfl2 := Int.lt_floor_add_one q
  have hf0 : (0 : Rat) ≤ (⌊q⌋ : Int) := by exact_mod_cast Int.floor_nonneg.mpr hq0
  have hlo : δ ≤ q - ⌊q⌋ := by
    have := hfar ⌊q⌋
    rwa [abs_of_nonneg (by linarith)] at this
  have hhi : δ ≤ ⌊q⌋ + 1 - q := by
    have := hfar (⌊q⌋ + 1)
    rw [abs_of_nonpos (by push_cast; linarith)] at this
    push_cast at this; linarith
  have hδhalf : δ ≤ 1 / 2 := by linarith
  have hratio0 : 0 ≤ ratio := by linarith
  -- the rounded ratio
  set n := roundHalfEven ratio with hn
  have hnerr := roundHalfEven_err ratio
  rw [← hn] at hnerr
  have hnabs : |(n : Rat)| ≤ q + 1 := by
    rw [abs_le] at hnerr ⊢
    constructor <;> linarith
  have hM : max 1 |(n : Rat)| ≤ q + 1 := max_le (by linarith) hnabs
  have hM0 : (0 : Rat) ≤ max 1 |(n : Rat)| := le_trans zero_le_one (le_max_left _ _)
  have hdist : δ - 3 * (u * (q + 1)) ≤ |ratio - n| := by
    have h1 := hfar n
    have h2 := abs_sub_le q ratio (n : Rat)
    rw [abs_sub_comm q ratio] at h2
    linarith
  rw [stepsAlg_of_not_test rnd s e dt n hn.symm ?_]
  · rw [← hratio, truncInt_of_nonneg hratio0, Int.floor_eq_iff]
    constructor <;> linarith
  · rw [← hratio]
    have hR := rnd_le_of_nonneg rnd u hr (mul_nonneg hT.le hM0)
    have hR2 : (1 + u) * (tolQ * max 1 |(n : Rat)|) ≤ (1 + u) * (tolQ * (q + 1)) :=
      mul_le_mul_of_nonneg_left (mul_le_mul_of_nonneg_left hM hT.le) (by linarith)
    have hL := abs_rnd_ge rnd u hr (ratio - n)
    have hL2 : (1 - u) * (2 * (tolQ * (q + 1))) ≤ (1 - u) * |ratio - n| :=
      mul_le_mul_of_nonneg_left (by linarith) (by linarith)
    have hkey : (1 + u) * (tolQ * (q + 1)) < (1 - u) * (2 * (tolQ * (q + 1))) := by
      nlinarith
    linarith


theorem far_seven_halves (n : Int) : (1 / 2 : Rat) ≤ |7 / 2 - (n : Rat)| := by
  rcases le_or_gt n 3 with h | h
  · have : (n : Rat) ≤ 3 := by exact_mod_cast h
    exact le_abs.mpr (Or.inl (by linarith))
  · have : (4 : Rat) ≤ n := by exact_mod_cast h
    exact le_abs.mpr (Or.inr (by linarith))

/-- non-vacuity of `steps_off_grid`: `s = 0`, `dt = 1/10`, `e = 7/20`, so `q = 7/2`, `δ = 1/2`. -/
example (rnd : Rat → Rat) (hr : ∀ x, |rnd x - x| ≤ (1 / 2 ^ 53) * |x|) :
    stepsAlg rnd 0 (7 / 20) (1 / 10) = 3 := by
  have h := steps_off_grid rnd (1 / 2 ^ 53) (by positivity) (by norm_num) hr 0 (7 / 20) (1 / 10)
    (by norm_num) (7 / 2) (by norm_num) (by norm_num) (1 / 2) (by unfold tolQ; norm_num)
    far_seven_halves
  rw [h]; norm_num

/-! ### the concrete binary64 rounding -/

theorem pow2_eq (k : Int) : pow2 k = (2 : Rat) ^ k := by
  unfold pow2
  split
  · rename_i h
    obtain ⟨n, rfl⟩ := Int.eq_ofNat_of_zero_le h
    simp
  · rename_i h
    have h' : 0 ≤ -k := by omega
    obtain ⟨n, hn⟩ := Int.eq_ofNat_of_zero_le h'
    have hk : k = -(n : Int) := by omega
    subst hk
    simp

theorem scale0 {a : Rat} (ha : 0 < a) :
    (2 : Rat) ^ 51 < a * (2 : Rat) ^ ((52 : Int) - ((Nat.log2 a.num.natAbs : Int) - (Nat.log2 a.den : Int))) ∧
    a * (2 : Rat) ^ ((52 : Int) - ((Nat.log2 a.num.natAbs : Int) - (Nat.log2 a.den : Int))) < (2 : Rat) ^ 53 := by
  have hp : 0 < a.num := Rat.num_pos.mpr ha
  have hpa : ((a.num.natAbs : Nat) : Int) = a.num := Int.natAbs_of_nonneg hp.le
  have hp0 : a.num.natAbs ≠ 0 := by omega
  have hd0 : a.den ≠ 0 := a.den_nz
  have hPQ : ((a.num.natAbs : Nat) : Rat) = (a.num : Rat) := by
    rw [← Int.cast_natCast, hpa]
  have ha_eq : a = ((a.num.natAbs : Nat) : Rat) / ((a.den : Nat) : Rat) := by
    rw [hPQ]; exact (Rat.num_div_den a).symm
  generalize a.num.natAbs = p at *
  generalize a.den = d at *
  have h1 : ((2 ^ p.log2 : Nat) : Rat) ≤ (p : Rat) := by exact_mod_cast Nat.log2_self_le hp0
  have h2 : (p : Rat) < ((2 ^ (p.log2 + 1) : Nat) : Rat) := by exact_mod_cast Nat.lt_log2_self
  have h3 : ((2 ^ d.log2 : Nat) : Rat) ≤ (d : Rat) := by exact_mod_cast Nat.log2_self_le hd0
  have h4 : (d : Rat) < ((2 ^ (d.log2 + 1) : Nat) : Rat) := by exact_mod_cast Nat.lt_log2_self
  push_cast at h1 h2 h3 h4
  rw [pow_succ] at h2 h4
  have hX : (0 : Rat) < 2 ^ p.log2 := by positivity
  have hY : (0 : Rat) < 2 ^ d.log2 := by positivity
  have hD : (0 : Rat) < d := lt_of_lt_of_le hY h3
  have hP : (0 : Rat) < p := lt_of_lt_of_le hX h1
  have hpow : (2 : Rat) ^ ((52 : Int) - ((p.log2 : Int) - (d.log2 : Int)))
      = 2 ^ 52 * 2 ^ d.log2 / 2 ^ p.log2 := by
    rw [zpow_sub₀ two_ne_zero, zpow_sub₀ two_ne_zero, zpow_natCast, zpow_natCast]
    have : (2 : Rat) ^ (52 : Int) = 2 ^ (52 : Nat) := by norm_num
    rw [this]
    field_simp
  rw [hpow, ha_eq]
  generalize (2 : Rat) ^ p.log2 = X at *
  generalize (2 : Rat) ^ d.log2 = Y at *
  have e : (p : Rat) / d * (2 ^ 52 * Y / X) = (p * Y * 2 ^ 52) / (d * X) := by
    field_simp
  rw [e]
  have hDX : 0 < (d : Rat) * X := by positivity
  constructor
  · rw [lt_div_iff₀ hDX]
    have : (d : Rat) * X < 2 * Y * p := by nlinarith
    linarith
  · rw [div_lt_iff₀ hDX]
    have : (p : Rat) * Y < 2 * d * X := by nlinarith
    linarith

theorem scaleExp_spec {a : Rat} (ha : 0 < a) :
    (2 : Rat) ^ 52 ≤ a * (2 : Rat) ^ (scaleExp a) ∧ a * (2 : Rat) ^ (scaleExp a) < (2 : Rat) ^ 53 := by
  obtain ⟨h1, h2⟩ := scale0 ha
  unfold scaleExp
  simp only [pow2_eq]
  have e53 : (2 : Rat) ^ (53 : Int) = 2 ^ (53 : Nat) := by norm_num
  have e52 : (2 : Rat) ^ (52 : Int) = 2 ^ (52 : Nat) := by norm_num
  rw [e53, e52]
  split_ifs with c1 c2
  · exact absurd h2 (not_lt.mpr c1)
  · rw [zpow_add_one₀ two_ne_zero, ← mul_assoc]
    constructor <;> linarith
  · exact ⟨not_lt.mp c2, h2⟩


theorem rnd_zero : rnd 0 = 0 := by unfold rnd; simp

theorem rnd_of_pos {x : Rat} (hx : 0 < x) :
    rnd x = ((roundHalfEven (x * (2 : Rat) ^ (scaleExp x)) : Int) : Rat) * (2 : Rat) ^ (-(scaleExp x)) := by
  unfold rnd
  simp only [pow2_eq]
  rw [if_neg hx.ne', if_neg (not_lt.mpr hx.le), if_neg (not_lt.mpr hx.le)]

theorem rnd_neg (x : Rat) : rnd (-x) = -rnd x := by
  rcases lt_trichotomy x 0 with h | h | h
  · have h' : 0 < -x := by linarith
    rw [rnd_of_pos h']
    unfold rnd
    simp only [pow2_eq]
    rw [if_neg h.ne, if_pos h, if_pos h, neg_neg]
  · subst h; simp [rnd_zero]
  · have h' : -x < 0 := by linarith
    rw [rnd_of_pos h]
    unfold rnd
    simp only [pow2_eq]
    rw [if_neg h'.ne, if_pos h', if_pos h', neg_neg]

theorem rnd_err_pos {x : Rat} (hx : 0 < x) : |rnd x - x| ≤ (1 / 2 ^ 53) * x := by
  obtain ⟨h1, _⟩ := scaleExp_spec hx
  rw [rnd_of_pos hx]
  have hE := roundHalfEven_err (x * (2 : Rat) ^ (scaleExp x))
  generalize roundHalfEven (x * (2 : Rat) ^ (scaleExp x)) = n at *
  have hpos : (0 : Rat) < (2 : Rat) ^ (scaleExp x) := by positivity
  rw [zpow_neg]
  generalize (2 : Rat) ^ (scaleExp x) = T at *
  have e : (n : Rat) * T⁻¹ - x = ((n : Rat) - x * T) * T⁻¹ := by field_simp
  rw [e, abs_mul, abs_of_pos (inv_pos.mpr hpos)]
  have hTi : T⁻¹ ≤ x / 2 ^ 52 := by
    rw [inv_le_comm₀ hpos (by positivity)]
    rw [inv_div, div_le_iff₀ hx]; linarith
  calc |(n : Rat) - x * T| * T⁻¹ ≤ 1 / 2 * T⁻¹ :=
        mul_le_mul_of_nonneg_right hE (inv_pos.mpr hpos).le
    _ ≤ 1 / 2 * (x / 2 ^ 52) := mul_le_mul_of_nonneg_left hTi (by norm_num)
    _ = 1 / 2 ^ 53 * x := by ring

theorem rnd_err (x : Rat) : |rnd x - x| ≤ (1 / 2 ^ 53) * |x| := by
  rcases lt_trichotomy x 0 with h | h | h
  · have h' : 0 < -x := by linarith
    have := rnd_err_pos h'
    rw [rnd_neg, ← neg_sub', abs_neg] at this
    rwa [abs_of_neg h]
  · subst h; simp [rnd_zero]
  · rw [abs_of_pos h]; exact rnd_err_pos h

theorem steps_on_grid_binary64 (s e dt : Rat) (m : Nat) (hdt : 0 < dt)
    (hm : (m : Rat) ≤ 2 ^ 20) (η : Rat) (hη : η ≤ 1 / 2 ^ 32)
    (hclose : |e - (s + m * dt)| ≤ η * dt) : get_number_of_steps s e dt = m := by
  rw [steps_abstract_eq]
  exact steps_on_grid rnd (1 / 2 ^ 53) (by positivity) (by norm_num) rnd_err s e dt m hdt hm η hη hclose

theorem steps_off_grid_binary64 (s e dt : Rat) (hdt : 0 < dt)
    (q : Rat) (hq : q = (e - s) / dt) (hq0 : 0 ≤ q)
    (δ : Rat) (hδ : 2 * (tolQ + 4 * (1 / 2 ^ 53)) * (q + 1) ≤ δ)
    (hfar : ∀ n : Int, δ ≤ |q - n|) : get_number_of_steps s e dt = ⌊q⌋ := by
  rw [steps_abstract_eq]
  exact steps_off_grid rnd (1 / 2 ^ 53) (by positivity) (by norm_num) rnd_err s e dt hdt q hq hq0 δ hδ hfar

/-- fixed-margin corollary: `q ≤ 2^20` and `q` at least `2^-8` from every integer -/
theorem steps_off_grid_binary64_fixed (s e dt : Rat) (hdt : 0 < dt)
    (q : Rat) (hq : q = (e - s) / dt) (hq0 : 0 ≤ q) (hqM : q ≤ 2 ^ 20)
    (hfar : ∀ n : Int, (1 / 2 ^ 8 : Rat) ≤ |q - n|) : get_number_of_steps s e dt = ⌊q⌋ := by
  refine steps_off_grid_binary64 s e dt hdt q hq hq0 (1 / 2 ^ 8) ?_ hfar
  have h1 : 2 * (tolQ + 4 * (1 / 2 ^ 53)) * (q + 1) ≤ 2 * (tolQ + 4 * (1 / 2 ^ 53)) * (2 ^ 20 + 1) :=
    mul_le_mul_of_nonneg_left (by linarith) (by unfold tolQ; positivity)
  have h2 : 2 * (tolQ + 4 * (1 / 2 ^ 53)) * (2 ^ 20 + 1) ≤ 1 / 2 ^ 8 := by unfold tolQ; norm_num
  linarith

/-- `int((0.35 - 0)/0.1)`-style instance, on exact rational inputs -/
example : get_number_of_steps 0 (7 / 20) (1 / 10) = 3 := by
  have h := steps_off_grid_binary64 0 (7 / 20) (1 / 10) (by norm_num) (7 / 2) (by norm_num)
    (by norm_num) (1 / 2) (by unfold tolQ; norm_num) far_seven_halves
  rw [h]; norm_num

end OQuPyVerif.FloatGrid
