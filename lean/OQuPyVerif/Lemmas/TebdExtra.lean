/- Further consequences used by the property theorems: a Kronecker gate on a site-product
   state, Kronecker gates form one-parameter groups and commute, steps without controls and
   process tensors, trace preservation of Kronecker kernels, the norm along a whole run. -/
import OQuPyVerif.Lemmas.TebdReduced

namespace OQuPyVerif.Tebd
open OQuPyVerif.Generated
open Finset BigOperators Function

variable {K : Type} [CommRing K]
set_option linter.unusedSectionVars false

/-- a Kronecker gate on the bond `(i, i+1)` acts on the factors of the sites `i` and `i+1` -/
theorem applyKron_siteProd (n : ℕ) (w : ℕ → Config → K) (hloc : ∀ k, LocalTo k (w k))
    (i : ℕ) (hi : i + 1 < n) (m1 m2 : ℕ) (A B : ℕ → ℕ → K) :
    applyPair (physSlot i) (physSlot (i + 1)) m1 m2 (kron A B) (siteProd n w)
      = siteProd n (update (update w (i + 1) (applySite (physSlot (i + 1)) m2 B (w (i + 1))))
          i (applySite (physSlot i) m1 A (w i))) := by
  have hne : physSlot i ≠ physSlot (i + 1) := by unfold physSlot; omega
  rw [applyPair_kron _ _ hne, applySite_siteProd n w hloc (i + 1) _ hi (Or.inl rfl)]
  have hloc' : ∀ k, LocalTo k (update w (i + 1) (applySite (physSlot (i + 1)) m2 B (w (i + 1))) k) := by
    intro k
    by_cases hk : k = i + 1
    · subst hk; rw [update_self]; exact (hloc (i + 1)).applySite (Or.inl rfl) m2 B
    · rw [update_of_ne hk]; exact hloc k
  rw [applySite_siteProd n _ hloc' i _ (by omega) (Or.inl rfl)]
  have : update w (i + 1) (applySite (physSlot (i + 1)) m2 B (w (i + 1))) i = w i :=
    update_of_ne (by omega) _ _
  rw [this]

theorem pmul_kron (m1 m2 : ℕ) (A B A' B' : ℕ → ℕ → K) :
    pmul m1 m2 (kron A B) (kron A' B') = kron (mmul m1 A A') (mmul m2 B B') := by
  funext x y a b
  simp only [pmul, kron, mmul]
  rw [Finset.sum_mul_sum]
  apply Finset.sum_congr rfl; intro u _
  apply Finset.sum_congr rfl; intro v _
  ring

section
variable (ch : Chain K) (E : ℕ → ℚ → ℕ → ℕ → K)

/-- single-site maps of one-parameter groups commute, whatever the sites -/
theorem siteOp_comm_any (hE : ∀ j s t, mmul (ch.L j) (E j s) (E j t) = E j (s + t))
    (j j' : ℕ) (a b : ℚ) (φ : Config → K) :
    ch.siteOp E j a (ch.siteOp E j' b φ) = ch.siteOp E j' b (ch.siteOp E j a φ) := by
  by_cases h : j = j'
  · subst h
    unfold Chain.siteOp
    rw [applySite_comp, applySite_comp, hE, hE, add_comm]
  · unfold Chain.siteOp
    exact applySite_comm _ _ (physSlot_inj h) _ _ _ _ _

theorem bondOp_kron
    (hG : ∀ i t, ch.gate i t = kron (E i (t * TebdLayers.factor_l (i : ℤ) (ch.n : ℤ)))
      (E (i + 1) (t * TebdLayers.factor_r (i : ℤ) (ch.n : ℤ))))
    (i : ℕ) (t : ℚ) (φ : Config → K) :
    ch.bondOp i t φ = ch.siteOp E i (t * TebdLayers.factor_l (i : ℤ) (ch.n : ℤ))
      (ch.siteOp E (i + 1) (t * TebdLayers.factor_r (i : ℤ) (ch.n : ℤ)) φ) := by
  unfold Chain.bondOp Chain.siteOp
  rw [hG, applyPair_kron _ _ (physSlot_ne_succ i)]

/-- the gates of an uncoupled chain commute with each other -/
theorem bondOp_comm_of_kron (hE : ∀ j s t, mmul (ch.L j) (E j s) (E j t) = E j (s + t))
    (hG : ∀ i t, ch.gate i t = kron (E i (t * TebdLayers.factor_l (i : ℤ) (ch.n : ℤ)))
      (E (i + 1) (t * TebdLayers.factor_r (i : ℤ) (ch.n : ℤ))))
    (i i' : ℕ) (s t : ℚ) (φ : Config → K) :
    ch.bondOp i s (ch.bondOp i' t φ) = ch.bondOp i' t (ch.bondOp i s φ) := by
  simp only [bondOp_kron ch E hG]
  rw [siteOp_comm_any ch E hE (i + 1) i', siteOp_comm_any ch E hE i i',
    siteOp_comm_any ch E hE (i + 1) (i' + 1), siteOp_comm_any ch E hE i (i' + 1)]

/-- the gates of an uncoupled chain form one-parameter groups -/
theorem gate_group_of_kron (hE : ∀ j s t, mmul (ch.L j) (E j s) (E j t) = E j (s + t))
    (hG : ∀ i t, ch.gate i t = kron (E i (t * TebdLayers.factor_l (i : ℤ) (ch.n : ℤ)))
      (E (i + 1) (t * TebdLayers.factor_r (i : ℤ) (ch.n : ℤ))))
    (i : ℕ) (s t : ℚ) :
    pmul (ch.L i) (ch.L (i + 1)) (ch.gate i s) (ch.gate i t) = ch.gate i (s + t) := by
  rw [hG, hG, hG, pmul_kron, hE, hE, add_mul, add_mul]

/-! ### steps without controls and process tensors -/

theorem ctrlOps_none (ctl : ℕ → ℕ → Option (ℕ → ℕ → K)) (k : ℕ) (h : ∀ j, ctl j k = none) :
    ch.ctrlOps ctl k = [] := by
  unfold Chain.ctrlOps
  rw [List.filterMap_eq_nil_iff]
  intro j _
  simp [h j]

theorem ptOps_none (k : ℕ) (h : ∀ j, ch.hasPT j k = false) : ch.ptOps k = [] := by
  unfold Chain.ptOps
  rw [List.filterMap_eq_nil_iff]
  intro j _
  simp [h j]

/-- without controls and process tensors a step is two propagators -/
theorem stepOps_bare (order : ℤ) (dt : ℚ) (k : ℕ) (hpost : ∀ j, ch.post j k = none)
    (hpre : ∀ j, ch.pre j (k + 1) = none) (hpt : ∀ j, ch.hasPT j k = false) (ψ : Config → K) :
    runOps (ch.stepOps order dt k) ψ
      = runOps (ch.halfOps order dt) (runOps (ch.halfOps order dt) ψ) := by
  rw [stepOps_eq, ctrlOps_none ch _ k hpost, ctrlOps_none ch _ (k + 1) hpre, ptOps_none ch k hpt]
  simp only [List.nil_append, List.append_nil, runOps_append]

end

/-! ### trace preservation of Kronecker kernels -/

theorem tracePres2_kron (d1 L1 d2 L2 : ℕ) (A B : ℕ → ℕ → K) (hA : TracePres d1 L1 A)
    (hB : TracePres d2 L2 B) : TracePres2 d1 L1 d2 L2 (kron A B) := by
  intro a b ha hb
  simp only [kron]
  rw [← hA a ha, ← hB b hb, Finset.sum_mul_sum]
  apply Finset.sum_congr rfl; intro x _
  apply Finset.sum_congr rfl; intro y _
  ring

/-! ### the norm along a run -/

section
variable (ch : Chain K)

theorem norm_eq_traceAt (k : ℕ) (ψ : Config → K) :
    ch.norm k ψ = ch.traceAt (fun _ => k) ψ (fun _ => 0) := rfl

theorem traceAt_init (k0 : ℕ)
    (hpre : ∀ j M, ch.pre j k0 = some M → TracePres (ch.d j) (ch.L j) M) (ψ : Config → K) :
    ch.traceAt (fun _ => k0) (runOps (ch.initOps k0) ψ) = ch.traceAt (fun _ => k0) ψ := by
  rw [initOps_eq]
  exact traceAt_ctrlOps ch _ ch.pre k0 hpre ψ

/-- with trace-preserving gates and controls, and process tensors whose caps are consistent,
    the total trace of the chain state is the same after every step -/
theorem traceAt_stateAt (order : ℤ) (dt : ℚ) (k0 : ℕ)
    (hg : ∀ i t, i + 1 < ch.n →
      TracePres2 (ch.d i) (ch.L i) (ch.d (i + 1)) (ch.L (i + 1)) (ch.gate i t))
    (hpost : ∀ j k M, ch.post j k = some M → TracePres (ch.d j) (ch.L j) M)
    (hpre : ∀ j k M, ch.pre j k = some M → TracePres (ch.d j) (ch.L j) M)
    (hT : ∀ j k, j < ch.n → ch.hasPT j k = true → ∀ b i, b < ch.D j k → i < ch.L j →
      ∑ b' ∈ range (ch.D j (k + 1)), ∑ o ∈ range (ch.L j),
        ch.cap j (k + 1) b' * trVec (ch.d j) o * ch.T j k b b' i o
        = ch.cap j k b * trVec (ch.d j) i)
    (hN : ∀ j k, j < ch.n → ch.hasPT j k = false →
      ch.D j (k + 1) = ch.D j k ∧ ch.cap j (k + 1) = ch.cap j k)
    (ψ0 : Config → K) (m : ℕ) :
    ch.traceAt (fun _ => k0 + m) (ch.stateAt order dt k0 ψ0 m) = ch.traceAt (fun _ => k0) ψ0 := by
  induction m with
  | zero => exact traceAt_init ch k0 (fun j M h => hpre j k0 M h) ψ0
  | succ m ih =>
    show ch.traceAt (fun _ => k0 + m + 1) (runOps (ch.stepOps order dt (k0 + m)) _) = _
    rw [traceAt_step ch order dt (k0 + m) hg (fun j M h => hpost j _ M h)
      (fun j M h => hpre j _ M h) (fun j hj hp => hT j _ hj hp) (fun j hj hp => hN j _ hj hp), ih]

end

end OQuPyVerif.Tebd
