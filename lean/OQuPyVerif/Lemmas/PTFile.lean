/- Helper lemmas about the PTFile model (used by Props/C16 and Props/C17): Python truth
   values, growing row lists, the writer's trace/handle invariant, the denotation of
   `_set_data_and_shape`, reading back what was written.  Mathlib-free. -/
import OQuPyVerif.Model.PTFile

namespace OQuPyVerif.PTFile

/-! ### rows -/

/-- the list-level effect of `_set_data_and_shape` on one dataset -/
def setRows {α} (rows : List (List α)) (step : Nat) (x : List α) : List (List α) :=
  (if step ≥ rows.length then resizeRows rows (step + 1) else rows).set step x

theorem resizeRows_length {α} (rows : List (List α)) (n : Nat) :
    (resizeRows rows n).length = n := by
  unfold resizeRows
  simp [List.length_take]
  omega

theorem resizeRows_grow {α} (rows : List (List α)) (n : Nat) (h : rows.length ≤ n) :
    resizeRows rows n = rows ++ List.replicate (n - rows.length) [] := by
  unfold resizeRows
  rw [List.take_of_length_le h]

theorem setRows_length {α} (rows : List (List α)) (step : Nat) (x : List α) :
    (setRows rows step x).length = max rows.length (step + 1) := by
  unfold setRows
  split
  · rw [List.length_set, resizeRows_length]; omega
  · rw [List.length_set]; omega

theorem setRows_append_one {α} (rows : List (List α)) (x : List α) :
    setRows rows rows.length x = rows ++ [x] := by
  unfold setRows
  simp only [ge_iff_le, Nat.le_refl, if_true]
  rw [resizeRows_grow _ _ (Nat.le_succ _)]
  simp [List.set_append_right]

theorem getElem?_setRows {α} (rows : List (List α)) (step i : Nat) (x : List α) :
    (setRows rows step x)[i]? =
      if i = step then some x
      else if i < rows.length then rows[i]?
      else if i < step then some [] else none := by
  unfold setRows
  by_cases h : step ≥ rows.length
  · simp only [h, if_true]
    rw [List.getElem?_set, resizeRows_length, resizeRows_grow _ _ (by omega)]
    by_cases hi : step = i
    · subst hi; simp
    · have hi' : ¬ i = step := fun e => hi e.symm
      simp only [hi, hi', if_false]
      by_cases hl : i < rows.length
      · simp [hl, List.getElem?_append_left hl]
      · simp only [hl, if_false]
        rw [List.getElem?_append_right (by omega), List.getElem?_replicate]
        by_cases h2 : i < step
        · simp [h2]; omega
        · simp [h2]; omega
  · simp only [h, if_false]
    rw [List.getElem?_set]
    by_cases hi : step = i
    · subst hi; simp; omega
    · have hi' : ¬ i = step := fun e => hi e.symm
      simp only [hi, hi', if_false]
      by_cases hl : i < rows.length
      · simp [hl]
      · simp only [hl, if_false]
        have : ¬ i < step := by omega
        simp [this]; omega

/-! ### file content -/

@[simp] theorem vds_setVds_same (c : H5) (v : VName) (x : VDs) : (c.setVds v x).vds v = x := by
  cases v <;> rfl

theorem vds_setVds_ne (c : H5) (v v' : VName) (x : VDs) (h : v' ≠ v) :
    (c.setVds v x).vds v' = c.vds v' := by
  cases v <;> cases v' <;> first | rfl | exact absurd rfl h

@[simp] theorem setVds_writing (c : H5) (v : VName) (x : VDs) : (c.setVds v x).writing = c.writing := by
  cases v <;> rfl
@[simp] theorem setVds_version (c : H5) (v : VName) (x : VDs) : (c.setVds v x).version = c.version := by
  cases v <;> rfl
@[simp] theorem setVds_name (c : H5) (v : VName) (x : VDs) : (c.setVds v x).name = c.name := by
  cases v <;> rfl
@[simp] theorem setVds_description (c : H5) (v : VName) (x : VDs) :
    (c.setVds v x).description = c.description := by
  cases v <;> rfl
@[simp] theorem setVds_hsDim (c : H5) (v : VName) (x : VDs) : (c.setVds v x).hsDim = c.hsDim := by
  cases v <;> rfl
@[simp] theorem setVds_dt (c : H5) (v : VName) (x : VDs) : (c.setVds v x).dt = c.dt := by
  cases v <;> rfl
@[simp] theorem setVds_tin (c : H5) (v : VName) (x : VDs) : (c.setVds v x).tin = c.tin := by
  cases v <;> rfl
@[simp] theorem setVds_tout (c : H5) (v : VName) (x : VDs) : (c.setVds v x).tout = c.tout := by
  cases v <;> rfl

theorem setVds_setVds (c : H5) (v : VName) (x y : VDs) : (c.setVds v x).setVds v y = c.setVds v y := by
  cases v <;> rfl

/-- apply a function to the content of a readable file -/
def Disk.mapC (d : Disk) (f : H5 → H5) : Disk :=
  match d with
  | .file c => .file (f c)
  | d => d

/-- operations that do not open a file -/
def Op.isOpen : Op → Bool
  | .openMode _ => true
  | _ => false

theorem applyOp_notOpen (d : Disk) (op : Op) (h : op.isOpen = false) :
    applyOp d op = d.mapC (fun c => applyOpC c op) := by
  cases op
  case openMode m => simp [Op.isOpen] at h
  all_goals (cases d <;> rfl)

theorem replay_append (d : Disk) (a b : List Op) : replay d (a ++ b) = replay (replay d a) b := by
  unfold replay; rw [List.foldl_append]

@[simp] theorem replay_nil (d : Disk) : replay d [] = d := rfl
@[simp] theorem replay_cons (d : Disk) (op : Op) (ops : List Op) :
    replay d (op :: ops) = replay (applyOp d op) ops := rfl

/-! ### the writer's handle and its trace -/

/-- `w'` continues `w`: its trace extends `w`'s by operations satisfying `P`, and its view of
    the path is the replay of those operations -/
def Extends (P : Op → Prop) (w w' : W) : Prop :=
  ∃ ext, w'.trace = w.trace ++ ext ∧ w'.d = replay w.d ext ∧ ∀ op ∈ ext, P op

theorem Extends.refl (P : Op → Prop) (w : W) : Extends P w w := ⟨[], by simp, rfl, by simp⟩

theorem Extends.trans {P : Op → Prop} {a b c : W} (h1 : Extends P a b) (h2 : Extends P b c) :
    Extends P a c := by
  obtain ⟨e1, t1, d1, p1⟩ := h1
  obtain ⟨e2, t2, d2, p2⟩ := h2
  refine ⟨e1 ++ e2, by rw [t2, t1, List.append_assoc], by rw [d2, d1, replay_append], ?_⟩
  intro op hop
  rcases List.mem_append.mp hop with h | h
  · exact p1 op h
  · exact p2 op h

theorem Extends.emit {P : Op → Prop} (w : W) (op : Op) (h : P op) : Extends P w (w.emit op) :=
  ⟨[op], rfl, rfl, by simpa using h⟩

theorem Extends.mono {P Q : Op → Prop} {a b : W} (h : Extends P a b) (hpq : ∀ op, P op → Q op) :
    Extends Q a b := by
  obtain ⟨e, t, d, p⟩ := h
  exact ⟨e, t, d, fun op hop => hpq op (p op hop)⟩

/-- operations issued by `_set_data_and_shape` -/
def Op.isRowOp : Op → Bool
  | .resizeShape _ _ => true
  | .resizeData _ _ => true
  | .writeShape _ _ _ => true
  | .writeData _ _ _ => true
  | _ => false

theorem setDataShape_extends (w : W) (v : VName) (step : Nat) (t : Option Tensor) :
    Extends (fun op => op.isRowOp = true) w (w.setDataShape v step t) := by
  unfold W.setDataShape
  simp only []
  refine Extends.trans (b := if step ≥ w.lenShape v then w.emit (.resizeShape v (step + 1)) else w) ?_ ?_
  · split
    · exact Extends.emit _ _ rfl
    · exact Extends.refl _ _
  · generalize (if step ≥ w.lenShape v then w.emit (.resizeShape v (step + 1)) else w) = w1
    refine Extends.trans (b := if step ≥ w1.lenData v then w1.emit (.resizeData v (step + 1)) else w1) ?_ ?_
    · split
      · exact Extends.emit _ _ rfl
      · exact Extends.refl _ _
    · generalize (if step ≥ w1.lenData v then w1.emit (.resizeData v (step + 1)) else w1) = w2
      exact Extends.trans (Extends.emit _ _ rfl) (Extends.emit _ _ rfl)

theorem runCmd_extends (w : W) (c : Cmd) : Extends (fun op => op.isRowOp = true) w (runCmd w c) := by
  cases c <;> exact setDataShape_extends _ _ _ _

theorem runCmds_extends (w : W) (cmds : List Cmd) :
    Extends (fun op => op.isRowOp = true) w (runCmds w cmds) := by
  induction cmds generalizing w with
  | nil => exact Extends.refl _ _
  | cons c cs ih => exact Extends.trans (runCmd_extends w c) (ih (runCmd w c))

/-! ### denotation of `_set_data_and_shape` -/

/-- `_set_data_and_shape` on a (data, shape) pair -/
def VDs.setDS (p : VDs) (step : Nat) (t : Option Tensor) : VDs :=
  ⟨p.data.map (setRows · step (t.getD hdf5None).data),
   p.shape.map (setRows · step (t.getD hdf5None).shape)⟩

/-- content after `set_*_tensor(step, t)` on dataset pair `v` -/
def H5.setTensor (c : H5) (v : VName) (step : Nat) (t : Option Tensor) : H5 :=
  c.setVds v ((c.vds v).setDS step t)

theorem emit_file (c : H5) (tr : List Op) (op : Op) (h : op.isOpen = false) :
    W.emit ⟨.file c, tr⟩ op = ⟨.file (applyOpC c op), tr ++ [op]⟩ := by
  unfold W.emit; rw [applyOp_notOpen _ _ h]; rfl

theorem emit_d_notFile (d : Disk) (tr : List Op) (op : Op) (h : op.isOpen = false)
    (hd : ∀ c, d ≠ .file c) : (W.emit ⟨d, tr⟩ op).d = d := by
  unfold W.emit; rw [applyOp_notOpen _ _ h]
  cases d with
  | file c => exact absurd rfl (hd c)
  | missing => rfl
  | unreadable => rfl

def lenS (c : H5) (v : VName) : Nat := match (c.vds v).shape with | some l => l.length | none => 0
def lenD (c : H5) (v : VName) : Nat := match (c.vds v).data with | some l => l.length | none => 0

/-- `_set_data_and_shape` at the level of the content, statement by statement -/
def stepC (c : H5) (v : VName) (step : Nat) (t : Option Tensor) : H5 :=
  let c1 := if step ≥ lenS c v then applyOpC c (.resizeShape v (step + 1)) else c
  let c2 := if step ≥ lenD c1 v then applyOpC c1 (.resizeData v (step + 1)) else c1
  applyOpC (applyOpC c2 (.writeShape v step (t.getD hdf5None).shape))
    (.writeData v step (t.getD hdf5None).data)

theorem setDataShape_file (c : H5) (tr : List Op) (v : VName) (step : Nat) (t : Option Tensor) :
    (W.setDataShape ⟨.file c, tr⟩ v step t).d = .file (stepC c v step t) := by
  unfold W.setDataShape stepC
  simp only []
  have e1 : W.lenShape ⟨.file c, tr⟩ v = lenS c v := rfl
  rw [e1]
  by_cases h1 : step ≥ lenS c v
  · simp only [h1, if_true]
    rw [emit_file _ _ _ rfl]
    have e2 : ∀ c' tr', W.lenData ⟨.file c', tr'⟩ v = lenD c' v := fun _ _ => rfl
    rw [e2]
    by_cases h2 : step ≥ lenD (applyOpC c (.resizeShape v (step + 1))) v
    · simp only [h2, if_true]
      rw [emit_file _ _ _ rfl, emit_file _ _ _ rfl, emit_file _ _ _ rfl]
    · simp only [h2, if_false]
      rw [emit_file _ _ _ rfl, emit_file _ _ _ rfl]
  · simp only [h1, if_false]
    have e2 : ∀ c' tr', W.lenData ⟨.file c', tr'⟩ v = lenD c' v := fun _ _ => rfl
    rw [e2]
    by_cases h2 : step ≥ lenD c v
    · simp only [h2, if_true]
      rw [emit_file _ _ _ rfl, emit_file _ _ _ rfl, emit_file _ _ _ rfl]
    · simp only [h2, if_false]
      rw [emit_file _ _ _ rfl, emit_file _ _ _ rfl]

theorem stepC_eq (c : H5) (v : VName) (step : Nat) (t : Option Tensor) :
    stepC c v step t = c.setTensor v step t := by
  unfold stepC H5.setTensor VDs.setDS setRows lenS lenD
  rcases hs : (c.vds v).shape with _ | shape <;> rcases hd : (c.vds v).data with _ | data <;>
    simp only [applyOpC, vds_setVds_same, setVds_setVds, hs, hd, Option.map, ge_iff_le, Nat.zero_le,
      if_true] <;>
    (repeat' split) <;> simp_all [setVds_setVds] <;> omega

theorem replay_rowOps_notFile (d : Disk) (hd : ∀ c, d ≠ .file c) (ext : List Op)
    (hp : ∀ op ∈ ext, op.isRowOp = true) : replay d ext = d := by
  induction ext with
  | nil => rfl
  | cons op ops ih =>
    have h1 : op.isOpen = false := by
      have := hp op (by simp)
      cases op <;> simp [Op.isRowOp] at this <;> rfl
    have : applyOp d op = d := by
      rw [applyOp_notOpen _ _ h1]
      cases d with
      | file c => exact absurd rfl (hd c)
      | missing => rfl
      | unreadable => rfl
    rw [replay_cons, this]
    exact ih (fun o ho => hp o (by simp [ho]))

theorem setDataShape_d (w : W) (v : VName) (step : Nat) (t : Option Tensor) :
    (w.setDataShape v step t).d = w.d.mapC (fun c => c.setTensor v step t) := by
  obtain ⟨d, tr⟩ := w
  cases d with
  | file c => rw [setDataShape_file, stepC_eq]; rfl
  | missing =>
    obtain ⟨ext, _, hd, hp⟩ := setDataShape_extends ⟨.missing, tr⟩ v step t
    rw [hd]
    exact replay_rowOps_notFile _ (by intro c h; cases h) ext hp
  | unreadable =>
    obtain ⟨ext, _, hd, hp⟩ := setDataShape_extends ⟨.unreadable, tr⟩ v step t
    rw [hd]
    exact replay_rowOps_notFile _ (by intro c h; cases h) ext hp

theorem mapC_mapC (d : Disk) (f g : H5 → H5) : (d.mapC f).mapC g = d.mapC (fun c => g (f c)) := by
  cases d <;> rfl

/-- content-level meaning of a `set_*_tensor` call -/
def pureCmd (c : H5) : Cmd → H5
  | .setInitial t => c.setTensor .init 0 t
  | .setMpo k t => c.setTensor .mpo k t
  | .setCap k t => c.setTensor .cap k t

theorem runCmd_d (w : W) (c : Cmd) : (runCmd w c).d = w.d.mapC (fun x => pureCmd x c) := by
  cases c <;> exact setDataShape_d _ _ _ _

theorem runCmds_d (w : W) (cmds : List Cmd) :
    (runCmds w cmds).d = w.d.mapC (fun c => cmds.foldl pureCmd c) := by
  induction cmds generalizing w with
  | nil => cases w with | mk d tr => cases d <;> rfl
  | cons c cs ih =>
    show (runCmds (runCmd w c) cs).d = _
    rw [ih, runCmd_d, mapC_mapC]
    rfl

/-! ### creation -/

/-- the statements of `_create_file` the proofs below are written for -/
def stdCreateSteps : List CreateStep := [
  .openFile,
  .attr .version .version, .attr .name .name, .attr .description .description,
  .attr .writing (.const true),
  .arr .hsDim, .arr .dt, .arr .transformIn, .arr .transformOut,
  .vdata .init 1, .vshape .init 1, .vdata .mpo 0, .vshape .mpo 0, .vdata .cap 0, .vshape .cap 0,
  .setInitialNone]

/-- content of a file right after `FileProcessTensor.__init__` in a writing mode -/
def freshContent (env : Env) (m : Meta) : H5 :=
  { version := some env.version, name := some m.name, description := some m.description,
    writing := some true, hsDim := some m.hsDim, dt := some (dtArr m.dt),
    tin := some (optArr m.tin), tout := some (optArr m.tout),
    init := ⟨some [[Entry.nan]], some [[1]]⟩, mpo := ⟨some [], some []⟩, cap := ⟨some [], some []⟩ }

/-- the operations `_create_file` issues -/
def createTrace (env : Env) (m : Meta) (hm : H5Mode) : List Op := [
  .openMode hm,
  .setAttrStr .version env.version, .setAttrStr .name m.name,
  .setAttrStr .description m.description, .setWriting true,
  .createHsDim m.hsDim, .createArr .dt (dtArr m.dt), .createArr .transformIn (optArr m.tin),
  .createArr .transformOut (optArr m.tout),
  .createData .init 1, .createShape .init 1, .createData .mpo 0, .createShape .mpo 0,
  .createData .cap 0, .createShape .cap 0,
  .writeShape .init 0 [1], .writeData .init 0 [Entry.nan]]

theorem createFold_spec (env : Env) (m : Meta) (hm : H5Mode) (d : Disk)
    (hd : h5openDisk d hm = .file {}) :
    stdCreateSteps.foldl (createStep env m hm) ⟨d, []⟩ =
      ⟨.file (freshContent env m), createTrace env m hm⟩ := by
  simp only [stdCreateSteps, List.foldl, createStep, W.emit, applyOp, hd, attrValue, arrValue,
    List.nil_append, List.cons_append, W.setDataShape, W.lenShape, W.lenData]
  rfl

end OQuPyVerif.PTFile
