/- Reduced states: tracing a kept site out of a reduced state gives the reduced state of the
   smaller site set; the reduced state of a site-product state is the product of the sites'
   own closings. -/
import OQuPyVerif.Lemmas.TebdNormChain

namespace OQuPyVerif.Tebd
open OQuPyVerif.Generated
open Finset BigOperators Function

variable {K : Type} [CommRing K]
set_option linter.unusedSectionVars false

section
variable (ch : Chain K)

theorem physEntry_not_mem (κ : ℕ → ℕ) (keep : List ℕ) (j : ℕ) (hjk : j ∈ keep) :
    ch.physEntry j ∉ ch.closingAt κ keep := by
  intro h
  rcases (mem_closingAt ch κ keep _).mp h with ⟨j', _, e⟩ | ⟨j', _, hk, e⟩
  · have := congrArg Prod.fst e
    simp only [Chain.physEntry, Chain.ptEntry, physSlot, ptSlot] at this
    omega
  · have := congrArg Prod.fst e
    simp only [Chain.physEntry, physSlot] at this
    have : j = j' := by omega
    subst this
    exact hk hjk

/-- **partial-trace consistency**: tracing site `j` out of the reduced state of the sites `keep`
    gives the reduced state of `keep` without `j` -/
theorem reduced_trace_out (k : ℕ) (keep : List ℕ) (j : ℕ) (hj : j < ch.n) (hjk : j ∈ keep)
    (ψ : Config → K) :
    capOp (ch.physEntry j) (ch.reduced k keep ψ)
      = ch.reduced k (keep.filter (fun i => decide (i ≠ j))) ψ := by
  unfold Chain.reduced Chain.closing
  rw [← capAll_cons]
  symm
  apply capAll_perm _ _ _ (closingAt_slots_nodup ch _ _)
  rw [List.perm_ext_iff_of_nodup (nodup_of_slots _ (closingAt_slots_nodup ch _ _))]
  · intro x
    rw [List.mem_cons, mem_closingAt, mem_closingAt]
    simp only [List.mem_filter, decide_eq_true_eq, not_and, not_not]
    constructor
    · rintro (⟨i, hi, rfl⟩ | ⟨i, hi, hk, rfl⟩)
      · exact Or.inr (Or.inl ⟨i, hi, rfl⟩)
      · by_cases hik : i ∈ keep
        · rw [hk hik]; exact Or.inl rfl
        · exact Or.inr (Or.inr ⟨i, hi, hik, rfl⟩)
    · rintro (rfl | ⟨i, hi, rfl⟩ | ⟨i, hi, hk, rfl⟩)
      · exact Or.inr ⟨j, hj, fun _ => rfl, rfl⟩
      · exact Or.inl ⟨i, hi, rfl⟩
      · exact Or.inr ⟨i, hi, fun h => absurd h hk, rfl⟩
  · exact List.nodup_cons.mpr ⟨physEntry_not_mem ch _ keep j hjk,
      nodup_of_slots _ (closingAt_slots_nodup ch _ _)⟩

/-! ### closing a site-product state -/

/-- a closing entry as an operation of the dense model -/
def capToOp (x : ℕ × ℕ × (ℕ → K)) : Op K := Op.site x.1 x.2.1 1 (cov x.2.2)

theorem capAll_eq_runOps (l : List (ℕ × ℕ × (ℕ → K))) (hnd : (l.map Prod.fst).Nodup)
    (ψ : Config → K) : capAll l ψ = runOps (l.map capToOp) ψ := by
  rw [capAll_perm l l.reverse (List.reverse_perm l).symm hnd]
  unfold capAll runOps
  rw [List.foldr_reverse, List.foldl_map]
  rfl

/-- the closing operations of site `i`: cap of its process tensor, and its trace unless kept -/
def Chain.siteClosingOps (k : ℕ) (keep : List ℕ) (i : ℕ) : List (Op K) :=
  [capToOp (ch.ptEntry (fun _ => k) i)]
    ++ (if keep.contains i then [] else [capToOp (ch.physEntry i)])

/-- the reduced state of a site-product state is the product of the sites' own closings -/
theorem reduced_siteProd (k : ℕ) (keep : List ℕ) (w : ℕ → Config → K)
    (hloc : ∀ j, LocalTo j (w j)) :
    ch.reduced k keep (siteProd ch.n w)
      = siteProd ch.n (fun i => runOps (ch.siteClosingOps k keep i) (w i)) := by
  unfold Chain.reduced Chain.closing
  rw [capAll_eq_runOps _ (closingAt_slots_nodup ch _ _)]
  have hphys : ∀ i : ℕ, physSlot i / 2 = i := fun i => SlotOf.div (Or.inl rfl)
  have hpt : ∀ i : ℕ, ptSlot i / 2 = i := fun i => SlotOf.div (Or.inr rfl)
  have hok : ∀ o ∈ (ch.closingAt (fun _ => k) keep).map capToOp, IsLocalOp ch.n o := by
    intro o ho
    simp only [List.mem_map] at ho
    obtain ⟨x, hx, rfl⟩ := ho
    rcases (mem_closingAt ch _ keep x).mp hx with ⟨j, hj, rfl⟩ | ⟨j, hj, _, rfl⟩
    · exact ⟨j, hj, Or.inr rfl⟩
    · exact ⟨j, hj, Or.inl rfl⟩
  obtain ⟨h1, _⟩ := runOps_siteProd ch.n _ hok w hloc
  rw [h1]
  apply siteProd_congr
  intro i hi
  rw [loc_fold_site]
  congr 1
  rw [closingAt_eq, List.map_append, List.filter_append, List.map_map, List.map_map]
  have eA : (List.range ch.n).map (capToOp ∘ ch.ptEntry (fun _ => k))
      = (List.range ch.n).filterMap (fun j => some (capToOp (ch.ptEntry (fun _ => k) j))) := by
    have : (fun j => some (capToOp (ch.ptEntry (fun _ => k) j)))
        = some ∘ (capToOp ∘ ch.ptEntry (fun _ => k)) := rfl
    rw [this, List.filterMap_eq_map]
  have eB : ((List.range ch.n).filter (fun j => !keep.contains j)).map (capToOp ∘ ch.physEntry)
      = (List.range ch.n).filterMap
          (fun j => if keep.contains j then none else some (capToOp (ch.physEntry j))) := by
    induction (List.range ch.n) with
    | nil => rfl
    | cons a l ih =>
      by_cases ha : keep.contains a
      · simp only [List.filter_cons, ha, Bool.not_true, Bool.false_eq_true, if_false,
          List.filterMap_cons, if_true]
        exact ih
      · simp only [List.filter_cons, ha, Bool.not_false, if_true, List.map_cons,
          List.filterMap_cons, Bool.false_eq_true, if_false, comp_apply]
        rw [ih]
  rw [eA, eB, filter_site_filterMap, filter_site_filterMap, if_pos hi, if_pos hi]
  · unfold Chain.siteClosingOps
    congr 1
    split <;> rfl
  · intro j o ho
    split at ho
    · cases ho
    · simp only [Option.some.injEq] at ho
      subst ho
      exact hphys j
  · intro j o ho
    simp only [Option.some.injEq] at ho
    subst ho
    exact hpt j

end

end OQuPyVerif.Tebd
