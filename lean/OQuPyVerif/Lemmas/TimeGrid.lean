/- Helper lemmas about the `Dynamics.add` model (used by Props/C13, Props/C14). -/
import OQuPyVerif.Model.TimeGrid

namespace OQuPyVerif.TimeGrid

def Sorted (l : List Rat) : Prop := l.Pairwise (· ≤ ·)

theorem bisectRight_le (ts : List Rat) (x : Rat) : bisectRight ts x ≤ ts.length := by
  induction ts with
  | nil => simp [bisectRight]
  | cons t ts ih => unfold bisectRight; split <;> simp <;> omega

theorem insertAt_length {α} (l : List α) (i : Nat) (x : α) (h : i ≤ l.length) :
    (insertAt l i x).length = l.length + 1 := by
  unfold insertAt; simp; omega

theorem insertAt_perm {α} (l : List α) (i : Nat) (x : α) : (insertAt l i x).Perm (x :: l) := by
  unfold insertAt
  have : (l.take i ++ x :: l.drop i).Perm (x :: (l.take i ++ l.drop i)) := List.perm_middle
  simpa using this

theorem insertAt_zero {α} (l : List α) (x : α) : insertAt l 0 x = x :: l := by
  simp [insertAt]

theorem insertAt_succ {α} (a : α) (l : List α) (i : Nat) (x : α) :
    insertAt (a :: l) (i+1) x = a :: insertAt l i x := by
  simp [insertAt]

theorem insertAt_end {α} (l : List α) (x : α) : insertAt l l.length x = l ++ [x] := by
  simp [insertAt]

/-- all entries ≤ x ⇒ bisect returns the end -/
theorem bisectRight_all (ts : List Rat) (x : Rat) (h : ∀ t ∈ ts, t ≤ x) :
    bisectRight ts x = ts.length := by
  induction ts with
  | nil => simp [bisectRight]
  | cons t ts ih =>
    have h1 : t ≤ x := h t (by simp)
    have h2 := ih (fun u hu => h u (by simp [hu]))
    simp [bisectRight, h1, h2]

/-- inserting at the bisect position keeps a sorted list sorted. -/
theorem insert_sorted (ts : List Rat) (x : Rat) (h : Sorted ts) :
    Sorted (insertAt ts (bisectRight ts x) x) := by
  induction ts with
  | nil => simp [bisectRight, insertAt, Sorted]
  | cons t ts ih =>
    unfold Sorted at h ih ⊢
    rw [List.pairwise_cons] at h
    unfold bisectRight
    split
    · rename_i htx
      rw [insertAt_succ, List.pairwise_cons]
      refine ⟨?_, ih h.2⟩
      intro u hu
      have := (insertAt_perm ts (bisectRight ts x) x).mem_iff.mp hu
      rcases List.mem_cons.mp this with rfl | hm
      · exact htx
      · exact h.1 u hm
    · rename_i htx
      rw [insertAt_zero, List.pairwise_cons]
      refine ⟨?_, List.pairwise_cons.mpr h⟩
      intro u hu
      have hxt : x ≤ t := Rat.le_of_lt (Rat.not_le.mp htx)
      rcases List.mem_cons.mp hu with rfl | hm
      · exact hxt
      · exact Rat.le_trans hxt (h.1 u hm)

theorem zip_insertAt {α β} (l : List α) (m : List β) (i : Nat) (x : α) (y : β)
    (h : l.length = m.length) :
    (insertAt l i x).zip (insertAt m i y) = insertAt (l.zip m) i (x, y) := by
  unfold insertAt
  rw [List.zip_append (by simp [h])]
  simp [List.zip, List.take_zipWith, List.drop_zipWith]

end OQuPyVerif.TimeGrid

namespace OQuPyVerif.TimeGrid

/-- the dynamics holding exactly the grid `0..n` -/
def gridDyn (time : Int → Rat) (n : Nat) : Dyn Int :=
  ⟨(List.range (n+1)).map (fun (k : Nat) => time (k : Int)),
   (List.range (n+1)).map (fun (k : Nat) => (k : Int))⟩

theorem gridDyn_pairs (time : Int → Rat) (n : Nat) : (gridDyn time n).pairs = gridPairs time n := by
  simp [gridDyn, Dyn.pairs, gridPairs, List.zip_map']

theorem stepOnce_grid (time : Int → Rat) (hm : ∀ a b : Int, a ≤ b → time a ≤ time b) (n : Nat) :
    stepOnce time ((n : Int), gridDyn time n) = (((n+1 : Nat) : Int), gridDyn time (n+1)) := by
  unfold stepOnce dynAdd
  have hall : ∀ t ∈ (gridDyn time n).times, t ≤ time ((n : Int) + 1) := by
    intro t ht
    simp only [gridDyn, List.mem_map, List.mem_range] at ht
    obtain ⟨k, hk, rfl⟩ := ht
    apply hm; omega
  simp only []
  rw [bisectRight_all _ _ hall]
  have hl : (gridDyn time n).times.length = (gridDyn time n).states.length := by simp [gridDyn]
  conv => lhs; rw [insertAt_end, hl, insertAt_end]
  simp [gridDyn, List.range_succ (n := n+1)]

theorem iter_grid (time : Int → Rat) (hm : ∀ a b : Int, a ≤ b → time a ≤ time b) (m n : Nat) :
    iter (stepOnce time) m ((n : Int), gridDyn time n) = (((n+m : Nat) : Int), gridDyn time (n+m)) := by
  induction m generalizing n with
  | zero => simp [iter]
  | succ m ih =>
    simp only [iter]
    rw [stepOnce_grid time hm n, ih (n+1)]
    have : n + 1 + m = n + (m + 1) := by omega
    rw [this]

/-- a method object that holds exactly the grid up to its step -/
def Good (time : Int → Rat) (st : Stepper) (n : Nat) : Prop :=
  st.step = some (n : Int) ∧ st.dyn = gridDyn time n

theorem compute_good_init (numStep : Int → Rat → Int) (time : Int → Rat)
    (hm : ∀ a b : Int, a ≤ b → time a ≤ time b) (e : Rat) :
    Good time (compute numStep time Stepper.init e) (0 + (numStep 0 e).toNat) := by
  unfold compute Stepper.init
  have h0 : dynAdd (Dyn.empty : Dyn Int) (time 0) 0 = gridDyn time 0 := by
    simp [dynAdd, Dyn.empty, bisectRight, insertAt, gridDyn]
  simp only [h0]
  have := iter_grid time hm (numStep 0 e).toNat 0
  have h00 : ((0 : Nat) : Int) = 0 := rfl
  rw [h00] at this
  rw [this]
  exact ⟨rfl, rfl⟩

theorem compute_good_step (numStep : Int → Rat → Int) (time : Int → Rat)
    (hm : ∀ a b : Int, a ≤ b → time a ≤ time b) (st : Stepper) (n : Nat)
    (h : Good time st n) (e : Rat) :
    Good time (compute numStep time st e) (n + (numStep (n : Int) e).toNat) := by
  obtain ⟨hs, hd⟩ := h
  unfold compute
  rw [hs, hd]
  simp only []
  rw [iter_grid time hm]
  exact ⟨rfl, rfl⟩

/-- the step reached by a history of targets -/
def reach (numStep : Int → Rat → Int) (targets : List Rat) : Nat :=
  targets.foldl (fun k e => k + (numStep (k : Int) e).toNat) 0

theorem foldl_good (numStep : Int → Rat → Int) (time : Int → Rat)
    (hm : ∀ a b : Int, a ≤ b → time a ≤ time b) (targets : List Rat) (st : Stepper) (n : Nat)
    (h : Good time st n) :
    Good time (targets.foldl (compute numStep time) st)
      (targets.foldl (fun k e => k + (numStep (k : Int) e).toNat) n) := by
  induction targets generalizing st n with
  | nil => simpa using h
  | cons e es ih =>
    simp only [List.foldl_cons]
    exact ih _ _ (compute_good_step numStep time hm st n h e)

end OQuPyVerif.TimeGrid
