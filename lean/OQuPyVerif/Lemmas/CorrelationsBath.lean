/- Helper lemmas for the bath part of C07: the cells of the frequency-window kernels of
   `TwoTimeBathCorrelations._calc_kernel` are exact integrals of exponentials. -/
import OQuPyVerif.Model.CorrelationsBath
import Mathlib.Analysis.SpecialFunctions.Integrals.Basic
import Mathlib.Tactic.FieldSimp
import Mathlib.Tactic.Ring

namespace OQuPyVerif.CorrelationsBath
open OQuPyVerif.Generated.CorrBath

section Algebra
variable {K : Type} [Field K] (E : K → K)

/-- `∫_{t0}^{t1} e^{c t} dt` in closed form -/
def expInt (c t0 t1 : K) : K := (E (c * t1) - E (c * t0)) / c

/-- `∫_{t0}^{t1} dt e^{a t} ∫_{t0}^{t} ds e^{b s}` in closed form (`a + b ≠ 0`) -/
def triInt (a b t0 t1 : K) : K :=
  (E ((a + b) * t1) - E ((a + b) * t0)) / ((a + b) * b) - E (b * t0) * (E (a * t1) - E (a * t0)) / (a * b)

/-- the same when `a + b = 0` (then `e^{a t} e^{b t} = 1`) -/
def triIntDeg (a b t0 t1 : K) : K :=
  ((t1 - t0) - E (b * t0) * (E (a * t1) - E (a * t0)) / a) / b

theorem cell_rect (hE : ∀ x y, E (x + y) = E x * E y) (a b dt tk tkp : K)
    (ha : a ≠ 0) (hb : b ≠ 0) :
    phase_cell_rect E a b dt tk tkp =
      expInt E a (tk * dt) ((tk + 1) * dt) * expInt E b (tkp * dt) ((tkp + 1) * dt) := by
  unfold phase_cell_rect expInt
  simp only [hE, Int.cast_one]
  have e1 : a * (tk + 1) * dt = a * ((tk + 1) * dt) := by ring
  have e2 : b * (tkp + 1) * dt = b * ((tkp + 1) * dt) := by ring
  have e3 : a * tk * dt = a * (tk * dt) := by ring
  have e4 : b * tkp * dt = b * (tkp * dt) := by ring
  rw [e1, e2, e3, e4]
  field_simp
  ring

theorem cell_tri_eq_rect (a b dt tk tkp : K) :
    phase_cell_tri E a b dt tk tkp = phase_cell_rect E a b dt tk tkp := rfl

theorem diag_generic (hE : ∀ x y, E (x + y) = E x * E y) (a b dt s : K)
    (ha : a ≠ 0) (hb : b ≠ 0) (hab : a + b ≠ 0) :
    phase_diag_generic E a b dt s = triInt E a b (s * dt) ((s + 1) * dt) := by
  unfold phase_diag_generic triInt
  simp only [Int.cast_one]
  have e1 : (a * (s + 1) + b * s) * dt = b * (s * dt) + a * ((s + 1) * dt) := by ring
  have e2 : (a + b) * (s + 1) * dt = (a + b) * ((s + 1) * dt) := by ring
  have e3 : (a + b) * s * dt = (a + b) * (s * dt) := by ring
  have e4 : E ((a + b) * (s * dt)) = E (b * (s * dt)) * E (a * (s * dt)) := by
    rw [← hE]; congr 1; ring
  rw [e1, e2, e3, hE, e4]
  field_simp
  ring

/-- `a + b = 0` (equal frequencies, one operator daggered — the `occupation` case): the source's
    diagonal cell differs from the exact triangle integral by `(b − a)·dt/(a b)`: in the linear
    term `1 + a·sel·dt + b·(sel+1)·dt` the roles of `a` and `b` are exchanged (the limit of the
    generic formula is `1 + a·(sel+1)·dt + b·sel·dt`). -/
theorem diag_degenerate_defect (hE : ∀ x y, E (x + y) = E x * E y) (hE0 : E 0 = 1)
    (a b dt s : K) (ha : a ≠ 0) (hab : a + b = 0) :
    phase_diag_degenerate E a b dt s =
      triIntDeg E a b (s * dt) ((s + 1) * dt) + (b - a) * dt / (a * b) := by
  obtain rfl : b = -a := by linear_combination hab
  unfold phase_diag_degenerate triIntDeg
  simp only [Int.cast_one]
  have e1 : (a * (s + 1) + -a * s) * dt = -a * (s * dt) + a * ((s + 1) * dt) := by ring
  have e0 : E (-a * (s * dt)) * E (a * (s * dt)) = 1 := by
    rw [← hE, ← hE0]; congr 1; ring
  rw [e1, hE]
  have hna : -a ≠ 0 := neg_ne_zero.2 ha
  have e0a : E (-(a * s * dt)) * E (a * s * dt) = 1 := by
    rw [← hE, ← hE0]; congr 1; ring
  have e0b : E (-a * s * dt) * E (a * s * dt) = 1 := by
    rw [← hE, ← hE0]; congr 1; ring
  field_simp
  linear_combination e0a

/-- … but the real kernel only ever uses the sum over both operand orders
    (`phase('a') + phase('a', 1)`), and there the defect cancels: the sum is exact. -/
theorem diag_degenerate_sum (hE : ∀ x y, E (x + y) = E x * E y) (hE0 : E 0 = 1)
    (a b dt s : K) (ha : a ≠ 0) (hab : a + b = 0) :
    phase_diag_degenerate E a b dt s + phase_diag_degenerate E b a dt s =
      triIntDeg E a b (s * dt) ((s + 1) * dt) + triIntDeg E b a (s * dt) ((s + 1) * dt) := by
  have hb : b ≠ 0 := by
    intro hb; apply ha; rw [hb, add_zero] at hab; exact hab
  rw [diag_degenerate_defect E hE hE0 a b dt s ha hab,
      diag_degenerate_defect E hE hE0 b a dt s hb (by rw [add_comm]; exact hab)]
  field_simp
  ring

end Algebra
section Integral
open Complex intervalIntegral

/-- the closed forms are the integrals they stand for (over ℂ, real times) -/
theorem expInt_is_integral (c : ℂ) (hc : c ≠ 0) (t0 t1 : ℝ) :
    expInt Complex.exp c t0 t1 = ∫ t in t0..t1, Complex.exp (c * t) := by
  rw [integral_exp_mul_complex hc]
  rfl

theorem triInt_is_integral (a b : ℂ) (ha : a ≠ 0) (hb : b ≠ 0) (hab : a + b ≠ 0) (t0 t1 : ℝ) :
    triInt Complex.exp a b t0 t1 =
      ∫ t in t0..t1, Complex.exp (a * t) * ∫ s in t0..t, Complex.exp (b * s) := by
  have h : ∀ t : ℝ, Complex.exp (a * t) * ((Complex.exp (b * t) - Complex.exp (b * t0)) / b)
      = (1 / b) * Complex.exp ((a + b) * t) - (Complex.exp (b * t0) / b) * Complex.exp (a * t) := by
    intro t
    rw [add_mul, Complex.exp_add]
    field_simp
  simp_rw [integral_exp_mul_complex hb, h]
  rw [intervalIntegral.integral_sub, intervalIntegral.integral_const_mul,
      intervalIntegral.integral_const_mul, integral_exp_mul_complex hab, integral_exp_mul_complex ha]
  · unfold triInt
    field_simp
  · exact (Continuous.intervalIntegrable (by fun_prop) _ _)
  · exact (Continuous.intervalIntegrable (by fun_prop) _ _)

theorem triIntDeg_is_integral (a b : ℂ) (ha : a ≠ 0) (hb : b ≠ 0) (hab : a + b = 0) (t0 t1 : ℝ) :
    triIntDeg Complex.exp a b t0 t1 =
      ∫ t in t0..t1, Complex.exp (a * t) * ∫ s in t0..t, Complex.exp (b * s) := by
  obtain rfl : b = -a := by linear_combination hab
  have h : ∀ t : ℝ, Complex.exp (a * t) * ((Complex.exp (-a * t) - Complex.exp (-a * t0)) / -a)
      = (1 / -a) - (Complex.exp (-a * t0) / -a) * Complex.exp (a * t) := by
    intro t
    have hn : Complex.exp (-a * t) = (Complex.exp (a * t))⁻¹ := by
      rw [neg_mul, Complex.exp_neg]
    have hne := Complex.exp_ne_zero (a * t)
    rw [hn]
    field_simp
    ring
  simp_rw [integral_exp_mul_complex hb, h]
  rw [intervalIntegral.integral_sub, intervalIntegral.integral_const_mul,
      intervalIntegral.integral_const, integral_exp_mul_complex ha]
  · unfold triIntDeg
    simp only [Complex.real_smul, Complex.ofReal_sub]
    field_simp
    ring
  · exact (Continuous.intervalIntegrable (by fun_prop) _ _)
  · exact (Continuous.intervalIntegrable (by fun_prop) _ _)

end Integral
end OQuPyVerif.CorrelationsBath
