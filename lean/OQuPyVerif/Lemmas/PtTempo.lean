/- PT-TEMPO's process tensor contracted with the system = TEMPO (C02). -/
import OQuPyVerif.Lemmas.ProcessTensor
import OQuPyVerif.Lemmas.PathAmp

namespace OQuPyVerif.PT
open Finset BigOperators OQuPyVerif.PathSum
variable {K : Type} [CommRing K]

theorem pathSum_comm (L n m : ℕ) (G : List ℕ → List ℕ → K) :
    pathSum L n (fun a => pathSum L m (fun p => G a p)) =
      pathSum L m (fun p => pathSum L n (fun a => G a p)) := by
  induction n generalizing G with
  | zero => rfl
  | succ n ih =>
    rw [pathSum_succ]
    have : ∀ x ∈ range L, pathSum L n (fun a => pathSum L m (fun p => G (x :: a) p))
        = pathSum L m (fun p => pathSum L n (fun a => G (x :: a) p)) := by
      intro x _; exact ih _
    rw [Finset.sum_congr rfl this, ← pathSum_finsum]
    rfl

/-- the kernels of TEMPO expressed through `compute_dynamics`' system maps:
    `P1 k = A (k-1)`, `P2 k = B (k-1)`. -/
def kernelOfAB (L : ℕ) (A B : ℕ → ℕ → ℕ → K) (Uin Uout : ℕ → ℕ → K) : ℕ → ℕ → ℕ → K :=
  kernelM L (fun k => A (k-1)) (fun k => B (k-1)) Uin Uout

/-- Conditional amplitude: summing the in/out legs of the doubled path against the basis
    changes leaves the TEMPO amplitude of the index path. -/
theorem transAmp_sysAmp (L : ℕ) (A B : ℕ → ℕ → ℕ → K) (Uin Uout : ℕ → ℕ → K) (ρ0 : ℕ → K)
    (x : ℕ) (rest : List ℕ) (s' : ℕ) :
    pathSum L (2 * (rest.length + 1))
        (fun p => transAmp Uin Uout (x :: rest) p * sysAmp L A B ρ0 p s') =
      (∑ o ∈ range L, B rest.length s' o * Uout o x) *
        sysAmpl (kernelOfAB L A B Uin Uout)
          (fun a1 => ∑ a0 ∈ range L, kernelOfAB L A B Uin Uout 1 a1 a0 * ρ0 a0) (x :: rest) := by
  induction rest generalizing x s' with
  | nil =>
    simp only [List.length_nil, Nat.zero_add, Nat.mul_one, pathSum_succ_succ, pathSum, transAmp,
      sysAmp, sysAmpl, Nat.zero_div, mul_one, kernelOfAB, kernelM, matMul, le_refl, ite_true,
      Nat.sub_self]
    rw [Finset.sum_mul]
    apply Finset.sum_congr rfl; intro o _
    have hL : ∀ i ∈ range L, Uout o x * Uin x i * (B 0 s' o * ∑ s ∈ range L, A 0 i s * ρ0 s)
        = ∑ s ∈ range L, B 0 s' o * Uout o x * (Uin x i * A 0 i s * ρ0 s) := by
      intro i _
      rw [Finset.mul_sum, Finset.mul_sum]
      apply Finset.sum_congr rfl; intro s _; ring
    have hR : ∀ s ∈ range L, B 0 s' o * Uout o x * ((∑ c ∈ range L, Uin x c * A 0 c s) * ρ0 s)
        = ∑ i ∈ range L, B 0 s' o * Uout o x * (Uin x i * A 0 i s * ρ0 s) := by
      intro s _
      rw [Finset.sum_mul, Finset.mul_sum]
    rw [Finset.sum_congr rfl hL, Finset.mul_sum, Finset.sum_congr rfl hR, Finset.sum_comm]
  | cons y rest' ih =>
    have hlen : 2 * ((y :: rest').length + 1) = 2 * (rest'.length + 1) + 2 := by
      simp only [List.length_cons]; ring
    rw [hlen, pathSum_succ_succ]
    -- peel the newest (o, i) pair
    have hstep : ∀ o ∈ range L, ∀ i ∈ range L,
        pathSum L (2 * (rest'.length + 1))
          (fun p => transAmp Uin Uout (x :: y :: rest') (o :: i :: p) * sysAmp L A B ρ0 (o :: i :: p) s')
        = (B (rest'.length + 1) s' o * Uout o x) * (Uin x i *
            ∑ s ∈ range L, A (rest'.length + 1) i s *
              ((∑ o' ∈ range L, B rest'.length s o' * Uout o' y) *
                sysAmpl (kernelOfAB L A B Uin Uout)
                  (fun a1 => ∑ a0 ∈ range L, kernelOfAB L A B Uin Uout 1 a1 a0 * ρ0 a0)
                  (y :: rest'))) := by
      intro o _ i _
      have h1 : pathSum L (2 * (rest'.length + 1))
          (fun p => transAmp Uin Uout (x :: y :: rest') (o :: i :: p) * sysAmp L A B ρ0 (o :: i :: p) s')
          = pathSum L (2 * (rest'.length + 1)) (fun p => ∑ s ∈ range L,
              (Uout o x * Uin x i * B (rest'.length + 1) s' o * A (rest'.length + 1) i s) *
                (transAmp Uin Uout (y :: rest') p * sysAmp L A B ρ0 p s)) := by
        apply pathSum_congr; intro p hp
        have hl : p.length / 2 = rest'.length + 1 := by rw [hp.1]; omega
        simp only [transAmp, sysAmp, hl]
        rw [Finset.mul_sum, Finset.mul_sum]
        apply Finset.sum_congr rfl; intro s _
        ring
      rw [h1, pathSum_finsum, Finset.mul_sum, Finset.mul_sum]
      apply Finset.sum_congr rfl; intro s _
      rw [pathSum_mul_left, ih y s]
      ring
    rw [Finset.sum_congr rfl (fun o ho => Finset.sum_congr rfl (hstep o ho))]
    -- reassemble into kernel × amplitude
    simp only [sysAmpl, List.length_cons]
    have hk : kernelOfAB L A B Uin Uout (rest'.length + 2) x y =
        ∑ i ∈ range L, Uin x i * ∑ s ∈ range L, A (rest'.length + 1) i s *
          ∑ o' ∈ range L, B rest'.length s o' * Uout o' y := by
      simp only [kernelOfAB, kernelM, matMul]
      have : ¬ (rest'.length + 2 ≤ 1) := by omega
      simp only [this, ite_false]
      rfl
    rw [hk, Finset.sum_mul]
    apply Finset.sum_congr rfl; intro o _
    rw [← Finset.mul_sum]
    congr 1
    rw [Finset.sum_mul]
    apply Finset.sum_congr rfl; intro i _
    rw [mul_assoc, Finset.sum_mul]
    congr 1
    apply Finset.sum_congr rfl; intro s _
    ring

end OQuPyVerif.PT
