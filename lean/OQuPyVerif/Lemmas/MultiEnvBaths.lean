/- C03: two combined process tensors at the dense level; two baths with one coupling operator. -/
import OQuPyVerif.Lemmas.MultiEnvJoint
import OQuPyVerif.Lemmas.ProcessTensor

namespace OQuPyVerif.MultiEnv
open Finset BigOperators OQuPyVerif.PathSum OQuPyVerif.PT OQuPyVerif.Generated.MpoWiring
variable {K : Type} [CommRing K]

theorem inflRowFull_mul (I1 I2 : ℕ → ℕ → ℕ → ℕ → K) (n a : ℕ) :
    ∀ (j : ℕ) (q : List ℕ),
      inflRowFull (fun n dk a c => I1 n dk a c * I2 n dk a c) n a j q
        = inflRowFull I1 n a j q * inflRowFull I2 n a j q := by
  intro j q
  induction q generalizing j with
  | nil => simp [inflRowFull]
  | cons c cs ih => simp only [inflRowFull, ih]; ring

/-- the influence functional of the pointwise product of two tables is the product of the
    influence functionals -/
theorem inflProd_mul (I1 I2 : ℕ → ℕ → ℕ → ℕ → K) (p : List ℕ) :
    inflProd (fun n dk a c => I1 n dk a c * I2 n dk a c) p = inflProd I1 p * inflProd I2 p := by
  induction p with
  | nil => simp [inflProd]
  | cons a rest ih => simp only [inflProd, ih, inflRowFull_mul]; ring

theorem midOut_length : ∀ (n : ℕ) (p ms : List ℕ), p.length = 2 * n → ms.length = n →
    (midOut p ms).length = 2 * n
  | 0, [], [], _, _ => rfl
  | n+1, _ :: _ :: p, _ :: ms, hp, hm => by
    simp only [midOut, List.length_cons]
    have := midOut_length n p ms (by simp at hp; omega) (by simpa using hm)
    omega
  | 0, _ :: _, _, hp, _ => by simp at hp
  | 0, [], _ :: _, _, hm => by simp at hm
  | n+1, [], _, hp, _ => by simp at hp
  | n+1, [_], _, hp, _ => by simp at hp; omega
  | n+1, _ :: _ :: _, [], _, hm => by simp at hm

theorem midIn_length : ∀ (n : ℕ) (p ms : List ℕ), p.length = 2 * n → ms.length = n →
    (midIn p ms).length = 2 * n
  | 0, [], [], _, _ => rfl
  | n+1, _ :: _ :: p, _ :: ms, hp, hm => by
    simp only [midIn, List.length_cons]
    have := midIn_length n p ms (by simp at hp; omega) (by simpa using hm)
    omega
  | 0, _ :: _, _, hp, _ => by simp at hp
  | 0, [], _ :: _, _, hm => by simp at hm
  | n+1, [], _, hp, _ => by simp at hp
  | n+1, [_], _, hp, _ => by simp at hp; omega
  | n+1, _ :: _ :: _, [], _, hm => by simp at hm

theorem bondAmp_combine (L : ℕ) (D1 D2 : ℕ → ℕ) (T1 T2 : ℕ → ℕ → ℕ → ℕ → ℕ → K) :
    ∀ (n : ℕ) (p : List ℕ), p.length = 2 * n → ∀ b1' b2', b2' < D2 n →
      bondAmp (fun k => D1 k * D2 k) (combineMpo L D2 T1 T2) p (b1' * D2 n + b2')
        = pathSum L n (fun ms => bondAmp D1 T1 (midOut p ms) b1' * bondAmp D2 T2 (midIn p ms) b2') := by
  intro n
  induction n with
  | zero =>
    intro p hp b1' b2' hb2
    have : p = [] := List.eq_nil_of_length_eq_zero (by simpa using hp)
    subst this
    simp only [pathSum, midOut, midIn, bondAmp]
    by_cases h1 : b1' = 0
    · subst h1; simp
    · have : ¬ (b1' * D2 0 + b2' = 0) := by
        intro h
        have h0 : b1' * D2 0 = 0 := by omega
        rcases Nat.mul_eq_zero.mp h0 with h | h
        · exact h1 h
        · omega
      rw [if_neg this, if_neg h1, zero_mul]
  | succ n ih =>
    intro p hp b1' b2' hb2
    match p, hp with
    | o :: i :: p', hp =>
      have hp' : p'.length = 2 * n := by simp at hp; omega
      have hk : p'.length / 2 = n := by omega
      rw [pathSum_succ]
      simp only [bondAmp, hk, midOut, midIn]
      rw [sum_range_mul']
      -- left side
      have hL : ∀ b1 ∈ range (D1 n), ∀ b2 ∈ range (D2 n),
          combineMpo L D2 T1 T2 n (b1 * D2 n + b2) (b1' * D2 (n+1) + b2') i o *
            bondAmp (fun k => D1 k * D2 k) (combineMpo L D2 T1 T2) p' (b1 * D2 n + b2)
          = ∑ m ∈ range L, (T1 n b1 b1' i m * T2 n b2 b2' m o) *
              pathSum L n (fun ms => bondAmp D1 T1 (midOut p' ms) b1 * bondAmp D2 T2 (midIn p' ms) b2) := by
        intro b1 _ b2 hb2'
        have hb2'' := Finset.mem_range.mp hb2'
        rw [ih p' hp' b1 b2 hb2'']
        simp only [combineMpo, pair_div hb2'', pair_mod hb2'', pair_div hb2, pair_mod hb2]
        rw [Finset.sum_mul]
      rw [Finset.sum_congr rfl (fun b1 hb1 => Finset.sum_congr rfl (hL b1 hb1))]
      -- right side
      have hR : ∀ m ∈ range L,
          pathSum L n (fun ms =>
            (∑ b ∈ range (D1 ((midOut p' ms).length / 2)),
                T1 ((midOut p' ms).length / 2) b b1' i m * bondAmp D1 T1 (midOut p' ms) b) *
            (∑ b ∈ range (D2 ((midIn p' ms).length / 2)),
                T2 ((midIn p' ms).length / 2) b b2' m o * bondAmp D2 T2 (midIn p' ms) b))
          = ∑ b1 ∈ range (D1 n), ∑ b2 ∈ range (D2 n), (T1 n b1 b1' i m * T2 n b2 b2' m o) *
              pathSum L n (fun ms => bondAmp D1 T1 (midOut p' ms) b1 * bondAmp D2 T2 (midIn p' ms) b2) := by
        intro m _
        have : pathSum L n (fun ms =>
            (∑ b ∈ range (D1 ((midOut p' ms).length / 2)),
                T1 ((midOut p' ms).length / 2) b b1' i m * bondAmp D1 T1 (midOut p' ms) b) *
            (∑ b ∈ range (D2 ((midIn p' ms).length / 2)),
                T2 ((midIn p' ms).length / 2) b b2' m o * bondAmp D2 T2 (midIn p' ms) b))
            = pathSum L n (fun ms => ∑ b1 ∈ range (D1 n), ∑ b2 ∈ range (D2 n),
                (T1 n b1 b1' i m * T2 n b2 b2' m o) *
                  (bondAmp D1 T1 (midOut p' ms) b1 * bondAmp D2 T2 (midIn p' ms) b2)) := by
          apply pathSum_congr; intro ms hms
          have h1 : (midOut p' ms).length / 2 = n := by
            rw [midOut_length n p' ms hp' hms.1]; omega
          have h2 : (midIn p' ms).length / 2 = n := by
            rw [midIn_length n p' ms hp' hms.1]; omega
          rw [h1, h2, Finset.sum_mul]
          apply Finset.sum_congr rfl; intro b1 _
          rw [Finset.mul_sum]
          apply Finset.sum_congr rfl; intro b2 _
          ring
        rw [this, pathSum_finsum]
        apply Finset.sum_congr rfl; intro b1 _
        rw [pathSum_finsum]
        apply Finset.sum_congr rfl; intro b2 _
        rw [pathSum_mul_left]
      rw [Finset.sum_congr rfl hR]
      -- Σ_b1 Σ_b2 Σ_m  =  Σ_m Σ_b1 Σ_b2
      rw [Finset.sum_comm (s := range L)]
      apply Finset.sum_congr rfl; intro b1 _
      rw [Finset.sum_comm (s := range L)]

/-- the dense form of two combined environments is the series combination of their dense forms -/
theorem densePT_combine (L : ℕ) (D1 D2 : ℕ → ℕ) (T1 T2 : ℕ → ℕ → ℕ → ℕ → ℕ → K)
    (c1 c2 : ℕ → ℕ → K) (n : ℕ) (p : List ℕ) (hp : p.length = 2 * n) :
    densePT (fun k => D1 k * D2 k) (combineMpo L D2 T1 T2) (combineCap D2 c1 c2) n p
      = denseCombine L (densePT D1 T1 c1) (densePT D2 T2 c2) n p := by
  unfold densePT denseCombine
  rw [sum_range_mul']
  have hL : ∀ b1 ∈ range (D1 n), ∀ b2 ∈ range (D2 n),
      combineCap D2 c1 c2 n (b1 * D2 n + b2) *
        bondAmp (fun k => D1 k * D2 k) (combineMpo L D2 T1 T2) p (b1 * D2 n + b2)
      = pathSum L n (fun ms => (c1 n b1 * c2 n b2) *
          (bondAmp D1 T1 (midOut p ms) b1 * bondAmp D2 T2 (midIn p ms) b2)) := by
    intro b1 _ b2 hb2
    have hb2' := Finset.mem_range.mp hb2
    rw [bondAmp_combine L D1 D2 T1 T2 n p hp b1 b2 hb2', pathSum_mul_left]
    simp only [combineCap, pair_div hb2', pair_mod hb2']
  rw [Finset.sum_congr rfl (fun b1 hb1 => Finset.sum_congr rfl (hL b1 hb1))]
  have : pathSum L n (fun ms => (∑ b ∈ range (D1 n), c1 n b * bondAmp D1 T1 (midOut p ms) b) *
        ∑ b ∈ range (D2 n), c2 n b * bondAmp D2 T2 (midIn p ms) b)
      = pathSum L n (fun ms => ∑ b1 ∈ range (D1 n), ∑ b2 ∈ range (D2 n), (c1 n b1 * c2 n b2) *
          (bondAmp D1 T1 (midOut p ms) b1 * bondAmp D2 T2 (midIn p ms) b2)) := by
    apply pathSum_congr; intro ms _
    rw [Finset.sum_mul]
    apply Finset.sum_congr rfl; intro b1 _
    rw [Finset.mul_sum]
    apply Finset.sum_congr rfl; intro b2 _
    ring
  rw [this, pathSum_finsum]
  apply Finset.sum_congr rfl; intro b1 _
  rw [pathSum_finsum]

theorem transAmp_collapse (L : ℕ) : ∀ (n : ℕ) (p : List ℕ), IsPath L (2 * n) p → ∀ f : List ℕ → K,
    pathSum L n (fun a => transAmp (delta : ℕ → ℕ → K) delta a p * f a) = diagAmp p * f (outs p) := by
  intro n
  induction n with
  | zero =>
    intro p hp f
    have : p = [] := List.eq_nil_of_length_eq_zero (by simpa using hp.1)
    subst this
    simp [pathSum, transAmp, diagAmp, outs]
  | succ n ih =>
    intro p hp f
    match p, hp with
    | o :: i :: p', hp =>
      have hp' : IsPath L (2 * n) p' := by
        refine ⟨?_, fun a ha => hp.2 a (by simp [ha])⟩
        have := hp.1; simp at this; omega
      have ho : o < L := hp.2 o (by simp)
      rw [pathSum_succ]
      have : ∀ a0 ∈ range L, pathSum L n (fun as =>
            transAmp (delta : ℕ → ℕ → K) delta (a0 :: as) (o :: i :: p') * f (a0 :: as))
          = (delta o a0 * delta a0 i) * (diagAmp p' * f (a0 :: outs p')) := by
        intro a0 _
        rw [← ih p' hp' (fun as => f (a0 :: as)), ← pathSum_mul_left]
        apply pathSum_congr; intro as _
        simp only [transAmp]; ring
      rw [Finset.sum_congr rfl this, Finset.sum_eq_single o]
      · simp only [diagAmp, outs, delta, if_true]; ring
      · intro a0 _ ha0
        simp [delta, Ne.symm ha0]
      · intro h; exact absurd (Finset.mem_range.mpr ho) h

theorem mid_facts (L : ℕ) : ∀ (n : ℕ) (p ms : List ℕ), IsPath L (2 * n) p → IsPath L n ms →
    IsPath L (2 * n) (midOut p ms) ∧ IsPath L (2 * n) (midIn p ms) ∧
    outs (midOut p ms) = ms ∧ outs (midIn p ms) = outs p ∧
    (diagAmp (midOut p ms) * diagAmp (midIn p ms) : K) = transAmp delta delta ms p := by
  intro n
  induction n with
  | zero =>
    intro p ms hp hm
    have h1 : p = [] := List.eq_nil_of_length_eq_zero (by simpa using hp.1)
    have h2 : ms = [] := List.eq_nil_of_length_eq_zero hm.1
    subst h1; subst h2
    refine ⟨⟨rfl, by simp [midOut]⟩, ⟨rfl, by simp [midIn]⟩, rfl, rfl, ?_⟩
    simp [midOut, midIn, diagAmp, transAmp]
  | succ n ih =>
    intro p ms hp hm
    match p, ms, hp, hm with
    | o :: i :: p', m :: ms', hp, hm =>
      have hp' : IsPath L (2 * n) p' := by
        refine ⟨?_, fun a ha => hp.2 a (by simp [ha])⟩
        have := hp.1; simp at this; omega
      have hm' : IsPath L n ms' := by
        refine ⟨?_, fun a ha => hm.2 a (by simp [ha])⟩
        have := hm.1; simpa using this
      obtain ⟨h1, h2, h3, h4, h5⟩ := ih p' ms' hp' hm'
      have ho : o < L := hp.2 o (by simp)
      have hi : i < L := hp.2 i (by simp)
      have hmL : m < L := hm.2 m (by simp)
      refine ⟨?_, ?_, ?_, ?_, ?_⟩
      · have := isPath_cons hmL (isPath_cons hi h1)
        simpa [midOut, Nat.mul_succ] using this
      · have := isPath_cons ho (isPath_cons hmL h2)
        simpa [midIn, Nat.mul_succ] using this
      · simp [midOut, outs, h3]
      · simp [midIn, outs, h4]
      · simp only [midOut, midIn, diagAmp, transAmp]
        rw [← h5]; ring
    | [], _, hp, _ => exact absurd hp.1 (by simp)
    | [_], _, hp, _ => exact absurd hp.1 (by simp; omega)
    | _ :: _ :: _, [], _, hm => exact absurd hm.1 (by simp)

/-- with identity transforms the process tensor of an influence functional is supported on the
    paths with `i_k = o_k`, where it is the influence functional -/
theorem ptOfInfluence_id (L : ℕ) (I : ℕ → ℕ → ℕ → ℕ → K) (n : ℕ) (p : List ℕ)
    (hp : IsPath L (2 * n) p) :
    ptOfInfluence L delta delta I n p = diagAmp p * inflProd I (outs p) :=
  transAmp_collapse L n p hp (inflProd I)

/-- combining the process tensors of two influence functionals (identity transforms) gives the
    process tensor of the product influence functional -/
theorem denseCombine_infl (L : ℕ) (I1 I2 : ℕ → ℕ → ℕ → ℕ → K) (n : ℕ) (p : List ℕ)
    (hp : IsPath L (2 * n) p) :
    denseCombine L (ptOfInfluence L delta delta I1) (ptOfInfluence L delta delta I2) n p
      = ptOfInfluence L delta delta (fun n dk a c => I1 n dk a c * I2 n dk a c) n p := by
  unfold denseCombine
  rw [ptOfInfluence_id L _ n p hp, inflProd_mul]
  rw [← transAmp_collapse L n p hp (fun ms => inflProd I1 ms * inflProd I2 (outs p))]
  apply pathSum_congr; intro ms hms
  obtain ⟨h1, h2, h3, h4, h5⟩ := mid_facts (K := K) L n p ms hp hms
  rw [ptOfInfluence_id L I1 n _ h1, ptOfInfluence_id L I2 n _ h2, h3, h4, ← h5]
  ring

end OQuPyVerif.MultiEnv
