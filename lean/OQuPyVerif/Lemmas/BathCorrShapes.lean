/-
  C12 — helper lemmas: the generated difference formulas of `CustomSD.correlation_2d_integral`
  (Generated/BathShapes.lean) are the cells of Lemmas/EtaCells.lean on the time grid, and tile.
-/
import OQuPyVerif.Generated.BathShapes
import OQuPyVerif.Lemmas.EtaCells
import Mathlib.Algebra.Ring.Defs
import Mathlib.Data.Int.Cast.Basic
import Mathlib.Algebra.Module.Defs
import Mathlib.Tactic.Abel

namespace OQuPyVerif.BathCorrShapes
open OQuPyVerif.Generated.BathShapes OQuPyVerif.EtaCells Finset BigOperators

variable {T K : Type} [AddCommGroup T] [DecidableEq T] [Ring K]

/-- the grid function of TEMPO: `e k = η(k·Δ)` -/
def grid (eta : T → K) (Δ : T) (k : ℤ) : K := eta (k • Δ)

variable (eta : T → K) (ci : T → T → K) (ι : T → K) (m : Bool) (Δ t2 : T)

theorem shapeSq_grid (dk : ℕ) :
    shapeSq eta ci ι m Δ ((dk : ℤ) • Δ) t2 = sqCell (grid eta Δ) dk := by
  simp only [shapeSq, sqCell, grid]
  have h1 : ((dk : ℤ) • Δ + Δ) = ((dk : ℤ) + 1) • Δ := by rw [add_zsmul, one_zsmul]
  have h2 : ((dk : ℤ) • Δ - Δ) = ((dk : ℤ) - 1) • Δ := by rw [sub_zsmul, one_zsmul, sub_eq_add_neg]
  rw [h1, h2, Nat.cast_ofNat, two_mul]

theorem shapeRect_grid (Kc : ℕ) :
    shapeRect eta ci ι m Δ ((Kc : ℤ) • Δ) t2 = rectCell (grid eta Δ) Kc (eta t2) (eta (t2 - Δ)) := by
  simp only [shapeRect, rectCell, grid]
  have h2 : ((Kc : ℤ) • Δ - Δ) = ((Kc : ℤ) - 1) • Δ := by rw [sub_zsmul, one_zsmul, sub_eq_add_neg]
  rw [h2]

/-- rectangle additivity -/
theorem shapeRect_add (t1 t2 t3 : T) :
    shapeRect eta ci ι m Δ t1 t2 + shapeRect eta ci ι m Δ t2 t3 = shapeRect eta ci ι m Δ t1 t3 := by
  simp only [shapeRect]; abel

/-- a rectangle of width Δ is the square -/
theorem shapeRect_eq_sq (t1 : T) :
    shapeRect eta ci ι m Δ t1 (t1 + Δ) = shapeSq eta ci ι m Δ t1 t2 := by
  simp only [shapeRect, shapeSq, add_sub_cancel_right, Nat.cast_ofNat, two_mul]; abel


/-- `'upper-triangle'` at `time_1 = 0` (how TEMPO calls it for `dk = 0`) -/
theorem shapeTri_grid :
    shapeTri eta ci ι m Δ 0 t2 = triCell (grid eta Δ) := by
  simp [shapeTri, triCell, grid]

/-- the cell TEMPO requests for distance `dk` (`influence_matrix`: `'upper-triangle'` at
    `time_1 = 0` for `dk = 0`, `'square'` at `time_1 = dk·Δ` otherwise), computed by the generated
    formulas -/
def genCell (dk : ℕ) : K :=
  if dk = 0 then shapeTri eta ci ι m Δ 0 t2 else shapeSq eta ci ι m Δ ((dk : ℤ) • Δ) t2

theorem genCell_eq (dk : ℕ) : genCell eta ci ι m Δ t2 dk = cell (grid eta Δ) dk := by
  unfold genCell cell
  split
  · exact shapeTri_grid eta ci ι m Δ t2
  · exact shapeSq_grid eta ci ι m Δ t2 dk

/-- the whole triangle of side `n·Δ`, as the code computes it: `'upper-triangle'` with
    `delta = n·Δ`, `time_1 = 0` -/
theorem whole_triangle (n : ℕ) :
    shapeTri eta ci ι m ((n : ℤ) • Δ) 0 t2 = grid eta Δ n - grid eta Δ 0 := by
  simp [shapeTri, grid]

theorem gen_row_sum (k : ℕ) :
    ∑ dk ∈ range (k + 1), genCell eta ci ι m Δ t2 dk
      = eta (((k : ℤ) + 1) • Δ) - eta ((k : ℤ) • Δ) := by
  simp only [genCell_eq]
  exact row_sum (grid eta Δ) k

theorem gen_tiling (n : ℕ) :
    ∑ k ∈ range n, ∑ dk ∈ range (k + 1), genCell eta ci ι m Δ t2 dk
      = shapeTri eta ci ι m ((n : ℤ) • Δ) 0 t2 := by
  simp only [genCell_eq]
  rw [tiling, whole_triangle]

/-- memory cut-off with an additional correlation time: the row `dk = 0..Kc-1` plus the rectangle
    from `Kc·Δ` to `time_2` is the strip out to `time_2` -/
theorem gen_row_sum_rect (Kc : ℕ) (hK : 1 ≤ Kc) (time_2 : T) :
    ∑ dk ∈ range Kc, genCell eta ci ι m Δ t2 dk + shapeRect eta ci ι m Δ ((Kc : ℤ) • Δ) time_2
      = eta time_2 - eta (time_2 - Δ) := by
  simp only [genCell_eq, shapeRect_grid]
  exact row_sum_rect (grid eta Δ) Kc hK _ _

end OQuPyVerif.BathCorrShapes
