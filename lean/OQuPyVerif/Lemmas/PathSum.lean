/- Helper lemmas about `pathSum` (linearity, congruence, exchange of summation). -/
import OQuPyVerif.Model.PathSum
import Mathlib.Tactic.Ring
import Mathlib.Tactic.Linarith

namespace OQuPyVerif.PathSum
open Finset BigOperators
variable {K : Type} [CommRing K]

/-- a path as enumerated by `pathSum L n`: length `n`, entries `< L` -/
def IsPath (L n : ℕ) (p : List ℕ) : Prop := p.length = n ∧ ∀ a ∈ p, a < L

theorem isPath_cons {L n a : ℕ} {p : List ℕ} (ha : a < L) (hp : IsPath L n p) :
    IsPath L (n+1) (a :: p) := by
  refine ⟨by simp [hp.1], ?_⟩
  intro b hb
  rcases List.mem_cons.mp hb with rfl | h
  · exact ha
  · exact hp.2 b h

theorem pathSum_congr (L n : ℕ) (F G : List ℕ → K) (h : ∀ p, IsPath L n p → F p = G p) :
    pathSum L n F = pathSum L n G := by
  induction n generalizing F G with
  | zero => exact h [] ⟨rfl, by simp⟩
  | succ n ih =>
    unfold pathSum
    apply Finset.sum_congr rfl
    intro a ha
    apply ih
    intro p hp
    exact h (a :: p) (isPath_cons (Finset.mem_range.mp ha) hp)

theorem pathSum_add (L n : ℕ) (F G : List ℕ → K) :
    pathSum L n (fun p => F p + G p) = pathSum L n F + pathSum L n G := by
  induction n generalizing F G with
  | zero => rfl
  | succ n ih =>
    unfold pathSum
    rw [← Finset.sum_add_distrib]
    apply Finset.sum_congr rfl
    intro a _
    exact ih _ _

theorem pathSum_zero (L n : ℕ) : pathSum L n (fun _ => (0 : K)) = 0 := by
  induction n with
  | zero => rfl
  | succ n ih => unfold pathSum; simp [ih]

theorem pathSum_mul_left (L n : ℕ) (c : K) (F : List ℕ → K) :
    pathSum L n (fun p => c * F p) = c * pathSum L n F := by
  induction n generalizing F with
  | zero => rfl
  | succ n ih =>
    unfold pathSum
    rw [Finset.mul_sum]
    apply Finset.sum_congr rfl
    intro a _
    exact ih _

/-- exchange a finite sum with the path sum -/
theorem pathSum_finsum {ι : Type} (s : Finset ι) (L n : ℕ) (F : ι → List ℕ → K) :
    pathSum L n (fun p => ∑ i ∈ s, F i p) = ∑ i ∈ s, pathSum L n (F i) := by
  induction n generalizing F with
  | zero => rfl
  | succ n ih =>
    unfold pathSum
    rw [Finset.sum_comm]
    apply Finset.sum_congr rfl
    intro a _
    exact ih _

/-- paths enumerated by `pathSum L (n+1)` are non-empty: peel the head -/
theorem pathSum_succ (L n : ℕ) (F : List ℕ → K) :
    pathSum L (n+1) F = ∑ a ∈ range L, pathSum L n (fun p => F (a :: p)) := rfl

end OQuPyVerif.PathSum
