/- Float time → step conversions of the bath-correlation code: rounding `t/dt` in binary64
   lands on the grid step whenever `t` is within a quarter step of it. -/
import OQuPyVerif.Lemmas.FloatGrid
import OQuPyVerif.Generated.CorrBath

namespace OQuPyVerif.CorrelationsBath
open OQuPyVerif.FloatModel OQuPyVerif.FloatGrid

theorem round_step_of_near (t dt : Rat) (m : Int) (hm : |(m : Rat)| ≤ 2 ^ 40)
    (h : |t / dt - m| ≤ 1 / 4) :
    truncInt ((roundHalfEven (fdiv t dt) : Int) : Rat) = m := by
  have hq : |t / dt| ≤ 2 ^ 40 + 1 / 4 := by
    have := abs_sub_abs_le_abs_sub (t / dt) (m : Rat)
    linarith
  have he := rnd_err (t / dt)
  have he' : |rnd (t / dt) - t / dt| ≤ 1 / 8 := by
    refine le_trans he ?_
    have : (1 / 2 ^ 53 : Rat) * |t / dt| ≤ 1 / 2 ^ 53 * (2 ^ 40 + 1 / 4) :=
      mul_le_mul_of_nonneg_left hq (by positivity)
    refine le_trans this ?_
    norm_num
  have hclose : |rnd (t / dt) - (m : Rat)| < 1 / 2 := by
    have := abs_sub_le (rnd (t / dt)) (t / dt) (m : Rat)
    linarith
  unfold fdiv
  rw [roundHalfEven_eq_of_close _ m hclose, truncInt_intCast]

theorem last_time_near (n : Int) (dt : Rat) (hdt : 0 < dt) (hn : |(n : Rat)| ≤ 2 ^ 40) :
    |fmul (ofInt n) dt / dt - n| ≤ 1 / 4 := by
  unfold fmul ofInt
  have e1 := rnd_err (n : Rat)
  have e2 := rnd_err (rnd (n : Rat) * dt)
  have hn0 : |rnd (n : Rat)| ≤ 2 ^ 40 + 1 := by
    have := abs_sub_abs_le_abs_sub (rnd (n : Rat)) (n : Rat)
    have h3 : (1 / 2 ^ 53 : Rat) * |(n : Rat)| ≤ 1 / 2 ^ 53 * 2 ^ 40 :=
      mul_le_mul_of_nonneg_left hn (by positivity)
    have : (1 / 2 ^ 53 : Rat) * 2 ^ 40 ≤ 1 := by norm_num
    linarith
  have key : rnd (rnd (n : Rat) * dt) / dt - n =
      (rnd (rnd (n : Rat) * dt) - rnd (n : Rat) * dt) / dt + (rnd (n : Rat) - n) := by
    field_simp
    ring
  rw [key]
  have hA : |(rnd (rnd (n : Rat) * dt) - rnd (n : Rat) * dt) / dt| ≤ 1 / 2 ^ 53 * (2 ^ 40 + 1) := by
    rw [abs_div, abs_of_pos hdt, div_le_iff₀ hdt]
    refine le_trans e2 ?_
    rw [abs_mul, abs_of_pos hdt]
    have := mul_le_mul_of_nonneg_left hn0 (show (0 : Rat) ≤ 1 / 2 ^ 53 by positivity)
    nlinarith [this, hdt]
  have hB : |rnd (n : Rat) - n| ≤ 1 / 2 ^ 53 * 2 ^ 40 :=
    le_trans e1 (mul_le_mul_of_nonneg_left hn (by positivity))
  have := abs_add_le ((rnd (rnd (n : Rat) * dt) - rnd (n : Rat) * dt) / dt) (rnd (n : Rat) - n)
  have h1 : (1 / 2 ^ 53 : Rat) * (2 ^ 40 + 1) + 1 / 2 ^ 53 * 2 ^ 40 ≤ 1 / 4 := by norm_num
  linarith

/-- a row of decimal literals: `f (num m / 10^d) (dtn / 10^dtd) = m` for all `m ≤ M` -/
def litRowOK (f : Rat → Rat → Int) (num : Nat → Int) (d : Nat) (dtn : Int) (dtd : Nat) (M : Nat) :
    Bool :=
  (List.range (M + 1)).all (fun m => f (lit (num m) d) (lit dtn dtd) == (m : Int))

end OQuPyVerif.CorrelationsBath
