/-
  C09 — helper lemmas: the sequence of `field_eom(t, states, field)` evaluations made by each
  method, in normal form (`specCalls`).
-/
import OQuPyVerif.Lemmas.MeanField

set_option linter.unusedSectionVars false

namespace OQuPyVerif.MeanField
open OQuPyVerif.FloatModel OQuPyVerif.Generated.MeanFieldTimes

section generic
variable {S K σ P : Type} [Add K] [Sub K] [Mul K] [Div K] [OfNat K 2]

/-- the evaluation that gives the derivative handed to the propagators of step `n` -/
def specDerivCall (M : Sys S K σ P) (n : Int) (st : σ × K) : Call S K :=
  ⟨gridT M.start M.dt n, M.obs st.1, st.2⟩

/-- the two Runge–Kutta stage evaluations of step `n`; `nxt` = the states at grid point `n+1` -/
def specHeunCalls (M : Sys S K σ P) (n : Int) (s : S) (a : K) (nxt : S) : List (Call S K) :=
  [⟨gridT M.start M.dt n, s, a⟩,
   ⟨fadd (gridT M.start M.dt n) M.dt, nxt, a + M.eom (gridT M.start M.dt n) s a * M.cast M.dt⟩]

/-- all evaluations of step `n`, in the order they are made: `r` times the derivative evaluation,
    then the two stages -/
def specCallsStep (r : Nat) (M : Sys S K σ P) (n : Int) (st : σ × K) : List (Call S K) :=
  List.replicate r (specDerivCall M n st) ++
    specHeunCalls M n (M.obs st.1) st.2 (M.obs (specStep M n st).1)

/-- all evaluations of steps `0 … n-1` -/
def specCalls (r : Nat) (M : Sys S K σ P) (σ0 : σ) (a0 : K) : Nat → List (Call S K)
  | 0 => []
  | n + 1 => specCalls r M σ0 a0 n ++ specCallsStep r M (n : Int) (specIter M σ0 a0 n)

theorem mftStep_calls (M : Sys S K σ P) (n : Int) (st : σ × K) :
    (mftStep M n st).2 = specCallsStep 1 M n st := rfl

theorem mftIter_calls (M : Sys S K σ P) (σ0 : σ) (a0 : K) (n : Nat) :
    (mftIter M σ0 a0 n).2.2 = specCalls 1 M σ0 a0 n := by
  induction n with
  | zero => rfl
  | succ n ih =>
    show (mftIter M σ0 a0 n).2.2 ++ (mftStep M (n : Int) (mftIter M σ0 a0 n).1).2 = _
    rw [ih, mftStep_calls, (mftIter_spec M σ0 a0 n).1]
    rfl

theorem cdwf_loop_calls (M : Sys S K σ P) (k : Int) (prev cur : S) (a : K) :
    (cdwfComputeField M (cdwf_loop_cf_time M.start M.dt (k + 1)) (cdwf_loop_cf_dt M.start M.dt (k + 1))
        (cdwf_loop_cf_states prev cur) a (cdwf_loop_cf_next_states prev cur)).2
      = specHeunCalls M k prev a cur := by
  show [Call.mk
      (cdwf_cf_rk1_time (cdwf_loop_cf_time M.start M.dt (k + 1)) (cdwf_loop_cf_dt M.start M.dt (k + 1)))
      prev a,
    Call.mk
      (cdwf_cf_rk2_time (cdwf_loop_cf_time M.start M.dt (k + 1)) (cdwf_loop_cf_dt M.start M.dt (k + 1)))
      cur (a + M.eom
        (cdwf_cf_rk1_time (cdwf_loop_cf_time M.start M.dt (k + 1)) (cdwf_loop_cf_dt M.start M.dt (k + 1)))
        prev a * M.cast (cdwf_loop_cf_dt M.start M.dt (k + 1)))] = _
  rw [cdwf_loop_rk1_time_grid, cdwf_loop_rk2_time_grid, cdwf_loop_dt]
  rfl

theorem cdwf_final_calls (M : Sys S K σ P) (k : Int) (prev cur : S) (a : K) :
    (cdwfComputeField M (cdwf_final_cf_time M.start M.dt (k + 1))
        (cdwf_final_cf_dt M.start M.dt (k + 1))
        (cdwf_final_cf_states prev cur) a (cdwf_final_cf_next_states prev cur)).2
      = specHeunCalls M k prev a cur := by
  show [Call.mk
      (cdwf_cf_rk1_time (cdwf_final_cf_time M.start M.dt (k + 1)) (cdwf_final_cf_dt M.start M.dt (k + 1)))
      prev a,
    Call.mk
      (cdwf_cf_rk2_time (cdwf_final_cf_time M.start M.dt (k + 1)) (cdwf_final_cf_dt M.start M.dt (k + 1)))
      cur (a + M.eom
        (cdwf_cf_rk1_time (cdwf_final_cf_time M.start M.dt (k + 1)) (cdwf_final_cf_dt M.start M.dt (k + 1)))
        prev a * M.cast (cdwf_final_cf_dt M.start M.dt (k + 1)))] = _
  rw [cdwf_final_rk1_time_grid, cdwf_final_rk2_time_grid, cdwf_final_dt]
  rfl

theorem cdwfProp_calls (M : Sys S K σ P) (k : Int) (net : σ) (prev cur : S) (a : K) :
    (cdwfProp M k net prev cur a).2
      = List.replicate (cdwf_fd_evals M.nsys) (⟨gridT M.start M.dt k, cur, a⟩ : Call S K) := rfl

variable (M : Sys S K σ P) (σ0 : σ) (a0 : K)

/-- after iteration `n` of `compute_dynamics_with_field` the evaluations made are those of steps
    `0 … n-1` followed by the derivative evaluations of step `n` (`cdwf_fd_evals nsys` of them:
    one per system when the call sits inside the comprehension over the systems) -/
theorem cdwfIter_calls (hnet : ∀ k p x, M.netPT k p x = M.net (k + 1) p x) (n : Nat) :
    (cdwfIter M σ0 a0 n).2.2
      = specCalls (cdwf_fd_evals M.nsys) M σ0 a0 n ++
          List.replicate (cdwf_fd_evals M.nsys) (specDerivCall M (n : Int) (specIter M σ0 a0 n)) := by
  induction n with
  | zero => rfl
  | succ n ih =>
    obtain ⟨h1, h2, h3, _⟩ := cdwfIter_spec M σ0 a0 hnet n
    obtain ⟨g1, g2, g3, _⟩ := cdwfIter_spec M σ0 a0 hnet (n + 1)
    show (cdwfIter M σ0 a0 n).2.2 ++
        ((cdwfComputeField M (cdwf_loop_cf_time M.start M.dt ((n + 1 : Nat) : Int))
              (cdwf_loop_cf_dt M.start M.dt ((n + 1 : Nat) : Int))
              (cdwf_loop_cf_states (cdwfIter M σ0 a0 n).1.prev (M.obs (cdwfIter M σ0 a0 n).1.net))
              (cdwfIter M σ0 a0 n).1.field
              (cdwf_loop_cf_next_states (cdwfIter M σ0 a0 n).1.prev
                (M.obs (cdwfIter M σ0 a0 n).1.net))).2 ++
          (cdwfProp M ((n + 1 : Nat) : Int) (cdwfIter M σ0 a0 n).1.net (cdwfIter M σ0 a0 n).1.prev
              (M.obs (cdwfIter M σ0 a0 n).1.net) (cdwfIter M σ0 a0 (n + 1)).1.field).2) = _
    rw [ih, cdwfProp_calls, g2, h1, h2, h3,
      show ((n + 1 : Nat) : Int) = (n : Int) + 1 by push_cast; rfl, cdwf_loop_calls]
    simp only [specCalls, specCallsStep, specDerivCall, List.append_assoc]
    rfl

end generic
end OQuPyVerif.MeanField
