/-
  Helper lemmas for property C18 (controls): the float-time -> step conversion of
  `Control.get_controls` (generated `timeToStep_*`, `timeSelect_*`) in the binary64 model.
-/
import OQuPyVerif.Generated.ControlCompose
import OQuPyVerif.Lemmas.FloatGrid

namespace OQuPyVerif.Control
open OQuPyVerif.FloatModel OQuPyVerif.Generated.ControlCompose OQuPyVerif.FloatGrid

/-- the binary64 quotient `(t - start_time) / dt` that the code rounds to a step -/
def stepQuotient (t start dt : Rat) : Rat := fdiv (fsub t start) dt

/-- unit round-off of binary64 -/
def uHalf : Rat := 1 / 2 ^ 53

/-- relative error of the two roundings (`-` then `/`) -/
def quotTol : Rat := 2 * uHalf + uHalf ^ 2

theorem intCast_beq (a b : Int) : (((a : Int) : Rat) == ((b : Int) : Rat)) = true ↔ a = b := by
  rw [beq_iff_eq]
  exact Int.cast_inj

theorem stepQuotient_err (t start dt : Rat) (hdt : 0 < dt) :
    |stepQuotient t start dt - (t - start) / dt| ≤ quotTol * |(t - start) / dt| := by
  have := ratio_err OQuPyVerif.FloatModel.rnd uHalf (fun x => rnd_err x) (by unfold uHalf; positivity)
    (t - start) dt hdt
  simpa [stepQuotient, fdiv, fsub, quotTol] using this

theorem roundHalfEven_tie (m : Rat) (h : m - ⌊m⌋ = 1 / 2) : roundHalfEven m % 2 = 0 := by
  rw [roundHalfEven_def]
  rw [if_neg (by rw [h]; exact lt_irrefl _), if_neg (by rw [h]; exact lt_irrefl _)]
  split
  · assumption
  · omega

end OQuPyVerif.Control
