/-
  C12 — helper lemmas: the generated integrands of `CustomSD.correlation` / `eta_function`
  (Generated/BathShapes.lean) instantiated at `K = ℂ` with Mathlib's `Complex.exp`.

  `x` always stands for `e^{-ω/T}`.  `corrXY` / `etaXY` are the thermal expressions with the
  occurrences of that quantity as free variables: `x` where it multiplies `e^{+iτω}` (the source
  writes the product as one exponential `e^{-(ω/T - iτω)}`), `y` where it stands alone.  The
  thermal branch is `(x, y) = (e^{-ω/T}, e^{-ω/T})`, the large-frequency fall-back ("guard") branch
  is `(e^{-ω/T}, 0)`, the zero-temperature expression is `(0, 0)`.  `corrThermalX x = corrXY x x`.
-/
import OQuPyVerif.Generated.BathShapes
import Mathlib.Analysis.SpecialFunctions.Trigonometric.Basic
import Mathlib.Analysis.SpecialFunctions.Pow.Real
import Mathlib.Analysis.Complex.Trigonometric
import Mathlib.Tactic.Ring
import Mathlib.Tactic.LinearCombination
import Mathlib.Tactic.FieldSimp
import Mathlib.Tactic.Positivity

namespace OQuPyVerif.BathCorrLemmas
open OQuPyVerif.BathCorr OQuPyVerif.Generated.BathShapes Complex
open scoped ComplexConjugate
noncomputable section

def cFns : ExpFns ℂ :=
  { exp := Complex.exp, expm1 := fun z => Complex.exp z - 1, I := Complex.I, npow := fun z n => z ^ n, pow := fun z p => z ^ p,
    heaviside := fun x h0 => if 0 < x.re then 1 else if x.re = 0 then h0 else 0,
    re := fun z => (z.re : ℂ), im := fun z => (z.im : ℂ), lt := fun a b => decide (a.re < b.re) }

def corrThermalX (J w τ x : ℂ) : ℂ := J * (cexp (-I * τ * w) + x * cexp (I * τ * w)) / (1 - x)
def etaThermalX (J w τ x : ℂ) : ℂ :=
  J / w ^ 2 * ((cexp (-I * τ * w) + x * cexp (I * τ * w) - x - 1) / (1 - x) + I * τ * w)

def corrXY (J w τ x y : ℂ) : ℂ := J * (cexp (-I * τ * w) + x * cexp (I * τ * w)) / (1 - y)
def etaXY (J w τ x y : ℂ) : ℂ :=
  J / w ^ 2 * ((cexp (-I * τ * w) + x * cexp (I * τ * w) - y - 1) / (1 - y) + I * τ * w)

theorem corrXY_diag (J w τ x : ℂ) : corrXY J w τ x x = corrThermalX J w τ x := rfl
theorem etaXY_diag (J w τ x : ℂ) : etaXY J w τ x x = etaThermalX J w τ x := rfl

/-- the clamp of the fall-back branch: `if expo.real < 0.0: expo = 1j * expo.imag` -/
def clampExpo (e : ℂ) : ℂ := if e.re < 0 then I * (e.im : ℂ) else e

theorem corr_thermal_eq_X (J w τ T : ℂ) :
    corr_thermal cFns J w τ T = corrThermalX J w τ (cexp (-w / T)) := by
  simp only [corr_thermal, corrThermalX, cFns, Int.cast_one]
  have : -(1 / T * w - I * τ * w) = -w / T + I * τ * w := by ring
  rw [this, Complex.exp_add]

theorem corr_zeroT_eq_X (J w τ T : ℂ) : corr_zeroT cFns J w τ T = corrThermalX J w τ 0 := by
  simp only [corr_zeroT, corrThermalX, cFns]
  have : -I * w * τ = -I * τ * w := by ring
  rw [this]; simp

/-- the fall-back branch, as written -/
theorem corr_guard_eq (J w τ T : ℂ) :
    corr_guard cFns J w τ T
      = J * (cexp (-I * w * τ) + cexp (-(clampExpo (1 / T * w - I * τ * w)))) := by
  simp only [corr_guard, cFns, clampExpo, Int.cast_one, Int.cast_zero, Complex.zero_re,
    Complex.ofReal_re, decide_eq_true_eq]

/-- … without the clamp it is the thermal expression with the stand-alone `e^{-ω/T}` dropped -/
theorem corr_guard_eq_XY (J w τ T : ℂ) (h : ¬ (1 / T * w - I * τ * w).re < 0) :
    corr_guard cFns J w τ T = corrXY J w τ (cexp (-w / T)) 0 := by
  rw [corr_guard_eq]
  simp only [clampExpo, if_neg h, corrXY, sub_zero, div_one]
  have h1 : -(1 / T * w - I * τ * w) = -w / T + I * τ * w := by ring
  have h2 : -I * w * τ = -I * τ * w := by ring
  rw [h1, h2, Complex.exp_add]

theorem corr_conj_thermal (J w τ T : ℝ) :
    corr_thermal cFns J w ((-τ : ℝ) : ℂ) T = conj (corr_thermal cFns (J : ℂ) w τ T) := by
  simp only [corr_thermal, cFns, Int.cast_one, map_div₀, map_mul, map_add, map_sub, map_neg, map_one,
    ← Complex.exp_conj, Complex.conj_ofReal, Complex.conj_I, Complex.ofReal_neg]
  congr 3 <;> ring_nf


/-- holds for the source's original form `(e^{-iτω} + e^{-(ω/T - iτω)} - e^{-ω/T} - 1)/(1 - e^{-ω/T})`
    and for the cancellation-free form `(expm1(-iτω) + e^{-ω/T} expm1(iτω))/(-expm1(-ω/T))` -/
theorem eta_thermal_eq_X (J w τ T : ℂ) :
    eta_thermal cFns J w τ T = etaThermalX J w τ (cexp (-w / T)) := by
  simp only [eta_thermal, etaThermalX, cFns, Int.cast_one]
  first
    | (have h : -(w / T - I * τ * w) = -w / T + I * τ * w := by ring
       rw [h, Complex.exp_add])
    | (have h : -(cexp (-w / T) - 1) = 1 - cexp (-w / T) := by ring
       rw [h]
       congr 3
       ring)

theorem eta_zeroT_eq_X (J w τ T : ℂ) : eta_zeroT cFns J w τ T = etaThermalX J w τ 0 := by
  simp only [eta_zeroT, etaThermalX, cFns, Int.cast_one]
  have h : -I * w * τ = -I * τ * w := by ring
  have h2 : I * w * τ = I * τ * w := by ring
  rw [h, h2]; simp

theorem eta_guard_eq (J w τ T : ℂ) :
    eta_guard cFns J w τ T
      = J / w ^ 2 * (cexp (-I * w * τ) + cexp (-(clampExpo (w / T - I * τ * w))) - 1 + I * w * τ) := by
  simp only [eta_guard, cFns, clampExpo, Int.cast_one, Int.cast_zero, Complex.zero_re,
    Complex.ofReal_re, decide_eq_true_eq]

theorem eta_guard_eq_XY (J w τ T : ℂ) (h : ¬ (w / T - I * τ * w).re < 0) :
    eta_guard cFns J w τ T = etaXY J w τ (cexp (-w / T)) 0 := by
  rw [eta_guard_eq]
  simp only [clampExpo, if_neg h, etaXY, sub_zero, div_one]
  have h1 : -(w / T - I * τ * w) = -w / T + I * τ * w := by ring
  have h2 : -I * w * τ = -I * τ * w := by ring
  have h3 : I * w * τ = I * τ * w := by ring
  rw [h1, h2, h3, Complex.exp_add]

/-- for real arguments the exponent of the fall-back branch has real part `ω/T` -/
theorem expo_re (w τ T : ℝ) : ((1 : ℂ) / T * w - I * τ * w).re = 1 / T * w := by
  simp [Complex.sub_re, Complex.mul_re]

theorem expo_re' (w τ T : ℝ) : ((w : ℂ) / T - I * τ * w).re = w / T := by
  have : (w : ℂ) / T = ((w / T : ℝ) : ℂ) := by push_cast; ring
  rw [this]
  simp [Complex.sub_re, Complex.mul_re]

/-- thermal minus fall-back: exactly the stand-alone `e^{-ω/T}` of the denominator -/
theorem corrXY_sub (J w τ x : ℂ) (hx : 1 - x ≠ 0) :
    corrXY J w τ x x - corrXY J w τ x 0
      = J * (cexp (-I * τ * w) + x * cexp (I * τ * w)) * x / (1 - x) := by
  simp only [corrXY]
  field_simp
  ring

theorem exp_pm (θ : ℝ) : cexp (I * θ) + cexp (-I * θ) = ((2 * Real.cos θ : ℝ) : ℂ) := by
  have h1 : I * (θ : ℂ) = θ * I := by ring
  have h2 : -I * (θ : ℂ) = ((-θ : ℝ) : ℂ) * I := by push_cast; ring
  rw [h1, h2, Complex.exp_mul_I, Complex.exp_mul_I]
  simp only [← Complex.ofReal_cos, ← Complex.ofReal_sin, Real.cos_neg, Real.sin_neg]
  push_cast; ring

theorem corr_docstring (J w τ x : ℝ) (hx : 1 - x ≠ 0) :
    corrThermalX J w τ x
      = J * (((1 + x) / (1 - x) * Real.cos (w * τ) : ℝ) - I * (Real.sin (w * τ) : ℝ)) := by
  simp only [corrThermalX]
  have h1 : I * (τ : ℂ) * w = ((w * τ : ℝ) : ℂ) * I := by push_cast; ring
  have h2 : -I * (τ : ℂ) * w = ((-(w * τ) : ℝ) : ℂ) * I := by push_cast; ring
  rw [h1, h2, Complex.exp_mul_I, Complex.exp_mul_I]
  simp only [← Complex.ofReal_cos, ← Complex.ofReal_sin, Real.cos_neg, Real.sin_neg]
  have hx' : (1 : ℂ) - x ≠ 0 := by exact_mod_cast hx
  push_cast
  field_simp
  ring

theorem etaXY_sub (J w τ x : ℂ) (hx : 1 - x ≠ 0) :
    etaXY J w τ x x - etaXY J w τ x 0
      = J / w ^ 2 * (x * (cexp (-I * τ * w) + x * cexp (I * τ * w) - 2) / (1 - x)) := by
  simp only [etaXY]
  field_simp
  ring

/-- the kernel of η: what `eta_function` returns is `-∫ eta_thermal`; for real arguments
    `-eta_thermal = J/ω² [coth(ω/2T)(1 − cos ωτ) − i(ωτ − sin ωτ)]` with `coth = (1+x)/(1−x)` -/
theorem eta_docstring (J w τ x : ℝ) (hx : 1 - x ≠ 0) :
    -etaThermalX J w τ x
      = (J / w ^ 2 : ℝ) * (((1 + x) / (1 - x) * (1 - Real.cos (w * τ)) : ℝ)
          - I * ((w * τ - Real.sin (w * τ) : ℝ))) := by
  simp only [etaThermalX]
  have h1 : I * (τ : ℂ) * w = ((w * τ : ℝ) : ℂ) * I := by push_cast; ring
  have h2 : -I * (τ : ℂ) * w = ((-(w * τ) : ℝ) : ℂ) * I := by push_cast; ring
  rw [h2, h1, Complex.exp_mul_I, Complex.exp_mul_I]
  simp only [← Complex.ofReal_cos, ← Complex.ofReal_sin, Real.cos_neg, Real.sin_neg]
  have hx' : (1 : ℂ) - x ≠ 0 := by exact_mod_cast hx
  push_cast
  field_simp
  ring

theorem re_aux (A B C : ℝ) : ((A : ℂ) * ((B : ℂ) - I * (C : ℂ))).re = A * B := by
  have : (A : ℂ) * ((B : ℂ) - I * (C : ℂ)) = ((A * B : ℝ) : ℂ) + ((-(A * C) : ℝ) : ℂ) * I := by
    push_cast; ring
  rw [this, Complex.add_re, Complex.ofReal_re, Complex.re_ofReal_mul]
  simp

theorem eta_re (J w τ x : ℝ) (hx : 1 - x ≠ 0) :
    (-etaThermalX J w τ x).re = J / w ^ 2 * ((1 + x) / (1 - x) * (1 - Real.cos (w * τ))) := by
  rw [eta_docstring J w τ x hx, re_aux]

theorem eta_re_nonneg (J w τ x : ℝ) (hJ : 0 ≤ J) (hx0 : 0 ≤ x) (hx1 : x < 1) :
    0 ≤ (-etaThermalX J w τ x).re := by
  rw [eta_re J w τ x (by linarith)]
  have h1 : 0 ≤ 1 - Real.cos (w * τ) := by linarith [Real.cos_le_one (w * τ)]
  have h2 : 0 ≤ (1 + x) / (1 - x) := div_nonneg (by linarith) (by linarith)
  have h3 : 0 ≤ J / w ^ 2 := div_nonneg hJ (sq_nonneg w)
  positivity

theorem exp_neg_div_mem (w T : ℝ) (hw : 0 < w) (hT : 0 < T) :
    0 < Real.exp (-w / T) ∧ Real.exp (-w / T) < 1 := by
  refine ⟨Real.exp_pos _, ?_⟩
  rw [Real.exp_lt_one_iff]
  have : 0 < w / T := div_pos hw hT
  rw [neg_div]; linarith

theorem norm_exp_I (θ : ℝ) : ‖cexp (I * θ)‖ = 1 := by
  have : I * (θ : ℂ) = θ * I := by ring
  rw [this, Complex.norm_exp_ofReal_mul_I]

/-- size of what the fall-back branch drops, real time -/
theorem corr_guard_error (J w τ x : ℝ) (hx0 : 0 ≤ x) (hx1 : x < 1) :
    ‖corrXY J w τ x x - corrXY J w τ x 0‖ ≤ |J| * ((1 + x) * x / (1 - x)) := by
  have h1x : 0 < 1 - x := by linarith
  have hx : (1 : ℂ) - x ≠ 0 := by
    have : (1 : ℝ) - x ≠ 0 := by linarith
    exact_mod_cast this
  rw [corrXY_sub _ _ _ _ hx]
  have h1 : I * (τ : ℂ) * w = I * ((τ * w : ℝ) : ℂ) := by push_cast; ring
  have h2 : -I * (τ : ℂ) * w = I * ((-(τ * w) : ℝ) : ℂ) := by push_cast; ring
  have hN : ‖cexp (-I * (τ : ℂ) * w) + (x : ℂ) * cexp (I * (τ : ℂ) * w)‖ ≤ 1 + x := by
    refine (norm_add_le _ _).trans ?_
    rw [norm_mul, h1, h2, norm_exp_I, norm_exp_I, Complex.norm_real, Real.norm_eq_abs,
      abs_of_nonneg hx0, mul_one]
  have hden : ‖(1 : ℂ) - x‖ = 1 - x := by
    have : (1 : ℂ) - x = ((1 - x : ℝ) : ℂ) := by push_cast; ring
    rw [this, Complex.norm_real, Real.norm_eq_abs, abs_of_pos h1x]
  rw [norm_div, norm_mul, norm_mul, hden, Complex.norm_real, Complex.norm_real, Real.norm_eq_abs,
    Real.norm_eq_abs, abs_of_nonneg hx0, div_le_iff₀ h1x]
  have : |J| * ((1 + x) * x / (1 - x)) * (1 - x) = |J| * (1 + x) * x := by field_simp
  rw [this]
  have hJ : 0 ≤ |J| := abs_nonneg J
  have := mul_le_mul_of_nonneg_left hN hJ
  nlinarith [mul_le_mul_of_nonneg_right this hx0]

/-- Matsubara: `tau = -1j * tau`; every exponent is real, so the integrand is real -/
theorem corr_matsubara_real (J w τ T : ℝ) :
    corr_thermal cFns J w (corr_tau cFns true τ) T
      = ((J * (Real.exp (-(τ * w)) + Real.exp (-(1 / T * w - τ * w))) / (1 - Real.exp (-w / T)) : ℝ) : ℂ) := by
  simp only [corr_thermal, corr_tau, cFns, Int.cast_one, if_true]
  have h1 : -I * (-I * (τ : ℂ)) * w = ((-(τ * w) : ℝ) : ℂ) := by
    push_cast; linear_combination ((τ : ℂ) * w) * Complex.I_mul_I
  have h2 : -(1 / (T : ℂ) * w - I * (-I * (τ : ℂ)) * w) = ((-(1 / T * w - τ * w) : ℝ) : ℂ) := by
    push_cast; linear_combination (-(τ : ℂ) * w) * Complex.I_mul_I
  have h3 : -(w : ℂ) / T = ((-w / T : ℝ) : ℂ) := by push_cast; ring
  rw [h1, h2, h3]
  simp only [← Complex.ofReal_exp]
  push_cast; ring

theorem etaX_matsubara_real (J w τ x : ℝ) :
    etaThermalX J w (-I * τ) x
      = ((J / w ^ 2 * ((Real.exp (-(τ * w)) + x * Real.exp (τ * w) - x - 1) / (1 - x) + τ * w) : ℝ) : ℂ) := by
  simp only [etaThermalX]
  have h1 : -I * (-I * (τ : ℂ)) * w = ((-(τ * w) : ℝ) : ℂ) := by
    push_cast; linear_combination ((τ : ℂ) * w) * Complex.I_mul_I
  have h4 : I * (-I * (τ : ℂ)) * w = ((τ * w : ℝ) : ℂ) := by
    push_cast; linear_combination (-(τ : ℂ) * w) * Complex.I_mul_I
  rw [h1, h4]
  simp only [← Complex.ofReal_exp]
  push_cast; ring

theorem eta_matsubara_real (J w τ T : ℝ) :
    eta_thermal cFns J w (eta_tau cFns true τ) T
      = ((J / w ^ 2 * ((Real.exp (-(τ * w)) + Real.exp (-w / T) * Real.exp (τ * w) - Real.exp (-w / T) - 1)
            / (1 - Real.exp (-w / T)) + τ * w) : ℝ) : ℂ) := by
  rw [eta_thermal_eq_X]
  have h3 : -(w : ℂ) / T = ((-w / T : ℝ) : ℂ) := by push_cast; ring
  have ht : eta_tau cFns true (τ : ℂ) = -I * τ := by simp [eta_tau, cFns]
  rw [h3, ← Complex.ofReal_exp, ht, etaX_matsubara_real]

theorem etaX_conj (J w τ x : ℝ) :
    etaThermalX J w ((-τ : ℝ) : ℂ) x = conj (etaThermalX (J : ℂ) w τ x) := by
  simp only [etaThermalX, map_div₀, map_mul, map_add, map_sub, map_neg, map_one,
    map_pow, ← Complex.exp_conj, Complex.conj_ofReal, Complex.conj_I, Complex.ofReal_neg]
  congr 2
  · congr 3
    all_goals ring_nf
  · ring

theorem eta_conj_thermal (J w τ T : ℝ) :
    eta_thermal cFns J w ((-τ : ℝ) : ℂ) T = conj (eta_thermal cFns (J : ℂ) w τ T) := by
  rw [eta_thermal_eq_X, eta_thermal_eq_X]
  have h3 : -(w : ℂ) / T = ((-w / T : ℝ) : ℂ) := by push_cast; ring
  rw [h3, ← Complex.ofReal_exp]
  exact etaX_conj J w τ _

theorem eta_conj_zeroT (J w τ T : ℝ) :
    eta_zeroT cFns J w ((-τ : ℝ) : ℂ) T = conj (eta_zeroT cFns (J : ℂ) w τ T) := by
  simp only [eta_zeroT, cFns, Int.cast_one, map_div₀, map_mul, map_add, map_sub, map_neg, map_one,
    map_pow, ← Complex.exp_conj, Complex.conj_ofReal, Complex.conj_I, Complex.ofReal_neg]
  congr 2
  · congr 2; ring_nf
  · ring

theorem corr_conj_zeroT (J w τ T : ℝ) :
    corr_zeroT cFns J w ((-τ : ℝ) : ℂ) T = conj (corr_zeroT cFns (J : ℂ) w τ T) := by
  simp only [corr_zeroT, cFns, map_mul, map_neg, ← Complex.exp_conj, Complex.conj_ofReal,
    Complex.conj_I, Complex.ofReal_neg]
  congr 2; ring

/-- `coth` written through `x = e^{-ω/T}` -/
theorem coth_form (y : ℝ) (hy : y ≠ 0) :
    (1 + Real.exp (-(2 * y))) / (1 - Real.exp (-(2 * y))) = Real.cosh y / Real.sinh y := by
  rw [Real.cosh_eq, Real.sinh_eq]
  have e2 : Real.exp (-(2 * y)) = Real.exp (-y) * Real.exp (-y) := by rw [← Real.exp_add]; ring_nf
  have e1 : Real.exp y * Real.exp (-y) = 1 := by rw [← Real.exp_add]; simp
  have hs : Real.exp y - Real.exp (-y) ≠ 0 := by
    intro h
    have : Real.exp y = Real.exp (-y) := by linarith
    have := Real.exp_injective this
    apply hy; linarith
  have hd : 1 - Real.exp (-(2 * y)) ≠ 0 := by
    intro h
    have : Real.exp (-(2 * y)) = Real.exp 0 := by rw [Real.exp_zero]; linarith
    have := Real.exp_injective this
    apply hy; linarith
  rw [div_eq_div_iff hd (by intro h; apply hs; linarith)]
  rw [e2]
  generalize Real.exp (-y) = b at *
  generalize Real.exp y = a at *
  linear_combination b * e1

/-- PowerLawSD's j-function -/
theorem powerlaw_j (α ζ ωc w : ℂ) :
    powerLawJ cFns α ζ ωc w = 2 * α * w ^ ζ * ωc ^ (1 - ζ) := by
  simp [powerLawJ, cFns]

theorem powerlaw_j_real (α ζ ωc w : ℝ) (hw : 0 ≤ w) (hc : 0 < ωc) :
    powerLawJ cFns α ζ ωc w = ((2 * α * w ^ ζ / ωc ^ (ζ - 1) : ℝ) : ℂ) := by
  rw [powerlaw_j]
  have h1 : (w : ℂ) ^ (ζ : ℂ) = ((w ^ ζ : ℝ) : ℂ) := (Complex.ofReal_cpow hw ζ).symm
  have h2 : (ωc : ℂ) ^ ((1 : ℂ) - ζ) = ((ωc ^ (1 - ζ) : ℝ) : ℂ) := by
    rw [Complex.ofReal_cpow hc.le]; push_cast; rfl
  rw [h1, h2]
  have : ωc ^ (1 - ζ) = (ωc ^ (ζ - 1))⁻¹ := by
    rw [← Real.rpow_neg hc.le]; congr 1; ring
  rw [this]; push_cast; ring

/-! ### the branch-selecting closures -/

/-- binary64 machine epsilon, `np.finfo(float).eps` -/
def eps64 : ℝ := 2 ^ (-52 : ℤ)

theorem guardQty_eq (w T : ℝ) : corr_guardQty cFns (w : ℂ) (T : ℂ) = ((Real.exp (-w / T) : ℝ) : ℂ) := by
  simp only [corr_guardQty, cFns]
  have : -(w : ℂ) / T = ((-w / T : ℝ) : ℂ) := by push_cast; ring
  rw [this, Complex.ofReal_exp]

theorem eta_guardQty_eq (w T : ℝ) : eta_guardQty cFns (w : ℂ) (T : ℂ) = ((Real.exp (-w / T) : ℝ) : ℂ) :=
  guardQty_eq w T

/-- model of the closure `integrand` built by `CustomSD.correlation` (spectral density `J`,
    temperature `T`, the possibly rotated `tau`) -/
def corrIntegrand (J : ℝ → ℝ) (T : ℝ) (τ : ℂ) (w : ℝ) : ℂ :=
  pick (decide (T = 0)) (decide (eps64 < (corr_guardQty cFns (w : ℂ) (T : ℂ)).re))
    (corr_zeroT cFns (J w) w τ T) (corr_thermal cFns (J w) w τ T) (corr_guard cFns (J w) w τ T)

/-- model of the closure `integrand` built by `CustomSD.eta_function` -/
def etaIntegrand (J : ℝ → ℝ) (T : ℝ) (τ : ℂ) (w : ℝ) : ℂ :=
  pick (decide (T = 0)) (decide (eps64 < (eta_guardQty cFns (w : ℂ) (T : ℂ)).re))
    (eta_zeroT cFns (J w) w τ T) (eta_thermal cFns (J w) w τ T) (eta_guard cFns (J w) w τ T)

theorem eps64_lt_one : eps64 < 1 := by
  unfold eps64
  rw [zpow_neg]
  exact inv_lt_one_of_one_lt₀ (by norm_num)

theorem eps64_pos : 0 < eps64 := by unfold eps64; positivity

/-- where the closures take the fall-back branch, `e^{-ω/T} ≤ eps < 1`, hence `ω/T > 0` -/
theorem guard_pos (w T : ℝ) (h : ¬ eps64 < Real.exp (-w / T)) : 0 < w / T := by
  have h1 : Real.exp (-w / T) < 1 := lt_of_le_of_lt (not_lt.mp h) eps64_lt_one
  rw [Real.exp_lt_one_iff, neg_div] at h1
  linarith

theorem guardQty_re (w T : ℝ) : (corr_guardQty cFns (w : ℂ) (T : ℂ)).re = Real.exp (-w / T) := by
  rw [guardQty_eq, Complex.ofReal_re]

theorem eta_guardQty_re (w T : ℝ) : (eta_guardQty cFns (w : ℂ) (T : ℂ)).re = Real.exp (-w / T) := by
  rw [eta_guardQty_eq, Complex.ofReal_re]

theorem ofReal_exp_neg_div (w T : ℝ) : cexp (-(w : ℂ) / T) = ((Real.exp (-w / T) : ℝ) : ℂ) := by
  have : -(w : ℂ) / T = ((-w / T : ℝ) : ℂ) := by push_cast; ring
  rw [this, Complex.ofReal_exp]

/-- the fall-back branch for real arguments with `ω/T ≥ 0` (no clamp) -/
theorem corr_guard_real (J w τ T : ℝ) (h : 0 ≤ w / T) :
    corr_guard cFns J w τ T = corrXY J w τ (Real.exp (-w / T) : ℝ) 0 := by
  rw [corr_guard_eq_XY, ofReal_exp_neg_div]
  rw [expo_re]
  have : 1 / T * w = w / T := by ring
  rw [this]; exact not_lt.mpr h

theorem eta_guard_real (J w τ T : ℝ) (h : 0 ≤ w / T) :
    eta_guard cFns J w τ T = etaXY J w τ (Real.exp (-w / T) : ℝ) 0 := by
  rw [eta_guard_eq_XY, ofReal_exp_neg_div]
  rw [expo_re']
  exact not_lt.mpr h

theorem corrXY_conj (J w τ x y : ℝ) :
    corrXY J w ((-τ : ℝ) : ℂ) x y = conj (corrXY (J : ℂ) w τ x y) := by
  simp only [corrXY, map_div₀, map_mul, map_add, map_sub, map_neg, map_one,
    ← Complex.exp_conj, Complex.conj_ofReal, Complex.conj_I, Complex.ofReal_neg]
  congr 3
  all_goals ring_nf

theorem etaXY_conj (J w τ x y : ℝ) :
    etaXY J w ((-τ : ℝ) : ℂ) x y = conj (etaXY (J : ℂ) w τ x y) := by
  simp only [etaXY, map_div₀, map_mul, map_add, map_sub, map_neg, map_one,
    map_pow, ← Complex.exp_conj, Complex.conj_ofReal, Complex.conj_I, Complex.ofReal_neg]
  congr 2
  · congr 3
    all_goals ring_nf
  · ring

theorem corr_conj_integrand (J : ℝ → ℝ) (T τ w : ℝ) :
    corrIntegrand J T ((-τ : ℝ) : ℂ) w = conj (corrIntegrand J T τ w) := by
  unfold corrIntegrand pick
  split_ifs with h0 hg
  · exact corr_conj_zeroT _ _ _ _
  · exact corr_conj_thermal _ _ _ _
  · have hpos : 0 ≤ w / T := by
      apply le_of_lt
      apply guard_pos
      simpa [guardQty_re] using hg
    rw [corr_guard_real _ _ _ _ hpos, corr_guard_real _ _ _ _ hpos]
    have h := corrXY_conj (J w) w τ (Real.exp (-w / T)) 0
    simpa using h

theorem eta_conj_integrand (J : ℝ → ℝ) (T τ w : ℝ) :
    etaIntegrand J T ((-τ : ℝ) : ℂ) w = conj (etaIntegrand J T τ w) := by
  unfold etaIntegrand pick
  split_ifs with h0 hg
  · exact eta_conj_zeroT _ _ _ _
  · exact eta_conj_thermal _ _ _ _
  · have hpos : 0 ≤ w / T := by
      apply le_of_lt
      apply guard_pos
      simpa [eta_guardQty_re] using hg
    rw [eta_guard_real _ _ _ _ hpos, eta_guard_real _ _ _ _ hpos]
    have h := etaXY_conj (J w) w τ (Real.exp (-w / T)) 0
    simpa using h

/-- the η kernel with the two occurrences of `e^{-ω/T}` separated, real arguments:
    `-etaXY = J/ω² [ (1 + y − (1+x) cos ωτ)/(1−y) − i(ωτ − (1−x)/(1−y) sin ωτ) ]` -/
theorem etaXY_docstring (J w τ x y : ℝ) (hy : 1 - y ≠ 0) :
    -etaXY J w τ x y
      = (J / w ^ 2 : ℝ) * (((1 + y - (1 + x) * Real.cos (w * τ)) / (1 - y) : ℝ)
          - I * ((w * τ - (1 - x) / (1 - y) * Real.sin (w * τ) : ℝ))) := by
  simp only [etaXY]
  have h1 : I * (τ : ℂ) * w = ((w * τ : ℝ) : ℂ) * I := by push_cast; ring
  have h2 : -I * (τ : ℂ) * w = ((-(w * τ) : ℝ) : ℂ) * I := by push_cast; ring
  rw [h2, h1, Complex.exp_mul_I, Complex.exp_mul_I]
  simp only [← Complex.ofReal_cos, ← Complex.ofReal_sin, Real.cos_neg, Real.sin_neg]
  have hy' : (1 : ℂ) - y ≠ 0 := by exact_mod_cast hy
  push_cast
  field_simp
  ring

/-- fall-back branch: `Re(−integrand) = J/ω² (1 − cos ωτ − x cos ωτ) ≥ −x J/ω²` -/
theorem etaXY_guard_re_lower (J w τ x : ℝ) (hJ : 0 ≤ J) (hx0 : 0 ≤ x) :
    -(J / w ^ 2 * x) ≤ (-etaXY J w τ x 0).re := by
  have h := etaXY_docstring J w τ x 0 (by norm_num)
  have h' : -etaXY (J : ℂ) w τ x ((0 : ℝ) : ℂ) = _ := h
  rw [Complex.ofReal_zero] at h'
  rw [h', re_aux]
  have hc : Real.cos (w * τ) ≤ 1 := Real.cos_le_one _
  have hc' : -1 ≤ Real.cos (w * τ) := Real.neg_one_le_cos _
  have h3 : 0 ≤ J / w ^ 2 := div_nonneg hJ (sq_nonneg w)
  have : -x ≤ (1 + 0 - (1 + x) * Real.cos (w * τ)) / (1 - 0) := by
    rw [sub_zero, div_one]; nlinarith
  calc -(J / w ^ 2 * x) = J / w ^ 2 * (-x) := by ring
    _ ≤ J / w ^ 2 * ((1 + 0 - (1 + x) * Real.cos (w * τ)) / (1 - 0)) :=
        mul_le_mul_of_nonneg_left this h3

/-- `Re` of what `eta_function` integrates (`-integrand`, because it returns `-integral`), for a
    non-negative spectral density: non-negative in the zero-temperature and thermal branches,
    and `≥ −eps·J/ω²` in the large-frequency fall-back branch (which keeps `x·e^{iτω}` but not the
    `−x` that cancels it at `τ = 0`) -/
theorem eta_re_integrand_lower (J : ℝ → ℝ) (T τ w : ℝ) (hT : 0 ≤ T) (hw : 0 < w) (hJ : 0 ≤ J w) :
    -(J w / w ^ 2 * eps64) ≤ (-etaIntegrand J T τ w).re := by
  have h3 : 0 ≤ J w / w ^ 2 := div_nonneg hJ (sq_nonneg w)
  have hneg : -(J w / w ^ 2 * eps64) ≤ 0 := by
    have := mul_nonneg h3 eps64_pos.le
    linarith
  unfold etaIntegrand pick
  split_ifs with h0 hg
  · rw [eta_zeroT_eq_X]
    have := eta_re_nonneg (J w) w τ 0 hJ (le_refl _) (by norm_num)
    have h' : 0 ≤ (-etaThermalX (J w : ℂ) w τ ((0 : ℝ) : ℂ)).re := this
    rw [Complex.ofReal_zero] at h'
    linarith
  · have hT' : 0 < T := lt_of_le_of_ne hT (fun h => h0 (by simp [h]))
    obtain ⟨h1, h2⟩ := exp_neg_div_mem w T hw hT'
    rw [eta_thermal_eq_X, ofReal_exp_neg_div]
    have := eta_re_nonneg (J w) w τ _ hJ h1.le h2
    linarith
  · have hx : ¬ eps64 < Real.exp (-w / T) := by simpa [eta_guardQty_re] using hg
    have hpos : 0 ≤ w / T := (guard_pos w T hx).le
    rw [eta_guard_real _ _ _ _ hpos]
    have hlow := etaXY_guard_re_lower (J w) w τ (Real.exp (-w / T)) hJ (Real.exp_pos _).le
    have hx' : Real.exp (-w / T) ≤ eps64 := not_lt.mp hx
    have : J w / w ^ 2 * Real.exp (-w / T) ≤ J w / w ^ 2 * eps64 :=
      mul_le_mul_of_nonneg_left hx' h3
    linarith

/-- exact non-negativity outside the fall-back branch -/
theorem eta_re_integrand_nonneg (J : ℝ → ℝ) (T τ w : ℝ) (hT : 0 ≤ T) (hw : 0 < w) (hJ : 0 ≤ J w)
    (hb : T = 0 ∨ eps64 < Real.exp (-w / T)) :
    0 ≤ (-etaIntegrand J T τ w).re := by
  unfold etaIntegrand pick
  split_ifs with h0 hg
  · rw [eta_zeroT_eq_X]
    have := eta_re_nonneg (J w) w τ 0 hJ (le_refl _) (by norm_num)
    have h' : 0 ≤ (-etaThermalX (J w : ℂ) w τ ((0 : ℝ) : ℂ)).re := this
    rw [Complex.ofReal_zero] at h'
    exact h'
  · have hT' : 0 < T := lt_of_le_of_ne hT (fun h => h0 (by simp [h]))
    obtain ⟨h1, h2⟩ := exp_neg_div_mem w T hw hT'
    rw [eta_thermal_eq_X, ofReal_exp_neg_div]
    exact eta_re_nonneg (J w) w τ _ hJ h1.le h2
  · exfalso
    rcases hb with hb | hb
    · exact h0 (by simp [hb])
    · exact hg (by simpa [eta_guardQty_re] using hb)

/-! ### imaginary time -/

theorem clampExpo_ofReal (r : ℝ) : clampExpo (r : ℂ) = ((max r 0 : ℝ) : ℂ) := by
  unfold clampExpo
  simp only [Complex.ofReal_re, Complex.ofReal_im]
  split_ifs with h
  · simp [max_eq_right h.le]
  · rw [max_eq_left (not_lt.mp h)]

theorem corr_guard_matsubara_real (J w τ T : ℝ) :
    corr_guard cFns J w (corr_tau cFns true τ) T
      = ((J * (Real.exp (-(w * τ)) + Real.exp (-(max (1 / T * w - τ * w) 0))) : ℝ) : ℂ) := by
  rw [corr_guard_eq]
  have ht : corr_tau cFns true (τ : ℂ) = -I * τ := by simp [corr_tau, cFns]
  rw [ht]
  have h1 : -I * (w : ℂ) * (-I * (τ : ℂ)) = ((-(w * τ) : ℝ) : ℂ) := by
    push_cast; linear_combination ((w : ℂ) * τ) * Complex.I_mul_I
  have h2 : (1 : ℂ) / T * w - I * (-I * (τ : ℂ)) * w = ((1 / T * w - τ * w : ℝ) : ℂ) := by
    push_cast; linear_combination ((τ : ℂ) * w) * Complex.I_mul_I
  rw [h1, h2, clampExpo_ofReal, ← Complex.ofReal_neg, ← Complex.ofReal_exp, ← Complex.ofReal_exp]
  push_cast; ring

theorem eta_guard_matsubara_real (J w τ T : ℝ) :
    eta_guard cFns J w (eta_tau cFns true τ) T
      = ((J / w ^ 2 * (Real.exp (-(w * τ)) + Real.exp (-(max (w / T - τ * w) 0)) - 1 + w * τ) : ℝ) : ℂ) := by
  rw [eta_guard_eq]
  have ht : eta_tau cFns true (τ : ℂ) = -I * τ := by simp [eta_tau, cFns]
  rw [ht]
  have h1 : -I * (w : ℂ) * (-I * (τ : ℂ)) = ((-(w * τ) : ℝ) : ℂ) := by
    push_cast; linear_combination ((w : ℂ) * τ) * Complex.I_mul_I
  have h2 : (w : ℂ) / T - I * (-I * (τ : ℂ)) * w = ((w / T - τ * w : ℝ) : ℂ) := by
    push_cast; linear_combination ((τ : ℂ) * w) * Complex.I_mul_I
  have h3 : I * (w : ℂ) * (-I * (τ : ℂ)) = ((w * τ : ℝ) : ℂ) := by
    push_cast; linear_combination (-(w : ℂ) * τ) * Complex.I_mul_I
  rw [h1, h2, h3, clampExpo_ofReal, ← Complex.ofReal_neg, ← Complex.ofReal_exp, ← Complex.ofReal_exp]
  push_cast; ring

/-- Matsubara (`T ≠ 0` is enforced by `check_true`): the closures are real-valued -/
theorem corr_matsubara_im (J : ℝ → ℝ) (T τ w : ℝ) (hT : T ≠ 0) :
    (corrIntegrand J T (corr_tau cFns true τ) w).im = 0 := by
  unfold corrIntegrand pick
  split_ifs with h0 hg
  · exact absurd (by simpa using h0) hT
  · rw [corr_matsubara_real]; exact Complex.ofReal_im _
  · rw [corr_guard_matsubara_real]; exact Complex.ofReal_im _

theorem eta_matsubara_im (J : ℝ → ℝ) (T τ w : ℝ) (hT : T ≠ 0) :
    (etaIntegrand J T (eta_tau cFns true τ) w).im = 0 := by
  unfold etaIntegrand pick
  split_ifs with h0 hg
  · exact absurd (by simpa using h0) hT
  · rw [eta_matsubara_real]; exact Complex.ofReal_im _
  · rw [eta_guard_matsubara_real]; exact Complex.ofReal_im _

/-- imaginary time `τ ∈ [0, β]`: what the fall-back branch drops is
    `J (e^{-ωτ} + e^{-ω(β-τ)}) x/(1-x)`, at most `2x/(1-x)·|J|` — uniformly up to `τ = β`
    (the kept part is `J (e^{-ωτ} + e^{-ω(β-τ)})`, symmetric under `τ ↦ β − τ`) -/
theorem corr_guard_error_matsubara (J w τ T : ℝ) (hw : 0 ≤ w) (hτ0 : 0 ≤ τ) (hτ1 : τ * w ≤ w / T)
    (hx1 : Real.exp (-w / T) < 1) :
    ‖corrXY J w (-I * τ) (Real.exp (-w / T) : ℝ) (Real.exp (-w / T) : ℝ)
        - corrXY J w (-I * τ) (Real.exp (-w / T) : ℝ) 0‖
      ≤ |J| * (2 * Real.exp (-w / T) / (1 - Real.exp (-w / T))) := by
  set x := Real.exp (-w / T) with hxdef
  have hx0 : 0 ≤ x := (Real.exp_pos _).le
  have h1x : 0 < 1 - x := by linarith
  have hx : (1 : ℂ) - x ≠ 0 := by
    have : (1 : ℝ) - x ≠ 0 := by linarith
    exact_mod_cast this
  rw [corrXY_sub _ _ _ _ hx]
  have h1 : I * (-I * (τ : ℂ)) * w = ((τ * w : ℝ) : ℂ) := by
    push_cast; linear_combination (-(τ : ℂ) * w) * Complex.I_mul_I
  have h2 : -I * (-I * (τ : ℂ)) * w = ((-(τ * w) : ℝ) : ℂ) := by
    push_cast; linear_combination ((τ : ℂ) * w) * Complex.I_mul_I
  rw [h1, h2, ← Complex.ofReal_exp, ← Complex.ofReal_exp]
  have hA : Real.exp (-(τ * w)) ≤ 1 := by
    rw [Real.exp_le_one_iff]; have := mul_nonneg hτ0 hw; linarith
  have hB : x * Real.exp (τ * w) ≤ 1 := by
    rw [hxdef, ← Real.exp_add, Real.exp_le_one_iff, neg_div]; linarith
  have hB0 : 0 ≤ x * Real.exp (τ * w) := mul_nonneg hx0 (Real.exp_pos _).le
  have : (J : ℂ) * (((Real.exp (-(τ * w)) : ℝ) : ℂ) + (x : ℂ) * ((Real.exp (τ * w) : ℝ) : ℂ)) * x / (1 - x)
      = ((J * (Real.exp (-(τ * w)) + x * Real.exp (τ * w)) * x / (1 - x) : ℝ) : ℂ) := by
    push_cast; ring
  rw [this, Complex.norm_real, Real.norm_eq_abs, abs_div, abs_mul, abs_mul, abs_of_nonneg hx0,
    abs_of_pos h1x, abs_of_nonneg (by positivity : (0:ℝ) ≤ Real.exp (-(τ * w)) + x * Real.exp (τ * w)),
    div_le_iff₀ h1x]
  have e : |J| * (2 * x / (1 - x)) * (1 - x) = |J| * 2 * x := by field_simp
  rw [e]
  have hJ : 0 ≤ |J| := abs_nonneg J
  have hs : Real.exp (-(τ * w)) + x * Real.exp (τ * w) ≤ 2 := by linarith
  have := mul_le_mul_of_nonneg_left hs hJ
  nlinarith [mul_le_mul_of_nonneg_right this hx0]
end
end OQuPyVerif.BathCorrLemmas
