/- Helper lemmas about the correlation-bookkeeping model (used by Props/C07). -/
import OQuPyVerif.Model.Correlations
import Mathlib.Data.List.Forall2
import Mathlib.Data.List.Basic
import Mathlib.Tactic.Linarith

namespace OQuPyVerif.Correlations
open OQuPyVerif.Generated.CorrTimes

/-- a step tuple is time ordered: non-decreasing (an operator applied at the step of a later
    one acts first — the API's `times_a <= times_b`). -/
def TimeOrdered (s : List Int) : Prop := s.Pairwise (· ≤ ·)

instance (s : List Int) : Decidable (TimeOrdered s) := by unfold TimeOrdered; infer_instance

/-- `e` lists, per operator, an index into that operator's axis together with the step
    found there -/
def Picks (steps : List (List Int)) (e : List (Nat × Int)) : Prop :=
  List.Forall₂ (fun t ix => t[ix.1]? = some ix.2) steps e

/-! ### sorting -/

theorem mem_insertSorted (x y : Int) (l : List Int) :
    y ∈ insertSorted x l ↔ y = x ∨ y ∈ l := by
  induction l with
  | nil => simp [insertSorted]
  | cons z zs ih =>
    unfold insertSorted
    split
    · simp
    · simp [ih]; tauto

theorem insertSorted_pairwise (x : Int) (l : List Int) (h : l.Pairwise (· ≤ ·)) :
    (insertSorted x l).Pairwise (· ≤ ·) := by
  induction l with
  | nil => simp [insertSorted]
  | cons z zs ih =>
    unfold insertSorted
    rw [List.pairwise_cons] at h
    split
    · rename_i hxz
      refine List.pairwise_cons.2 ⟨?_, List.pairwise_cons.2 h⟩
      intro a ha
      rcases List.mem_cons.1 ha with rfl | ha
      · exact hxz
      · exact le_trans hxz (h.1 a ha)
    · rename_i hxz
      refine List.pairwise_cons.2 ⟨?_, ih h.2⟩
      intro a ha
      rcases (mem_insertSorted x a zs).1 ha with rfl | ha
      · omega
      · exact h.1 a ha

theorem pySorted_pairwise (l : List Int) : (pySorted l).Pairwise (· ≤ ·) := by
  induction l with
  | nil => simp [pySorted]
  | cons x xs ih => exact insertSorted_pairwise x _ ih

theorem insertSorted_of_le (x : Int) (l : List Int) (h : ∀ a ∈ l, x ≤ a) :
    insertSorted x l = x :: l := by
  cases l with
  | nil => rfl
  | cons z zs => unfold insertSorted; simp [h z (by simp)]

theorem pySorted_of_pairwise (l : List Int) (h : l.Pairwise (· ≤ ·)) : pySorted l = l := by
  induction l with
  | nil => rfl
  | cons x xs ih =>
    rw [List.pairwise_cons] at h
    simp only [pySorted]
    rw [ih h.2]
    exact insertSorted_of_le x xs h.1

theorem orderOkWith_exact_iff (f : List Int) : orderOkWith true f = true ↔ TimeOrdered f := by
  unfold orderOkWith TimeOrdered
  simp only [if_true, beq_iff_eq]
  constructor
  · intro h; rw [h]; exact pySorted_pairwise f
  · intro h; exact (pySorted_of_pairwise f h).symm

/-! ### maximum of the earlier steps -/

theorem foldl_max_le (xs : List Int) (x l : Int) :
    xs.foldl max x ≤ l ↔ x ≤ l ∧ ∀ y ∈ xs, y ≤ l := by
  induction xs generalizing x with
  | nil => simp
  | cons y ys ih =>
    simp only [List.foldl_cons, ih, List.mem_cons, forall_eq_or_imp]
    constructor
    · rintro ⟨h1, h2⟩; exact ⟨(max_le_iff.1 h1).1, (max_le_iff.1 h1).2, h2⟩
    · rintro ⟨h1, h2, h3⟩; exact ⟨max_le h1 h2, h3⟩

theorem ftMax?_le_iff (f : List Int) (m l : Int) (h : ftMax? f = some m) :
    m ≤ l ↔ ∀ x ∈ f, x ≤ l := by
  cases f with
  | nil => simp [ftMax?] at h
  | cons x xs =>
    simp only [ftMax?, Option.some.injEq] at h
    subst h
    simp [foldl_max_le]

theorem ftMax?_isSome (f : List Int) (h : f ≠ []) : ∃ m, ftMax? f = some m := by
  cases f with
  | nil => exact absurd rfl h
  | cons x xs => exact ⟨_, rfl⟩

/-! ### itertools.product -/

theorem mem_product {α} (L : List (List α)) (e : List α) :
    e ∈ product L ↔ List.Forall₂ (fun x t => x ∈ t) e L := by
  induction L generalizing e with
  | nil => simp [product]
  | cons a as ih =>
    simp only [product, List.mem_flatMap, List.mem_map]
    constructor
    · rintro ⟨x, hx, r, hr, rfl⟩
      exact List.Forall₂.cons hx ((ih r).1 hr)
    · intro h
      cases h with
      | cons hx hr => exact ⟨_, hx, _, (ih _).2 hr, rfl⟩

theorem product_map {α β} (g : α → β) (L : List (List α)) :
    product (L.map (List.map g)) = (product L).map (List.map g) := by
  induction L with
  | nil => simp [product]
  | cons a as ih =>
    simp only [List.map_cons, product, ih, List.flatMap_map, List.map_flatMap, List.map_map]
    rfl

theorem length_of_mem_product {α} (L : List (List α)) (e : List α) (h : e ∈ product L) :
    e.length = L.length := ((mem_product L e).1 h).length_eq

theorem enum_map_fst {α} (l : List α) : (enum l).map Prod.fst = List.range l.length := by
  unfold enum
  exact List.map_fst_zip (by simp)

theorem enum_map_snd {α} (l : List α) : (enum l).map Prod.snd = l := by
  unfold enum
  exact List.map_snd_zip (by simp)

theorem mem_enum {α} (l : List α) (i : Nat) (x : α) : (i, x) ∈ enum l ↔ l[i]? = some x := by
  unfold enum
  rw [List.mem_iff_getElem?]
  simp only [List.getElem?_zip_eq_some]
  constructor
  · rintro ⟨k, hk, hx⟩
    obtain ⟨h1, h2⟩ := List.getElem?_eq_some_iff.1 hk
    simp at h2
    subst h2
    exact hx
  · intro h
    obtain ⟨h1, _⟩ := List.getElem?_eq_some_iff.1 h
    exact ⟨i, by simp [h1], h⟩

theorem schedule_eq (firsts : List (List Int)) :
    schedule firsts =
      (product (firsts.map enum)).map (fun e => (e.map Prod.snd, e.map Prod.fst)) := by
  unfold schedule
  have h1 : firsts = (firsts.map enum).map (List.map Prod.snd) := by
    rw [List.map_map]
    conv_lhs => rw [← List.map_id firsts]
    apply List.map_congr_left
    intro t _
    simp [enum_map_snd]
  have h2 : firsts.map (fun t => List.range t.length) = (firsts.map enum).map (List.map Prod.fst) := by
    rw [List.map_map]
    apply List.map_congr_left
    intro t _
    simp [enum_map_fst]
  conv_lhs => rw [h2, product_map]; arg 1; rw [h1, product_map]
  rw [List.zip_map']

theorem forall₂_enum_iff_picks (firsts : List (List Int)) (e : List (Nat × Int)) :
    List.Forall₂ (fun x t => x ∈ t) e (firsts.map enum) ↔ Picks firsts e := by
  unfold Picks
  rw [List.forall₂_map_right_iff]
  constructor
  · intro h
    have h' := h.imp (S := fun (a : Nat × Int) (b : List Int) => b[a.1]? = some a.2)
      (fun a b hab => (mem_enum b a.1 a.2).1 hab)
    exact List.Forall₂.flip h'
  · intro h
    have h' := h.imp (S := fun (a : List Int) (b : Nat × Int) => b ∈ enum a)
      (fun a b hab => (mem_enum a b.1 b.2).2 hab)
    exact List.Forall₂.flip h'

/-! ### selection of the later times by the mask -/

theorem zip_filter_snd {α β} (q : β → Bool) :
    ∀ (a : List α) (b : List β), a.length = b.length →
      (((a.zip b).filter (fun p => q p.2)).map (fun p => p.1)).zip (b.filter q)
        = (a.zip b).filter (fun p => q p.2)
  | [], [], _ => by simp
  | x :: a, y :: b, h => by
    have ih := zip_filter_snd q a b (by simpa using h)
    by_cases hq : q y = true
    · simp [List.zip_cons_cons, hq, ih]
    · simp [List.zip_cons_cons, hq, ih]
  | [], _ :: _, h => by simp at h
  | _ :: _, [], h => by simp at h

theorem filter_zip_eq_nil {α β} (q : β → Bool) :
    ∀ (a : List α) (b : List β), a.length = b.length →
      ((a.zip b).filter (fun p => q p.2) = [] ↔ b.filter q = [])
  | [], [], _ => by simp
  | x :: a, y :: b, h => by
    have ih := filter_zip_eq_nil q a b (by simpa using h)
    by_cases hq : q y = true
    · simp [hq]
    · simp [hq, ih]
  | [], _ :: _, h => by simp at h
  | _ :: _, [], h => by simp at h

/-- with the mask selection, the written (index, step) pairs are exactly the later times
    that are `≥ m`, each with its own index; `none` only when there is none. -/
theorem lastSelWith_mask (m : Int) (last : List Int) :
    lastSelWith true m last =
      if last.any (fun l => decide (m > l)) ∧ (enum last).filter (fun p => decide (p.2 ≥ m)) = []
      then none else some ((enum last).filter (fun p => decide (p.2 ≥ m))) := by
  unfold lastSelWith enum last_drop_trigger last_keep
  simp only [if_true]
  have hlen : (List.range last.length).length = last.length := by simp
  by_cases hany : (last.any fun l => decide (m > l)) = true
  · simp only [hany, if_true, true_and]
    rw [zip_filter_snd (fun l => decide (l ≥ m)) _ _ hlen]
    have := filter_zip_eq_nil (fun l => decide (l ≥ m)) (List.range last.length) last hlen
    by_cases hnil : last.filter (fun l => decide (l ≥ m)) = []
    · simp [hnil, this.2 hnil]
    · have h2 : ¬ ((List.range last.length).zip last).filter (fun p => decide (p.2 ≥ m)) = [] :=
        fun hc => hnil (this.1 hc)
      simp [hnil, h2]
  · simp only [hany, Bool.false_eq_true, if_false, false_and]
    congr 1
    symm
    rw [List.filter_eq_self]
    intro p hp
    have hmem : p.2 ∈ last := (List.of_mem_zip hp).2
    simp only [List.any_eq_true, not_exists, not_and, decide_eq_true_eq] at hany
    have := hany p.2 hmem
    simp only [decide_eq_true_eq]
    omega

theorem mem_lastSel_mask (m : Int) (last : List Int) (sel : List (Nat × Int))
    (h : lastSelWith true m last = some sel) (j : Nat) (l : Int) :
    (j, l) ∈ sel ↔ last[j]? = some l ∧ m ≤ l := by
  rw [lastSelWith_mask] at h
  split at h
  · cases h
  · simp only [Option.some.injEq] at h
    subst h
    simp [List.mem_filter, mem_enum]

theorem lastSel_mask_none (m : Int) (last : List Int) (h : lastSelWith true m last = none)
    (j : Nat) (l : Int) (hj : last[j]? = some l) : ¬ m ≤ l := by
  rw [lastSelWith_mask] at h
  split at h
  · rename_i hc
    intro hml
    have : (j, l) ∈ (enum last).filter (fun p => decide (p.2 ≥ m)) := by
      simp [List.mem_filter, mem_enum, hj, hml]
    rw [hc.2] at this
    cases this
  · cases h

/-! ### the array entry -/

theorem entryOf_some (ws : List Write) (ι : List Nat) (s : List Int)
    (h : entryOf ws ι = some s) : (ι, s) ∈ ws := by
  unfold entryOf at h
  rw [Option.map_eq_some_iff] at h
  obtain ⟨w, hw, rfl⟩ := h
  have h1 := List.find?_some hw
  have h2 := List.mem_of_find?_eq_some hw
  simp only [beq_iff_eq] at h1
  rw [List.mem_reverse] at h2
  rw [← h1]
  exact h2

theorem entryOf_none (ws : List Write) (ι : List Nat) (h : entryOf ws ι = none)
    (s : List Int) : (ι, s) ∉ ws := by
  unfold entryOf at h
  rw [Option.map_eq_none_iff, List.find?_eq_none] at h
  intro hc
  have := h (ι, s) (List.mem_reverse.2 hc)
  simp at this

/-! ### parseAll -/

theorem parseAll_ok (maxStep : Int) (dt start : Rat) :
    ∀ (specs : List TimeSpec) (steps : List (List Int)),
      parseAll maxStep dt start specs = .ok steps →
      List.Forall₂ (fun sp st => parseTimes maxStep dt start sp = .ok st) specs steps
  | [], steps, h => by
    simp only [parseAll, Except.ok.injEq] at h
    subst h
    exact List.Forall₂.nil
  | sp :: sps, steps, h => by
    simp only [parseAll] at h
    split at h
    · cases h
    · rename_i r hr
      split at h
      · cases h
      · rename_i rs hrs
        simp only [Except.ok.injEq] at h
        subst h
        exact List.Forall₂.cons hr (parseAll_ok maxStep dt start sps rs hrs)

/-! ### Picks -/

theorem picks_append_singleton {steps : List (List Int)} {last : List Int}
    {e' : List (Nat × Int)} (h : Picks (steps ++ [last]) e') :
    ∃ e x, e' = e ++ [x] ∧ Picks steps e ∧ last[x.1]? = some x.2 := by
  unfold Picks at *
  induction steps generalizing e' with
  | nil =>
    simp only [List.nil_append] at h
    cases h with
    | cons hx hr =>
      cases hr
      exact ⟨[], _, rfl, List.Forall₂.nil, hx⟩
  | cons t ts ih =>
    simp only [List.cons_append] at h
    cases h with
    | cons hx hr =>
      obtain ⟨e, x, rfl, he, hl⟩ := ih hr
      exact ⟨_ :: e, x, rfl, List.Forall₂.cons hx he, hl⟩

theorem picks_append {steps : List (List Int)} {last : List Int} {e : List (Nat × Int)}
    {x : Nat × Int} (he : Picks steps e) (hx : last[x.1]? = some x.2) :
    Picks (steps ++ [last]) (e ++ [x]) := by
  unfold Picks at *
  exact List.rel_append he (List.Forall₂.cons hx List.Forall₂.nil)

theorem picks_snd_unique {steps : List (List Int)} {e₁ e₂ : List (Nat × Int)}
    (h₁ : Picks steps e₁) (h₂ : Picks steps e₂) (hf : e₁.map Prod.fst = e₂.map Prod.fst) :
    e₁.map Prod.snd = e₂.map Prod.snd := by
  unfold Picks at *
  induction h₁ generalizing e₂ with
  | nil => cases h₂; rfl
  | cons hx _ ih =>
    cases h₂ with
    | cons hy hr =>
      simp only [List.map_cons, List.cons.injEq] at hf ⊢
      refine ⟨?_, ih hr hf.2⟩
      rw [hf.1, hy] at hx
      exact (Option.some.inj hx).symm

theorem picks_mem_product {firsts : List (List Int)} {e : List (Nat × Int)}
    (h : Picks firsts e) : e.map Prod.snd ∈ product firsts := by
  rw [mem_product, List.forall₂_map_left_iff]
  unfold Picks at h
  exact List.Forall₂.flip (h.imp (fun a b hab => List.mem_of_getElem? hab))

theorem picks_length {steps : List (List Int)} {e : List (Nat × Int)} (h : Picks steps e) :
    e.length = steps.length := (List.Forall₂.length_eq h).symm

/-! ### the writes of the repaired loop -/

theorem timeOrdered_append_singleton (f : List Int) (l : Int) :
    TimeOrdered (f ++ [l]) ↔ TimeOrdered f ∧ ∀ x ∈ f, x ≤ l := by
  unfold TimeOrdered
  rw [List.pairwise_append]
  simp

/-- the order test of the current source is the exact one -/
theorem orderOk_iff (f : List Int) : orderOk f = true ↔ TimeOrdered f := by
  unfold orderOk
  rw [show (order_check == "exact") = true from by decide]
  exact orderOkWith_exact_iff f

/-- the current source selects the result indices by the mask -/
theorem lastSel_eq_mask (m : Int) (last : List Int) : lastSel m last = lastSelWith true m last := by
  unfold lastSel
  rw [show last_index_by_mask = true from rfl]

/-- Every assignment into the result array stores, at an index tuple that picks one entry
    per axis, the value of exactly the steps found at those indices, and only for
    time-ordered tuples; every such tuple is assigned. -/
theorem mem_allWrites_iff (firsts : List (List Int)) (last : List Int) (hne : firsts ≠ [])
    (w : Write) :
    w ∈ allWrites firsts last ↔
      ∃ (e : List (Nat × Int)) (j : Nat) (l : Int), Picks firsts e ∧ last[j]? = some l ∧
        TimeOrdered (e.map Prod.snd ++ [l]) ∧
        w = (e.map Prod.fst ++ [j], e.map Prod.snd ++ [l]) := by
  unfold allWrites
  rw [schedule_eq]
  simp only [List.mem_flatMap, List.mem_map]
  constructor
  · rintro ⟨fp, ⟨e, he, rfl⟩, hw⟩
    have hpicks : Picks firsts e := (forall₂_enum_iff_picks firsts e).1 ((mem_product _ _).1 he)
    unfold entryWrites at hw
    simp only at hw
    split at hw
    · rename_i hord
      split at hw
      · cases hw
      · rename_i m hm
        split at hw
        · cases hw
        · rename_i sel hsel
          rw [List.mem_map] at hw
          obtain ⟨⟨j, l⟩, hjl, rfl⟩ := hw
          rw [lastSel_eq_mask] at hsel
          have hmem := (mem_lastSel_mask m last sel hsel j l).1 hjl
          refine ⟨e, j, l, hpicks, hmem.1, ?_, rfl⟩
          rw [timeOrdered_append_singleton]
          exact ⟨(orderOk_iff _).1 hord, (ftMax?_le_iff _ m l hm).1 hmem.2⟩
    · cases hw
  · rintro ⟨e, j, l, hpicks, hjl, hord, rfl⟩
    rw [timeOrdered_append_singleton] at hord
    refine ⟨(e.map Prod.snd, e.map Prod.fst), ⟨e, ?_, rfl⟩, ?_⟩
    · exact (mem_product _ _).2 ((forall₂_enum_iff_picks firsts e).2 hpicks)
    · unfold entryWrites
      simp only
      rw [if_pos ((orderOk_iff _).2 hord.1)]
      have hfne : e.map Prod.snd ≠ [] := by
        intro hc
        have := picks_length hpicks
        rw [List.map_eq_nil_iff] at hc
        rw [hc] at this
        exact hne (List.length_eq_zero_iff.1 this.symm)
      obtain ⟨m, hm⟩ := ftMax?_isSome _ hfne
      rw [hm]
      simp only
      have hml : m ≤ l := (ftMax?_le_iff _ m l hm).2 hord.2
      rw [lastSel_eq_mask]
      cases hsel : lastSelWith true m last with
      | none => exact absurd hml (lastSel_mask_none m last hsel j l hjl)
      | some sel =>
        simp only
        rw [List.mem_map]
        exact ⟨(j, l), (mem_lastSel_mask m last sel hsel j l).2 ⟨hjl, hml⟩, rfl⟩

/-- when no `max()` of an empty array is reached there is at least one earlier operator -/
theorem firsts_ne_nil_of_not_raises (firsts : List (List Int)) (last : List Int)
    (h : raisesValue firsts last = false) : firsts ≠ [] := by
  intro hc
  subst hc
  have hnil : orderOk [] = true := (orderOk_iff []).2 (by simp [TimeOrdered])
  have : raisesValue [] last = true := by simp [raisesValue, product, hnil]
  rw [this] at h
  cases h

end OQuPyVerif.Correlations
