/- Alignment of `MeanFieldDynamics` under arbitrary (also out-of-order) `add` histories. -/
import OQuPyVerif.Model.MfDynamics
import OQuPyVerif.Lemmas.TimeGrid

namespace OQuPyVerif.MfDynamics
open OQuPyVerif.TimeGrid OQuPyVerif.Generated.DynamicsAdd

/-- what `MeanFieldDynamics.add` must do: time and field go to the SAME slot (the bisect
    position of the time in the old time list), and every system's dynamics gets its state -/
def mfAddSpec (s : MfSt) (t : Rat) (states : List Int) (f : Int) : MfSt :=
  let i := bisectRight s.times t
  { times := insertAt s.times i t, fields := insertAt s.fields i f,
    sys := delegateAdd s.sys t states, idx := i }

/-- the invariant for an object with `m` systems: times sorted; fields and every system's
    states on the same time axis (before the first `add` there are no per-system objects) -/
structure Aligned (m : Nat) (s : MfSt) : Prop where
  sorted : Sorted s.times
  flen : s.fields.length = s.times.length
  systimes : (s.sys = [] ∧ s.times = []) ∨
    (s.sys.length = m ∧ ∀ d ∈ s.sys, d.times = s.times ∧ d.states.length = s.times.length)

theorem aligned_empty (m : Nat) : Aligned m MfSt.empty :=
  ⟨by simp [MfSt.empty, Sorted], rfl, Or.inl ⟨rfl, rfl⟩⟩

theorem mem_zipWith_elim {α β γ} (f : α → β → γ) (l1 : List α) (l2 : List β) (c : γ)
    (h : c ∈ List.zipWith f l1 l2) : ∃ a ∈ l1, ∃ b ∈ l2, c = f a b := by
  induction l1 generalizing l2 with
  | nil => simp at h
  | cons a as ih =>
    cases l2 with
    | nil => simp at h
    | cons b bs =>
      simp only [List.zipWith_cons_cons, List.mem_cons] at h
      rcases h with rfl | h
      · exact ⟨a, by simp, b, by simp, rfl⟩
      · obtain ⟨a', ha', b', hb', hc⟩ := ih bs h
        exact ⟨a', by simp [ha'], b', by simp [hb'], hc⟩

theorem aligned_spec (m : Nat) (s : MfSt) (h : Aligned m s) (t : Rat) (states : List Int)
    (f : Int) (hn : states.length = m) :
    Aligned m (mfAddSpec s t states f) := by
  have hi := bisectRight_le s.times t
  refine ⟨insert_sorted _ _ h.sorted, ?_, ?_⟩
  · simp only [mfAddSpec]
    rw [insertAt_length _ _ _ (by rw [h.flen]; exact hi), insertAt_length _ _ _ hi, h.flen]
  · right
    simp only [mfAddSpec, delegateAdd]
    rcases h.systimes with ⟨hs, ht⟩ | ⟨hl, hall⟩
    · -- first call: the per-system objects are created
      simp only [hs, ht, List.isEmpty_nil, ite_true, List.length_map]
      refine ⟨hn, ?_⟩
      intro d hd
      obtain ⟨st, _, rfl⟩ := List.mem_map.mp hd
      simp [dynAdd, Dyn.empty, bisectRight, insertAt]
    · by_cases hemp : s.sys.isEmpty = true
      · -- m = 0: no systems at all
        have hs : s.sys = [] := by simpa using hemp
        simp only [hemp, ite_true, List.length_map]
        refine ⟨hn, ?_⟩
        intro d hd
        obtain ⟨st, hst, rfl⟩ := List.mem_map.mp hd
        rw [hs] at hl
        simp only [List.length_nil] at hl
        rw [← hl] at hn
        have : states = [] := List.eq_nil_of_length_eq_zero hn
        rw [this] at hst
        simp at hst
      · simp only [hemp, Bool.false_eq_true, ite_false]
        refine ⟨by simp [List.length_zipWith, hl, hn], ?_⟩
        intro d hd
        obtain ⟨d0, hd0, st, _, rfl⟩ := mem_zipWith_elim _ _ _ _ hd
        obtain ⟨ht0, hl0⟩ := hall d0 hd0
        constructor
        · rw [dynAdd_times_eq, ht0]
        · simp only [dynAdd]
          rw [insertAt_length _ _ _ (by rw [hl0, ← ht0]; exact bisectRight_le _ _),
              insertAt_length _ _ _ hi, hl0]
where
  dynAdd_times_eq {σ} {d : Dyn σ} {t : Rat} {x : σ} :
      (dynAdd d t x).times = insertAt d.times (bisectRight d.times t) t := rfl

/-- … for every history of `add` calls (any order of times) -/
theorem aligned_history (m : Nat) (hist : List (Rat × List Int × Int))
    (hlen : ∀ e ∈ hist, e.2.1.length = m) :
    Aligned m (hist.foldl (fun s e => mfAddSpec s e.1 e.2.1 e.2.2) MfSt.empty) := by
  suffices h : ∀ s, Aligned m s →
      Aligned m (hist.foldl (fun s e => mfAddSpec s e.1 e.2.1 e.2.2) s) from h _ (aligned_empty m)
  induction hist with
  | nil => intro s hs; exact hs
  | cons e es ih =>
    intro s hs
    simp only [List.foldl_cons]
    exact ih (fun x hx => hlen x (by simp [hx])) _
      (aligned_spec m s hs e.1 e.2.1 e.2.2 (hlen e (by simp)))

/-- the (time, field) pairs are exactly the ones added -/
theorem fields_pairs_spec (s : MfSt) (h : s.fields.length = s.times.length) (t : Rat)
    (states : List Int) (f : Int) :
    ((mfAddSpec s t states f).times.zip (mfAddSpec s t states f).fields).Perm
      ((t, f) :: s.times.zip s.fields) := by
  simp only [mfAddSpec]
  rw [zip_insertAt _ _ _ _ _ h.symm]
  exact insertAt_perm _ _ _

end OQuPyVerif.MfDynamics
