/- Linearity of `pathState` in the test covector; covector preservation composes. -/
import OQuPyVerif.Lemmas.PathTrace

namespace OQuPyVerif.PathSum
open Finset BigOperators
variable {K : Type} [CommRing K]

theorem headD_lt_of_isPath {L n : ℕ} {p : List ℕ} (hp : IsPath L (n+1) p) : p.headD 0 < L := by
  obtain ⟨hlen, hmem⟩ := hp
  match p, hlen with
  | b :: rest, _ => exact hmem b (by simp)

/-- `pathState` only looks at the covector on the index range. -/
theorem pathState_congr (L : ℕ) (ρ0 : ℕ → K) (M : ℕ → ℕ → ℕ → K) (I : ℕ → ℕ → ℕ → ℕ → K)
    (n : ℕ) (φ ψ : ℕ → K) (h : ∀ a, a < L → φ a = ψ a) :
    pathState L ρ0 M I n φ = pathState L ρ0 M I n ψ := by
  unfold pathState
  apply pathSum_congr
  intro p hp
  rw [h _ (headD_lt_of_isPath hp)]

theorem pathState_finsum {ι : Type} (s : Finset ι) (L : ℕ) (ρ0 : ℕ → K) (M : ℕ → ℕ → ℕ → K)
    (I : ℕ → ℕ → ℕ → ℕ → K) (n : ℕ) (c : ι → K) (φ : ι → ℕ → K) :
    ∑ i ∈ s, c i * pathState L ρ0 M I n (φ i) =
      pathState L ρ0 M I n (fun a => ∑ i ∈ s, c i * φ i a) := by
  unfold pathState
  have : ∀ i ∈ s, c i * pathSum L (n+1) (fun p => φ i (p.headD 0) * weight ρ0 M I p)
      = pathSum L (n+1) (fun p => c i * φ i (p.headD 0) * weight ρ0 M I p) := by
    intro i _
    rw [← pathSum_mul_left]
    apply pathSum_congr; intro p _; ring
  rw [Finset.sum_congr rfl this, ← pathSum_finsum]
  apply pathSum_congr; intro p _
  rw [Finset.sum_mul]

/-- a table preserves a covector (on the index range) -/
def Preserves (L : ℕ) (tr : ℕ → K) (A : ℕ → ℕ → K) : Prop :=
  ∀ b, b < L → ∑ a ∈ range L, tr a * A a b = tr b

theorem preserves_matMul (L : ℕ) (tr : ℕ → K) (A B : ℕ → ℕ → K)
    (hA : Preserves L tr A) (hB : Preserves L tr B) : Preserves L tr (matMul L A B) := by
  intro b hb
  unfold matMul
  calc ∑ a ∈ range L, tr a * ∑ c ∈ range L, A a c * B c b
      = ∑ a ∈ range L, ∑ c ∈ range L, tr a * A a c * B c b := by
        apply Finset.sum_congr rfl; intro a _; rw [Finset.mul_sum]
        apply Finset.sum_congr rfl; intro c _; ring
    _ = ∑ c ∈ range L, (∑ a ∈ range L, tr a * A a c) * B c b := by
        rw [Finset.sum_comm]; apply Finset.sum_congr rfl; intro c _; rw [Finset.sum_mul]
    _ = ∑ c ∈ range L, tr c * B c b := by
        apply Finset.sum_congr rfl; intro c hc; rw [hA c (Finset.mem_range.mp hc)]
    _ = tr b := hB b hb

theorem preserves_kernelM (L : ℕ) (tr : ℕ → K) (P1 P2 : ℕ → ℕ → ℕ → K) (Uin Uout : ℕ → ℕ → K)
    (h1 : ∀ k, Preserves L tr (P1 k)) (h2 : ∀ k, Preserves L tr (P2 k))
    (hin : Preserves L tr Uin) (hout : Preserves L tr Uout) (k : ℕ) :
    Preserves L tr (kernelM L P1 P2 Uin Uout k) := by
  unfold kernelM
  split
  · exact preserves_matMul L tr _ _ hin (h1 k)
  · exact preserves_matMul L tr _ _ hin
      (preserves_matMul L tr _ _ (h1 k) (preserves_matMul L tr _ _ (h2 (k-1)) hout))

end OQuPyVerif.PathSum
