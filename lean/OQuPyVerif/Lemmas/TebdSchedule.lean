/- Schedule model of `apply_nn_gate_layer`: frame lemmas for `writeVals`, disjointness of the
   cells touched by gates two bonds apart, and the three execution modes agree on such layers. -/
import Mathlib.Data.List.Perm.Basic
import OQuPyVerif.Lemmas.TebdLayers

namespace OQuPyVerif.Tebd
open OQuPyVerif.Generated

variable {V : Type}

theorem writeVals_of_not_mem (st : Cell → V) (W : List Cell) (vals : List V) (c : Cell)
    (h : c ∉ W) : writeVals st W vals c = st c := by
  induction W generalizing st vals with
  | nil => cases vals <;> rfl
  | cons w W ih =>
    cases vals with
    | nil => rfl
    | cons v vs =>
      simp only [writeVals]
      rw [ih _ _ (fun hc => h (List.mem_cons_of_mem _ hc))]
      have hne : c ≠ w := fun hc => h (by rw [hc]; exact List.mem_cons_self ..)
      exact Function.update_of_ne hne _ _

/-- the value a cell holds after a write-back depends only on the value it held before -/
theorem writeVals_local (st st' : Cell → V) (W : List Cell) (vals : List V) (c : Cell)
    (h : st c = st' c) : writeVals st W vals c = writeVals st' W vals c := by
  induction W generalizing st st' vals with
  | nil => cases vals <;> exact h
  | cons w W ih =>
    cases vals with
    | nil => exact h
    | cons v vs =>
      simp only [writeVals]
      apply ih
      by_cases hc : c = w
      · subst hc; simp
      · rw [Function.update_of_ne hc, Function.update_of_ne hc, h]

/-- write-backs to disjoint cell lists commute -/
theorem writeVals_comm (st : Cell → V) (W1 W2 : List Cell) (v1 v2 : List V)
    (hd : ∀ c, c ∈ W1 → c ∉ W2) :
    writeVals (writeVals st W1 v1) W2 v2 = writeVals (writeVals st W2 v2) W1 v1 := by
  funext c
  by_cases h2 : c ∈ W2
  · have h1 : c ∉ W1 := fun h => hd c h h2
    rw [writeVals_of_not_mem _ W1 v1 c h1]
    exact writeVals_local _ _ _ _ _ (writeVals_of_not_mem _ W1 v1 c h1)
  · rw [writeVals_of_not_mem _ W2 v2 c h2]
    exact (writeVals_local _ _ _ _ _ (writeVals_of_not_mem _ W2 v2 c h2)).symm

/-- two bonds whose gates share no site -/
def Apart (a b : ℕ) : Prop := a + 2 ≤ b ∨ b + 2 ≤ a

theorem Apart.symm {a b : ℕ} (h : Apart a b) : Apart b a := Or.symm h

/-- gates two bonds apart replace different tensors -/
theorem writes_disjoint (a b : ℕ) (h : Apart a b) : ∀ c, c ∈ gateWrites a → c ∉ gateWrites b := by
  intro c hc hc'
  unfold Apart at h
  simp only [gateWrites, TebdLayers.gate_writes, List.map_cons, List.map_nil, List.mem_cons,
    List.not_mem_nil, or_false] at hc hc'
  rcases hc with rfl | rfl | rfl <;>
    simp only [Prod.mk.injEq, reduceCtorEq, false_and, true_and, or_false, false_or] at hc' <;> omega

/-- no gate copies a tensor that a gate two bonds away replaces -/
theorem reads_writes_disjoint (a b : ℕ) (h : Apart a b) :
    ∀ c, c ∈ gateReads a → c ∉ gateWrites b := by
  intro c hc hc'
  unfold Apart at h
  simp only [gateReads, gateWrites, TebdLayers.gate_reads, TebdLayers.gate_writes, List.map_cons,
    List.map_nil, List.mem_cons, List.not_mem_nil, or_false] at hc hc'
  rcases hc with rfl | rfl | rfl | rfl | rfl <;>
    simp only [Prod.mk.injEq, reduceCtorEq, false_and, true_and, or_false, false_or] at hc' <;> omega

theorem gateOut_congr (f : ℕ → List V → List V) (st st' : Cell → V) (k : ℕ)
    (h : ∀ c ∈ gateReads k, st c = st' c) : gateOut f st k = gateOut f st' k := by
  unfold gateOut
  congr 1
  exact List.map_congr_left h

/-- the copies of a gate are not affected by a gate two bonds away having been applied before -/
theorem gateOut_after (f : ℕ → List V → List V) (st : Cell → V) (i k : ℕ) (h : Apart k i) :
    gateOut f (applyGate f st i) k = gateOut f st k := by
  apply gateOut_congr
  intro c hc
  exact writeVals_of_not_mem _ _ _ _ (reads_writes_disjoint k i h c hc)

theorem writeBack_comm (st : Cell → V) (x y : ℕ × List V) (h : x = y ∨ Apart x.1 y.1) :
    writeBack (writeBack st x) y = writeBack (writeBack st y) x := by
  rcases h with rfl | h
  · rfl
  · exact writeVals_comm _ _ _ _ _ (writes_disjoint _ _ h)

/-- sequential loop = read all / map / write all, when the bonds are pairwise apart -/
theorem seqRun_eq_mapRun (f : ℕ → List V → List V) (bonds : List ℕ)
    (hp : bonds.Pairwise Apart) (st : Cell → V) : seqRun f bonds st = mapRun f bonds st := by
  induction bonds generalizing st with
  | nil => rfl
  | cons i rest ih =>
    rw [List.pairwise_cons] at hp
    have e : mapOutputs f rest (applyGate f st i) = mapOutputs f rest st := by
      unfold mapOutputs
      apply List.map_congr_left
      intro k hk
      rw [gateOut_after f st i k (hp.1 k hk).symm]
    show seqRun f rest (applyGate f st i) = _
    rw [ih hp.2, mapRun, e]
    rfl

/-- any order in which the results of a layer are written back gives the same state -/
theorem completionRun_perm (st : Cell → V) (outs outs' : List (ℕ × List V))
    (hperm : outs.Perm outs') (hd : outs.Pairwise (fun x y => Apart x.1 y.1)) :
    completionRun st outs = completionRun st outs' := by
  unfold completionRun
  apply List.Perm.foldl_eq' hperm
  have hR : outs.Pairwise (fun x y => x = y ∨ Apart x.1 y.1) := hd.imp (fun h => Or.inr h)
  have hR' : outs.Pairwise (flip (fun x y : ℕ × List V => x = y ∨ Apart x.1 y.1)) :=
    hd.imp (fun h => Or.inr h.symm)
  have hall := List.Pairwise.forall_of_forall_of_flip
    (R := fun x y : ℕ × List V => x = y ∨ Apart x.1 y.1) (fun x _ => Or.inl rfl) hR hR'
  intro x hx y hy z
  exact writeBack_comm z x y (hall hx hy)

theorem mapOutputs_pairwise (f : ℕ → List V → List V) (bonds : List ℕ) (st : Cell → V)
    (hp : bonds.Pairwise Apart) :
    (mapOutputs f bonds st).Pairwise (fun x y => Apart x.1 y.1) := by
  unfold mapOutputs
  rw [List.pairwise_map]
  exact hp

theorem layerBonds_apart (n ℓ : ℕ) : (layerBonds n ℓ).Pairwise Apart :=
  (layerBonds_pairwise n ℓ).imp (fun h => Or.inl h)

end OQuPyVerif.Tebd
