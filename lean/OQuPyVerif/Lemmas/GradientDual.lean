/- The specification layer commutes with ring homomorphisms, and the chain-rule contraction is
   linear in the propagator derivative: what is needed to read the adjoint identity over the
   dual numbers `K[ε]` as "gradient = derivative" (C08). -/
import OQuPyVerif.Lemmas.GradientAdjoint
import Mathlib.Algebra.DualNumber

namespace OQuPyVerif.Grad
open Finset BigOperators
variable {K R : Type} [CommRing K] [CommRing R] {ι : Type}

/-- entrywise image of a table under a map -/
def map2 {α β : Type} (φ : K → R) (X : α → β → K) : α → β → R := fun a b => φ (X a b)
def map4 {α β γ δ : Type} (φ : K → R) (G : α → β → γ → δ → K) : α → β → γ → δ → R :=
  fun a b c d => φ (G a b c d)

theorem sysJ_map (φ : K →+* R) (L : ℕ) (M : ℕ → ℕ → K) (X : ι → ℕ → K) :
    sysJ L (map2 φ M) (map2 φ X) = map2 φ (sysJ L M X) := by
  funext β a; simp only [sysJ, map2, map_sum, map_mul]

theorem bondJ_map (φ : K →+* R) (L : ℕ) (S : Finset ι) (G : ι → ι → ℕ → ℕ → K) (X : ι → ℕ → K) :
    bondJ L S (map4 φ G) (map2 φ X) = map2 φ (bondJ L S G X) := by
  funext β a; simp only [bondJ, map2, map4, map_sum, map_mul]

theorem bondJT_map (φ : K →+* R) (L : ℕ) (S : Finset ι) (G : ι → ι → ℕ → ℕ → K) (X : ι → ℕ → K) :
    bondJT L S (map4 φ G) (map2 φ X) = map2 φ (bondJT L S G X) := by
  funext β a; simp only [bondJT, map2, map4, map_sum, map_mul]

theorem transposeM_map (φ : K →+* R) (M : ℕ → ℕ → K) :
    transposeM (map2 φ M) = map2 φ (transposeM M) := rfl

theorem jStep_map (φ : K →+* R) (L : ℕ) (S : Finset ι) (G : ι → ι → ℕ → ℕ → K) (A B : ℕ → ℕ → K)
    (X : ι → ℕ → K) :
    jStep L S (map4 φ G) (map2 φ A) (map2 φ B) (map2 φ X) = map2 φ (jStep L S G A B X) := by
  unfold jStep; rw [sysJ_map, bondJ_map, sysJ_map]

theorem jStepT_map (φ : K →+* R) (L : ℕ) (S : Finset ι) (G : ι → ι → ℕ → ℕ → K) (A B : ℕ → ℕ → K)
    (Y : ι → ℕ → K) :
    jStepT L S (map4 φ G) (map2 φ A) (map2 φ B) (map2 φ Y) = map2 φ (jStepT L S G A B Y) := by
  unfold jStepT; rw [transposeM_map, transposeM_map, sysJ_map, bondJT_map, sysJ_map]

theorem jFwd_map (φ : K →+* R) (L : ℕ) (S : ℕ → Finset ι) (G : ℕ → ι → ι → ℕ → ℕ → K)
    (A B : ℕ → ℕ → ℕ → K) (X0 : ι → ℕ → K) (k : ℕ) :
    jFwd L S (fun k => map4 φ (G k)) (fun k => map2 φ (A k)) (fun k => map2 φ (B k)) (map2 φ X0) k
      = map2 φ (jFwd L S G A B X0 k) := by
  induction k with
  | zero => rfl
  | succ k ih => simp only [jFwd, ih, jStep_map]

theorem jBwd_map (φ : K →+* R) (L : ℕ) (S : ℕ → Finset ι) (G : ℕ → ι → ι → ℕ → ℕ → K)
    (A B : ℕ → ℕ → ℕ → K) (tgt : ι → ℕ → K) (N m : ℕ) :
    jBwd L S (fun k => map4 φ (G k)) (fun k => map2 φ (A k)) (fun k => map2 φ (B k)) (map2 φ tgt) N m
      = map2 φ (jBwd L S G A B tgt N m) := by
  induction m with
  | zero => rfl
  | succ m ih => simp only [jBwd, ih, jStepT_map]

theorem pair_map (φ : K →+* R) (L : ℕ) (S : Finset ι) (Y X : ι → ℕ → K) :
    pair L S (map2 φ Y) (map2 φ X) = φ (pair L S Y X) := by
  simp only [pair, map2, map_sum, map_mul]

theorem jZ_map (φ : K →+* R) (L : ℕ) (S : ℕ → Finset ι) (G : ℕ → ι → ι → ℕ → ℕ → K)
    (A B : ℕ → ℕ → ℕ → K) (X0 tgt : ι → ℕ → K) (N : ℕ) :
    jZ L S (fun k => map4 φ (G k)) (fun k => map2 φ (A k)) (fun k => map2 φ (B k)) (map2 φ X0)
        (map2 φ tgt) N = φ (jZ L S G A B X0 tgt N) := by
  unfold jZ; rw [jFwd_map, pair_map]

theorem jDeriv_map (φ : K →+* R) (S S' : Finset ι) (G : ι → ι → ℕ → ℕ → K) (X Y : ι → ℕ → K) :
    jDeriv S S' (map4 φ G) (map2 φ X) (map2 φ Y) = map4 φ (jDeriv S S' G X Y) := by
  funext a b c d; simp only [jDeriv, map2, map4, map_sum, map_mul]

theorem chainFirst_map (φ : K →+* R) (L : ℕ) (Dv : ℕ → ℕ → ℕ → ℕ → K) (dA B : ℕ → ℕ → K) :
    chainFirst L (map4 φ Dv) (map2 φ dA) (map2 φ B) = φ (chainFirst L Dv dA B) := by
  simp only [chainFirst, map2, map4, map_sum, map_mul]

theorem chainSecond_map (φ : K →+* R) (L : ℕ) (Dv : ℕ → ℕ → ℕ → ℕ → K) (A dB : ℕ → ℕ → K) :
    chainSecond L (map4 φ Dv) (map2 φ A) (map2 φ dB) = φ (chainSecond L Dv A dB) := by
  simp only [chainSecond, map2, map4, map_sum, map_mul]

/-- the chain-rule contraction is linear in the propagator derivative -/
theorem chainFirst_smul (L : ℕ) (Dv : ℕ → ℕ → ℕ → ℕ → R) (e : R) (dA B : ℕ → ℕ → R) :
    chainFirst L Dv (fun b a => e * dA b a) B = e * chainFirst L Dv dA B := by
  simp only [chainFirst, Finset.mul_sum]
  apply Finset.sum_congr rfl; intro d _
  apply Finset.sum_congr rfl; intro c _
  apply Finset.sum_congr rfl; intro b _
  apply Finset.sum_congr rfl; intro a _
  ring

theorem chainSecond_smul (L : ℕ) (Dv : ℕ → ℕ → ℕ → ℕ → R) (e : R) (A dB : ℕ → ℕ → R) :
    chainSecond L Dv A (fun d c => e * dB d c) = e * chainSecond L Dv A dB := by
  simp only [chainSecond, Finset.mul_sum]
  apply Finset.sum_congr rfl; intro d _
  apply Finset.sum_congr rfl; intro c _
  apply Finset.sum_congr rfl; intro b _
  apply Finset.sum_congr rfl; intro a _
  ring

theorem G2_map (φ : K →+* R) (L : ℕ) (T0 T1 : Tensor4 K) :
    G2 L (map4 φ T0) (map4 φ T1) = map4 φ (G2 L T0 T1) := by
  funext β β' i o; simp only [G2, map4, map_sum, map_mul]

end OQuPyVerif.Grad
