/- C03: a list of environments contracts like ONE environment on the flat bond index. -/
import OQuPyVerif.Model.MultiEnv
import Mathlib.Tactic.Ring
import Mathlib.Tactic.Linarith

namespace OQuPyVerif.MultiEnv
open Finset BigOperators OQuPyVerif.PathSum OQuPyVerif.PT OQuPyVerif.Generated.MpoWiring
variable {K : Type} [CommRing K]

omit [CommRing K] in
theorem axisPick_generated (T : ℕ → ℕ → ℕ → ℕ → K) : axisPick applyAxes T = T := rfl

theorem envLoop_eq_envRec (L k : ℕ) (es : List (EnvMpo K)) :
    ∀ (pre : List ℕ) (X : List ℕ → ℕ → K) (bt : List ℕ) (o : ℕ), bt.length = es.length →
      envLoop L k pre.length es X (pre ++ bt) o = envRec L k es (fun bt' m => X (pre ++ bt') m) bt o := by
  induction es with
  | nil =>
    intro pre X bt o h
    rfl
  | cons e es ih =>
    intro pre X bt o h
    match bt, h with
    | b' :: bt', h =>
      have hl : es.length = bt'.length := by simpa using h.symm
      simp only [envLoop, envRec]
      have := ih (pre ++ [b']) (envAt L pre.length (e.D k) (e.T k) X) bt' o hl.symm
      simp only [List.length_append, List.length_singleton, List.append_assoc, List.singleton_append] at this
      rw [this]
      congr 1
      funext bt m
      simp only [envAt, axisPick_generated]
      apply Finset.sum_congr rfl; intro b _
      apply Finset.sum_congr rfl; intro i _
      simp

theorem sum_range_mul (m n : ℕ) (g : ℕ → ℕ → K) :
    ∑ b ∈ range (m * n), g (b / n) (b % n) = ∑ i ∈ range m, ∑ j ∈ range n, g i j := by
  induction m with
  | zero => simp
  | succ m ih =>
    rw [Nat.succ_mul, Finset.sum_range_add, ih, Finset.sum_range_succ]
    congr 1
    apply Finset.sum_congr rfl; intro j hj
    have hj' : j < n := Finset.mem_range.mp hj
    have hn : 0 < n := by omega
    rw [Nat.mul_comm m n, Nat.mul_add_div hn, Nat.div_eq_of_lt hj', Nat.mul_add_mod, Nat.mod_eq_of_lt hj']
    simp

theorem combineAll_D (L k : ℕ) (es : List (EnvMpo K)) :
    (combineAll L es).D k = (es.map (fun e => e.D k)).prod := by
  induction es with
  | nil => rfl
  | cons e es ih =>
    cases es with
    | nil => simp [combineAll]
    | cons e' es' =>
      simp only [combineAll, combine2, List.map_cons, List.prod_cons] at ih ⊢
      rw [ih]

theorem envRec_flat (L k : ℕ) (es : List (EnvMpo K)) :
    ∀ (Y : List ℕ → ℕ → K) (b' o : ℕ), o < L →
      envRec L k es Y (unflat (es.map (fun e => e.D (k+1))) b') o =
        ∑ b ∈ range ((combineAll L es).D k), ∑ i ∈ range L,
          (combineAll L es).T k b b' i o * Y (unflat (es.map (fun e => e.D k)) b) i := by
  induction es with
  | nil =>
    intro Y b' o ho
    simp only [List.map_nil, unflat, envRec, combineAll, trivialEnv, Finset.sum_range_one]
    rw [Finset.sum_eq_single o]
    · simp
    · intro i _ hi; simp [hi]
    · intro h; exact absurd (Finset.mem_range.mpr ho) h
  | cons e es ih =>
    cases es with
    | nil =>
      intro Y b' o _
      simp only [List.map_cons, List.map_nil, unflat, envRec, combineAll]
    | cons e' es' =>
      intro Y b' o ho
      have hD : ∀ j, ((e' :: es').map (fun e => e.D j)).prod = (combineAll L (e' :: es')).D j :=
        fun j => (combineAll_D L j (e' :: es')).symm
      simp only [List.map_cons] at hD ih ⊢
      simp only [unflat, envRec, hD]
      rw [ih _ _ o ho]
      simp only [combineAll, combine2, combineMpo]
      set R := combineAll L (e' :: es') with hR
      rw [show (∑ b ∈ range (e.D k * R.D k), ∑ i ∈ range L,
            (∑ m ∈ range L, e.T k (b / R.D k) (b' / R.D (k+1)) i m *
                R.T k (b % R.D k) (b' % R.D (k+1)) m o) *
              Y ((b / R.D k) :: unflat (e'.D k :: es'.map (fun e => e.D k)) (b % R.D k)) i)
          = ∑ b1 ∈ range (e.D k), ∑ bt ∈ range (R.D k), ∑ i ∈ range L,
            (∑ m ∈ range L, e.T k b1 (b' / R.D (k+1)) i m * R.T k bt (b' % R.D (k+1)) m o) *
              Y (b1 :: unflat (e'.D k :: es'.map (fun e => e.D k)) bt) i
          from sum_range_mul (e.D k) (R.D k) (fun b1 bt => ∑ i ∈ range L,
            (∑ m ∈ range L, e.T k b1 (b' / R.D (k+1)) i m * R.T k bt (b' % R.D (k+1)) m o) *
              Y (b1 :: unflat (e'.D k :: es'.map (fun e => e.D k)) bt) i)]
      rw [Finset.sum_comm (s := range (e.D k))]
      apply Finset.sum_congr rfl; intro bt _
      simp only [Finset.mul_sum, Finset.sum_mul]
      rw [Finset.sum_comm]
      apply Finset.sum_congr rfl; intro b1 _
      rw [Finset.sum_comm]
      apply Finset.sum_congr rfl; intro i _
      apply Finset.sum_congr rfl; intro m _
      ring

theorem unflat_sum_zero (Ds : List ℕ) : ∀ b, b < Ds.prod → ((unflat Ds b).sum = 0 ↔ b = 0) := by
  induction Ds with
  | nil => intro b hb; simp at hb; simp [unflat, hb]
  | cons D Ds ih =>
    cases Ds with
    | nil => intro b _; simp [unflat]
    | cons D' Ds' =>
      intro b hb
      simp only [unflat, List.sum_cons]
      set P := (D' :: Ds').prod with hP
      have hPpos : 0 < P := by
        rcases Nat.eq_zero_or_pos P with h | h
        · rw [List.prod_cons, ← hP, h] at hb; simp at hb
        · exact h
      have hmod : b % P < P := Nat.mod_lt _ hPpos
      have := ih (b % P) hmod
      constructor
      · intro h
        obtain ⟨h1, h2'⟩ := Nat.add_eq_zero_iff.mp h
        have h2 : b % P = 0 := this.mp h2'
        have := Nat.div_add_mod b P
        rw [h1, h2] at this; omega
      · intro h
        subst h
        simp only [Nat.zero_div, Nat.zero_mod, zero_add] at this ⊢
        exact this.mpr trivial

theorem multiState_flat (L : ℕ) (es : List (EnvMpo K)) (A B : ℕ → ℕ → ℕ → K) (ρ0 : ℕ → K) :
    ∀ (n b s : ℕ), b < (combineAll L es).D n →
      multiState L es A B ρ0 n (unflat (es.map (fun e => e.D n)) b) s =
        mpoState L (combineAll L es).D (combineAll L es).T A B ρ0 n b s := by
  intro n
  induction n with
  | zero =>
    intro b s hb
    rw [combineAll_D] at hb
    simp only [multiState, mpoState]
    by_cases h : b = 0
    · rw [if_pos ((unflat_sum_zero _ b hb).mpr h), if_pos h]
    · rw [if_neg (fun hh => h ((unflat_sum_zero _ b hb).mp hh)), if_neg h]
  | succ n ih =>
    intro b' s' _
    simp only [multiState, mpoState, multiStep, mpoStep]
    apply Finset.sum_congr rfl; intro o ho
    rw [envRec_flat L n es _ b' o (Finset.mem_range.mp ho)]
    congr 1
    apply Finset.sum_congr rfl; intro b hb
    apply Finset.sum_congr rfl; intro i _
    congr 1
    apply Finset.sum_congr rfl; intro s _
    rw [ih b s (Finset.mem_range.mp hb)]

theorem applyCaps_flat (L n : ℕ) (es : List (EnvMpo K)) :
    ∀ (X : List ℕ → ℕ → K) (s' : ℕ),
      applyCaps (es.map (fun e => (e.D n, e.cap n))) X s' =
        ∑ b ∈ range ((combineAll L es).D n), (combineAll L es).cap n b *
          X (unflat (es.map (fun e => e.D n)) b) s' := by
  induction es with
  | nil => intro X s'; simp [applyCaps, combineAll, trivialEnv, unflat]
  | cons e es ih =>
    cases es with
    | nil => intro X s'; simp [applyCaps, combineAll, unflat]
    | cons e' es' =>
      intro X s'
      have hD : ((e' :: es').map (fun e => e.D n)).prod = (combineAll L (e' :: es')).D n :=
        (combineAll_D L n (e' :: es')).symm
      simp only [List.map_cons] at hD ih ⊢
      rw [applyCaps, ih]
      simp only [combineAll, combine2, combineCap, unflat, hD]
      set R := combineAll L (e' :: es') with hR
      rw [show (∑ b ∈ range (e.D n * R.D n), e.cap n (b / R.D n) * R.cap n (b % R.D n) *
              X ((b / R.D n) :: unflat (e'.D n :: es'.map (fun e => e.D n)) (b % R.D n)) s')
          = ∑ b1 ∈ range (e.D n), ∑ bt ∈ range (R.D n), e.cap n b1 * R.cap n bt *
              X (b1 :: unflat (e'.D n :: es'.map (fun e => e.D n)) bt) s'
          from sum_range_mul (e.D n) (R.D n) (fun b1 bt => e.cap n b1 * R.cap n bt *
              X (b1 :: unflat (e'.D n :: es'.map (fun e => e.D n)) bt) s')]
      rw [Finset.sum_comm]
      apply Finset.sum_congr rfl; intro bt _
      rw [Finset.mul_sum]
      apply Finset.sum_congr rfl; intro b1 _
      ring

/-- **A list of environments is one environment.** -/
theorem multiRecord_eq_mpoRecord (L : ℕ) (es : List (EnvMpo K)) (A B : ℕ → ℕ → ℕ → K)
    (pre : ℕ → ℕ → K) (ρ0 : ℕ → K) (n s' : ℕ) :
    multiRecord L es A B pre ρ0 n s' =
      mpoRecord L (combineAll L es).D (combineAll L es).T A B (combineAll L es).cap pre ρ0 n s' := by
  unfold multiRecord mpoRecord
  rw [applyCaps_flat L n es]
  apply Finset.sum_congr rfl; intro b hb
  congr 1
  apply Finset.sum_congr rfl; intro s _
  rw [multiState_flat L es A B ρ0 n b s (Finset.mem_range.mp hb)]

end OQuPyVerif.MultiEnv
