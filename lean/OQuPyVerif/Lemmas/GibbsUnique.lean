/- C11 helper lemmas on the model of `TIBaseBackend._unique`: every state is represented in
   exactly one class, and two states share a class exactly when their values are equal. -/
import OQuPyVerif.Model.Gibbs
import Mathlib.Data.List.Basic
import Mathlib.Data.List.Nodup
import Mathlib.Data.List.Range

namespace OQuPyVerif.Gibbs
variable {α : Type} [DecidableEq α]

theorem firstIdx_lt (vals : List α) (a : ℕ) (ha : a < vals.length) : firstIdx vals a < vals.length := by
  unfold firstIdx
  rw [List.getElem?_eq_getElem ha]
  exact List.idxOf_lt_length_of_mem (List.getElem_mem ha)

theorem getElem_firstIdx (vals : List α) (a : ℕ) (ha : a < vals.length) :
    vals[firstIdx vals a]'(firstIdx_lt vals a ha) = vals[a] := by
  unfold firstIdx
  simp only [List.getElem?_eq_getElem ha]
  exact List.getElem_idxOf _

theorem firstIdx_eq (vals : List α) (b : ℕ) (hb : b < vals.length) :
    firstIdx vals b = vals.idxOf vals[b] := by
  unfold firstIdx
  rw [List.getElem?_eq_getElem hb]

theorem firstIdx_idem (vals : List α) (a : ℕ) (ha : a < vals.length) :
    firstIdx vals (firstIdx vals a) = firstIdx vals a := by
  rw [firstIdx_eq vals _ (firstIdx_lt vals a ha), getElem_firstIdx vals a ha, firstIdx_eq vals a ha]

theorem sum_indicator_nodup (L : List ℕ) (hL : L.Nodup) (x : ℕ) (hx : x ∈ L) :
    (L.map (fun j => if x = j then 1 else 0)).sum = 1 := by
  induction L with
  | nil => simp at hx
  | cons b r ih =>
    have hnd := List.nodup_cons.mp hL
    simp only [List.map_cons, List.sum_cons]
    by_cases hxb : x = b
    · subst hxb
      have : ∀ r' : List ℕ, x ∉ r' → (r'.map (fun j => if x = j then 1 else 0)).sum = 0 := by
        intro r' hr'
        induction r' with
        | nil => rfl
        | cons c r'' ih' =>
          have hc : x ≠ c := fun h => hr' (by simp [h])
          have hr'' : x ∉ r'' := fun h => hr' (by simp [h])
          simp [hc, ih' hr'']
      have := this r hnd.1
      simp [this]
    · have hx' : x ∈ r := by
        rcases List.mem_cons.mp hx with h | h
        · exact absurd h hxb
        · exact h
      simp [hxb, ih hnd.2 hx']

/-- every state is represented in exactly one class -/
theorem unique_sums_class (vals : List α) (a : ℕ) (ha : a < vals.length) :
    classCount vals a = 1 := by
  unfold classCount
  apply sum_indicator_nodup
  · exact List.Nodup.filter _ List.nodup_range
  · unfold uniqIndices
    simp only [List.mem_filter, List.mem_range, beq_iff_eq]
    exact ⟨firstIdx_lt vals a ha, firstIdx_idem vals a ha⟩


/-- two states share a class exactly when their values are equal -/
theorem firstIdx_eq_iff (vals : List α) (a b : ℕ) (ha : a < vals.length) (hb : b < vals.length) :
    firstIdx vals a = firstIdx vals b ↔ vals[a] = vals[b] := by
  constructor
  · intro h
    rw [← getElem_firstIdx vals a ha, ← getElem_firstIdx vals b hb]
    simp only [h]
  · intro h
    rw [firstIdx_eq vals a ha, firstIdx_eq vals b hb, h]

end OQuPyVerif.Gibbs
