/- C03: the process tensor of an ancilla reproduces the joint evolution. -/
import OQuPyVerif.Lemmas.MultiEnvFold
import OQuPyVerif.Lemmas.MultiEnvCaps

namespace OQuPyVerif.MultiEnv
open Finset BigOperators OQuPyVerif.PathSum OQuPyVerif.PT OQuPyVerif.Generated.MpoWiring
variable {K : Type} [CommRing K]

theorem sum_range_mul' (m n : ℕ) (f : ℕ → K) :
    ∑ y ∈ range (m * n), f y = ∑ i ∈ range m, ∑ j ∈ range n, f (i * n + j) := by
  rw [← sum_range_mul m n (fun i j => f (i * n + j))]
  apply Finset.sum_congr rfl; intro y _
  rw [Nat.div_add_mod']

theorem pair_div {L b s : ℕ} (hs : s < L) : (b * L + s) / L = b := by
  have hL : 0 < L := by omega
  rw [Nat.mul_comm, Nat.mul_add_div hL, Nat.div_eq_of_lt hs, Nat.add_zero]

theorem pair_mod {L b s : ℕ} (hs : s < L) : (b * L + s) % L = s := by
  rw [Nat.mul_comm, Nat.mul_add_mod, Nat.mod_eq_of_lt hs]

theorem kron_apply (L E : ℕ) (A : ℕ → ℕ → K) (v : ℕ → K) (b s : ℕ) (hb : b < E) (hs : s < L) :
    matVec (E * L) (kronI L A) v (b * L + s) = ∑ s1 ∈ range L, A s s1 * v (b * L + s1) := by
  unfold matVec
  rw [sum_range_mul']
  rw [Finset.sum_eq_single b]
  · apply Finset.sum_congr rfl; intro s1 hs1
    have hs1' := Finset.mem_range.mp hs1
    simp [kronI, pair_div hs, pair_div hs1', pair_mod hs, pair_mod hs1']
  · intro b1 _ hb1
    apply Finset.sum_eq_zero; intro s1 hs1
    have hs1' := Finset.mem_range.mp hs1
    simp [kronI, pair_div hs, pair_div hs1', Ne.symm hb1]
  · intro h; exact absurd (Finset.mem_range.mpr hb) h

theorem joint_step (L E : ℕ) (U : ℕ → ℕ → ℕ → K) (A B : ℕ → ℕ → ℕ → K) (k : ℕ) (Y : ℕ → K)
    (b' s' : ℕ) (hb : b' < E) (hs : s' < L) :
    matVec (E * L) (kronI L (B k)) (matVec (E * L) (U k) (matVec (E * L) (kronI L (A k)) Y))
        (b' * L + s')
      = ∑ o ∈ range L, B k s' o * ∑ b ∈ range E, ∑ i ∈ range L,
          U k (b' * L + o) (b * L + i) * ∑ s ∈ range L, A k i s * Y (b * L + s) := by
  rw [kron_apply L E _ _ b' s' hb hs]
  apply Finset.sum_congr rfl; intro o _
  congr 1
  unfold matVec
  rw [sum_range_mul']
  apply Finset.sum_congr rfl; intro b hb1
  apply Finset.sum_congr rfl; intro i hi
  congr 1
  exact kron_apply L E _ _ b i (Finset.mem_range.mp hb1) (Finset.mem_range.mp hi)

theorem ptOfJoint_state (L E : ℕ) (U : ℕ → ℕ → ℕ → K) (A B : ℕ → ℕ → ℕ → K) (ρE trE ρ0 : ℕ → K) :
    ∀ (n b s : ℕ), b < E → s < L →
      mpoState L (ptOfJoint L E U ρE trE).D (ptOfJoint L E U ρE trE).T A B ρ0 (n+1) b s
        = jointState L E U A B ρE ρ0 (n+1) (b * L + s) := by
  intro n
  induction n with
  | zero =>
    intro b' s' hb hs
    simp only [mpoState, mpoStep, jointState]
    rw [joint_step L E U A B 0 _ b' s' hb hs]
    apply Finset.sum_congr rfl; intro o _
    congr 1
    simp only [ptOfJoint, if_true, Finset.sum_range_one]
    rw [Finset.sum_comm]
    apply Finset.sum_congr rfl; intro i _
    rw [Finset.sum_mul]
    apply Finset.sum_congr rfl; intro b0 _
    rw [mul_assoc]
    congr 1
    rw [Finset.mul_sum]
    apply Finset.sum_congr rfl; intro s hs1
    have hs1' := Finset.mem_range.mp hs1
    rw [pair_div hs1', pair_mod hs1']
    ring
  | succ n ih =>
    intro b' s' hb hs
    rw [mpoState, jointState, joint_step L E U A B (n+1) _ b' s' hb hs]
    unfold mpoStep
    apply Finset.sum_congr rfl; intro o _
    congr 1
    simp only [ptOfJoint, Nat.succ_ne_zero, if_false]
    apply Finset.sum_congr rfl; intro b hb1
    apply Finset.sum_congr rfl; intro i _
    congr 1
    apply Finset.sum_congr rfl; intro s hs1
    exact congrArg (A (n+1) i s * ·) (ih b s (Finset.mem_range.mp hb1) (Finset.mem_range.mp hs1))

/-- **`compute_dynamics` on an ancilla process tensor = the joint evolution, traced.** -/
theorem ptOfJoint_record (L E : ℕ) (U : ℕ → ℕ → ℕ → K) (A B : ℕ → ℕ → ℕ → K) (ρE trE : ℕ → K)
    (pre : ℕ → ℕ → K) (ρ0 : ℕ → K) (n s' : ℕ) :
    mpoRecord L (ptOfJoint L E U ρE trE).D (ptOfJoint L E U ρE trE).T A B
        (ptOfJoint L E U ρE trE).cap pre ρ0 n s'
      = jointRecord L E U A B ρE trE pre ρ0 n s' := by
  unfold mpoRecord jointRecord
  rw [sum_range_mul']
  cases n with
  | zero =>
    simp only [ptOfJoint, if_true, Finset.sum_range_one, mpoState, jointState]
    rw [Finset.sum_mul]
    apply Finset.sum_congr rfl; intro b0 _
    rw [Finset.mul_sum]
    apply Finset.sum_congr rfl; intro s hs1
    have hs1' := Finset.mem_range.mp hs1
    rw [pair_div hs1', pair_mod hs1']
    ring
  | succ n =>
    simp only [ptOfJoint, Nat.succ_ne_zero, if_false]
    apply Finset.sum_congr rfl; intro b hb
    rw [Finset.mul_sum]
    apply Finset.sum_congr rfl; intro s hs1
    have hs1' := Finset.mem_range.mp hs1
    have := ptOfJoint_state L E U A B ρE trE ρ0 n b s (Finset.mem_range.mp hb) hs1'
    simp only [ptOfJoint] at this
    rw [this, pair_div hs1', pair_mod hs1']
    ring

/-- for trace-preserving joint maps the caps computed by `compute_caps` (with
    `trIn·trOut = d⁻¹·vec 1 ⊗ vec 1`) are the ancilla trace covector at every step -/
theorem ptOfJoint_caps (L E : ℕ) (U : ℕ → ℕ → ℕ → K) (ρE trE trS : ℕ → K) (dinv : K)
    (hd : dinv * ∑ i ∈ range L, trS i * trS i = 1)
    (hTP : ∀ k b i, b < E → i < L →
      ∑ b' ∈ range E, ∑ o ∈ range L, trE b' * trS o * U k (b' * L + o) (b * L + i) = trE b * trS i)
    (k b : ℕ) (hb : b < (ptOfJoint L E U ρE trE).D k) :
    capRec L (ptOfJoint L E U ρE trE).D (ptOfJoint L E U ρE trE).T (fun i => dinv * trS i) trS
        ((ptOfJoint L E U ρE trE).cap (k+1)) k b = (ptOfJoint L E U ρE trE).cap k b := by
  have hτ : ∑ i ∈ range L, dinv * trS i * trS i = 1 := by
    rw [← hd, Finset.mul_sum]; apply Finset.sum_congr rfl; intro i _; ring
  apply capRec_fixed L _ _ (fun i => dinv * trS i) trS trS _ _ k b _ hτ
  intro i hi
  cases k with
  | zero =>
    simp only [ptOfJoint, if_true, Nat.succ_ne_zero, if_false]
    have : ∀ b' ∈ range E, ∑ o ∈ range L,
        (∑ b0 ∈ range E, U 0 (b' * L + o) (b0 * L + i) * ρE b0) * trS o * trE b'
        = ∑ b0 ∈ range E, ρE b0 * ∑ o ∈ range L, trE b' * trS o * U 0 (b' * L + o) (b0 * L + i) := by
      intro b' _
      simp only [Finset.sum_mul, Finset.mul_sum]
      rw [Finset.sum_comm]
      apply Finset.sum_congr rfl; intro b0 _
      apply Finset.sum_congr rfl; intro o _
      ring
    rw [Finset.sum_congr rfl this, Finset.sum_comm, Finset.sum_mul]
    apply Finset.sum_congr rfl; intro b0 hb0
    rw [← Finset.mul_sum, hTP 0 b0 i (Finset.mem_range.mp hb0) hi]
    ring
  | succ k =>
    simp only [ptOfJoint, Nat.succ_ne_zero, if_false] at hb ⊢
    rw [← hTP (k+1) b i hb hi]
    apply Finset.sum_congr rfl; intro b' _
    apply Finset.sum_congr rfl; intro o _
    ring

end OQuPyVerif.MultiEnv
