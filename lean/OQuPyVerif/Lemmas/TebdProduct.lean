/- Site-product states of the dense chain model: operations that act on the slots of one site
   keep the product form and change only that site's factor. -/
import OQuPyVerif.Lemmas.TebdDense

namespace OQuPyVerif.Tebd
open Finset BigOperators Function

variable {K : Type} [CommRing K]
set_option linter.unusedSectionVars false

/-- `f` looks only at the two slots of site `j` -/
def LocalTo (j : ℕ) (f : Config → K) : Prop :=
  ∀ s, s ≠ physSlot j → s ≠ ptSlot j → IndepOf f s

/-- `s` is one of the two slots of site `j` -/
def SlotOf (j s : ℕ) : Prop := s = physSlot j ∨ s = ptSlot j

theorem SlotOf.div {j s : ℕ} (h : SlotOf j s) : s / 2 = j := by
  unfold SlotOf physSlot ptSlot at h; omega

theorem SlotOf.ne_of_ne {j k s : ℕ} (h : SlotOf j s) (hjk : k ≠ j) :
    s ≠ physSlot k ∧ s ≠ ptSlot k := by
  unfold SlotOf physSlot ptSlot at *; omega

theorem LocalTo.indep {k : ℕ} {f : Config → K} (h : LocalTo k f) {j s : ℕ} (hs : SlotOf j s)
    (hjk : k ≠ j) : IndepOf f s :=
  h s (hs.ne_of_ne hjk).1 (hs.ne_of_ne hjk).2

theorem LocalTo.applySite {j : ℕ} {f : Config → K} (h : LocalTo j f) {s : ℕ} (hs : SlotOf j s)
    (m : ℕ) (M : ℕ → ℕ → K) : LocalTo j (applySite s m M f) := by
  intro u hu1 hu2
  have hus : u ≠ s := by rcases hs with rfl | rfl <;> assumption
  exact indep_applySite s m M f u hus (h u hu1 hu2)

theorem LocalTo.applyPair {j : ℕ} {f : Config → K} (h : LocalTo j f) (m1 m2 : ℕ)
    (G : ℕ → ℕ → ℕ → ℕ → K) : LocalTo j (applyPair (ptSlot j) (physSlot j) m1 m2 G f) := by
  intro u hu1 hu2
  exact indep_applyPair _ _ m1 m2 G f u hu2 hu1 (h u hu1 hu2)

theorem localTo_siteFactor (j : ℕ) (X : ℕ → ℕ → K) : LocalTo j (siteFactor j X) := by
  intro s h1 h2 c a
  simp only [siteFactor, update_of_ne h1.symm, update_of_ne h2.symm]

/-! ### splitting off one factor -/

theorem siteProd_congr (n : ℕ) (w w' : ℕ → Config → K) (h : ∀ j, j < n → w j = w' j) :
    siteProd n w = siteProd n w' := by
  funext c
  apply Finset.prod_congr rfl
  intro j hj
  rw [h j (Finset.mem_range.mp hj)]

theorem siteProd_split (n : ℕ) (w : ℕ → Config → K) (j : ℕ) (hj : j < n) :
    siteProd n w = fun c => w j c * ∏ k ∈ (range n).erase j, w k c := by
  funext c
  exact (Finset.mul_prod_erase (range n) (fun k => w k c) (Finset.mem_range.mpr hj)).symm

theorem siteProd_update (n : ℕ) (w : ℕ → Config → K) (j : ℕ) (hj : j < n) (f : Config → K) :
    siteProd n (update w j f) = fun c => f c * ∏ k ∈ (range n).erase j, w k c := by
  rw [siteProd_split n (update w j f) j hj]
  funext c
  rw [update_self]
  congr 1
  apply Finset.prod_congr rfl
  intro k hk
  rw [update_of_ne (Finset.ne_of_mem_erase hk)]

theorem rest_indep (n : ℕ) (w : ℕ → Config → K) (hloc : ∀ k, LocalTo k (w k)) (j s : ℕ)
    (hs : SlotOf j s) : IndepOf (fun c => ∏ k ∈ (range n).erase j, w k c) s := by
  apply indep_prod
  intro k hk
  exact (hloc k).indep hs (Finset.ne_of_mem_erase hk)

/-- a single-slot map on a slot of site `j` acts on the factor of site `j` -/
theorem applySite_siteProd (n : ℕ) (w : ℕ → Config → K) (hloc : ∀ k, LocalTo k (w k))
    (j s : ℕ) (hj : j < n) (hs : SlotOf j s) (m : ℕ) (M : ℕ → ℕ → K) :
    applySite s m M (siteProd n w) = siteProd n (update w j (applySite s m M (w j))) := by
  rw [siteProd_update n w j hj, siteProd_split n w j hj]
  exact applySite_mul_indep s m M _ _ (rest_indep n w hloc j s hs)

/-- a map on the two slots of site `j` (a process-tensor MPO) acts on the factor of site `j` -/
theorem applyOwn_siteProd (n : ℕ) (w : ℕ → Config → K) (hloc : ∀ k, LocalTo k (w k))
    (j : ℕ) (hj : j < n) (m1 m2 : ℕ) (G : ℕ → ℕ → ℕ → ℕ → K) :
    applyPair (ptSlot j) (physSlot j) m1 m2 G (siteProd n w)
      = siteProd n (update w j (applyPair (ptSlot j) (physSlot j) m1 m2 G (w j))) := by
  rw [siteProd_update n w j hj, siteProd_split n w j hj]
  exact applyPair_mul_indep _ _ m1 m2 G _ _ (rest_indep n w hloc j _ (Or.inr rfl))
    (rest_indep n w hloc j _ (Or.inl rfl))

/-! ### lists of site-local operations -/

/-- the operation touches the slots of one site `< n` only -/
def IsLocalOp (n : ℕ) : Op K → Prop
  | .site s _ _ _ => ∃ j, j < n ∧ SlotOf j s
  | .pair s t _ _ _ _ _ => ∃ j, j < n ∧ s = ptSlot j ∧ t = physSlot j

/-- the site whose slots a local operation touches -/
def Op.siteOf : Op K → ℕ
  | .site s _ _ _ => s / 2
  | .pair s _ _ _ _ _ _ => s / 2

/-- effect of a local operation on the family of site factors -/
def Op.loc (o : Op K) (w : ℕ → Config → K) : ℕ → Config → K :=
  update w o.siteOf (o.run (w o.siteOf))

theorem run_siteProd (n : ℕ) (o : Op K) (hok : IsLocalOp n o) (w : ℕ → Config → K)
    (hloc : ∀ k, LocalTo k (w k)) :
    o.run (siteProd n w) = siteProd n (o.loc w) ∧ ∀ k, LocalTo k (o.loc w k) := by
  cases o with
  | site s m o' M =>
    obtain ⟨j, hj, hs⟩ := hok
    have hsite : (Op.site s m o' M).siteOf = j := hs.div
    constructor
    · show applySite s m M (siteProd n w) = _
      rw [applySite_siteProd n w hloc j s hj hs]
      simp only [Op.loc, hsite]; rfl
    · intro k
      simp only [Op.loc, hsite]
      by_cases hk : k = j
      · subst hk; rw [update_self]; exact (hloc k).applySite hs m M
      · rw [update_of_ne hk]; exact hloc k
  | pair s t m1 m2 o1 o2 G =>
    obtain ⟨j, hj, rfl, rfl⟩ := hok
    have hsite : (Op.pair (ptSlot j) (physSlot j) m1 m2 o1 o2 G).siteOf = j :=
      SlotOf.div (Or.inr rfl)
    constructor
    · show applyPair (ptSlot j) (physSlot j) m1 m2 G (siteProd n w) = _
      rw [applyOwn_siteProd n w hloc j hj]
      simp only [Op.loc, hsite]; rfl
    · intro k
      simp only [Op.loc, hsite]
      by_cases hk : k = j
      · subst hk; rw [update_self]; exact (hloc k).applyPair m1 m2 G
      · rw [update_of_ne hk]; exact hloc k

/-- **product states stay product** under site-local operations, and the factors evolve by
    `Op.loc` -/
theorem runOps_siteProd (n : ℕ) (ops : List (Op K)) (hok : ∀ o ∈ ops, IsLocalOp n o)
    (w : ℕ → Config → K) (hloc : ∀ k, LocalTo k (w k)) :
    runOps ops (siteProd n w) = siteProd n (ops.foldl (fun w o => o.loc w) w)
      ∧ ∀ k, LocalTo k (ops.foldl (fun w o => o.loc w) w k) := by
  induction ops generalizing w with
  | nil => exact ⟨rfl, hloc⟩
  | cons o ops ih =>
    obtain ⟨h1, h2⟩ := run_siteProd n o (hok o (List.mem_cons_self ..)) w hloc
    have := ih (fun o' ho' => hok o' (List.mem_cons_of_mem _ ho')) (o.loc w) h2
    simp only [List.foldl_cons]
    refine ⟨?_, this.2⟩
    show runOps ops (o.run (siteProd n w)) = _
    rw [h1, this.1]

/-- the factor of site `j` evolves by exactly the operations that belong to site `j`, in order -/
theorem loc_fold_site (ops : List (Op K)) (w : ℕ → Config → K) (j : ℕ) :
    ops.foldl (fun w o => o.loc w) w j
      = runOps (ops.filter (fun o => decide (o.siteOf = j))) (w j) := by
  induction ops generalizing w with
  | nil => rfl
  | cons o ops ih =>
    simp only [List.foldl_cons]
    rw [ih]
    by_cases h : o.siteOf = j
    · simp only [List.filter_cons, h, decide_true, if_true]
      show _ = runOps _ (o.run (w j))
      simp only [Op.loc, h, update_self]
    · simp only [List.filter_cons, h, decide_false, Bool.false_eq_true, if_false]
      simp only [Op.loc]
      rw [update_of_ne (fun e => h e.symm)]

/-- operations generated per site: only the entry of site `j` belongs to site `j` -/
theorem filter_site_filterMap (n : ℕ) (F : ℕ → Option (Op K))
    (hF : ∀ i o, F i = some o → o.siteOf = i) (j : ℕ) :
    ((List.range n).filterMap F).filter (fun o => decide (o.siteOf = j))
      = if j < n then (F j).toList else [] := by
  induction n with
  | zero => simp
  | succ n ih =>
    rw [List.range_succ, List.filterMap_append, List.filter_append, ih]
    simp only [List.filterMap_cons, List.filterMap_nil]
    cases hFn : F n with
    | none =>
      by_cases h1 : j < n
      · have : j < n + 1 := by omega
        simp [h1, this]
      · by_cases h2 : j = n
        · subst h2; simp [hFn]
        · have : ¬ j < n + 1 := by omega
          simp [h1, this]
    | some o =>
      have ho : o.siteOf = n := hF n o hFn
      by_cases h1 : j < n
      · have h3 : j < n + 1 := by omega
        have h4 : ¬ n = j := by omega
        simp [h1, h3, ho, h4]
      · by_cases h2 : j = n
        · subst h2; simp [hFn, ho]
        · have h3 : ¬ j < n + 1 := by omega
          have h4 : ¬ n = j := fun e => h2 e.symm
          simp [h1, h3, ho, h4]

end OQuPyVerif.Tebd
