/- One propagator (half a step) of the dense chain model as a sequence of one-parameter
   families: commuting gates collapse to one application per bond, Kronecker gates of an
   uncoupled chain to one application per site. -/
import OQuPyVerif.Lemmas.TebdLayers
import OQuPyVerif.Lemmas.TebdDense
import OQuPyVerif.Lemmas.TebdCanonical

namespace OQuPyVerif.Tebd
open OQuPyVerif.Generated
open Finset BigOperators Function

variable {K : Type} [CommRing K]

theorem physSlot_ne_succ (i : ℕ) : physSlot i ≠ physSlot (i + 1) := by
  unfold physSlot; omega

theorem physSlot_inj {i j : ℕ} (h : i ≠ j) : physSlot i ≠ physSlot j := by
  unfold physSlot; omega

theorem applySeq_cons {X : Type} (P : ℕ → ℚ → X → X) (g : ℕ × ℚ) (gs : List (ℕ × ℚ)) (x : X) :
    applySeq P (g :: gs) x = applySeq P gs (P g.1 g.2 x) := rfl

theorem mem_halfStepGates (n : ℕ) (order : ℤ) (dt : ℚ) (g : ℕ × ℚ)
    (h : g ∈ halfStepGates n order dt) : ∃ ℓ, g.1 ∈ layerBonds n ℓ := by
  unfold halfStepGates halfStepLayers at h
  split at h
  · simp at h
  · rename_i frac layers _
    simp only [List.mem_flatMap, List.mem_map] at h
    obtain ⟨ly, ⟨ℓ, _, rfl⟩, i, hi, rfl⟩ := h
    exact ⟨ℓ, hi⟩

theorem halfStepGates_lt (n : ℕ) (order : ℤ) (dt : ℚ) (g : ℕ × ℚ)
    (h : g ∈ halfStepGates n order dt) : g.1 + 1 < n := by
  obtain ⟨ℓ, hℓ⟩ := mem_halfStepGates n order dt g h
  exact layerBonds_lt n ℓ g.1 hℓ

/-- bond `i` receives the total time `dt/2` in one propagator -/
theorem labelTime_halfStepGates (n : ℕ) (order : ℤ) (ho : order = 1 ∨ order = 2) (dt : ℚ)
    (i : ℕ) (hi : i < n - 1) : labelTime (halfStepGates n order dt) i = dt / 2 := by
  have h := halfStep_sum n order ho dt (fun k => if k = i then (1 : ℚ) else 0)
  rw [bond_indicator_sum n i hi, mul_one] at h
  rw [← h]
  unfold labelTime
  congr 1
  apply List.map_congr_left
  intro g _
  by_cases hg : g.1 = i <;> simp [hg]

section
variable (ch : Chain K)

/-- the gate of bond `i` for time `t` as an operation on the dense state -/
def Chain.bondOp (i : ℕ) (t : ℚ) : (Config → K) → (Config → K) :=
  applyPair (physSlot i) (physSlot (i + 1)) (ch.L i) (ch.L (i + 1)) (ch.gate i t)

/-- a single-site map `E j t` on the physical slot of site `j` -/
def Chain.siteOp (E : ℕ → ℚ → ℕ → ℕ → K) (j : ℕ) (t : ℚ) : (Config → K) → (Config → K) :=
  applySite (physSlot j) (ch.L j) (E j t)

theorem runOps_halfOps (order : ℤ) (dt : ℚ) (ψ : Config → K) :
    runOps (ch.halfOps order dt) ψ = applySeq ch.bondOp (halfStepGates ch.n order dt) ψ := by
  unfold runOps Chain.halfOps applySeq
  rw [List.foldl_map]
  rfl

/-- **commuting gates**: one propagator equals one gate per bond with time `dt/2` -/
theorem halfOps_commuting (order : ℤ) (ho : order = 1 ∨ order = 2) (dt : ℚ) (hdt : dt ≠ 0)
    (hgrp : ∀ i s t, pmul (ch.L i) (ch.L (i + 1)) (ch.gate i s) (ch.gate i t) = ch.gate i (s + t))
    (hcomm : ∀ i i' s t (φ : Config → K), i < ch.n - 1 → i' < ch.n - 1 → i ≠ i' →
      ch.bondOp i s (ch.bondOp i' t φ) = ch.bondOp i' t (ch.bondOp i s φ))
    (ψ : Config → K) :
    runOps (ch.halfOps order dt) ψ
      = (List.range (ch.n - 1)).foldl (fun φ i => ch.bondOp i (dt / 2) φ) ψ := by
  rw [runOps_halfOps]
  have hg : ∀ i s t (x : Config → K), ch.bondOp i s (ch.bondOp i t x) = ch.bondOp i (s + t) x := by
    intro i s t x
    unfold Chain.bondOp
    rw [applyPair_comp _ _ (physSlot_ne_succ i), hgrp]
  have hlt : ∀ g ∈ halfStepGates ch.n order dt, g.1 < ch.n - 1 := by
    intro g hg'
    have := halfStepGates_lt ch.n order dt g hg'
    omega
  have hocc : ∀ i, i < ch.n - 1 → ∃ g ∈ halfStepGates ch.n order dt, g.1 = i := by
    intro i hi
    by_contra hno
    have hz := labelTime_of_not_occ (halfStepGates ch.n order dt) i
      (fun g hg' e => hno ⟨g, hg', e⟩)
    rw [labelTime_halfStepGates ch.n order ho dt i hi] at hz
    exact hdt (by linarith)
  rw [applySeq_canonical ch.bondOp hg (ch.n - 1) hcomm (ch.n - 1) (le_refl _) _ hlt hocc]
  apply List.foldl_ext
  intro φ i hi
  rw [labelTime_halfStepGates ch.n order ho dt i (List.mem_range.mp hi)]

/-! ### uncoupled chain -/

/-- the single-site applications a list of Kronecker gates amounts to: the gate on bond `i` for
    time `t` is `E i (t·factor_l) ⊗ E (i+1) (t·factor_r)`; the right factor is applied first -/
def siteGates (n : ℕ) (gs : List (ℕ × ℚ)) : List (ℕ × ℚ) :=
  gs.flatMap (fun g =>
    [(g.1 + 1, g.2 * TebdLayers.factor_r (g.1 : ℤ) (n : ℤ)),
     (g.1, g.2 * TebdLayers.factor_l (g.1 : ℤ) (n : ℤ))])

theorem labelTime_siteGates (n : ℕ) (gs : List (ℕ × ℚ)) (j : ℕ) :
    labelTime (siteGates n gs) j = (gs.map (fun g => g.2 * siteShare n g.1 j)).sum := by
  induction gs with
  | nil => rfl
  | cons g gs ih =>
    have e : siteGates n (g :: gs) = [(g.1 + 1, g.2 * TebdLayers.factor_r (g.1 : ℤ) (n : ℤ)),
        (g.1, g.2 * TebdLayers.factor_l (g.1 : ℤ) (n : ℤ))] ++ siteGates n gs := rfl
    rw [e, labelTime_append, ih, List.map_cons, List.sum_cons]
    congr 1
    rw [siteShare_eq, labelTime_cons, labelTime_cons, labelTime_nil]
    by_cases h1 : j = g.1 <;> by_cases h2 : j = g.1 + 1
    · omega
    · subst h1
      simp
    · subst h2
      simp
    · have h1' : ¬ g.1 = j := fun e => h1 e.symm
      have h2' : ¬ g.1 + 1 = j := fun e => h2 e.symm
      simp [h1, h2, h1', h2']

variable (E : ℕ → ℚ → ℕ → ℕ → K)

/-- with Kronecker gates, the bond sequence is a sequence of single-site applications -/
theorem applySeq_bond_eq_site (gs : List (ℕ × ℚ))
    (hG : ∀ i t, ch.gate i t = kron (E i (t * TebdLayers.factor_l (i : ℤ) (ch.n : ℤ)))
      (E (i + 1) (t * TebdLayers.factor_r (i : ℤ) (ch.n : ℤ))))
    (ψ : Config → K) :
    applySeq ch.bondOp gs ψ = applySeq (ch.siteOp E) (siteGates ch.n gs) ψ := by
  induction gs generalizing ψ with
  | nil => rfl
  | cons g gs ih =>
    have e : siteGates ch.n (g :: gs) = [(g.1 + 1, g.2 * TebdLayers.factor_r (g.1 : ℤ) (ch.n : ℤ)),
        (g.1, g.2 * TebdLayers.factor_l (g.1 : ℤ) (ch.n : ℤ))] ++ siteGates ch.n gs := rfl
    rw [applySeq_cons, ih, e, applySeq_append]
    congr 1
    unfold Chain.bondOp
    rw [hG, applyPair_kron _ _ (physSlot_ne_succ g.1)]
    rfl

/-- **uncoupled chain**: one propagator equals `E j (dt/2)` on every site `j` -/
theorem halfOps_uncoupled (order : ℤ) (ho : order = 1 ∨ order = 2) (dt : ℚ) (hdt : dt ≠ 0)
    (hn : 2 ≤ ch.n)
    (hE : ∀ j s t, mmul (ch.L j) (E j s) (E j t) = E j (s + t))
    (hG : ∀ i t, ch.gate i t = kron (E i (t * TebdLayers.factor_l (i : ℤ) (ch.n : ℤ)))
      (E (i + 1) (t * TebdLayers.factor_r (i : ℤ) (ch.n : ℤ))))
    (ψ : Config → K) :
    runOps (ch.halfOps order dt) ψ
      = (List.range ch.n).foldl (fun φ j => ch.siteOp E j (dt / 2) φ) ψ := by
  rw [runOps_halfOps, applySeq_bond_eq_site ch E _ hG]
  have hw : ∀ j, j < ch.n → labelTime (siteGates ch.n (halfStepGates ch.n order dt)) j = dt / 2 := by
    intro j hj
    rw [labelTime_siteGates, halfStep_sum ch.n order ho dt (fun i => siteShare ch.n i j),
      siteShare_sum ch.n hn j hj, mul_one]
  have hg : ∀ j s t (x : Config → K), ch.siteOp E j s (ch.siteOp E j t x) = ch.siteOp E j (s + t) x := by
    intro j s t x
    unfold Chain.siteOp
    rw [applySite_comp, hE]
  have hc : ∀ j j' s t (x : Config → K), j < ch.n → j' < ch.n → j ≠ j' →
      ch.siteOp E j s (ch.siteOp E j' t x) = ch.siteOp E j' t (ch.siteOp E j s x) := by
    intro j j' s t x _ _ hjj
    unfold Chain.siteOp
    exact applySite_comm _ _ (physSlot_inj hjj) _ _ _ _ _
  have hlt : ∀ g ∈ siteGates ch.n (halfStepGates ch.n order dt), g.1 < ch.n := by
    intro g hg'
    unfold siteGates at hg'
    simp only [List.mem_flatMap, List.mem_cons, List.not_mem_nil, or_false] at hg'
    obtain ⟨g0, hg0, rfl | rfl⟩ := hg'
    · exact halfStepGates_lt ch.n order dt g0 hg0
    · have := halfStepGates_lt ch.n order dt g0 hg0
      show g0.1 < ch.n
      omega
  have hocc : ∀ j, j < ch.n → ∃ g ∈ siteGates ch.n (halfStepGates ch.n order dt), g.1 = j := by
    intro j hj
    by_contra hno
    have hz := labelTime_of_not_occ _ j (fun g hg' e => hno ⟨g, hg', e⟩)
    rw [hw j hj] at hz
    exact hdt (by linarith)
  rw [applySeq_canonical (ch.siteOp E) hg ch.n hc ch.n (le_refl _) _ hlt hocc]
  apply List.foldl_ext
  intro φ j hj
  rw [hw j (List.mem_range.mp hj)]

end

end OQuPyVerif.Tebd
