/-
  C15 helper lemmas (binary64): what is left of the covariance once every operation rounds.

  * `evalF_timePlusInv_residue`: an expression `time variable + (no time variables)` — the
    shape of every grid time `start + k·dt` and of every half-step or quarter-step time `t + dt/4` —
    differs from its shifted version by exactly τ up to ONE rounding on each side.
  * `evalF_diffOnly`: an expression in which times only occur as differences `t₁ - t₂`
    (every float → step rounding site) is bit-identical under an exact shift of its inputs.
-/
import Mathlib.Tactic.Ring
import Mathlib.Tactic.Linarith
import OQuPyVerif.Lemmas.TimeShift
import OQuPyVerif.Lemmas.FloatGrid

namespace OQuPyVerif.TimeShift
open OQuPyVerif.FloatModel

/-- shift of a binary64 environment by the exact rational τ -/
def shiftF (m : List Bool) (τ : Rat) (env : Nat → Rat) : Nat → Rat :=
  shiftEnv (fun a b => a + b) m τ env

theorem evalF_noTime (m : List Bool) (τ : Rat) (env : Nat → Rat) (ienv : Nat → Int)
    (e : TExpr) (h : noTime m e = true) : evalF (shiftF m τ env) ienv e = evalF env ienv e :=
  evalOps_noTime floatOps _ m τ env ienv e h

/-- Float → step conversions are bit-identical under an exact shift: `(t+τ) − (s+τ)` and `t − s`
    are the same rational, so `fsub` rounds the same number. -/
theorem evalF_diffOnly (m : List Bool) (τ : Rat) (env : Nat → Rat) (ienv : Nat → Int) :
    ∀ e : TExpr, diffOnly m e = true → evalF (shiftF m τ env) ienv e = evalF env ienv e := by
  intro e
  induction e with
  | var i =>
    intro h
    simp only [diffOnly, Bool.not_eq_true'] at h
    simp only [evalF, evalOps, shiftF, shiftEnv, h]
    rfl
  | ofI e => intro _; rfl
  | lit q => intro _; rfl
  | add a b iha ihb =>
    intro h
    simp only [diffOnly, Bool.and_eq_true] at h
    simp only [evalF, evalOps] at iha ihb ⊢
    rw [iha h.1, ihb h.2]
  | mul a b iha ihb =>
    intro h
    simp only [diffOnly, Bool.and_eq_true] at h
    simp only [evalF, evalOps] at iha ihb ⊢
    rw [iha h.1, ihb h.2]
  | div a b iha ihb =>
    intro h
    simp only [diffOnly, Bool.and_eq_true] at h
    simp only [evalF, evalOps] at iha ihb ⊢
    rw [iha h.1, ihb h.2]
  | neg a iha =>
    intro h
    simp only [diffOnly] at h
    simp only [evalF, evalOps] at iha ⊢
    rw [iha h]
  | round a iha =>
    intro h
    simp only [diffOnly] at h
    simp only [evalF, evalOps] at iha ⊢
    rw [iha h]
  | trunc a iha =>
    intro h
    simp only [diffOnly] at h
    simp only [evalF, evalOps] at iha ⊢
    rw [iha h]
  | sub a b iha ihb =>
    intro h
    -- either the special shape `var i - var j`, or componentwise
    by_cases hs : ∃ i j, a = .var i ∧ b = .var j
    · obtain ⟨i, j, rfl, rfl⟩ := hs
      simp only [diffOnly, Bool.or_eq_true, Bool.and_eq_true, Bool.not_eq_true'] at h
      simp only [evalF, evalOps, floatOps, shiftF, shiftEnv]
      rcases h with ⟨hi, hj⟩ | ⟨hi, hj⟩
      · simp only [hi, hj, if_true]
        unfold fsub
        congr 1
        ring
      · simp only [hi, hj, Bool.false_eq_true, if_false]
    · have h' : diffOnly m a = true ∧ diffOnly m b = true := by
        cases a <;> cases b <;>
          first
          | (exfalso; exact hs ⟨_, _, rfl, rfl⟩)
          | simpa only [diffOnly, Bool.and_eq_true] using h
      simp only [evalF, evalOps] at iha ihb ⊢
      rw [iha h'.1, ihb h'.2]

/-- binary64 residue of a `time + invariant` expression: with `B` the (unchanged) binary64 value
    of the invariant part and `x` the time variable,
    `|fl(x+τ+B) − τ − fl(x+B)| ≤ 2⁻⁵³ (|x+τ+B| + |x+B|)`. -/
theorem evalF_timePlusInv_residue (m : List Bool) (τ : Rat) (env : Nat → Rat) (ienv : Nat → Int)
    (i : Nat) (b : TExpr) (hi : m.getD i false = true) (hb : diffOnly m b = true) :
    |evalF (shiftF m τ env) ienv (.add (.var i) b) - τ - evalF env ienv (.add (.var i) b)|
      ≤ (1 / 2 ^ 53) * (|env i + τ + evalF env ienv b| + |env i + evalF env ienv b|) := by
  have hB := evalF_diffOnly m τ env ienv b hb
  have hx : shiftF m τ env i = env i + τ := by
    simp only [shiftF, shiftEnv, hi, if_true]
  have key : evalF (shiftF m τ env) ienv (.add (.var i) b)
      = rnd (env i + τ + evalF env ienv b) := by
    show fadd (shiftF m τ env i) (evalF (shiftF m τ env) ienv b) = _
    rw [hx, hB]
    rfl
  have key2 : evalF env ienv (.add (.var i) b) = rnd (env i + evalF env ienv b) := rfl
  rw [key, key2]
  generalize evalF env ienv b = B
  have e1 := OQuPyVerif.FloatGrid.rnd_err (env i + τ + B)
  have e2 := OQuPyVerif.FloatGrid.rnd_err (env i + B)
  have : rnd (env i + τ + B) - τ - rnd (env i + B)
       = (rnd (env i + τ + B) - (env i + τ + B)) - (rnd (env i + B) - (env i + B)) := by ring
  rw [this]
  calc |(rnd (env i + τ + B) - (env i + τ + B)) - (rnd (env i + B) - (env i + B))|
      ≤ |rnd (env i + τ + B) - (env i + τ + B)| + |rnd (env i + B) - (env i + B)| := abs_sub _ _
    _ ≤ 1 / 2 ^ 53 * |env i + τ + B| + 1 / 2 ^ 53 * |env i + B| := add_le_add e1 e2
    _ = 1 / 2 ^ 53 * (|env i + τ + B| + |env i + B|) := by ring

/-- a rounding is stable as long as both quotients stay within 1/2 of the same integer -/
theorem round_stable (q q' : Rat) (n : Int) (h : |q - n| < 1 / 2) (h' : |q' - n| < 1 / 2) :
    roundHalfEven q' = roundHalfEven q := by
  rw [OQuPyVerif.FloatGrid.roundHalfEven_eq_of_close q n h,
      OQuPyVerif.FloatGrid.roundHalfEven_eq_of_close q' n h']

end OQuPyVerif.TimeShift
