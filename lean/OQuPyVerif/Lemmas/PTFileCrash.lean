/- Lemmas for C17, generic in the `Flags` read off the source: the flag invariant along a
   writer's trace, reader outcomes on crash states, creation modes, `remove()`. Mathlib-free. -/
import OQuPyVerif.Lemmas.PTFile

namespace OQuPyVerif.PTFile

/-! ### operations that neither open a file nor clear the flag -/

def Op.benign : Op → Bool
  | .openMode _ => false
  | .setWriting false => false
  | _ => true

theorem benign_of_rowOp (op : Op) (h : op.isRowOp = true) : op.benign = true := by
  cases op <;> simp [Op.isRowOp] at h <;> rfl

theorem notOpen_of_benign (op : Op) (h : op.benign = true) : op.isOpen = false := by
  cases op <;> simp [Op.benign] at h <;> rfl

/-- the flag has not been cleared -/
def NotCleared : Disk → Prop
  | .file c => c.writing ≠ some false
  | _ => True

theorem notCleared_applyOpC (c : H5) (op : Op) (hb : op.benign = true)
    (h : c.writing ≠ some false) : (applyOpC c op).writing ≠ some false := by
  cases op with
  | setWriting b => cases b <;> simp [Op.benign] at hb; simp [applyOpC]
  | setAttrStr a s => cases a <;> simpa [applyOpC] using h
  | createArr a t => cases a <;> simpa [applyOpC] using h
  | openMode m => simpa [applyOpC] using h
  | createHsDim n => simpa [applyOpC] using h
  | createData v n => simpa [applyOpC] using h
  | createShape v n => simpa [applyOpC] using h
  | resizeShape v n => simpa [applyOpC] using h
  | resizeData v n => simpa [applyOpC] using h
  | writeShape v i r => simpa [applyOpC] using h
  | writeData v i r => simpa [applyOpC] using h
  | fclose => simpa [applyOpC] using h

theorem notCleared_applyOp (d : Disk) (op : Op) (hb : op.benign = true) (h : NotCleared d) :
    NotCleared (applyOp d op) := by
  rw [applyOp_notOpen _ _ (notOpen_of_benign op hb)]
  cases d with
  | file c => exact notCleared_applyOpC c op hb h
  | missing => trivial
  | unreadable => trivial

theorem notCleared_replay (d : Disk) (ops : List Op) (hb : ∀ op ∈ ops, op.benign = true)
    (h : NotCleared d) : NotCleared (replay d ops) := by
  induction ops generalizing d with
  | nil => exact h
  | cons op ops ih =>
    rw [replay_cons]
    exact ih _ (fun o ho => hb o (by simp [ho])) (notCleared_applyOp d op (hb op (by simp)) h)

theorem notCleared_open (d : Disk) (hm : H5Mode) (h : NotCleared d) : NotCleared (h5openDisk d hm) := by
  cases d <;> cases hm <;> first | exact h | (simp [h5openDisk, NotCleared])

/-! ### the reader -/

theorem readOutcome_notCleared (F : Flags) (hw : F.readWarn .npTrue = true) (d : Disk)
    (h : NotCleared d) : readOutcome F d ≠ .clean := by
  unfold readOutcome
  split
  · simp
  · rename_i hm _
    split
    · simp
    · have h2 := notCleared_open d hm h
      split
      · rename_i c hc
        rw [hc] at h2
        split
        · simp
        · split
          · simp
          · rename_i b hb
            cases b with
            | false => exact absurd hb h2
            | true => simp [h5AttrRead, PyVal.npOfBool, hw]
      · simp

theorem readOutcome_unreadable (F : Flags) : readOutcome F .unreadable = .fail := by
  unfold readOutcome
  split
  · rfl
  · rename_i hm _
    cases hm <;> simp [h5openOk, h5openDisk, H5.hasAttr] <;> (try (intros; rfl))

theorem readOutcome_missing_r (F : Flags) (hr : F.readMode = "r") : readOutcome F .missing = .fail := by
  unfold readOutcome
  rw [hr]
  rfl

/-- all attributes and datasets of a process-tensor file exist -/
structure AllPresent (c : H5) : Prop where
  version : c.version.isSome
  name : c.name.isSome
  description : c.description.isSome
  writing : c.writing.isSome
  hsDim : c.hsDim.isSome
  dt : c.dt.isSome
  tin : c.tin.isSome
  tout : c.tout.isSome
  initD : c.init.data.isSome
  initS : c.init.shape.isSome
  mpoD : c.mpo.data.isSome
  mpoS : c.mpo.shape.isSome
  capD : c.cap.data.isSome
  capS : c.cap.shape.isSome

theorem complete_of_allPresent (F : Flags) (c : H5) (h : AllPresent c) :
    (F.readAttrs.all c.hasAttr && F.readArrs.all c.hasArr && F.readVs.all c.hasV) = true := by
  simp only [Bool.and_eq_true, List.all_eq_true]
  refine ⟨⟨?_, ?_⟩, ?_⟩
  · intro a _
    cases a
    · exact h.version
    · exact h.name
    · exact h.description
    · exact h.writing
  · intro a _
    cases a
    · exact h.hsDim
    · exact h.dt
    · exact h.tin
    · exact h.tout
  · intro k _
    obtain ⟨v, b⟩ := k
    cases v <;> cases b <;> simp [H5.hasV, H5.vds] <;>
      first | exact h.initD | exact h.initS | exact h.mpoD | exact h.mpoS | exact h.capD | exact h.capS

theorem readOutcome_present (F : Flags) (hr : F.readMode = "r") (c : H5) (h : AllPresent c)
    (b : Bool) (hb : c.writing = some b) :
    readOutcome F (.file c) = if F.readWarn (h5AttrRead b) then .warn else .clean := by
  unfold readOutcome
  rw [hr]
  show (if !h5openOk (Disk.file c) H5Mode.r then Outcome.fail else _) = _
  simp only [h5openOk, h5openDisk, Bool.not_true, Bool.false_eq_true, if_false,
    complete_of_allPresent F c h, hb]

/-! ### presence and the flag along `set_*` calls -/

theorem allPresent_setTensor (c : H5) (v : VName) (k : Nat) (t : Option Tensor) (h : AllPresent c) :
    AllPresent (c.setTensor v k t) := by
  obtain ⟨h1, h2, h3, h4, h5, h6, h7, h8, h9, h10, h11, h12, h13, h14⟩ := h
  cases v <;> constructor <;>
    simp_all [H5.setTensor, H5.setVds, H5.vds, VDs.setDS, Option.isSome_map]

theorem allPresent_pureCmd (c : H5) (cmd : Cmd) (h : AllPresent c) : AllPresent (pureCmd c cmd) := by
  cases cmd <;> exact allPresent_setTensor _ _ _ _ h

theorem allPresent_foldl (c : H5) (cmds : List Cmd) (h : AllPresent c) :
    AllPresent (cmds.foldl pureCmd c) := by
  induction cmds generalizing c with
  | nil => exact h
  | cons x xs ih => exact ih _ (allPresent_pureCmd c x h)

theorem writing_pureCmd (c : H5) (cmd : Cmd) : (pureCmd c cmd).writing = c.writing := by
  cases cmd <;> simp [pureCmd, H5.setTensor]

theorem writing_foldl (c : H5) (cmds : List Cmd) : (cmds.foldl pureCmd c).writing = c.writing := by
  induction cmds generalizing c with
  | nil => rfl
  | cons x xs ih => rw [List.foldl_cons, ih, writing_pureCmd]

theorem allPresent_fresh (env : Env) (m : Meta) : AllPresent (freshContent env m) := by
  constructor <;> rfl

/-! ### the writer -/

/-- what the theorems need to know about the constructor of a writing `FileProcessTensor` -/
structure WriterHyps (F : Flags) (mode : String) (ovw : Bool) (hm : H5Mode) : Prop where
  steps : F.createSteps = stdCreateSteps
  mode : F.modeFlags mode = some (true, ovw)
  h5 : H5Mode.ofString? (F.createMode ovw) = some hm
  trunc : hm = .w ∨ hm = .x

theorem open_fresh (d : Disk) (hm : H5Mode) (ht : hm = .w ∨ hm = .x) (hok : h5openOk d hm = true) :
    h5openDisk d hm = .file {} := by
  rcases ht with rfl | rfl
  · cases d <;> rfl
  · cases d <;> simp [h5openOk] at hok <;> rfl

theorem createFile_spec {F : Flags} {mode : String} {ovw : Bool} {hm : H5Mode}
    (H : WriterHyps F mode ovw hm) (env : Env) (d : Disk) (m : Meta) (hok : h5openOk d hm = true) :
    createFile F env d mode m = .ok ⟨.file (freshContent env m), createTrace env m hm⟩ := by
  unfold createFile
  rw [H.mode]
  simp only [H.h5, hok, if_true, H.steps]
  rw [createFold_spec env m hm d (open_fresh d hm H.trunc hok)]

theorem createFile_fails {F : Flags} {mode : String} {ovw : Bool} {hm : H5Mode}
    (H : WriterHyps F mode ovw hm) (env : Env) (d : Disk) (m : Meta) (hok : h5openOk d hm = false) :
    createFile F env d mode m = .error .osError := by
  unfold createFile
  rw [H.mode]
  simp [H.h5, hok]

/-- everything `_create_file` issues after the open call -/
def createRest (env : Env) (m : Meta) : List Op := (createTrace env m .w).tail

theorem createTrace_eq (env : Env) (m : Meta) (hm : H5Mode) :
    createTrace env m hm = .openMode hm :: createRest env m := rfl

theorem createRest_benign (env : Env) (m : Meta) : ∀ op ∈ createRest env m, op.benign = true := by
  intro op h
  simp only [createRest, createTrace, List.tail_cons, List.mem_cons, List.not_mem_nil, or_false] at h
  rcases h with h | h | h | h | h | h | h | h | h | h | h | h | h | h | h | h <;> (subst h; rfl)

/-- the writer without `close()`: trace = open :: benign operations, content = the `set_*`
    calls applied to the fresh content -/
theorem writer_open_spec {F : Flags} {mode : String} {ovw : Bool} {hm : H5Mode}
    (H : WriterHyps F mode ovw hm) (env : Env) (d : Disk) (m : Meta) (hok : h5openOk d hm = true)
    (cmds : List Cmd) :
    ∃ rest, writerW F env d mode m cmds false =
        .ok ⟨.file (cmds.foldl pureCmd (freshContent env m)), .openMode hm :: rest⟩ ∧
      (∀ op ∈ rest, op.benign = true) ∧
      replay d (.openMode hm :: rest) = .file (cmds.foldl pureCmd (freshContent env m)) := by
  unfold writerW
  rw [createFile_spec H env d m hok]
  simp only [Bool.false_eq_true, if_false]
  obtain ⟨ext, ht, hd, hp⟩ := runCmds_extends ⟨.file (freshContent env m), createTrace env m hm⟩ cmds
  have hd2 := runCmds_d ⟨.file (freshContent env m), createTrace env m hm⟩ cmds
  refine ⟨createRest env m ++ ext, ?_, ?_, ?_⟩
  · congr 1
    generalize runCmds _ cmds = w at ht hd hd2
    obtain ⟨wd, wt⟩ := w
    simp only at ht hd2
    rw [ht, hd2, createTrace_eq]
    rfl
  · intro op hop
    rcases List.mem_append.mp hop with h | h
    · exact createRest_benign env m op h
    · exact benign_of_rowOp op (hp op h)
  · have : replay d (.openMode hm :: (createRest env m ++ ext)) =
        replay (replay d (createTrace env m hm)) ext := by
      rw [createTrace_eq, ← replay_append]; rfl
    rw [this]
    have hc : replay d (createTrace env m hm) = .file (freshContent env m) := by
      have := createFold_spec env m hm d (open_fresh d hm H.trunc hok)
      -- the handle's view is the replay of its trace
      rw [createTrace_eq, replay_cons]
      show replay (h5openDisk d hm) (createRest env m) = _
      rw [open_fresh d hm H.trunc hok]
      rfl
    rw [hc, ← hd, hd2]
    rfl

/-! ### `close()` -/

theorem closeW_spec (F : Flags) (hreset : F.closeReset true .npTrue = true) (c : H5) (tr : List Op)
    (hw : c.writing = some true) :
    closeW F true ⟨.file c, tr⟩ =
      ⟨.file { c with writing := some F.closeValue }, tr ++ [.setWriting F.closeValue, .fclose]⟩ := by
  unfold closeW
  simp only [hw, h5AttrRead, PyVal.npOfBool, if_true, hreset]
  rw [emit_file _ _ _ rfl, emit_file _ _ _ rfl]
  simp [applyOpC]

/-- the complete writer: construction, any `set_*` calls, `close()` -/
theorem writer_closed_spec {F : Flags} {mode : String} {ovw : Bool} {hm : H5Mode}
    (H : WriterHyps F mode ovw hm) (hreset : F.closeReset true .npTrue = true)
    (env : Env) (d : Disk) (m : Meta) (hok : h5openOk d hm = true) (cmds : List Cmd) :
    ∃ rest, writerW F env d mode m cmds true =
        .ok ⟨.file { cmds.foldl pureCmd (freshContent env m) with writing := some F.closeValue },
             (.openMode hm :: rest) ++ [.setWriting F.closeValue, .fclose]⟩ ∧
      (∀ op ∈ rest, op.benign = true) ∧
      replay d (.openMode hm :: rest) = .file (cmds.foldl pureCmd (freshContent env m)) := by
  obtain ⟨rest, h1, h2, h3⟩ := writer_open_spec H env d m hok cmds
  refine ⟨rest, ?_, h2, h3⟩
  unfold writerW at h1 ⊢
  cases hc : createFile F env d mode m with
  | error e => rw [hc] at h1; simp at h1
  | ok w0 =>
    rw [hc] at h1
    simp only [Bool.false_eq_true, if_false, Except.ok.injEq] at h1
    simp only [if_true]
    rw [h1, closeW_spec F hreset _ _ (by rw [writing_foldl]; rfl)]

/-! ### crash states -/

/-- (H4) what can be on disk when the writer dies after having issued `i ≥ 1` operations:
    an unreadable file, or the file produced by a prefix `1 ≤ j ≤ i` of them -/
def CrashState (d0 : Disk) (trace : List Op) (i : Nat) (d : Disk) : Prop :=
  d = .unreadable ∨ ∃ j, 1 ≤ j ∧ j ≤ i ∧ d = replay d0 (trace.take j)

theorem prefix_notCleared (d0 : Disk) (hm : H5Mode) (rest : List Op)
    (hfresh : h5openDisk d0 hm = .file {}) (hb : ∀ op ∈ rest, op.benign = true)
    (j : Nat) (hj : 1 ≤ j) : NotCleared (replay d0 ((Op.openMode hm :: rest).take j)) := by
  obtain ⟨j', rfl⟩ : ∃ j', j = j' + 1 := ⟨j - 1, by omega⟩
  rw [List.take_succ_cons, replay_cons]
  show NotCleared (replay (h5openDisk d0 hm) _)
  rw [hfresh]
  apply notCleared_replay
  · intro op hop
    exact hb op (List.mem_of_mem_take hop)
  · show ({} : H5).writing ≠ some false
    simp

theorem crash_never_clean (F : Flags) (hw : F.readWarn .npTrue = true) (d0 : Disk) (hm : H5Mode)
    (rest tail : List Op) (hfresh : h5openDisk d0 hm = .file {})
    (hb : ∀ op ∈ rest, op.benign = true) (i : Nat) (hi : i ≤ rest.length + 1) (d : Disk)
    (hc : CrashState d0 ((Op.openMode hm :: rest) ++ tail) i d) : readOutcome F d ≠ .clean := by
  rcases hc with rfl | ⟨j, hj1, hj2, rfl⟩
  · rw [readOutcome_unreadable]; simp
  · rw [List.take_append_of_le_length (by simp; omega)]
    exact readOutcome_notCleared F hw _ (prefix_notCleared d0 hm rest hfresh hb j hj1)

/-- **Interrupted writers.**  Any writer (construction in a creating mode, any `set_*` calls,
    `close()`): if it dies after `i` operations, before `close()` has issued its first one,
    then whatever (H4) leaves on disk is not opened silently. -/
theorem writer_interrupted_never_clean {F : Flags} {mode : String} {ovw : Bool} {hm : H5Mode}
    (H : WriterHyps F mode ovw hm) (hw : F.readWarn .npTrue = true)
    (hreset : F.closeReset true .npTrue = true)
    (env : Env) (d0 : Disk) (m : Meta) (hok : h5openOk d0 hm = true) (cmds : List Cmd) (w : W)
    (hrun : writerW F env d0 mode m cmds true = .ok w)
    (i : Nat) (hi : i + 2 ≤ w.trace.length) (d : Disk) (hc : CrashState d0 w.trace i d) :
    readOutcome F d ≠ .clean := by
  obtain ⟨rest, h1, h2, _⟩ := writer_closed_spec H hreset env d0 m hok cmds
  rw [h1] at hrun
  cases hrun
  simp only [List.length_append, List.length_cons, List.length_nil] at hi
  exact crash_never_clean F hw d0 hm rest _ (open_fresh d0 hm H.trunc hok) h2 i (by omega) d hc

/-- **Never mistaken.**  At *every* crash point, also inside `close()`: if the surviving file
    opens silently then it is the complete file. -/
theorem writer_clean_implies_complete {F : Flags} {mode : String} {ovw : Bool} {hm : H5Mode}
    (H : WriterHyps F mode ovw hm) (hw : F.readWarn .npTrue = true)
    (hreset : F.closeReset true .npTrue = true)
    (env : Env) (d0 : Disk) (m : Meta) (hok : h5openOk d0 hm = true) (cmds : List Cmd) (w : W)
    (hrun : writerW F env d0 mode m cmds true = .ok w)
    (i : Nat) (d : Disk) (hc : CrashState d0 w.trace i d) (hclean : readOutcome F d = .clean) :
    d = w.d := by
  obtain ⟨rest, h1, h2, h3⟩ := writer_closed_spec H hreset env d0 m hok cmds
  rw [h1] at hrun
  cases hrun
  simp only
  rcases hc with rfl | ⟨j, hj1, _, rfl⟩
  · rw [readOutcome_unreadable] at hclean; cases hclean
  · by_cases hj : j ≤ rest.length + 1
    · exfalso
      refine crash_never_clean F hw d0 hm rest _ (open_fresh d0 hm H.trunc hok) h2 j hj _
        (Or.inr ⟨j, hj1, Nat.le_refl _, rfl⟩) hclean
    · have hlen : (Op.openMode hm :: rest).length = rest.length + 1 := by simp
      rw [List.take_append, replay_append, List.take_of_length_le (by omega), h3, hlen]
      obtain ⟨k, rfl⟩ : ∃ k, j = rest.length + 1 + (k + 1) := ⟨j - (rest.length + 1) - 1, by omega⟩
      have : rest.length + 1 + (k + 1) - (rest.length + 1) = k + 1 := by omega
      rw [this]
      cases k with
      | zero => rfl
      | succ k => rw [List.take_of_length_le (by simp)]; rfl

/-- **Closed normally.**  The file of a writer that ran to completion opens without the
    warning. -/
theorem writer_closed_is_clean {F : Flags} {mode : String} {ovw : Bool} {hm : H5Mode}
    (H : WriterHyps F mode ovw hm) (hreset : F.closeReset true .npTrue = true)
    (hval : F.closeValue = false) (hquiet : F.readWarn .npFalse = false) (hr : F.readMode = "r")
    (env : Env) (d0 : Disk) (m : Meta) (hok : h5openOk d0 hm = true) (cmds : List Cmd) (w : W)
    (hrun : writerW F env d0 mode m cmds true = .ok w) :
    readOutcome F w.d = .clean ∧
    w.d = .file { cmds.foldl pureCmd (freshContent env m) with writing := some false } ∧
    replay d0 w.trace = w.d := by
  obtain ⟨rest, h1, _, h3⟩ := writer_closed_spec H hreset env d0 m hok cmds
  rw [h1] at hrun
  cases hrun
  refine ⟨?_, by simp only [hval], ?_⟩
  · simp only [hval]
    have hp := allPresent_foldl _ cmds (allPresent_fresh env m)
    rw [readOutcome_present F hr _ (by
      obtain ⟨a1, a2, a3, a4, a5, a6, a7, a8, a9, a10, a11, a12, a13, a14⟩ := hp
      exact ⟨a1, a2, a3, rfl, a5, a6, a7, a8, a9, a10, a11, a12, a13, a14⟩) false rfl]
    simp [h5AttrRead, PyVal.npOfBool, hquiet]
  · rw [replay_append, h3]; rfl

theorem writerW_ok_open {F : Flags} {mode : String} {ovw : Bool} {hm : H5Mode}
    (H : WriterHyps F mode ovw hm) (env : Env) (d0 : Disk) (m : Meta) (cmds : List Cmd)
    (close : Bool) (w : W) (hrun : writerW F env d0 mode m cmds close = .ok w) :
    h5openOk d0 hm = true := by
  cases h : h5openOk d0 hm with
  | true => rfl
  | false =>
    have := createFile_fails H env d0 m h
    unfold writerW at hrun
    rw [this] at hrun
    cases hrun

/-- the `set_*` calls of `export()` -/
def exportCmds (pt : SimplePT) : List Cmd :=
  Cmd.setInitial pt.initial :: (enumCmds .setMpo 0 pt.mpos ++ enumCmds .setCap 0 pt.caps)

/-- the statements of `export()` the proofs are written for -/
def stdExportSteps : List ExportStep := [.create, .setInitial, .loopMpo, .loopCap, .close]

theorem runCmds_append (w : W) (a b : List Cmd) : runCmds w (a ++ b) = runCmds (runCmds w a) b := by
  unfold runCmds; rw [List.foldl_append]

theorem exportW_eq_writerW (F : Flags) (hexp : F.exportSteps = stdExportSteps) (env : Env)
    (d : Disk) (pt : SimplePT) (ovw : Bool) :
    exportW F env d pt ovw = writerW F env d (F.exportMode ovw) pt.info (exportCmds pt) true := by
  unfold exportW writerW
  rw [hexp]
  simp only [stdExportSteps]
  cases createFile F env d (F.exportMode ovw) pt.info with
  | error e => rfl
  | ok w =>
    simp only [List.foldl, exportStep, exportCmds, if_true]
    congr 2
    rw [← runCmds_append]
    rfl

/-! ### creation modes, `remove()`, reader `close()` -/

/-- the path after the constructor of a writing `FileProcessTensor` returned or raised -/
def diskAfterCtor (F : Flags) (env : Env) (d : Disk) (mode : String) (m : Meta) : Disk :=
  match createFile F env d mode m with
  | .ok w => w.d
  | .error _ => d

theorem exclusive_no_clobber {F : Flags} {mode : String} {ovw : Bool}
    (H : WriterHyps F mode ovw .x) (env : Env) (d : Disk) (m : Meta) (hd : d ≠ .missing) :
    createFile F env d mode m = .error .osError ∧ diskAfterCtor F env d mode m = d := by
  have hok : h5openOk d .x = false := by cases d <;> first | rfl | exact absurd rfl hd
  have h := createFile_fails H env d m hok
  exact ⟨h, by unfold diskAfterCtor; rw [h]⟩

theorem read_leaves_disk (d : Disk) : h5openDisk d .r = d := by cases d <;> rfl

/-! ### interruption by an exception -/

theorem excState_nil (F : Flags) (rm : Bool) (d0 : Disk) (trace : List Op) (n k : Nat) :
    excState F rm [] d0 trace n k = replay d0 (trace.take k) := by
  unfold excState
  simp only [unwindDisk]
  split <;> rfl

/-- without `close()`/`remove()` on the way out, the file an exception leaves behind is a
    crash state -/
theorem excState_crashState (F : Flags) (rm : Bool) (d0 : Disk) (trace : List Op) (n k : Nat)
    (hk : 1 ≤ k) : CrashState d0 trace k (excState F rm [] d0 trace n k) := by
  rw [excState_nil]
  exact Or.inr ⟨k, hk, Nat.le_refl _, rfl⟩

/-! ### `compute_caps()` inside the trace -/

theorem runSegs_nil_tail (F : Flags) (h : F.computeCapsTail = []) (w : W) (segs : List (List Cmd)) :
    runSegs F w segs = runCmds w segs.flatten := by
  induction segs generalizing w with
  | nil => rfl
  | cons seg r ih =>
    simp only [runSegs, capsTail, h, List.foldl_nil, List.flatten_cons]
    rw [ih, runCmds_append]

/-- when `compute_caps()` writes no attribute, a writer that calls it (any number of times,
    with further writes in between and after) is the plain writer of all its `set_*` calls -/
theorem writerSegW_eq_writerW (F : Flags) (h : F.computeCapsTail = []) (env : Env) (d : Disk)
    (mode : String) (m : Meta) (segs : List (List Cmd)) (rest : List Cmd) (close : Bool) :
    writerSegW F env d mode m segs rest close = writerW F env d mode m (segs.flatten ++ rest) close := by
  unfold writerSegW writerW
  cases createFile F env d mode m with
  | error e => rfl
  | ok w => simp only [runSegs_nil_tail F h, runCmds_append]

end OQuPyVerif.PTFile
