/- Specification layer of the adjoint gradient: adjointness of every factor, invariance of the
   pairing `⟨Y_k, X_k⟩`, and exact multilinearity of the objective in every half-step
   propagator (C08). -/
import OQuPyVerif.Model.Gradient
import Mathlib.Tactic.Ring
import Mathlib.Algebra.BigOperators.Pi

namespace OQuPyVerif.Grad
open Finset BigOperators
variable {K : Type} [CommRing K] {ι : Type}

/-! ### reordering of nested sums -/

theorem sum_pull3 {α β γ : Type} (s : Finset α) (t : Finset β) (u : Finset γ) (f : α → β → γ → K) :
    ∑ x ∈ s, ∑ y ∈ t, ∑ z ∈ u, f x y z = ∑ z ∈ u, ∑ x ∈ s, ∑ y ∈ t, f x y z := by
  rw [Finset.sum_congr rfl (fun x _ => Finset.sum_comm (s := t) (t := u) (f := f x))]
  exact Finset.sum_comm

theorem sum_pull4 {α β γ δ : Type} (s : Finset α) (t : Finset β) (u : Finset γ) (v : Finset δ)
    (f : α → β → γ → δ → K) :
    ∑ x ∈ s, ∑ y ∈ t, ∑ z ∈ u, ∑ w ∈ v, f x y z w = ∑ w ∈ v, ∑ x ∈ s, ∑ y ∈ t, ∑ z ∈ u, f x y z w := by
  rw [Finset.sum_congr rfl (fun x _ => sum_pull3 t u v (f x))]
  exact Finset.sum_comm

theorem sum_pull5 {α β γ δ ε : Type} (s : Finset α) (t : Finset β) (u : Finset γ) (v : Finset δ)
    (r : Finset ε) (f : α → β → γ → δ → ε → K) :
    ∑ x ∈ s, ∑ y ∈ t, ∑ z ∈ u, ∑ w ∈ v, ∑ q ∈ r, f x y z w q
      = ∑ q ∈ r, ∑ x ∈ s, ∑ y ∈ t, ∑ z ∈ u, ∑ w ∈ v, f x y z w q := by
  rw [Finset.sum_congr rfl (fun x _ => sum_pull4 t u v r (f x))]
  exact Finset.sum_comm

/-! ### adjointness of the three factors of a step -/

theorem pair_sysJ (L : ℕ) (S : Finset ι) (M : ℕ → ℕ → K) (Y X : ι → ℕ → K) :
    pair L S Y (sysJ L M X) = pair L S (sysJ L (transposeM M) Y) X := by
  unfold pair sysJ transposeM
  apply Finset.sum_congr rfl; intro β _
  simp only [Finset.mul_sum, Finset.sum_mul]
  rw [Finset.sum_comm]
  apply Finset.sum_congr rfl; intro s _
  apply Finset.sum_congr rfl; intro a _
  ring

theorem pair_bondJ (L : ℕ) (S S' : Finset ι) (G : ι → ι → ℕ → ℕ → K) (Y X : ι → ℕ → K) :
    pair L S' Y (bondJ L S G X) = pair L S (bondJT L S' G Y) X := by
  unfold pair bondJ bondJT
  simp only [Finset.mul_sum, Finset.sum_mul]
  -- Σ β' Σ o Σ β Σ i   =   Σ β Σ i Σ β' Σ o
  rw [sum_pull3]
  apply Finset.sum_congr rfl; intro β _
  rw [sum_pull3]
  apply Finset.sum_congr rfl; intro i _
  apply Finset.sum_congr rfl; intro β' _
  apply Finset.sum_congr rfl; intro o _
  ring

/-- the specification backward step is the adjoint of the forward step -/
theorem pair_jStep (L : ℕ) (S S' : Finset ι) (G : ι → ι → ℕ → ℕ → K) (A B : ℕ → ℕ → K)
    (Y X : ι → ℕ → K) :
    pair L S' Y (jStep L S G A B X) = pair L S (jStepT L S' G A B Y) X := by
  unfold jStep jStepT
  rw [pair_sysJ, pair_bondJ, pair_sysJ]

/-! ### the objective is `⟨Y_j, X_j⟩` at every time `j` -/

theorem jZ_eq_pair (L : ℕ) (S : ℕ → Finset ι) (G : ℕ → ι → ι → ℕ → ℕ → K) (A B : ℕ → ℕ → ℕ → K)
    (X0 tgt : ι → ℕ → K) (N m : ℕ) (hm : m ≤ N) :
    jZ L S G A B X0 tgt N
      = pair L (S (N-m)) (jBwd L S G A B tgt N m) (jFwd L S G A B X0 (N-m)) := by
  induction m with
  | zero => rfl
  | succ m ih =>
    rw [ih (by omega)]
    have h1 : N - m = (N - m - 1) + 1 := by omega
    have h2 : N - (m+1) = N - m - 1 := by omega
    rw [h2]
    conv_lhs => rw [h1]
    simp only [jFwd, jBwd]
    rw [pair_jStep, ← h1]

/-! ### which propagators a forward / backward tensor depends on -/

theorem jFwd_congr (L : ℕ) (S : ℕ → Finset ι) (G : ℕ → ι → ι → ℕ → ℕ → K)
    (A B A' B' : ℕ → ℕ → ℕ → K) (X0 : ι → ℕ → K) (k : ℕ)
    (h : ∀ j, j < k → A j = A' j ∧ B j = B' j) :
    jFwd L S G A B X0 k = jFwd L S G A' B' X0 k := by
  induction k with
  | zero => rfl
  | succ k ih =>
    simp only [jFwd]
    rw [ih (fun j hj => h j (by omega)), (h k (by omega)).1, (h k (by omega)).2]

theorem jBwd_congr (L : ℕ) (S : ℕ → Finset ι) (G : ℕ → ι → ι → ℕ → ℕ → K)
    (A B A' B' : ℕ → ℕ → ℕ → K) (tgt : ι → ℕ → K) (N m : ℕ)
    (h : ∀ j, N - m ≤ j → A j = A' j ∧ B j = B' j) :
    jBwd L S G A B tgt N m = jBwd L S G A' B' tgt N m := by
  induction m with
  | zero => rfl
  | succ m ih =>
    simp only [jBwd]
    rw [ih (fun j hj => h j (by omega)), (h (N-m-1) (by omega)).1, (h (N-m-1) (by omega)).2]

/-! ### linearity of a step in each half-step propagator -/

theorem sysJ_add (L : ℕ) (M M' : ℕ → ℕ → K) (X : ι → ℕ → K) :
    sysJ L (M + M') X = sysJ L M X + sysJ L M' X := by
  funext β a
  simp only [sysJ, Pi.add_apply, add_mul, Finset.sum_add_distrib]

theorem sysJ_add_right (L : ℕ) (M : ℕ → ℕ → K) (X X' : ι → ℕ → K) :
    sysJ L M (X + X') = sysJ L M X + sysJ L M X' := by
  funext β a
  simp only [sysJ, Pi.add_apply, mul_add, Finset.sum_add_distrib]

theorem bondJ_add_right (L : ℕ) (S : Finset ι) (G : ι → ι → ℕ → ℕ → K) (X X' : ι → ℕ → K) :
    bondJ L S G (X + X') = bondJ L S G X + bondJ L S G X' := by
  funext β a
  simp only [bondJ, Pi.add_apply, mul_add, Finset.sum_add_distrib]

theorem jStep_add_first (L : ℕ) (S : Finset ι) (G : ι → ι → ℕ → ℕ → K) (A Δ B : ℕ → ℕ → K)
    (X : ι → ℕ → K) :
    jStep L S G (A + Δ) B X = jStep L S G A B X + jStep L S G Δ B X := by
  unfold jStep
  rw [sysJ_add, bondJ_add_right, sysJ_add_right]

theorem jStep_add_second (L : ℕ) (S : Finset ι) (G : ι → ι → ℕ → ℕ → K) (A B Δ : ℕ → ℕ → K)
    (X : ι → ℕ → K) :
    jStep L S G A (B + Δ) X = jStep L S G A B X + jStep L S G A Δ X := by
  unfold jStep
  rw [sysJ_add]

theorem pair_add_right (L : ℕ) (S : Finset ι) (Y X X' : ι → ℕ → K) :
    pair L S Y (X + X') = pair L S Y X + pair L S Y X' := by
  simp only [pair, Pi.add_apply, mul_add, Finset.sum_add_distrib]

/-- the pairing of the backward tensor with "the step with `A` replaced by `Δ`" is the chain-rule
    contraction of the adjoint tensor -/
theorem pair_jStep_eq_chain (L : ℕ) (S S' : Finset ι) (G : ι → ι → ℕ → ℕ → K) (A B : ℕ → ℕ → K)
    (Y X : ι → ℕ → K) :
    pair L S' Y (jStep L S G A B X)
      = ∑ d ∈ range L, ∑ c ∈ range L, ∑ b ∈ range L, ∑ a ∈ range L,
          jDeriv S S' G X Y a b c d * A b a * B d c := by
  unfold pair jStep sysJ bondJ jDeriv
  simp only [Finset.mul_sum, Finset.sum_mul]
  -- left:  Σ β' Σ d Σ c Σ β Σ b Σ a ;   right: Σ d Σ c Σ b Σ a Σ β' Σ β
  rw [sum_pull5 (range L) (range L) (range L) (range L) S']
  apply Finset.sum_congr rfl; intro β' _
  apply Finset.sum_congr rfl; intro d _
  apply Finset.sum_congr rfl; intro c _
  rw [sum_pull3 (range L) (range L) S]
  apply Finset.sum_congr rfl; intro β _
  apply Finset.sum_congr rfl; intro b _
  apply Finset.sum_congr rfl; intro a _
  ring

/-! ### exact multilinearity: the adjoint identity -/

/-- Replacing the FIRST half-step propagator of step `k` by `A k + Δ` changes the objective by
    exactly the chain-rule contraction of the adjoint tensor of step `k` with `Δ`. -/
theorem jZ_update_first (L : ℕ) (S : ℕ → Finset ι) (G : ℕ → ι → ι → ℕ → ℕ → K)
    (A B : ℕ → ℕ → ℕ → K) (X0 tgt : ι → ℕ → K) (N k : ℕ) (hk : k < N) (Δ : ℕ → ℕ → K) :
    jZ L S G (Function.update A k (A k + Δ)) B X0 tgt N
      = jZ L S G A B X0 tgt N
        + chainFirst L (jDeriv (S k) (S (k+1)) (G k) (jFwd L S G A B X0 k)
            (jBwd L S G A B tgt N (N-k-1))) Δ (B k) := by
  set A' := Function.update A k (A k + Δ) with hA'
  have hne : ∀ j, j ≠ k → A' j = A j := fun j hj => Function.update_of_ne hj _ _
  have hm : N - k - 1 ≤ N := by omega
  have hidx : N - (N - k - 1) = k + 1 := by omega
  rw [jZ_eq_pair L S G A' B X0 tgt N (N-k-1) hm, jZ_eq_pair L S G A B X0 tgt N (N-k-1) hm, hidx]
  have hb : jBwd L S G A' B tgt N (N-k-1) = jBwd L S G A B tgt N (N-k-1) :=
    jBwd_congr L S G A' B A B tgt N (N-k-1) (fun j hj => ⟨hne j (by omega), rfl⟩)
  have hf : jFwd L S G A' B X0 k = jFwd L S G A B X0 k :=
    jFwd_congr L S G A' B A B X0 k (fun j hj => ⟨hne j (by omega), rfl⟩)
  rw [hb]
  simp only [jFwd]
  rw [hf, hA', Function.update_self, jStep_add_first, pair_add_right]
  congr 1
  rw [pair_jStep_eq_chain L (S k)]
  rfl

/-- The same for the SECOND half-step propagator of step `k`. -/
theorem jZ_update_second (L : ℕ) (S : ℕ → Finset ι) (G : ℕ → ι → ι → ℕ → ℕ → K)
    (A B : ℕ → ℕ → ℕ → K) (X0 tgt : ι → ℕ → K) (N k : ℕ) (hk : k < N) (Δ : ℕ → ℕ → K) :
    jZ L S G A (Function.update B k (B k + Δ)) X0 tgt N
      = jZ L S G A B X0 tgt N
        + chainSecond L (jDeriv (S k) (S (k+1)) (G k) (jFwd L S G A B X0 k)
            (jBwd L S G A B tgt N (N-k-1))) (A k) Δ := by
  set B' := Function.update B k (B k + Δ) with hB'
  have hne : ∀ j, j ≠ k → B' j = B j := fun j hj => Function.update_of_ne hj _ _
  have hm : N - k - 1 ≤ N := by omega
  have hidx : N - (N - k - 1) = k + 1 := by omega
  rw [jZ_eq_pair L S G A B' X0 tgt N (N-k-1) hm, jZ_eq_pair L S G A B X0 tgt N (N-k-1) hm, hidx]
  have hb : jBwd L S G A B' tgt N (N-k-1) = jBwd L S G A B tgt N (N-k-1) :=
    jBwd_congr L S G A B' A B tgt N (N-k-1) (fun j hj => ⟨rfl, hne j (by omega)⟩)
  have hf : jFwd L S G A B' X0 k = jFwd L S G A B X0 k :=
    jFwd_congr L S G A B' A B X0 k (fun j hj => ⟨rfl, hne j (by omega)⟩)
  rw [hb]
  simp only [jFwd]
  rw [hf, hB', Function.update_self, jStep_add_second, pair_add_right]
  congr 1
  rw [pair_jStep_eq_chain L (S k)]
  rfl

end OQuPyVerif.Grad
