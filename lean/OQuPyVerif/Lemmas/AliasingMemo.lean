/-
  C20 helper lemmas, part (a): the cache invariant of memoised objects.
-/
import OQuPyVerif.Model.Aliasing

namespace OQuPyVerif.Aliasing
open OQuPyVerif.Generated.CacheKeys

theorem lookup_mem {α β : Type} [BEq α] [LawfulBEq α] :
    ∀ (l : List (α × β)) (k : α) (v : β), l.lookup k = some v → (k, v) ∈ l := by
  intro l
  induction l with
  | nil => intro k v h; simp [List.lookup] at h
  | cons p t ih =>
    intro k v h
    obtain ⟨a, b⟩ := p
    by_cases hk : k == a
    · simp [List.lookup, hk] at h
      have : k = a := by simpa using hk
      subst this; subst h
      exact List.mem_cons_self
    · simp [List.lookup, hk] at h
      exact List.mem_cons_of_mem _ (ih k v h)

/-- a body may only depend on what the translator saw it read -/
def DependsOnly {Out : Type} (sites : List MemoSite)
    (F : Nat → (Read → Val) → Args → Out) : Prop :=
  ∀ k e e' x, (∀ r ∈ (siteAt sites k).reads, e r = e' r) → F k e x = F k e' x

def TableOK (pub : String → Bool) (sites : List MemoSite) : Prop :=
  ∀ s ∈ sites, siteOK pub s = true

/-- histories issued through the public API set public attributes only -/
def opPublic (pub : String → Bool) : MOp → Prop
  | .setParam _ a _ => pub a = true
  | _ => True

theorem siteOK_empty (pub : String → Bool) : siteOK pub emptySite = true := by
  simp [siteOK, emptySite]

theorem siteOK_at {pub : String → Bool} {sites : List MemoSite} (h : TableOK pub sites) (k : Nat) :
    siteOK pub (siteAt sites k) = true := by
  unfold siteAt
  rw [List.getD_eq_getElem?_getD]
  cases hk : sites[k]? with
  | none => simpa using siteOK_empty pub
  | some s => simpa using h s (List.mem_of_getElem? hk)

theorem reads_direct {pub : String → Bool} {s : MemoSite} (h : siteOK pub s = true) :
    ∀ r ∈ s.reads, r = ⟨r.attr, .direct⟩ := by
  intro r hr
  simp only [siteOK, Bool.and_eq_true, List.all_eq_true] at h
  have := h.1.1 r hr
  have hk : r.kind = .direct := by simpa using this
  cases r; simp_all

theorem reads_in_key {pub : String → Bool} {s : MemoSite} (h : siteOK pub s = true)
    (hc : s.cached = true) : ∀ r ∈ s.reads, r.attr ∈ s.keyAttrs ∨ pub r.attr = false := by
  intro r hr
  simp only [siteOK, Bool.and_eq_true, List.all_eq_true] at h
  have h2 := h.1.2
  simp only [hc, Bool.not_true, Bool.false_or, List.all_eq_true] at h2
  have := h2 r hr
  simpa using this

theorem placement_module {pub : String → Bool} {s : MemoSite} (h : siteOK pub s = true)
    (hc : s.cached = true) : (s.placement == MemoPlacement.instance) = false := by
  simp only [siteOK, Bool.and_eq_true] at h
  have h2 := h.2
  simp only [hc, Bool.not_true, Bool.false_or, beq_iff_eq] at h2
  rw [h2]; rfl

/-! ### the heap under the operations -/

theorem paramsOf_append {h : List Obj} {i : Nat} (o : Obj) (hi : i < h.length) :
    paramsOf (h ++ [o]) i = paramsOf h i := by
  unfold paramsOf
  rw [List.getElem?_append_left hi]

theorem paramsOf_set_ne {h : List Obj} {i j : Nat} (o : Obj) (hij : i ≠ j) :
    paramsOf (h.set j o) i = paramsOf h i := by
  unfold paramsOf
  rw [List.getElem?_set_ne (Ne.symm hij)]

theorem paramsOf_set_self {h : List Obj} {j : Nat} (o : Obj) (hj : j < h.length) :
    paramsOf (h.set j o) j = o.params := by
  unfold paramsOf
  rw [List.getElem?_set_self hj]

theorem getP_cons_ne (p : Params) (a b : String) (v : Val) (h : b ≠ a) :
    getP ((a, v) :: p) b = getP p b := by
  unfold getP
  have : (b == a) = false := by simpa using h
  simp [List.lookup, this]

theorem getP_cons_self (p : Params) (a : String) (v : Val) : getP ((a, v) :: p) a = v := by
  simp [getP, List.lookup]

section
variable {Out : Type} (pub : String → Bool) (sites : List MemoSite)
  (F : Nat → (Read → Val) → Args → Out)

/-- every cache entry is the body's value for *every* attribute assignment that agrees with the
    entry's key and with the (unchangeable) private attributes of its object -/
structure Inv (st : MState Out) : Prop where
  bounded : ∀ k i kv x out, ((k, i, kv, x), out) ∈ st.cache → i < st.heap.length
  sound : ∀ k i kv x out, ((k, i, kv, x), out) ∈ st.cache → ∀ e : Read → Val,
    (siteAt sites k).keyAttrs.map (fun a => e ⟨a, .direct⟩) = kv →
    (∀ a, pub a = false → e ⟨a, .direct⟩ = getP (paramsOf st.heap i) a) → out = F k e x

theorem inv_init : Inv pub sites F (initM : MState Out) :=
  ⟨by intro k i kv x out h; simp [initM] at h, by intro k i kv x out h; simp [initM] at h⟩

/-- with an admissible table, the body run on the object sees exactly its current attributes -/
theorem resolve_eq_spec (hT : TableOK pub sites) (hF : DependsOnly sites F)
    (h : List Obj) (i k : Nat) (x : Args) (hi : i < h.length) :
    F k (resolve h i) x = F k (specEnv h i) x := by
  apply hF
  intro r hr
  have hd := reads_direct (siteOK_at hT k) r hr
  rw [hd]
  unfold resolve specEnv paramsOf
  have : h[i]? = some h[i] := List.getElem?_eq_getElem hi
  simp [this]

theorem inv_step (hT : TableOK pub sites) (hF : DependsOnly sites F)
    (st : MState Out) (op : MOp) (hI : Inv pub sites F st) (hp : opPublic pub op) :
    Inv pub sites F (stepM sites F st op).1 := by
  cases op with
  | new cls p =>
    refine ⟨?_, ?_⟩
    · intro k i kv x out h
      have := hI.bounded k i kv x out h
      simp only [stepM, List.length_append, List.length_singleton]
      omega
    · intro k i kv x out h e hk hpriv
      have hb := hI.bounded k i kv x out h
      apply hI.sound k i kv x out h e hk
      intro a ha
      have := hpriv a ha
      simp only [stepM] at this
      rwa [paramsOf_append _ hb] at this
  | copy src kind =>
    simp only [stepM]
    cases hs : st.heap[src]? with
    | none => simpa using hI
    | some o =>
      cases kind with
      | alias => simpa using hI
      | shallow =>
        refine ⟨?_, ?_⟩
        · intro k i kv x out h
          have := hI.bounded k i kv x out h
          simp only [List.length_append, List.length_singleton]
          omega
        · intro k i kv x out h e hk hpriv
          have hb := hI.bounded k i kv x out h
          apply hI.sound k i kv x out h e hk
          intro a ha
          have := hpriv a ha
          rwa [paramsOf_append _ hb] at this
      | deep =>
        refine ⟨?_, ?_⟩
        · intro k i kv x out h
          have := hI.bounded k i kv x out h
          simp only [List.length_append, List.length_singleton]
          omega
        · intro k i kv x out h e hk hpriv
          have hb := hI.bounded k i kv x out h
          apply hI.sound k i kv x out h e hk
          intro a ha
          have := hpriv a ha
          rwa [paramsOf_append _ hb] at this
      | once =>
        simp only
        cases hl : st.handed.lookup src with
        | some j => simpa using hI
        | none =>
          refine ⟨?_, ?_⟩
          · intro k i kv x out h
            have := hI.bounded k i kv x out h
            simp only [List.length_append, List.length_singleton]
            omega
          · intro k i kv x out h e hk hpriv
            have hb := hI.bounded k i kv x out h
            apply hI.sound k i kv x out h e hk
            intro a ha
            have := hpriv a ha
            rwa [paramsOf_append _ hb] at this
  | setParam j a v =>
    simp only [stepM]
    cases hs : st.heap[j]? with
    | none => simpa using hI
    | some o =>
      have hj : j < st.heap.length := (List.getElem?_eq_some_iff.mp hs).1
      refine ⟨?_, ?_⟩
      · intro k i kv x out h
        have := hI.bounded k i kv x out h
        simpa using this
      · intro k i kv x out h e hk hpriv
        apply hI.sound k i kv x out h e hk
        intro b hb
        have := hpriv b hb
        by_cases hij : i = j
        · subst hij
          rw [paramsOf_set_self _ hj] at this
          have hne : b ≠ a := by
            intro hba; subst hba
            have : pub b = true := hp
            simp_all
          rw [getP_cons_ne _ _ _ _ hne] at this
          rw [this]
          unfold paramsOf
          rw [hs]
        · rwa [paramsOf_set_ne _ hij] at this
  | eval i k x =>
    simp only [stepM]
    by_cases hi : i < st.heap.length
    · simp only [hi, if_true]
      by_cases hc : (siteAt sites k).cached = true
      · simp only [hc, if_true, placement_module (siteOK_at hT k) hc, Bool.false_eq_true, if_false]
        cases hl : st.cache.lookup (keyOf sites st.heap i k x) with
        | some out => simpa using hI
        | none =>
          dsimp only
          refine ⟨?_, ?_⟩
          · intro k' i' kv x' out h
            simp only [List.mem_cons] at h
            rcases h with h | h
            · simp only [keyOf, Prod.mk.injEq] at h
              obtain ⟨⟨_, hi', _, _⟩, _⟩ := h
              show i' < st.heap.length
              omega
            · exact hI.bounded k' i' kv x' out h
          · intro k' i' kv x' out h e hk hpriv
            simp only [List.mem_cons] at h
            rcases h with h | h
            · simp only [keyOf, Prod.mk.injEq] at h
              obtain ⟨⟨hk', hi', hkv, hx⟩, hout⟩ := h
              subst hk' hi' hx hout
              rw [resolve_eq_spec pub sites F hT hF _ _ _ _ hi]
              apply hF
              intro r hr
              have hok := siteOK_at hT k'
              have hd := reads_direct hok r hr
              rw [hd]
              simp only [specEnv]
              rcases reads_in_key hok hc r hr with hin | hprivate
              · have := congrArg (fun l => l) hk
                rw [hkv] at hk
                have hmap := List.map_inj_left.mp hk r.attr hin
                exact hmap.symm
              · exact (hpriv r.attr hprivate).symm
            · exact hI.sound k' i' kv x' out h e hk hpriv
      · have hc' : (siteAt sites k).cached = false := by simpa using hc
        simp only [hc']
        simpa using hI
    · simp only [hi, if_false]
      simpa using hI
  | evict j =>
    refine ⟨?_, ?_⟩
    · intro k i kv x out h
      exact hI.bounded k i kv x out (List.mem_of_mem_eraseIdx h)
    · intro k i kv x out h e hk hpriv
      exact hI.sound k i kv x out (List.mem_of_mem_eraseIdx h) e hk hpriv

/-- in a state satisfying the invariant every evaluation returns the specified value -/
theorem eval_sound (hT : TableOK pub sites) (hF : DependsOnly sites F)
    (st : MState Out) (hI : Inv pub sites F st) (i k : Nat) (x : Args) (hi : i < st.heap.length) :
    (stepM sites F st (.eval i k x)).2 = some (F k (specEnv st.heap i) x) := by
  simp only [stepM, hi, if_true]
  by_cases hc : (siteAt sites k).cached = true
  · simp only [hc, if_true, placement_module (siteOK_at hT k) hc, Bool.false_eq_true, if_false]
    cases hl : st.cache.lookup (keyOf sites st.heap i k x) with
    | some out =>
      simp only
      have hm := lookup_mem _ _ _ hl
      have := hI.sound k i _ x out hm (specEnv st.heap i) (by simp [specEnv]) (by simp [specEnv])
      rw [this]
    | none =>
      simp only
      rw [resolve_eq_spec pub sites F hT hF _ _ _ _ hi]
  · have hc' : (siteAt sites k).cached = false := by simpa using hc
    simp only [hc']
    rw [resolve_eq_spec pub sites F hT hF _ _ _ _ hi]
    simp

theorem inv_run (hT : TableOK pub sites) (hF : DependsOnly sites F) :
    ∀ (hist : List MOp) (st : MState Out), Inv pub sites F st → (∀ op ∈ hist, opPublic pub op) →
      Inv pub sites F (runM sites F st hist) := by
  intro hist
  induction hist with
  | nil => intro st h _; exact h
  | cons op ops ih =>
    intro st h hp
    exact ih _ (inv_step pub sites F hT hF st op h (hp op List.mem_cons_self))
      (fun o ho => hp o (List.mem_cons_of_mem _ ho))

end

/-! ### the heap only grows; other objects' attributes are not touched -/

theorem paramsOf_set_same {h : List Obj} {i : Nat} (o o' : Obj) (hi : h[i]? = some o)
    (hp : o'.params = o.params) (j : Nat) : paramsOf (h.set i o') j = paramsOf h j := by
  by_cases hij : j = i
  · subst hij
    have hlt : j < h.length := (List.getElem?_eq_some_iff.mp hi).1
    rw [paramsOf_set_self _ hlt, hp]
    unfold paramsOf; rw [hi]
  · exact paramsOf_set_ne _ hij

theorem evalInstance_heap {Out : Type} (sites : List MemoSite) (F : Nat → (Read → Val) → Args → Out)
    (st : MState Out) (i k : Nat) (x : Args) :
    (evalInstance sites F st i k x).1.heap.length = st.heap.length ∧
    ∀ j, paramsOf (evalInstance sites F st i k x).1.heap j = paramsOf st.heap j := by
  unfold evalInstance
  cases hi : st.heap[i]? with
  | none => exact ⟨rfl, fun _ => rfl⟩
  | some o =>
    simp only
    split
    · exact ⟨by simp, fun j => paramsOf_set_same (h := st.heap) o
        { o with memo := some (o.memo.getD st.dicts.length),
                 filled := some ((siteAt sites k).keyAttrs.map (fun a => getP o.params a)) } hi rfl j⟩
    · exact ⟨by simp, fun j => paramsOf_set_same (h := st.heap) o
        { o with memo := some (o.memo.getD st.dicts.length),
                 filled := some ((siteAt sites k).keyAttrs.map (fun a => getP o.params a)) } hi rfl j⟩

theorem heap_length_step {Out : Type} (sites : List MemoSite) (F : Nat → (Read → Val) → Args → Out)
    (st : MState Out) (op : MOp) : st.heap.length ≤ (stepM sites F st op).1.heap.length := by
  cases op with
  | new cls p => simp [stepM]
  | copy src kind =>
    simp only [stepM]
    cases hs : st.heap[src]? <;> cases kind <;> simp
    split <;> simp
  | setParam j a v =>
    simp only [stepM]
    cases hs : st.heap[j]? <;> simp
  | eval i k x =>
    simp only [stepM]
    split
    · split
      · split
        · exact Nat.le_of_eq (evalInstance_heap sites F st i k x).1.symm
        · split <;> simp
      · simp
    · simp
  | evict j => simp [stepM]

/-- an operation that is not `setParam j …` leaves the attributes of object `j` alone -/
def touches (j : Nat) : MOp → Bool
  | .setParam i _ _ => i == j
  | _ => false

theorem paramsOf_step {Out : Type} (sites : List MemoSite) (F : Nat → (Read → Val) → Args → Out)
    (st : MState Out) (op : MOp) (j : Nat) (hj : j < st.heap.length) (ht : touches j op = false) :
    paramsOf (stepM sites F st op).1.heap j = paramsOf st.heap j := by
  cases op with
  | new cls p => simp only [stepM]; exact paramsOf_append _ hj
  | copy src kind =>
    simp only [stepM]
    cases hs : st.heap[src]? with
    | none => rfl
    | some o =>
      cases kind with
      | alias => rfl
      | shallow => exact paramsOf_append _ hj
      | deep => exact paramsOf_append _ hj
      | once =>
        simp only
        split
        · rfl
        · exact paramsOf_append _ hj
  | setParam i a v =>
    simp only [stepM]
    cases hs : st.heap[i]? with
    | none => rfl
    | some o =>
      have : j ≠ i := by
        intro h; subst h; simp [touches] at ht
      exact paramsOf_set_ne _ this
  | eval i k x =>
    simp only [stepM]
    split
    · split
      · split
        · exact (evalInstance_heap sites F st i k x).2 j
        · split <;> rfl
      · rfl
    · rfl
  | evict i => rfl

theorem paramsOf_run {Out : Type} (sites : List MemoSite) (F : Nat → (Read → Val) → Args → Out) :
    ∀ (hist : List MOp) (st : MState Out) (j : Nat), j < st.heap.length →
      (∀ op ∈ hist, touches j op = false) →
      paramsOf (runM sites F st hist).heap j = paramsOf st.heap j ∧
      j < (runM sites F st hist).heap.length := by
  intro hist
  induction hist with
  | nil => intro st j hj _; exact ⟨rfl, hj⟩
  | cons op ops ih =>
    intro st j hj ht
    have hlen := heap_length_step sites F st op
    have h1 := paramsOf_step sites F st op j hj (ht op List.mem_cons_self)
    have := ih (stepM sites F st op).1 j (by omega) (fun o ho => ht o (List.mem_cons_of_mem _ ho))
    simp only [runM]
    exact ⟨this.1.trans h1, this.2⟩

/-! ### results kept from a caller-owned table -/

section
variable {Out : Type} (kind : ArgKeyKind) (f : List Val → Out)

/-- every kept result is the body's value for the content that is its key -/
def TInv (st : TState Out) : Prop :=
  ∀ k out, (k, out) ∈ st.store → ∃ c, k = (none, some c) ∧ out = f c

theorem tinv_init : TInv f (initT : TState Out) := by
  intro k out h; simp [initT] at h

theorem tkey_content (hk : kind ≠ .identity) (t : Nat) (c : List Val) (k : TKey)
    (h : tkey kind t c = some k) : k = (none, some c) := by
  cases kind with
  | none => simp [tkey] at h
  | identity => exact absurd rfl hk
  | content => simp only [tkey, Option.some.injEq] at h; exact h.symm

theorem tinv_step (hk : kind ≠ .identity) (st : TState Out) (op : TOp) (hI : TInv f st) :
    TInv f (stepT kind f st op).1 := by
  cases op with
  | newTable c => simpa [stepT, TInv] using hI
  | mutate t c => simpa [stepT, TInv] using hI
  | drop j =>
    intro k out h
    exact hI k out (List.mem_of_mem_eraseIdx h)
  | call t =>
    simp only [stepT]
    split
    · exact hI
    · rename_i c hc
      split
      · exact hI
      · rename_i k hkey
        split
        · exact hI
        · intro k' out h
          simp only [List.mem_cons, Prod.mk.injEq] at h
          rcases h with ⟨h1, h2⟩ | h
          · subst h1 h2
            exact ⟨c, tkey_content kind hk t c _ hkey, rfl⟩
          · exact hI k' out h

theorem tinv_run (hk : kind ≠ .identity) : ∀ (hist : List TOp) (st : TState Out),
    TInv f st → TInv f (runT kind f st hist) := by
  intro hist
  induction hist with
  | nil => intro st h; exact h
  | cons op ops ih => intro st h; exact ih _ (tinv_step kind f hk st op h)

/-- with the invariant (and a store not keyed on identity), a call returns the body's value
    for the table's current content -/
theorem tcall_sound (hk : kind ≠ .identity) (st : TState Out) (hI : TInv f st) (t : Nat)
    (c : List Val) (ht : st.tables[t]? = some c) :
    (stepT kind f st (.call t)).2 = some (f c) := by
  simp only [stepT, ht]
  split
  · rfl
  · rename_i k hkey
    split
    · rename_i out hl
      obtain ⟨c', hc', hout⟩ := hI k out (lookup_mem _ _ _ hl)
      have := tkey_content kind hk t c k hkey
      rw [this] at hc'
      simp only [Prod.mk.injEq, Option.some.injEq, true_and] at hc'
      subst hc'
      simp [hout]
    · rfl

/-- a call never changes the caller's tables -/
theorem tcall_keeps_tables (st : TState Out) (t : Nat) :
    (stepT kind f st (.call t)).1.tables = st.tables := by
  simp only [stepT]
  split
  · rfl
  · split
    · rfl
    · split <;> rfl

end

/-! ### returned arrays -/

/-- all returned buffers exist and no two calls returned the same one -/
def RInv (st : RState) : Prop :=
  (∀ b ∈ st.results, b < st.bufs.length) ∧ st.results.Nodup

theorem rinv_init : RInv initR := by
  constructor
  · intro b hb; simp [initR] at hb
  · simp [initR]

theorem rinv_step (p : Val) (st : RState) (op : ROp) (hI : RInv st) :
    RInv (stepR .fresh p st op).1 := by
  cases op with
  | write r v =>
    simp only [stepR]
    cases st.results[r]? with
    | none => exact hI
    | some b => exact ⟨by simpa using hI.1, hI.2⟩
  | call =>
    simp only [stepR]
    constructor
    · intro b hb
      simp only [List.mem_append, List.mem_singleton] at hb
      simp only [List.length_append, List.length_singleton]
      rcases hb with hb | hb
      · have := hI.1 b hb; omega
      · omega
    · rw [List.nodup_append]
      refine ⟨hI.2, by simp, ?_⟩
      intro a ha b hb
      simp only [List.mem_singleton] at hb
      have := hI.1 a ha
      omega

theorem rinv_run (p : Val) : ∀ (hist : List ROp) (st : RState), RInv st →
    RInv (runR .fresh p st hist) := by
  intro hist
  induction hist with
  | nil => intro st h; exact h
  | cons op ops ih => intro st h; exact ih _ (rinv_step p st op h)

/-! ### derived attributes -/

theorem derived_after_init {Out : Type} (f : Val → Out) (st : DState Out) :
    (stepD .always f st .init).derived = some (f st.source) ∧
    (stepD .always f st .init).source = st.source := by
  cases h : st.derived <;> simp [stepD, h]

/-! ### values a getter keeps -/

section
variable {Out : Type} (used keyed : List String) (f : (String → Val) → Out)

/-- the kept result is `f` of *every* argument assignment that matches its key -/
def GInv (st : GState Out) : Prop :=
  ∀ k out, st.kept = some (k, out) → ∀ e : String → Val, keyed.map e = k → out = f e

theorem ginv_step (hsub : ∀ a ∈ used, a ∈ keyed)
    (hf : ∀ e e' : String → Val, (∀ a ∈ used, e a = e' a) → f e = f e')
    (st : GState Out) (op : GOp) (hI : GInv keyed f st) : GInv keyed f (stepG keyed f st op).1 := by
  have hnew : ∀ args : List (String × Val),
      GInv keyed f { kept := some (keyed.map (gArg args), f (gArg args)) } := by
    intro args k out h e he
    simp only [Option.some.injEq, Prod.mk.injEq] at h
    obtain ⟨hk, hout⟩ := h
    subst hk hout
    apply hf
    intro a ha
    exact (List.map_inj_left.mp he a (hsub a ha)).symm
  cases op with
  | reset => intro k out h; simp [stepG] at h
  | call args =>
    simp only [stepG]
    cases hk : st.kept with
    | none => exact hnew args
    | some p =>
      obtain ⟨k', out⟩ := p
      simp only
      split
      · exact hI
      · exact hnew args

theorem ginv_run (hsub : ∀ a ∈ used, a ∈ keyed)
    (hf : ∀ e e' : String → Val, (∀ a ∈ used, e a = e' a) → f e = f e') :
    ∀ (hist : List GOp) (st : GState Out), GInv keyed f st → GInv keyed f (runG keyed f st hist) := by
  intro hist
  induction hist with
  | nil => intro st h; exact h
  | cons op ops ih => intro st h; exact ih _ (ginv_step used keyed f hsub hf st op h)

theorem gcall_sound (st : GState Out) (hI : GInv keyed f st) (args : List (String × Val)) :
    (stepG keyed f st (.call args)).2 = some (f (gArg args)) := by
  simp only [stepG]
  cases hk : st.kept with
  | none => rfl
  | some p =>
    obtain ⟨k', out⟩ := p
    simp only
    split
    · rename_i heq
      rw [hI k' out hk (gArg args) heq.symm]
    · rfl

end

end OQuPyVerif.Aliasing
