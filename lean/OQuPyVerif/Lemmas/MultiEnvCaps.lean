/- C03: `get_mpo_tensor` and `compute_caps`: the caps close the tensors that are contracted. -/
import OQuPyVerif.Model.MultiEnv
import Mathlib.Tactic.Ring
import Mathlib.Tactic.Linarith

namespace OQuPyVerif.MultiEnv
open Finset BigOperators OQuPyVerif.PathSum OQuPyVerif.PT OQuPyVerif.Generated.MpoWiring
variable {K : Type} [CommRing K]

theorem deltaExpand_0122 (T : ℕ → ℕ → ℕ → K) (b b' i o : ℕ) :
    deltaExpand [0, 1, 2, 2] T b b' i o = if i = o then T b b' i else 0 := by
  by_cases h : i = o
  · subst h; simp [deltaExpand, List.range, List.range.loop, List.idxOf, List.findIdx, List.findIdx.go]
  · have h' : ¬ o = i := fun hh => h hh.symm
    simp [deltaExpand, List.range, List.range.loop, List.idxOf, List.findIdx, List.findIdx.go, h, h']

theorem mpoTensorOf_known (w : GetMpoWiring) (hw : w.inAxis = -2 ∧ w.outAxis = -1 ∧ w.deltaRank = 3 ∧
      w.inBeforeOut = true ∧ w.deltaScramble = [0, 1, 2, 2] ∧ w.inMatAxis = 1 ∧ w.outMatAxis = 0)
    (Lin Lout : ℕ) (raw : RawMpo K) (tin tout : Option (ℕ → ℕ → K)) :
    mpoTensorOf w Lin Lout raw tin tout = some (mpoTensorSpec Lin Lout raw tin tout) := by
  obtain ⟨h1, h2, h3, h4, h5, h6, h7⟩ := hw
  unfold mpoTensorOf mpoTensorSpec
  rw [if_pos ⟨h1, h2, h3, h4⟩, h5, h6, h7]
  cases raw <;> cases tin <;> cases tout <;>
    simp only [pickMat, Option.some.injEq] <;> funext b b' s s' <;> simp [deltaExpand_0122]

theorem mpoTensorSpec_eq (Lin Lout : ℕ) (raw : RawMpo K) (tin tout : Option (ℕ → ℕ → K))
    (b b' s s' : ℕ) : mpoTensorSpec Lin Lout raw tin tout b b' s s' =
      outLeg Lout tout (fun o => inLeg Lin tin (fun i => raw4 raw b b' i o) s) s' := by
  cases raw <;> cases tin <;> cases tout <;> rfl

theorem inLeg_close (L Lin : ℕ) (tin : Option (ℕ → ℕ → K)) (hin : tin = none → Lin = L)
    (g u : ℕ → K) :
    ∑ s ∈ range L, inLeg Lin tin g s * u s = ∑ i ∈ range Lin, g i * traceInVec L u tin i := by
  cases tin with
  | none => rw [hin rfl]; rfl
  | some M =>
    simp only [inLeg, traceInVec, pickMat, traceInMatAxis, Finset.sum_mul, Finset.mul_sum]
    rw [Finset.sum_comm]
    apply Finset.sum_congr rfl; intro i _
    apply Finset.sum_congr rfl; intro s _
    simp; ring

theorem outLeg_close (L Lout : ℕ) (tout : Option (ℕ → ℕ → K)) (hout : tout = none → Lout = L)
    (h v : ℕ → K) :
    ∑ s' ∈ range L, outLeg Lout tout h s' * v s' = ∑ o ∈ range Lout, h o * traceOutVec L v tout o := by
  cases tout with
  | none => rw [hout rfl]; rfl
  | some M =>
    simp only [outLeg, traceOutVec, pickMat, traceOutMatAxis, Finset.sum_mul, Finset.mul_sum]
    rw [Finset.sum_comm]
    apply Finset.sum_congr rfl; intro o _
    apply Finset.sum_congr rfl; intro s' _
    simp; ring

/-- closing the transformed tensor with the plain trace vectors = closing the stored tensor with
    the transformed trace vectors -/
theorem close_transformed (L Lin Lout : ℕ) (tin tout : Option (ℕ → ℕ → K))
    (hin : tin = none → Lin = L) (hout : tout = none → Lout = L) (f : ℕ → ℕ → K) (u v : ℕ → K) :
    ∑ s ∈ range L, ∑ s' ∈ range L,
        outLeg Lout tout (fun o => inLeg Lin tin (fun i => f i o) s) s' * u s * v s'
      = ∑ i ∈ range Lin, ∑ o ∈ range Lout, f i o * traceInVec L u tin i * traceOutVec L v tout o := by
  have h1 : ∀ s ∈ range L, ∑ s' ∈ range L,
        outLeg Lout tout (fun o => inLeg Lin tin (fun i => f i o) s) s' * u s * v s'
      = ∑ o ∈ range Lout, traceOutVec L v tout o * (inLeg Lin tin (fun i => f i o) s * u s) := by
    intro s _
    calc ∑ s' ∈ range L, outLeg Lout tout (fun o => inLeg Lin tin (fun i => f i o) s) s' * u s * v s'
        = ∑ s' ∈ range L, outLeg Lout tout (fun o => inLeg Lin tin (fun i => f i o) s * u s) s' * v s' := by
          apply Finset.sum_congr rfl; intro s' _
          cases tout with
          | none => simp only [outLeg]
          | some M =>
            simp only [outLeg, Finset.sum_mul]
            apply Finset.sum_congr rfl; intro o _; ring
      _ = ∑ o ∈ range Lout, inLeg Lin tin (fun i => f i o) s * u s * traceOutVec L v tout o :=
          outLeg_close L Lout tout hout (fun o => inLeg Lin tin (fun i => f i o) s * u s) v
      _ = _ := by apply Finset.sum_congr rfl; intro o _; ring
  rw [Finset.sum_congr rfl h1, Finset.sum_comm]
  have h2 : ∀ o ∈ range Lout, ∑ s ∈ range L,
        traceOutVec L v tout o * (inLeg Lin tin (fun i => f i o) s * u s)
      = ∑ i ∈ range Lin, f i o * traceInVec L u tin i * traceOutVec L v tout o := by
    intro o _
    rw [← Finset.mul_sum, inLeg_close L Lin tin hin (fun i => f i o) u, Finset.mul_sum]
    apply Finset.sum_congr rfl; intro i _; ring
  rw [Finset.sum_congr rfl h2, Finset.sum_comm]

theorem getMpoKnown_iff (w : GetMpoWiring) (h : getMpoKnown w = true) :
    w.inAxis = -2 ∧ w.outAxis = -1 ∧ w.deltaRank = 3 ∧ w.inBeforeOut = true ∧
      w.deltaScramble = [0, 1, 2, 2] ∧ w.inMatAxis = 1 ∧ w.outMatAxis = 0 := by
  simp only [getMpoKnown, Bool.and_eq_true, beq_iff_eq] at h
  obtain ⟨⟨⟨⟨⟨⟨h1, h2⟩, h3⟩, h4⟩, h5⟩, h6⟩, h7⟩ := h
  exact ⟨h1, h2, h3, h4, h5, h6, h7⟩

/-- **The caps close what `compute_dynamics` contracts.**  For a consistent cap wiring the cap of a
    step is the contraction of the tensor returned by `get_mpo_tensor` (delta inserted, transformed
    to the system basis) with the plain trace vectors and the next cap — `capRec`. -/
theorem caps_close (w : CapWiring) (g : GetMpoWiring) (hw : capsConsistent w = true)
    (hg : getMpoKnown g = true) (L Lin Lout Dn : ℕ) (tr : ℕ → K) (raw : RawMpo K)
    (tin tout : Option (ℕ → ℕ → K)) (hin : tin = none → Lin = L) (hout : tout = none → Lout = L)
    (h3 : ∀ T, raw = .rank3 T → Lin = Lout) (capNext : ℕ → K) :
    capStepOf w g L Lin Lout Dn tr raw tin tout capNext =
      some (fun b => capRec L (fun _ => Dn) (fun _ => mpoTensorSpec Lin Lout raw tin tout)
        tr tr capNext 0 b) := by
  have hclose : ∀ b b', ∑ s ∈ range L, ∑ s' ∈ range L,
        mpoTensorSpec Lin Lout raw tin tout b b' s s' * tr s * tr s'
      = ∑ i ∈ range Lin, ∑ o ∈ range Lout, raw4 raw b b' i o * traceInVec L tr tin i *
          traceOutVec L tr tout o := by
    intro b b'
    simp only [mpoTensorSpec_eq]
    exact close_transformed L Lin Lout tin tout hin hout (fun i o => raw4 raw b b' i o) tr tr
  have hrec : ∀ b, capRec L (fun _ => Dn) (fun _ => mpoTensorSpec Lin Lout raw tin tout)
        tr tr capNext 0 b
      = ∑ b' ∈ range Dn, ∑ i ∈ range Lin, ∑ o ∈ range Lout, raw4 raw b b' i o *
          traceInVec L tr tin i * traceOutVec L tr tout o * capNext b' := by
    intro b
    unfold capRec
    apply Finset.sum_congr rfl; intro b' _
    have := congrArg (· * capNext b') (hclose b b')
    simp only [Finset.sum_mul] at this
    exact this
  cases hT : w.tensor with
  | stored =>
    simp only [capsConsistent, hT, Bool.and_eq_true, beq_iff_eq] at hw
    obtain ⟨hr3, hr4⟩ := hw
    cases raw with
    | rank3 T =>
      simp only [capStepOf, hT, hr3, closerVec, Option.map_some]
      congr 1
      funext b
      rw [hrec b]
      apply Finset.sum_congr rfl; intro b' _
      have hL : Lin = Lout := h3 T rfl
      apply Finset.sum_congr rfl; intro i hi
      rw [Finset.sum_eq_single i]
      · simp [raw4]; ring
      · intro o _ ho; simp [raw4, Ne.symm ho]
      · intro hno; rw [← hL] at hno; exact absurd hi hno
    | rank4 T =>
      simp only [capStepOf, hT, hr4, closerVec, Option.bind_some, Option.map_some]
      congr 1
      funext b
      rw [hrec b]
      rfl
  | transformed =>
    simp only [capsConsistent, hT, Bool.and_eq_true, beq_iff_eq] at hw
    obtain ⟨hr3, hr4⟩ := hw
    simp only [capStepOf, hT, hr3, hr4, mpoTensorOf_known g (getMpoKnown_iff g hg), closerVec,
      Option.bind_some, Option.map_some]
    rfl

/-- **The cap is a fixed point** of `compute_caps` when the step tensor preserves it:
    if `Σ_{b',o} T(b,b',i,o)·trOut(o)·cap'(b') = cap(b)·τ(i)` and `Σ_i trIn(i)·τ(i) = 1`, the cap
    computed for the step is `cap`. -/
theorem capRec_fixed (L : ℕ) (D : ℕ → ℕ) (T : ℕ → ℕ → ℕ → ℕ → ℕ → K) (trIn trOut τ : ℕ → K)
    (cap cap' : ℕ → K) (k b : ℕ)
    (hT : ∀ i, i < L → ∑ b' ∈ range (D (k+1)), ∑ o ∈ range L, T k b b' i o * trOut o * cap' b'
      = cap b * τ i)
    (hτ : ∑ i ∈ range L, trIn i * τ i = 1) :
    capRec L D T trIn trOut cap' k b = cap b := by
  unfold capRec
  rw [Finset.sum_comm]
  have : ∀ i ∈ range L, ∑ b' ∈ range (D (k+1)), ∑ o ∈ range L,
      T k b b' i o * trIn i * trOut o * cap' b' = cap b * (trIn i * τ i) := by
    intro i hi
    rw [← mul_left_comm, ← hT i (Finset.mem_range.mp hi), Finset.mul_sum]
    apply Finset.sum_congr rfl; intro b' _
    rw [Finset.mul_sum]
    apply Finset.sum_congr rfl; intro o _
    ring
  rw [Finset.sum_congr rfl this, ← Finset.mul_sum, hτ, mul_one]

end OQuPyVerif.MultiEnv
