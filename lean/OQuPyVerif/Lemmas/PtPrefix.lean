/- Prefix property: closing the newest step of a process tensor with the trace vectors
   gives the process tensor of one step less (C02). -/
import OQuPyVerif.Lemmas.PtTempo

namespace OQuPyVerif.PT
open Finset BigOperators OQuPyVerif.PathSum
variable {K : Type} [CommRing K]

theorem t_inflRowFull (I : ℕ → ℕ → ℕ → ℕ → K) (t : ℕ → K) (n a : ℕ)
    (hI : ∀ dk c, t a * I n dk a c = t a) (j : ℕ) (q : List ℕ) :
    t a * inflRowFull I n a j q = t a := by
  induction q generalizing j with
  | nil => simp [inflRowFull]
  | cons c cs ih =>
    simp only [inflRowFull]
    rw [← mul_assoc, hI, ih]

/-- **Prefix property of the influence functional's process tensor.**  If the closing weight
    `t = closeWeight …` sums to one and every influence factor is `1` on its support (both hold
    for unitary basis changes and the maximally-mixed closing vectors because diagonal indices
    carry `Om = 0`), closing the newest step of `ptOfInfluence (n+1)` gives `ptOfInfluence n`. -/
theorem ptOfInfluence_prefix (L : ℕ) (Uin Uout : ℕ → ℕ → K) (I : ℕ → ℕ → ℕ → ℕ → K)
    (trIn trOut : ℕ → K)
    (hI : ∀ n dk a c, closeWeight L Uin Uout trIn trOut a * I n dk a c
            = closeWeight L Uin Uout trIn trOut a)
    (hsum : ∑ a ∈ range L, closeWeight L Uin Uout trIn trOut a = 1) (n : ℕ) (p : List ℕ) :
    ∑ o ∈ range L, ∑ i ∈ range L, trOut o * trIn i * ptOfInfluence L Uin Uout I (n+1) (o :: i :: p)
      = ptOfInfluence L Uin Uout I n p := by
  unfold ptOfInfluence
  -- peel the newest index `a` of the influence path
  have hpeel : ∀ o i, pathSum L (n+1) (fun a' => transAmp Uin Uout a' (o :: i :: p) * inflProd I a')
      = ∑ a ∈ range L, (Uout o a * Uin a i) *
          pathSum L n (fun as => inflRowFull I (n+1) a 0 (a :: as) * (transAmp Uin Uout as p * inflProd I as)) := by
    intro o i
    rw [pathSum_succ]
    apply Finset.sum_congr rfl; intro a _
    rw [← pathSum_mul_left]
    apply pathSum_congr; intro as has
    simp only [transAmp, inflProd, has.1]
    ring
  simp only [hpeel]
  -- abbreviate the inner path sums
  generalize hQ : (fun a => pathSum L n (fun as => inflRowFull I (n+1) a 0 (a :: as) *
      (transAmp Uin Uout as p * inflProd I as))) = Q
  have hQa : ∀ a, pathSum L n (fun as => inflRowFull I (n+1) a 0 (a :: as) *
      (transAmp Uin Uout as p * inflProd I as)) = Q a := by intro a; rw [← hQ]
  simp only [hQa]
  -- collect the closing weight
  have hcollect : ∑ o ∈ range L, ∑ i ∈ range L, trOut o * trIn i *
        ∑ a ∈ range L, (Uout o a * Uin a i) * Q a
      = ∑ a ∈ range L, closeWeight L Uin Uout trIn trOut a * Q a := by
    unfold closeWeight
    have h1 : ∀ o ∈ range L, ∑ i ∈ range L, trOut o * trIn i * ∑ a ∈ range L, (Uout o a * Uin a i) * Q a
        = ∑ a ∈ range L, ∑ i ∈ range L, trOut o * trIn i * (Uout o a * Uin a i) * Q a := by
      intro o _
      simp only [Finset.mul_sum]
      rw [Finset.sum_comm]
      apply Finset.sum_congr rfl; intro a _
      apply Finset.sum_congr rfl; intro i _
      ring
    rw [Finset.sum_congr rfl h1, Finset.sum_comm]
    apply Finset.sum_congr rfl; intro a _
    rw [Finset.sum_mul]
    apply Finset.sum_congr rfl; intro o _
    rw [Finset.sum_mul]
  rw [hcollect]
  -- the influence row of the closed index disappears
  have hrow : ∀ a ∈ range L, closeWeight L Uin Uout trIn trOut a * Q a
      = closeWeight L Uin Uout trIn trOut a *
        pathSum L n (fun as => transAmp Uin Uout as p * inflProd I as) := by
    intro a _
    rw [← hQ, ← pathSum_mul_left, ← pathSum_mul_left]
    apply pathSum_congr; intro as _
    rw [← mul_assoc, t_inflRowFull I _ (n+1) a (fun dk c => hI (n+1) dk a c)]
  rw [Finset.sum_congr rfl hrow, ← Finset.sum_mul, hsum, one_mul]

theorem sum4_reverse {s1 s2 s3 s4 : Finset ℕ} (f : ℕ → ℕ → ℕ → ℕ → K) :
    ∑ b ∈ s1, ∑ b' ∈ s2, ∑ i ∈ s3, ∑ o ∈ s4, f b b' i o
      = ∑ o ∈ s4, ∑ i ∈ s3, ∑ b' ∈ s2, ∑ b ∈ s1, f b b' i o := by
  calc ∑ b ∈ s1, ∑ b' ∈ s2, ∑ i ∈ s3, ∑ o ∈ s4, f b b' i o
      = ∑ b ∈ s1, ∑ b' ∈ s2, ∑ o ∈ s4, ∑ i ∈ s3, f b b' i o := by
        apply Finset.sum_congr rfl; intro b _
        apply Finset.sum_congr rfl; intro b' _
        exact Finset.sum_comm
    _ = ∑ b ∈ s1, ∑ o ∈ s4, ∑ b' ∈ s2, ∑ i ∈ s3, f b b' i o := by
        apply Finset.sum_congr rfl; intro b _
        exact Finset.sum_comm
    _ = ∑ o ∈ s4, ∑ b ∈ s1, ∑ b' ∈ s2, ∑ i ∈ s3, f b b' i o := Finset.sum_comm
    _ = ∑ o ∈ s4, ∑ b ∈ s1, ∑ i ∈ s3, ∑ b' ∈ s2, f b b' i o := by
        apply Finset.sum_congr rfl; intro o _
        apply Finset.sum_congr rfl; intro b _
        exact Finset.sum_comm
    _ = ∑ o ∈ s4, ∑ i ∈ s3, ∑ b ∈ s1, ∑ b' ∈ s2, f b b' i o := by
        apply Finset.sum_congr rfl; intro o _
        exact Finset.sum_comm
    _ = ∑ o ∈ s4, ∑ i ∈ s3, ∑ b' ∈ s2, ∑ b ∈ s1, f b b' i o := by
        apply Finset.sum_congr rfl; intro o _
        apply Finset.sum_congr rfl; intro i _
        exact Finset.sum_comm

/-- **Prefix property of an MPO**: with the cap of step `n` computed from the cap of step `n+1`
    by `compute_caps`' recursion, the dense tensor closed at `n` is the dense tensor closed at
    `n+1` with its newest in/out legs contracted with the trace vectors. -/
theorem densePT_prefix (L : ℕ) (D : ℕ → ℕ) (T : ℕ → ℕ → ℕ → ℕ → ℕ → K) (cap : ℕ → ℕ → K)
    (trIn trOut : ℕ → K) (n : ℕ)
    (hcap : ∀ b, b < D n → cap n b = capRec L D T trIn trOut (cap (n+1)) n b)
    (p : List ℕ) (hp : p.length = 2 * n) :
    densePT D T cap n p =
      ∑ o ∈ range L, ∑ i ∈ range L, trOut o * trIn i * densePT D T cap (n+1) (o :: i :: p) := by
  unfold densePT
  have hlen : p.length / 2 = n := by rw [hp]; omega
  simp only [bondAmp, hlen]
  have hL : ∑ b ∈ range (D n), cap n b * bondAmp D T p b
      = ∑ b ∈ range (D n), ∑ b' ∈ range (D (n+1)), ∑ i ∈ range L, ∑ o ∈ range L,
          (T n b b' i o * trIn i * trOut o * cap (n+1) b') * bondAmp D T p b := by
    apply Finset.sum_congr rfl; intro b hb
    rw [hcap b (Finset.mem_range.mp hb)]
    unfold capRec
    rw [Finset.sum_mul]
    apply Finset.sum_congr rfl; intro b' _
    rw [Finset.sum_mul]
    apply Finset.sum_congr rfl; intro i _
    rw [Finset.sum_mul]
  have hR : ∀ o ∈ range L, ∀ i ∈ range L,
      trOut o * trIn i * ∑ b' ∈ range (D (n+1)), cap (n+1) b' *
          ∑ b ∈ range (D n), T n b b' i o * bondAmp D T p b
      = ∑ b' ∈ range (D (n+1)), ∑ b ∈ range (D n),
          (T n b b' i o * trIn i * trOut o * cap (n+1) b') * bondAmp D T p b := by
    intro o _ i _
    rw [Finset.mul_sum]
    apply Finset.sum_congr rfl; intro b' _
    rw [Finset.mul_sum, Finset.mul_sum]
    apply Finset.sum_congr rfl; intro b _
    ring
  rw [hL, sum4_reverse]
  apply Finset.sum_congr rfl; intro o ho
  apply Finset.sum_congr rfl; intro i hi
  rw [hR o ho i hi]

end OQuPyVerif.PT
