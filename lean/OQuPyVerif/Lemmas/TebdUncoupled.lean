/- The step of an uncoupled chain acts on a site-product state site by site, each site
   undergoing the single-site step (post-control, half-step propagator, process-tensor MPO,
   half-step propagator, pre-control) of `compute_dynamics`; link to `PT.mpoStep`. -/
import OQuPyVerif.Lemmas.TebdHalf
import OQuPyVerif.Lemmas.TebdProduct
import OQuPyVerif.Model.ProcessTensor

namespace OQuPyVerif.Tebd
open OQuPyVerif.Generated
open Finset BigOperators Function

variable {K : Type} [CommRing K]
set_option linter.unusedSectionVars false

theorem runOps_append (a b : List (Op K)) (ψ : Config → K) :
    runOps (a ++ b) ψ = runOps b (runOps a ψ) := by
  simp [runOps, List.foldl_append]

section
variable (ch : Chain K)

/-- the statement list of `compute_step`, interpreted: post-controls of step `k`, one propagator,
    the process-tensor MPOs `k`, one propagator, pre-controls of step `k+1` -/
theorem stepOps_eq (order : ℤ) (dt : ℚ) (k : ℕ) :
    ch.stepOps order dt k
      = ch.ctrlOps ch.post k ++ ch.halfOps order dt ++ ch.ptOps k ++ ch.halfOps order dt
          ++ ch.ctrlOps ch.pre (k + 1) := by
  simp [Chain.stepOps, ControlCompose.tebdComputeStep]

/-- `PtTebd.initialize` applies the pre-controls of the start step only -/
theorem initOps_eq (k0 : ℕ) : ch.initOps k0 = ch.ctrlOps ch.pre k0 := by
  simp [Chain.initOps, ControlCompose.tebdInitialize]

variable (E : ℕ → ℚ → ℕ → ℕ → K)

/-- one half-step propagator per site -/
def Chain.siteHalfOps (dt : ℚ) : List (Op K) :=
  (List.range ch.n).filterMap (fun j => some (Op.site (physSlot j) (ch.L j) (ch.L j) (E j (dt / 2))))

/-- **the single-site step**: what one loop iteration of `compute_dynamics` applies to the
    (process-tensor bond × system) tensor of site `j` with the half-step propagators
    `E j (dt/2)` — post-control of step `k`, first half, MPO `k`, second half, and the
    pre-control of step `k+1` -/
def Chain.siteStepOps (dt : ℚ) (j k : ℕ) : List (Op K) :=
  ((ch.post j k).map (fun M => Op.site (physSlot j) (ch.L j) (ch.L j) (siteGateTable M))).toList
    ++ [Op.site (physSlot j) (ch.L j) (ch.L j) (E j (dt / 2))]
    ++ (if ch.hasPT j k then
          [Op.pair (ptSlot j) (physSlot j) (ch.D j k) (ch.L j) (ch.D j (k+1)) (ch.L j)
            (fun b' o b i => ch.T j k b b' i o)]
        else [])
    ++ [Op.site (physSlot j) (ch.L j) (ch.L j) (E j (dt / 2))]
    ++ ((ch.pre j (k + 1)).map (fun M => Op.site (physSlot j) (ch.L j) (ch.L j) (siteGateTable M))).toList

theorem runOps_siteHalfOps (dt : ℚ) (ψ : Config → K) :
    runOps (ch.siteHalfOps E dt) ψ
      = (List.range ch.n).foldl (fun φ j => ch.siteOp E j (dt / 2) φ) ψ := by
  unfold Chain.siteHalfOps runOps
  have e : (fun j => some (Op.site (physSlot j) (ch.L j) (ch.L j) (E j (dt / 2))))
      = some ∘ (fun j => Op.site (physSlot j) (ch.L j) (ch.L j) (E j (dt / 2))) := rfl
  rw [e, List.filterMap_eq_map, List.foldl_map]
  rfl

/-- the chain step with every propagator replaced by one half-step propagator per site -/
def Chain.localStepOps (dt : ℚ) (k : ℕ) : List (Op K) :=
  ch.ctrlOps ch.post k ++ ch.siteHalfOps E dt ++ ch.ptOps k ++ ch.siteHalfOps E dt
    ++ ch.ctrlOps ch.pre (k + 1)

theorem stepOps_uncoupled (order : ℤ) (ho : order = 1 ∨ order = 2) (dt : ℚ) (hdt : dt ≠ 0)
    (hn : 2 ≤ ch.n)
    (hE : ∀ j s t, mmul (ch.L j) (E j s) (E j t) = E j (s + t))
    (hG : ∀ i t, ch.gate i t = kron (E i (t * TebdLayers.factor_l (i : ℤ) (ch.n : ℤ)))
      (E (i + 1) (t * TebdLayers.factor_r (i : ℤ) (ch.n : ℤ))))
    (k : ℕ) (ψ : Config → K) :
    runOps (ch.stepOps order dt k) ψ = runOps (ch.localStepOps E dt k) ψ := by
  rw [stepOps_eq]
  unfold Chain.localStepOps
  simp only [runOps_append, halfOps_uncoupled ch E order ho dt hdt hn hE hG, runOps_siteHalfOps]

theorem mem_ctrlOps_local (ctl : ℕ → ℕ → Option (ℕ → ℕ → K)) (k : ℕ) (o : Op K)
    (h : o ∈ ch.ctrlOps ctl k) : IsLocalOp ch.n o := by
  unfold Chain.ctrlOps at h
  simp only [List.mem_filterMap, List.mem_range, Option.map_eq_some_iff] at h
  obtain ⟨j, hj, M, _, rfl⟩ := h
  exact ⟨j, hj, Or.inl rfl⟩

theorem mem_siteHalfOps_local (dt : ℚ) (o : Op K) (h : o ∈ ch.siteHalfOps E dt) :
    IsLocalOp ch.n o := by
  unfold Chain.siteHalfOps at h
  simp only [List.mem_filterMap, List.mem_range, Option.some.injEq] at h
  obtain ⟨j, hj, rfl⟩ := h
  exact ⟨j, hj, Or.inl rfl⟩

theorem mem_ptOps_local (k : ℕ) (o : Op K) (h : o ∈ ch.ptOps k) : IsLocalOp ch.n o := by
  unfold Chain.ptOps at h
  simp only [List.mem_filterMap, List.mem_range] at h
  obtain ⟨j, hj, hh⟩ := h
  split at hh
  · simp only [Option.some.injEq] at hh
    subst hh
    exact ⟨j, hj, rfl, rfl⟩
  · cases hh

theorem localStepOps_local (dt : ℚ) (k : ℕ) (o : Op K) (h : o ∈ ch.localStepOps E dt k) :
    IsLocalOp ch.n o := by
  unfold Chain.localStepOps at h
  simp only [List.mem_append] at h
  rcases h with (((h | h) | h) | h) | h
  · exact mem_ctrlOps_local ch _ k o h
  · exact mem_siteHalfOps_local ch E dt o h
  · exact mem_ptOps_local ch k o h
  · exact mem_siteHalfOps_local ch E dt o h
  · exact mem_ctrlOps_local ch _ (k+1) o h

/-- the operations of the local step that belong to site `j` are the single-site step of `j` -/
theorem localStepOps_filter (dt : ℚ) (k j : ℕ) (hj : j < ch.n) :
    (ch.localStepOps E dt k).filter (fun o => decide (o.siteOf = j)) = ch.siteStepOps E dt j k := by
  have hphys : ∀ i : ℕ, physSlot i / 2 = i := fun i => SlotOf.div (Or.inl rfl)
  have hpt : ∀ i : ℕ, ptSlot i / 2 = i := fun i => SlotOf.div (Or.inr rfl)
  have hc : ∀ (ctl : ℕ → ℕ → Option (ℕ → ℕ → K)) (k' : ℕ),
      (ch.ctrlOps ctl k').filter (fun o => decide (o.siteOf = j))
        = ((ctl j k').map (fun M => Op.site (physSlot j) (ch.L j) (ch.L j) (siteGateTable M))).toList := by
    intro ctl k'
    unfold Chain.ctrlOps
    rw [filter_site_filterMap, if_pos hj]
    intro i o ho
    simp only [Option.map_eq_some_iff] at ho
    obtain ⟨M, _, rfl⟩ := ho
    exact hphys i
  have hh : (ch.siteHalfOps E dt).filter (fun o => decide (o.siteOf = j))
      = [Op.site (physSlot j) (ch.L j) (ch.L j) (E j (dt / 2))] := by
    unfold Chain.siteHalfOps
    rw [filter_site_filterMap, if_pos hj]
    · rfl
    · intro i o ho
      simp only [Option.some.injEq] at ho
      subst ho
      exact hphys i
  have hp : (ch.ptOps k).filter (fun o => decide (o.siteOf = j))
      = (if ch.hasPT j k then
          [Op.pair (ptSlot j) (physSlot j) (ch.D j k) (ch.L j) (ch.D j (k+1)) (ch.L j)
            (fun b' o b i => ch.T j k b b' i o)]
        else []) := by
    unfold Chain.ptOps
    rw [filter_site_filterMap, if_pos hj]
    · split <;> rfl
    · intro i o ho
      split at ho
      · simp only [Option.some.injEq] at ho
        subst ho
        exact hpt i
      · cases ho
  unfold Chain.localStepOps Chain.siteStepOps
  simp only [List.filter_append, hc, hh, hp]

/-- **uncoupled chains evolve site by site**: for zero nearest-neighbour coupling (every gate
    the Kronecker product of the two site propagators, `hG`) and one-parameter groups `E j`,
    a step maps the site-product state with factors `w j` to the site-product state whose
    `j`-th factor is `w j` after the single-site step of site `j`. -/
theorem step_uncoupled (order : ℤ) (ho : order = 1 ∨ order = 2) (dt : ℚ) (hdt : dt ≠ 0)
    (hn : 2 ≤ ch.n)
    (hE : ∀ j s t, mmul (ch.L j) (E j s) (E j t) = E j (s + t))
    (hG : ∀ i t, ch.gate i t = kron (E i (t * TebdLayers.factor_l (i : ℤ) (ch.n : ℤ)))
      (E (i + 1) (t * TebdLayers.factor_r (i : ℤ) (ch.n : ℤ))))
    (k : ℕ) (w : ℕ → Config → K) (hloc : ∀ j, LocalTo j (w j)) :
    runOps (ch.stepOps order dt k) (siteProd ch.n w)
        = siteProd ch.n (fun j => runOps (ch.siteStepOps E dt j k) (w j))
      ∧ ∀ j, j < ch.n → LocalTo j (runOps (ch.siteStepOps E dt j k) (w j)) := by
  rw [stepOps_uncoupled ch E order ho dt hdt hn hE hG]
  obtain ⟨h1, h2⟩ := runOps_siteProd ch.n (ch.localStepOps E dt k)
    (localStepOps_local ch E dt k) w hloc
  have hsite : ∀ j, j < ch.n → (ch.localStepOps E dt k).foldl (fun w o => o.loc w) w j
      = runOps (ch.siteStepOps E dt j k) (w j) := by
    intro j hj
    rw [loc_fold_site, localStepOps_filter ch E dt k j hj]
  refine ⟨?_, ?_⟩
  · rw [h1]
    exact siteProd_congr _ _ _ hsite
  · intro j hj
    rw [← hsite j hj]
    exact h2 j

end

/-! ### the single-site step is `PT.mpoStep` -/

theorem applySite_siteFactor (j m : ℕ) (M : ℕ → ℕ → K) (X : ℕ → ℕ → K) :
    applySite (physSlot j) m M (siteFactor j X)
      = siteFactor j (fun b s => ∑ a ∈ range m, M s a * X b a) := by
  funext c
  have hne : ptSlot j ≠ physSlot j := by unfold ptSlot physSlot; omega
  simp only [applySite, siteFactor, update_self, update_of_ne hne]

theorem applyOwn_siteFactor (j m1 m2 : ℕ) (T : ℕ → ℕ → ℕ → ℕ → K) (X : ℕ → ℕ → K) :
    applyPair (ptSlot j) (physSlot j) m1 m2 (fun b' o b i => T b b' i o) (siteFactor j X)
      = siteFactor j (fun b' o => ∑ b ∈ range m1, ∑ i ∈ range m2, T b b' i o * X b i) := by
  funext c
  have hne : ptSlot j ≠ physSlot j := by unfold ptSlot physSlot; omega
  simp only [applyPair, siteFactor, update_self, update_of_ne hne]

/-- Without controls and with a process tensor present, the single-site step on the factor
    `siteFactor j X` is one loop iteration `PT.mpoStep` of `compute_dynamics` for the system
    propagators `A k = B k = E j (dt/2)` and the process tensor of site `j`. -/
theorem siteStep_eq_mpoStep (ch : Chain K) (E : ℕ → ℚ → ℕ → ℕ → K) (dt : ℚ) (j k : ℕ)
    (hpost : ch.post j k = none) (hpre : ch.pre j (k + 1) = none) (hpt : ch.hasPT j k = true)
    (X : ℕ → ℕ → K) :
    runOps (ch.siteStepOps E dt j k) (siteFactor j X)
      = siteFactor j (PT.mpoStep (ch.L j) (ch.D j) (ch.T j) (fun _ => E j (dt / 2))
          (fun _ => E j (dt / 2)) k X) := by
  unfold Chain.siteStepOps
  simp only [hpost, hpre, hpt, Option.map_none, Option.toList_none, List.nil_append, List.append_nil,
    if_true, List.cons_append, runOps, List.foldl_cons, List.foldl_nil, Op.run]
  rw [applySite_siteFactor, applyOwn_siteFactor, applySite_siteFactor]
  rfl

end OQuPyVerif.Tebd
