/- Kraus-form propagators preserve Gram form (positive semidefiniteness), trace and act on the
   row-major vectorisation as `ρ ↦ Σ_k K_k ρ K_k†`. -/
import OQuPyVerif.Model.Positivity
import OQuPyVerif.Lemmas.MultiEnvJoint
import Mathlib.Algebra.Star.BigOperators

namespace OQuPyVerif.Positivity
open Finset BigOperators OQuPyVerif.MultiEnv

variable {K : Type} [CommRing K] [StarRing K]

/-- `(Σ_k kron(K_k, conj K_k)) @ rho.flatten() = (Σ_k K_k ρ K_k†).flatten()` -/
theorem krausSuper_apply (d r : ℕ) (Ks : ℕ → ℕ → ℕ → K) (ρ : ℕ → ℕ → K) (i j : ℕ)
    (_hi : i < d) (hj : j < d) :
    ∑ b ∈ range (d * d), krausSuper d r Ks (i * d + j) b * vecOf d ρ b
      = krausMap d r Ks ρ i j := by
  rw [sum_range_mul']
  unfold krausMap
  have h1 : ∀ p ∈ range d, ∀ q ∈ range d,
      krausSuper d r Ks (i * d + j) (p * d + q) * vecOf d ρ (p * d + q)
        = ∑ k ∈ range r, Ks k i p * ρ p q * star (Ks k j q) := by
    intro p _ q hq
    have hq' := Finset.mem_range.mp hq
    unfold krausSuper vecOf
    rw [pair_div hj, pair_mod hj, pair_div hq', pair_mod hq', Finset.sum_mul]
    apply Finset.sum_congr rfl; intro k _; ring
  rw [Finset.sum_congr rfl (fun p hp => Finset.sum_congr rfl (fun q hq => h1 p hp q hq))]
  rw [Finset.sum_congr rfl (fun p _ => Finset.sum_comm)]
  rw [Finset.sum_comm]

/-- a Kraus map sends Gram matrices to Gram matrices -/
theorem krausMap_gram (d r : ℕ) (Ks : ℕ → ℕ → ℕ → K) (ρ : ℕ → ℕ → K) (h : IsGram d ρ) :
    IsGram d (krausMap d r Ks ρ) := by
  obtain ⟨m, B, hB⟩ := h
  refine ⟨r * m, fun i e => ∑ p ∈ range d, Ks (e / m) i p * B p (e % m), ?_⟩
  intro i _ j _
  rw [sum_range_mul']
  unfold krausMap
  apply Finset.sum_congr rfl; intro k _
  have hc : ∀ c ∈ range m,
      (∑ p ∈ range d, Ks ((k * m + c) / m) i p * B p ((k * m + c) % m)) *
        star (∑ q ∈ range d, Ks ((k * m + c) / m) j q * B q ((k * m + c) % m))
      = ∑ p ∈ range d, ∑ q ∈ range d, Ks k i p * (B p c * star (B q c)) * star (Ks k j q) := by
    intro c hc
    have hc' := Finset.mem_range.mp hc
    rw [pair_div hc', pair_mod hc', star_sum, Finset.sum_mul_sum]
    apply Finset.sum_congr rfl; intro p _
    apply Finset.sum_congr rfl; intro q _
    rw [star_mul']; ring
  rw [Finset.sum_congr rfl hc]
  symm
  rw [Finset.sum_comm]
  apply Finset.sum_congr rfl; intro p hp
  rw [Finset.sum_comm]
  apply Finset.sum_congr rfl; intro q hq
  rw [hB p (Finset.mem_range.mp hp) q (Finset.mem_range.mp hq), Finset.mul_sum, Finset.sum_mul]

/-- Gram matrices are Hermitian -/
theorem gram_hermitian (d : ℕ) (ρ : ℕ → ℕ → K) (h : IsGram d ρ) (i j : ℕ) (hi : i < d)
    (hj : j < d) : star (ρ i j) = ρ j i := by
  obtain ⟨m, B, hB⟩ := h
  rw [hB i hi j hj, hB j hj i hi, star_sum]
  apply Finset.sum_congr rfl; intro c _
  rw [star_mul', star_star, mul_comm]

/-- the quadratic form of a Gram matrix is a sum of Hermitian squares `Σ_c w_c · star w_c`
    (over ℂ: `v† ρ v = Σ_c |w_c|² ≥ 0`, i.e. no negative eigenvalue) -/
theorem gram_quadratic_form (d : ℕ) (ρ : ℕ → ℕ → K) (h : IsGram d ρ) (v : ℕ → K) :
    ∃ (m : ℕ) (w : ℕ → K),
      ∑ i ∈ range d, ∑ j ∈ range d, star (v i) * ρ i j * v j
        = ∑ c ∈ range m, w c * star (w c) := by
  obtain ⟨m, B, hB⟩ := h
  refine ⟨m, fun c => ∑ i ∈ range d, star (v i) * B i c, ?_⟩
  have h1 : ∀ c ∈ range m,
      (∑ i ∈ range d, star (v i) * B i c) * star (∑ j ∈ range d, star (v j) * B j c)
        = ∑ i ∈ range d, ∑ j ∈ range d, star (v i) * (B i c * star (B j c)) * v j := by
    intro c _
    rw [star_sum, Finset.sum_mul_sum]
    apply Finset.sum_congr rfl; intro i _
    apply Finset.sum_congr rfl; intro j _
    rw [star_mul', star_star]; ring
  rw [Finset.sum_congr rfl h1]
  symm
  rw [Finset.sum_comm]
  apply Finset.sum_congr rfl; intro i hi
  rw [Finset.sum_comm]
  apply Finset.sum_congr rfl; intro j hj
  rw [hB i (Finset.mem_range.mp hi) j (Finset.mem_range.mp hj), Finset.mul_sum, Finset.sum_mul]

/-- the trace of the image: `tr(Σ_k K_k ρ K_k†) = Σ_pq (Σ_k K_k† K_k)_qp ρ_pq` -/
theorem krausMap_trace (d r : ℕ) (Ks : ℕ → ℕ → ℕ → K) (ρ : ℕ → ℕ → K) :
    ∑ i ∈ range d, krausMap d r Ks ρ i i
      = ∑ p ∈ range d, ∑ q ∈ range d, krausDual d r Ks q p * ρ p q := by
  unfold krausMap krausDual
  have e1 : ∀ p ∈ range d, ∀ q ∈ range d,
      (∑ k ∈ range r, ∑ i ∈ range d, star (Ks k i q) * Ks k i p) * ρ p q
        = ∑ k ∈ range r, ∑ i ∈ range d, Ks k i p * ρ p q * star (Ks k i q) := by
    intro p _ q _
    rw [Finset.sum_mul]
    apply Finset.sum_congr rfl; intro k _
    rw [Finset.sum_mul]
    apply Finset.sum_congr rfl; intro i _
    ring
  rw [Finset.sum_congr rfl (fun p hp => Finset.sum_congr rfl (fun q hq => e1 p hp q hq))]
  calc ∑ i ∈ range d, ∑ k ∈ range r, ∑ p ∈ range d, ∑ q ∈ range d,
          Ks k i p * ρ p q * star (Ks k i q)
      = ∑ k ∈ range r, ∑ i ∈ range d, ∑ p ∈ range d, ∑ q ∈ range d,
          Ks k i p * ρ p q * star (Ks k i q) := Finset.sum_comm
    _ = ∑ k ∈ range r, ∑ p ∈ range d, ∑ i ∈ range d, ∑ q ∈ range d,
          Ks k i p * ρ p q * star (Ks k i q) :=
        Finset.sum_congr rfl (fun k _ => Finset.sum_comm)
    _ = ∑ p ∈ range d, ∑ k ∈ range r, ∑ i ∈ range d, ∑ q ∈ range d,
          Ks k i p * ρ p q * star (Ks k i q) := Finset.sum_comm
    _ = ∑ p ∈ range d, ∑ k ∈ range r, ∑ q ∈ range d, ∑ i ∈ range d,
          Ks k i p * ρ p q * star (Ks k i q) :=
        Finset.sum_congr rfl (fun p _ => Finset.sum_congr rfl (fun k _ => Finset.sum_comm))
    _ = ∑ p ∈ range d, ∑ q ∈ range d, ∑ k ∈ range r, ∑ i ∈ range d,
          Ks k i p * ρ p q * star (Ks k i q) :=
        Finset.sum_congr rfl (fun p _ => Finset.sum_comm)

/-- trace preservation when `Σ_k K_k† K_k = 1` -/
theorem krausMap_trace_one (d r : ℕ) (Ks : ℕ → ℕ → ℕ → K) (ρ : ℕ → ℕ → K)
    (hunit : ∀ p, p < d → ∀ q, q < d → krausDual d r Ks q p = if q = p then 1 else 0) :
    ∑ i ∈ range d, krausMap d r Ks ρ i i = ∑ i ∈ range d, ρ i i := by
  rw [krausMap_trace]
  apply Finset.sum_congr rfl; intro p hp
  have hp' := Finset.mem_range.mp hp
  rw [Finset.sum_eq_single p]
  · rw [hunit p hp' p hp']; simp
  · intro q hq hne
    rw [hunit p hp' q (Finset.mem_range.mp hq)]; simp [hne]
  · intro h; exact absurd hp h

/-- partial trace over the first factor of a joint index `a = e * d + i` (`np.kron(rho_E, rho_S)`
    ordering): `ρ_S i j = Σ_e ρ (e*d+i) (e*d+j)` -/
def ptraceEnv (E d : ℕ) (ρ : ℕ → ℕ → K) (i j : ℕ) : K :=
  ∑ e ∈ range E, ρ (e * d + i) (e * d + j)

/-- the partial trace of a Gram matrix is a Gram matrix -/
theorem ptraceEnv_gram (E d : ℕ) (ρ : ℕ → ℕ → K) (h : IsGram (E * d) ρ) :
    IsGram d (ptraceEnv E d ρ) := by
  obtain ⟨m, B, hB⟩ := h
  refine ⟨E * m, fun i c => B ((c / m) * d + i) (c % m), ?_⟩
  intro i hi j hj
  rw [sum_range_mul']
  unfold ptraceEnv
  apply Finset.sum_congr rfl; intro e he
  have he' := Finset.mem_range.mp he
  have hlt : ∀ k, k < d → e * d + k < E * d := by
    intro k hk
    calc e * d + k < e * d + d := by omega
      _ = (e + 1) * d := by ring
      _ ≤ E * d := Nat.mul_le_mul_right d he'
  rw [hB _ (hlt i hi) _ (hlt j hj)]
  apply Finset.sum_congr rfl; intro c hc
  have hc' := Finset.mem_range.mp hc
  show _ = B ((e * m + c) / m * d + i) ((e * m + c) % m) *
    star (B ((e * m + c) / m * d + j) ((e * m + c) % m))
  rw [pair_div hc', pair_mod hc']

/-- the trace of the partial trace is the trace -/
theorem ptraceEnv_trace (E d : ℕ) (ρ : ℕ → ℕ → K) :
    ∑ i ∈ range d, ptraceEnv E d ρ i i = ∑ a ∈ range (E * d), ρ a a := by
  rw [sum_range_mul']
  unfold ptraceEnv
  rw [Finset.sum_comm]

end OQuPyVerif.Positivity
