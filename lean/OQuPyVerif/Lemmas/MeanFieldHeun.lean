/-
  C09 — Heun's rule as the property states it (exact arithmetic over a field `K`), its closed
  form for equations of motion linear in time, and the bridge from the model's `heun2`
  (float stage times, the code's operand order) to it.
-/
import OQuPyVerif.Lemmas.MeanField
import Mathlib.Tactic.FieldSimp
import Mathlib.Algebra.Field.Basic

set_option linter.unusedSectionVars false

namespace OQuPyVerif.MeanField
open OQuPyVerif.FloatModel OQuPyVerif.Generated.MeanFieldTimes

section
variable {S K σ P : Type} [Field K]

/-- second-order Runge–Kutta (Heun) step of `∂ₜa = f(t, states, a)` from `t` to `t + dt`, using the
    states `s` at `t` and `s'` at `t + dt` -/
def heun (f : K → S → K → K) (t dt a : K) (s s' : S) : K :=
  a + dt * (f t s a + f (t + dt) s' (a + dt * f t s a)) / 2

/-- the field sequence on the grid `t₀ + n·dt` for a given sequence of states -/
def heunSeq (f : K → S → K → K) (t0 dt a0 : K) (s : ℕ → S) : ℕ → K
  | 0 => a0
  | n + 1 => heun f (t0 + n * dt) dt (heunSeq f t0 dt a0 s n) (s n) (s (n + 1))

theorem heunSeq_linear (h2 : (2 : K) ≠ 0) (f : K → S → K → K) (c0 c1 : K)
    (hf : ∀ t x a, f t x a = c0 + c1 * t) (t0 dt a0 : K) (s : ℕ → S) (n : ℕ) :
    heunSeq f t0 dt a0 s n
      = a0 + c0 * ((t0 + n * dt) - t0) + c1 * ((t0 + n * dt) ^ 2 - t0 ^ 2) / 2 := by
  induction n with
  | zero => simp [heunSeq]
  | succ n ih =>
    show heun f (t0 + n * dt) dt (heunSeq f t0 dt a0 s n) (s n) (s (n + 1)) = _
    rw [ih]
    unfold heun
    rw [hf, hf]
    push_cast
    field_simp
    ring

/-- the model's update (code operand order, explicit float stage times) is Heun's rule whenever
    the second stage time is `t₁ + dt` without rounding -/
theorem heun2_eq_heun (g : K → S → K → K) (cast : Rat → K) (t1 t2 : Rat) (dtK a : K) (s s' : S)
    (ht : cast t2 = cast t1 + dtK) :
    heun2 (fun t => g (cast t)) t1 t2 dtK a s s' = heun g (cast t1) dtK a s s' := by
  unfold heun2 heun
  beta_reduce
  rw [ht, mul_comm (g (cast t1) s a) dtK]

/-- On a grid that binary64 represents exactly (`hgrid`), the model's field for an equation of
    motion linear in time is the exact solution at every grid point. -/
theorem specIter_linear_exact (M : Sys S K σ P) (h2 : (2 : K) ≠ 0) (c0 c1 : K)
    (hf : ∀ t x a, M.eom t x a = c0 + c1 * M.cast t) (t0 δ : K) (hδ : M.cast M.dt = δ) (N : ℕ)
    (hgrid : ∀ k : ℕ, k < N → M.cast (gridT M.start M.dt k) = t0 + k * δ ∧
        M.cast (fadd (gridT M.start M.dt k) M.dt) = t0 + (k + 1) * δ)
    (σ0 : σ) (a0 : K) (n : ℕ) (hn : n ≤ N) :
    (specIter M σ0 a0 n).2 = a0 + c0 * (n * δ) + c1 * ((t0 + n * δ) ^ 2 - t0 ^ 2) / 2 := by
  induction n with
  | zero => simp [specIter]
  | succ n ih =>
    have ih := ih (Nat.le_of_succ_le hn)
    obtain ⟨g1, g2⟩ := hgrid n (Nat.lt_of_succ_le hn)
    show heun2 M.eom (gridT M.start M.dt (n : Int)) (fadd (gridT M.start M.dt (n : Int)) M.dt)
        (M.cast M.dt) (specIter M σ0 a0 n).2 _ _ = _
    unfold heun2
    rw [hf, hf, ih, hδ, g1, g2]
    push_cast
    field_simp
    ring

end
end OQuPyVerif.MeanField
