/- A sequence of applications `P i t` of one-parameter families that commute between different
   labels `i` collapses to one application per label with the accumulated parameter
   (no identity element is needed: every label is assumed to occur). -/
import Mathlib.Algebra.BigOperators.Group.List.Basic
import Mathlib.Data.List.Induction
import Mathlib.Algebra.Order.Field.Rat
import Mathlib.Tactic.Ring
import Mathlib.Tactic.Linarith

namespace OQuPyVerif.Tebd

/-- accumulated parameter of label `i` in a list of `(label, parameter)` applications -/
def labelTime (gs : List (ℕ × ℚ)) (i : ℕ) : ℚ := (gs.map (fun g => if g.1 = i then g.2 else 0)).sum

theorem labelTime_nil (i : ℕ) : labelTime [] i = 0 := rfl

theorem labelTime_append (gs hs : List (ℕ × ℚ)) (i : ℕ) :
    labelTime (gs ++ hs) i = labelTime gs i + labelTime hs i := by
  simp [labelTime]

theorem labelTime_singleton (g : ℕ × ℚ) (i : ℕ) :
    labelTime [g] i = if g.1 = i then g.2 else 0 := by
  simp [labelTime]

theorem labelTime_of_not_occ (gs : List (ℕ × ℚ)) (i : ℕ) (h : ∀ g ∈ gs, g.1 ≠ i) :
    labelTime gs i = 0 := by
  induction gs with
  | nil => rfl
  | cons g gs ih =>
    have hg : g.1 ≠ i := h g (List.mem_cons_self ..)
    have := ih (fun g' hg' => h g' (List.mem_cons_of_mem _ hg'))
    simp only [labelTime, List.map_cons, List.sum_cons, hg, if_false, zero_add] at this ⊢
    exact this

/-- the list without the applications of label `i0` -/
def dropLabel (i0 : ℕ) (gs : List (ℕ × ℚ)) : List (ℕ × ℚ) := gs.filter (fun g => !decide (g.1 = i0))

theorem dropLabel_nil (i0 : ℕ) : dropLabel i0 [] = [] := rfl

theorem dropLabel_cons_eq (i0 : ℕ) (g : ℕ × ℚ) (gs : List (ℕ × ℚ)) (h : g.1 = i0) :
    dropLabel i0 (g :: gs) = dropLabel i0 gs := by
  simp [dropLabel, h]

theorem dropLabel_cons_ne (i0 : ℕ) (g : ℕ × ℚ) (gs : List (ℕ × ℚ)) (h : g.1 ≠ i0) :
    dropLabel i0 (g :: gs) = g :: dropLabel i0 gs := by
  simp [dropLabel, h]

theorem dropLabel_append (i0 : ℕ) (gs hs : List (ℕ × ℚ)) :
    dropLabel i0 (gs ++ hs) = dropLabel i0 gs ++ dropLabel i0 hs := by
  simp [dropLabel, List.filter_append]

theorem mem_dropLabel (i0 : ℕ) (gs : List (ℕ × ℚ)) (g : ℕ × ℚ) :
    g ∈ dropLabel i0 gs ↔ g ∈ gs ∧ g.1 ≠ i0 := by
  simp [dropLabel, List.mem_filter]

theorem dropLabel_of_not_occ (i0 : ℕ) (gs : List (ℕ × ℚ)) (h : ∀ g ∈ gs, g.1 ≠ i0) :
    dropLabel i0 gs = gs := by
  induction gs with
  | nil => rfl
  | cons g gs ih =>
    rw [dropLabel_cons_ne _ _ _ (h g (List.mem_cons_self ..)),
      ih (fun g' hg' => h g' (List.mem_cons_of_mem _ hg'))]

theorem labelTime_cons (g : ℕ × ℚ) (gs : List (ℕ × ℚ)) (i : ℕ) :
    labelTime (g :: gs) i = (if g.1 = i then g.2 else 0) + labelTime gs i := by
  simp [labelTime]

theorem labelTime_dropLabel (gs : List (ℕ × ℚ)) (i0 i : ℕ) (h : i ≠ i0) :
    labelTime (dropLabel i0 gs) i = labelTime gs i := by
  induction gs with
  | nil => rfl
  | cons g gs ih =>
    by_cases hg : g.1 = i0
    · have hgi : g.1 ≠ i := fun e => h (e ▸ hg ▸ rfl)
      rw [dropLabel_cons_eq _ _ _ hg, labelTime_cons, if_neg hgi, zero_add, ih]
    · rw [dropLabel_cons_ne _ _ _ hg, labelTime_cons, labelTime_cons, ih]

section
variable {X : Type} (P : ℕ → ℚ → X → X)

/-- apply the list, first entry first -/
def applySeq (gs : List (ℕ × ℚ)) (x : X) : X := gs.foldl (fun y g => P g.1 g.2 y) x

theorem applySeq_append (gs hs : List (ℕ × ℚ)) (x : X) :
    applySeq P (gs ++ hs) x = applySeq P hs (applySeq P gs x) := by
  simp [applySeq, List.foldl_append]

variable (hgrp : ∀ i s t x, P i s (P i t x) = P i (s + t) x)
variable (M : ℕ)
variable (hcomm : ∀ i i' s t x, i < M → i' < M → i ≠ i' → P i s (P i' t x) = P i' t (P i s x))

include hgrp hcomm in
/-- all applications with label `i0` can be pulled out (to the end) and merged -/
theorem applySeq_extract (i0 : ℕ) (hi0 : i0 < M) (gs : List (ℕ × ℚ)) (hltM : ∀ g ∈ gs, g.1 < M)
    (hocc : ∃ g ∈ gs, g.1 = i0) (x : X) :
    applySeq P gs x
      = P i0 (labelTime gs i0) (applySeq P (dropLabel i0 gs) x) := by
  induction gs using List.reverseRecOn with
  | nil => obtain ⟨g, hg, _⟩ := hocc; cases hg
  | append_singleton gs g ih =>
    have hltgs : ∀ g' ∈ gs, g'.1 < M := fun g' hg' => hltM g' (List.mem_append_left _ hg')
    have hgM : g.1 < M := hltM g (List.mem_append_right _ (List.mem_singleton_self g))
    rw [applySeq_append, labelTime_append, dropLabel_append, applySeq_append]
    by_cases hg : g.1 = i0
    · have hf : dropLabel i0 [g] = [] := by rw [dropLabel_cons_eq _ _ _ hg]; rfl
      rw [hf]
      show P g.1 g.2 (applySeq P gs x) = _
      by_cases hocc' : ∃ g' ∈ gs, g'.1 = i0
      · rw [ih hltgs hocc', hg, hgrp, labelTime_singleton, if_pos hg, add_comm]
        rfl
      · have hno : ∀ g' ∈ gs, g'.1 ≠ i0 := fun g' hg' e => hocc' ⟨g', hg', e⟩
        have hfil : dropLabel i0 gs = gs := dropLabel_of_not_occ i0 gs hno
        rw [labelTime_of_not_occ gs i0 hno, labelTime_singleton, if_pos hg, zero_add, hfil, hg]
        rfl
    · have hf : dropLabel i0 [g] = [g] := by rw [dropLabel_cons_ne _ _ _ hg]; rfl
      rw [hf]
      have hocc' : ∃ g' ∈ gs, g'.1 = i0 := by
        obtain ⟨g', hg', e⟩ := hocc
        rcases List.mem_append.mp hg' with h | h
        · exact ⟨g', h, e⟩
        · simp only [List.mem_singleton] at h; subst h; exact absurd e hg
      show P g.1 g.2 (applySeq P gs x) = P i0 _ (P g.1 g.2 _)
      rw [ih hltgs hocc', labelTime_singleton, if_neg hg, add_zero, hcomm _ _ _ _ _ hgM hi0 hg]

include hgrp hcomm in
/-- **canonical form**: if exactly the labels `< m` occur, the sequence equals one application
    per label, in ascending order, with the accumulated parameters -/
theorem applySeq_canonical (m : ℕ) (hmM : m ≤ M) (gs : List (ℕ × ℚ)) (hlt : ∀ g ∈ gs, g.1 < m)
    (hocc : ∀ i, i < m → ∃ g ∈ gs, g.1 = i) (x : X) :
    applySeq P gs x = (List.range m).foldl (fun y i => P i (labelTime gs i) y) x := by
  induction m generalizing gs with
  | zero =>
    cases gs with
    | nil => rfl
    | cons g gs => exact absurd (hlt g (List.mem_cons_self ..)) (Nat.not_lt_zero _)
  | succ m ih =>
    rw [applySeq_extract P hgrp M hcomm m (by omega) gs (fun g hg => by have := hlt g hg; omega)
        (hocc m (Nat.lt_succ_self m)) x, List.range_succ,
      List.foldl_append]
    simp only [List.foldl_cons, List.foldl_nil]
    congr 1
    have hlt' : ∀ g ∈ dropLabel m gs, g.1 < m := by
      intro g hg
      rw [mem_dropLabel] at hg
      have := hlt g hg.1
      omega
    have hocc' : ∀ i, i < m → ∃ g ∈ dropLabel m gs, g.1 = i := by
      intro i hi
      obtain ⟨g, hg, e⟩ := hocc i (Nat.lt_succ_of_lt hi)
      refine ⟨g, ?_, e⟩
      rw [mem_dropLabel]
      exact ⟨hg, by omega⟩
    rw [ih (by omega) _ hlt' hocc']
    apply List.foldl_ext
    intro y i hi
    rw [labelTime_dropLabel gs m i (by have := List.mem_range.mp hi; omega)]

end

end OQuPyVerif.Tebd
