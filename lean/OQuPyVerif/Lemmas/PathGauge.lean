/- Gauge invariance of the path sum: a change of basis that only mixes indices with equal
   keys (on which alone the influence factors depend) leaves the tested path state
   unchanged. -/
import OQuPyVerif.Lemmas.PathLinear

namespace OQuPyVerif.PathSum
open Finset BigOperators
variable {K : Type} [CommRing K]

/-- `inflRow` for a key-level influence table `J`, on a list of keys. -/
def inflRowK {κ : Type} (J : ℕ → ℕ → κ → κ → K) (n : ℕ) (k : κ) : ℕ → List κ → K
  | _, [] => 1
  | _, [_] => 1
  | j, c :: c' :: cs => J n j k c * inflRowK J n k (j+1) (c' :: cs)

/-- if the influence table factors through `key`, so does `inflRow`. -/
theorem inflRow_eq_inflRowK {κ : Type} (L : ℕ) (I : ℕ → ℕ → ℕ → ℕ → K)
    (J : ℕ → ℕ → κ → κ → K) (key : ℕ → κ)
    (hI : ∀ n dk a c, a < L → c < L → I n dk a c = J n dk (key a) (key c))
    (n a : ℕ) (ha : a < L) (j : ℕ) (p : List ℕ) (hp : ∀ c ∈ p, c < L) :
    inflRow I n a j p = inflRowK J n (key a) j (p.map key) := by
  induction p generalizing j with
  | nil => rfl
  | cons c cs ih =>
    cases cs with
    | nil => rfl
    | cons c' cs' =>
      have hc : c < L := hp c (by simp)
      have := ih (j+1) (fun d hd => hp d (List.mem_cons_of_mem _ hd))
      simp only [List.map_cons] at this ⊢
      simp only [inflRow, inflRowK]
      rw [hI n j a c ha hc, this]

/-- peel the newest kernel and influence row off the weight, in key form. -/
theorem pathSum_weight_cons_key {κ : Type} (L n : ℕ) (ρ0 : ℕ → K) (M : ℕ → ℕ → ℕ → K)
    (I : ℕ → ℕ → ℕ → ℕ → K) (J : ℕ → ℕ → κ → κ → K) (key : ℕ → κ)
    (hI : ∀ n dk a c, a < L → c < L → I n dk a c = J n dk (key a) (key c))
    (F : List κ → K) (x : ℕ) (hx : x < L) :
    pathSum L (n+1) (fun t => weight ρ0 M I (x :: t) * F (t.map key)) =
      ∑ b ∈ range L, M (n+1) x b * pathSum L n (fun r => weight ρ0 M I (b :: r) *
        (inflRowK J (n+1) (key x) 0 (key x :: key b :: r.map key) * F (key b :: r.map key))) := by
  rw [pathSum_succ]
  apply Finset.sum_congr rfl
  intro b hb
  rw [← pathSum_mul_left]
  apply pathSum_congr
  intro r hr
  have hmem : ∀ c ∈ x :: b :: r, c < L := by
    intro c hc
    rcases List.mem_cons.mp hc with rfl | hc
    · exact hx
    rcases List.mem_cons.mp hc with rfl | hc
    · exact Finset.mem_range.mp hb
    · exact hr.2 c hc
  have h := inflRow_eq_inflRowK L I J key hI (n+1) x hx 0 (x :: b :: r) hmem
  simp only [List.map_cons] at h
  simp only [weight, hr.1, List.map_cons]
  rw [h]
  ring

theorem gauge_aux {κ : Type} (L : ℕ) (ρ0 ρ0' : ℕ → K) (M M' : ℕ → ℕ → ℕ → K)
    (I I' : ℕ → ℕ → ℕ → ℕ → K) (J : ℕ → ℕ → κ → κ → K) (T : ℕ → ℕ → K) (key key' : ℕ → κ)
    (hI : ∀ n dk a c, a < L → c < L → I n dk a c = J n dk (key a) (key c))
    (hI' : ∀ n dk a c, a < L → c < L → I' n dk a c = J n dk (key' a) (key' c))
    (hT : ∀ a' a, a' < L → a < L → key' a' ≠ key a → T a' a = 0)
    (hρ : ∀ a', a' < L → ρ0' a' = ∑ a ∈ range L, T a' a * ρ0 a)
    (hM : ∀ k a' b, a' < L → b < L →
            ∑ c ∈ range L, M' k a' c * T c b = ∑ y ∈ range L, T a' y * M k y b)
    (n : ℕ) : ∀ (F : List κ → K) (x' : ℕ), x' < L →
      pathSum L n (fun t => weight ρ0' M' I' (x' :: t) * F (t.map key')) =
        ∑ y ∈ range L, T x' y *
          pathSum L n (fun t => weight ρ0 M I (y :: t) * F (t.map key)) := by
  induction n with
  | zero =>
    intro F x' hx
    simp only [pathSum, weight, List.map_nil]
    rw [hρ x' hx, Finset.sum_mul]
    apply Finset.sum_congr rfl; intro y _; ring
  | succ n ih =>
    intro F x' hx
    classical
    rw [pathSum_weight_cons_key L n ρ0' M' I' J key' hI' F x' hx]
    let F2 : κ → κ → List κ → K :=
      fun k1 k2 ks => inflRowK J (n+1) k1 0 (k1 :: k2 :: ks) * F (k2 :: ks)
    let G : ℕ → (List κ → K) → K :=
      fun b Φ => pathSum L n (fun r => weight ρ0 M I (b :: r) * Φ (r.map key))
    have hR : ∀ y, y < L →
        pathSum L (n+1) (fun t => weight ρ0 M I (y :: t) * F (t.map key)) =
          ∑ b ∈ range L, M (n+1) y b * G b (F2 (key y) (key b)) :=
      fun y hy => pathSum_weight_cons_key L n ρ0 M I J key hI F y hy
    calc ∑ a' ∈ range L, M' (n+1) x' a' * pathSum L n (fun r => weight ρ0' M' I' (a' :: r) *
            F2 (key' x') (key' a') (r.map key'))
        = ∑ a' ∈ range L, M' (n+1) x' a' *
            ∑ b ∈ range L, T a' b * G b (F2 (key' x') (key' a')) := by
          apply Finset.sum_congr rfl; intro a' ha'
          rw [ih (F2 (key' x') (key' a')) a' (Finset.mem_range.mp ha')]
      _ = ∑ a' ∈ range L, ∑ b ∈ range L,
            (M' (n+1) x' a' * T a' b) * G b (F2 (key' x') (key b)) := by
          apply Finset.sum_congr rfl; intro a' ha'
          rw [Finset.mul_sum]
          apply Finset.sum_congr rfl; intro b hb
          by_cases h : key' a' = key b
          · rw [h]; ring
          · rw [hT a' b (mem_range.mp ha') (mem_range.mp hb) h]; ring
      _ = ∑ b ∈ range L, (∑ a' ∈ range L, M' (n+1) x' a' * T a' b) *
            G b (F2 (key' x') (key b)) := by
          rw [Finset.sum_comm]; apply Finset.sum_congr rfl; intro b _; rw [Finset.sum_mul]
      _ = ∑ b ∈ range L, (∑ y ∈ range L, T x' y * M (n+1) y b) *
            G b (F2 (key' x') (key b)) := by
          apply Finset.sum_congr rfl; intro b hb; rw [hM (n+1) x' b hx (mem_range.mp hb)]
      _ = ∑ b ∈ range L, ∑ y ∈ range L,
            T x' y * (M (n+1) y b * G b (F2 (key y) (key b))) := by
          apply Finset.sum_congr rfl; intro b hb; rw [Finset.sum_mul]
          apply Finset.sum_congr rfl; intro y hy
          by_cases h : key' x' = key y
          · rw [h]; ring
          · rw [hT x' y hx (mem_range.mp hy) h]; ring
      _ = ∑ y ∈ range L, T x' y * ∑ b ∈ range L, M (n+1) y b * G b (F2 (key y) (key b)) := by
          rw [Finset.sum_comm]; apply Finset.sum_congr rfl; intro y _; rw [Finset.mul_sum]
      _ = _ := by
          apply Finset.sum_congr rfl; intro y hy; rw [hR y (mem_range.mp hy)]

/-- `pathState` as a sum over the newest index -/
theorem pathState_eq_sum_head (L : ℕ) (ρ0 : ℕ → K) (M : ℕ → ℕ → ℕ → K)
    (I : ℕ → ℕ → ℕ → ℕ → K) (n : ℕ) (φ : ℕ → K) :
    pathState L ρ0 M I n φ =
      ∑ x ∈ range L, φ x * pathSum L n (fun t => weight ρ0 M I (x :: t) * 1) := by
  unfold pathState
  rw [pathSum_succ]
  apply Finset.sum_congr rfl; intro x _
  rw [← pathSum_mul_left]
  apply pathSum_congr; intro t _
  simp

/-- Gauge invariance, table form: both influence tables factor through one key-level
    table `J` (via `key` on the unprimed side and `key'` on the primed side). -/
theorem pathState_gauge_table {κ : Type} (L : ℕ) (ρ0 ρ0' : ℕ → K) (M M' : ℕ → ℕ → ℕ → K)
    (I I' : ℕ → ℕ → ℕ → ℕ → K) (J : ℕ → ℕ → κ → κ → K) (T : ℕ → ℕ → K) (key key' : ℕ → κ)
    (hI : ∀ n dk a c, a < L → c < L → I n dk a c = J n dk (key a) (key c))
    (hI' : ∀ n dk a c, a < L → c < L → I' n dk a c = J n dk (key' a) (key' c))
    (hT : ∀ a' a, a' < L → a < L → key' a' ≠ key a → T a' a = 0)
    (hρ : ∀ a', a' < L → ρ0' a' = ∑ a ∈ range L, T a' a * ρ0 a)
    (hM : ∀ k a' b, a' < L → b < L →
            ∑ c ∈ range L, M' k a' c * T c b = ∑ y ∈ range L, T a' y * M k y b)
    (n : ℕ) (φ φ' : ℕ → K)
    (hφ : ∀ a, a < L → ∑ a' ∈ range L, φ' a' * T a' a = φ a) :
    pathState L ρ0' M' I' n φ' = pathState L ρ0 M I n φ := by
  rw [pathState_eq_sum_head, pathState_eq_sum_head]
  have h := gauge_aux L ρ0 ρ0' M M' I I' J T key key' hI hI' hT hρ hM n (fun _ => 1)
  calc ∑ x' ∈ range L, φ' x' * pathSum L n (fun t => weight ρ0' M' I' (x' :: t) * 1)
      = ∑ x' ∈ range L, ∑ y ∈ range L, (φ' x' * T x' y) *
          pathSum L n (fun t => weight ρ0 M I (y :: t) * 1) := by
        apply Finset.sum_congr rfl; intro x' hx'
        rw [h x' (mem_range.mp hx'), Finset.mul_sum]
        apply Finset.sum_congr rfl; intro y _; ring
    _ = ∑ y ∈ range L, (∑ x' ∈ range L, φ' x' * T x' y) *
          pathSum L n (fun t => weight ρ0 M I (y :: t) * 1) := by
        rw [Finset.sum_comm]; apply Finset.sum_congr rfl; intro y _; rw [Finset.sum_mul]
    _ = _ := by
        apply Finset.sum_congr rfl; intro y hy; rw [hφ y (mem_range.mp hy)]

/-- Gauge invariance of the tested path state, two-key form. -/
theorem pathState_gauge {κ : Type} (L : ℕ) (ρ0 ρ0' : ℕ → K) (M M' : ℕ → ℕ → ℕ → K)
    (I I' : ℕ → ℕ → ℕ → ℕ → K) (T : ℕ → ℕ → K) (key key' : ℕ → κ)
    (hI : ∀ n dk a c a' c', a < L → c < L → a' < L → c' < L →
            key' a' = key a → key' c' = key c → I' n dk a' c' = I n dk a c)
    (hIk : ∀ n dk a c a₂ c₂, a < L → c < L → a₂ < L → c₂ < L →
            key a = key a₂ → key c = key c₂ → I n dk a c = I n dk a₂ c₂)
    (hIk' : ∀ n dk a c a₂ c₂, a < L → c < L → a₂ < L → c₂ < L →
            key' a = key' a₂ → key' c = key' c₂ → I' n dk a c = I' n dk a₂ c₂)
    (hT : ∀ a' a, a' < L → a < L → key' a' ≠ key a → T a' a = 0)
    (hρ : ∀ a', a' < L → ρ0' a' = ∑ a ∈ range L, T a' a * ρ0 a)
    (hM : ∀ k a' b, a' < L → b < L →
            ∑ c ∈ range L, M' k a' c * T c b = ∑ y ∈ range L, T a' y * M k y b)
    (n : ℕ) (φ φ' : ℕ → K)
    (hφ : ∀ a, a < L → ∑ a' ∈ range L, φ' a' * T a' a = φ a) :
    pathState L ρ0' M' I' n φ' = pathState L ρ0 M I n φ := by
  classical
  let J : ℕ → ℕ → κ → κ → K := fun n dk k1 k2 =>
    if h : ∃ p : ℕ × ℕ, p.1 < L ∧ p.2 < L ∧ key' p.1 = k1 ∧ key' p.2 = k2 then
      I' n dk h.choose.1 h.choose.2
    else if h : ∃ p : ℕ × ℕ, p.1 < L ∧ p.2 < L ∧ key p.1 = k1 ∧ key p.2 = k2 then
      I n dk h.choose.1 h.choose.2
    else 0
  refine pathState_gauge_table L ρ0 ρ0' M M' I I' J T key key' ?_ ?_ hT hρ hM n φ φ' hφ
  · intro n dk a c ha hc
    by_cases h1 : ∃ p : ℕ × ℕ, p.1 < L ∧ p.2 < L ∧ key' p.1 = key a ∧ key' p.2 = key c
    · simp only [J, dif_pos h1]
      obtain ⟨h11, h12, h13, h14⟩ := h1.choose_spec
      exact (hI n dk a c _ _ ha hc h11 h12 h13 h14).symm
    · have h2 : ∃ p : ℕ × ℕ, p.1 < L ∧ p.2 < L ∧ key p.1 = key a ∧ key p.2 = key c :=
        ⟨(a, c), ha, hc, rfl, rfl⟩
      simp only [J, dif_neg h1, dif_pos h2]
      obtain ⟨h21, h22, h23, h24⟩ := h2.choose_spec
      exact hIk n dk a c _ _ ha hc h21 h22 h23.symm h24.symm
  · intro n dk a c ha hc
    have h1 : ∃ p : ℕ × ℕ, p.1 < L ∧ p.2 < L ∧ key' p.1 = key' a ∧ key' p.2 = key' c :=
      ⟨(a, c), ha, hc, rfl, rfl⟩
    simp only [J, dif_pos h1]
    obtain ⟨h11, h12, h13, h14⟩ := h1.choose_spec
    exact hIk' n dk a c _ _ ha hc h11 h12 h13.symm h14.symm

/-- Gauge invariance, single-key form: one influence table, depending on its two indices
    only through `key`; the gauge transformation only mixes indices with equal keys. -/
theorem pathState_gauge_single {κ : Type} (L : ℕ) (ρ0 ρ0' : ℕ → K) (M M' : ℕ → ℕ → ℕ → K)
    (I : ℕ → ℕ → ℕ → ℕ → K) (T : ℕ → ℕ → K) (key : ℕ → κ)
    (hI : ∀ n dk a c a' c', a < L → c < L → a' < L → c' < L →
            key a = key a' → key c = key c' → I n dk a c = I n dk a' c')
    (hT : ∀ a' a, a' < L → a < L → key a' ≠ key a → T a' a = 0)
    (hρ : ∀ a', a' < L → ρ0' a' = ∑ a ∈ Finset.range L, T a' a * ρ0 a)
    (hM : ∀ k a' b, a' < L → b < L →
            ∑ c ∈ Finset.range L, M' k a' c * T c b = ∑ y ∈ Finset.range L, T a' y * M k y b)
    (n : ℕ) (φ φ' : ℕ → K)
    (hφ : ∀ a, a < L → ∑ a' ∈ Finset.range L, φ' a' * T a' a = φ a) :
    pathState L ρ0' M' I n φ' = pathState L ρ0 M I n φ :=
  pathState_gauge L ρ0 ρ0' M M' I I T key key
    (fun n dk a c a' c' ha hc ha' hc' h1 h2 => hI n dk a' c' a c ha' hc' ha hc h1 h2)
    hI hI hT hρ hM n φ φ' hφ

/-- conjugating every kernel and the data with the same gauge transformation leaves the
    tested path state unchanged (`Tinv` a left inverse of `T` on the index range) -/
theorem pathState_gauge_conj {κ : Type} (L : ℕ) (ρ0 : ℕ → K) (M : ℕ → ℕ → ℕ → K)
    (I I' : ℕ → ℕ → ℕ → ℕ → K) (J : ℕ → ℕ → κ → κ → K) (T Tinv : ℕ → ℕ → K)
    (key key' : ℕ → κ)
    (hI : ∀ n dk a c, a < L → c < L → I n dk a c = J n dk (key a) (key c))
    (hI' : ∀ n dk a c, a < L → c < L → I' n dk a c = J n dk (key' a) (key' c))
    (hT : ∀ a' a, a' < L → a < L → key' a' ≠ key a → T a' a = 0)
    (hinv : ∀ a b, a < L → b < L → ∑ c ∈ range L, Tinv a c * T c b = if a = b then 1 else 0)
    (n : ℕ) (φ : ℕ → K) :
    pathState L (fun a' => ∑ a ∈ range L, T a' a * ρ0 a)
        (fun k => matMul L T (matMul L (M k) Tinv)) I' n
        (fun a' => ∑ a ∈ range L, φ a * Tinv a a') =
      pathState L ρ0 M I n φ := by
  have hdelta : ∀ (f : ℕ → K) b, b < L →
      ∑ z ∈ range L, f z * (∑ c ∈ range L, Tinv z c * T c b) = f b := by
    intro f b hb
    rw [Finset.sum_congr rfl (fun z hz => by rw [hinv z b (mem_range.mp hz) hb])]
    simp [Finset.sum_ite_eq', hb]
  refine pathState_gauge_table L ρ0 _ M _ I I' J T key key' hI hI' hT (fun _ _ => rfl) ?_ n φ _ ?_
  · intro k a' b _ hb
    simp only [matMul]
    calc ∑ c ∈ range L, (∑ y ∈ range L, T a' y * ∑ z ∈ range L, M k y z * Tinv z c) * T c b
        = ∑ c ∈ range L, ∑ y ∈ range L, ∑ z ∈ range L, T a' y * M k y z * (Tinv z c * T c b) := by
          apply Finset.sum_congr rfl; intro c _; rw [Finset.sum_mul]
          apply Finset.sum_congr rfl; intro y _; rw [Finset.mul_sum, Finset.sum_mul]
          apply Finset.sum_congr rfl; intro z _; ring
      _ = ∑ y ∈ range L, ∑ z ∈ range L, T a' y * M k y z * ∑ c ∈ range L, Tinv z c * T c b := by
          rw [Finset.sum_comm]; apply Finset.sum_congr rfl; intro y _
          rw [Finset.sum_comm]; apply Finset.sum_congr rfl; intro z _; rw [Finset.mul_sum]
      _ = ∑ y ∈ range L, T a' y * M k y b := by
          apply Finset.sum_congr rfl; intro y _
          exact hdelta (fun z => T a' y * M k y z) b hb
  · intro a ha
    calc ∑ a' ∈ range L, (∑ z ∈ range L, φ z * Tinv z a') * T a' a
        = ∑ z ∈ range L, φ z * ∑ a' ∈ range L, Tinv z a' * T a' a := by
          rw [Finset.sum_congr rfl (fun a' _ => Finset.sum_mul _ _ _), Finset.sum_comm]
          apply Finset.sum_congr rfl; intro z _; rw [Finset.mul_sum]
          apply Finset.sum_congr rfl; intro a' _; ring
      _ = φ a := hdelta φ a ha

end OQuPyVerif.PathSum
