/-
  Lemmas/ProgressData — predicates on the timer table of Model/Progress and what the four
  timer statements (cancel / new / daemon / start) do to them.  Helper lemmas for C19.
-/
import OQuPyVerif.Model.Progress
namespace OQuPyVerif.Progress
open MicroOp

theorem modify_some {α} {l : List α} {j k : Nat} {f : α → α} {r : α}
    (h : (l.modify j f)[k]? = some r) :
    ∃ r0, l[k]? = some r0 ∧ r = (if j = k then f r0 else r0) := by
  rw [List.getElem?_modify] at h
  cases hl : l[k]? with
  | none => simp [hl] at h
  | some r0 => exact ⟨r0, rfl, by simp [hl] at h; exact h.symm⟩

theorem append_some {α} {l : List α} {x r : α} {k : Nat} (h : (l ++ [x])[k]? = some r) :
    l[k]? = some r ∨ (k = l.length ∧ r = x) := by
  rw [List.getElem?_append] at h
  split at h
  · exact Or.inl h
  · rename_i hlt
    right
    have : k - l.length = 0 := by
      cases hk : k - l.length with
      | zero => rfl
      | succ n => simp [hk] at h
    simp [this] at h
    exact ⟨by omega, h.symm⟩

/-! data predicates -/
def NoUnstarted (s : State) : Prop :=
  ∀ (j : Nat) (r : TimerRec), s.timers[j]? = some r → r.st.started = true
def PendingCur (s : State) : Prop :=
  ∀ (j : Nat) (r : TimerRec), s.timers[j]? = some r → r.st = TState.pending → s.cur = some j
def NoPending (s : State) : Prop :=
  ∀ (j : Nat) (r : TimerRec), s.timers[j]? = some r → r.st ≠ TState.pending
def StartedDaemon (s : State) : Prop :=
  ∀ (j : Nat) (r : TimerRec), s.timers[j]? = some r → r.st.started = true → r.daemon = true
def CurValid (s : State) : Prop :=
  (∀ j, s.cur = some j → j < s.timers.length) ∧ (s.cur = none → s.timers = [])
def Good (s : State) : Prop :=
  NoUnstarted s ∧ ∀ (j : Nat) (r : TimerRec), s.timers[j]? = some r → r.st = TState.pending →
    s.cur = some j ∧ s.active = true
def Fresh (s : State) (d : Bool) : Prop :=
  ∃ (j : Nat) (r : TimerRec), s.cur = some j ∧ s.timers[j]? = some r ∧ r.st = TState.created ∧
    r.daemon = d ∧ s.active = true ∧
    ∀ (k : Nat) (r' : TimerRec), s.timers[k]? = some r' → k ≠ j →
      r'.st.started = true ∧ r'.st ≠ TState.pending

theorem Good.pendingCur {s : State} (h : Good s) : PendingCur s :=
  fun j r hj hp => (h.2 j r hj hp).1

def cancelAt (s : State) (j : Nat) : State :=
  setTimers s (s.timers.modify j (fun r => { r with st := r.st.cancel }))

theorem cancel_post (s : State) (j : Nat) (hc : s.cur = some j) (h1 : NoUnstarted s)
    (h2 : PendingCur s) (h3 : StartedDaemon s) :
    NoUnstarted (cancelAt s j) ∧ NoPending (cancelAt s j) ∧ StartedDaemon (cancelAt s j) := by
  refine ⟨?_, ?_, ?_⟩
  · intro k r hk
    obtain ⟨r0, hl, rfl⟩ := modify_some hk
    have := h1 k r0 hl
    split
    · cases hst : r0.st <;> simp_all [TState.cancel, TState.started]
    · exact this
  · intro k r hk hp
    obtain ⟨r0, hl, rfl⟩ := modify_some hk
    split at hp
    · cases hst : r0.st <;> simp_all [TState.cancel]
    · have := h2 k r0 hl hp
      simp_all
  · intro k r hk hs
    obtain ⟨r0, hl, rfl⟩ := modify_some hk
    have h0 := h1 k r0 hl
    split
    · exact h3 k r0 hl h0
    · exact h3 k r0 hl h0

def newAt (s : State) (cb : Callback) : State :=
  { s with timers := s.timers ++ [{ cb := cb, st := .created, daemon := false, code := [] }],
           cur := some s.timers.length }

theorem new_post (s : State) (cb : Callback) (h1 : NoUnstarted s) (h2 : NoPending s)
    (ha : s.active = true) (h3 : StartedDaemon s) :
    Fresh (newAt s cb) false ∧ StartedDaemon (newAt s cb) ∧ CurValid (newAt s cb) := by
  refine ⟨⟨s.timers.length, { cb := cb, st := .created, daemon := false, code := [] }, rfl, ?_, rfl, rfl, ha, ?_⟩, ?_, ?_⟩
  · simp [newAt]
  · intro k r' hk hne
    rcases append_some hk with h | ⟨h, _⟩
    · exact ⟨h1 k r' h, h2 k r' h⟩
    · exact absurd h hne
  · intro k r hk hs
    rcases append_some hk with h | ⟨_, h⟩
    · exact h3 k r h hs
    · subst h; simp [TState.started] at hs
  · constructor
    · intro j hj
      simp [newAt] at hj ⊢
      omega
    · intro h; simp [newAt] at h

def daemonAt (s : State) (j : Nat) : State :=
  setTimers s (s.timers.modify j (fun r => { r with daemon := true }))

theorem daemon_post (s : State) (h : Fresh s false) (h3 : StartedDaemon s) :
    ∃ j r, s.cur = some j ∧ s.timers[j]? = some r ∧ r.st.started = false ∧
      Fresh (daemonAt s j) true ∧ StartedDaemon (daemonAt s j) := by
  obtain ⟨j, r, hc, hj, hst, hd, ha, hoth⟩ := h
  refine ⟨j, r, hc, hj, by simp [hst, TState.started], ⟨j, { r with daemon := true }, hc, ?_, hst, rfl, ha, ?_⟩, ?_⟩
  · simp [daemonAt, setTimers, hj]
  · intro k r' hk hne
    obtain ⟨r0, hl, rfl⟩ := modify_some hk
    have := hoth k r0 hl hne
    split <;> simp_all
  · intro k r' hk hs
    obtain ⟨r0, hl, rfl⟩ := modify_some hk
    by_cases hjk : j = k
    · simp [hjk]
    · simp [hjk] at hs ⊢
      exact h3 k r0 hl hs

def startAt (s : State) (j : Nat) : State :=
  setTimers s (s.timers.modify j (fun r => { r with st := .pending }))

theorem start_post (s : State) (h : Fresh s true) (h3 : StartedDaemon s) :
    ∃ j r, s.cur = some j ∧ s.timers[j]? = some r ∧ r.st = TState.created ∧
      Good (startAt s j) ∧ (startAt s j).active = true ∧ StartedDaemon (startAt s j) := by
  obtain ⟨j, r, hc, hj, hst, hd, ha, hoth⟩ := h
  refine ⟨j, r, hc, hj, hst, ⟨?_, ?_⟩, ha, ?_⟩
  · intro k r' hk
    obtain ⟨r0, hl, rfl⟩ := modify_some hk
    split
    · simp [TState.started]
    · rename_i hne
      exact (hoth k r0 hl (fun h => hne h.symm)).1
  · intro k r' hk hp
    obtain ⟨r0, hl, rfl⟩ := modify_some hk
    split at hp
    · rename_i hjk
      exact ⟨by rw [← hjk]; exact hc, ha⟩
    · rename_i hne
      exact absurd hp (hoth k r0 hl (fun h => hne h.symm)).2
  · intro k r' hk hs
    obtain ⟨r0, hl, rfl⟩ := modify_some hk
    split
    · rename_i hjk
      subst hjk
      rw [hj] at hl
      cases hl
      exact hd
    · split at hs
      · rename_i h1 h2; exact absurd h2 h1
      · exact h3 k r0 hl hs

end OQuPyVerif.Progress
