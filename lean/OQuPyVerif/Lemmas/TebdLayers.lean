/- Layer structure of the PT-TEBD propagator: sums over the gate applications of one
   propagator, the layers partition the bonds, bonds of a layer are two apart. -/
import Mathlib.Algebra.BigOperators.Group.List.Basic
import Mathlib.Algebra.BigOperators.Ring.List
import Mathlib.Tactic.Ring
import Mathlib.Tactic.Linarith
import Mathlib.Tactic.NormNum
import OQuPyVerif.Model.Tebd

namespace OQuPyVerif.Tebd
open OQuPyVerif.Generated
open Finset BigOperators

theorem list_range_sum {M : Type} [AddCommMonoid M] (f : ℕ → M) (m : ℕ) :
    ((List.range m).map f).sum = ∑ i ∈ Finset.range m, f i := by
  induction m with
  | zero => simp
  | succ m ih => rw [List.sum_range_succ, Finset.sum_range_succ, ih]

theorem numBonds_eq (n : ℕ) : numBonds n = n - 1 := by
  unfold numBonds TebdLayers.bond_range_stop
  omega

/-- a predicate and its negation split a list sum -/
theorem filter_sum_split {M : Type} [AddCommMonoid M] (p : ℕ → Bool) (f : ℕ → M) (l : List ℕ) :
    ((l.filter p).map f).sum + ((l.filter (fun i => !p i)).map f).sum = (l.map f).sum := by
  induction l with
  | nil => simp
  | cons a l ih =>
    by_cases h : p a
    · simp only [List.filter_cons, h, if_true, Bool.not_true, Bool.false_eq_true, if_false,
        List.map_cons, List.sum_cons]
      rw [add_assoc, ih]
    · simp only [List.filter_cons, h, Bool.false_eq_true, if_false, Bool.not_false, if_true,
        List.map_cons, List.sum_cons]
      rw [← ih]; simp only [Bool.not_eq_true] at h
      rw [add_left_comm]

/-- the gate built from the Liouvillian of bond `i` acts on bond `i` -/
theorem gateSite_eq (i : ℕ) : gateSite i = i := by
  simp [gateSite, TebdLayers.gate_site]

theorem map_gateSite (l : List ℕ) : l.map gateSite = l := by
  have : gateSite = id := funext gateSite_eq
  rw [this, List.map_id]

theorem layerBonds_zero (n : ℕ) :
    layerBonds n 0 = (List.range (numBonds n)).filter (fun i => decide (i % 2 = 0)) := by
  unfold layerBonds
  simp only [map_gateSite]
  unfold sliceBonds
  simp [TebdLayers.trotter_slices]

theorem layerBonds_one (n : ℕ) :
    layerBonds n 1 = (List.range (numBonds n)).filter (fun i => !decide (i % 2 = 0)) := by
  unfold layerBonds
  simp only [map_gateSite]
  unfold sliceBonds
  simp only [TebdLayers.trotter_slices, List.getElem?_cons_succ, List.getElem?_cons_zero]
  apply List.filter_congr
  intro i _
  by_cases h : i % 2 = 0
  · have : ¬ (1 ≤ i ∧ (i - 1) % 2 = 0) := by omega
    simp [h, this]
  · have : (1 ≤ i ∧ (i - 1) % 2 = 0) := by omega
    simp [h, this]

/-- the two Trotter layers together carry every bond exactly once -/
theorem layers_partition {M : Type} [AddCommMonoid M] (n : ℕ) (h : ℕ → M) :
    ((layerBonds n 0).map h).sum + ((layerBonds n 1).map h).sum
      = ∑ i ∈ Finset.range (n - 1), h i := by
  rw [layerBonds_zero, layerBonds_one, filter_sum_split, list_range_sum, numBonds_eq]

theorem orderRow_one : orderRow 1 = some (1, [0, 1]) := by decide
theorem orderRow_two : orderRow 2 = some (1 / 2, [0, 1, 1, 0]) := by
  simp [orderRow, TebdLayers.order_table, List.find?]

theorem list_sum_map_mul_left (t : ℚ) (h : ℕ → ℚ) (l : List ℕ) :
    (l.map (fun i => t * h i)).sum = t * (l.map h).sum := by
  induction l with
  | nil => simp
  | cons a l ih => simp [ih, mul_add]

/-- Summed over the gate applications of one propagator, with every gate weighted by its
    exponentiation time, a per-bond quantity `h` is collected with total weight `dt/2`
    on every bond — for both Trotter orders and every chain length. -/
theorem halfStep_sum (n : ℕ) (order : ℤ) (ho : order = 1 ∨ order = 2) (dt : ℚ) (h : ℕ → ℚ) :
    ((halfStepGates n order dt).map (fun g => g.2 * h g.1)).sum
      = dt / 2 * ∑ i ∈ Finset.range (n - 1), h i := by
  rw [← layers_partition n h]
  rcases ho with rfl | rfl
  · simp only [halfStepGates, halfStepLayers, orderRow_one, List.map_cons, List.map_nil,
      List.flatMap_cons, List.flatMap_nil, List.append_nil, List.map_append, List.map_map,
      List.sum_append, Function.comp_def, list_sum_map_mul_left, TebdLayers.initialize_fraction]
    ring
  · simp only [halfStepGates, halfStepLayers, orderRow_two, List.map_cons, List.map_nil,
      List.flatMap_cons, List.flatMap_nil, List.append_nil, List.map_append, List.map_map,
      List.sum_append, Function.comp_def, list_sum_map_mul_left, TebdLayers.initialize_fraction]
    ring

/-- the generated summands: the left site with `factor_l`, the right site with `factor_r` -/
theorem siteShare_eq (n i j : ℕ) :
    siteShare n i j = (if j = i then TebdLayers.factor_l (i : ℤ) (n : ℤ) else 0)
      + (if j = i + 1 then TebdLayers.factor_r (i : ℤ) (n : ℤ) else 0) := by
  simp only [siteShare, TebdLayers.nn_full_terms, coefVal, termShare,
    TebdLayers.nn_gate_right_site_offset, List.map_cons, List.map_nil, List.sum_cons,
    List.sum_nil, mul_ite, mul_one, mul_zero, add_zero]
  by_cases h : j = i + 1 <;> simp [h]

/-- the coupling of a bond enters its full Liouvillian with coefficient one -/
theorem couplingShare_eq (n i : ℕ) : couplingShare n i = 1 := by
  simp [couplingShare, TebdLayers.nn_full_terms, coefVal]

/-- the shares of a site Liouvillian over all bonds add up to one -/
theorem siteShare_sum (n : ℕ) (hn : 2 ≤ n) (j : ℕ) (hj : j < n) :
    ∑ i ∈ Finset.range (n - 1), siteShare n i j = 1 := by
  simp only [siteShare_eq]
  rw [Finset.sum_add_distrib]
  cases j with
  | zero =>
    have h2 : ∀ i ∈ Finset.range (n - 1),
        (if 0 = i + 1 then TebdLayers.factor_r (i : ℤ) (n : ℤ) else 0) = 0 := by
      intro i _; simp
    rw [Finset.sum_congr rfl h2, Finset.sum_const_zero, Finset.sum_ite_eq]
    have : 0 ∈ Finset.range (n - 1) := by simp; omega
    simp [this, TebdLayers.factor_l]
  | succ j' =>
    have h2 : ∀ i ∈ Finset.range (n - 1),
        (if j' + 1 = i + 1 then TebdLayers.factor_r (i : ℤ) (n : ℤ) else 0)
          = (if j' = i then TebdLayers.factor_r (i : ℤ) (n : ℤ) else 0) := by
      intro i _; simp
    rw [Finset.sum_congr rfl h2, Finset.sum_ite_eq, Finset.sum_ite_eq]
    have hm : j' ∈ Finset.range (n - 1) := by simp; omega
    simp only [hm, if_true]
    by_cases hl : j' + 1 < n - 1
    · have hm' : j' + 1 ∈ Finset.range (n - 1) := by simpa using hl
      have e1 : ¬ ((j' : ℤ) + 1 = 0) := by omega
      have e2 : ¬ ((j' : ℤ) = (n : ℤ) - 2) := by omega
      simp only [hm', if_true, TebdLayers.factor_l, TebdLayers.factor_r, beq_iff_eq,
        Nat.cast_add, Nat.cast_one, e1, e2, if_false]
      norm_num
    · have hm' : j' + 1 ∉ Finset.range (n - 1) := by simpa using hl
      have e2 : ((j' : ℤ) = (n : ℤ) - 2) := by omega
      simp only [hm', if_false, TebdLayers.factor_r, beq_iff_eq, e2, if_true]
      norm_num

/-- a bond index below `n - 1` is hit exactly once by the indicator sum -/
theorem bond_indicator_sum (n i : ℕ) (hi : i < n - 1) :
    ∑ k ∈ Finset.range (n - 1), (if k = i then (1 : ℚ) else 0) = 1 := by
  rw [Finset.sum_ite_eq']
  simp [hi]

/-! ### bonds of one layer are at least two apart -/

theorem sliceBonds_pairwise (m : ℕ) (a : ℕ) :
    (sliceBonds m (a, 2)).Pairwise (fun x y => x + 2 ≤ y) := by
  unfold sliceBonds
  have h0 : (List.range m).Pairwise (fun x y => x < y) := List.pairwise_lt_range
  have h1 := List.Pairwise.filter (fun i => decide (a ≤ i ∧ (i - a) % 2 = 0)) h0
  refine List.Pairwise.imp_of_mem ?_ h1
  intro x y hx hy hlt
  simp only [List.mem_filter, decide_eq_true_eq] at hx hy
  omega

theorem layerBonds_pairwise (n ℓ : ℕ) : (layerBonds n ℓ).Pairwise (fun x y => x + 2 ≤ y) := by
  unfold layerBonds
  simp only [map_gateSite]
  match ℓ with
  | 0 => simpa [TebdLayers.trotter_slices] using sliceBonds_pairwise (numBonds n) 0
  | 1 => simpa [TebdLayers.trotter_slices] using sliceBonds_pairwise (numBonds n) 1
  | k + 2 => simp [TebdLayers.trotter_slices]

theorem layerBonds_lt (n ℓ i : ℕ) (h : i ∈ layerBonds n ℓ) : i + 1 < n := by
  unfold layerBonds at h
  simp only [map_gateSite] at h
  split at h
  · unfold sliceBonds at h
    simp only [List.mem_filter, List.mem_range] at h
    have := numBonds_eq n
    omega
  · simp at h

end OQuPyVerif.Tebd
