/- C11 helper lemmas on path sums: reversal of the path sum and of a time-translation
   invariant, symmetric influence product; the chain of site kernels; trivial influence. -/
import OQuPyVerif.Model.Gibbs
import OQuPyVerif.Lemmas.PathAmp

namespace OQuPyVerif.Gibbs
open Finset BigOperators OQuPyVerif.PathSum
variable {K : Type} [CommRing K]

/-! ### reversal of the path sum -/

theorem pathSum_reverse (L n : ℕ) (F : List ℕ → K) :
    pathSum L n (fun p => F p.reverse) = pathSum L n F := by
  induction n generalizing F with
  | zero => rfl
  | succ n ih =>
    rw [pathSum_snoc L n F, pathSum_succ]
    have h : ∀ a ∈ range L, pathSum L n (fun p => F (a :: p).reverse)
        = pathSum L n (fun p => F (p ++ [a])) := by
      intro a _
      have := ih (fun p => F (p ++ [a]))
      simpa [List.reverse_cons] using this
    rw [Finset.sum_congr rfl h, ← pathSum_finsum]

/-! ### the chain of site kernels -/

/-- product of the links `Q a b` between neighbours of a list (newest first) -/
def linkProd (Q : ℕ → ℕ → K) : List ℕ → K
  | [] => 1
  | [_] => 1
  | a :: b :: rest => Q a b * linkProd Q (b :: rest)

theorem sysAmpl_eq_linkProd (Q : ℕ → ℕ → K) (v1 : ℕ → K) (p : List ℕ) (hp : p ≠ []) :
    sysAmpl (fun _ => Q) v1 p = linkProd Q p * v1 (p.getLastD 0) := by
  induction p with
  | nil => exact absurd rfl hp
  | cons a rest ih =>
    cases rest with
    | nil => simp [sysAmpl, linkProd]
    | cons b rest' =>
      simp only [sysAmpl, linkProd]
      rw [ih (by simp)]
      simp [List.getLastD, mul_assoc]

theorem linkProd_snoc (Q : ℕ → ℕ → K) (p : List ℕ) (x : ℕ) :
    linkProd Q (p ++ [x]) = linkProd Q p * (if p = [] then 1 else Q (p.getLastD 0) x) := by
  induction p with
  | nil => simp [linkProd]
  | cons a rest ih =>
    cases rest with
    | nil => simp [linkProd]
    | cons b rest' =>
      have h1 : (a :: b :: rest') ++ [x] = a :: b :: (rest' ++ [x]) := rfl
      have h2 : (b :: rest') ++ [x] = b :: (rest' ++ [x]) := rfl
      rw [h1]
      simp only [linkProd]
      rw [← h2, ih]
      simp [List.getLastD, mul_assoc]

theorem linkProd_reverse (Q : ℕ → ℕ → K) (p : List ℕ) :
    linkProd Q p.reverse = linkProd (fun a b => Q b a) p := by
  induction p with
  | nil => simp [linkProd]
  | cons a rest ih =>
    rw [List.reverse_cons, linkProd_snoc, ih]
    cases rest with
    | nil => simp [linkProd]
    | cons b rest' =>
      simp only [linkProd]
      have : (b :: rest').reverse ≠ [] := by simp
      simp only [this, ite_false]
      have hl : (b :: rest').reverse.getLastD 0 = b := by
        rw [List.getLastD_eq_getLast?]; simp
      rw [hl]; ring

/-! ### reversal of the influence product (time-translation invariant, symmetric factors) -/

theorem inflRowFull_append (I : ℕ → ℕ → ℕ → ℕ → K) (n a j : ℕ) (q : List ℕ) (x : ℕ) :
    inflRowFull I n a j (q ++ [x]) = inflRowFull I n a j q * I n (j + q.length) a x := by
  induction q generalizing j with
  | nil => simp [inflRowFull]
  | cons c cs ih =>
    simp only [List.cons_append, inflRowFull, List.length_cons]
    rw [ih (j+1)]
    have : j + 1 + cs.length = j + (cs.length + 1) := by omega
    rw [this]; ring

theorem inflRowFull_inflOf (G : ℕ → ℕ → ℕ → K) (n a j : ℕ) (q : List ℕ) :
    inflRowFull (inflOf G) n a j q = inflRowFull (inflOf G) 0 a j q := by
  induction q generalizing j with
  | nil => rfl
  | cons c cs ih => simp only [inflRowFull]; rw [ih (j+1)]; rfl

theorem inflProd_snoc (G : ℕ → ℕ → ℕ → K) (hG : ∀ j a b, G j a b = G j b a)
    (p : List ℕ) (x : ℕ) :
    inflProd (inflOf G) (p ++ [x])
      = inflProd (inflOf G) p * inflRowFull (inflOf G) 0 x 0 (x :: p.reverse) := by
  induction p with
  | nil => simp [inflProd, inflRowFull, inflOf]
  | cons a r ih =>
    have h1 : (a :: r) ++ [x] = a :: (r ++ [x]) := rfl
    rw [h1]
    simp only [inflProd]
    rw [ih, inflRowFull_inflOf G ((r ++ [x]).length + 1), inflRowFull_inflOf G (r.length + 1)]
    have h2 : a :: (r ++ [x]) = (a :: r) ++ [x] := rfl
    rw [h2, inflRowFull_append]
    have h3 : x :: (a :: r).reverse = (x :: r.reverse) ++ [a] := by simp
    rw [h3, inflRowFull_append]
    have h4 : inflOf G 0 (0 + (a :: r).length) a x = inflOf G 0 (0 + (x :: r.reverse).length) x a := by
      simp only [inflOf, List.length_cons, List.length_reverse]
      exact hG _ _ _
    rw [h4]; ring

theorem inflProd_reverse (G : ℕ → ℕ → ℕ → K) (hG : ∀ j a b, G j a b = G j b a) (p : List ℕ) :
    inflProd (inflOf G) p.reverse = inflProd (inflOf G) p := by
  induction p with
  | nil => rfl
  | cons a r ih =>
    rw [List.reverse_cons, inflProd_snoc G hG, ih, List.reverse_reverse]
    simp only [inflProd]
    rw [inflRowFull_inflOf G (r.length + 1)]; ring

/-! ### trivial influence: the path sum is a matrix chain -/

/-- `chain d Q m v = Q^m v` -/
def chain (d : ℕ) (Q : ℕ → ℕ → K) : ℕ → (ℕ → K) → ℕ → K
  | 0, v => v
  | m+1, v => fun a => ∑ b ∈ range d, Q a b * chain d Q m v b

theorem pathSum_chain (d : ℕ) (Q : ℕ → ℕ → K) (v1 : ℕ → K) (k : ℕ) (φ : ℕ → K) :
    pathSum d (k+1) (fun p => φ (p.headD 0) * sysAmpl (fun _ => Q) v1 p)
      = ∑ a ∈ range d, φ a * chain d Q k v1 a := by
  induction k generalizing φ with
  | zero => simp [pathSum, sysAmpl, chain]
  | succ k ih =>
    rw [pathSum_succ]
    apply Finset.sum_congr rfl
    intro a _
    have h : pathSum d (k+1) (fun p => φ ((a :: p).headD 0) * sysAmpl (fun _ => Q) v1 (a :: p))
        = pathSum d (k+1) (fun p => φ a * (Q a (p.headD 0) * sysAmpl (fun _ => Q) v1 p)) := by
      apply pathSum_congr
      intro p hp
      match p, hp with
      | [], hp => exact absurd hp.1 (by simp)
      | b :: r, _ => simp [sysAmpl]
    rw [h, pathSum_mul_left, ih (fun b => Q a b)]
    rfl

/-- products of exponentials are exponentials of sums -/
theorem prod_exp (E : K → K) (hE0 : E 0 = 1) (hE : ∀ x y, E (x + y) = E x * E y)
    {ι : Type} (s : Finset ι) (x : ι → K) : ∏ i ∈ s, E (x i) = E (∑ i ∈ s, x i) := by
  classical
  induction s using Finset.induction_on with
  | empty => simp [hE0]
  | insert i s hi ih => rw [Finset.prod_insert hi, Finset.sum_insert hi, hE, ih]

end OQuPyVerif.Gibbs
