/- C03: skipping a non-existent environment; a finite process tensor with its last bond closed. -/
import OQuPyVerif.Lemmas.MultiEnvFold

namespace OQuPyVerif.MultiEnv
open Finset BigOperators OQuPyVerif.PathSum OQuPyVerif.PT OQuPyVerif.Generated.MpoWiring
variable {K : Type} [CommRing K]

/-- applying the identity tensor of a non-existent environment (bond dimension 1) changes nothing:
    `_apply_pt_mpos` may skip a `None` entry -/
theorem envAt_trivial (L j k : ℕ) (X : List ℕ → ℕ → K) (bs : List ℕ) (o : ℕ) (ho : o < L)
    (hj : j < bs.length) (hb : bs[j] = 0) :
    envAt L j ((trivialEnv (K := K)).D k) ((trivialEnv (K := K)).T k) X bs o = X bs o := by
  have hset : bs.set j 0 = bs := by rw [← hb]; exact List.set_getElem_self hj
  simp only [envAt, axisPick_generated, trivialEnv, Finset.sum_range_one, hset]
  rw [Finset.sum_eq_single o]
  · simp
  · intro i _ hi; simp [hi]
  · intro h; exact absurd (Finset.mem_range.mpr ho) h

theorem mpoState_foldLast (L N : ℕ) (D : ℕ → ℕ) (T : ℕ → ℕ → ℕ → ℕ → ℕ → K)
    (A B : ℕ → ℕ → ℕ → K) (cap : ℕ → ℕ → K) (ρ0 : ℕ → K) :
    ∀ k, k < N → ∀ b s,
      mpoState L (foldLastD N D) (foldLastT N D T cap) A B ρ0 k b s = mpoState L D T A B ρ0 k b s := by
  intro k
  induction k with
  | zero => intro _ b s; rfl
  | succ k ih =>
    intro hk b' s'
    have hk' : k < N := by omega
    have h1 : ¬ (k + 1 = N) := by omega
    have h2 : ¬ (k = N) := by omega
    simp only [mpoState, mpoStep, foldLastD, foldLastT, h1, h2, if_false]
    apply Finset.sum_congr rfl; intro o _
    congr 1
    apply Finset.sum_congr rfl; intro b _
    apply Finset.sum_congr rfl; intro i _
    congr 1
    apply Finset.sum_congr rfl; intro s _
    rw [ih hk' b s]

/-- a process tensor of `N` steps whose last bond is closed inside the last tensor (bond dimension
    1, cap `[1]`, as hand-built finite process tensors are) records the same states, at every step
    `n ≤ N` -/
theorem mpoRecord_foldLast (L N : ℕ) (D : ℕ → ℕ) (T : ℕ → ℕ → ℕ → ℕ → ℕ → K)
    (A B : ℕ → ℕ → ℕ → K) (cap : ℕ → ℕ → K) (pre : ℕ → ℕ → K) (ρ0 : ℕ → K) (hN : 0 < N)
    (n s' : ℕ) (hn : n ≤ N) :
    mpoRecord L (foldLastD N D) (foldLastT N D T cap) A B (foldLastCap N cap) pre ρ0 n s'
      = mpoRecord L D T A B cap pre ρ0 n s' := by
  rcases Nat.lt_or_eq_of_le hn with hlt | heq
  · have h2 : ¬ (n = N) := by omega
    simp only [mpoRecord, foldLastD, foldLastCap, h2, if_false]
    apply Finset.sum_congr rfl; intro b _
    congr 1
    apply Finset.sum_congr rfl; intro s _
    rw [mpoState_foldLast L N D T A B cap ρ0 n hlt b s]
  · subst heq
    obtain ⟨m, rfl⟩ : ∃ m, n = m + 1 := ⟨n - 1, by omega⟩
    have hm : m < m + 1 := by omega
    have h2 : ¬ (m = m + 1) := by omega
    simp only [mpoRecord, foldLastD, foldLastCap, if_true, Finset.sum_range_one, one_mul,
      mpoState, mpoStep, foldLastT, h2, if_false]
    have hS : ∀ b s, mpoState L (foldLastD (m+1) D) (foldLastT (m+1) D T cap) A B ρ0 m b s
        = mpoState L D T A B ρ0 m b s := mpoState_foldLast L (m+1) D T A B cap ρ0 m hm
    simp only [hS]
    have key : ∀ Z : ℕ → ℕ → K,
        ∑ s ∈ range L, pre s' s * ∑ o ∈ range L, B m s o * ∑ b ∈ range (D m), ∑ i ∈ range L,
            (∑ b'' ∈ range (D (m+1)), cap (m+1) b'' * T m b b'' i o) * Z b i
        = ∑ b'' ∈ range (D (m+1)), cap (m+1) b'' * ∑ s ∈ range L, pre s' s * ∑ o ∈ range L,
            B m s o * ∑ b ∈ range (D m), ∑ i ∈ range L, T m b b'' i o * Z b i := by
      intro Z
      simp only [Finset.mul_sum, Finset.sum_mul]
      rw [Finset.sum_comm (s := range (D (m+1)))]
      apply Finset.sum_congr rfl; intro s _
      rw [Finset.sum_comm (s := range (D (m+1)))]
      apply Finset.sum_congr rfl; intro o _
      rw [Finset.sum_comm (s := range (D (m+1)))]
      apply Finset.sum_congr rfl; intro b _
      rw [Finset.sum_comm (s := range (D (m+1)))]
      apply Finset.sum_congr rfl; intro i _
      apply Finset.sum_congr rfl; intro b'' _
      ring
    exact key (fun b i => ∑ s ∈ range L, A m i s * mpoState L D T A B ρ0 m b s)

end OQuPyVerif.MultiEnv
