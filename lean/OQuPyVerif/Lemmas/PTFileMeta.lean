/- Lemmas for C16: name / description assigned to a file-backed process tensor AFTER its
   creation (through the property setters) are what a later import reads; generic in the
   `Flags` read off the source.  Mathlib-free. -/
import OQuPyVerif.Lemmas.PTFileArray

namespace OQuPyVerif.PTFile

/-- a setter assigns the private attribute `f`, and writes that same attribute's value to the
    file attribute `a` whenever the object is a writer with an open file -/
structure SetterOK (sp : SetterSpec) (f : MetaField) (a : AttrName) : Prop where
  field : sp.field = f
  src : sp.src = f
  attr : sp.attr = a
  guard : sp.guard true true = true

/-- the file says what the live object says -/
structure MetaInv (c : H5) (live : Meta) : Prop where
  present : AllPresent c
  writing : c.writing = some true
  name : c.name = some live.name
  descr : c.description = some live.description
  hs : c.hsDim = some live.hsDim
  dt : c.dt = some (dtArr live.dt)
  tin : c.tin = some (optArr live.tin)
  tout : c.tout = some (optArr live.tout)

theorem metaInv_fresh (env : Env) (m : Meta) : MetaInv (freshContent env m) m :=
  ⟨allPresent_fresh env m, rfl, rfl, rfl, rfl, rfl, rfl, rfl⟩

theorem metaInv_pureCmd (c : H5) (live : Meta) (cmd : Cmd) (h : MetaInv c live) :
    MetaInv (pureCmd c cmd) live := by
  obtain ⟨h1, h2, h3, h4, h5, h6, h7, h8⟩ := h
  refine ⟨allPresent_pureCmd c cmd h1, by rw [writing_pureCmd]; exact h2, ?_, ?_, ?_, ?_, ?_, ?_⟩ <;>
    (cases cmd <;> simp [pureCmd, H5.setTensor, *])

theorem metaInv_setAttr (c : H5) (live : Meta) (f : MetaField) (s : String) (h : MetaInv c live) :
    MetaInv (applyOpC c (.setAttrStr (match f with | .name => .name | .description => .description)
      ((live.set f s).get f))) (live.set f s) := by
  obtain ⟨⟨a1, a2, a3, a4, a5, a6, a7, a8, a9, a10, a11, a12, a13, a14⟩, h2, h3, h4, h5, h6, h7, h8⟩ := h
  cases f
  · exact ⟨⟨a1, rfl, a3, a4, a5, a6, a7, a8, a9, a10, a11, a12, a13, a14⟩, h2, rfl, h4, h5, h6, h7, h8⟩
  · exact ⟨⟨a1, a2, rfl, a4, a5, a6, a7, a8, a9, a10, a11, a12, a13, a14⟩, h2, h3, rfl, h5, h6, h7, h8⟩

theorem emit_d_file (w : W) (c : H5) (op : Op) (h : w.d = .file c) (hop : op.isOpen = false) :
    (w.emit op).d = .file (applyOpC c op) := by
  obtain ⟨d, tr⟩ := w
  simp only at h
  subst h
  rw [emit_file _ _ _ hop]

/-- invariant of the writer state (handle, live attributes) -/
def GoodM (m0 : Meta) (st : W × Meta) : Prop :=
  (∃ c, st.1.d = .file c ∧ MetaInv c st.2) ∧ st.2.tin = m0.tin ∧ st.2.tout = m0.tout

theorem goodM_setter (m0 : Meta) (sp : SetterSpec) (f : MetaField) (hs : SetterOK sp f
    (match f with | .name => .name | .description => .description))
    (st : W × Meta) (v : Option String) (h : GoodM m0 st) : GoodM m0 (applySetter sp true st v) := by
  obtain ⟨⟨c, hc, hinv⟩, ht1, ht2⟩ := h
  unfold applySetter
  simp only [hs.guard, if_true, hs.field, hs.src, hs.attr]
  refine ⟨⟨_, emit_d_file st.1 c _ hc (by cases f <;> rfl), metaInv_setAttr c st.2 f _ hinv⟩, ?_, ?_⟩
  · cases f <;> exact ht1
  · cases f <;> exact ht2

theorem goodM_runM (F : Flags) (hN : SetterOK F.nameSetter .name .name)
    (hD : SetterOK F.descrSetter .description .description) (m0 : Meta) (st : W × Meta)
    (cmd : MCmd) (h : GoodM m0 st) : GoodM m0 (runM F st cmd) := by
  cases cmd with
  | tensor c =>
    obtain ⟨⟨c0, hc, hinv⟩, ht1, ht2⟩ := h
    refine ⟨⟨pureCmd c0 c, ?_, metaInv_pureCmd c0 st.2 c hinv⟩, ht1, ht2⟩
    show (runCmd st.1 c).d = _
    rw [runCmd_d, hc]; rfl
  | setName s => exact goodM_setter m0 F.nameSetter .name hN st s h
  | setDescription s => exact goodM_setter m0 F.descrSetter .description hD st s h

theorem goodM_foldl (F : Flags) (hN : SetterOK F.nameSetter .name .name)
    (hD : SetterOK F.descrSetter .description .description) (m0 : Meta) (cmds : List MCmd)
    (st : W × Meta) (h : GoodM m0 st) : GoodM m0 (cmds.foldl (runM F) st) := by
  induction cmds generalizing st with
  | nil => exact h
  | cons x xs ih => exact ih _ (goodM_runM F hN hD m0 st x h)

theorem runM_live (F : Flags) (hN : F.nameSetter.field = .name) (hD : F.descrSetter.field = .description)
    (st : W × Meta) (cmd : MCmd) : (runM F st cmd).2 = metaCmd F st.2 cmd := by
  cases cmd with
  | tensor c => rfl
  | setName s => simp [runM, applySetter, metaCmd, hN]
  | setDescription s => simp [runM, applySetter, metaCmd, hD]

theorem foldl_runM_live (F : Flags) (hN : F.nameSetter.field = .name)
    (hD : F.descrSetter.field = .description) (cmds : List MCmd) (st : W × Meta) :
    (cmds.foldl (runM F) st).2 = cmds.foldl (metaCmd F) st.2 := by
  induction cmds generalizing st with
  | nil => rfl
  | cons x xs ih => rw [List.foldl_cons, List.foldl_cons, ih, runM_live F hN hD]

/-- **Metadata set after creation survives.**  For any writer (creating mode), any
    interleaving of tensor writes and assignments to `.name` / `.description` (also `None`),
    then `close()`: the file opens without warning as an object whose name, description (and
    dimension, dt, transforms) are exactly those of the live object at the time it was closed,
    which are the last values assigned (the constructor's if none). -/
theorem meta_roundtrip_generic {F : Flags} {mode : String} {ovw : Bool} {hm : H5Mode}
    (H : WriterHyps F mode ovw hm) (hN : SetterOK F.nameSetter .name .name)
    (hD : SetterOK F.descrSetter .description .description)
    (hreset : F.closeReset true .npTrue = true) (hval : F.closeValue = false)
    (hquiet : F.readWarn .npFalse = false) (hr : F.readMode = "r")
    (env : Env) (d0 : Disk) (m : Meta)
    (hti : ∀ t, m.tin = some t → isHdf5None t = false)
    (hto : ∀ t, m.tout = some t → isHdf5None t = false)
    (cmds : List MCmd) (st : W × Meta) (hrun : writerM F env d0 mode m cmds true = .ok st) :
    st.2 = cmds.foldl (metaCmd F) m ∧
    ∃ c, st.1.d = .file c ∧ importFile F st.1.d = .ok (⟨st.2, c⟩, false) := by
  have hok : h5openOk d0 hm = true := by
    cases h : h5openOk d0 hm with
    | true => rfl
    | false =>
      have := createFile_fails H env d0 m h
      unfold writerM at hrun; rw [this] at hrun; cases hrun
  unfold writerM at hrun
  rw [createFile_spec H env d0 m hok] at hrun
  simp only [if_true, Except.ok.injEq] at hrun
  have hg := goodM_foldl F hN hD m cmds (⟨.file (freshContent env m), createTrace env m hm⟩, m)
    ⟨⟨_, rfl, metaInv_fresh env m⟩, rfl, rfl⟩
  have hl := foldl_runM_live F hN.field hD.field cmds
    (⟨.file (freshContent env m), createTrace env m hm⟩, m)
  generalize cmds.foldl (runM F) (⟨.file (freshContent env m), createTrace env m hm⟩, m) = s1 at *
  obtain ⟨⟨c, hc, hinv⟩, ht1, ht2⟩ := hg
  obtain ⟨w1, live⟩ := s1
  obtain ⟨d1, tr1⟩ := w1
  simp only at hc hl ht1 ht2 hinv
  subst hc
  subst hrun
  rw [closeW_spec F hreset c tr1 hinv.writing, hval]
  refine ⟨hl, _, rfl, ?_⟩
  simp only
  obtain ⟨⟨a1, a2, a3, a4, a5, a6, a7, a8, a9, a10, a11, a12, a13, a14⟩, h2, h3, h4, h5, h6, h7, h8⟩ := hinv
  unfold importFile
  rw [readOutcome_present F hr { c with writing := some false }
    ⟨a1, a2, a3, rfl, a5, a6, a7, a8, a9, a10, a11, a12, a13, a14⟩ false rfl]
  simp only [h5AttrRead, PyVal.npOfBool, Bool.false_eq_true, if_false, hquiet]
  have hm' : readMeta { c with writing := some false } = some live := by
    unfold readMeta
    simp only [h3, h4, h5, h6, h7, h8, dtOfArr_dtArr,
      noneIfSentinel_optArr _ (fun t ht => hti t (by rw [← ht1]; exact ht)),
      noneIfSentinel_optArr _ (fun t ht => hto t (by rw [← ht2]; exact ht))]
  rw [hm']
  rfl

end OQuPyVerif.PTFile
