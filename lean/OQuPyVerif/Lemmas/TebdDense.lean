/- Slot calculus of the dense chain model: composition, commutation on different slots,
   Kronecker gates split into single-slot maps, factors independent of a slot pass through. -/
import Mathlib.Tactic.Ring
import OQuPyVerif.Model.Tebd

namespace OQuPyVerif.Tebd
open Finset BigOperators Function

variable {K : Type} [CommRing K]

omit [CommRing K] in
/-- with the wiring of `apply_site_gate` read from the source, a single-site gate applies its
    matrix (not the transpose) -/
theorem siteGateTable_eq (M : ℕ → ℕ → K) : siteGateTable M = M := by
  have h : siteGateActs = true := by decide
  simp [siteGateTable, h]

/-! ### updates of configurations -/

theorem update_update_same (c : Config) (s a b : ℕ) : update (update c s a) s b = update c s b :=
  update_idem _ _ _

theorem update_comm' (c : Config) {s t : ℕ} (h : s ≠ t) (a b : ℕ) :
    update (update c s a) t b = update (update c t b) s a :=
  update_comm h a b c

/-! ### composition on the same slot(s) -/

theorem applySite_comp (s m m' : ℕ) (A B : ℕ → ℕ → K) (ψ : Config → K) :
    applySite s m' A (applySite s m B ψ) = applySite s m (mmul m' A B) ψ := by
  funext c
  simp only [applySite, mmul, update_self, update_update_same]
  calc ∑ a ∈ range m', A (c s) a * ∑ b ∈ range m, B a b * ψ (update c s b)
      = ∑ a ∈ range m', ∑ b ∈ range m, A (c s) a * B a b * ψ (update c s b) := by
        apply Finset.sum_congr rfl; intro a _; rw [Finset.mul_sum]
        apply Finset.sum_congr rfl; intro b _; ring
    _ = ∑ b ∈ range m, ∑ a ∈ range m', A (c s) a * B a b * ψ (update c s b) := Finset.sum_comm
    _ = ∑ b ∈ range m, (∑ a ∈ range m', A (c s) a * B a b) * ψ (update c s b) := by
        apply Finset.sum_congr rfl; intro b _; rw [Finset.sum_mul]

theorem applyPair_comp (s t : ℕ) (hst : s ≠ t) (m1 m2 m1' m2' : ℕ) (G H : ℕ → ℕ → ℕ → ℕ → K)
    (ψ : Config → K) :
    applyPair s t m1' m2' G (applyPair s t m1 m2 H ψ) = applyPair s t m1 m2 (pmul m1' m2' G H) ψ := by
  funext c
  simp only [applyPair, pmul]
  have hup : ∀ u v a b : ℕ, update (update (update (update c s u) t v) s a) t b
      = update (update c s a) t b := by
    intro u v a b
    funext x
    by_cases h1 : x = t
    · subst h1; simp
    · by_cases h2 : x = s
      · subst h2; simp [h1]
      · simp [h1, h2]
  have hs : ∀ u v : ℕ, update (update c s u) t v s = u := by
    intro u v; rw [update_of_ne hst, update_self]
  have ht : ∀ u v : ℕ, update (update c s u) t v t = v := by
    intro u v; rw [update_self]
  simp only [hup, hs, ht]
  calc ∑ u ∈ range m1', ∑ v ∈ range m2', G (c s) (c t) u v *
          ∑ a ∈ range m1, ∑ b ∈ range m2, H u v a b * ψ (update (update c s a) t b)
      = ∑ u ∈ range m1', ∑ v ∈ range m2', ∑ a ∈ range m1, ∑ b ∈ range m2,
          G (c s) (c t) u v * H u v a b * ψ (update (update c s a) t b) := by
        apply Finset.sum_congr rfl; intro u _
        apply Finset.sum_congr rfl; intro v _
        rw [Finset.mul_sum]
        apply Finset.sum_congr rfl; intro a _
        rw [Finset.mul_sum]
        apply Finset.sum_congr rfl; intro b _; ring
    _ = ∑ a ∈ range m1, ∑ b ∈ range m2, ∑ u ∈ range m1', ∑ v ∈ range m2',
          G (c s) (c t) u v * H u v a b * ψ (update (update c s a) t b) := by
        calc _ = ∑ u ∈ range m1', ∑ a ∈ range m1, ∑ v ∈ range m2', ∑ b ∈ range m2,
                G (c s) (c t) u v * H u v a b * ψ (update (update c s a) t b) :=
              Finset.sum_congr rfl (fun _ _ => Finset.sum_comm)
          _ = ∑ a ∈ range m1, ∑ u ∈ range m1', ∑ v ∈ range m2', ∑ b ∈ range m2,
                G (c s) (c t) u v * H u v a b * ψ (update (update c s a) t b) := Finset.sum_comm
          _ = ∑ a ∈ range m1, ∑ u ∈ range m1', ∑ b ∈ range m2, ∑ v ∈ range m2',
                G (c s) (c t) u v * H u v a b * ψ (update (update c s a) t b) :=
              Finset.sum_congr rfl (fun _ _ => Finset.sum_congr rfl (fun _ _ => Finset.sum_comm))
          _ = _ := Finset.sum_congr rfl (fun _ _ => Finset.sum_comm)
    _ = _ := by
        apply Finset.sum_congr rfl; intro a _
        apply Finset.sum_congr rfl; intro b _
        rw [Finset.sum_mul]
        apply Finset.sum_congr rfl; intro u _
        rw [Finset.sum_mul]

/-! ### a Kronecker gate is two single-slot maps -/

theorem applyPair_kron (s t : ℕ) (hst : s ≠ t) (m1 m2 : ℕ) (A B : ℕ → ℕ → K) (ψ : Config → K) :
    applyPair s t m1 m2 (kron A B) ψ = applySite s m1 A (applySite t m2 B ψ) := by
  funext c
  simp only [applyPair, applySite, kron]
  apply Finset.sum_congr rfl; intro a _
  rw [update_of_ne hst.symm, Finset.mul_sum]
  apply Finset.sum_congr rfl; intro b _
  ring

/-! ### commutation on different slots -/

theorem applySite_comm (s t : ℕ) (hst : s ≠ t) (m m' : ℕ) (A B : ℕ → ℕ → K) (ψ : Config → K) :
    applySite s m A (applySite t m' B ψ) = applySite t m' B (applySite s m A ψ) := by
  funext c
  simp only [applySite, update_of_ne hst, update_of_ne hst.symm]
  calc ∑ a ∈ range m, A (c s) a * ∑ b ∈ range m', B (c t) b * ψ (update (update c s a) t b)
      = ∑ a ∈ range m, ∑ b ∈ range m', A (c s) a * (B (c t) b * ψ (update (update c s a) t b)) := by
        apply Finset.sum_congr rfl; intro a _
        rw [Finset.mul_sum]
    _ = ∑ b ∈ range m', ∑ a ∈ range m, A (c s) a * (B (c t) b * ψ (update (update c s a) t b)) :=
        Finset.sum_comm
    _ = _ := by
        apply Finset.sum_congr rfl; intro b _
        rw [Finset.mul_sum]
        apply Finset.sum_congr rfl; intro a _
        rw [update_comm' c hst a b]; ring

/-! ### independence of a slot -/

/-- `f` does not look at slot `s` -/
def IndepOf (f : Config → K) (s : ℕ) : Prop := ∀ c a, f (update c s a) = f c

theorem applySite_mul_indep (s m : ℕ) (M : ℕ → ℕ → K) (Φ Ψ : Config → K) (h : IndepOf Ψ s) :
    applySite s m M (fun c => Φ c * Ψ c) = fun c => applySite s m M Φ c * Ψ c := by
  funext c
  simp only [applySite]
  rw [Finset.sum_mul]
  apply Finset.sum_congr rfl; intro a _
  rw [h c a]; ring

theorem applyPair_mul_indep (s t m1 m2 : ℕ) (G : ℕ → ℕ → ℕ → ℕ → K) (Φ Ψ : Config → K)
    (hs : IndepOf Ψ s) (ht : IndepOf Ψ t) :
    applyPair s t m1 m2 G (fun c => Φ c * Ψ c) = fun c => applyPair s t m1 m2 G Φ c * Ψ c := by
  funext c
  simp only [applyPair]
  rw [Finset.sum_mul]
  apply Finset.sum_congr rfl; intro a _
  rw [Finset.sum_mul]
  apply Finset.sum_congr rfl; intro b _
  rw [ht _ b, hs c a]; ring

theorem indep_applySite (s m : ℕ) (M : ℕ → ℕ → K) (f : Config → K) (u : ℕ) (hu : u ≠ s)
    (h : IndepOf f u) : IndepOf (applySite s m M f) u := by
  intro c a
  simp only [applySite]
  rw [update_of_ne hu.symm]
  apply Finset.sum_congr rfl; intro b _
  rw [update_comm' c hu a b, h]

theorem indep_applyPair (s t m1 m2 : ℕ) (G : ℕ → ℕ → ℕ → ℕ → K) (f : Config → K) (u : ℕ)
    (hus : u ≠ s) (hut : u ≠ t) (h : IndepOf f u) : IndepOf (applyPair s t m1 m2 G f) u := by
  intro c a
  simp only [applyPair]
  rw [update_of_ne hus.symm, update_of_ne hut.symm]
  apply Finset.sum_congr rfl; intro x _
  apply Finset.sum_congr rfl; intro y _
  rw [update_comm' c hus a x, update_comm' _ hut a y, h]

/-- closing a slot leaves nothing depending on it -/
theorem indep_cov (s m : ℕ) (τ : ℕ → K) (f : Config → K) : IndepOf (applySite s m (cov τ) f) s := by
  intro c a
  simp only [applySite, cov, update_update_same]

theorem indep_prod (w : ℕ → Config → K) (s : ℕ) (S : Finset ℕ)
    (h : ∀ k ∈ S, IndepOf (w k) s) : IndepOf (fun c => ∏ k ∈ S, w k c) s := by
  intro c a
  apply Finset.prod_congr rfl
  intro k hk
  exact h k hk c a

end OQuPyVerif.Tebd
