/- Helper lemmas about the micro-op interpreter `runOps` and the `compute` loop of the
   continuing TEMPO objects (used by Props/C14). -/
import OQuPyVerif.Model.Histories
import OQuPyVerif.Lemmas.TimeGrid

namespace OQuPyVerif.Histories
open OQuPyVerif.TimeGrid OQuPyVerif.Generated.LoopOrder

/-! ### the fault-free run ignores the book-keeping, and always completes -/

@[simp] theorem noFault_raises (n : Nat) : noFault.raises n = false := rfl

theorem runOps_noFault_ok (ops : List MicroOp) (l : Local) (b : BState) :
    (runOps noFault ops l b).2 = true := by
  induction ops generalizing l b with
  | nil => simp [runOps]
  | cons op rest ih =>
    cases op <;> simp [runOps] <;> exact ih _ _

/-- a completed run under any fault oracle has the same core as the fault-free run
    started from any state with the same core -/
theorem runOps_ok_core (faulty : Oracle) (ops : List MicroOp) (l : Local) (b b' : BState)
    (hc : b.core = b'.core) (hok : (runOps faulty ops l b).2 = true) :
    (runOps faulty ops l b).1.core = (runOps noFault ops l b').1.core := by
  induction ops generalizing l b b' with
  | nil => simpa [runOps] using hc
  | cons op rest ih =>
    cases op with
    | callUser i v =>
      simp only [runOps] at hok ⊢
      by_cases hf : faulty.raises b.calls = true
      · simp [hf] at hok
      · simp only [hf, noFault_raises] at hok ⊢
        exact ih _ _ _ (by simpa using hc) hok
    | setStep v =>
      simp only [runOps] at hok ⊢
      exact ih _ _ _ (by simp [hc]) hok
    | mutate v =>
      simp only [runOps] at hok ⊢
      exact ih _ _ _ (by simp [hc]) hok
    | store =>
      simp only [runOps] at hok ⊢
      exact ih _ _ _ (by simp [hc]) hok
    | tryBegin ca ex =>
      simp only [runOps] at hok ⊢
      rw [hc]
      exact ih _ _ _ hc (by rw [← hc]; exact hok)
    | tryEnd => simp only [runOps] at hok ⊢; exact ih _ _ _ hc hok
    | initStep => simp only [runOps] at hok ⊢; exact ih _ _ _ hc hok
    | loadNet => simp only [runOps] at hok ⊢; exact ih _ _ _ hc hok
    | control p v => simp only [runOps] at hok ⊢; exact ih _ _ _ hc hok
    | record => simp only [runOps] at hok ⊢; exact ih _ _ _ hc hok
    | initResults => simp only [runOps] at hok ⊢; exact ih _ _ _ hc hok
    | traceCompute => simp only [runOps] at hok ⊢; exact ih _ _ _ hc hok
    | traceRead => simp only [runOps] at hok ⊢; exact ih _ _ _ hc hok
    | traceClear => simp only [runOps] at hok ⊢; exact ih _ _ _ hc hok

/-! ### an aborted run of a fault-safe list leaves the core untouched -/

/-- relation between the scan state and the run state: as long as nothing "dirty" has been
    executed the core equals the core `c0` at entry, up to network changes that the open
    try-region will undo -/
def ScanInv (s : Scan) (l : Local) (c c0 : Core) : Prop :=
  s.dirty = false →
    c.step = c0.step ∧ c.stored = c0.stored ∧
    (if s.inTry then l.snapshot = some c0.net ∧ (l.catchAll = true ∧ l.exact = true) ∧
        (s.prot = false → c.net = c0.net)
     else l.snapshot = none ∧ c.net = c0.net)

theorem runOps_fail_core (faulty : Oracle) (ops : List MicroOp) (s : Scan) (l : Local)
    (b : BState) (c0 : Core) (hs : scanOps ops s = true) (hinv : ScanInv s l b.core c0)
    (hfail : (runOps faulty ops l b).2 = false) :
    (runOps faulty ops l b).1.core = c0 := by
  induction ops generalizing s l b with
  | nil => simp [runOps] at hfail
  | cons op rest ih =>
    cases op with
    | callUser i v =>
      simp only [scanOps, Bool.and_eq_true, Bool.not_eq_true'] at hs
      obtain ⟨hd, hrest⟩ := hs
      have h := hinv hd
      simp only [runOps] at hfail ⊢
      by_cases hf : faulty.raises b.calls = true
      · simp only [hf, if_true]
        obtain ⟨h1, h2, h3⟩ := h
        by_cases ht : s.inTry = true
        · simp only [ht, if_true] at h3
          rw [h3.1, h3.2.1.1, h3.2.1.2]
          cases hb : b.core
          cases c0
          simp_all
        · simp only [ht] at h3
          rw [h3.1]
          cases hb : b.core
          cases c0
          simp_all
      · simp only [hf] at hfail ⊢
        exact ih s _ _ hrest (by simpa [ScanInv] using hinv) hfail
    | setStep v =>
      simp only [scanOps] at hs
      simp only [runOps] at hfail ⊢
      exact ih _ _ _ hs (by intro h; simp at h) hfail
    | store =>
      simp only [scanOps] at hs
      simp only [runOps] at hfail ⊢
      exact ih _ _ _ hs (by intro h; simp at h) hfail
    | mutate v =>
      simp only [scanOps] at hs
      simp only [runOps] at hfail ⊢
      by_cases ht : s.inTry = true
      · simp only [ht, if_true] at hs
        refine ih _ _ _ hs ?_ hfail
        intro hd
        have h := hinv hd
        simp only [ht, if_true] at h ⊢
        exact ⟨h.1, h.2.1, h.2.2.1, h.2.2.2.1, by intro hp; simp at hp⟩
      · simp only [ht] at hs
        exact ih _ _ _ hs (by intro h; simp at h) hfail
    | tryBegin ca ex =>
      simp only [scanOps, Bool.and_eq_true, Bool.not_eq_true'] at hs
      obtain ⟨⟨ht, hca⟩, hrest⟩ := hs
      simp only [runOps] at hfail ⊢
      refine ih _ _ _ hrest ?_ hfail
      intro hd
      have h := hinv hd
      simp only [ht] at h
      simp only [if_true]
      exact ⟨h.1, h.2.1, by rw [h.2.2.2], hca, fun _ => h.2.2.2⟩
    | tryEnd =>
      simp only [scanOps, Bool.and_eq_true] at hs
      obtain ⟨ht, hrest⟩ := hs
      simp only [runOps] at hfail ⊢
      refine ih _ _ _ hrest ?_ hfail
      intro hd
      simp only [Bool.or_eq_false_iff] at hd
      have h := hinv hd.1
      simp only [ht, if_true] at h
      simp only [Bool.false_eq_true, if_false]
      exact ⟨h.1, h.2.1, trivial, h.2.2.2.2 hd.2⟩
    | initStep => simp [scanOps] at hs
    | loadNet => simp [scanOps] at hs
    | control p v => simp [scanOps] at hs
    | record => simp [scanOps] at hs
    | initResults => simp [scanOps] at hs
    | traceCompute => simp [scanOps] at hs
    | traceRead => simp [scanOps] at hs
    | traceClear => simp [scanOps] at hs

/-! ### the step counter after a fault-free run -/

def finalStep : List MicroOp → Int → Int → Int
  | [], _, cur => cur
  | .setStep v :: rest, entry, _ => finalStep rest entry (v.eval entry)
  | _ :: rest, entry, cur => finalStep rest entry cur

theorem runOps_noFault_step (ops : List MicroOp) (l : Local) (b : BState) :
    (runOps noFault ops l b).1.core.step = finalStep ops l.entry b.core.step := by
  induction ops generalizing l b with
  | nil => simp [runOps, finalStep]
  | cons op rest ih =>
    cases op <;> simp only [runOps, finalStep, noFault_raises, Bool.false_eq_true, if_false] <;> rw [ih]

theorem finalStep_last (ops : List MicroOp) (entry cur : Int) :
    finalStep ops entry cur = match lastSetStep ops with
      | some v => v.eval entry
      | none => cur := by
  induction ops generalizing cur with
  | nil => simp [finalStep, lastSetStep]
  | cons op rest ih =>
    cases op <;> simp only [finalStep, lastSetStep] <;> rw [ih]
    cases lastSetStep rest <;> simp [Option.orElse]

end OQuPyVerif.Histories
