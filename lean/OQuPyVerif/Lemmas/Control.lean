/-
  Helper lemmas for property C18 (controls): products of operators in acting order, the step
  loop of `compute_dynamics`, the data-structure invariants of `Control`, what `get_controls`
  returns, the same-key insertion-order lemma and neutrality of identity operators.
-/
import OQuPyVerif.Model.Control
import Mathlib.Algebra.Group.Action.Defs
import Mathlib.Data.List.Induction
import Mathlib.Data.List.Sort
import Mathlib.Data.List.Perm.Basic
import Mathlib.Algebra.Order.Ring.Rat
import Mathlib.Tactic.Ring

namespace OQuPyVerif.Control
open OQuPyVerif.Generated.ControlCompose
variable {M S R : Type}

/-! ### the step loop of `compute_dynamics` -/

/-- what one full step does to the state that enters step `k` -/
def stepMap [SMul M S] (e : Env M S R) (k : Nat) (x : S) : S :=
  e.P2 k • e.mpo k (e.P1 k • applyOpt (e.ctl k).2 (applyOpt (e.ctl k).1 x))

/-- the state entering step `k` (before its pre-measurement control) -/
def traj [SMul M S] (e : Env M S R) (x0 : S) : Nat → S
  | 0 => x0
  | k + 1 => stepMap e k (traj e x0 k)

/-- the state that is read out at step `k` -/
def seen [SMul M S] (e : Env M S R) (x0 : S) (k : Nat) : R :=
  e.cap k (applyOpt (e.ctl k).1 (traj e x0 k))

theorem body_lt [SMul M S] (e : Env M S R) (k : Nat) (hk : k ≠ e.N) (x : S) (r : List R) :
    execBody e k cdLoopBody ⟨x, r, false⟩ =
      ⟨stepMap e k x, r ++ (if e.recordAll then [e.cap k (applyOpt (e.ctl k).1 x)] else []), false⟩ := by
  cases h : e.recordAll <;>
  simp [execBody, cdLoopBody, execOp, hk, stepMap, h]

theorem body_last [SMul M S] (e : Env M S R) (x : S) (r : List R) :
    execBody e e.N cdLoopBody ⟨x, r, false⟩ = ⟨applyOpt (e.ctl e.N).1 x, r, true⟩ := by
  simp [execBody, cdLoopBody, execOp]

def recsUpTo [SMul M S] (e : Env M S R) (x0 : S) (n : Nat) : List R :=
  if e.recordAll then (List.range n).map (seen e x0) else []

theorem loop_prefix [SMul M S] (e : Env M S R) (x0 : S) (n : Nat) (hn : n ≤ e.N) :
    (List.range n).foldl
      (fun (p : LoopState S R × Nat) k => if p.1.stopped then p else (execBody e k cdLoopBody p.1, k))
      (⟨x0, [], false⟩, 0) = (⟨traj e x0 n, recsUpTo e x0 n, false⟩, n - 1) := by
  induction n with
  | zero => simp [recsUpTo, traj]
  | succ n ih =>
    rw [List.range_succ, List.foldl_append, ih (by omega)]
    simp only [List.foldl_cons, List.foldl_nil]
    rw [if_neg (by simp), body_lt e n (by omega)]
    simp only [traj, recsUpTo]
    cases h : e.recordAll <;> simp [List.range_succ, seen]

theorem computeDynamics_eq [SMul M S] (e : Env M S R) (x0 : S) :
    computeDynamics e x0 =
      if e.recordAll then (List.range (e.N + 1)).map (seen e x0) else [seen e x0 e.N] := by
  unfold computeDynamics runLoop
  rw [List.range_succ, List.foldl_append, loop_prefix e x0 e.N (le_refl _)]
  simp only [List.foldl_cons, List.foldl_nil]
  rw [if_neg (by simp), body_last]
  simp only [cdAfterLoop, execBody, List.foldl_cons, List.foldl_nil, execOp, recsUpTo, seen]
  cases h : e.recordAll <;> simp [seen]

/-! ### products in acting order -/

/-- product of a list of operators in which the FIRST element acts FIRST:
    `seqProd [c₁, c₂, …, c_m] = c_m * ⋯ * c₂ * c₁` -/
def seqProd [Mul M] [One M] : List M → M
  | [] => 1
  | c :: r => seqProd r * c

/-- what `get_controls` should return for the operators `l` acting at a step -/
def bucket [Mul M] [One M] (l : List M) : Option M :=
  if l.isEmpty then none else some (seqProd l)

section monoid
variable [Monoid M]

@[simp] theorem seqProd_nil : seqProd ([] : List M) = 1 := rfl
@[simp] theorem seqProd_cons (c : M) (r : List M) : seqProd (c :: r) = seqProd r * c := rfl

theorem seqProd_append (l₁ l₂ : List M) : seqProd (l₁ ++ l₂) = seqProd l₂ * seqProd l₁ := by
  induction l₁ with
  | nil => simp
  | cons c r ih => simp [ih, mul_assoc]

theorem seqProd_singleton (c : M) : seqProd [c] = c := by simp

theorem seqProd_concat (l : List M) (c : M) : seqProd (l ++ [c]) = c * seqProd l := by
  rw [seqProd_append, seqProd_singleton]

theorem seqProd_flatMap {α : Type} (f : α → List M) (l : List α) :
    seqProd (l.map (fun t => seqProd (f t))) = seqProd (l.flatMap f) := by
  induction l with
  | nil => simp
  | cons a r ih => simp [List.flatMap_cons, seqProd_append, ih]

@[simp] theorem combine_newLeft (n a : M) : combine Side.newLeft n a = n * a := rfl
@[simp] theorem combine_newRight (n a : M) : combine Side.newRight n a = a * n := rfl

theorem foldl_newLeft (l : List M) (a : M) :
    (l.map (fun c => (Side.newLeft, c))).foldl (fun acc e => combine e.1 e.2 acc) a
      = seqProd l * a := by
  induction l generalizing a with
  | nil => simp
  | cons c r ih =>
    simp only [List.map_cons, List.foldl_cons, combine_newLeft]
    rw [ih]; simp [mul_assoc]

end monoid

/-! ### one side of a `Control` built from a list of `(key, op)` calls -/

def halfBuild [Mul M] (l : List (Key × M)) : Half M :=
  l.foldl (fun h a => h.add a.1 a.2) {}

theorem halfBuild_concat [Mul M] (l : List (Key × M)) (a : Key × M) :
    halfBuild (l ++ [a]) = (halfBuild l).add a.1 a.2 := by
  simp [halfBuild, List.foldl_append]

/-- the operators given for step key `k`, in insertion order -/
def sOps (l : List (Key × M)) (k : Int) : List M :=
  l.filterMap (fun a => if a.1 = Key.step k then some a.2 else none)

/-- the operators given for the float time `t`, in insertion order -/
def tOps (l : List (Key × M)) (t : Rat) : List M :=
  l.filterMap (fun a => if a.1 = Key.time t then some a.2 else none)

/-- insert a new time into an ascending list -/
def ordInsert (t : Rat) : List Rat → List Rat
  | [] => [t]
  | t' :: r => if t < t' then t :: t' :: r else t' :: ordInsert t r

/-- the distinct float times that were given, ascending -/
def keyStep (ks : List Rat) : Key → List Rat
  | .time t => if t ∈ ks then ks else ordInsert t ks
  | .step _ => ks

def tKeys (l : List (Key × M)) : List Rat :=
  l.foldl (fun ks a => keyStep ks a.1) []

theorem tKeys_concat (l : List (Key × M)) (a : Key × M) :
    tKeys (l ++ [a]) = keyStep (tKeys l) a.1 := by
  simp [tKeys, List.foldl_append]

theorem mem_ordInsert (t x : Rat) (ks : List Rat) : x ∈ ordInsert t ks ↔ x = t ∨ x ∈ ks := by
  induction ks with
  | nil => simp [ordInsert]
  | cons a r ih =>
    unfold ordInsert
    split
    · simp
    · simp [ih]; tauto

theorem ordInsert_pairwise (t : Rat) (ks : List Rat) (h : ks.Pairwise (· < ·)) (ht : t ∉ ks) :
    (ordInsert t ks).Pairwise (· < ·) := by
  induction ks with
  | nil => simp [ordInsert]
  | cons a r ih =>
    unfold ordInsert
    rw [List.pairwise_cons] at h
    split
    · rename_i hlt
      refine List.pairwise_cons.2 ⟨?_, List.pairwise_cons.2 h⟩
      intro x hx
      rcases List.mem_cons.1 hx with rfl | hx
      · exact hlt
      · exact lt_trans hlt (h.1 x hx)
    · rename_i hlt
      have hne : t ≠ a := fun e => ht (by simp [e])
      have hat : a < t := lt_of_le_of_ne (not_lt.1 hlt) (Ne.symm hne)
      refine List.pairwise_cons.2 ⟨?_, ih h.2 (fun hm => ht (List.mem_cons_of_mem _ hm))⟩
      intro x hx
      rcases (mem_ordInsert t x r).1 hx with rfl | hx
      · exact hat
      · exact h.1 x hx

theorem tKeys_pairwise (l : List (Key × M)) : (tKeys l).Pairwise (· < ·) := by
  induction l using List.reverseRecOn with
  | nil => simp [tKeys]
  | append_singleton l a ih =>
    rw [tKeys_concat]
    rcases a with ⟨k, op⟩
    cases k with
    | step k => exact ih
    | time t =>
      simp only [keyStep]
      split
      · exact ih
      · rename_i h; exact ordInsert_pairwise t _ ih h

theorem tOps_concat (l : List (Key × M)) (a : Key × M) (t : Rat) :
    tOps (l ++ [a]) t = tOps l t ++ (if a.1 = Key.time t then [a.2] else []) := by
  unfold tOps
  rw [List.filterMap_append]
  congr 1
  by_cases h : a.1 = Key.time t <;> simp [h]

theorem sOps_concat (l : List (Key × M)) (a : Key × M) (k : Int) :
    sOps (l ++ [a]) k = sOps l k ++ (if a.1 = Key.step k then [a.2] else []) := by
  unfold sOps
  rw [List.filterMap_append]
  congr 1
  by_cases h : a.1 = Key.step k <;> simp [h]

theorem mem_tKeys (l : List (Key × M)) (t : Rat) : t ∈ tKeys l ↔ tOps l t ≠ [] := by
  induction l using List.reverseRecOn with
  | nil => simp [tKeys, tOps]
  | append_singleton l a ih =>
    rw [tKeys_concat, tOps_concat]
    rcases a with ⟨k, op⟩
    cases k with
    | step k => simpa [keyStep] using ih
    | time t' =>
      simp only [keyStep]
      by_cases e : t' = t
      · subst e
        split
        · rename_i h; simp [h]
        · simp [mem_ordInsert]
      · have e' : Key.time t' ≠ Key.time t := fun h => e (by injection h)
        split
        · simp [ih]
        · simp [mem_ordInsert, ih, Ne.symm e]

/-! ### invariants of the data structure -/

def lookupStep (l : List (Int × M)) (k : Int) : Option M :=
  (l.find? (fun p => p.1 == k)).map (·.2)

theorem lookup_dictUpsert [Mul M] (side : Side) (k : Int) (op : M) (l : List (Int × M)) (k' : Int) :
    lookupStep (dictUpsert side k op l) k' =
      if k' = k then some (match lookupStep l k with
        | none => op
        | some v => combine side op v)
      else lookupStep l k' := by
  induction l with
  | nil =>
    by_cases h : k' = k
    · subst h; simp [dictUpsert, lookupStep]
    · have : ¬ k = k' := fun e => h e.symm
      simp [dictUpsert, lookupStep, h, this]
  | cons p r ih =>
    rcases p with ⟨k1, v⟩
    unfold dictUpsert
    by_cases h1 : k1 = k
    · subst h1
      by_cases h : k' = k1
      · subst h; simp [lookupStep]
      · have : ¬ k1 = k' := fun e => h e.symm
        simp [lookupStep, h, this]
    · simp only [h1, if_false]
      by_cases h : k' = k
      · subst h
        have := ih
        simp only [lookupStep, if_true] at this ⊢
        simp [h1, this]
      · have := ih
        simp only [lookupStep, h, if_false] at this ⊢
        by_cases h2 : k1 = k'
        · simp [h2]
        · simp [h2, this]

theorem halfBuild_steps [Monoid M] (hs : addSingle_step = Side.newLeft) (l : List (Key × M))
    (k : Int) : lookupStep (halfBuild l).steps k = bucket (sOps l k) := by
  induction l using List.reverseRecOn with
  | nil => simp [halfBuild, lookupStep, bucket, sOps]
  | append_singleton l a ih =>
    rw [halfBuild_concat, sOps_concat]
    rcases a with ⟨key, op⟩
    cases key with
    | time t => simpa [Half.add] using ih
    | step k0 =>
      simp only [Half.add]
      rw [lookup_dictUpsert, hs]
      by_cases h : k = k0
      · subst h
        rw [ih]
        simp only [if_true]
        unfold bucket
        by_cases he : sOps l k = []
        · simp [he]
        · simp [he, seqProd_append]
      · have : Key.step k0 ≠ Key.step k := fun e => h (by injection e with e; exact e.symm)
        simp [h, this, ih]

theorem timesInsert_map (t : Rat) (op : M) (g : Rat → M) (ks : List Rat) :
    timesInsert t op (ks.map (fun t' => (t', g t'))) =
      (ordInsert t ks).map (fun t' => (t', if t' = t then op else g t')) ∨ t ∈ ks := by
  induction ks with
  | nil => left; simp [timesInsert, ordInsert]
  | cons a r ih =>
    by_cases hm : t ∈ a :: r
    · right; exact hm
    · left
      have hne : a ≠ t := fun e => hm (by simp [e])
      have hr : t ∉ r := fun h => hm (List.mem_cons_of_mem _ h)
      rcases ih with ih | ih
      · simp only [List.map_cons, timesInsert, ordInsert]
        split
        · simp only [List.map_cons, if_true, hne, if_false]
          congr 2
          apply List.map_congr_left
          intro x hx
          have : x ≠ t := fun e => hr (e ▸ hx)
          simp [this]
        · simp only [List.map_cons, hne, if_false]
          rw [ih]
      · exact absurd ih hr

theorem halfBuild_times [Monoid M] (ht : addSingle_time = Side.newLeft) (l : List (Key × M)) :
    (halfBuild l).times = (tKeys l).map (fun t => (t, seqProd (tOps l t))) := by
  induction l using List.reverseRecOn with
  | nil => simp [halfBuild, tKeys]
  | append_singleton l a ih =>
    rw [halfBuild_concat, tKeys_concat]
    rcases a with ⟨key, op⟩
    cases key with
    | step k =>
      simp only [Half.add, keyStep, ih]
      apply List.map_congr_left
      intro t _
      simp [tOps_concat]
    | time t =>
      simp only [Half.add, keyStep, timesUpsert, ih, ht]
      by_cases hm : t ∈ tKeys l
      · have hany : ((tKeys l).map (fun t => (t, seqProd (tOps l t)))).any (fun p => p.1 == t) = true := by
          simp only [List.any_map, List.any_eq_true]
          exact ⟨t, hm, by simp⟩
        rw [if_pos hany, if_pos hm, List.map_map]
        apply List.map_congr_left
        intro t' _
        by_cases e : t' = t
        · subst e; simp [tOps_concat, seqProd_append]
        · have e' : Key.time t ≠ Key.time t' := fun h => e (by injection h with h; exact h.symm)
          simp [tOps_concat, e, e']
      · have hany : ¬ ((tKeys l).map (fun t => (t, seqProd (tOps l t)))).any (fun p => p.1 == t) = true := by
          simp only [List.any_map, List.any_eq_true, not_exists, not_and]
          intro x hx
          have : x ≠ t := fun e => hm (e ▸ hx)
          simp [this]
        rw [if_neg hany, if_neg hm]
        rcases timesInsert_map t op (fun t => seqProd (tOps l t)) (tKeys l) with h | h
        · rw [h]
          apply List.map_congr_left
          intro t' _
          by_cases e : t' = t
          · subst e
            have : tOps l t' = [] := by
              by_contra hne; exact hm ((mem_tKeys l t').2 hne)
            simp [tOps_concat, this]
          · have e' : Key.time t ≠ Key.time t' := fun h => e (by injection h with h; exact h.symm)
            simp [tOps_concat, e, e']
        · exact absurd h hm

/-! ### what `get_controls` returns -/

/-- the float times that land on the step, ascending -/
def landingTimes (l : List (Key × M)) (sel : Rat → Bool) : List Rat := (tKeys l).filter sel

/-- the operators of all float-keyed calls landing on the step: ascending in time, and in
    insertion order for one and the same time -/
def floatOps (l : List (Key × M)) (sel : Rat → Bool) : List M :=
  (landingTimes l sel).flatMap (tOps l)

theorem contribs_time [Monoid M] (ht : addSingle_time = Side.newLeft) (l : List (Key × M))
    (sel : Rat → Bool) (step : Int) :
    contribs (halfBuild l) sel step Src.timeKeyed
      = (landingTimes l sel).map (fun t => seqProd (tOps l t)) := by
  simp only [contribs, halfBuild_times ht, landingTimes, List.filter_map, List.map_map]
  rfl

theorem contribs_step [Monoid M] (hs : addSingle_step = Side.newLeft) (l : List (Key × M))
    (sel : Rat → Bool) (step : Int) :
    contribs (halfBuild l) sel step Src.stepKeyed = (bucket (sOps l step)).toList := by
  have := halfBuild_steps hs l step
  simp only [lookupStep] at this
  simp only [contribs, this]

theorem bucket_congr [Mul M] [One M] {X Y : List M} (he : X = [] ↔ Y = []) (hp : seqProd X = seqProd Y) :
    bucket X = bucket Y := by
  unfold bucket
  by_cases hx : X = []
  · have hy := he.1 hx; simp [hx, hy]
  · have hy : Y ≠ [] := fun h => hx (he.2 h)
    simp [hx, hy, hp]

theorem getHalf_two [Monoid M] (h : Half M) (sel : Rat → Bool) (step : Int) (s₁ s₂ : Src) :
    getHalf [(s₁, Side.newLeft), (s₂, Side.newLeft)] h sel step
      = bucket (contribs h sel step s₁ ++ contribs h sel step s₂) := by
  unfold getHalf contribList bucket
  simp only [List.flatMap_cons, List.flatMap_nil, List.append_nil]
  rw [← List.map_append, foldl_newLeft]
  simp

theorem seqProd_bucket_toList [Monoid M] (l : List M) : seqProd (bucket l).toList = seqProd l := by
  unfold bucket
  by_cases h : l = [] <;> simp [h]

theorem bucket_toList_nil [Monoid M] (l : List M) : (bucket l).toList = [] ↔ l = [] := by
  unfold bucket
  by_cases h : l = [] <;> simp [h]

theorem floatOps_nil (l : List (Key × M)) (sel : Rat → Bool) :
    floatOps l sel = [] ↔ landingTimes l sel = [] := by
  unfold floatOps
  constructor
  · intro h
    rw [List.flatMap_eq_nil_iff] at h
    by_contra hne
    obtain ⟨t, ht⟩ := List.exists_mem_of_ne_nil _ hne
    have : t ∈ tKeys l := (List.mem_filter.1 ht).1
    exact (mem_tKeys l t).1 this (h t ht)
  · intro h; simp [h]

/-- pre-measurement half: the float-keyed operators act first, then the int-keyed ones -/
theorem getHalf_floatFirst [Monoid M] (hs : addSingle_step = Side.newLeft)
    (ht : addSingle_time = Side.newLeft) (l : List (Key × M)) (sel : Rat → Bool) (step : Int) :
    getHalf [(Src.timeKeyed, Side.newLeft), (Src.stepKeyed, Side.newLeft)] (halfBuild l) sel step
      = bucket (floatOps l sel ++ sOps l step) := by
  rw [getHalf_two, contribs_time ht, contribs_step hs]
  apply bucket_congr
  · simp only [List.append_eq_nil_iff, List.map_eq_nil_iff, bucket_toList_nil, floatOps_nil]
  · rw [seqProd_append, seqProd_append, seqProd_bucket_toList, seqProd_flatMap]; rfl

/-- post-measurement half: the int-keyed operators act first, then the float-keyed ones -/
theorem getHalf_stepFirst [Monoid M] (hs : addSingle_step = Side.newLeft)
    (ht : addSingle_time = Side.newLeft) (l : List (Key × M)) (sel : Rat → Bool) (step : Int) :
    getHalf [(Src.stepKeyed, Side.newLeft), (Src.timeKeyed, Side.newLeft)] (halfBuild l) sel step
      = bucket (sOps l step ++ floatOps l sel) := by
  rw [getHalf_two, contribs_time ht, contribs_step hs]
  apply bucket_congr
  · simp only [List.append_eq_nil_iff, List.map_eq_nil_iff, bucket_toList_nil, floatOps_nil]
  · rw [seqProd_append, seqProd_append, seqProd_bucket_toList, seqProd_flatMap]; rfl

/-! ### several controls for one step: insertion order when they share their key -/

/-- does a key land on `step`?  (`sel` = the generated float-time test for that step) -/
def lands (sel : Rat → Bool) (step : Int) : Key → Bool
  | .step k => k == step
  | .time t => sel t

/-- the operators of all calls landing on the step, in insertion order -/
def landingOps (l : List (Key × M)) (sel : Rat → Bool) (step : Int) : List M :=
  (l.filter (fun a => lands sel step a.1)).map (·.2)

theorem filterMap_key (l : List (Key × M)) (k : Key) :
    l.filterMap (fun a => if a.1 = k then some a.2 else none)
      = (l.filter (fun a => decide (a.1 = k))).map (·.2) := by
  induction l with
  | nil => simp
  | cons a r ih =>
    by_cases h : a.1 = k <;> simp [h, ih]

theorem tOps_ne_nil (l : List (Key × M)) (t : Rat) : tOps l t ≠ [] ↔ ∃ a ∈ l, a.1 = Key.time t := by
  unfold tOps
  rw [filterMap_key]
  simp [List.filter_eq_nil_iff]

theorem sOps_eq_nil (l : List (Key × M)) (k : Int) : sOps l k = [] ↔ ∀ a ∈ l, a.1 ≠ Key.step k := by
  unfold sOps
  rw [filterMap_key]
  simp [List.filter_eq_nil_iff]

theorem filter_unique {p : Rat → Bool} {t0 : Rat} (ks : List Rat) (hn : ks.Nodup)
    (hall : ∀ x ∈ ks, p x = true → x = t0) (hm : t0 ∈ ks) (hp : p t0 = true) :
    ks.filter p = [t0] := by
  induction ks with
  | nil => simp at hm
  | cons a r ih =>
    rw [List.nodup_cons] at hn
    by_cases ha : a = t0
    · subst ha
      have : r.filter p = [] := by
        rw [List.filter_eq_nil_iff]
        intro x hx hpx
        have : x = a := hall x (List.mem_cons_of_mem _ hx) hpx
        exact hn.1 (this ▸ hx)
      simp [hp, this]
    · have hpa : ¬ p a = true := fun h => ha (hall a (by simp) h)
      have hm' : t0 ∈ r := by
        rcases List.mem_cons.1 hm with h | h
        · exact absurd h.symm ha
        · exact h
      simp only [List.filter_cons, hpa]
      exact ih hn.2 (fun x hx => hall x (List.mem_cons_of_mem _ hx)) hm'

theorem same_key_order (l : List (Key × M)) (sel : Rat → Bool) (step : Int) (key0 : Key)
    (h : ∀ a ∈ l, lands sel step a.1 = true → a.1 = key0) :
    floatOps l sel ++ sOps l step = landingOps l sel step ∧
    sOps l step ++ floatOps l sel = landingOps l sel step := by
  cases key0 with
  | step k0 =>
    have hlt : landingTimes l sel = [] := by
      unfold landingTimes
      rw [List.filter_eq_nil_iff]
      intro t ht hsel
      obtain ⟨a, ha, hk⟩ := (tOps_ne_nil l t).1 ((mem_tKeys l t).1 ht)
      have := h a ha (by simp [hk, lands, hsel])
      rw [hk] at this; cases this
    have hf : floatOps l sel = [] := (floatOps_nil l sel).2 hlt
    have hs : sOps l step = landingOps l sel step := by
      unfold sOps landingOps
      rw [filterMap_key]
      congr 1
      apply List.filter_congr
      intro a ha
      by_cases hk : a.1 = Key.step step
      · simp [hk, lands]
      · have : lands sel step a.1 = false := by
          by_contra hl
          have hl : lands sel step a.1 = true := by simpa using hl
          have e := h a ha hl
          rw [e] at hl
          simp only [lands, beq_iff_eq] at hl
          exact hk (by rw [e, hl])
        simp [hk, this]
    simp [hf, hs]
  | time t0 =>
    have hs : sOps l step = [] := by
      rw [sOps_eq_nil]
      intro a ha hk
      have := h a ha (by simp [hk, lands])
      rw [hk] at this; cases this
    have hall : ∀ x ∈ tKeys l, sel x = true → x = t0 := by
      intro t ht hsel
      obtain ⟨a, ha, hk⟩ := (tOps_ne_nil l t).1 ((mem_tKeys l t).1 ht)
      have := h a ha (by simp [hk, lands, hsel])
      rw [hk] at this; injection this
    have hf : floatOps l sel = landingOps l sel step := by
      by_cases hc : t0 ∈ tKeys l ∧ sel t0 = true
      · have : landingTimes l sel = [t0] :=
          filter_unique (tKeys l) ((tKeys_pairwise l).imp (fun h => ne_of_lt h)) hall hc.1 hc.2
        unfold floatOps
        rw [this]
        simp only [List.flatMap_cons, List.flatMap_nil, List.append_nil]
        unfold tOps landingOps
        rw [filterMap_key]
        congr 1
        apply List.filter_congr
        intro a ha
        by_cases hk : a.1 = Key.time t0
        · simp [hk, lands, hc.2]
        · have : lands sel step a.1 = false := by
            by_contra hl
            exact hk (h a ha (by simpa using hl))
          simp [hk, this]
      · have hlt : landingTimes l sel = [] := by
          unfold landingTimes
          rw [List.filter_eq_nil_iff]
          intro t ht hsel
          have := hall t ht hsel
          subst this
          exact hc ⟨ht, hsel⟩
        have hl : landingOps l sel step = [] := by
          unfold landingOps
          rw [List.map_eq_nil_iff, List.filter_eq_nil_iff]
          intro a ha hla
          have hk := h a ha hla
          have hsel : sel t0 = true := by rw [hk] at hla; simpa [lands] using hla
          exact hc ⟨(mem_tKeys l t0).2 ((tOps_ne_nil l t0).2 ⟨a, ha, hk⟩), hsel⟩
        rw [(floatOps_nil l sel).2 hlt, hl]
    simp [hf, hs]

/-! ### the whole `Control` object -/

/-- the `(key, op)` calls made with the given `post` flag, in call order -/
def sideList (adds : List (Call M)) (post : Bool) : List (Key × M) :=
  (adds.filter (fun a => a.post == post)).map (fun a => (a.key, a.op))

theorem build_halves [Mul M] (adds : List (Call M)) :
    (build adds).pre = halfBuild (sideList adds false) ∧
    (build adds).post = halfBuild (sideList adds true) := by
  induction adds using List.reverseRecOn with
  | nil => simp [build, halfBuild, sideList]
  | append_singleton l a ih =>
    have hb : build (l ++ [a]) = (build l).addSingle a.key a.op a.post := by
      simp [build, List.foldl_append]
    rw [hb]
    unfold sideList at ih ⊢
    rw [List.filter_append, List.filter_append, List.map_append, List.map_append]
    cases hp : a.post
    · simp [Ctl.addSingle, hp, ih.1, ih.2, halfBuild_concat]
    · simp [Ctl.addSingle, hp, ih.1, ih.2, halfBuild_concat]

/-! ### identity controls -/

theorem seqProd_sOps_insert_one [Monoid M] (l₁ l₂ : List (Key × M)) (key : Key) (k : Int) :
    seqProd (sOps (l₁ ++ (key, (1 : M)) :: l₂) k) = seqProd (sOps (l₁ ++ l₂) k) := by
  unfold sOps
  rw [List.filterMap_append, List.filterMap_append, List.filterMap_cons]
  by_cases h : key = Key.step k <;> simp [h, seqProd_append]

theorem seqProd_tOps_insert_one [Monoid M] (l₁ l₂ : List (Key × M)) (key : Key) (t : Rat) :
    seqProd (tOps (l₁ ++ (key, (1 : M)) :: l₂) t) = seqProd (tOps (l₁ ++ l₂) t) := by
  unfold tOps
  rw [List.filterMap_append, List.filterMap_append, List.filterMap_cons]
  by_cases h : key = Key.time t <;> simp [h, seqProd_append]

theorem tKeys_insert (l₁ l₂ : List (Key × M)) (key : Key) (op : M) :
    tKeys (l₁ ++ (key, op) :: l₂) = keyStep (tKeys (l₁ ++ l₂)) key := by
  have hP : (keyStep (tKeys (l₁ ++ l₂)) key).Pairwise (· < ·) := by
    cases key with
    | step k => exact tKeys_pairwise _
    | time t =>
      simp only [keyStep]
      split
      · exact tKeys_pairwise _
      · rename_i h; exact ordInsert_pairwise t _ (tKeys_pairwise _) h
  apply List.Pairwise.eq_of_mem_iff (tKeys_pairwise _) hP
  intro x
  rw [mem_tKeys, tOps_ne_nil]
  have hx : x ∈ tKeys (l₁ ++ l₂) ↔ ∃ a ∈ l₁ ++ l₂, a.1 = Key.time x := by
    rw [mem_tKeys, tOps_ne_nil]
  cases key with
  | step k =>
    simp only [keyStep, hx]
    constructor
    · rintro ⟨a, ha, hk⟩
      simp only [List.mem_append, List.mem_cons] at ha
      rcases ha with ha | rfl | ha
      · exact ⟨a, by simp [ha], hk⟩
      · simp at hk
      · exact ⟨a, by simp [ha], hk⟩
    · rintro ⟨a, ha, hk⟩
      simp only [List.mem_append] at ha
      rcases ha with ha | ha
      · exact ⟨a, by simp [ha], hk⟩
      · exact ⟨a, by simp [ha], hk⟩
  | time t =>
    have key_mem : x ∈ keyStep (tKeys (l₁ ++ l₂)) (Key.time t) ↔ x = t ∨ x ∈ tKeys (l₁ ++ l₂) := by
      simp only [keyStep]
      split
      · rename_i h
        constructor
        · intro h'; exact Or.inr h'
        · rintro (rfl | h')
          · exact h
          · exact h'
      · exact mem_ordInsert t x _
    rw [key_mem, hx]
    constructor
    · rintro ⟨a, ha, hk⟩
      simp only [List.mem_append, List.mem_cons] at ha
      rcases ha with ha | rfl | ha
      · exact Or.inr ⟨a, by simp [ha], hk⟩
      · left; simp only at hk; injection hk with hk; exact hk.symm
      · exact Or.inr ⟨a, by simp [ha], hk⟩
    · rintro (rfl | ⟨a, ha, hk⟩)
      · exact ⟨(Key.time x, op), by simp, rfl⟩
      · simp only [List.mem_append] at ha
        rcases ha with ha | ha
        · exact ⟨a, by simp [ha], hk⟩
        · exact ⟨a, by simp [ha], hk⟩

theorem seqProd_map_ordInsert [Monoid M] (g : Rat → M) (sel : Rat → Bool) (t : Rat) (ht : g t = 1)
    (ks : List Rat) :
    seqProd (((ordInsert t ks).filter sel).map g) = seqProd ((ks.filter sel).map g) := by
  induction ks with
  | nil => by_cases h : sel t <;> simp [ordInsert, h, ht]
  | cons a r ih =>
    unfold ordInsert
    split
    · by_cases h : sel t <;> simp [List.filter_cons, h, ht]
    · by_cases h : sel a <;> simp [h, ih]

/-- a call with the identity operator, anywhere in the call sequence, does not change the product
    of the operators acting at any step (neither of the float-keyed nor of the int-keyed part) -/
theorem seqProd_insert_one [Monoid M] (l₁ l₂ : List (Key × M)) (key : Key) (sel : Rat → Bool)
    (step : Int) :
    seqProd (floatOps (l₁ ++ (key, (1 : M)) :: l₂) sel) = seqProd (floatOps (l₁ ++ l₂) sel) ∧
    seqProd (sOps (l₁ ++ (key, (1 : M)) :: l₂) step) = seqProd (sOps (l₁ ++ l₂) step) := by
  refine ⟨?_, seqProd_sOps_insert_one l₁ l₂ key step⟩
  unfold floatOps landingTimes
  rw [← seqProd_flatMap, ← seqProd_flatMap, tKeys_insert]
  have hg : (fun t => seqProd (tOps (l₁ ++ (key, (1 : M)) :: l₂) t))
      = (fun t => seqProd (tOps (l₁ ++ l₂) t)) := by
    funext t; exact seqProd_tOps_insert_one l₁ l₂ key t
  rw [hg]
  cases key with
  | step k => rfl
  | time t =>
    simp only [keyStep]
    split
    · rfl
    · rename_i h
      apply seqProd_map_ordInsert
      have : tOps (l₁ ++ l₂) t = [] := by
        by_contra hne; exact h ((mem_tKeys _ t).2 hne)
      simp [this]

end OQuPyVerif.Control

namespace OQuPyVerif.Control
open OQuPyVerif.Generated.ControlCompose
variable {M S R : Type}

/-! ### acting on a state -/

theorem applyOpt_bucket [Monoid M] [MulAction M S] (l : List M) (x : S) :
    applyOpt (bucket l) x = seqProd l • x := by
  unfold bucket
  by_cases h : l = [] <;> simp [h, applyOpt]

/-- the loop environment whose `controls(step)` come from a `Control` object -/
def Env.withControl [Mul M] [One M] (e : Env M S R) (c : Ctl M) (dt start : Rat) : Env M S R :=
  { e with ctl := fun k => c.getControls (k : Int) dt start }

theorem traj_congr [SMul M S] (e e' : Env M S R) (x0 : S) (k : Nat)
    (hP1 : e.P1 = e'.P1) (hP2 : e.P2 = e'.P2) (hm : e.mpo = e'.mpo)
    (h1 : ∀ i < k, ∀ x : S, applyOpt (e.ctl i).1 x = applyOpt (e'.ctl i).1 x)
    (h2 : ∀ i < k, ∀ x : S, applyOpt (e.ctl i).2 x = applyOpt (e'.ctl i).2 x) :
    traj e x0 k = traj e' x0 k := by
  induction k with
  | zero => rfl
  | succ k ih =>
    have ih' := ih (fun i hi => h1 i (Nat.lt_succ_of_lt hi)) (fun i hi => h2 i (Nat.lt_succ_of_lt hi))
    simp only [traj, stepMap, ih', h1 k (Nat.lt_succ_self k), h2 k (Nat.lt_succ_self k), hP1, hP2, hm]

theorem seen_congr [SMul M S] (e e' : Env M S R) (x0 : S) (k : Nat)
    (hP1 : e.P1 = e'.P1) (hP2 : e.P2 = e'.P2) (hm : e.mpo = e'.mpo) (hc : e.cap = e'.cap)
    (h1 : ∀ i ≤ k, ∀ x : S, applyOpt (e.ctl i).1 x = applyOpt (e'.ctl i).1 x)
    (h2 : ∀ i < k, ∀ x : S, applyOpt (e.ctl i).2 x = applyOpt (e'.ctl i).2 x) :
    seen e x0 k = seen e' x0 k := by
  unfold seen
  rw [traj_congr e e' x0 k hP1 hP2 hm (fun i hi => h1 i (Nat.le_of_lt hi)) h2, h1 k (Nat.le_refl k), hc]

end OQuPyVerif.Control

namespace OQuPyVerif.Control
open OQuPyVerif.Generated.ControlCompose
variable {M S R : Type}

/-! ### every landing call contributes exactly one factor -/

theorem perm_flatMap_insert {α β : Type} [DecidableEq α] (ks : List α) (hn : ks.Nodup) (k0 : α)
    (hk : k0 ∈ ks) (g : α → List β) (x : β) :
    (ks.flatMap (fun k => if k = k0 then x :: g k else g k)).Perm (x :: ks.flatMap g) := by
  induction ks with
  | nil => simp at hk
  | cons a r ih =>
    rw [List.nodup_cons] at hn
    rw [List.flatMap_cons, List.flatMap_cons]
    by_cases ha : a = k0
    · subst ha
      have hr : r.flatMap (fun k => if k = a then x :: g k else g k) = r.flatMap g := by
        apply List.flatMap_congr
        intro k hk'
        have : k ≠ a := fun e => hn.1 (e ▸ hk')
        simp [this]
      simp [hr]
    · have hk' : k0 ∈ r := by
        rcases List.mem_cons.1 hk with h | h
        · exact absurd h.symm ha
        · exact h
      simp only [ha, if_false]
      refine (List.Perm.append_left _ (ih hn.2 hk')).trans ?_
      exact List.perm_middle

theorem perm_group_by_time (l : List (Key × M)) (ks : List Rat) (hn : ks.Nodup)
    (h : ∀ a ∈ l, ∃ t ∈ ks, a.1 = Key.time t) :
    (ks.flatMap (fun t => l.filter (fun a => decide (a.1 = Key.time t)))).Perm l := by
  induction l with
  | nil => simp
  | cons a r ih =>
    obtain ⟨t0, ht0, hk⟩ := h a (by simp)
    have hf : (fun t => (a :: r).filter (fun a => decide (a.1 = Key.time t)))
        = (fun t => if t = t0 then a :: r.filter (fun a => decide (a.1 = Key.time t))
                    else r.filter (fun a => decide (a.1 = Key.time t))) := by
      funext t
      by_cases e : t = t0
      · subst e; simp [hk]
      · have : ¬ a.1 = Key.time t := by rw [hk]; intro h'; injection h' with h'; exact e h'.symm
        simp [this, e]
    rw [hf]
    refine (perm_flatMap_insert ks hn t0 ht0 _ a).trans ?_
    exact List.Perm.cons a (ih (fun b hb => h b (List.mem_cons_of_mem _ hb)))

/-- is the key a float time that lands on the step? -/
def landsFloat (sel : Rat → Bool) : Key → Bool
  | .time t => sel t
  | .step _ => false

theorem floatOps_perm (l : List (Key × M)) (sel : Rat → Bool) :
    (floatOps l sel).Perm ((l.filter (fun a => landsFloat sel a.1)).map (·.2)) := by
  unfold floatOps
  have h1 : (landingTimes l sel).flatMap (tOps l)
      = ((landingTimes l sel).flatMap (fun t =>
          (l.filter (fun a => landsFloat sel a.1)).filter (fun a => decide (a.1 = Key.time t)))).map (·.2) := by
    rw [List.map_flatMap]
    apply List.flatMap_congr
    intro t ht
    have hsel : sel t = true := (List.mem_filter.1 ht).2
    unfold tOps
    rw [filterMap_key, List.filter_filter]
    congr 1
    apply List.filter_congr
    intro a _
    by_cases e : a.1 = Key.time t
    · simp [e, landsFloat, hsel]
    · simp [e]
  rw [h1]
  apply List.Perm.map
  apply perm_group_by_time
  · exact ((tKeys_pairwise l).sublist List.filter_sublist).imp (fun h => ne_of_lt h)
  · intro a ha
    rw [List.mem_filter] at ha
    rcases hk : a.1 with k | t
    · simp [hk, landsFloat] at ha
    · refine ⟨t, ?_, rfl⟩
      unfold landingTimes
      rw [List.mem_filter]
      refine ⟨(mem_tKeys l t).2 ((tOps_ne_nil l t).2 ⟨a, ha.1, hk⟩), ?_⟩
      simpa [hk, landsFloat] using ha.2

/-- The factors of the pre- and of the post-measurement control are, as multisets, exactly the
    operators of the calls landing on the step: every such call contributes ONE factor, no other
    call contributes. -/
theorem factors_perm (l : List (Key × M)) (sel : Rat → Bool) (step : Int) :
    (floatOps l sel ++ sOps l step).Perm (landingOps l sel step) ∧
    (sOps l step ++ floatOps l sel).Perm (landingOps l sel step) := by
  have hs : sOps l step = ((l.filter (fun a => lands sel step a.1)).filter
      (fun a => !landsFloat sel a.1)).map (·.2) := by
    unfold sOps
    rw [filterMap_key, List.filter_filter]
    congr 1
    apply List.filter_congr
    intro a _
    rcases hk : a.1 with k | t
    · by_cases e : k = step <;> simp [lands, landsFloat, e]
    · simp [lands, landsFloat]
  have hf : (l.filter (fun a => landsFloat sel a.1)) = (l.filter (fun a => lands sel step a.1)).filter
      (fun a => landsFloat sel a.1) := by
    rw [List.filter_filter]
    apply List.filter_congr
    intro a _
    rcases hk : a.1 with k | t
    · simp [landsFloat]
    · simp [lands, landsFloat]
  have hp := List.filter_append_perm (fun a : Key × M => landsFloat sel a.1)
    (l.filter (fun a => lands sel step a.1))
  have h1 : (floatOps l sel ++ sOps l step).Perm (landingOps l sel step) := by
    unfold landingOps
    rw [hs]
    refine ((floatOps_perm l sel).append_right _).trans ?_
    rw [hf, ← List.map_append]
    exact hp.map _
  exact ⟨h1, List.perm_append_comm.trans h1⟩

end OQuPyVerif.Control
