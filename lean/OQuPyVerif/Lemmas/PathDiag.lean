/- Collapse of the path sum for diagonal (commuting) kernels (C01, C11). -/
import OQuPyVerif.Lemmas.PathAmp

namespace OQuPyVerif.PathSum
open Finset BigOperators
variable {K : Type} [CommRing K]

/-- if `F` vanishes on every non-constant path, only the constant paths contribute -/
theorem pathSum_const_support (L n : ℕ) (F : List ℕ → K)
    (h : ∀ a p, (∃ b ∈ p, b ≠ a) → F (a :: p) = 0) :
    pathSum L (n+1) F = ∑ a ∈ range L, F (List.replicate (n+1) a) := by
  induction n generalizing F with
  | zero => simp [pathSum]
  | succ n ih =>
    rw [pathSum_succ]
    apply Finset.sum_congr rfl
    intro a ha
    rw [ih (fun p => F (a :: p))]
    · rw [Finset.sum_eq_single a]
      · rfl
      · intro b _ hba
        apply h a
        exact ⟨b, by simp, hba⟩
      · intro hna; exact absurd ha hna
    · intro b p hex
      obtain ⟨c, hc, hcb⟩ := hex
      by_cases hba : b = a
      · subst hba
        apply h b
        exact ⟨c, by simp [hc], hcb⟩
      · apply h a
        exact ⟨b, by simp, hba⟩

/-- product of the influence factors of a constant path: `Π_{j<k} I k j a a` -/
def rowConst (I : ℕ → ℕ → ℕ → ℕ → K) (k a : ℕ) : K := ∏ j ∈ range k, I k j a a

theorem inflRowFull_replicate (I : ℕ → ℕ → ℕ → ℕ → K) (k a : ℕ) (j m : ℕ) :
    inflRowFull I k a j (List.replicate m a) = ∏ i ∈ range m, I k (j + i) a a := by
  induction m generalizing j with
  | zero => simp [inflRowFull]
  | succ m ih =>
    simp only [List.replicate_succ, inflRowFull]
    rw [ih (j+1), Finset.prod_range_succ']
    simp only [Nat.add_zero]
    rw [mul_comm]
    congr 1
    apply Finset.prod_congr rfl; intro i _
    congr 1; omega

theorem inflProd_replicate (I : ℕ → ℕ → ℕ → ℕ → K) (a n : ℕ) :
    inflProd I (List.replicate n a) = ∏ k ∈ range n, rowConst I (k+1) a := by
  induction n with
  | zero => simp [inflProd]
  | succ n ih =>
    simp only [List.replicate_succ, inflProd, List.length_replicate]
    rw [ih, Finset.prod_range_succ, mul_comm]
    congr 1
    have := inflRowFull_replicate I (n+1) a 0 (n+1)
    simp only [List.replicate_succ, Nat.zero_add] at this
    rw [this]
    rfl

theorem sysAmpl_replicate (M : ℕ → ℕ → ℕ → K) (v1 : ℕ → K) (a n : ℕ) :
    sysAmpl M v1 (List.replicate (n+1) a) = v1 a * ∏ k ∈ range n, M (k+2) a a := by
  induction n with
  | zero => simp [sysAmpl]
  | succ n ih =>
    have : List.replicate (n+2) a = a :: a :: List.replicate n a := by
      simp [List.replicate_succ]
    rw [this]
    simp only [sysAmpl, List.length_replicate]
    have h2 : a :: List.replicate n a = List.replicate (n+1) a := by simp [List.replicate_succ]
    rw [h2, ih, Finset.prod_range_succ]
    ring

/-- a non-constant path has a zero system amplitude when all kernels are diagonal -/
theorem sysAmpl_offdiag (M : ℕ → ℕ → ℕ → K) (v1 : ℕ → K)
    (hM : ∀ k a b, a ≠ b → M k a b = 0) (a : ℕ) (p : List ℕ) (h : ∃ b ∈ p, b ≠ a) :
    sysAmpl M v1 (a :: p) = 0 := by
  induction p generalizing a with
  | nil => obtain ⟨b, hb, _⟩ := h; simp at hb
  | cons c rest ih =>
    simp only [sysAmpl]
    by_cases hca : c = a
    · subst hca
      obtain ⟨b, hb, hbc⟩ := h
      have : ∃ b ∈ rest, b ≠ c := by
        rcases List.mem_cons.mp hb with rfl | hb'
        · exact absurd rfl hbc
        · exact ⟨b, hb', hbc⟩
      rw [ih c this]; ring
    · rw [hM _ a c (Ne.symm hca)]; ring

/-- **Collapse**: with diagonal kernels the tested path state is a single sum over the index. -/
theorem pathState_diag (L : ℕ) (ρ0 : ℕ → K) (M : ℕ → ℕ → ℕ → K) (I : ℕ → ℕ → ℕ → ℕ → K)
    (hM : ∀ k a b, a ≠ b → M k a b = 0) (n : ℕ) (φ : ℕ → K) :
    pathState L ρ0 M I (n+1) φ =
      ∑ a ∈ range L, φ a * ((∏ k ∈ range (n+1), rowConst I (k+1) a) *
        ((∑ a0 ∈ range L, M 1 a a0 * ρ0 a0) * ∏ k ∈ range n, M (k+2) a a)) := by
  rw [pathState_ampl, pathSum_const_support]
  · apply Finset.sum_congr rfl; intro a _
    rw [inflProd_replicate, sysAmpl_replicate]
    simp [List.replicate_succ]
  · intro a p hex
    rw [sysAmpl_offdiag M _ hM a p hex]
    simp

end OQuPyVerif.PathSum
