/- C03: a process-tensor object answers `get_*` from what is stored NOW, whatever its history. -/
import OQuPyVerif.Model.MultiEnv

namespace OQuPyVerif.MultiEnv
open OQuPyVerif.Generated.MpoWiring

theorem cacheOk_empty {V W : Type} (f : V → W) : CacheOk f (PtObj.empty : PtObj V W) := by
  intro k w h; simp [PtObj.empty] at h

theorem cacheOk_step {V W : Type} (cw : CacheWiring) (hs : cacheSafe cw = true) (f : V → W)
    (s : PtObj V W) (h : CacheOk f s) (hc : cw.cached = false → ∀ k, s.cache k = none)
    (op : PtOp V) :
    CacheOk f (objStep cw f s op).1 ∧ (cw.cached = false → ∀ k, (objStep cw f s op).1.cache k = none) := by
  cases op with
  | set k v =>
    simp only [objStep]
    cases hi : cw.invalidatedBySet with
    | true =>
      refine ⟨?_, ?_⟩
      · intro j w hj
        simp only [updAt, if_true] at hj ⊢
        by_cases hjk : j = k
        · simp [hjk] at hj
        · simp only [hjk, if_false] at hj ⊢
          exact h j w hj
      · intro hcf j
        simp only [updAt, if_true]
        by_cases hjk : j = k
        · simp [hjk]
        · simp [hjk, hc hcf j]
    | false =>
      have hcf : cw.cached = false := by
        simp only [cacheSafe, hi, Bool.or_false, Bool.not_eq_true'] at hs
        exact hs
      refine ⟨?_, ?_⟩
      · intro j w hj
        simp only [Bool.false_eq_true, if_false] at hj
        rw [hc hcf j] at hj; cases hj
      · intro _ j
        simp only [Bool.false_eq_true, if_false]
        exact hc hcf j
  | get k =>
    simp only [objStep]
    cases hst : s.stored k with
    | none => exact ⟨h, hc⟩
    | some v =>
      cases hcd : cw.cached with
      | false => simp only [Bool.false_eq_true, if_false]; exact ⟨h, fun _ => hc hcd⟩
      | true =>
        simp only [if_true]
        cases hck : s.cache k with
        | some w => exact ⟨h, fun hf => by cases hf⟩
        | none =>
          refine ⟨?_, fun hf => by cases hf⟩
          intro j w hj
          simp only [updAt] at hj ⊢
          by_cases hjk : j = k
          · subst hjk
            simp only [if_true, Option.some.injEq] at hj
            exact ⟨v, hst, hj.symm⟩
          · simp only [hjk, if_false] at hj
            exact h j w hj

theorem objRun_ok {V W : Type} (cw : CacheWiring) (hs : cacheSafe cw = true) (f : V → W) :
    ∀ (ops : List (PtOp V)) (s : PtObj V W), CacheOk f s → (cw.cached = false → ∀ k, s.cache k = none) →
      CacheOk f (objRun cw f s ops) ∧ (cw.cached = false → ∀ k, (objRun cw f s ops).cache k = none) := by
  intro ops
  induction ops with
  | nil => intro s h hc; exact ⟨h, hc⟩
  | cons op ops ih =>
    intro s h hc
    obtain ⟨h1, h2⟩ := cacheOk_step cw hs f s h hc op
    exact ih _ h1 h2

/-- on a state whose memo is consistent, `get` answers with the image of what is stored NOW -/
theorem get_of_ok {V W : Type} (cw : CacheWiring) (f : V → W) (s : PtObj V W) (h : CacheOk f s)
    (k : Nat) : (objStep cw f s (.get k)).2 = (s.stored k).map f := by
  simp only [objStep]
  cases hst : s.stored k with
  | none => rfl
  | some v =>
    cases hcd : cw.cached with
    | false => simp
    | true =>
      simp only [if_true]
      cases hck : s.cache k with
      | none => simp
      | some w =>
        obtain ⟨v', hv', hw⟩ := h k w hck
        rw [hst] at hv'; cases hv'
        simp [hw]

/-- what is stored after a history: the last `set` of each step -/
theorem stored_objRun {V W : Type} (cw : CacheWiring) (f : V → W) :
    ∀ (ops : List (PtOp V)) (s : PtObj V W) (k : Nat),
      (objRun cw f s ops).stored k =
        ops.foldl (fun acc op => match op with
          | .set j v => if k = j then some v else acc
          | .get _ => acc) (s.stored k) := by
  intro ops
  induction ops with
  | nil => intro s k; rfl
  | cons op ops ih =>
    intro s k
    simp only [objRun, List.foldl_cons]
    rw [ih]
    congr 1
    cases op with
    | set j v => simp only [objStep, updAt]
    | get j =>
      simp only [objStep]
      cases s.stored j with
      | none => rfl
      | some v =>
        cases cw.cached with
        | false => rfl
        | true =>
          simp only [if_true]
          cases s.cache j <;> rfl

end OQuPyVerif.MultiEnv
